package corr

import (
	"flag"
	"fmt"
	"os"
	"strconv"
)

// Family runs one correspondence family: it executes generated inputs against
// the implementation and emits cases through the Ctx.
type Family func(c *Ctx) error

// Main is the entry point shared by every harness binary under cmd/.
//
//	<bin> <family> --prop Cxx --seed N --tier quick|thorough|search --out DIR [--replay FILE]
func Main(families map[string]Family) {
	if len(os.Args) < 2 {
		fmt.Fprintln(os.Stderr, "usage: <bin> <family> --prop Cxx --seed N --tier quick|thorough|search --out DIR [--replay FILE]")
		os.Exit(2)
	}
	fam := os.Args[1]
	fs := flag.NewFlagSet("corr", flag.ExitOnError)
	prop := fs.String("prop", "", "property id")
	seedS := fs.String("seed", "1", "seed")
	tier := fs.String("tier", "quick", "tier")
	out := fs.String("out", "", "output directory")
	replay := fs.String("replay", "", "replay file")
	fs.Parse(os.Args[2:])
	seed, err := strconv.ParseInt(*seedS, 10, 64)
	if err != nil {
		seed = 1
	}
	f, ok := families[fam]
	if !ok {
		fmt.Fprintf(os.Stderr, "unknown family %q\n", fam)
		os.Exit(2)
	}
	ctx, err := NewCtx(*prop, *tier, seed, *out, *replay)
	if err != nil {
		fmt.Fprintln(os.Stderr, err)
		os.Exit(2)
	}
	if err := f(ctx); err != nil {
		fmt.Fprintln(os.Stderr, "harness error:", err)
		os.Exit(3)
	}
	if err := ctx.Close(); err != nil {
		fmt.Fprintln(os.Stderr, err)
		os.Exit(2)
	}
}

// Package corr holds what every correspondence family shares: the case
// emitter, the single PRNG, Gallina literal printers.
package corr

import (
	"bufio"
	"encoding/hex"
	"encoding/json"
	"fmt"
	"math/rand"
	"os"
	"path/filepath"
	"sort"
	"strings"
)

// Ctx is handed to a family's Run function.
type Ctx struct {
	Prop   string
	Tier   string // quick | thorough | search
	Seed   int64
	Out    string
	Rng    *rand.Rand
	Replay string // path of a replay file, or ""

	w        *bufio.Writer
	f        *os.File
	n        int
	dist     map[string]int
	meta     map[string]any
	seen     map[string]bool
	distinct int
}

// Case is one emitted case.
type Case struct {
	Coq        string `json:"coq"`        // Gallina term of type `case` of the family's Run module
	Nontrivial bool   `json:"nontrivial"` // reached the family's interesting branch
	Desc       any    `json:"desc"`       // human-readable / replayable form
}

func NewCtx(prop, tier string, seed int64, out, replay string) (*Ctx, error) {
	if err := os.MkdirAll(out, 0o755); err != nil {
		return nil, err
	}
	f, err := os.Create(filepath.Join(out, "cases.jsonl"))
	if err != nil {
		return nil, err
	}
	return &Ctx{Prop: prop, Tier: tier, Seed: seed, Out: out, Replay: replay,
		Rng: rand.New(rand.NewSource(seed)), w: bufio.NewWriterSize(f, 1<<20), f: f,
		dist: map[string]int{}, meta: map[string]any{}, seen: map[string]bool{}}, nil
}

// Scale returns q in the quick tier, t in the thorough tier, s in search mode.
func (c *Ctx) Scale(q, t int) int {
	switch c.Tier {
	case "thorough":
		return t
	case "search":
		return q * 8
	}
	if os.Getenv("VERIF_DRIFT") == "1" {
		return q * 4
	}
	return q
}

func (c *Ctx) Emit(cs Case) {
	b, err := json.Marshal(cs)
	if err != nil {
		panic(err)
	}
	c.w.Write(b)
	c.w.WriteByte('\n')
	c.n++
	if cs.Nontrivial && !c.seen[cs.Coq] {
		c.seen[cs.Coq] = true
		c.distinct++
	}
}

// Count increments a distribution counter.
func (c *Ctx) Count(key string)         { c.dist[key]++ }
func (c *Ctx) CountN(key string, n int) { c.dist[key] += n }

// Meta sets a key of meta.json (run_module, rule, exhaustive, ...).
func (c *Ctx) Meta(key string, v any) { c.meta[key] = v }

func (c *Ctx) Close() error {
	if err := c.w.Flush(); err != nil {
		return err
	}
	if err := c.f.Close(); err != nil {
		return err
	}
	c.meta["evaluations"] = c.n
	c.meta["distinct_nontrivial"] = c.distinct
	c.meta["distribution"] = c.dist
	b, _ := json.MarshalIndent(c.meta, "", " ")
	return os.WriteFile(filepath.Join(c.Out, "meta.json"), b, 0o644)
}

// ---- Gallina literal printers ----

// Hex prints a byte string as a Coq string literal of lower-case hex, to be
// read back with Bytes.unhex.
func Hex(b []byte) string { return `"` + hex.EncodeToString(b) + `"` }

// UH prints `(unhex "..")`.
func UH(b []byte) string { return `(unhex "` + hex.EncodeToString(b) + `")` }

func N(v uint64) string { return fmt.Sprintf("%d", v) }

// Z prints a signed integer as a Z literal in parentheses.
func Z(v int64) string {
	if v < 0 {
		return fmt.Sprintf("(%d)%%Z", v)
	}
	return fmt.Sprintf("%d%%Z", v)
}

func Bool(b bool) string {
	if b {
		return "true"
	}
	return "false"
}

func List(items []string) string { return "[" + strings.Join(items, "; ") + "]" }

func ListN(vs []uint64) string {
	s := make([]string, len(vs))
	for i, v := range vs {
		s[i] = N(v)
	}
	return List(s)
}

func OptionStr(s string, some bool) string {
	if !some {
		return "None"
	}
	return "(Some " + s + ")"
}

func SortedKeys[V any](m map[string]V) []string {
	ks := make([]string, 0, len(m))
	for k := range m {
		ks = append(ks, k)
	}
	sort.Strings(ks)
	return ks
}

// Pick returns a random element.
func Pick[T any](r *rand.Rand, xs []T) T { return xs[r.Intn(len(xs))] }

// ReplayCases loads the cases of a replay file (see bin/check write_replay).
func (c *Ctx) ReplayCases() ([]Case, error) {
	if c.Replay == "" {
		return nil, nil
	}
	b, err := os.ReadFile(c.Replay)
	if err != nil {
		return nil, err
	}
	var r struct {
		Cases []Case `json:"cases"`
	}
	if err := json.Unmarshal(b, &r); err != nil {
		return nil, err
	}
	return r.Cases, nil
}

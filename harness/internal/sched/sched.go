// Package sched is a controlled scheduler for code instrumented with
// verifhook.Yield points (NoKV built with -tags verif).
//
// # Model
//
// A logical thread is a goroutine started with Spawn. It runs only while it
// holds the grant: Spawn lets it run up to its first Yield point (code before
// the first Yield must not touch shared state), where it parks. Every
// Grant(id) resumes thread id and returns when the thread
//
//   - parked at its next Yield point        -> Step.Status == Parked, Step.Point = name
//   - returned from its function            -> Finished
//   - blocked in a real lock/channel/select -> Blocked (see below)
//
// so one grant executes exactly the region between two Yield points: one
// atomic step of the corresponding Coq model on Base/Sched.v. A grant to a
// finished thread, to an unknown id, or to a thread whose Enabled guard is
// false does nothing and returns Step.Ran == false ("a disabled pick is
// skipped", as in Sched.run). Goroutines not started with Spawn pass through
// Yield points without stopping.
//
// # Blocking
//
// Preferred: put a Yield point immediately before every mutex Lock in the
// code under test and install an Enabled guard that tells whether the lock is
// free (e.g. through a TryLock probe exported by a *_verif.go file). Then no
// thread ever blocks for real and every run is deterministic.
//
// Fallback: if a granted thread neither parks nor finishes, the scheduler
// inspects the goroutine states (runtime.Stack); once the thread is waiting on a
// mutex, channel, select or condition variable AND no other goroutine of the
// process is running, runnable or in a system call (twice in a row), the grant
// returns Blocked. A thread that only waits for a helper goroutine or for I/O it
// started is therefore not mistaken for a blocked one. A
// blocked thread that is woken later by another thread's step runs on to its
// next Yield point (or its end) by itself; Grant waits for that to settle
// before it returns, so the next grant again sees a quiescent system. The
// woken thread's step is then part of the step that woke it; Step.Woken lists
// such threads.
//
// # API (all methods are to be called from one controlling goroutine)
//
//	s := sched.New()                      // installs the yield callback
//	s.SetEnabled(func(id int, point string) bool)   // optional guard
//	s.Spawn(id, func())                   // start thread, run to first Yield
//	st := s.Grant(id)                     // one atomic step
//	steps := s.Run(schedule, after)       // Grant each id; after(i, step) is called after each
//	s.Point(id), s.Finished(id), s.AllFinished(), s.Live()
//	s.Drain(max, after)                   // round-robin until all finished / nothing can run
//	s.Close()                             // uninstall; let remaining threads run freely, wait for them
//
// Schedules helpers: Prefixes (all words of a length over k threads),
// RandomBlocks (random schedule made of runs of the same thread).
package sched

import (
	"bytes"
	"math/rand"
	"runtime"
	"sort"
	"strconv"
	"sync"
	"time"

	"github.com/feichai0017/NoKV/utils/verifhook"
)

type Status int

const (
	Parked Status = iota
	Finished
	Blocked
	Unknown // no such thread
)

func (s Status) String() string {
	return [...]string{"parked", "finished", "blocked", "unknown"}[s]
}

// Step is the report of one grant.
type Step struct {
	Thread int
	Ran    bool   // false: the pick was skipped (finished, unknown, guard false, still blocked)
	Status Status // state of the thread after the grant
	Point  string // yield point at which it is parked now ("" unless Parked)
	From   string // yield point it was resumed from ("" if skipped)
	Woken  []int  // threads that were Blocked before this grant and moved during it
}

type thread struct {
	id      int
	gid     uint64
	resume  chan struct{}
	status  Status // Parked / Finished / Blocked; "running" is tracked by running
	running bool
	point   string
	free    bool // after Close: yields no longer park
}

type S struct {
	mu      sync.Mutex
	cond    *sync.Cond
	byGid   map[uint64]*thread
	byID    map[int]*thread
	order   []int
	enabled func(id int, point string) bool
	closed  bool
}

// New creates a scheduler and installs its yield callback (one scheduler at a time per process).
func New() *S {
	s := &S{byGid: map[uint64]*thread{}, byID: map[int]*thread{}}
	s.cond = sync.NewCond(&s.mu)
	verifhook.SetYield(s.yield)
	return s
}

// SetEnabled installs a guard consulted before resuming a thread parked at point.
func (s *S) SetEnabled(f func(id int, point string) bool) { s.enabled = f }

func curGid() uint64 {
	var buf [64]byte
	b := buf[:runtime.Stack(buf[:], false)]
	b = bytes.TrimPrefix(b, []byte("goroutine "))
	i := bytes.IndexByte(b, ' ')
	if i < 0 {
		return 0
	}
	n, _ := strconv.ParseUint(string(b[:i]), 10, 64)
	return n
}

func (s *S) yield(name string) {
	gid := curGid()
	s.mu.Lock()
	t := s.byGid[gid]
	if t == nil || t.free {
		s.mu.Unlock()
		return
	}
	t.status, t.point, t.running = Parked, name, false
	s.cond.Broadcast()
	s.mu.Unlock()
	<-t.resume
}

// Spawn starts logical thread id running f and waits until it parked at its first Yield point
// (or finished / blocked).
func (s *S) Spawn(id int, f func()) Step {
	t := &thread{id: id, resume: make(chan struct{}, 1), running: true}
	ready := make(chan struct{})
	go func() {
		t.gid = curGid()
		s.mu.Lock()
		s.byGid[t.gid] = t
		s.byID[id] = t
		s.order = append(s.order, id)
		s.mu.Unlock()
		close(ready)
		defer func() {
			s.mu.Lock()
			t.status, t.point, t.running = Finished, "", false
			delete(s.byGid, t.gid)
			s.cond.Broadcast()
			s.mu.Unlock()
		}()
		f()
	}()
	<-ready
	return s.await(t, "")
}

// goroutine wait states that mean "blocked on synchronisation"
func blockedState(st string) bool {
	for _, p := range []string{"semacquire", "sync.", "chan ", "select", "sleep"} {
		if len(st) >= len(p) && st[:len(p)] == p {
			return true
		}
	}
	return false
}

// blockedQuiescent reports whether goroutine gid is waiting on synchronisation while no other
// goroutine of the process (apart from the caller) is running, runnable or inside a system call.
// The second condition matters: a thread that merely waits for a helper goroutine or for I/O it
// started itself (e.g. a file-system hook that opens a store) is in a "chan receive"/"semacquire"
// state for a moment, but then some other goroutine is active; a thread blocked on a lock held by
// a parked thread leaves the whole process idle.
func blockedQuiescent(gid uint64) (blocked, quiescent bool) {
	buf := make([]byte, 1<<16)
	for {
		n := runtime.Stack(buf, true)
		if n < len(buf) {
			buf = buf[:n]
			break
		}
		buf = make([]byte, 2*len(buf))
	}
	self := curGid()
	target, active := false, false
	for _, blk := range bytes.Split(buf, []byte("\n\n")) {
		if !bytes.HasPrefix(blk, []byte("goroutine ")) {
			continue
		}
		rest := blk[len("goroutine "):]
		sp := bytes.IndexByte(rest, ' ')
		if sp < 0 || sp+2 > len(rest) || rest[sp+1] != '[' {
			continue
		}
		id, err := strconv.ParseUint(string(rest[:sp]), 10, 64)
		if err != nil {
			continue
		}
		st := rest[sp+2:]
		if j := bytes.IndexAny(st, "],"); j >= 0 {
			st = st[:j]
		}
		state := string(st)
		switch {
		case id == gid:
			target = blockedState(state)
		case id == self:
		case state == "running" || state == "runnable" || state == "syscall":
			active = true
		}
	}
	return target, target && !active
}

// settleOne waits until t is parked, finished or provably blocked.
func (s *S) settleOne(t *thread) {
	spins := 0
	var blockedSince time.Time // the thread has been seen waiting at every sample since then
	for {
		s.mu.Lock()
		if !t.running {
			s.mu.Unlock()
			return
		}
		s.mu.Unlock()
		spins++
		if spins < 200 {
			runtime.Gosched()
			continue
		}
		if spins%20 == 0 {
			b1, q1 := blockedQuiescent(t.gid)
			if !b1 {
				blockedSince = time.Time{}
			} else if blockedSince.IsZero() {
				blockedSince = time.Now()
			}
			confirmed := false
			if q1 {
				time.Sleep(200 * time.Microsecond)
				_, q2 := blockedQuiescent(t.gid)
				confirmed = q2
			}
			// safety net: some unrelated goroutine never goes idle (e.g. one parked in a system call)
			if !confirmed && b1 && time.Since(blockedSince) > 500*time.Millisecond {
				confirmed = true
			}
			if confirmed {
				// confirm: still not moved
				s.mu.Lock()
				if t.running {
					t.status = Blocked
				}
				s.mu.Unlock()
				return
			}
		}
		time.Sleep(20 * time.Microsecond)
	}
}

func (s *S) await(t *thread, from string) Step {
	// threads blocked before this step, to see who was woken
	s.mu.Lock()
	var blockedBefore []*thread
	for _, id := range s.order {
		u := s.byID[id]
		if u != t && u.running && u.status == Blocked {
			blockedBefore = append(blockedBefore, u)
		}
	}
	s.mu.Unlock()
	s.settleOne(t)
	var woken []int
	for _, u := range blockedBefore {
		s.settleOne(u)
		s.mu.Lock()
		if !u.running {
			woken = append(woken, u.id)
		}
		s.mu.Unlock()
	}
	s.mu.Lock()
	defer s.mu.Unlock()
	return Step{Thread: t.id, Ran: true, Status: t.status, Point: t.point, From: from, Woken: woken}
}

// Grant lets thread id execute one atomic step.
func (s *S) Grant(id int) Step {
	s.mu.Lock()
	t := s.byID[id]
	if t == nil {
		s.mu.Unlock()
		return Step{Thread: id, Status: Unknown}
	}
	if t.running { // still blocked from an earlier grant
		s.mu.Unlock()
		s.settleOne(t)
		s.mu.Lock()
		if t.running {
			s.mu.Unlock()
			return Step{Thread: id, Status: Blocked}
		}
	}
	if t.status == Finished {
		s.mu.Unlock()
		return Step{Thread: id, Status: Finished}
	}
	from := t.point
	if s.enabled != nil {
		s.mu.Unlock()
		ok := s.enabled(id, from)
		s.mu.Lock()
		if !ok {
			s.mu.Unlock()
			return Step{Thread: id, Status: Parked, Point: from}
		}
	}
	t.running = true
	s.mu.Unlock()
	t.resume <- struct{}{}
	return s.await(t, from)
}

// Run grants the threads of schedule in order; after (may be nil) is called after every grant.
func (s *S) Run(schedule []int, after func(i int, st Step)) []Step {
	out := make([]Step, 0, len(schedule))
	for i, id := range schedule {
		st := s.Grant(id)
		out = append(out, st)
		if after != nil {
			after(i, st)
		}
	}
	return out
}

// Point returns the yield point thread id is parked at ("" if not parked).
func (s *S) Point(id int) string {
	s.mu.Lock()
	defer s.mu.Unlock()
	if t := s.byID[id]; t != nil && !t.running && t.status == Parked {
		return t.point
	}
	return ""
}

func (s *S) Finished(id int) bool {
	s.mu.Lock()
	defer s.mu.Unlock()
	t := s.byID[id]
	return t != nil && t.status == Finished
}

// Live returns the ids of threads that have not finished, ascending.
func (s *S) Live() []int {
	s.mu.Lock()
	defer s.mu.Unlock()
	var out []int
	for _, id := range s.order {
		if s.byID[id].status != Finished {
			out = append(out, id)
		}
	}
	sort.Ints(out)
	return out
}

func (s *S) AllFinished() bool { return len(s.Live()) == 0 }

// Drain grants live threads round-robin (ascending id) until all finished, no thread
// could run in a full round, or max grants were issued. It returns the picks it made
// (including skipped ones, so that the list is a schedule for Sched.run).
func (s *S) Drain(max int, after func(i int, st Step)) ([]int, []Step) {
	var picks []int
	var steps []Step
	for len(picks) < max {
		live := s.Live()
		if len(live) == 0 {
			break
		}
		progressed := false
		for _, id := range live {
			if len(picks) >= max {
				break
			}
			st := s.Grant(id)
			picks = append(picks, id)
			steps = append(steps, st)
			if after != nil {
				after(len(picks)-1, st)
			}
			if st.Ran {
				progressed = true
			}
		}
		if !progressed {
			break
		}
	}
	return picks, steps
}

// Close uninstalls the callback and lets every unfinished thread run freely; it waits up
// to timeout for them to finish and reports whether all did.
func (s *S) Close(timeout time.Duration) bool {
	s.mu.Lock()
	var parked []*thread
	for _, id := range s.order {
		t := s.byID[id]
		t.free = true
		if !t.running && t.status == Parked {
			t.running = true
			parked = append(parked, t)
		}
	}
	s.mu.Unlock()
	for _, t := range parked {
		t.resume <- struct{}{}
	}
	deadline := time.Now().Add(timeout)
	ok := true
	s.mu.Lock()
	for _, id := range s.order {
		t := s.byID[id]
		for t.status != Finished {
			if time.Now().After(deadline) {
				ok = false
				break
			}
			s.mu.Unlock()
			time.Sleep(50 * time.Microsecond)
			s.mu.Lock()
		}
	}
	s.mu.Unlock()
	verifhook.SetYield(nil)
	return ok
}

// Prefixes calls f with every word of length n over the alphabet {0..k-1}
// (k^n schedules); f returns false to stop.
func Prefixes(k, n int, f func(word []int) bool) {
	w := make([]int, n)
	for {
		if !f(append([]int(nil), w...)) {
			return
		}
		i := n - 1
		for i >= 0 {
			w[i]++
			if w[i] < k {
				break
			}
			w[i] = 0
			i--
		}
		if i < 0 {
			return
		}
	}
}

// RandomBlocks returns a schedule of total length n made of runs of one thread
// (run lengths 1..maxRun), which reaches deep interleavings with few context switches.
func RandomBlocks(r *rand.Rand, k, n, maxRun int) []int {
	var out []int
	last := -1
	for len(out) < n {
		t := r.Intn(k)
		if k > 1 && t == last {
			continue
		}
		last = t
		l := 1 + r.Intn(maxRun)
		for i := 0; i < l && len(out) < n; i++ {
			out = append(out, t)
		}
	}
	return out
}

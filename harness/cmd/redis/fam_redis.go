package main

// C29: random single-client command sequences against the real gateway
// (embedded backend) over TCP; raw reply bytes of every command are recorded.
// Every case uses its own key prefix on a shared gateway process, and no
// reply depends on the wall clock: EXAT/PXAT lie in the far past or far
// future, EX/PX are either huge or invalid.

import (
	"encoding/hex"
	"encoding/json"
	"fmt"
	"math/rand"
	"os"
	"path/filepath"
	"strconv"
	"strings"
	"time"

	"verifharness/internal/corr"
)

type redisCmd struct {
	Now   int64    `json:"now"`    // Unix seconds when the command was sent
	NowMs int64    `json:"now_ms"` // the same clock reading in milliseconds
	Args  []string `json:"args"`   // hex
}

type redisDesc struct {
	Backend string     `json:"backend"` // embedded | raft (raftBackend over the in-process fake client)
	Cmds    []redisCmd `json:"cmds"`
	Replies []string   `json:"replies"` // hex, as observed
	Text    []string   `json:"text"`    // human-readable: command -> reply
}

var redisValues = []string{"", "0", "-1", "1", "9223372036854775807", "-9223372036854775808", "9223372036854775806",
	" 12", "12 ", "abc", "  ", "\t", "+5", "007", "-0", "10", "9223372036854775808", "3.0", "x\r\ny", "\xc2\xa0"}

var redisDeltas = []string{"1", "-1", "0", "5", "-5", "9223372036854775807", "-9223372036854775808", "-9223372036854775807",
	"9223372036854775808", "abc", "", " 1", "+2", "1.5", "007"}

var redisExpireArgs = map[string][]string{
	"EX":   {"1000000", "9223372036", "9223372037", "9223372036854775807", "0", "-1", "abc", "", "4000000000"},
	"PX":   {"1000000000000", "9223372036854", "9223372036855", "9223372036854775807", "0", "-5", "x", "5000000000"},
	"EXAT": {"1", "1000000000", "4000000000", "9223372036854775807", "0", "-1", "q"},
	"PXAT": {"1", "999", "1000", "1000000000000", "4000000000000", "9223372036854775807", "0", "-1", "zz"},
}

func mixCase(r *rand.Rand, s string) string {
	switch r.Intn(4) {
	case 0:
		return strings.ToLower(s)
	case 1:
		b := []byte(strings.ToLower(s))
		for i := range b {
			if r.Intn(2) == 0 {
				b[i] = strings.ToUpper(string(b[i]))[0]
			}
		}
		return string(b)
	}
	return s
}

func genRedisSeq(r *rand.Rand, prefix string, n int, emptyKeys bool) [][]string {
	keys := []string{prefix + "a", prefix + "b", prefix + "c", prefix + "d"}
	key := func() string {
		if emptyKeys && r.Intn(12) == 0 {
			return ""
		}
		return keys[r.Intn(len(keys))]
	}
	val := func() string { return redisValues[r.Intn(len(redisValues))] }
	someKeys := func() []string {
		m := 1 + r.Intn(3)
		out := make([]string, m)
		for i := range out {
			out[i] = key()
		}
		return out
	}
	var seq [][]string
	for i := 0; i < n; i++ {
		var c []string
		switch x := r.Intn(100); {
		case x < 22: // SET with options
			c = []string{"SET", key(), val()}
			for j, m := 0, r.Intn(4); j < m; j++ {
				switch r.Intn(7) {
				case 0:
					c = append(c, mixCase(r, "NX"))
				case 1:
					c = append(c, mixCase(r, "XX"))
				case 2:
					c = append(c, "KEEPTTL")
				case 3:
					c = append(c, "bogus")
				default:
					opt := []string{"EX", "PX", "EXAT", "PXAT"}[r.Intn(4)]
					c = append(c, mixCase(r, opt))
					if r.Intn(12) != 0 {
						as := redisExpireArgs[opt]
						c = append(c, as[r.Intn(len(as))])
					}
				}
			}
		case x < 34:
			c = []string{"GET", key()}
		case x < 42:
			c = append([]string{"DEL"}, someKeys()...)
		case x < 48:
			c = append([]string{"EXISTS"}, someKeys()...)
		case x < 54:
			c = append([]string{"MGET"}, someKeys()...)
		case x < 60:
			c = []string{"MSET"}
			for j, m := 0, 1+r.Intn(3); j < m; j++ {
				c = append(c, key(), val())
			}
			if r.Intn(8) == 0 {
				c = append(c, key())
			}
		case x < 70:
			c = []string{"INCR", key()}
		case x < 76:
			c = []string{"DECR", key()}
		case x < 84:
			c = []string{"INCRBY", key(), redisDeltas[r.Intn(len(redisDeltas))]}
		case x < 92:
			c = []string{"DECRBY", key(), redisDeltas[r.Intn(len(redisDeltas))]}
		case x < 94:
			c = []string{"PING"}
			for j, m := 0, r.Intn(3); j < m; j++ {
				c = append(c, val())
			}
		case x < 96:
			c = []string{"ECHO"}
			for j, m := 0, r.Intn(3); j < m; j++ {
				c = append(c, val())
			}
		case x < 98: // arity / unknown
			names := []string{"GET", "SET", "DEL", "MGET", "MSET", "INCR", "DECR", "INCRBY", "DECRBY", "EXISTS", "ECHO", "FOO", "get2", "Hello"}
			c = []string{names[r.Intn(len(names))]}
			for j, m := 0, r.Intn(5); j < m; j++ {
				c = append(c, key())
			}
		default:
			if r.Intn(4) == 0 {
				c = []string{"QUIT"}
			} else {
				c = []string{"GET", key()}
			}
		}
		c[0] = mixCase(r, c[0])
		seq = append(seq, c)
	}
	// final observation of every key
	seq = append(seq, append([]string{"MGET"}, keys...), append([]string{"EXISTS"}, keys...))
	for _, k := range keys {
		seq = append(seq, []string{"GET", k})
	}
	return seq
}

func runRedisSeq(g *gateway, seq [][]string) (redisDesc, error) {
	var d redisDesc
	cn, err := g.dial()
	if err != nil {
		return d, err
	}
	defer cn.close()
	err = runRedisOn(cn, &d, seq)
	return d, err
}

// runRedisOn runs seq on an open connection and appends what it observes to d.
func runRedisOn(cn *conn, d *redisDesc, seq [][]string) error {
	for _, c := range seq {
		args := make([][]byte, len(c))
		hx := make([]string, len(c))
		for i, a := range c {
			args[i] = []byte(a)
			hx[i] = hex.EncodeToString(args[i])
		}
		t := time.Now()
		rep, err := cn.do(args...)
		if err != nil {
			return fmt.Errorf("command %q: %v (partial reply %q)", c, err, rep)
		}
		d.Cmds = append(d.Cmds, redisCmd{Now: t.Unix(), NowMs: t.UnixMilli(), Args: hx})
		d.Replies = append(d.Replies, hex.EncodeToString(rep))
		d.Text = append(d.Text, fmt.Sprintf("%q -> %q", c, rep))
		if strings.EqualFold(c[0], "QUIT") {
			break
		}
	}
	return nil
}

// runTTLCases: keys with a real, short time to live. Phase 1 of every case
// (SET with EX/PX/EXAT/PXAT three seconds ahead, then INCR-family or
// overwriting commands, then observation: the value must still be there) runs
// at once; after one common wait until every deadline has certainly passed,
// phase 2 observes the key again (GET/EXISTS/MGET, INCR from scratch). The
// clock value of each command is recorded, so the model applies the same
// expiry arithmetic; no command is issued within a second of a deadline.
func runTTLCases(gateways map[string]*gateway, seed int64, emit func(redisDesc)) error {
	type open struct {
		cn      *conn
		d       redisDesc
		key     string
		backend string
	}
	var opens []*open
	defer func() {
		for _, o := range opens {
			o.cn.close()
		}
	}()
	const ttl = 3
	mids := [][][]string{
		{},              // plain expiry
		{{"INCR", "K"}}, // the TTL must survive INCR
		{{"DECR", "K"}},
		{{"INCRBY", "K", "5"}},
		{{"DECRBY", "K", "2"}},
		{{"INCR", "K"}, {"INCR", "K"}, {"DECR", "K"}},
		{{"INCR", "K"}, {"MGET", "K"}, {"INCRBY", "K", "10"}},
		{{"SET", "K", "9"}}, // SET / MSET discard the TTL: the key must stay
		{{"MSET", "K", "9"}},
		{{"SET", "K", "9", "XX"}},
		{{"INCR", "K"}, {"SET", "K", "9"}},
		{{"SET", "K", "9"}, {"INCR", "K"}},
		{{"DEL", "K"}, {"INCR", "K"}}, // recreated without TTL
		{{"SET", "K", "9", "NX"}, {"INCR", "K"}},
	}
	n := 0
	var latest int64

	// Sub-second deadlines. The store keeps expiry in whole seconds (floor); the
	// gateway bumps a PX deadline that would fall into the current second to the
	// next one, so SET .. PX n with n < 1000 must be readable for the rest of the
	// second it was issued in and gone from the next second on, wherever in the
	// second it was issued; PXAT is stored as floor(ms/1000) without a bump. Each
	// batch is issued at a chosen position inside a second (early: 40-90 ms,
	// late: 600-650 ms) and is discarded if it did not finish within that second,
	// so every recorded clock value is the second the server saw.
	for _, pos := range []struct {
		name   string
		lo, hi int
	}{{"early", 40, 90}, {"late", 600, 650}} {
		for attempt := 0; attempt < 5; attempt++ {
			for {
				ms := int(time.Now().UnixMilli() % 1000)
				if ms >= pos.lo && ms <= pos.hi {
					break
				}
				time.Sleep(5 * time.Millisecond)
			}
			sec := time.Now().Unix()
			var batch []*open
			var berr error
			for _, backend := range []string{"embedded", "raft"} {
				for _, px := range []int{1, 100, 300, 500, 900, 999} {
					for _, variant := range []string{"plain", "nx", "xx", "nx_existing", "pxat"} {
						if variant != "plain" && px != 100 && px != 500 {
							continue
						}
						n++
						key := fmt.Sprintf("u%d.%d:k", seed, n)
						cn, err := gateways[backend].dial()
						if err != nil {
							return err
						}
						o := &open{cn: cn, key: key, backend: backend}
						batch = append(batch, o)
						var seq [][]string
						switch variant {
						case "plain":
							seq = [][]string{{"SET", key, "41", "PX", strconv.Itoa(px)}}
						case "nx":
							seq = [][]string{{"SET", key, "41", "NX", "PX", strconv.Itoa(px)}}
						case "xx":
							seq = [][]string{{"SET", key, "7"}, {"SET", key, "41", "PX", strconv.Itoa(px), "XX"}}
						case "nx_existing":
							seq = [][]string{{"SET", key, "7"}, {"SET", key, "41", "PX", strconv.Itoa(px), "NX"}}
						default:
							seq = [][]string{{"SET", key, "41", "PXAT", strconv.FormatInt(time.Now().UnixMilli()+int64(px), 10)}}
						}
						seq = append(seq, []string{"GET", key}, []string{"EXISTS", key}, []string{"INCR", key}, []string{"GET", key})
						if err := runRedisOn(cn, &o.d, seq); err != nil {
							berr = err
						}
					}
				}
			}
			if berr != nil {
				return berr
			}
			if time.Now().Unix() == sec {
				opens = append(opens, batch...)
				if d := sec + 3; d > latest {
					latest = d
				}
				break
			}
			// the batch crossed a second boundary: drop it and try again
			for _, o := range batch {
				o.cn.close()
			}
		}
	}

	for _, backend := range []string{"embedded", "raft"} {
		for oi, opt := range []string{"EX", "PX", "EXAT", "PXAT"} {
			for mi, mid := range mids {
				if (mi+oi)%2 == 1 && mi > 6 {
					continue // keep the run short: half of the overwrite variants per option
				}
				n++
				key := fmt.Sprintf("t%d.%d:k", seed, n)
				cn, err := gateways[backend].dial()
				if err != nil {
					return err
				}
				o := &open{cn: cn, key: key, backend: backend}
				opens = append(opens, o)
				now := time.Now().Unix()
				var exp string
				switch opt {
				case "EX":
					exp = strconv.Itoa(ttl)
				case "PX":
					exp = strconv.Itoa(ttl * 1000)
				case "EXAT":
					exp = strconv.FormatInt(now+ttl, 10)
				default:
					exp = strconv.FormatInt((now+ttl)*1000, 10)
				}
				if d := now + ttl + 2; d > latest {
					latest = d
				}
				seq := [][]string{{"SET", key, "41", opt, exp}}
				for _, m := range mid {
					c := append([]string(nil), m...)
					for i := range c {
						if c[i] == "K" {
							c[i] = key
						}
					}
					seq = append(seq, c)
				}
				seq = append(seq, []string{"GET", key}, []string{"EXISTS", key})
				if err := runRedisOn(cn, &o.d, seq); err != nil {
					return err
				}
			}
		}
	}
	for time.Now().Unix() < latest {
		time.Sleep(100 * time.Millisecond)
	}
	for _, o := range opens {
		seq := [][]string{{"GET", o.key}, {"EXISTS", o.key}, {"MGET", o.key}, {"INCR", o.key}, {"GET", o.key}}
		if err := runRedisOn(o.cn, &o.d, seq); err != nil {
			return err
		}
		o.d.Backend = o.backend
		emit(o.d)
	}
	return nil
}

func printable(b []byte) bool {
	for _, x := range b {
		if x < 0x20 || x > 0x7e || x == '"' {
			return false
		}
	}
	return true
}

// coqSeg prints one byte string as A "text" or X "hex".
func coqSeg(b []byte, line bool) string {
	tag, htag := "A", "X"
	if line {
		tag, htag = "L", "XL"
	}
	if printable(b) {
		return fmt.Sprintf("%s \"%s\"", tag, b)
	}
	return fmt.Sprintf("%s \"%s\"", htag, hex.EncodeToString(b))
}

// coqReply prints raw reply bytes as a list of CRLF-terminated lines.
func coqReply(rep []byte) string {
	var segs []string
	for len(rep) > 0 {
		i := strings.Index(string(rep), "\r\n")
		if i < 0 {
			segs = append(segs, coqSeg(rep, false))
			break
		}
		segs = append(segs, coqSeg(rep[:i], true))
		rep = rep[i+2:]
	}
	return corr.List(segs)
}

func redisCaseTerm(d redisDesc) string {
	cmds := make([]string, len(d.Cmds))
	for i, c := range d.Cmds {
		as := make([]string, len(c.Args))
		for j, a := range c.Args {
			b, _ := hex.DecodeString(a)
			as[j] = coqSeg(b, false)
		}
		if c.NowMs != 0 {
			cmds[i] = fmt.Sprintf("Cm %d %s", c.NowMs, corr.List(as))
		} else {
			cmds[i] = fmt.Sprintf("C %d %s", c.Now, corr.List(as))
		}
	}
	reps := make([]string, len(d.Replies))
	for i, r := range d.Replies {
		b, _ := hex.DecodeString(r)
		reps[i] = coqReply(b)
	}
	return fmt.Sprintf("Cs %s %s", corr.List(cmds), corr.List(reps))
}

func runRedis(c *corr.Ctx) error {
	c.Meta("run_module", "RunRedis")
	c.Meta("rule", "two deployments of the same binary, alternating: embedded backend (real DB) and raft backend (backend_raft.go over the hook's in-process MVCC fake of the raft client, sequential clients only); sub-second deadlines on both backends (SET k 41 PX 1..999, with NX / XX / NX on an existing key, and PXAT now+100/500 ms, issued 40-90 ms and 600-650 ms into a second and only kept if the whole batch stayed inside that second; GET/EXISTS/INCR immediately, then after the common wait); real-clock TTL cases on both backends (SET k 41 EX/PX/EXAT/PXAT three seconds ahead; INCR/DECR/INCRBY/DECRBY, SET/MSET/SET XX/DEL+INCR on it; GET/EXISTS before the deadline; one common wait; GET/EXISTS/MGET/INCR/GET after it: a TTL kept by the INCR family makes the key absent, a TTL discarded by SET/MSET leaves it); 100 directed sequences per run (SET with past/future expiry, then MSET/SET/SET XX/SET NX/INCR/DEL/INCRBY on that key, then GET/EXISTS/INCR/DEL/MGET); random single-connection command sequences (5-40 commands + final MGET/EXISTS/GET of every key) over 4 keys with a per-case prefix; 20 values (empty, white space, int64 limits, non-integers, +5, 007, CRLF); SET with NX/XX/EX/PX/EXAT/PXAT/KEEPTTL/bogus options in random order and case, expiry arguments in the far past/future, zero, negative, non-integer, overflowing; DEL/EXISTS/MGET/MSET with repeated keys and odd arity; INCR/DECR/INCRBY/DECRBY with 15 deltas incl. -2^63; PING/ECHO with 0-2 arguments; unknown commands; QUIT. Raw reply bytes of every command compared. non-trivial = at least one write command succeeded; distinct by Gallina term")
	bin, err := buildGateway(c.Out)
	if err != nil {
		return err
	}
	g, err := startGateway(bin, c.Out)
	if err != nil {
		return err
	}
	defer g.stop()
	// second deployment: the real raftBackend (backend_raft.go) behind the same
	// server, over the hook's in-process fake of the raft client
	gr, err := startGateway(bin, c.Out, "NOKV_VERIF_MODE=raftfake")
	if err != nil {
		return err
	}
	defer gr.stop()
	// the hook logs its banner right after Listen; an old hook ignores the mode
	// and would start the ordinary embedded server instead
	isFake := false
	var glog []byte
	for i := 0; i < 40 && !isFake; i++ {
		glog, _ = os.ReadFile(filepath.Join(gr.dir, "gateway.log"))
		isFake = strings.Contains(string(glog), "in-process fake")
		if !isFake {
			time.Sleep(50 * time.Millisecond)
		}
	}
	if !isFake {
		return fmt.Errorf("the gateway built from %s has no raftfake hook mode (cmd/nokv-redis/verif_hook_verif.go too old): refusing to run the raft half of the family against something else; log: %s", os.Getenv("VERIF_REPO"), glog)
	}
	gateways := map[string]*gateway{"embedded": g, "raft": gr}

	emit := func(d redisDesc) {
		c.Count("backend_" + d.Backend)
		nontrivial := false
		for i, cm := range d.Cmds {
			a0, _ := hex.DecodeString(cm.Args[0])
			name := strings.ToUpper(string(a0))
			c.Count("cmd_" + name)
			rep, _ := hex.DecodeString(d.Replies[i])
			switch {
			case len(rep) > 0 && rep[0] == '-':
				c.Count("reply_error")
				c.Count("err_" + strings.TrimSpace(string(rep[1:min(len(rep), 30)])))
			case name == "SET" || name == "MSET" || name == "INCR" || name == "DECR" || name == "INCRBY" || name == "DECRBY" || name == "DEL":
				if string(rep) != "$-1\r\n" {
					nontrivial = true
				}
			}
		}
		c.Emit(corr.Case{Coq: redisCaseTerm(d), Nontrivial: nontrivial, Desc: d})
	}

	if c.Replay != "" {
		cases, err := c.ReplayCases()
		if err != nil {
			return err
		}
		for i, cs := range cases {
			b, _ := json.Marshal(cs.Desc)
			var d redisDesc
			if err := json.Unmarshal(b, &d); err != nil {
				return err
			}
			// re-run the same commands under a fresh key prefix
			var seq [][]string
			for _, cm := range d.Cmds {
				var as []string
				for _, a := range cm.Args {
					x, _ := hex.DecodeString(a)
					as = append(as, string(x))
				}
				seq = append(seq, as)
			}
			seq = rePrefix(seq, fmt.Sprintf("r%d.%d:", time.Now().UnixNano()%1000000, i))
			tg := gateways[d.Backend]
			if tg == nil {
				tg, d.Backend = g, "embedded"
			}
			nd, err := runRedisSeq(tg, seq)
			if err != nil {
				return err
			}
			nd.Backend = d.Backend
			emit(nd)
		}
		return nil
	}

	// keys with a real three-second time to live, observed before and after it
	if err := runTTLCases(gateways, c.Seed, func(d redisDesc) { c.Count("ttl_real_clock"); emit(d) }); err != nil {
		return err
	}

	// directed sequences (both backends): overwrite / delete / increment a key
	// that carries an expiry in the past or in the far future, then observe it
	di := 0
	for _, backend := range []string{"embedded", "raft"} {
		for _, exp := range [][]string{{"EXAT", "1"}, {"PXAT", "1000"}, {"EXAT", "4000000000"}, {"EX", "1000000"}, {"PX", "5000000000"}} {
			for _, over := range [][]string{{"MSET", "K", "y"}, {"MSET", "K", "y", "K", "z"}, {"SET", "K", "y"}, {"SET", "K", "y", "XX"},
				{"SET", "K", "y", "NX"}, {"INCR", "K"}, {"DEL", "K", "K"}, {"DEL", "K"}, {"INCRBY", "K", "5"}, {"MSET", "J", "1", "K", "  "}} {
				di++
				k := fmt.Sprintf("d%d.%d:a", c.Seed, di)
				j := fmt.Sprintf("d%d.%d:b", c.Seed, di)
				sub := func(as []string) []string {
					out := make([]string, len(as))
					for i, a := range as {
						switch a {
						case "K":
							a = k
						case "J":
							a = j
						}
						out[i] = a
					}
					return out
				}
				val := []string{"7", "x"}[di%2]
				seq := [][]string{append([]string{"SET", k, val}, exp...), sub(over), {"GET", k}, {"EXISTS", k, j}, {"INCR", k}, {"DEL", k, j}, {"MGET", k, j}}
				d, err := runRedisSeq(gateways[backend], seq)
				if err != nil {
					return err
				}
				d.Backend = backend
				c.Count("directed_expiry")
				emit(d)
			}
		}
	}

	n := c.Scale(300, 12000)
	for i := 0; i < n; i++ {
		prefix := fmt.Sprintf("s%d.%d:", c.Seed, i)
		seq := genRedisSeq(c.Rng, prefix, 5+c.Rng.Intn(36), false)
		backend := "embedded"
		if i%2 == 1 {
			backend = "raft"
		}
		d, err := runRedisSeq(gateways[backend], seq)
		if err != nil {
			return err
		}
		d.Backend = backend
		emit(d)
	}
	return nil
}

// rePrefix replaces the "<prefix>:" part of every key-looking argument.
func rePrefix(seq [][]string, prefix string) [][]string {
	out := make([][]string, len(seq))
	for i, c := range seq {
		out[i] = make([]string, len(c))
		for j, a := range c {
			if k := strings.Index(a, ":"); j > 0 && k > 0 && k < 24 && (a[0] == 's' || a[0] == 'r') && len(a) == k+2 {
				a = prefix + a[k+1:]
			}
			out[i][j] = a
		}
	}
	return out
}

package main

import (
	"fmt"

	"verifharness/internal/corr"
)

func runRedis(c *corr.Ctx) error     { return fmt.Errorf("family redis: not built yet") }
func runRedisConc(c *corr.Ctx) error { return fmt.Errorf("family redisconc: not built yet") }

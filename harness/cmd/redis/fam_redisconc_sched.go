package main

// C30, controlled schedules and stress with long-lived readers.
//
// Controlled: the gateway binary runs main() on an in-process listener (hook
// mode "sched", cmd/nokv-redis/verif_hook_verif.go) and executes a schedule:
// every pick runs one client's begin step (deliver the command, run it up to
// oracle.newCommitTs) or its commit step. The schedule is known, so the model
// (Model/RedisConc.v final true ...) predicts acknowledged deltas, OKs,
// conflicts and the final value exactly.

import (
	"bufio"
	"encoding/hex"
	"encoding/json"
	"fmt"
	"io"
	"math/rand"
	"os"
	"os/exec"
	"path/filepath"
	"strconv"
	"strings"
	"sync"
	"sync/atomic"
	"syscall"
	"time"

	"verifharness/internal/corr"
)

type schedReq struct {
	Setup    [][]string   `json:"setup"`
	Clients  [][][]string `json:"clients"`
	Schedule []int        `json:"schedule"`
	Final    [][]string   `json:"final"`
}

type schedStep struct {
	Client int    `json:"client"`
	Step   string `json:"step"`
}

type schedRes struct {
	Setup   []string    `json:"setup"`
	Clients [][]string  `json:"clients"`
	Trace   []schedStep `json:"trace"`
	Final   []string    `json:"final"`
	Err     string      `json:"err"`
}

type schedChild struct {
	cmd *exec.Cmd
	in  io.WriteCloser
	out *bufio.Reader
	dir string
}

func startSchedChild(bin, base string) (*schedChild, error) {
	dir, err := os.MkdirTemp(base, "sched-")
	if err != nil {
		return nil, err
	}
	cmd := guarded(bin, 16<<20, "-workdir", filepath.Join(dir, "work"))
	cmd.Env = append(os.Environ(), "NOKV_VERIF_MODE=sched")
	in, err := cmd.StdinPipe()
	if err != nil {
		return nil, err
	}
	out, err := cmd.StdoutPipe()
	if err != nil {
		return nil, err
	}
	logf, err := os.Create(filepath.Join(dir, "gateway.log"))
	if err != nil {
		return nil, err
	}
	cmd.Stderr = logf
	if err := cmd.Start(); err != nil {
		return nil, err
	}
	return &schedChild{cmd: cmd, in: in, out: bufio.NewReaderSize(out, 1<<20), dir: dir}, nil
}

func (sc *schedChild) stop() {
	if sc == nil || sc.cmd == nil {
		return
	}
	sc.in.Close()
	done := make(chan struct{})
	go func() { _, _ = sc.cmd.Process.Wait(); close(done) }()
	select {
	case <-done:
	case <-time.After(5 * time.Second):
		_ = syscall.Kill(-sc.cmd.Process.Pid, syscall.SIGKILL)
		<-done
	}
	os.RemoveAll(sc.dir)
}

func (sc *schedChild) run(req schedReq) (schedRes, error) {
	var res schedRes
	b, _ := json.Marshal(req)
	type ans struct {
		line []byte
		err  error
	}
	ch := make(chan ans, 1)
	go func() {
		if _, err := sc.in.Write(append(b, '\n')); err != nil {
			ch <- ans{nil, err}
			return
		}
		line, err := sc.out.ReadBytes('\n')
		ch <- ans{line, err}
	}()
	select {
	case a := <-ch:
		if a.err != nil {
			lg, _ := os.ReadFile(filepath.Join(sc.dir, "gateway.log"))
			if len(lg) > 600 {
				lg = lg[len(lg)-600:]
			}
			return res, fmt.Errorf("sched child: %v; log: %s", a.err, lg)
		}
		if err := json.Unmarshal(a.line, &res); err != nil {
			return res, fmt.Errorf("sched child output %q: %v", a.line, err)
		}
		if res.Err != "" {
			return res, fmt.Errorf("sched child: %s", res.Err)
		}
		return res, nil
	case <-time.After(90 * time.Second):
		return res, fmt.Errorf("sched child: timeout")
	}
}

func hx(args ...string) []string {
	out := make([]string, len(args))
	for i, a := range args {
		out[i] = hex.EncodeToString([]byte(a))
	}
	return out
}

func unhx(h string) string { b, _ := hex.DecodeString(h); return string(b) }

// schedOp is one command of a client in a controlled case.
type schedOp struct {
	Hot   bool   `json:"hot"`             // works on the key under test
	Kind  string `json:"kind"`            // incr | setnx | private_incr | private_set
	Delta int64  `json:"delta,omitempty"` // incr
	Val   int64  `json:"val,omitempty"`   // setnx
}

type schedCase struct {
	Gen      string      `json:"gen"`
	Base     string      `json:"base"` // absent | value | deleted | expired
	BaseVal  int64       `json:"base_val,omitempty"`
	Progs    [][]schedOp `json:"progs"`
	Schedule []int       `json:"schedule"`
	// observations
	Trace     []schedStep `json:"trace,omitempty"`
	Replies   [][]string  `json:"replies,omitempty"` // readable
	Final     *int64      `json:"final"`
	Acked     int64       `json:"acked"`
	OKs       int         `json:"oks"`
	Conflicts int         `json:"conflicts"`
	Other     int         `json:"other_errors"`
}

func (sc *schedChild) runCase(cs *schedCase, id string) error {
	key := "h" + id
	req := schedReq{Schedule: cs.Schedule, Final: [][]string{hx("GET", key)}}
	switch cs.Base {
	case "value":
		req.Setup = [][]string{hx("SET", key, strconv.FormatInt(cs.BaseVal, 10))}
	case "deleted":
		req.Setup = [][]string{hx("SET", key, strconv.FormatInt(cs.BaseVal, 10)), hx("DEL", key)}
	case "expired":
		req.Setup = [][]string{hx("SET", key, strconv.FormatInt(cs.BaseVal, 10), "EXAT", "1")}
	}
	for i, p := range cs.Progs {
		var cmds [][]string
		for _, o := range p {
			switch o.Kind {
			case "incr":
				switch {
				case o.Delta == 1:
					cmds = append(cmds, hx("INCR", key))
				case o.Delta == -1:
					cmds = append(cmds, hx("DECR", key))
				default:
					cmds = append(cmds, hx("INCRBY", key, strconv.FormatInt(o.Delta, 10)))
				}
			case "setnx":
				cmds = append(cmds, hx("SET", key, strconv.FormatInt(o.Val, 10), "NX"))
			case "private_incr":
				cmds = append(cmds, hx("INCR", fmt.Sprintf("p%s.%d", id, i)))
			default:
				cmds = append(cmds, hx("SET", fmt.Sprintf("o%s.%d", id, i), "x"))
			}
		}
		req.Clients = append(req.Clients, cmds)
	}
	res, err := sc.run(req)
	if err != nil {
		return err
	}
	cs.Trace = res.Trace
	cs.Replies = nil
	cs.Acked, cs.OKs, cs.Conflicts, cs.Other, cs.Final = 0, 0, 0, 0, nil
	for i, p := range cs.Progs {
		var rs []string
		for j, o := range p {
			rep := "<none>"
			if i < len(res.Clients) && j < len(res.Clients[i]) {
				rep = unhx(res.Clients[i][j])
			}
			rs = append(rs, strings.TrimSpace(rep))
			if !o.Hot {
				continue
			}
			switch {
			case strings.HasPrefix(rep, ":"):
				cs.Acked += o.Delta
			case rep == "+OK\r\n":
				cs.OKs++
			case rep == "$-1\r\n":
			case strings.Contains(rep, "Conflict"):
				cs.Conflicts++
			default:
				cs.Other++
			}
		}
		cs.Replies = append(cs.Replies, rs)
	}
	if len(res.Final) == 1 {
		if v, ok := parseBulkInt([]byte(unhx(res.Final[0]))); ok {
			cs.Final = &v
		}
	}
	return nil
}

func optZ(v *int64) string {
	if v == nil {
		return "NoneZ"
	}
	return "(SomeZ " + zlit(*v) + ")"
}

func (cs *schedCase) term() string {
	progs := make([]string, len(cs.Progs))
	for i, p := range cs.Progs {
		var ops []string
		for _, o := range p {
			switch {
			case o.Hot && o.Kind == "incr":
				ops = append(ops, "I "+zlit(o.Delta))
			case o.Hot && o.Kind == "setnx":
				ops = append(ops, "X "+zlit(o.Val))
			}
		}
		progs[i] = corr.List(ops)
	}
	var sched []string
	for _, st := range cs.Trace {
		n := 1
		if st.Step == "begin" {
			n = 3 // the model's begin, get, set steps
		}
		for k := 0; k < n; k++ {
			sched = append(sched, strconv.Itoa(st.Client))
		}
	}
	base := "NoneZ"
	if cs.Base == "value" {
		base = "(SomeZ " + zlit(cs.BaseVal) + ")"
	}
	conflicts := cs.Conflicts + 1000000*cs.Other // an unexpected error reply can never match the model
	return fmt.Sprintf("RC %s %s %s (ZZ %s) %d %d %s", base, corr.List(progs), corr.List(sched),
		zlit(cs.Acked), cs.OKs, conflicts, optZ(cs.Final))
}

func hotIncr(d int64) schedOp     { return schedOp{Hot: true, Kind: "incr", Delta: d} }
func hotNX(v int64) schedOp       { return schedOp{Hot: true, Kind: "setnx", Val: v} }
func privIncr() schedOp           { return schedOp{Kind: "private_incr"} }
func privSet() schedOp            { return schedOp{Kind: "private_set"} }
func prog(o ...schedOp) []schedOp { return o }

// directedSchedCases: the interleavings the random generator is unlikely to hit.
func directedSchedCases() []schedCase {
	var out []schedCase
	for _, base := range []string{"absent", "value", "deleted", "expired"} {
		// two writers on the same snapshot
		out = append(out,
			schedCase{Gen: "two_incr_same_snapshot", Base: base, BaseVal: 5, Progs: [][]schedOp{prog(hotIncr(1)), prog(hotIncr(2))}, Schedule: []int{0, 1, 0, 1}},
			schedCase{Gen: "two_setnx_same_snapshot", Base: base, BaseVal: 5, Progs: [][]schedOp{prog(hotNX(1)), prog(hotNX(2))}, Schedule: []int{0, 1, 1, 0}},
			schedCase{Gen: "three_setnx", Base: base, BaseVal: 5, Progs: [][]schedOp{prog(hotNX(1)), prog(hotNX(2)), prog(hotNX(3))}, Schedule: []int{0, 1, 2, 2, 0, 1}},
			// history pruning: a slow transaction (client 0, private counter) is open while the
			// counter is committed twice (1 then 3); client 2 read in between and is still in
			// flight; the slow one finishes (its commit prunes the history), then 2 commits
			schedCase{Gen: "slow_txn_prunes_history", Base: base, BaseVal: 5,
				Progs:    [][]schedOp{prog(privIncr()), prog(hotIncr(1)), prog(hotIncr(1)), prog(hotIncr(1))},
				Schedule: []int{0, 1, 1, 2, 3, 3, 0, 2}},
			// the same, with an unrelated commit (client 4) after the slow one finished
			schedCase{Gen: "slow_txn_then_unrelated_commit", Base: base, BaseVal: 5,
				Progs:    [][]schedOp{prog(privIncr()), prog(hotIncr(1)), prog(hotIncr(3)), prog(hotIncr(1)), prog(privSet(), privSet())},
				Schedule: []int{0, 1, 1, 2, 3, 3, 0, 4, 4, 4, 4, 2}},
			// two slow readers nested, three commits of the counter, two in-flight writers
			schedCase{Gen: "nested_slow_txns", Base: base, BaseVal: 5,
				Progs:    [][]schedOp{prog(privIncr()), prog(privIncr()), prog(hotIncr(1), hotIncr(1), hotIncr(1)), prog(hotIncr(10)), prog(hotIncr(100))},
				Schedule: []int{0, 2, 2, 1, 3, 2, 2, 4, 2, 2, 0, 1, 3, 4}},
			schedCase{Gen: "setnx_with_slow_txn", Base: base, BaseVal: 5,
				Progs:    [][]schedOp{prog(privIncr()), prog(hotNX(1)), prog(hotNX(2)), prog(hotNX(3))},
				Schedule: []int{0, 1, 2, 1, 3, 0, 2, 3}},
		)
	}
	return out
}

func randomSchedCase(r *rand.Rand) schedCase {
	cs := schedCase{Gen: "random", Base: []string{"absent", "value", "deleted", "expired"}[r.Intn(4)], BaseVal: int64(r.Intn(50))}
	setnx := r.Intn(3) == 0
	n := 2 + r.Intn(4)
	total := 0
	for i := 0; i < n; i++ {
		var p []schedOp
		hot := r.Intn(10) < 7
		for j, m := 0, 1+r.Intn(3); j < m; j++ {
			switch {
			case hot && setnx:
				p = append(p, hotNX(int64(1+i*10+j)))
			case hot:
				p = append(p, hotIncr([]int64{1, 1, -1, 2, 5, -3, 10}[r.Intn(7)]))
			case r.Intn(2) == 0:
				p = append(p, privIncr())
			default:
				p = append(p, privSet())
			}
			total++
		}
		cs.Progs = append(cs.Progs, p)
	}
	for k, m := 0, 2*total+r.Intn(4); k < m; k++ {
		// runs of the same client are as likely as switches
		if k > 0 && r.Intn(3) == 0 {
			cs.Schedule = append(cs.Schedule, cs.Schedule[k-1])
		} else {
			cs.Schedule = append(cs.Schedule, r.Intn(n))
		}
	}
	return cs
}

// ---- stress: hot counter + private counters + long MGETs (real concurrency) ----

// stressRound runs hot INCR clients, private-counter clients and clients issuing
// long MGETs for dur against g (started without the hot-key write limit).
func stressRound(g *gateway, id string, pre string, hot, private, readers int, dur time.Duration) (concDesc, error) {
	d := concDesc{Kind: "incr", Conns: hot + private + readers, PerConn: 0}
	key := "stress" + id
	setup, err := g.dial()
	if err != nil {
		return d, err
	}
	defer setup.close()
	zero := int64(0)
	switch pre {
	case "value":
		v := int64(7)
		d.Init = &v
		if _, err := setup.do([]byte("SET"), []byte(key), []byte("7")); err != nil {
			return d, err
		}
	case "deleted":
		d.Init = &zero
		_, _ = setup.do([]byte("SET"), []byte(key), []byte("41"))
		if _, err := setup.do([]byte("DEL"), []byte(key)); err != nil {
			return d, err
		}
	case "expired":
		d.Init = &zero
		if _, err := setup.do([]byte("SET"), []byte(key), []byte("41"), []byte("EXAT"), []byte("1")); err != nil {
			return d, err
		}
	default:
		d.Init = &zero
	}
	mget := [][]byte{[]byte("MGET")}
	for i := 0; i < 1500; i++ {
		mget = append(mget, []byte(fmt.Sprintf("filler%s.%d", id, i)))
	}
	var stop atomic.Bool
	var mu sync.Mutex
	var wg sync.WaitGroup
	var firstErr error
	fail := func(err error) {
		mu.Lock()
		if firstErr == nil {
			firstErr = err
		}
		mu.Unlock()
	}
	for i := 0; i < hot+private+readers; i++ {
		cn, err := g.dial()
		if err != nil {
			return d, err
		}
		defer cn.close()
		wg.Add(1)
		go func(i int) {
			defer wg.Done()
			for !stop.Load() {
				switch {
				case i < hot:
					rep, err := cn.do([]byte("INCR"), []byte(key))
					if err != nil {
						fail(err)
						return
					}
					mu.Lock()
					if len(rep) > 0 && rep[0] == ':' {
						v, _ := strconv.ParseInt(strings.TrimSpace(string(rep[1:])), 10, 64)
						d.Acks = append(d.Acks, concAck{Delta: 1, Value: v})
					} else {
						d.Errors++
						if len(d.ErrKind) < 64 {
							d.ErrKind = append(d.ErrKind, strings.TrimSpace(string(rep)))
						}
					}
					mu.Unlock()
				case i < hot+private:
					if _, err := cn.do([]byte("INCR"), []byte(fmt.Sprintf("priv%s.%d", id, i))); err != nil {
						fail(err)
						return
					}
				default:
					if _, err := cn.do(mget...); err != nil {
						fail(err)
						return
					}
				}
			}
		}(i)
	}
	time.Sleep(dur)
	stop.Store(true)
	wg.Wait()
	if firstErr != nil {
		return d, firstErr
	}
	rep, err := setup.do([]byte("GET"), []byte(key))
	if err != nil {
		return d, err
	}
	if f, ok := parseBulkInt(rep); ok {
		d.Final = &f
	}
	return d, nil
}

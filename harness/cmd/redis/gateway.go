package main

import (
	"bufio"
	"fmt"
	"net"
	"os"
	"os/exec"
	"path/filepath"
	"strings"
	"syscall"
	"time"
)

// buildGateway builds cmd/nokv-redis of the repository under test with the
// verif tag and returns the path of the binary.
func buildGateway(outDir string) (string, error) {
	repo := os.Getenv("VERIF_REPO")
	if repo == "" {
		repo = "/repo"
	}
	bin, err := filepath.Abs(filepath.Join(outDir, "nokv-redis.verif"))
	if err != nil {
		return "", err
	}
	cmd := exec.Command("go", "build", "-tags", "verif", "-o", bin, "./cmd/nokv-redis")
	cmd.Dir = repo
	env := []string{}
	for _, e := range os.Environ() {
		if strings.HasPrefix(e, "GOTOOLCHAIN=") || strings.HasPrefix(e, "GOSUMDB=") ||
			strings.HasPrefix(e, "GOFLAGS=") || strings.HasPrefix(e, "GOPROXY=") {
			continue
		}
		env = append(env, e)
	}
	cmd.Env = append(env, "GOFLAGS=-mod=mod", "GOPROXY=off")
	out, err := cmd.CombinedOutput()
	if err != nil {
		return "", fmt.Errorf("go build ./cmd/nokv-redis in %s: %v\n%s", repo, err, out)
	}
	return bin, nil
}

// guarded returns a command that runs bin under an address-space limit
// (ulimit -v, in KiB), so that a hostile declared length cannot take the
// machine down.
func guarded(bin string, vmKiB int, args ...string) *exec.Cmd {
	sh := fmt.Sprintf("ulimit -v %d; exec \"$0\" \"$@\"", vmKiB)
	cmd := exec.Command("sh", append([]string{"-c", sh, bin}, args...)...)
	cmd.SysProcAttr = &syscall.SysProcAttr{Setpgid: true}
	return cmd
}

// gateway is a running nokv-redis server (embedded backend).
type gateway struct {
	cmd  *exec.Cmd
	addr string
	dir  string
	log  *os.File
}

func freePort() (string, error) {
	ln, err := net.Listen("tcp", "127.0.0.1:0")
	if err != nil {
		return "", err
	}
	defer ln.Close()
	return ln.Addr().String(), nil
}

// startGateway starts the gateway on a free localhost port with a fresh work
// directory under base. env entries are passed through; with
// NOKV_VERIF_MODE=raftfake the hook serves the raft backend over its
// in-process fake client on NOKV_VERIF_ADDR instead of opening a database.
func startGateway(bin, base string, env ...string) (*gateway, error) {
	dir, err := os.MkdirTemp(base, "gw-")
	if err != nil {
		return nil, err
	}
	var lastErr error
	for attempt := 0; attempt < 5; attempt++ {
		addr, err := freePort()
		if err != nil {
			return nil, err
		}
		logf, err := os.Create(filepath.Join(dir, "gateway.log"))
		if err != nil {
			return nil, err
		}
		cmd := guarded(bin, 16<<20, "-addr", addr, "-workdir", filepath.Join(dir, "work"))
		cmd.Env = append(append(os.Environ(), env...), "NOKV_VERIF_ADDR="+addr)
		cmd.Stdout, cmd.Stderr = logf, logf
		if err := cmd.Start(); err != nil {
			return nil, err
		}
		g := &gateway{cmd: cmd, addr: addr, dir: dir, log: logf}
		ok := false
		for i := 0; i < 200; i++ {
			c, err := net.DialTimeout("tcp", addr, 200*time.Millisecond)
			if err == nil {
				c.Close()
				ok = true
				break
			}
			time.Sleep(50 * time.Millisecond)
		}
		if ok {
			return g, nil
		}
		g.stop()
		b, _ := os.ReadFile(filepath.Join(dir, "gateway.log"))
		lastErr = fmt.Errorf("gateway did not come up on %s: %s", addr, b)
	}
	return nil, lastErr
}

func (g *gateway) stop() {
	if g == nil || g.cmd == nil || g.cmd.Process == nil {
		return
	}
	_ = g.cmd.Process.Signal(syscall.SIGTERM)
	done := make(chan struct{})
	go func() { _, _ = g.cmd.Process.Wait(); close(done) }()
	select {
	case <-done:
	case <-time.After(5 * time.Second):
		_ = syscall.Kill(-g.cmd.Process.Pid, syscall.SIGKILL)
		<-done
	}
	g.log.Close()
	os.RemoveAll(g.dir)
}

// conn is one client connection speaking raw RESP.
type conn struct {
	c net.Conn
	r *bufio.Reader
}

func (g *gateway) dial() (*conn, error) {
	c, err := net.DialTimeout("tcp", g.addr, 2*time.Second)
	if err != nil {
		return nil, err
	}
	return &conn{c: c, r: bufio.NewReader(c)}, nil
}

func (c *conn) close() { c.c.Close() }

func encodeCommand(args [][]byte) []byte {
	var b []byte
	b = append(b, fmt.Sprintf("*%d\r\n", len(args))...)
	for _, a := range args {
		b = append(b, fmt.Sprintf("$%d\r\n", len(a))...)
		b = append(b, a...)
		b = append(b, '\r', '\n')
	}
	return b
}

// readReply reads exactly one RESP reply and returns its raw bytes.
func (c *conn) readReply() ([]byte, error) {
	_ = c.c.SetReadDeadline(time.Now().Add(20 * time.Second))
	line, err := c.r.ReadBytes('\n')
	if err != nil {
		return line, err
	}
	out := append([]byte(nil), line...)
	if len(line) < 3 {
		return out, fmt.Errorf("short reply line %q", line)
	}
	body := string(line[1 : len(line)-2])
	switch line[0] {
	case '+', '-', ':':
		return out, nil
	case '$':
		var n int
		if _, err := fmt.Sscanf(body, "%d", &n); err != nil {
			return out, err
		}
		if n < 0 {
			return out, nil
		}
		buf := make([]byte, n+2)
		if _, err := readFull(c.r, buf); err != nil {
			return out, err
		}
		return append(out, buf...), nil
	case '*':
		var n int
		if _, err := fmt.Sscanf(body, "%d", &n); err != nil {
			return out, err
		}
		for i := 0; i < n; i++ {
			sub, err := c.readReply()
			out = append(out, sub...)
			if err != nil {
				return out, err
			}
		}
		return out, nil
	}
	return out, fmt.Errorf("unknown reply type %q", line)
}

func readFull(r *bufio.Reader, buf []byte) (int, error) {
	n := 0
	for n < len(buf) {
		m, err := r.Read(buf[n:])
		n += m
		if err != nil {
			return n, err
		}
	}
	return n, nil
}

// do sends one command and reads one reply.
func (c *conn) do(args ...[]byte) ([]byte, error) {
	_ = c.c.SetWriteDeadline(time.Now().Add(10 * time.Second))
	if _, err := c.c.Write(encodeCommand(args)); err != nil {
		return nil, err
	}
	return c.readReply()
}

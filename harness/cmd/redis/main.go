// Harness binary for the Redis gateway properties: C31 (family "resp"),
// C29 (family "redis"), C30 (family "redisconc").
//
// cmd/nokv-redis is package main, so it cannot be imported. The harness
// builds it from $VERIF_REPO with -tags verif (the add-only hook file
// cmd/nokv-redis/verif_hook_verif.go) and talks to it over pipes (resp) or
// TCP (redis, redisconc).
package main

import "verifharness/internal/corr"

func main() {
	corr.Main(map[string]corr.Family{"resp": runResp, "redis": runRedis, "redisconc": runRedisConc})
}

package main

// C30: concurrent connections against the real gateway (embedded backend, the
// options main.go really uses). Rounds of INCRBY/DECRBY with non-zero deltas
// on one fresh key, and rounds of simultaneous SET NX on one absent key.

import (
	"encoding/json"
	"fmt"
	"strconv"
	"strings"
	"sync"
	"time"

	"verifharness/internal/corr"
)

type concAck struct {
	Delta int64 `json:"delta"`
	Value int64 `json:"value"`
}

type concDesc struct {
	Kind    string    `json:"kind"` // incr | setnx
	Conns   int       `json:"conns"`
	PerConn int       `json:"per_conn"`
	Init    *int64    `json:"init"` // nil: key absent
	Acks    []concAck `json:"acks,omitempty"`
	OKs     []int64   `json:"oks,omitempty"`
	Nils    int       `json:"nils"`
	Errors  int       `json:"errors"`
	ErrKind []string  `json:"error_kinds,omitempty"`
	Final   *int64    `json:"final"`
}

func zlit(v int64) string {
	if v < 0 {
		return fmt.Sprintf("(%d)", v)
	}
	return fmt.Sprintf("%d", v)
}

var concDeltas = []int64{1, 1, 1, -1, 2, 5, -3, 10, -7}

func incrRound(g *gateway, key string, conns, perConn int, init *int64, seed int64) (concDesc, error) {
	d := concDesc{Kind: "incr", Conns: conns, PerConn: perConn, Init: init}
	setup, err := g.dial()
	if err != nil {
		return d, err
	}
	defer setup.close()
	if init != nil {
		if rep, err := setup.do([]byte("SET"), []byte(key), []byte(strconv.FormatInt(*init, 10))); err != nil || string(rep) != "+OK\r\n" {
			return d, fmt.Errorf("setup SET: %q %v", rep, err)
		}
	}
	cs := make([]*conn, conns)
	for i := range cs {
		if cs[i], err = g.dial(); err != nil {
			return d, err
		}
		defer cs[i].close()
	}
	var mu sync.Mutex
	var wg sync.WaitGroup
	start := make(chan struct{})
	var firstErr error
	for i := range cs {
		wg.Add(1)
		go func(i int) {
			defer wg.Done()
			<-start
			for j := 0; j < perConn; j++ {
				delta := concDeltas[(int(seed)+i*31+j*7)%len(concDeltas)]
				if seed%2 == 0 && delta < 0 {
					delta = -delta // even seeds: positive deltas only (serial-chain check)
				}
				var args [][]byte
				switch {
				case delta == 1 && j%2 == 0:
					args = [][]byte{[]byte("INCR"), []byte(key)}
				case delta == -1 && j%2 == 0:
					args = [][]byte{[]byte("DECR"), []byte(key)}
				case delta < 0 && j%3 == 0:
					args = [][]byte{[]byte("DECRBY"), []byte(key), []byte(strconv.FormatInt(-delta, 10))}
				default:
					args = [][]byte{[]byte("INCRBY"), []byte(key), []byte(strconv.FormatInt(delta, 10))}
				}
				rep, err := cs[i].do(args...)
				mu.Lock()
				switch {
				case err != nil:
					if firstErr == nil {
						firstErr = err
					}
				case len(rep) > 0 && rep[0] == ':':
					v, _ := strconv.ParseInt(strings.TrimSpace(string(rep[1:])), 10, 64)
					d.Acks = append(d.Acks, concAck{Delta: delta, Value: v})
				default:
					d.Errors++
					d.ErrKind = append(d.ErrKind, strings.TrimSpace(string(rep)))
				}
				mu.Unlock()
				if err != nil {
					return
				}
			}
		}(i)
	}
	close(start)
	wg.Wait()
	if firstErr != nil {
		return d, firstErr
	}
	rep, err := setup.do([]byte("GET"), []byte(key))
	if err != nil {
		return d, err
	}
	if f, ok := parseBulkInt(rep); ok {
		d.Final = &f
	}
	return d, nil
}

func parseBulkInt(rep []byte) (int64, bool) {
	s := string(rep)
	if !strings.HasPrefix(s, "$") || strings.HasPrefix(s, "$-1") {
		return 0, false
	}
	i := strings.Index(s, "\r\n")
	if i < 0 {
		return 0, false
	}
	v, err := strconv.ParseInt(strings.TrimSuffix(s[i+2:], "\r\n"), 10, 64)
	return v, err == nil
}

func setnxRound(g *gateway, key string, conns int) (concDesc, error) {
	d := concDesc{Kind: "setnx", Conns: conns, PerConn: 1}
	cs := make([]*conn, conns)
	var err error
	for i := range cs {
		if cs[i], err = g.dial(); err != nil {
			return d, err
		}
		defer cs[i].close()
	}
	var mu sync.Mutex
	var wg sync.WaitGroup
	start := make(chan struct{})
	var firstErr error
	for i := range cs {
		wg.Add(1)
		go func(i int) {
			defer wg.Done()
			<-start
			rep, err := cs[i].do([]byte("SET"), []byte(key), []byte(strconv.Itoa(i+1)), []byte("NX"))
			mu.Lock()
			defer mu.Unlock()
			switch {
			case err != nil:
				if firstErr == nil {
					firstErr = err
				}
			case string(rep) == "+OK\r\n":
				d.OKs = append(d.OKs, int64(i+1))
			case string(rep) == "$-1\r\n":
				d.Nils++
			default:
				d.Errors++
				d.ErrKind = append(d.ErrKind, strings.TrimSpace(string(rep)))
			}
		}(i)
	}
	close(start)
	wg.Wait()
	if firstErr != nil {
		return d, firstErr
	}
	rep, err := cs[0].do([]byte("GET"), []byte(key))
	if err != nil {
		return d, err
	}
	if f, ok := parseBulkInt(rep); ok {
		d.Final = &f
	}
	return d, nil
}

// prepKey leaves key absent in one of three ways: never written, written and
// deleted (a tombstone is the newest version), written with an expiry in the past.
func prepKey(g *gateway, key, pre string) error {
	if pre != "deleted" && pre != "expired" {
		return nil
	}
	cn, err := g.dial()
	if err != nil {
		return err
	}
	defer cn.close()
	if pre == "deleted" {
		if _, err := cn.do([]byte("SET"), []byte(key), []byte("41")); err != nil {
			return err
		}
		_, err = cn.do([]byte("DEL"), []byte(key))
		return err
	}
	_, err = cn.do([]byte("SET"), []byte(key), []byte("41"), []byte("EXAT"), []byte("1"))
	return err
}

func concTerm(d concDesc) string {
	if d.Kind == "incr" {
		init, final := int64(0), int64(0)
		if d.Init != nil {
			init = *d.Init
		}
		if d.Final != nil {
			final = *d.Final
		}
		acks := make([]string, len(d.Acks))
		for i, a := range d.Acks {
			acks[i] = fmt.Sprintf("K %s %s", zlit(a.Delta), zlit(a.Value))
		}
		return fmt.Sprintf("RI %s %s %s %d", zlit(init), zlit(final), corr.List(acks), d.Errors)
	}
	oks := make([]string, len(d.OKs))
	for i, o := range d.OKs {
		oks[i] = "ZZ " + zlit(o)
	}
	final := "NoneZ"
	if d.Final != nil {
		final = "(SomeZ " + zlit(*d.Final) + ")"
	}
	return fmt.Sprintf("RS %s %d %d %s", corr.List(oks), d.Nils, d.Errors, final)
}

func runRedisConc(c *corr.Ctx) error {
	c.Meta("run_module", "RunRedisConc")
	c.Meta("rule", "(1) controlled schedules executed on the real gateway (main() on an in-process listener, handlers parked at oracle.newCommitTs: one pick = one client's begin step or commit step): 28 directed schedules (two writers on one snapshot, racing SET NX, a slow transaction held open across two commits of the counter with a writer in flight, then finishing / followed by unrelated commits; key absent, preset, deleted or expired before the race) and random schedules of 2-5 clients x 1-3 commands (hot INCR/DECR/INCRBY or SET NX, private counters, unrelated SETs); acknowledged deltas, OKs, conflicts and final value compared with the model run on the same schedule. (2) stress rounds without the hot-key write limit: 8 hot INCR clients + 3 private-counter clients + 2 clients issuing 1500-key MGETs for 300 ms. (3) free-running rounds against one gateway process started with the options main.go uses, the key absent, deleted or expired before the race: (a) 2-8 connections x up to 25 INCR/DECR/INCRBY/DECRBY with non-zero deltas on one fresh key (absent or preset), all replies + final GET; (b) 2-8 connections issuing SET key <id> NX at the same instant on an absent key, all replies + final GET. A round stays under the hot-key write limit (128 writes / 2 s). non-trivial = at least two commands of the round overlapped in effect (some conflict error, or >= 2 acknowledged writers); distinct by Gallina term")
	bin, err := buildGateway(c.Out)
	if err != nil {
		return err
	}
	g, err := startGateway(bin, c.Out)
	if err != nil {
		return err
	}
	defer g.stop()

	emitSched := func(cs schedCase) {
		c.Count("sched_" + cs.Gen)
		c.Count("sched_base_" + cs.Base)
		c.CountN("sched_conflicts", cs.Conflicts)
		c.CountN("sched_steps", len(cs.Trace))
		c.Emit(corr.Case{Coq: cs.term(), Nontrivial: cs.Conflicts > 0 || cs.OKs+int(cs.Acked) != 0, Desc: cs})
	}

	emit := func(d concDesc) {
		c.Count("round_" + d.Kind)
		c.CountN("acked", len(d.Acks)+len(d.OKs))
		c.CountN("error_replies", d.Errors)
		for _, e := range d.ErrKind {
			switch {
			case strings.Contains(e, "Conflict"):
				c.Count("err_conflict")
			case strings.Contains(e, "throttle"):
				c.Count("err_hot_key_throttle")
			default:
				c.Count("err_other:" + e[:min(len(e), 40)])
			}
		}
		d.ErrKind = nil
		nontrivial := d.Errors > 0 || len(d.Acks) >= 2 || d.Nils > 0
		c.Emit(corr.Case{Coq: concTerm(d), Nontrivial: nontrivial, Desc: d})
	}

	if c.Replay != "" {
		cases, err := c.ReplayCases()
		if err != nil {
			return err
		}
		var sc *schedChild
		defer func() { sc.stop() }()
		for i, cs := range cases {
			b, _ := json.Marshal(cs.Desc)
			var probe struct {
				Gen string `json:"gen"`
			}
			if json.Unmarshal(b, &probe) == nil && probe.Gen != "" {
				// a controlled schedule is replayed exactly
				var k schedCase
				if err := json.Unmarshal(b, &k); err != nil {
					return err
				}
				if sc == nil {
					if sc, err = startSchedChild(bin, c.Out); err != nil {
						return err
					}
				}
				if err := sc.runCase(&k, fmt.Sprintf("r%d.%d", time.Now().UnixNano()%1000000, i)); err != nil {
					return err
				}
				emitSched(k)
				continue
			}
			var d concDesc
			if err := json.Unmarshal(b, &d); err != nil {
				return err
			}
			// a recorded interleaving cannot be forced; re-run rounds of the same shape
			for k := 0; k < 20; k++ {
				key := fmt.Sprintf("replay%d.%d", i, k)
				var nd concDesc
				if d.Kind == "setnx" {
					nd, err = setnxRound(g, key, max(d.Conns, 2))
				} else {
					nd, err = incrRound(g, key, max(d.Conns, 2), max(d.PerConn, 1), d.Init, int64(k))
				}
				if err != nil {
					return err
				}
				emit(nd)
			}
		}
		return nil
	}

	// 1. controlled schedules on the real gateway (hook mode "sched")
	sc, err := startSchedChild(bin, c.Out)
	if err != nil {
		return err
	}
	defer sc.stop()
	ncase := 0
	runSched := func(cs schedCase) error {
		ncase++
		if err := sc.runCase(&cs, fmt.Sprintf("%d.%d", c.Seed, ncase)); err != nil {
			return err
		}
		emitSched(cs)
		return nil
	}
	for _, cs := range directedSchedCases() {
		if err := runSched(cs); err != nil {
			return err
		}
	}
	for i, n := 0, c.Scale(150, 6000); i < n; i++ {
		if err := runSched(randomSchedCase(c.Rng)); err != nil {
			return err
		}
	}

	// 2. stress with long-lived readers, on a gateway without the hot-key write limit
	gs, err := startGateway(bin, c.Out, "NOKV_VERIF_HOTLIMIT=0")
	if err != nil {
		return err
	}
	defer gs.stop()
	pres := []string{"absent", "deleted", "value", "expired"}
	for i, n := 0, c.Scale(8, 80); i < n; i++ {
		d, err := stressRound(gs, fmt.Sprintf("%d.%d", c.Seed, i), pres[i%4], 8, 3, 2, 300*time.Millisecond)
		if err != nil {
			return err
		}
		c.Count("stress_round")
		emit(d)
	}

	// 3. free-running rounds; the key is absent, deleted or expired before the race
	rounds := c.Scale(40, 1500)
	for i := 0; i < rounds; i++ {
		conns := 2 + c.Rng.Intn(7)
		per := 1 + c.Rng.Intn(min(25, 100/conns))
		var init *int64
		if c.Rng.Intn(2) == 0 {
			v := []int64{0, 100, -5, 1 << 40}[c.Rng.Intn(4)]
			init = &v
		}
		pre := pres[c.Rng.Intn(4)]
		c.Count("round_pre_" + pre)
		if init == nil {
			if err := prepKey(g, fmt.Sprintf("ctr%d.%d", c.Seed, i), pre); err != nil {
				return err
			}
		}
		if err := prepKey(g, fmt.Sprintf("nx%d.%d", c.Seed, i), pre); err != nil {
			return err
		}
		d, err := incrRound(g, fmt.Sprintf("ctr%d.%d", c.Seed, i), conns, per, init, c.Rng.Int63n(1000))
		if err != nil {
			return err
		}
		emit(d)
		d, err = setnxRound(g, fmt.Sprintf("nx%d.%d", c.Seed, i), 2+c.Rng.Intn(7))
		if err != nil {
			return err
		}
		emit(d)
	}
	return nil
}

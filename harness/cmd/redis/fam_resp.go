package main

// C31: the RESP parser (cmd/nokv-redis/server.go parseRESP/readBulk/readLine/
// expectCRLF) run in a child process (NOKV_VERIF_MODE=resp protocol of the
// hook file) under an address-space limit and a per-frame timeout.

import (
	"bufio"
	"bytes"
	"encoding/binary"
	"encoding/hex"
	"encoding/json"
	"fmt"
	"io"
	"math/rand"
	"net"
	"os"
	"os/exec"
	"path/filepath"
	"strings"
	"syscall"
	"time"

	"verifharness/internal/corr"
)

// ---- run-length compressed byte strings (Corr/RunResp.v: H / R) ----

type piece struct {
	Rep int    `json:"rep,omitempty"` // 0: literal
	Hex string `json:"hex"`
}

func compress(b []byte) []piece {
	var out []piece
	lit := 0
	i := 0
	flush := func(end int) {
		if end > lit {
			out = append(out, piece{Hex: hex.EncodeToString(b[lit:end])})
		}
	}
	for i < len(b) {
		j := i
		for j < len(b) && b[j] == b[i] {
			j++
		}
		if j-i >= 48 {
			flush(i)
			out = append(out, piece{Rep: j - i, Hex: hex.EncodeToString(b[i : i+1])})
			lit = j
		}
		i = j
	}
	flush(len(b))
	return out
}

func expand(ps []piece) []byte {
	var out []byte
	for _, p := range ps {
		b, _ := hex.DecodeString(p.Hex)
		if p.Rep == 0 {
			out = append(out, b...)
		} else {
			out = append(out, bytes.Repeat(b, p.Rep)...)
		}
	}
	return out
}

func coqPieces(b []byte) string {
	ps := compress(b)
	items := make([]string, len(ps))
	for i, p := range ps {
		if p.Rep == 0 {
			// a Coq string literal is a term as deep as it is long: keep literals short
			var chunks []string
			for h := p.Hex; len(h) > 0; {
				n := min(len(h), 2048)
				chunks = append(chunks, fmt.Sprintf("H \"%s\"", h[:n]))
				h = h[n:]
			}
			items[i] = strings.Join(chunks, "; ")
		} else {
			items[i] = fmt.Sprintf("R %d \"%s\"", p.Rep, p.Hex)
		}
	}
	return corr.List(items)
}

// coqArgs prints an argument list; a long list that repeats its first three
// elements is printed as RA k [a; b; c] ++ [remainder] (Corr/RunResp.v).
func coqArgs(args [][]byte) string {
	if len(args) > 200 {
		same := func(a, b []byte) bool { return (a == nil) == (b == nil) && bytes.Equal(a, b) }
		k := 0
		for (k+1)*3 <= len(args) && same(args[k*3], args[0]) && same(args[k*3+1], args[1]) && same(args[k*3+2], args[2]) {
			k++
		}
		if k > 50 {
			return fmt.Sprintf("(RA %d %s ++ %s)", k, coqArgs(args[:3]), coqArgs(args[k*3:]))
		}
	}
	items := make([]string, len(args))
	for i, a := range args {
		if a == nil {
			items[i] = "None"
		} else {
			items[i] = "Some " + coqPieces(a)
		}
	}
	return corr.List(items)
}

// ---- child process ----

type respOut struct {
	Class    string    `json:"class"`
	Err      string    `json:"err"`
	IsEOF    bool      `json:"is_eof"`
	IsUEOF   bool      `json:"is_ueof"`
	Nil      bool      `json:"nil"`
	Args     []*string `json:"args"`
	Consumed int       `json:"consumed"`
	Alloc    uint64    `json:"alloc"`
}

type respChild struct {
	bin    string
	cmd    *exec.Cmd
	stdin  io.WriteCloser
	out    *bufio.Reader
	stderr *bytes.Buffer
}

const respVMKiB = 3 << 20 // 3 GiB of address space

func (rc *respChild) start() error {
	cmd := guarded(rc.bin, respVMKiB)
	cmd.Env = append(cmd.Environ(), "NOKV_VERIF_MODE=resp", "NOKV_VERIF_MEMLIMIT=1073741824")
	in, err := cmd.StdinPipe()
	if err != nil {
		return err
	}
	out, err := cmd.StdoutPipe()
	if err != nil {
		return err
	}
	rc.stderr = &bytes.Buffer{}
	cmd.Stderr = rc.stderr
	if err := cmd.Start(); err != nil {
		return err
	}
	rc.cmd, rc.stdin, rc.out = cmd, in, bufio.NewReaderSize(out, 1<<20)
	return nil
}

func (rc *respChild) kill() {
	if rc.cmd != nil && rc.cmd.Process != nil {
		_ = syscall.Kill(-rc.cmd.Process.Pid, syscall.SIGKILL)
		_, _ = rc.cmd.Process.Wait()
	}
	rc.cmd = nil
}

// parse runs one frame. crashed = the child died or did not answer in time;
// why carries the tail of its stderr.
func (rc *respChild) parse(in []byte) (res respOut, crashed bool, why string) {
	if rc.cmd == nil {
		if err := rc.start(); err != nil {
			return res, true, "cannot start child: " + err.Error()
		}
	}
	type ans struct {
		line []byte
		err  error
	}
	ch := make(chan ans, 1)
	go func() {
		var hdr [4]byte
		binary.BigEndian.PutUint32(hdr[:], uint32(len(in)))
		if _, err := rc.stdin.Write(append(hdr[:], in...)); err != nil {
			ch <- ans{nil, err}
			return
		}
		line, err := rc.out.ReadBytes('\n')
		ch <- ans{line, err}
	}()
	select {
	case a := <-ch:
		if a.err != nil {
			tail := rc.stderr.String()
			if len(tail) > 400 {
				tail = tail[:400]
			}
			rc.kill()
			return res, true, "child died: " + a.err.Error() + ": " + tail
		}
		if err := json.Unmarshal(a.line, &res); err != nil {
			rc.kill()
			return res, true, "bad child output: " + string(a.line)
		}
		return res, false, ""
	case <-time.After(30 * time.Second):
		rc.kill()
		return res, true, "timeout"
	}
}

func classifyRespErr(r respOut) string {
	switch {
	case r.IsEOF:
		return "OErr EEOF"
	case r.IsUEOF:
		return "OErr EUnexpectedEOF"
	case strings.HasPrefix(r.Err, "invalid multibulk length"):
		return "OErr EInvalidMultibulk"
	case strings.HasPrefix(r.Err, "expected bulk string"):
		return "OErr EExpectedBulk"
	case strings.HasPrefix(r.Err, "invalid bulk length"):
		return "OErr EInvalidBulk"
	case strings.HasPrefix(r.Err, "invalid line terminator"):
		return "OErr EBadTerminator"
	case strings.HasPrefix(r.Err, "expected CR"):
		return "OErr EExpectedCR"
	case strings.HasPrefix(r.Err, "expected LF"):
		return "OErr EExpectedLF"
	}
	return "OErrOther"
}

// ---- cases ----

type respFrame struct {
	Kind string    `json:"kind"` // "", "array", "inline"
	Args []*string `json:"args,omitempty"`
	Rest string    `json:"rest,omitempty"`
}

type respDesc struct {
	Input []piece   `json:"input"`
	Frame respFrame `json:"frame"`
	Gen   string    `json:"gen"`
	Obs   string    `json:"observed,omitempty"`
}

type respRunner struct {
	c     *corr.Ctx
	child *respChild
	bin   string
	gw    *gateway // the real server (embedded backend): every input also goes through handleConn
	probe *conn
}

// connRun sends input on a fresh connection of the real gateway, closes the
// sending side and reads until the server closes; then a second connection
// must still get +PONG for PING. A dead gateway is restarted for the next case.
func (rr *respRunner) connRun(input []byte) (now int64, got []byte, clean, alive bool, why string) {
	now = time.Now().Unix()
	if rr.gw == nil {
		g, err := startGateway(rr.bin, rr.c.Out)
		if err != nil {
			return now, nil, false, false, "cannot start gateway: " + err.Error()
		}
		rr.gw = g
	}
	cn, err := net.DialTimeout("tcp", rr.gw.addr, 2*time.Second)
	if err == nil {
		go func() {
			_ = cn.SetWriteDeadline(time.Now().Add(20 * time.Second))
			_, _ = cn.Write(input)
			if tc, ok := cn.(*net.TCPConn); ok {
				_ = tc.CloseWrite()
			}
		}()
		_ = cn.SetReadDeadline(time.Now().Add(20 * time.Second))
		var rerr error
		got, rerr = io.ReadAll(cn)
		clean = rerr == nil
		if rerr != nil {
			why = "read: " + rerr.Error()
		}
		cn.Close()
	} else {
		why = "dial: " + err.Error()
	}
	// liveness: the gateway still answers PING (on a long-lived probe connection,
	// re-dialled once if it broke)
	for attempt := 0; attempt < 2 && !alive; attempt++ {
		if rr.probe == nil {
			p, err := rr.gw.dial()
			if err != nil {
				time.Sleep(100 * time.Millisecond)
				continue
			}
			rr.probe = p
		}
		rep, err := rr.probe.do([]byte("PING"))
		alive = err == nil && string(rep) == "+PONG\r\n"
		if !alive {
			rr.probe.close()
			rr.probe = nil
		}
	}
	if !alive {
		lg, _ := os.ReadFile(filepath.Join(rr.gw.dir, "gateway.log"))
		if i := strings.Index(string(lg), "panic"); i >= 0 {
			lg = lg[i:]
		}
		if len(lg) > 300 {
			lg = lg[:300]
		}
		why += " gateway dead: " + string(lg)
		if rr.probe != nil {
			rr.probe.close()
			rr.probe = nil
		}
		rr.gw.stop()
		rr.gw = nil
	}
	return now, got, clean, alive, why
}

func hexArgs(args [][]byte) []*string {
	out := make([]*string, len(args))
	for i, a := range args {
		if a != nil {
			s := hex.EncodeToString(a)
			out[i] = &s
		}
	}
	return out
}

func unhexArgs(h []*string) [][]byte {
	out := make([][]byte, len(h))
	for i, s := range h {
		if s != nil {
			b, _ := hex.DecodeString(*s)
			if b == nil {
				b = []byte{}
			}
			out[i] = b
		}
	}
	return out
}

func (rr *respRunner) run(gen string, input []byte, fr respFrame) {
	c := rr.c
	res, crashed, why := rr.child.parse(input)
	var ob string
	switch {
	case crashed:
		ob = "Ob OCrash 0 0"
		c.Count("obs_crash")
	case res.Class == "panic":
		ob = fmt.Sprintf("Ob OPanic %d %d", res.Consumed, res.Alloc)
		why = res.Err
		c.Count("obs_panic")
	case res.Class == "err":
		cl := classifyRespErr(res)
		ob = fmt.Sprintf("Ob (%s) %d %d", cl, res.Consumed, res.Alloc)
		c.Count("obs_" + strings.Fields(cl)[len(strings.Fields(cl))-1])
	default:
		ob = fmt.Sprintf("Ob (Ok_ %s %s) %d %d", corr.Bool(res.Nil), coqArgs(unhexArgs(res.Args)), res.Consumed, res.Alloc)
		if len(res.Args) == 0 {
			c.Count("obs_ok_empty")
		} else {
			c.Count("obs_ok_args")
		}
	}
	frame := "FNone"
	switch fr.Kind {
	case "array":
		rest, _ := hex.DecodeString(fr.Rest)
		frame = fmt.Sprintf("(FA %s %s)", coqArgs(unhexArgs(fr.Args)), coqPieces(rest))
		c.Count("frame_array")
	case "inline":
		rest, _ := hex.DecodeString(fr.Rest)
		fs := unhexArgs(fr.Args)
		items := make([]string, len(fs))
		for i, f := range fs {
			items[i] = coqPieces(f)
		}
		frame = fmt.Sprintf("(FI %s %s)", corr.List(items), coqPieces(rest))
		c.Count("frame_inline")
	}
	c.Count("gen_" + gen)
	if res.Alloc > 65536 {
		c.Count("alloc_over_64k")
	}
	now, got, clean, alive, cwhy := rr.connRun(input)
	if !alive {
		c.Count("conn_gateway_died")
	}
	if !clean {
		c.Count("conn_reset")
	}
	if len(got) > 0 {
		c.Count("conn_replied")
	}
	term := fmt.Sprintf("Cc %s %s (%s) %d %s %s %s", coqPieces(input), frame, ob, now, coqPieces(got), corr.Bool(clean), corr.Bool(alive))
	obs := ob
	if why != "" {
		obs += " // " + why
	}
	obs += fmt.Sprintf(" // conn: %q clean=%v alive=%v %s", truncate(got, 200), clean, alive, cwhy)
	c.Emit(corr.Case{Coq: term, Nontrivial: len(input) > 0,
		Desc: respDesc{Input: compress(input), Frame: fr, Gen: gen, Obs: obs}})
}

func encArray(args [][]byte) []byte {
	var b []byte
	b = append(b, fmt.Sprintf("*%d\r\n", len(args))...)
	for _, a := range args {
		if a == nil {
			b = append(b, "$-1\r\n"...)
			continue
		}
		b = append(b, fmt.Sprintf("$%d\r\n", len(a))...)
		b = append(b, a...)
		b = append(b, '\r', '\n')
	}
	return b
}

var respAlphabet = []byte("*$\r\n-+0123456789 a\tZ:")

func randBytes(r *rand.Rand, n int) []byte {
	b := make([]byte, n)
	for i := range b {
		switch r.Intn(4) {
		case 0:
			b[i] = byte(r.Intn(256))
		default:
			b[i] = respAlphabet[r.Intn(len(respAlphabet))]
		}
	}
	return b
}

func randArg(r *rand.Rand, big bool) []byte {
	switch x := r.Intn(20); {
	case x < 2:
		return nil
	case x < 4:
		return []byte{}
	case x < 14:
		return randBytes(r, 1+r.Intn(8))
	case x < 18:
		return randBytes(r, 20+r.Intn(300))
	case x == 18 && big:
		sizes := []int{65535, 65536, 65537, 131071, 131072, 131073, 200000, 70000}
		return bytes.Repeat([]byte{byte('a' + r.Intn(3))}, sizes[r.Intn(len(sizes))])
	}
	return randBytes(r, 1+r.Intn(40))
}

func randRest(r *rand.Rand) []byte {
	switch r.Intn(4) {
	case 0:
		return nil
	case 1:
		return encArray([][]byte{[]byte("PING")})
	}
	return randBytes(r, r.Intn(12))
}

var declaredLengths = []string{"-2", "-1", "0", "1", "2", "-0", "+1", "+0", "00", "007", "2147483647", "2147483648",
	"4294967296", "1099511627776", "9223372036854775807", "9223372036854775808", "-9223372036854775808",
	"-9223372036854775809", "18446744073709551616", "1048575", "1048576", "1048577", "536870911", "536870912",
	"536870913", "65535", "65536", "65537", "1023", "1024", "1025", "", "+", "-", "1_0", " 1", "1 ", "0x10", "1e3",
	"１", "1.0", "--1", "+-1", "99999999999999999999999999", "281474976710656", "11728124029611"}

var inlineSeps = []string{" ", "  ", "\t", " \t ", "\v", "\f", "\r", "\xc2\xa0", "\xc2\x85", "\xe1\x9a\x80", "\xe2\x80\x80",
	"\xe2\x80\x8a", "\xe2\x80\xa8", "\xe2\x80\xa9", "\xe2\x80\xaf", "\xe2\x81\x9f", "\xe3\x80\x80",
	"\xe2\x80", "\xc2", "\xe2\x80\x8b", "\xe2\x80\xa7", "\xe3\x80\x81", "\xe2", "\xc2\xa1", "\xe1\x9a\x81"}

func plainWord(r *rand.Rand) []byte {
	n := 1 + r.Intn(6)
	b := make([]byte, n)
	for i := range b {
		for {
			x := byte(r.Intn(256))
			if r.Intn(3) != 0 {
				x = byte(33 + r.Intn(94))
			}
			if (x >= 9 && x <= 13) || x == 32 || x == 194 || x == 225 || x == 226 || x == 227 {
				continue
			}
			b[i] = x
			break
		}
	}
	return b
}

func runResp(c *corr.Ctx) error {
	c.Meta("run_module", "RunResp")
	c.Meta("rule", "every byte string of length <=4 (quick) / <=5 (thorough) over {* $ 0 1 - CR LF a}; valid arrays (nil/empty/binary bulks, up to 5000 elements); bulks of 64/128/256 KiB +-1 and larger delivered in full with non-uniform content, parsed bytes compared with the bytes sent with every truncation; 46 declared lengths (negative, zero, signs, limits +-1, 2^31-1, 2^40, 2^63-1, overflow, malformed) in multibulk and bulk position; terminator faults at every CRLF; inline commands with 25 ASCII/Unicode separators and long lines; single-byte mutations; random garbage. requests without arguments (*0, *-1, blank and empty inline lines) alone, repeated and before valid commands; pipelines with trailing partial frames. Observed per case: outcome class, arguments, bytes consumed, TotalAlloc delta of parseRESP in a child process; and, for the same bytes sent over TCP to the real gateway (handleConn), the whole reply stream until the server closes plus whether a new connection still answers PING. non-trivial = non-empty input; distinct by Gallina term")
	bin, err := buildGateway(c.Out)
	if err != nil {
		return err
	}
	rr := &respRunner{c: c, child: &respChild{bin: bin}, bin: bin}
	defer rr.child.kill()
	defer func() { rr.gw.stop() }()
	r := c.Rng

	if c.Replay != "" {
		cases, err := c.ReplayCases()
		if err != nil {
			return err
		}
		for _, cs := range cases {
			b, _ := json.Marshal(cs.Desc)
			var d respDesc
			if err := json.Unmarshal(b, &d); err != nil {
				return err
			}
			rr.run("replay", expand(d.Input), d.Frame)
		}
		return nil
	}

	// 1. exhaustive small scope
	alpha := []byte{'*', '$', '0', '1', '-', '\r', '\n', 'a'}
	maxLen := 4
	if c.Tier == "thorough" {
		maxLen = 5
	}
	var rec func(cur []byte)
	nEx := 0
	rec = func(cur []byte) {
		rr.run("exhaustive", append([]byte(nil), cur...), respFrame{})
		nEx++
		if len(cur) == maxLen {
			return
		}
		for _, a := range alpha {
			rec(append(cur, a))
		}
	}
	rec(nil)
	c.Meta("exhaustive", true)
	c.Meta("exhaustive_scope", fmt.Sprintf("all %d byte strings of length <= %d over the alphabet {* $ 0 1 - CR LF a}", nEx, maxLen))

	// 1b. requests without arguments (empty array, nil array, blank inline lines,
	// empty lines), alone, repeated, and followed by a valid command
	ping := encArray([][]byte{[]byte("PING")})
	for _, e := range []string{"*0\r\n", "*-1\r\n", "\r\n", " \r\n", "  \t \r\n", "\t\r\n", "\xc2\xa0\r\n", "\xe3\x80\x80 \r\n", "*00\r\n", "*-0\r\n", "*+0\r\n"} {
		for _, tail := range [][]byte{nil, ping, []byte("PING\r\n"), []byte(e), append([]byte(e), ping...), []byte("ECHO hi\r\nQUIT\r\nPING\r\n")} {
			rr.run("no_arguments", append([]byte(e), tail...), respFrame{})
			rr.run("no_arguments", append(append([]byte(nil), ping...), append([]byte(e), tail...)...), respFrame{})
		}
	}
	// pipelines of valid commands, with and without a trailing partial frame
	for _, tail := range []string{"", "PIN", "*1\r\n$4\r\nPI", "*2\r\n$4\r\nECHO\r\n", "\n", "*x\r\n"} {
		var b []byte
		for i := 0; i < 12; i++ {
			b = append(b, encArray([][]byte{[]byte("ECHO"), []byte(fmt.Sprintf("m%d", i))})...)
			b = append(b, "PING\r\n"...)
		}
		rr.run("pipeline", append(b, tail...), respFrame{})
	}

	// 2. declared lengths in both positions
	for _, d := range declaredLengths {
		for _, tail := range [][]byte{nil, []byte("$1\r\nx\r\n"), []byte("abc"), []byte("\r\n")} {
			rr.run("declared_multibulk", append([]byte("*"+d+"\r\n"), tail...), respFrame{})
			rr.run("declared_bulk", append([]byte("*1\r\n$"+d+"\r\n"), tail...), respFrame{})
			rr.run("declared_bulk2", append([]byte("*2\r\n$1\r\na\r\n$"+d+"\r\n"), tail...), respFrame{})
		}
	}

	// 3. valid arrays, with truncations / terminator faults / mutations of some
	nValid := c.Scale(250, 1500)
	for i := 0; i < nValid; i++ {
		n := r.Intn(7)
		if r.Intn(10) == 0 {
			n = 7 + r.Intn(30)
		}
		args := make([][]byte, n)
		for j := range args {
			args[j] = randArg(r, i%40 == 0)
		}
		rest := randRest(r)
		input := append(encArray(args), rest...)
		fr := respFrame{Kind: "array", Args: hexArgs(args), Rest: hex.EncodeToString(rest)}
		rr.run("valid_array", input, fr)
		if len(input) < 120 && i%5 == 0 {
			for k := 0; k < len(input); k++ {
				rr.run("truncation", input[:k], respFrame{})
			}
		}
		if len(input) < 400 && i%3 == 0 {
			// terminator faults
			for _, idx := range allIndex(input, []byte("\r\n")) {
				if r.Intn(3) != 0 {
					continue
				}
				for _, rep := range []string{"\n", "\r", "\r\r\n", "x\n", "\n\r", "\rx"} {
					m := append(append(append([]byte(nil), input[:idx]...), rep...), input[idx+2:]...)
					rr.run("terminator_fault", m, respFrame{})
				}
			}
			// single-byte mutations
			for k := 0; k < 6 && len(input) > 0; k++ {
				m := append([]byte(nil), input...)
				p := r.Intn(len(m))
				switch r.Intn(3) {
				case 0:
					m[p] = respAlphabet[r.Intn(len(respAlphabet))]
				case 1:
					m = append(m[:p], m[p+1:]...)
				default:
					m = append(m[:p], append([]byte{respAlphabet[r.Intn(len(respAlphabet))]}, m[p:]...)...)
				}
				rr.run("mutation", m, respFrame{})
			}
		}
	}
	// many elements: beyond the preallocated capacity, append growth
	for _, n := range []int{1023, 1024, 1025, 1500, c.Scale(3000, 20000)} {
		args := make([][]byte, n)
		for j := range args {
			switch j % 3 {
			case 0:
				args[j] = nil
			case 1:
				args[j] = []byte{}
			default:
				args[j] = []byte{'a'}
			}
		}
		input := encArray(args)
		rr.run("many_elements", input, respFrame{Kind: "array", Args: hexArgs(args)})
		rr.run("many_elements_trunc", input[:len(input)-3], respFrame{})
		rr.run("many_elements_declared_only", []byte(fmt.Sprintf("*%d\r\n", n)), respFrame{})
	}
	// big bulks delivered in full: every growth step of readBulk (64 KiB, 128 KiB,
	// 256 KiB, +-1) with non-uniform content (runs of 997/1009/1013/61 bytes whose
	// values cycle through 251 residues, so no run boundary is aligned with a
	// buffer boundary); the parsed bytes must be exactly the bytes sent
	for _, l := range []int{65535, 65536, 65537, 100000, 131071, 131072, 131073, 262143, 262144, 262145, c.Scale(300000, 1100000)} {
		payload := patternBytes(l, l)
		args := [][]byte{[]byte("SET"), []byte("k"), payload}
		rest := encArray([][]byte{[]byte("PING")})
		rr.run("big_bulk_exact", append(encArray(args), rest...),
			respFrame{Kind: "array", Args: hexArgs(args), Rest: hex.EncodeToString(rest)})
		two := [][]byte{[]byte("MSET"), []byte("a"), patternBytes(l, 7), []byte("b"), patternBytes(70000, l)} // two big bulks in one command
		rr.run("big_bulk_exact", encArray(two), respFrame{Kind: "array", Args: hexArgs(two)})
	}
	// big bulks: declared but short
	for _, l := range []int{65536, 65537, 131072, 131073, 300000, 536870912} {
		for _, have := range []int{0, 1, 65535, 65536, 65537, 131072, 140000} {
			if have > l {
				continue
			}
			input := append([]byte(fmt.Sprintf("*1\r\n$%d\r\n", l)), bytes.Repeat([]byte("q"), have)...)
			rr.run("big_bulk_short", input, respFrame{})
		}
	}

	// 4. inline commands
	nInline := c.Scale(300, 3000)
	for i := 0; i < nInline; i++ {
		nw := 1 + r.Intn(4)
		words := make([][]byte, nw)
		for j := range words {
			words[j] = plainWord(r)
		}
		rest := randRest(r)
		if r.Intn(2) == 0 {
			// canonical: single spaces
			input := append(append(bytes.Join(words, []byte(" ")), '\r', '\n'), rest...)
			rr.run("inline_canonical", input, respFrame{Kind: "inline", Args: hexArgs(words), Rest: hex.EncodeToString(rest)})
			continue
		}
		var line []byte
		if r.Intn(3) == 0 {
			line = append(line, inlineSeps[r.Intn(len(inlineSeps))]...)
		}
		for j, w := range words {
			if j > 0 {
				line = append(line, inlineSeps[r.Intn(len(inlineSeps))]...)
			}
			line = append(line, w...)
		}
		if r.Intn(3) == 0 {
			line = append(line, inlineSeps[r.Intn(len(inlineSeps))]...)
		}
		term := []string{"\r\n", "\r\n", "\r\n", "\n", "", "\r"}[r.Intn(6)]
		rr.run("inline_separators", append(append(line, term...), rest...), respFrame{})
	}
	for _, n := range []int{100, 4095, 4096, 4097, 70000, c.Scale(100000, 300000)} {
		long := bytes.Repeat([]byte("a"), n)
		rr.run("inline_long", append(append([]byte(nil), long...), '\r', '\n'), respFrame{Kind: "inline", Args: hexArgs([][]byte{long})})
		rr.run("inline_long_noterm", long, respFrame{})
		rr.run("inline_long_spaces", append(bytes.Repeat([]byte("a "), n/2), '\r', '\n'), respFrame{})
	}

	// 5. garbage
	nGarbage := c.Scale(400, 3000)
	for i := 0; i < nGarbage; i++ {
		rr.run("garbage", randBytes(r, r.Intn(40)), respFrame{})
	}
	return nil
}

// patternBytes returns n bytes made of runs of varying length and value: it
// compresses well (compress: runs >= 48) and is not periodic in any power of two.
func patternBytes(n, salt int) []byte {
	out := make([]byte, 0, n)
	lens := []int{997, 1009, 61, 1013, 4099}
	for i := 0; len(out) < n; i++ {
		v := byte(1 + (i*7+salt)%251)
		for j := 0; j < lens[i%len(lens)] && len(out) < n; j++ {
			out = append(out, v)
		}
	}
	return out
}

func truncate(b []byte, n int) []byte {
	if len(b) > n {
		return b[:n]
	}
	return b
}

func allIndex(b, sep []byte) []int {
	var out []int
	for i := 0; i+len(sep) <= len(b); i++ {
		if bytes.Equal(b[i:i+len(sep)], sep) {
			out = append(out, i)
		}
	}
	return out
}

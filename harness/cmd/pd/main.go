// Harness binary for C26 (PD region catalog and routing).
package main

import "verifharness/internal/corr"

func main() { corr.Main(map[string]corr.Family{"pd": runPd}) }

package main

import (
	"bytes"
	"context"
	"encoding/json"
	"fmt"
	"os"
	"path/filepath"
	"sort"
	"strings"

	"github.com/feichai0017/NoKV/manifest"
	"github.com/feichai0017/NoKV/pb"
	"github.com/feichai0017/NoKV/pd/core"
	pdserver "github.com/feichai0017/NoKV/pd/server"
	pdstorage "github.com/feichai0017/NoKV/pd/storage"
	"verifharness/internal/corr"
)

// C26: pd/core.Cluster through pd/server.Service over pd/storage.LocalStore.

type pdRegion struct {
	ID         uint64
	Start, End []byte
	Ver, Conf  uint64
}

type pdOp struct {
	Kind   string // hb rm lk snap restart
	Region pdRegion
	ID     uint64
	Key    []byte
}

type pdCase struct {
	Ops []pdOp
}

func (r pdRegion) coq() string {
	return fmt.Sprintf("(Rg %d %s %s %d %d)", r.ID, corr.Hex(r.Start), corr.Hex(r.End), r.Ver, r.Conf)
}

func fromPB(m *pb.RegionMeta) pdRegion {
	return pdRegion{ID: m.GetId(), Start: m.GetStartKey(), End: m.GetEndKey(), Ver: m.GetEpochVersion(), Conf: m.GetEpochConfVersion()}
}

func fromManifest(m manifest.RegionMeta) pdRegion {
	return pdRegion{ID: m.ID, Start: m.StartKey, End: m.EndKey, Ver: m.Epoch.Version, Conf: m.Epoch.ConfVersion}
}

func classifyHB(err error) int {
	if err == nil {
		return 0
	}
	m := err.Error()
	switch {
	case strings.Contains(m, core.ErrInvalidRegionID.Error()):
		return 1
	case strings.Contains(m, "invalid region range"):
		return 2
	case strings.Contains(m, core.ErrRegionHeartbeatStale.Error()):
		return 3
	case strings.Contains(m, core.ErrRegionRangeOverlap.Error()):
		return 4
	}
	return 9
}

type pdNode struct {
	dir     string
	store   *pdstorage.LocalStore
	cluster *core.Cluster
	svc     *pdserver.Service
}

// open replicates the startup of cmd/nokv/pd.go: open the local store, load
// the snapshot, restore regions in ascending id order through
// UpsertRegionHeartbeat (restorePDRegions lives in package main and cannot be
// imported), then serve with the storage attached.
func (n *pdNode) open() error {
	st, err := pdstorage.OpenLocalStore(n.dir, nil)
	if err != nil {
		return err
	}
	snap, err := st.Load()
	if err != nil {
		st.Close()
		return err
	}
	cl := core.NewCluster()
	ids := make([]uint64, 0, len(snap.Regions))
	for id := range snap.Regions {
		if id != 0 {
			ids = append(ids, id)
		}
	}
	sort.Slice(ids, func(i, j int) bool { return ids[i] < ids[j] })
	var rerr error
	for _, id := range ids {
		meta := snap.Regions[id]
		if meta.ID == 0 {
			continue
		}
		if err := cl.UpsertRegionHeartbeat(meta); err != nil {
			rerr = err
			break
		}
	}
	n.store, n.cluster = st, cl
	n.svc = pdserver.NewService(cl, nil, nil)
	n.svc.SetStorage(st)
	return rerr
}

func (n *pdNode) snapshot() string {
	var rs []string
	for _, info := range n.cluster.RegionSnapshot() {
		rs = append(rs, fromManifest(info.Meta).coq())
	}
	return corr.List(rs)
}

func pdRun(c *corr.Ctx, d pdCase, serial int) (corr.Case, error) {
	dir := filepath.Join(c.Out, "work", fmt.Sprintf("pd-%d", serial))
	if err := os.MkdirAll(dir, 0o755); err != nil {
		return corr.Case{}, err
	}
	defer os.RemoveAll(dir)
	n := &pdNode{dir: dir}
	if err := n.open(); err != nil {
		return corr.Case{}, err
	}
	defer func() { n.store.Close() }()
	ctx := context.Background()
	var terms []string
	routed, accepted := 0, 0
	for _, op := range d.Ops {
		switch op.Kind {
		case "hb":
			r := op.Region
			_, err := n.svc.RegionHeartbeat(ctx, &pb.RegionHeartbeatRequest{Region: &pb.RegionMeta{
				Id: r.ID, StartKey: r.Start, EndKey: r.End, EpochVersion: r.Ver, EpochConfVersion: r.Conf,
				Peers: []*pb.RegionPeer{{StoreId: 1, PeerId: r.ID*10 + 1}}}})
			code := classifyHB(err)
			if code == 0 {
				accepted++
			}
			c.Count(fmt.Sprintf("heartbeat_code_%d", code))
			terms = append(terms, fmt.Sprintf("HB %s %d", r.coq(), code))
		case "rm":
			if op.ID == 0 {
				// the service rejects id 0 before reaching the cluster; go to the cluster directly
				ex := n.cluster.RemoveRegion(0)
				terms = append(terms, fmt.Sprintf("RM 0 %s", corr.Bool(ex)))
				break
			}
			resp, err := n.svc.RemoveRegion(ctx, &pb.RemoveRegionRequest{RegionId: op.ID})
			if err != nil {
				return corr.Case{}, err
			}
			terms = append(terms, fmt.Sprintf("RM %d %s", op.ID, corr.Bool(resp.GetRemoved())))
		case "lk":
			resp, err := n.svc.GetRegionByKey(ctx, &pb.GetRegionByKeyRequest{Key: op.Key})
			if err != nil {
				return corr.Case{}, err
			}
			res := "None"
			if !resp.GetNotFound() && resp.GetRegion() != nil {
				res = "(Some " + fromPB(resp.GetRegion()).coq() + ")"
				routed++
				c.Count("lookup_found")
			} else {
				c.Count("lookup_none")
			}
			terms = append(terms, fmt.Sprintf("LK %s %s", corr.Hex(op.Key), res))
		case "snap":
			terms = append(terms, "SN "+n.snapshot())
		case "restart":
			if err := n.store.Close(); err != nil {
				return corr.Case{}, err
			}
			err := n.open()
			c.Count("restart")
			terms = append(terms, fmt.Sprintf("RS %s %s", corr.Bool(err == nil), n.snapshot()))
		}
	}
	return corr.Case{Coq: corr.List(terms), Nontrivial: accepted >= 2 && routed >= 1, Desc: d}, nil
}

// corpusDescs returns the "desc" of every case stored under corpus/<prop>/.
func corpusDescs(prop string) []json.RawMessage {
	files, _ := filepath.Glob(filepath.Join(os.Getenv("VERIF_DIR"), "corpus", prop, "*.json"))
	sort.Strings(files)
	var out []json.RawMessage
	for _, f := range files {
		b, err := os.ReadFile(f)
		if err != nil {
			continue
		}
		var j struct {
			Cases []struct {
				Desc json.RawMessage `json:"desc"`
			} `json:"cases"`
		}
		if json.Unmarshal(b, &j) != nil {
			continue
		}
		for _, cs := range j.Cases {
			out = append(out, cs.Desc)
		}
	}
	return out
}

var pdBounds = [][]byte{nil, []byte("b"), {'b', 0}, []byte("d"), []byte("m"), []byte("mm"), []byte("t"), {0xff}}

func pdKeys() [][]byte {
	ks := [][]byte{nil, {0}, []byte("a"), []byte("c"), []byte("z"), {0xff, 0xff}}
	for _, b := range pdBounds {
		if len(b) == 0 {
			continue
		}
		ks = append(ks, b, append(append([]byte(nil), b...), 0))
		p := append([]byte(nil), b...)
		if p[len(p)-1] > 0 {
			p[len(p)-1]--
			ks = append(ks, append(p, 0xff))
		}
	}
	return ks
}

func runPd(c *corr.Ctx) error {
	c.Meta("run_module", "RunPd")
	c.Meta("rule", "sequences of 4-14 heartbeats/removals over ids 0..5 and 8 boundary keys (ranges include unbounded, inverted and empty ones, epochs 0..3 x 0..3), each followed by lookups of every boundary key and its neighbours, a snapshot, and mostly a restart through LocalStore + restore followed by the same lookups; plus an exhaustive sweep of all ordered pairs of ranges over 5 bounds. non-trivial = at least two accepted heartbeats and one successful lookup")
	serial := 0
	emit := func(d pdCase) error {
		serial++
		cs, err := pdRun(c, d, serial)
		if err != nil {
			return err
		}
		c.Emit(cs)
		return nil
	}
	if c.Replay != "" {
		cases, err := c.ReplayCases()
		if err != nil {
			return err
		}
		for _, rc := range cases {
			b, _ := json.Marshal(rc.Desc)
			var d pdCase
			if err := json.Unmarshal(b, &d); err != nil {
				return err
			}
			if err := emit(d); err != nil {
				return err
			}
		}
		return nil
	}
	for _, raw := range corpusDescs(c.Prop) {
		var d pdCase
		if json.Unmarshal(raw, &d) == nil && len(d.Ops) > 0 {
			if err := emit(d); err != nil {
				return err
			}
			c.Count("corpus_rerun")
		}
	}
	keys := pdKeys()
	lookups := func(d *pdCase) {
		for _, k := range keys {
			d.Ops = append(d.Ops, pdOp{Kind: "lk", Key: k})
		}
	}
	// exhaustive: every ordered pair of ranges over 5 bounds (incl. unbounded), ids 1 and 2
	small := [][]byte{nil, []byte("b"), []byte("d"), []byte("m"), {'b', 0}}
	pairs := 0
	for _, s1 := range small {
		for _, e1 := range small {
			var d pdCase
			for _, s2 := range small {
				for _, e2 := range small {
					// fresh ids per inner pair so that pairs do not interact: remove both afterwards
					d.Ops = append(d.Ops, pdOp{Kind: "hb", Region: pdRegion{ID: 1, Start: s1, End: e1, Ver: 1, Conf: 1}},
						pdOp{Kind: "hb", Region: pdRegion{ID: 2, Start: s2, End: e2, Ver: 1, Conf: 1}})
					for _, k := range [][]byte{nil, []byte("a"), []byte("b"), {'b', 0}, []byte("c"), []byte("d"), []byte("e"), []byte("m"), []byte("z")} {
						d.Ops = append(d.Ops, pdOp{Kind: "lk", Key: k})
					}
					d.Ops = append(d.Ops, pdOp{Kind: "rm", ID: 1}, pdOp{Kind: "rm", ID: 2})
					pairs++
				}
			}
			if err := emit(d); err != nil {
				return err
			}
		}
	}
	c.CountN("exhaustive_range_pairs", pairs)
	c.Meta("exhaustive", true)
	c.Meta("exhaustive_scope", "all 625 ordered pairs of ranges with start,end in {unbounded,b,b\\x00,d,m} (inverted and empty ranges included) heartbeated as regions 1 and 2, each followed by 9 lookups")

	n := c.Scale(220, 6000)
	for i := 0; i < n; i++ {
		var d pdCase
		nops := 4 + c.Rng.Intn(11)
		// a mostly-valid generator: build towards a partition, with noise
		for j := 0; j < nops; j++ {
			switch x := c.Rng.Intn(10); {
			case x < 8:
				r := pdRegion{ID: uint64(c.Rng.Intn(6)), Ver: uint64(c.Rng.Intn(4)), Conf: uint64(c.Rng.Intn(4))}
				if c.Rng.Intn(4) != 0 {
					// adjacent bounds in order
					a := c.Rng.Intn(len(pdBounds))
					b := a + 1 + c.Rng.Intn(2)
					r.Start = pdBounds[a]
					if b < len(pdBounds) {
						r.End = pdBounds[b]
					}
				} else {
					r.Start = corr.Pick(c.Rng, pdBounds)
					r.End = corr.Pick(c.Rng, pdBounds)
				}
				if c.Rng.Intn(3) != 0 && r.ID == 0 {
					r.ID = uint64(1 + c.Rng.Intn(5))
				}
				d.Ops = append(d.Ops, pdOp{Kind: "hb", Region: r})
			case x == 8:
				d.Ops = append(d.Ops, pdOp{Kind: "rm", ID: uint64(c.Rng.Intn(6))})
			default:
				d.Ops = append(d.Ops, pdOp{Kind: "lk", Key: corr.Pick(c.Rng, keys)})
			}
		}
		lookups(&d)
		d.Ops = append(d.Ops, pdOp{Kind: "snap"})
		if c.Rng.Intn(4) != 0 {
			d.Ops = append(d.Ops, pdOp{Kind: "restart"})
			lookups(&d)
			// life goes on after the restart
			d.Ops = append(d.Ops, pdOp{Kind: "hb", Region: pdRegion{ID: uint64(1 + c.Rng.Intn(5)), Start: corr.Pick(c.Rng, pdBounds), End: corr.Pick(c.Rng, pdBounds), Ver: uint64(c.Rng.Intn(4)), Conf: uint64(c.Rng.Intn(4))}},
				pdOp{Kind: "snap"})
		}
		if err := emit(d); err != nil {
			return err
		}
	}
	_ = bytes.Compare
	return nil
}

// Harness binary for C16 (codecs: round trips, key order, decoder safety).
package main

import "verifharness/internal/corr"

func main() { corr.Main(map[string]corr.Family{"codec": runCodec}) }

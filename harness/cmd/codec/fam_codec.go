package main

import (
	"bytes"
	"encoding/binary"
	"encoding/hex"
	"encoding/json"
	"errors"
	"fmt"
	"io"
	"runtime"
	"runtime/debug"
	"strings"

	"github.com/feichai0017/NoKV/kv"
	"github.com/feichai0017/NoKV/manifest"
	"github.com/feichai0017/NoKV/pb"
	"github.com/feichai0017/NoKV/percolator"
	myraft "github.com/feichai0017/NoKV/raft"
	"github.com/feichai0017/NoKV/raftstore/command"
	"github.com/feichai0017/NoKV/raftstore/engine"
	"github.com/feichai0017/NoKV/utils"
	"github.com/feichai0017/NoKV/wal"
	"verifharness/internal/corr"
)

// flat value: numbers and byte strings
type flat struct {
	N []uint64 `json:"n"`
	B [][]byte `json:"b"`
}

func (f flat) term() string {
	bs := make([]string, len(f.B))
	for i, b := range f.B {
		bs[i] = "H " + corr.Hex(b)
	}
	return fmt.Sprintf("(%s, %s)", corr.ListN(f.N), corr.List(bs))
}

type obs struct {
	kind  string // panic | err | val
	class int
	v     flat
}

func (o obs) term() string {
	switch o.kind {
	case "panic":
		return "OPanic"
	case "err":
		return fmt.Sprintf("(OErr %d)", o.class)
	}
	return "(OVal " + o.v.term() + ")"
}

func b2u(b bool) uint64 {
	if b {
		return 1
	}
	return 0
}

func flatEdit(e manifest.Edit) flat {
	t := uint64(e.Type)
	switch e.Type {
	case manifest.EditAddFile, manifest.EditDeleteFile:
		f := e.File
		return flat{N: []uint64{t, uint64(f.Level), f.FileID, f.Size, f.CreatedAt, f.ValueSize, b2u(f.Ingest)}, B: [][]byte{f.Smallest, f.Largest}}
	case manifest.EditLogPointer:
		return flat{N: []uint64{2, uint64(e.LogSeg), e.LogOffset}}
	case manifest.EditValueLogHead, manifest.EditDeleteValueLog, manifest.EditUpdateValueLog:
		if e.ValueLog == nil {
			return flat{N: []uint64{t, 0}}
		}
		v := e.ValueLog
		return flat{N: []uint64{t, 1, uint64(v.Bucket), uint64(v.FileID), v.Offset, b2u(v.Valid)}}
	case manifest.EditRaftPointer:
		if e.Raft == nil {
			return flat{N: []uint64{6, 0}}
		}
		r := e.Raft
		return flat{N: []uint64{6, 1, r.GroupID, uint64(r.Segment), r.Offset, r.AppliedIndex, r.AppliedTerm, r.Committed,
			r.SnapshotIndex, r.SnapshotTerm, r.TruncatedIndex, r.TruncatedTerm, r.SegmentIndex, r.TruncatedOffset}}
	case manifest.EditRegion:
		if e.Region == nil {
			return flat{N: []uint64{7, 0}}
		}
		m := e.Region.Meta
		n := []uint64{7, 1, b2u(e.Region.Delete), m.ID, m.Epoch.Version, m.Epoch.ConfVersion, uint64(m.State)}
		for _, p := range m.Peers {
			n = append(n, p.StoreID, p.PeerID)
		}
		return flat{N: n, B: [][]byte{m.StartKey, m.EndKey}}
	}
	return flat{N: []uint64{t}}
}

// decode runs decoder k on input under recover() and measures the bytes allocated.
func decode(k int, input []byte) (o obs, alloc uint64) {
	var m0, m1 runtime.MemStats
	in := append([]byte(nil), input...)
	runtime.ReadMemStats(&m0)
	func() {
		defer func() {
			if r := recover(); r != nil {
				o = obs{kind: "panic"}
			}
		}()
		o = decodeRaw(k, in)
	}()
	runtime.ReadMemStats(&m1)
	return o, m1.TotalAlloc - m0.TotalAlloc
}

func errObs(c int) obs { return obs{kind: "err", class: c} }

func decodeRaw(k int, in []byte) obs {
	switch k {
	case 1:
		r := bytes.NewReader(in)
		e, n, err := kv.DecodeEntryFrom(r)
		if err != nil {
			switch {
			case errors.Is(err, io.EOF):
				return errObs(1)
			case errors.Is(err, kv.ErrPartialEntry):
				return errObs(2)
			case errors.Is(err, kv.ErrBadChecksum):
				return errObs(3)
			}
			return errObs(4)
		}
		o := obs{kind: "val", v: flat{N: []uint64{uint64(e.Meta), e.ExpiresAt, uint64(n), uint64(r.Len())},
			B: [][]byte{append([]byte(nil), e.Key...), append([]byte(nil), e.Value...)}}}
		e.DecrRef()
		return o
	case 2:
		v, h, err := kv.DecodeValueSlice(in)
		if err != nil {
			switch {
			case errors.Is(err, io.ErrUnexpectedEOF):
				return errObs(1)
			case errors.Is(err, kv.ErrBadChecksum):
				return errObs(3)
			}
			return errObs(2)
		}
		return obs{kind: "val", v: flat{N: []uint64{uint64(h.KeyLen), uint64(h.ValueLen), uint64(h.Meta), h.ExpiresAt}, B: [][]byte{v}}}
	case 3:
		var v kv.ValueStruct
		v.DecodeValue(in)
		return obs{kind: "val", v: flat{N: []uint64{uint64(v.Meta), v.ExpiresAt}, B: [][]byte{v.Value}}}
	case 4:
		var p kv.ValuePtr
		p.Decode(in)
		return obs{kind: "val", v: flat{N: []uint64{uint64(p.Len), uint64(p.Offset), uint64(p.Fid), uint64(p.Bucket)}}}
	case 5:
		l, err := percolator.DecodeLock(in)
		if err != nil {
			return errObs(1)
		}
		return obs{kind: "val", v: flat{N: []uint64{l.Ts, l.TTL, uint64(l.Kind), l.MinCommitTs}, B: [][]byte{l.Primary}}}
	case 6:
		w, err := percolator.DecodeWrite(in)
		if err != nil {
			return errObs(1)
		}
		return obs{kind: "val", v: flat{N: []uint64{uint64(w.Kind), w.StartTs}, B: [][]byte{w.ShortValue}}}
	case 7:
		g, es, err := engine.VerifDecodeRaftEntries(in)
		if err != nil {
			if errors.Is(err, io.ErrUnexpectedEOF) && !strings.Contains(err.Error(), "proto") {
				return errObs(1)
			}
			return errObs(2)
		}
		f := flat{N: []uint64{g}}
		for _, e := range es {
			b, _ := e.Marshal()
			f.B = append(f.B, b)
		}
		return obs{kind: "val", v: f}
	case 8:
		g, st, err := engine.VerifDecodeRaftHardState(in)
		if err != nil {
			if errors.Is(err, io.ErrUnexpectedEOF) && !strings.Contains(err.Error(), "proto") {
				return errObs(1)
			}
			return errObs(2)
		}
		b, _ := st.Marshal()
		return obs{kind: "val", v: flat{N: []uint64{g}, B: [][]byte{b}}}
	case 9:
		req, is, err := command.Decode(in)
		if !is {
			return obs{kind: "val", v: flat{N: []uint64{0}}}
		}
		if err != nil {
			return errObs(2)
		}
		_ = req
		// the body is opaque: report the bytes after the prefix
		return obs{kind: "val", v: flat{N: []uint64{1}, B: [][]byte{in[1:]}}}
	case 10:
		e, err := manifest.VerifDecodeEdit(in)
		if err != nil {
			return errObs(1)
		}
		return obs{kind: "val", v: flatEdit(e)}
	case 11:
		e, err := manifest.VerifReadEdit(in)
		if err != nil {
			if err == io.EOF {
				return errObs(1)
			}
			return errObs(2)
		}
		return obs{kind: "val", v: flatEdit(e)}
	case 12:
		r := bytes.NewReader(in)
		ty, p, n, err := wal.DecodeRecord(r)
		if err != nil {
			switch {
			case err == io.EOF:
				return errObs(1)
			case errors.Is(err, utils.ErrEmptyRecord):
				return errObs(2)
			case errors.Is(err, utils.ErrPartialRecord):
				return errObs(3)
			case errors.Is(err, kv.ErrBadChecksum):
				return errObs(4)
			}
			return errObs(0)
		}
		return obs{kind: "val", v: flat{N: []uint64{uint64(ty), uint64(n), uint64(r.Len())}, B: [][]byte{p}}}
	case 13:
		cf, uk, ts := kv.SplitInternalKey(in)
		return obs{kind: "val", v: flat{N: []uint64{uint64(cf), ts}, B: [][]byte{uk}}}
	}
	return errObs(0)
}

var decNames = map[int]string{1: "entry", 2: "value_slice", 3: "value_struct", 4: "value_ptr", 5: "lock", 6: "write",
	7: "raft_entries", 8: "raft_hardstate", 9: "command", 10: "manifest_edit", 11: "manifest_read", 12: "wal_record", 13: "split_ikey"}

type codecDesc struct {
	Kind   string `json:"kind"` // dec | enc | cmp
	K      int    `json:"k"`
	Input  string `json:"input,omitempty"`
	V      *flat  `json:"v,omitempty"`
	Expect *flat  `json:"expect,omitempty"`
	A      string `json:"a,omitempty"`
	B      string `json:"b,omitempty"`
	KA     *flat  `json:"ka,omitempty"`
	KB     *flat  `json:"kb,omitempty"`
}

func optFlat(f *flat) string {
	if f == nil {
		return "None"
	}
	return "(Some " + f.term() + ")"
}

func emitDec(c *corr.Ctx, k int, input []byte, expect *flat, tag string) {
	o, alloc := decode(k, input)
	term := fmt.Sprintf("Cd %d (H %s) %s %d %s", k, corr.Hex(input), o.term(), alloc, optFlat(expect))
	c.Count("dec_" + decNames[k] + "_" + o.kind)
	c.Count("stream_" + tag)
	c.Emit(corr.Case{Coq: term, Nontrivial: len(input) > 0,
		Desc: codecDesc{Kind: "dec", K: k, Input: hex.EncodeToString(input), Expect: expect}})
}

// encode runs the real encoder k on a flat value.
func encode(k int, v flat) ([]byte, error) {
	switch k {
	case 1:
		return kv.EncodeEntry(nil, &kv.Entry{Key: v.B[0], Value: v.B[1], Meta: byte(v.N[0]), ExpiresAt: v.N[1]})
	case 3:
		vs := kv.ValueStruct{Meta: byte(v.N[0]), ExpiresAt: v.N[1], Value: v.B[0]}
		buf := make([]byte, vs.EncodedSize())
		n := vs.EncodeValue(buf)
		return buf[:n], nil
	case 14: // the whole buffer a caller reserves with EncodedSize, after EncodeValue
		vs := kv.ValueStruct{Meta: byte(v.N[0]), ExpiresAt: v.N[1], Value: v.B[0]}
		buf := make([]byte, vs.EncodedSize())
		vs.EncodeValue(buf)
		return buf, nil
	case 15:
		vs := kv.ValueStruct{Meta: byte(v.N[0]), ExpiresAt: v.N[1], Value: v.B[0]}
		return binary.BigEndian.AppendUint32(nil, vs.EncodedSize()), nil
	case 4:
		return kv.ValuePtr{Len: uint32(v.N[0]), Offset: uint32(v.N[1]), Fid: uint32(v.N[2]), Bucket: uint32(v.N[3])}.Encode(), nil
	case 5:
		return percolator.EncodeLock(percolator.Lock{Primary: v.B[0], Ts: v.N[0], TTL: v.N[1], Kind: pb.Mutation_Op(v.N[2]), MinCommitTs: v.N[3]}), nil
	case 6:
		return percolator.EncodeWrite(percolator.Write{Kind: pb.Mutation_Op(v.N[0]), StartTs: v.N[1], ShortValue: v.B[0]}), nil
	case 7:
		es := make([]myraft.Entry, len(v.B))
		for i, b := range v.B {
			if err := es[i].Unmarshal(b); err != nil {
				return nil, err
			}
		}
		return engine.VerifEncodeRaftEntries(v.N[0], es)
	case 8:
		var st myraft.HardState
		if err := st.Unmarshal(v.B[0]); err != nil {
			return nil, err
		}
		return engine.VerifEncodeRaftHardState(v.N[0], st)
	case 10:
		return manifest.VerifEncodeEdit(unflatEdit(v))
	case 12:
		var buf bytes.Buffer
		_, err := wal.EncodeRecord(&buf, wal.RecordType(v.N[0]), v.B[0])
		return buf.Bytes(), err
	case 13:
		return kv.InternalKey(kv.ColumnFamily(v.N[0]), v.B[0], v.N[1]), nil
	}
	return nil, fmt.Errorf("no encoder %d", k)
}

func unflatEdit(v flat) manifest.Edit {
	t := manifest.EditType(v.N[0])
	e := manifest.Edit{Type: t}
	switch t {
	case manifest.EditAddFile, manifest.EditDeleteFile:
		e.File = &manifest.FileMeta{Level: int(v.N[1]), FileID: v.N[2], Size: v.N[3], CreatedAt: v.N[4], ValueSize: v.N[5], Ingest: v.N[6] != 0, Smallest: v.B[0], Largest: v.B[1]}
	case manifest.EditLogPointer:
		e.LogSeg, e.LogOffset = uint32(v.N[1]), v.N[2]
	case manifest.EditValueLogHead, manifest.EditDeleteValueLog, manifest.EditUpdateValueLog:
		if v.N[1] != 0 {
			e.ValueLog = &manifest.ValueLogMeta{Bucket: uint32(v.N[2]), FileID: uint32(v.N[3]), Offset: v.N[4], Valid: v.N[5] != 0}
		}
	case manifest.EditRaftPointer:
		if v.N[1] != 0 {
			n := v.N[2:]
			e.Raft = &manifest.RaftLogPointer{GroupID: n[0], Segment: uint32(n[1]), Offset: n[2], AppliedIndex: n[3], AppliedTerm: n[4], Committed: n[5],
				SnapshotIndex: n[6], SnapshotTerm: n[7], TruncatedIndex: n[8], TruncatedTerm: n[9], SegmentIndex: n[10], TruncatedOffset: n[11]}
		}
	case manifest.EditRegion:
		if v.N[1] != 0 {
			m := manifest.RegionMeta{ID: v.N[3], Epoch: manifest.RegionEpoch{Version: v.N[4], ConfVersion: v.N[5]}, State: manifest.RegionState(v.N[6]), StartKey: v.B[0], EndKey: v.B[1]}
			for i := 7; i+1 < len(v.N); i += 2 {
				m.Peers = append(m.Peers, manifest.PeerMeta{StoreID: v.N[i], PeerID: v.N[i+1]})
			}
			e.Region = &manifest.RegionEdit{Meta: m, Delete: v.N[2] != 0}
		}
	}
	return e
}

// ---- generators ----

var interestingU64 = []uint64{0, 1, 2, 127, 128, 255, 256, 16383, 16384, 1<<31 - 1, 1 << 31, 1<<32 - 1, 1 << 32, 1<<63 - 1, 1 << 63, 1<<64 - 1}

func genU64(c *corr.Ctx) uint64 {
	switch c.Rng.Intn(4) {
	case 0:
		return corr.Pick(c.Rng, interestingU64)
	case 1:
		return uint64(c.Rng.Intn(300))
	}
	return c.Rng.Uint64() >> uint(c.Rng.Intn(64))
}
func genU32(c *corr.Ctx) uint64 { return genU64(c) & 0xffffffff }

func genBytes(c *corr.Ctx, max int) []byte {
	n := corr.Pick(c.Rng, []int{0, 0, 1, 2, 3, 8, 9, 20, max})
	b := make([]byte, n)
	for i := range b {
		b[i] = corr.Pick(c.Rng, []byte{0, 1, 0x7f, 0x80, 0xff, 'a', 'b', byte(c.Rng.Intn(256))})
	}
	return b
}

func genRaftEntryBody(c *corr.Ctx) []byte {
	e := myraft.Entry{Term: genU64(c) >> 20, Index: genU64(c) >> 20, Data: genBytes(c, 40)}
	b, _ := e.Marshal()
	return b
}

// genValue returns a valid flat value for codec k, and the flat value the decoder is expected to return.
func genValue(c *corr.Ctx, k int) (v flat, expect flat) {
	switch k {
	case 1:
		key, val := genBytes(c, 70), genBytes(c, 300)
		v = flat{N: []uint64{uint64(c.Rng.Intn(256)), genU64(c)}, B: [][]byte{key, val}}
		return v, flat{} // expectation filled by caller (record length)
	case 3:
		v = flat{N: []uint64{uint64(c.Rng.Intn(256)), genU64(c)}, B: [][]byte{genBytes(c, 50)}}
		return v, v
	case 4:
		v = flat{N: []uint64{genU32(c), genU32(c), genU32(c), genU32(c)}}
		return v, v
	case 5:
		v = flat{N: []uint64{genU64(c), genU64(c), uint64(c.Rng.Intn(256)), genU64(c)}, B: [][]byte{genBytes(c, 40)}}
		return v, v
	case 6:
		v = flat{N: []uint64{uint64(c.Rng.Intn(256)), genU64(c)}, B: [][]byte{genBytes(c, 40)}}
		return v, v
	case 7:
		v = flat{N: []uint64{genU64(c)}}
		for i, n := 0, c.Rng.Intn(4); i < n; i++ {
			v.B = append(v.B, genRaftEntryBody(c))
		}
		return v, v
	case 8:
		st := myraft.HardState{Term: genU64(c) >> 10, Vote: genU64(c) >> 10, Commit: genU64(c) >> 10}
		b, _ := st.Marshal()
		v = flat{N: []uint64{genU64(c)}, B: [][]byte{b}}
		return v, v
	case 10:
		v = genEdit(c)
		return v, v
	case 12:
		v = flat{N: []uint64{uint64(c.Rng.Intn(256))}, B: [][]byte{genBytes(c, 200)}}
		return v, v
	case 13:
		v = flat{N: []uint64{uint64(c.Rng.Intn(3)), genU64(c)}, B: [][]byte{genBytes(c, 12)}}
		return v, v
	}
	return
}

func genEdit(c *corr.Ctx) flat {
	switch t := uint64(c.Rng.Intn(9)); t {
	case 0, 1:
		lv := uint64(c.Rng.Intn(7))
		if c.Rng.Intn(8) == 0 {
			lv = genU64(c)
		}
		return flat{N: []uint64{t, lv, genU64(c), genU64(c), genU64(c), genU64(c), uint64(c.Rng.Intn(2))}, B: [][]byte{genBytes(c, 30), genBytes(c, 30)}}
	case 2:
		return flat{N: []uint64{2, genU32(c), genU64(c)}}
	case 3:
		if c.Rng.Intn(6) == 0 {
			return flat{N: []uint64{3, 0}}
		}
		return flat{N: []uint64{3, 1, genU32(c), genU32(c), genU64(c), 1}}
	case 4:
		if c.Rng.Intn(6) == 0 {
			return flat{N: []uint64{4, 0}}
		}
		return flat{N: []uint64{4, 1, genU32(c), genU32(c), 0, 0}}
	case 5:
		if c.Rng.Intn(6) == 0 {
			return flat{N: []uint64{5, 0}}
		}
		return flat{N: []uint64{5, 1, genU32(c), genU32(c), genU64(c), uint64(c.Rng.Intn(2))}}
	case 6:
		n := []uint64{6, 1, genU64(c), genU32(c)}
		for i := 0; i < 10; i++ {
			n = append(n, genU64(c))
		}
		return flat{N: n}
	case 7:
		if c.Rng.Intn(4) == 0 {
			return flat{N: []uint64{7, 1, 1, genU64(c), 0, 0, 0}, B: [][]byte{nil, nil}}
		}
		n := []uint64{7, 1, 0, genU64(c), genU64(c), genU64(c), uint64(c.Rng.Intn(256))}
		for i, k := 0, c.Rng.Intn(4); i < k; i++ {
			n = append(n, genU64(c), genU64(c))
		}
		return flat{N: n, B: [][]byte{genBytes(c, 20), genBytes(c, 20)}}
	}
	return flat{N: []uint64{uint64(8 + c.Rng.Intn(3))}}
}

func uvar(x uint64) []byte { return binary.AppendUvarint(nil, x) }

// mutate derives malformed inputs from a valid encoding.
func mutate(c *corr.Ctx, enc []byte) [][]byte {
	var out [][]byte
	// truncations
	if len(enc) <= 24 {
		for i := 0; i < len(enc); i++ {
			out = append(out, enc[:i])
		}
	} else {
		for i := 0; i < 6; i++ {
			out = append(out, enc[:c.Rng.Intn(len(enc))])
		}
	}
	// bit flips
	for i := 0; i < 4 && len(enc) > 0; i++ {
		b := append([]byte(nil), enc...)
		b[c.Rng.Intn(len(b))] ^= 1 << uint(c.Rng.Intn(8))
		out = append(out, b)
	}
	// adversarial varints spliced in at a random position (replacing one byte)
	adv := [][]byte{uvar(1 << 31), uvar(1<<32 - 1), uvar(1<<63 - 1), uvar(1 << 63), uvar(1<<64 - 1),
		bytes.Repeat([]byte{0x80}, 10), bytes.Repeat([]byte{0x80}, 11), bytes.Repeat([]byte{0xff}, 12), {0xff, 0xff, 0xff, 0xff, 0xff, 0xff, 0xff, 0xff, 0xff, 0x02}}
	for i := 0; i < 5 && len(enc) > 0; i++ {
		p := c.Rng.Intn(len(enc))
		b := append(append(append([]byte(nil), enc[:p]...), corr.Pick(c.Rng, adv)...), enc[p+1:]...)
		out = append(out, b)
	}
	// trailing garbage
	out = append(out, append(append([]byte(nil), enc...), genBytes(c, 9)...))
	return out
}

func emitCmp(c *corr.Ctx, a, b []byte, ka, kb *flat) {
	var o obs
	func() {
		defer func() {
			if r := recover(); r != nil {
				o = obs{kind: "panic"}
			}
		}()
		r := utils.CompareKeys(a, b)
		code := uint64(1)
		if r < 0 {
			code = 0
		} else if r > 0 {
			code = 2
		}
		o = obs{kind: "val", v: flat{N: []uint64{code}}}
	}()
	term := fmt.Sprintf("Ck (H %s) (H %s) %s %s %s", corr.Hex(a), corr.Hex(b), o.term(), optFlat(ka), optFlat(kb))
	c.Count("cmp_" + o.kind)
	c.Emit(corr.Case{Coq: term, Nontrivial: ka != nil, Desc: codecDesc{Kind: "cmp", A: hex.EncodeToString(a), B: hex.EncodeToString(b), KA: ka, KB: kb}})
}

func runCodec(c *corr.Ctx) error {
	debug.SetMemoryLimit(2 << 30)
	c.Meta("run_module", "RunCodec")
	c.Meta("rule", "13 decoders (kv.DecodeEntryFrom, DecodeValueSlice, ValueStruct.DecodeValue, ValuePtr.Decode, percolator.DecodeLock/DecodeWrite, engine.decodeRaftEntries/decodeRaftHardState, command.Decode, manifest.decodeEdit/readEdit, wal.DecodeRecord, kv.SplitInternalKey) and their encoders run on (a) valid values with boundary numbers (0, 127/128, 2^31, 2^32-1, 2^63, 2^64-1), empty/nil byte strings, all 8 manifest edit types incl. nil sub-structs and unknown types; (b) malformed inputs: every truncation of short encodings, bit flips, adversarial varints (2^31, 2^32-1, 2^63-1, 2^63, 2^64-1, 10/11/12-byte overlong) spliced in, trailing garbage. Each decoder call runs under recover() with runtime.MemStats.TotalAlloc measured. Compared: outcome class, decoded value (flat form), encoder bytes; oracle: no panic, allocation within the budget, decode(encode v) = v, CompareKeys = logical order. utils.CompareKeys on pairs of encoded keys from a colliding alphabet (prefix-related user keys, 0x00/0xFF bytes, equal/adjacent versions) and on short keys")

	if c.Replay != "" {
		cs, err := c.ReplayCases()
		if err != nil {
			return err
		}
		for _, rc := range cs {
			var d codecDesc
			b, _ := json.Marshal(rc.Desc)
			if err := json.Unmarshal(b, &d); err != nil {
				return err
			}
			switch d.Kind {
			case "dec":
				in, _ := hex.DecodeString(d.Input)
				emitDec(c, d.K, in, d.Expect, "replay")
			case "enc":
				out, err := encode(d.K, *d.V)
				if err != nil {
					return err
				}
				c.Emit(corr.Case{Coq: fmt.Sprintf("Ce %d %s (H %s)", d.K, d.V.term(), corr.Hex(out)), Nontrivial: true, Desc: d})
			case "cmp":
				a, _ := hex.DecodeString(d.A)
				b, _ := hex.DecodeString(d.B)
				emitCmp(c, a, b, d.KA, d.KB)
			}
		}
		return nil
	}

	// crafted inputs that made the unrepaired decoders panic or allocate GiBs: always re-run live
	over, neg, big := strings.Repeat("80", 11), strings.Repeat("ff", 9)+"01", strings.Repeat("ff", 8)+"7f"
	for _, cr := range []struct {
		k int
		h string
	}{{10, "4e6f4b5602" + over}, {10, "4e6f4b5607010000000000008080808008"}, {11, "000000400102"},
		{5, "01" + neg}, {5, "01" + big}, {6, "01000501" + neg}, {7, "0101" + neg}, {8, "01" + neg},
		{1, "80808080040000000102"}, {12, "400000000102"}, {3, ""}, {3, "00" + over},
		{10, "4e6f4b5606"}, {10, "4e6f4b5607"}} {
		in, _ := hex.DecodeString(cr.h)
		emitDec(c, cr.k, in, nil, "crafted")
	}
	encoders := []int{1, 3, 4, 5, 6, 7, 8, 10, 12, 13}
	rounds := c.Scale(14, 400)
	for r := 0; r < rounds; r++ {
		for _, k := range encoders {
			v, expect := genValue(c, k)
			enc, err := encode(k, v)
			if err != nil {
				return fmt.Errorf("encoder %d: %w", k, err)
			}
			vv := v
			c.Count("enc_" + decNames[k])
			c.Emit(corr.Case{Coq: fmt.Sprintf("Ce %d %s (H %s)", k, v.term(), corr.Hex(enc)), Nontrivial: true, Desc: codecDesc{Kind: "enc", K: k, V: &vv}})
			dk := k
			input := enc
			switch k {
			case 1:
				expect = flat{N: []uint64{v.N[0], v.N[1], uint64(len(enc)), 0}, B: v.B}
				// the same bytes through DecodeValueSlice
				hdr := len(enc) - 4 - len(v.B[0]) - len(v.B[1])
				_ = hdr
				ex2 := flat{N: []uint64{uint64(len(v.B[0])), uint64(len(v.B[1])), v.N[0], v.N[1]}, B: [][]byte{v.B[1]}}
				emitDec(c, 2, enc, &ex2, "valid")
				for _, m := range mutate(c, enc) {
					emitDec(c, 2, m, nil, "malformed")
				}
			case 10:
				// decodeEdit takes the payload, readEdit the length-prefixed record
				emitDec(c, 11, enc, &expect, "valid")
				for _, m := range mutate(c, enc) {
					emitDec(c, 11, m, nil, "malformed")
				}
				input = enc[4:]
			case 12:
				expect = flat{N: []uint64{v.N[0], uint64(len(v.B[0]) + 1), 0}, B: v.B}
			case 7:
				if len(v.B) == 0 {
					expect.B = nil
				}
			}
			ex := expect
			emitDec(c, dk, input, &ex, "valid")
			for _, m := range mutate(c, input) {
				emitDec(c, dk, m, nil, "malformed")
			}
		}
		// command frame: opaque body
		emitDec(c, 9, append([]byte{0xCE}, []byte{}...), &flat{N: []uint64{1}, B: [][]byte{{}}}, "valid")
		emitDec(c, 9, genBytes(c, 10), nil, "malformed")
	}

	// ValueStruct.EncodedSize / EncodeValue / DecodeValue with ExpiresAt at every bit-length boundary
	exps := []uint64{0}
	for k := uint(1); k <= 9; k++ {
		exps = append(exps, 1<<(7*k)-1, 1<<(7*k), 1<<(7*k)+1)
	}
	exps = append(exps, 1<<64-1)
	for _, x := range exps {
		for _, val := range [][]byte{{}, {'v'}, {0, 0, 0}} {
			v := flat{N: []uint64{uint64(c.Rng.Intn(256)), x}, B: [][]byte{val}}
			for _, k := range []int{14, 15} {
				enc, err := encode(k, v)
				if err != nil {
					return err
				}
				vv := v
				c.Count("enc_value_struct_sized")
				c.Emit(corr.Case{Coq: fmt.Sprintf("Ce %d %s (H %s)", k, v.term(), corr.Hex(enc)), Nontrivial: true, Desc: codecDesc{Kind: "enc", K: k, V: &vv}})
				if k == 14 { // what a reader of the reserved buffer gets back
					ex := v
					emitDec(c, 3, enc, &ex, "valid")
				}
			}
		}
	}

	// key order
	uks := [][]byte{{}, {0}, {0, 0}, {'a'}, {'a', 0}, {'a', 0xff}, {'a', 'a'}, {'b'}, {0xff}, {0xff, 0xff}, {'a', 0, 0, 0, 0, 0, 0, 0, 0}, {0xff, 0xff, 0xff, 0xff, 0xff, 0xff, 0xff, 0xff}}
	vers := []uint64{0, 1, 2, 255, 256, 1<<63 - 1, 1 << 63, 1<<64 - 2, 1<<64 - 1}
	nk := c.Scale(500, 20000)
	for i := 0; i < nk; i++ {
		ka := flat{N: []uint64{uint64(c.Rng.Intn(3)), corr.Pick(c.Rng, vers)}, B: [][]byte{corr.Pick(c.Rng, uks)}}
		kb := flat{N: []uint64{uint64(c.Rng.Intn(3)), corr.Pick(c.Rng, vers)}, B: [][]byte{corr.Pick(c.Rng, uks)}}
		if c.Rng.Intn(3) == 0 {
			kb.N[0], kb.B = ka.N[0], ka.B
		}
		a := kv.InternalKey(kv.ColumnFamily(ka.N[0]), ka.B[0], ka.N[1])
		b := kv.InternalKey(kv.ColumnFamily(kb.N[0]), kb.B[0], kb.N[1])
		emitCmp(c, a, b, &ka, &kb)
	}
	for i := 0; i < 40; i++ { // arbitrary byte strings, incl. keys of 8 bytes or fewer (CondPanic)
		emitCmp(c, genBytes(c, 12), genBytes(c, 12), nil, nil)
	}
	c.Meta("exhaustive", false)
	return nil
}

package main

import (
	"encoding/json"
	"errors"
	"fmt"
	"math/rand"
	"os"
	"time"

	"github.com/feichai0017/NoKV/kv"
	"github.com/feichai0017/NoKV/utils"
	"github.com/feichai0017/NoKV/utils/verifhook"
	"verifharness/internal/corr"
	"verifharness/internal/sched"
)

// Family "txnsched" (C05): transactions in goroutines under the controlled
// scheduler. One grant = one region between the yield points of the oracle
// (oracle.readTs.lock, oracle.readTs.wait, h.get, oracle.newCommitTs.lock,
// oracle.doneCommit); all other yield points are passed through.

var schedKeys = [][]byte{[]byte("a"), []byte("b")}

type schedProg struct {
	Reads []int  `json:"reads"`         // key indices, in order
	Tag   string `json:"tag,omitempty"` // "" = no writes; else writes tag to both keys
}

type schedDesc struct {
	Detect bool        `json:"detect"`
	Progs  []schedProg `json:"progs"`
	Words  []int       `json:"words"` // the grants asked for (a drain follows)
	Picks  []int       `json:"picks,omitempty"`
}

var schedPoints = map[string]bool{
	"oracle.readTs.lock": true, "oracle.readTs.wait": true, "h.get": true,
	"oracle.newCommitTs.lock": true, "oracle.doneCommit": true,
}

type schedRes struct {
	rts    uint64
	reads  []string
	commit string
	done   bool
}

func execSched(c *corr.Ctx, d schedDesc) (corr.Case, error) {
	dir := scratchDir(c)
	defer os.RemoveAll(dir)
	db := openTxnDB(dir, txnCfg{Detect: d.Detect, MaxCount: 64, MaxSize: 1 << 20, VThr: 1024})
	defer db.Close()
	s := sched.New()
	n := len(d.Progs)
	res := make([]schedRes, n)
	waitR := make([]uint64, n)
	s.SetEnabled(func(id int, point string) bool {
		if point == "oracle.readTs.wait" {
			_, done, _, _ := db.VerifOracleState()
			return done >= waitR[id]
		}
		return true
	})
	for id := 0; id < n; id++ {
		id := id
		p := d.Progs[id]
		s.Spawn(id, func() {
			txn := db.NewTransaction(true)
			res[id].rts = txn.ReadTs()
			for _, ki := range p.Reads {
				verifhook.Yield("h.get")
				it, err := txn.Get(schedKeys[ki])
				switch {
				case err == nil:
					res[id].reads = append(res[id].reads, fmt.Sprintf("KV %s (V %s)", hexs(schedKeys[ki]), hexs(it.Entry().Value)))
				case errors.Is(err, utils.ErrKeyNotFound):
					res[id].reads = append(res[id].reads, fmt.Sprintf("KV %s None", hexs(schedKeys[ki])))
				default:
					res[id].reads = append(res[id].reads, fmt.Sprintf("KV %s (V \"ee\")", hexs(schedKeys[ki])))
				}
			}
			if p.Tag != "" {
				for _, k := range schedKeys {
					if err := txn.Set(k, []byte(p.Tag)); err != nil {
						res[id].commit = "OOther"
					}
				}
			}
			err := txn.Commit()
			switch {
			case res[id].commit != "":
			case err == nil && p.Tag == "":
				res[id].commit = "ONone"
			case err == nil:
				res[id].commit = "OOkc"
			case errors.Is(err, utils.ErrConflict):
				res[id].commit = "OConflict"
			default:
				res[id].commit = "OOther"
			}
			res[id].done = true
		})
	}
	var picks []int
	var herr error
	// settle waits for a granted thread that blocked (req.Wait: the commit worker is free-running)
	settle := func(id int, st sched.Step) sched.Step {
		deadline := time.Now().Add(10 * time.Second)
		for st.Status == sched.Blocked {
			if time.Now().After(deadline) {
				herr = fmt.Errorf("thread %d stays blocked", id)
				return st
			}
			time.Sleep(50 * time.Microsecond)
			if s.Finished(id) {
				st.Status = sched.Finished
				st.Point = ""
			} else if p := s.Point(id); p != "" {
				st.Status = sched.Parked
				st.Point = p
			}
		}
		return st
	}
	grant := func(id int) {
		if herr != nil || id >= n {
			return
		}
		from := s.Point(id)
		st := settle(id, s.Grant(id))
		// pass through yield points that are not steps of the model
		for herr == nil && st.Ran && st.Status == sched.Parked && !schedPoints[st.Point] {
			st = settle(id, s.Grant(id))
		}
		picks = append(picks, id)
		if !st.Ran {
			return
		}
		if st.Status == sched.Parked && st.Point == "oracle.readTs.wait" {
			next, _, last, _ := db.VerifOracleState()
			r := next - 1
			if last < r {
				r = last
			}
			waitR[id] = r
		}
		if from == "oracle.newCommitTs.lock" && st.Status == sched.Parked && st.Point == "oracle.doneCommit" {
			// conflict check + timestamp, then the worker applied every entry: 1 + #entries model steps
			for range schedKeys {
				picks = append(picks, id)
			}
		}
	}
	for _, id := range d.Words {
		grant(id)
	}
	for round := 0; round < 64 && !s.AllFinished() && herr == nil; round++ {
		for _, id := range s.Live() {
			grant(id)
		}
	}
	if !s.AllFinished() && herr == nil {
		herr = fmt.Errorf("threads did not finish: live=%v", s.Live())
	}
	s.Close(5 * time.Second)
	if herr != nil {
		return corr.Case{}, herr
	}
	var progs, obs, fps, dumps []string
	conflicts, oks := 0, 0
	for id, p := range d.Progs {
		var rs []string
		for _, ki := range p.Reads {
			rs = append(rs, "K "+hexs(schedKeys[ki]))
		}
		ws := "[]"
		if p.Tag != "" {
			var w []string
			for _, k := range schedKeys {
				w = append(w, fmt.Sprintf("KV %s (V %s)", hexs(k), hexs([]byte(p.Tag))))
			}
			ws = corr.List(w)
		}
		progs = append(progs, fmt.Sprintf("Pg %s %s", corr.List(rs), ws))
		obs = append(obs, fmt.Sprintf("Ob %d %s %s", res[id].rts, corr.List(res[id].reads), res[id].commit))
		if res[id].commit == "OConflict" {
			conflicts++
		}
		if res[id].commit == "OOkc" {
			oks++
		}
	}
	for _, k := range schedKeys {
		fps = append(fps, fmt.Sprintf("FP %s %d", hexs(k), kv.MemHash(kv.EncodeKeyWithCF(kv.CFDefault, k))))
		dumps = append(dumps, fmt.Sprintf("Dm %s %s", hexs(k), dumpKey(db, k)))
	}
	pk := make([]uint64, len(picks))
	for i, p := range picks {
		pk[i] = uint64(p)
	}
	d.Picks = picks
	c.CountN("grants", len(picks))
	c.CountN("commit_ok", oks)
	c.CountN("commit_conflict", conflicts)
	coq := fmt.Sprintf("Cs %s %s %s %s %s %s", corr.Bool(d.Detect), corr.List(fps), corr.List(progs), corr.ListN(pk),
		corr.List(obs), corr.List(dumps))
	return corr.Case{Coq: coq, Nontrivial: oks > 0, Desc: d}, nil
}

// interleavings enumerates all words with counts[i] occurrences of i.
func interleavings(counts []int, f func([]int)) {
	total := 0
	for _, c := range counts {
		total += c
	}
	w := make([]int, 0, total)
	var rec func()
	rec = func() {
		if len(w) == total {
			f(append([]int(nil), w...))
			return
		}
		for i := range counts {
			if counts[i] > 0 {
				counts[i]--
				w = append(w, i)
				rec()
				w = w[:len(w)-1]
				counts[i]++
			}
		}
	}
	rec()
}

func runTxnSched(c *corr.Ctx) error {
	c.Meta("run_module", "RunTxnSched")
	c.Meta("rule", "exhaustive: every interleaving of one committer (get a; set a,b; commit = 5 grants) with one reader (get a; get b "+
		"= 4 grants) on a fresh DB, DetectConflicts on (126 schedules; thorough adds committer x committer, 252); random: 2 committers "+
		"+ 1-2 readers with random block schedules followed by a round-robin drain. Compared: read timestamps, every value read, "+
		"commit results, final version lists of both keys. non-trivial = at least one commit succeeded; distinct by Gallina term")
	emit := func(d schedDesc) error {
		cs, err := execSched(c, d)
		if err != nil {
			return err
		}
		c.Emit(cs)
		return nil
	}
	if c.Replay != "" {
		cases, err := c.ReplayCases()
		if err != nil {
			return err
		}
		for _, cs := range cases {
			b, _ := json.Marshal(cs.Desc)
			var d schedDesc
			if err := json.Unmarshal(b, &d); err != nil {
				return err
			}
			d.Words = d.Picks
			if err := emit(d); err != nil {
				return err
			}
		}
		return nil
	}
	committer := func(tag string, reads ...int) schedProg { return schedProg{Reads: reads, Tag: tag} }
	var ferr error
	exhaust := func(progs []schedProg, counts []int) {
		interleavings(counts, func(w []int) {
			if ferr == nil {
				ferr = emit(schedDesc{Detect: true, Progs: progs, Words: w})
			}
		})
	}
	exhaust([]schedProg{committer("c0", 0), {Reads: []int{0, 1}}}, []int{5, 4})
	c.Meta("exhaustive", true)
	c.Meta("exhaustive_scope", "all 126 interleavings of committer(get a; set a,b; commit) x reader(get a; get b) at the 5 oracle yield points")
	if c.Tier == "thorough" {
		exhaust([]schedProg{committer("c0", 0), committer("c1", 1)}, []int{5, 5})
	}
	if ferr != nil {
		return ferr
	}
	n := c.Scale(120, 3000)
	for i := 0; i < n; i++ {
		r := c.Rng
		d := schedDesc{Detect: r.Intn(4) != 0}
		randReads := func(r *rand.Rand) []int {
			var out []int
			for j, m := 0, r.Intn(4); j < m; j++ {
				out = append(out, r.Intn(2))
			}
			return out
		}
		d.Progs = append(d.Progs, committer("c0", randReads(r)...), committer("c1", randReads(r)...))
		for j, m := 0, 1+r.Intn(2); j < m; j++ {
			rd := randReads(r)
			if len(rd) == 0 {
				rd = []int{0, 1}
			}
			d.Progs = append(d.Progs, schedProg{Reads: rd})
		}
		d.Words = sched.RandomBlocks(r, len(d.Progs), 8+r.Intn(16), 3)
		if err := emit(d); err != nil {
			return err
		}
	}
	return nil
}

package main

import (
	"encoding/json"
	"errors"
	"fmt"
	"os"
	"runtime"
	"strings"
	"time"

	"github.com/feichai0017/NoKV/kv"
	"github.com/feichai0017/NoKV/utils"
	"github.com/feichai0017/NoKV/utils/verifhook"
	"verifharness/internal/corr"
	"verifharness/internal/sched"
)

// Family "txnsched" (C05): transactions in goroutines under the controlled
// scheduler. One grant = one region between the yield points of the oracle
// (oracle.readTs.lock, oracle.readTs.wait, h.get, oracle.newCommitTs.lock,
// oracle.doneCommit); all other yield points are passed through.

var schedKeys = [][]byte{[]byte("a"), []byte("b")}

type schedProg struct {
	Reads []int  `json:"reads"`          // key indices, in order
	Tag   string `json:"tag,omitempty"`  // "" = no writes (read-only transaction); else the value written
	Keys  []int  `json:"keys,omitempty"` // keys written (default: both)
}

func (p schedProg) writeKeys() []int {
	if p.Tag == "" {
		return nil
	}
	if len(p.Keys) == 0 {
		return []int{0, 1}
	}
	return p.Keys
}

// schedDesc. Words: thread id = grant; id+100 = grant even if the thread is parked at
// oracle.readTs.wait with the mark not done (the real WaitForMark then blocks; the model keeps the
// thread disabled); 50 = let the paused commit worker apply the request it holds (Pause mode).
type schedDesc struct {
	Detect bool        `json:"detect"`
	Pause  bool        `json:"pause,omitempty"` // the commit worker stops before applying each request (Crash point commit.head)
	Probe  bool        `json:"probe,omitempty"` // look (call stack) for a txnMark.Begin running outside newCommitTs and stop there
	Base   uint64      `json:"base,omitempty"`  // start from a store whose maximal version is Base (written, closed, reopened)
	Stop   []int       `json:"stop,omitempty"`  // committers that also stop at the yield point sendToWriteCh (timestamp issued and registered, nothing enqueued)
	Progs  []schedProg `json:"progs"`
	Words  []int       `json:"words"`
	Picks  []int       `json:"picks,omitempty"`
	Asked  []int       `json:"asked,omitempty"`
}

const releasePick = 50

// markBeginOutsideLock reports whether some thread is parked at a yield point of
// utils.WaterMark.Begin that was called from Txn.commitAndSend directly, i.e. outside
// oracle.newCommitTs' critical section: its commit timestamp is issued, but the commit is not yet
// registered with the commit watermark. (In the code as it is, txnMark.Begin runs inside
// newCommitTs; the yield points inside the watermark are then passed through.)
func markBeginOutsideLock() bool {
	buf := make([]byte, 1<<18)
	for {
		n := runtime.Stack(buf, true)
		if n < len(buf) {
			buf = buf[:n]
			break
		}
		buf = make([]byte, 2*len(buf))
	}
	for _, g := range strings.Split(string(buf), "\n\n") {
		if strings.Contains(g, "sched.(*S).yield") && strings.Contains(g, "(*WaterMark).Begin") &&
			strings.Contains(g, "commitAndSend") && !strings.Contains(g, "newCommitTs") {
			return true
		}
	}
	return false
}

var schedPoints = map[string]bool{
	"oracle.readTs.lock": true, "oracle.readTs.wait": true, "h.get": true,
	"oracle.newCommitTs.lock": true, "oracle.doneCommit": true,
}

type schedRes struct {
	rts    uint64
	reads  []string
	commit string
}

func execSched(c *corr.Ctx, d schedDesc) (corr.Case, error) {
	dir := scratchDir(c)
	defer os.RemoveAll(dir)
	db := openTxnDB(dir, txnCfg{Detect: d.Detect, MaxCount: 64, MaxSize: 1 << 20, VThr: 1024})
	if d.Base > 0 {
		// initCommitState(MaxVersion) on reopen puts the timestamp counter and both watermarks at Base
		if err := db.SetVersionedEntry(kv.CFDefault, []byte("seed"), d.Base, []byte("s"), 0); err != nil {
			db.Close()
			return corr.Case{}, err
		}
		db.Close()
		db = openTxnDB(dir, txnCfg{Detect: d.Detect, MaxCount: 64, MaxSize: 1 << 20, VThr: 1024})
	}
	defer db.Close()
	n := len(d.Progs)
	stopSend := make([]bool, n)
	for _, id := range d.Stop {
		if id < n {
			stopSend[id] = true
		}
	}
	res := make([]schedRes, n)
	waitR := make([]uint64, n)
	var herr error

	// the commit worker, paused before it applies a request
	events := make(chan string, 64)
	release := make(chan struct{})
	if d.Pause {
		verifhook.SetCrash(func(name string) {
			switch name {
			case "commit.head":
				events <- "head"
				<-release
			case "commit.ack":
				events <- "ack"
			}
		})
		defer verifhook.SetCrash(nil)
	}
	holding := -1     // committer whose request the worker holds
	var queue []int   // enqueued, not yet reached by the worker
	var inBatch []int // applied, batch not acknowledged yet
	nextEvent := func() string {
		select {
		case e := <-events:
			return e
		case <-time.After(10 * time.Second):
			herr = fmt.Errorf("commit worker: no event")
			return ""
		}
	}

	s := sched.New()
	forced := -1
	s.SetEnabled(func(id int, point string) bool {
		if point == "oracle.readTs.wait" {
			if id == forced {
				return true
			}
			_, done, _, _ := db.VerifOracleState()
			return done >= waitR[id]
		}
		return true
	})
	for id := 0; id < n; id++ {
		id := id
		p := d.Progs[id]
		s.Spawn(id, func() {
			txn := db.NewTransaction(p.Tag != "")
			res[id].rts = txn.ReadTs()
			for _, ki := range p.Reads {
				verifhook.Yield("h.get")
				it, err := txn.Get(schedKeys[ki])
				switch {
				case err == nil:
					res[id].reads = append(res[id].reads, fmt.Sprintf("KV %s (V %s)", hexs(schedKeys[ki]), hexs(it.Entry().Value)))
				case errors.Is(err, utils.ErrKeyNotFound):
					res[id].reads = append(res[id].reads, fmt.Sprintf("KV %s None", hexs(schedKeys[ki])))
				default:
					res[id].reads = append(res[id].reads, fmt.Sprintf("KV %s (V \"ee\")", hexs(schedKeys[ki])))
				}
			}
			for _, ki := range p.writeKeys() {
				if err := txn.Set(schedKeys[ki], []byte(p.Tag)); err != nil {
					res[id].commit = "OOther"
				}
			}
			err := txn.Commit()
			switch {
			case res[id].commit != "":
			case err == nil && p.Tag == "":
				res[id].commit = "ONone"
			case err == nil:
				res[id].commit = "OOkc"
			case errors.Is(err, utils.ErrConflict):
				res[id].commit = "OConflict"
			default:
				res[id].commit = "OOther"
			}
		})
	}
	var picks []int
	waiting := make([]bool, n) // blocked for real inside WaitForMark after a forced grant
	inWait := make([]bool, n)  // inside req.Wait: its request is queued, held or applied but not acknowledged
	atMark := make([]bool, n)  // stopped between "timestamp issued" and "registered with the watermark"
	markStops := 0
	forcedBlocked := 0
	waitParked := func(id int, point string) {
		deadline := time.Now().Add(10 * time.Second)
		for s.Point(id) != point && !s.Finished(id) {
			if time.Now().After(deadline) {
				herr = fmt.Errorf("thread %d does not reach %s", id, point)
				return
			}
			time.Sleep(20 * time.Microsecond)
		}
	}
	// settle: a granted thread that blocked while the worker is free-running will move on by itself
	settle := func(id int, st sched.Step) sched.Step {
		deadline := time.Now().Add(10 * time.Second)
		for st.Status == sched.Blocked {
			if time.Now().After(deadline) {
				herr = fmt.Errorf("thread %d stays blocked", id)
				return st
			}
			time.Sleep(50 * time.Microsecond)
			if s.Finished(id) {
				st.Status, st.Point = sched.Finished, ""
			} else if p := s.Point(id); p != "" {
				st.Status, st.Point = sched.Parked, p
			}
		}
		return st
	}
	doRelease := func() {
		if holding < 0 || herr != nil {
			return
		}
		t := holding
		holding = -1
		inBatch = append(inBatch, t)
		for range d.Progs[t].writeKeys() { // the model applies one entry per step
			picks = append(picks, t)
		}
		release <- struct{}{}
		for herr == nil {
			if len(queue) == 0 && len(inBatch) == 0 {
				return
			}
			switch nextEvent() {
			case "head":
				holding, queue = queue[0], queue[1:]
				return
			case "ack":
				for _, u := range inBatch {
					waitParked(u, "oracle.doneCommit")
					inWait[u] = false
				}
				inBatch = nil
			}
		}
	}
	grant := func(pick int) {
		if herr != nil {
			return
		}
		if pick%100 == releasePick {
			doRelease()
			return
		}
		id := pick % 100
		if id >= n {
			return
		}
		from := s.Point(id)
		forced = -1
		if pick >= 100 && from == "oracle.readTs.wait" {
			forced = id
		}
		var woken []int
		st := s.Grant(id)
		forced = -1
		woken = append(woken, st.Woken...)
		if !st.Ran {
			if !inWait[id] { // a pick of a committer inside req.Wait is no step; in the model it would apply an entry
				picks = append(picks, id)
			}
			return
		}
		enqueued := false
		for herr == nil {
			if st.Status == sched.Blocked {
				if from == "oracle.readTs.wait" {
					// only a forced grant blocks here: inside WaitForMark for real; a later doneCommit wakes it
					waiting[id] = true
					forcedBlocked++
					break
				}
				if d.Pause {
					enqueued = true // inside req.Wait: the worker holds or will hold the request
					break
				}
				st = settle(id, st)
				continue
			}
			if st.Status == sched.Parked && !schedPoints[st.Point] {
				if d.Probe && from == "oracle.newCommitTs.lock" && st.Point == "utils.WaterMark.setLastIndex.load" && !atMark[id] && markBeginOutsideLock() {
					atMark[id] = true
					markStops++
					picks = append(picks, id) // the timestamp is issued: the model's commit step
					return
				}
				if st.Point == "sendToWriteCh" && stopSend[id] && !atMark[id] {
					// the commit has its timestamp and is registered with the watermark, nothing is enqueued yet
					stopSend[id] = false
					atMark[id] = true
					picks = append(picks, id) // the model's commit step
					return
				}
				st = s.Grant(id) // a yield point that is not a step of the model
				woken = append(woken, st.Woken...)
				continue
			}
			break
		}
		resumedFromMark := atMark[id] && (strings.HasPrefix(from, "utils.WaterMark.") || from == "sendToWriteCh")
		if resumedFromMark {
			atMark[id] = false
		} else {
			picks = append(picks, id)
		}
		if waiting[id] {
			return
		}
		if st.Status == sched.Parked && st.Point == "oracle.readTs.wait" {
			next, _, last, _ := db.VerifOracleState()
			r := next - 1
			if last < r {
				r = last
			}
			waitR[id] = r
		}
		if enqueued {
			queue = append(queue, id)
			inWait[id] = true
			if holding < 0 && len(inBatch) == 0 {
				if nextEvent() == "head" {
					holding, queue = queue[0], queue[1:]
				} else if herr == nil {
					herr = fmt.Errorf("commit worker: unexpected event")
				}
			}
		} else if (from == "oracle.newCommitTs.lock" || resumedFromMark) && st.Status == sched.Parked && st.Point == "oracle.doneCommit" {
			// conflict check + timestamp, then the free-running worker applied every entry
			for range d.Progs[id].writeKeys() {
				picks = append(picks, id)
			}
		}
		for _, w := range woken {
			if w < n && waiting[w] {
				waiting[w] = false
				picks = append(picks, w) // it passed the wait inside this grant
			}
		}
	}
	d.Asked = append([]int(nil), d.Words...)
	for _, p := range d.Words {
		grant(p)
	}
	for round := 0; round < 64 && !s.AllFinished() && herr == nil; round++ {
		for _, id := range s.Live() {
			grant(id)
		}
		grant(releasePick)
	}
	if !s.AllFinished() && herr == nil {
		herr = fmt.Errorf("threads did not finish: live=%v", s.Live())
	}
	if herr != nil {
		// let everything run freely before giving up
		verifhook.SetCrash(nil)
		select {
		case release <- struct{}{}:
		default:
		}
	}
	s.Close(5 * time.Second)
	if herr != nil {
		return corr.Case{}, herr
	}
	var progs, obs, fps, dumps []string
	conflicts, oks := 0, 0
	for id, p := range d.Progs {
		var rs, w []string
		for _, ki := range p.Reads {
			rs = append(rs, "K "+hexs(schedKeys[ki]))
		}
		for _, ki := range p.writeKeys() {
			w = append(w, fmt.Sprintf("KV %s (V %s)", hexs(schedKeys[ki]), hexs([]byte(p.Tag))))
		}
		progs = append(progs, fmt.Sprintf("Pg %s %s", corr.List(rs), corr.List(w)))
		obs = append(obs, fmt.Sprintf("Ob %d %s %s", res[id].rts, corr.List(res[id].reads), res[id].commit))
		if res[id].commit == "OConflict" {
			conflicts++
		}
		if res[id].commit == "OOkc" {
			oks++
		}
	}
	for _, k := range schedKeys {
		fps = append(fps, fmt.Sprintf("FP %s %d", hexs(k), kv.MemHash(kv.EncodeKeyWithCF(kv.CFDefault, k))))
		dumps = append(dumps, fmt.Sprintf("Dm %s %s", hexs(k), dumpKey(db, k)))
	}
	pk := make([]uint64, len(picks))
	for i, p := range picks {
		pk[i] = uint64(p)
	}
	d.Picks = picks
	c.CountN("grants", len(picks))
	c.CountN("commit_ok", oks)
	c.CountN("commit_conflict", conflicts)
	c.CountN("forced_wait_blocked", forcedBlocked)
	c.CountN("stopped_between_timestamp_and_mark", markStops)
	coq := fmt.Sprintf("Cs %d %s %s %s %s %s %s", d.Base, corr.Bool(d.Detect), corr.List(fps), corr.List(progs), corr.ListN(pk),
		corr.List(obs), corr.List(dumps))
	return corr.Case{Coq: coq, Nontrivial: oks > 0, Desc: d}, nil
}

// interleave2 enumerates all interleavings of the two words a and b.
func interleave2(a, b []int, f func([]int)) {
	w := make([]int, 0, len(a)+len(b))
	var rec func(i, j int)
	rec = func(i, j int) {
		if i == len(a) && j == len(b) {
			f(append([]int(nil), w...))
			return
		}
		if i < len(a) {
			w = append(w, a[i])
			rec(i+1, j)
			w = w[:len(w)-1]
		}
		if j < len(b) {
			w = append(w, b[j])
			rec(i, j+1)
			w = w[:len(w)-1]
		}
	}
	rec(0, 0)
}

// interleavings enumerates all words with counts[i] occurrences of i.
func interleavings(counts []int, f func([]int)) {
	total := 0
	for _, c := range counts {
		total += c
	}
	w := make([]int, 0, total)
	var rec func()
	rec = func() {
		if len(w) == total {
			f(append([]int(nil), w...))
			return
		}
		for i := range counts {
			if counts[i] > 0 {
				counts[i]--
				w = append(w, i)
				rec()
				w = w[:len(w)-1]
				counts[i]++
			}
		}
	}
	rec()
}

func runTxnSched(c *corr.Ctx) error {
	c.Meta("run_module", "RunTxnSched")
	c.Meta("rule", "exhaustive A: every interleaving of one committer (get a; set a,b; commit = 5 grants) with one reader (get a; get b = 4 "+
		"grants), worker free-running (126). exhaustive B: commit worker paused before it applies the request (Crash point commit.head): "+
		"committer [lock, wait, commit, RELEASE, done] x read-only reader [lock, FORCED wait, get a, get b] (126): the forced grant makes the real "+
		"WaitForMark block while the model keeps the reader disabled. targeted C: read-modify-write transaction beginning (forced wait) while a "+
		"commit is in flight, a second committer overwriting its key and a third one pruning the conflict history, in several orders. "+
		"targeted D: a committer stopped between its timestamp and its registration with the commit watermark (only possible when "+
		"txnMark.Begin runs outside newCommitTs: detected by the call stack at the watermark's yield point), a second committer "+
		"committing meanwhile, a reader reading the first one's key twice. targeted E: the DB reopened at timestamp 65530, the first "+
		"committer stopped before it enqueues (yield point sendToWriteCh), six complete commits that slide the watermark's 65536-slot window, "+
		"then the reader. random: "+
		"3-5 threads (committers of a, b or both, RMW transactions, read-only readers), random block schedules with forced grants and, in half "+
		"of them, the paused worker; round-robin drain. Compared: read timestamps, every value read, commit results, final version lists. "+
		"non-trivial = at least one commit succeeded; distinct by Gallina term")
	emit := func(d schedDesc) error {
		cs, err := execSched(c, d)
		if err != nil {
			return err
		}
		c.Emit(cs)
		return nil
	}
	if c.Replay != "" {
		cases, err := c.ReplayCases()
		if err != nil {
			return err
		}
		for _, cs := range cases {
			b, _ := json.Marshal(cs.Desc)
			var d schedDesc
			if err := json.Unmarshal(b, &d); err != nil {
				return err
			}
			d.Words = d.Asked
			if err := emit(d); err != nil {
				return err
			}
		}
		return nil
	}
	committer := func(tag string, reads ...int) schedProg { return schedProg{Reads: reads, Tag: tag} }
	var ferr error
	// A: free-running worker
	interleavings([]int{5, 4}, func(w []int) {
		if ferr == nil {
			ferr = emit(schedDesc{Detect: true, Progs: []schedProg{committer("c0", 0), {Reads: []int{0, 1}}}, Words: w})
		}
	})
	// B: paused worker, forced grant of the reader at the wait
	interleave2([]int{0, 0, 0, releasePick, 0}, []int{1, 101, 1, 1}, func(w []int) {
		if ferr == nil {
			c.Count("paused_worker_schedules")
			ferr = emit(schedDesc{Detect: true, Pause: true, Progs: []schedProg{committer("c0"), {Reads: []int{0, 1}}}, Words: w})
		}
	})
	c.Meta("exhaustive", true)
	c.Meta("exhaustive_scope", "A: all 126 interleavings committer x reader at the 5 oracle yield points; B: all 126 interleavings of "+
		"committer [lock, wait, commit, release, done] x read-only reader [lock, forced wait, get a, get b] with the worker paused before the apply")
	if c.Tier == "thorough" {
		interleavings([]int{5, 5}, func(w []int) {
			if ferr == nil {
				ferr = emit(schedDesc{Detect: true, Progs: []schedProg{committer("c0", 0), committer("c1", 1)}, Words: w})
			}
		})
	}
	// C: begin during an in-flight commit, overwrite, prune, then read-modify-write
	rmw := []schedProg{
		{Tag: "c0", Keys: []int{1}},                  // 0: C1 writes b (in flight)
		{Reads: []int{0}, Tag: "r1", Keys: []int{0}}, // 1: R reads a, writes a
		{Tag: "c2", Keys: []int{0}},                  // 2: C2 writes a
		{Tag: "c3", Keys: []int{1}},                  // 3: C3 writes b (its cleanup prunes)
	}
	targeted := [][]int{
		{2, 2, 3, 3, 0, 0, 0, 1, 101, 2, 2, 3, 3, 0, 1, 1, 1},
		{3, 3, 2, 2, 0, 0, 0, 1, 101, 2, 2, 3, 3, 0, 1, 1, 1},
		{2, 2, 3, 3, 0, 0, 0, 1, 1, 2, 2, 3, 3, 0, 1, 1, 1, 1},
		{2, 2, 3, 3, 0, 0, 0, 1, 101, 2, 3, 2, 3, 0, 1, 1, 1},
		{2, 2, 3, 3, 0, 0, 0, 1, 101, 2, 2, 0, 3, 3, 1, 1, 1},
	}
	for _, w := range targeted {
		for _, pause := range []bool{false, true} {
			if ferr != nil {
				break
			}
			words := w
			if pause { // the worker holds every request until released: release right after each commit grant
				words = nil
				for _, x := range w {
					words = append(words, x)
				}
				words = append(words, releasePick, releasePick, releasePick, releasePick)
			}
			c.Count("targeted_rmw_schedules")
			ferr = emit(schedDesc{Detect: true, Pause: pause, Progs: rmw, Words: words})
		}
	}
	// D: a second committer runs its whole commit while the first one has its timestamp but has not
	// handed its entries to the write path; then a reader begins and reads the first one's key twice
	late := []schedProg{
		{Tag: "c0", Keys: []int{0}}, // 0: C1 writes a
		{Reads: []int{0, 0}},        // 1: reader
		{Tag: "c2", Keys: []int{1}}, // 2: C2 writes b
	}
	for _, w := range [][]int{
		{2, 2, 0, 0, 0, 2, 2, 2, 1, 1, 1, 0, 0, 1},
		{0, 0, 2, 2, 0, 2, 2, 2, 1, 1, 1, 0, 0, 1},
		{2, 2, 0, 0, 0, 2, 2, 2, 1, 101, 1, 0, 0, 1},
		{2, 2, 0, 0, 0, 2, 2, 2, 1, 1, 0, 1, 0, 1},
	} {
		if ferr != nil {
			break
		}
		c.Count("targeted_late_mark_schedules")
		ferr = emit(schedDesc{Detect: true, Probe: true, Progs: late, Words: w})
	}
	if ferr != nil {
		return ferr
	}
	// E: the watermark window (65536 slots from 1) slides while the oldest commit is still pending: the DB
	// starts at timestamp 65530; committer 0 gets 65531 and stops before it hands its entries over; six more
	// commits (up to 65537, the first index outside the window) run completely; a reader begins and reads
	// committer 0's key before and after committer 0 finishes.
	slide := []schedProg{{Tag: "c0", Keys: []int{0}}, {Reads: []int{0, 0}}}
	for t := 2; t < 8; t++ {
		slide = append(slide, schedProg{Tag: fmt.Sprintf("c%d", t), Keys: []int{1}})
	}
	for _, variant := range []int{0, 1} {
		var w []int
		for t := 2; t < 8; t++ { // the later committers begin before committer 0 has its timestamp
			w = append(w, t, t)
		}
		w = append(w, 0, 0, 0)
		for t := 2; t < 8; t++ {
			w = append(w, t, t)
		}
		if variant == 0 {
			w = append(w, 1, 1, 1, 0, 0, 1)
		} else {
			w = append(w, 1, 101, 1, 0, 0, 1)
		}
		c.Count("targeted_window_slide_schedules")
		if err := emit(schedDesc{Detect: true, Base: 65530, Stop: []int{0}, Progs: slide, Words: w}); err != nil {
			return err
		}
	}
	n := c.Scale(60, 3000)
	for i := 0; i < n; i++ {
		r := c.Rng
		d := schedDesc{Detect: r.Intn(5) != 0, Pause: r.Intn(2) == 0, Probe: r.Intn(4) == 0}
		randReads := func(max int) []int {
			var out []int
			for j, m := 0, r.Intn(max+1); j < m; j++ {
				out = append(out, r.Intn(2))
			}
			return out
		}
		nthreads := 3 + r.Intn(3)
		for t := 0; t < nthreads; t++ {
			switch x := r.Intn(6); {
			case x == 0: // read-only
				rd := randReads(3)
				if len(rd) == 0 {
					rd = []int{0, 1}
				}
				d.Progs = append(d.Progs, schedProg{Reads: rd})
			case x == 1: // read-modify-write of one key
				k := r.Intn(2)
				d.Progs = append(d.Progs, schedProg{Reads: []int{k}, Tag: fmt.Sprintf("t%d", t), Keys: []int{k}})
			case x < 4: // blind write of one key
				d.Progs = append(d.Progs, schedProg{Tag: fmt.Sprintf("t%d", t), Keys: []int{r.Intn(2)}})
			default:
				d.Progs = append(d.Progs, schedProg{Reads: randReads(2), Tag: fmt.Sprintf("t%d", t)})
			}
		}
		for _, x := range sched.RandomBlocks(r, nthreads, 10+r.Intn(20), 3) {
			switch {
			case r.Intn(4) == 0:
				d.Words = append(d.Words, x+100)
			default:
				d.Words = append(d.Words, x)
			}
			if d.Pause && r.Intn(4) == 0 {
				d.Words = append(d.Words, releasePick)
			}
		}
		if err := emit(d); err != nil {
			return err
		}
	}
	return nil
}

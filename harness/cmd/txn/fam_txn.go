package main

import (
	"bytes"
	"encoding/json"
	"errors"
	"fmt"
	"math/rand"
	"os"
	"path/filepath"
	"sort"
	"strings"
	"time"

	NoKV "github.com/feichai0017/NoKV"
	"github.com/feichai0017/NoKV/kv"
	"github.com/feichai0017/NoKV/utils"
	"verifharness/internal/corr"
)

// Family "txn" (C03, C04): up to 4 logical transactions interleaved call by
// call in one goroutine over 4 keys against a real DB in a temp dir.

var txnKeys = [][]byte{[]byte("a"), []byte("b"), []byte("ab"), {'a', 0}}

type txnCfg struct {
	Detect   bool  `json:"detect"`
	MaxCount int64 `json:"max_count"`
	MaxSize  int64 `json:"max_size"`
	VThr     int64 `json:"vthr"`
	Batch    bool  `json:"batch,omitempty"` // WriteBatchWait > 0: concurrent commits share a commit batch
}

// txnOp: kind in begin|get|set|setexp|del|commit|commitwith|commitbatch|discard|close|reopen|failwal|dump
type txnOp struct {
	Kind   string `json:"k"`
	ID     int    `json:"id,omitempty"`
	Update bool   `json:"u,omitempty"`
	Key    int    `json:"key,omitempty"`
	Val    string `json:"v,omitempty"`
	IDs    []int  `json:"ids,omitempty"` // commitbatch: CommitWith on these handles in order, then wait for all
}

type txnDesc struct {
	Cfg txnCfg   `json:"cfg"`
	Ops []txnOp  `json:"ops"`
	Obs []string `json:"obs,omitempty"`
}

func scratchDir(c *corr.Ctx) string {
	// tmpfs when available (a case opens and closes a DB; fsync dominates on disk)
	base := "/dev/shm"
	if st, err := os.Stat(base); err != nil || !st.IsDir() || os.Getenv("VERIF_NO_SHM") != "" {
		base = os.Getenv("VERIF_DIR")
		if base == "" {
			base = os.TempDir()
		} else {
			base = filepath.Join(base, "run")
		}
	}
	d, err := os.MkdirTemp(base, "txn-"+c.Prop+"-")
	if err != nil {
		panic(err)
	}
	return d
}

func openTxnDB(dir string, g txnCfg) *NoKV.DB {
	opt := NoKV.NewDefaultOptions()
	opt.WorkDir = dir
	opt.MemTableSize = 1 << 20
	opt.SSTableMaxSz = 4 << 20
	opt.HotRingEnabled = false
	opt.WriteHotKeyLimit = 0
	opt.HotWriteBurstThreshold = 0
	opt.EnableWALWatchdog = false
	opt.ValueLogGCInterval = 0
	opt.ValueLogBucketCount = 1
	opt.ValueLogHotBucketCount = 0
	opt.WriteBatchWait = 0
	if g.Batch {
		opt.WriteBatchWait = 2 * time.Millisecond
	}
	opt.DetectConflicts = g.Detect
	opt.MaxBatchCount = g.MaxCount
	opt.MaxBatchSize = g.MaxSize
	opt.ValueThreshold = g.VThr
	return NoKV.Open(opt)
}

func classifyTxnErr(err error) string {
	switch {
	case err == nil:
		return "RNil"
	case errors.Is(err, utils.ErrConflict):
		return "(RErr EConflict)"
	case errors.Is(err, utils.ErrTxnTooBig):
		return "(RErr ETooBig)"
	case errors.Is(err, utils.ErrBlockedWrites):
		return "(RErr EBlocked)"
	case errors.Is(err, utils.ErrReadOnlyTxn):
		return "(RErr EReadOnly)"
	case errors.Is(err, utils.ErrDiscardedTxn):
		return "(RErr EDiscarded)"
	case strings.Contains(err.Error(), "Trying to commit a discarded txn"):
		return "(RErr ECommitDiscarded)"
	case strings.Contains(err.Error(), "writeRequests"):
		return "(RErr EApply)" // commitWorker: applyRequests failed for this request
	}
	return "ROther"
}

func hexs(b []byte) string { return corr.Hex(b) }

// callTimeout bounds every API call that can block (NewTransaction, Get, Commit, Close).
const callTimeout = 4 * time.Second

var hungCases int

// watchdog runs f in its own goroutine and reports whether it returned in time.
func watchdog(f func()) bool {
	done := make(chan struct{})
	go func() {
		defer close(done)
		f()
	}()
	select {
	case <-done:
		return true
	case <-time.After(callTimeout):
		return false
	}
}

func dumpKey(db *NoKV.DB, key []byte) string {
	// versions of the key from the internal iterator (newest first), values
	// through GetVersionedEntry (which resolves value-log pointers).
	it := db.NewInternalIterator(&utils.Options{IsAsc: true})
	var vers []uint64
	seen := map[uint64]bool{}
	for it.Rewind(); it.Valid(); it.Next() {
		item := it.Item()
		if item == nil || item.Entry() == nil {
			continue
		}
		cf, uk, ts := kv.SplitInternalKey(item.Entry().Key)
		if cf == kv.CFDefault && bytes.Equal(uk, key) && !seen[ts] {
			seen[ts] = true
			vers = append(vers, ts)
		}
	}
	it.Close()
	sort.Slice(vers, func(i, j int) bool { return vers[i] > vers[j] })
	var items []string
	for _, v := range vers {
		e, err := db.GetVersionedEntry(kv.CFDefault, key, v)
		switch {
		case err != nil || e == nil:
			items = append(items, fmt.Sprintf("(%d, V \"ee\")", v)) // unreadable: never equal to a written value
		case e.Version != v:
			items = append(items, fmt.Sprintf("(%d, V \"ef\")", v))
		case e.Meta&kv.BitDelete != 0 || (e.ExpiresAt != 0 && e.ExpiresAt <= uint64(time.Now().Unix())):
			items = append(items, fmt.Sprintf("(%d, None)", v))
		default:
			items = append(items, fmt.Sprintf("(%d, V %s)", v, hexs(e.Value)))
		}
	}
	return corr.List(items)
}

// execTxn runs the operations against a real DB and returns the case.
func execTxn(c *corr.Ctx, d txnDesc) corr.Case {
	dir := scratchDir(c)
	defer os.RemoveAll(dir)
	db := openTxnDB(dir, d.Cfg)
	closed := false
	walBroken := false
	hung := false
	defer func() {
		if !closed && !hung { // a DB with a call that never returned is abandoned
			watchdog(func() {
				defer func() { _ = recover() }() // closing over a broken WAL may fail; the directory is removed anyway
				db.Close()
			})
		}
	}()
	_ = walBroken
	var txns [8]*NoKV.Txn
	var live [8]bool
	terms := make([]string, 0, len(d.Ops))
	obs := make([]string, 0, len(d.Ops))
	conflicts, commitsOK, overlapCommits, errs := 0, 0, 0, 0
	for _, o := range d.Ops {
		var term, ob string
		if os.Getenv("VERIF_DEBUG") != "" {
			fmt.Fprintf(os.Stderr, "op %+v\n", o)
		}
		key := txnKeys[o.Key%len(txnKeys)]
		switch o.Kind {
		case "begin":
			if !watchdog(func() { txns[o.ID] = db.NewTransaction(o.Update) }) {
				hung = true
				term, ob = fmt.Sprintf("Bh %d %s", o.ID, corr.Bool(o.Update)), "RHung"
				break
			}
			live[o.ID] = true
			term = fmt.Sprintf("B %d %s", o.ID, corr.Bool(o.Update))
			ob = "RNil"
		case "get":
			var it *NoKV.Item
			var err error
			if !watchdog(func() { it, err = txns[o.ID].Get(key) }) {
				hung = true
				term, ob = fmt.Sprintf("G %d %s RHung", o.ID, hexs(key)), "RHung"
				break
			}
			switch {
			case err == nil:
				ob = "(Vl " + hexs(it.Entry().Value) + ")"
			case errors.Is(err, utils.ErrKeyNotFound):
				ob = "Nf"
			default:
				ob = classifyTxnErr(err)
			}
			term = fmt.Sprintf("G %d %s %s", o.ID, hexs(key), ob)
		case "set":
			err := txns[o.ID].Set(key, []byte(o.Val))
			ob = classifyTxnErr(err)
			term = fmt.Sprintf("S %d %s %s %s", o.ID, hexs(key), hexs([]byte(o.Val)), ob)
		case "setexp":
			// a value written with an expiry that has already passed: readers get ErrKeyNotFound, exactly as
			// for a tombstone; the model (which has no clock) treats it as a delete
			e := kv.NewEntry(key, []byte(o.Val))
			e.ExpiresAt = 1
			err := txns[o.ID].SetEntry(e)
			ob = classifyTxnErr(err)
			term = fmt.Sprintf("D %d %s %s", o.ID, hexs(key), ob)
		case "del":
			err := txns[o.ID].Delete(key)
			ob = classifyTxnErr(err)
			term = fmt.Sprintf("D %d %s %s", o.ID, hexs(key), ob)
		case "commit", "commitwith":
			var err error
			if !watchdog(func() {
				if o.Kind == "commit" {
					err = txns[o.ID].Commit()
				} else {
					ch := make(chan error, 1)
					txns[o.ID].CommitWith(func(e error) { ch <- e })
					err = <-ch
				}
			}) {
				hung = true
				term, ob = fmt.Sprintf("C %d RHung", o.ID), "RHung"
				break
			}
			ob = classifyTxnErr(err)
			if err == nil {
				commitsOK++
				for i := range live {
					if i != o.ID && live[i] {
						overlapCommits++
						break
					}
				}
			} else {
				errs++
			}
			if errors.Is(err, utils.ErrConflict) {
				conflicts++
			}
			live[o.ID] = false
			term = fmt.Sprintf("C %d %s", o.ID, ob)
		case "commitbatch":
			// CommitWith takes the commit timestamp and enqueues synchronously, in this order; the
			// requests then sit in one commit batch (WriteBatchWait). Reported as consecutive commits.
			chans := make([]chan error, len(o.IDs))
			for i, id := range o.IDs {
				ch := make(chan error, 1)
				chans[i] = ch
				txns[id].CommitWith(func(e error) { ch <- e })
			}
			var ts []string
			for i, id := range o.IDs {
				err := <-chans[i]
				r := classifyTxnErr(err)
				if err == nil {
					commitsOK++
				} else {
					errs++
					if errors.Is(err, utils.ErrConflict) {
						conflicts++
					}
				}
				live[id] = false
				ts = append(ts, fmt.Sprintf("C %d %s", id, r))
				obs = append(obs, r)
			}
			terms = append(terms, ts...)
			continue
		case "failwal":
			// fault injection: the write-ahead log can no longer be appended to, so applying a
			// request to the LSM fails after its value-log write
			_ = db.WAL().Close()
			walBroken = true
			term, ob = "Fw", "RNil"
		case "discard":
			if !watchdog(func() { txns[o.ID].Discard() }) {
				hung = true
				term, ob = fmt.Sprintf("Xh %d", o.ID), "RHung"
				break
			}
			live[o.ID] = false
			term = fmt.Sprintf("X %d", o.ID)
			ob = "RNil"
		case "close":
			if !watchdog(func() { db.Close() }) {
				hung = true
				term, ob = "Clh", "RHung"
				break
			}
			closed = true
			term, ob = "Cl", "RNil"
		case "reopen":
			if !closed && !watchdog(func() { db.Close() }) {
				hung = true
				term, ob = "Roh", "RHung"
				break
			}
			db = openTxnDB(dir, d.Cfg)
			closed = false
			for i := range live {
				live[i] = false
			}
			term, ob = "Ro", "RNil"
		case "dump":
			ob = dumpKey(db, key)
			term = fmt.Sprintf("Du %s %s", hexs(key), ob)
		default:
			panic("unknown op " + o.Kind)
		}
		terms = append(terms, term)
		obs = append(obs, ob)
		if hung {
			// the call never returned: the case ends here and the DB is abandoned
			hungCases++
			c.Count("calls_hung")
			break
		}
	}
	var fps []string
	for _, k := range txnKeys {
		fps = append(fps, fmt.Sprintf("FP %s %d", hexs(k), kv.MemHash(kv.EncodeKeyWithCF(kv.CFDefault, k))))
	}
	coq := fmt.Sprintf("Cs (Cfg %s %d %d %d) %s %s", corr.Bool(d.Cfg.Detect), d.Cfg.MaxCount, d.Cfg.MaxSize, d.Cfg.VThr,
		corr.List(fps), corr.List(terms))
	c.CountN("commit_ok", commitsOK)
	c.CountN("commit_conflict", conflicts)
	c.CountN("commit_other_error", errs-conflicts)
	c.CountN("commit_ok_while_other_txn_live", overlapCommits)
	c.CountN("calls", len(d.Ops))
	d.Obs = obs
	return corr.Case{Coq: coq, Nontrivial: overlapCommits > 0 || conflicts > 0 || errs > 0, Desc: d}
}

// genTxn generates one interleaving.
func genTxn(r *rand.Rand, prop string) txnDesc {
	var d txnDesc
	d.Cfg = txnCfg{Detect: r.Intn(4) != 0, MaxCount: 64, MaxSize: 1 << 20, VThr: 1024}
	sizeMode := false
	if prop == "C04" || r.Intn(6) == 0 {
		d.Cfg.Detect = r.Intn(2) == 0
		d.Cfg.MaxCount = []int64{3, 4, 5, 64}[r.Intn(4)]
		if r.Intn(2) == 0 {
			d.Cfg.MaxSize = []int64{90, 150, 260}[r.Intn(3)]
			sizeMode = true
		}
		if r.Intn(3) == 0 {
			d.Cfg.VThr = 32
		}
	}
	nslots := 2 + r.Intn(3)
	var live [8]bool
	var update [8]bool
	closed := false
	valc := 0
	val := func() string {
		valc++
		s := fmt.Sprintf("v%d", valc)
		if sizeMode && r.Intn(2) == 0 {
			s += strings.Repeat("x", 10+r.Intn(70))
		}
		return s
	}
	n := 8 + r.Intn(28)
	closeAt := -1
	if (prop == "C04" && r.Intn(3) == 0) || r.Intn(12) == 0 {
		closeAt = n/2 + r.Intn(n/2)
	}
	for i := 0; i < n; i++ {
		if i == closeAt && !closed {
			d.Ops = append(d.Ops, txnOp{Kind: "close"})
			closed = true
			continue
		}
		if closed && r.Intn(6) == 0 || (!closed && r.Intn(40) == 0) {
			// all handles die with the DB object
			for id := 0; id < nslots; id++ {
				if live[id] && !closed {
					d.Ops = append(d.Ops, txnOp{Kind: "discard", ID: id})
				}
				live[id] = false
			}
			d.Ops = append(d.Ops, txnOp{Kind: "reopen"})
			closed = false
			continue
		}
		id := r.Intn(nslots)
		if !live[id] {
			if r.Intn(10) == 0 && i > 0 {
				// use a finished (or never started) handle: only after it was started once
				continue
			}
			u := r.Intn(6) != 0
			d.Ops = append(d.Ops, txnOp{Kind: "begin", ID: id, Update: u})
			live[id], update[id] = true, u
			continue
		}
		key := r.Intn(len(txnKeys))
		if r.Intn(3) != 0 {
			key = r.Intn(2) // collide
		}
		switch x := r.Intn(20); {
		case x < 6 && !closed:
			d.Ops = append(d.Ops, txnOp{Kind: "get", ID: id, Key: key})
		case x < 12:
			d.Ops = append(d.Ops, txnOp{Kind: "set", ID: id, Key: key, Val: val()})
		case x < 14:
			d.Ops = append(d.Ops, txnOp{Kind: "del", ID: id, Key: key})
		case x < 18:
			kind := "commit"
			if r.Intn(4) == 0 {
				kind = "commitwith"
			}
			d.Ops = append(d.Ops, txnOp{Kind: kind, ID: id})
			live[id] = false
			if r.Intn(8) == 0 {
				// calls on a finished handle
				switch r.Intn(4) {
				case 0:
					if !closed {
						d.Ops = append(d.Ops, txnOp{Kind: "get", ID: id, Key: key})
					}
				case 1:
					d.Ops = append(d.Ops, txnOp{Kind: "set", ID: id, Key: key, Val: val()})
				case 2:
					d.Ops = append(d.Ops, txnOp{Kind: "commit", ID: id})
				case 3:
					d.Ops = append(d.Ops, txnOp{Kind: "discard", ID: id})
				}
			}
		default:
			d.Ops = append(d.Ops, txnOp{Kind: "discard", ID: id})
			live[id] = false
		}
		_ = update
	}
	for id := 0; id < nslots; id++ {
		if live[id] && !closed {
			d.Ops = append(d.Ops, txnOp{Kind: "discard", ID: id})
		}
	}
	if closed {
		d.Ops = append(d.Ops, txnOp{Kind: "reopen"})
	}
	for k := range txnKeys {
		d.Ops = append(d.Ops, txnOp{Kind: "dump", Key: k})
	}
	return d
}

// genApplyFailure: a few commits, then the WAL is broken, then single and batched commits whose
// application must fail; reads and dumps through the same DB handle afterwards.
func genApplyFailure(r *rand.Rand) txnDesc {
	d := txnDesc{Cfg: txnCfg{Detect: r.Intn(2) == 0, MaxCount: 64, MaxSize: 1 << 20, VThr: 1024, Batch: true}}
	if r.Intn(3) == 0 {
		d.Cfg.VThr = 32
	}
	valc := 0
	val := func() string {
		valc++
		s := fmt.Sprintf("v%d", valc)
		if r.Intn(4) == 0 {
			s += strings.Repeat("y", 40) // above a value threshold of 32: goes through the value log
		}
		return s
	}
	writer := func(id int) {
		d.Ops = append(d.Ops, txnOp{Kind: "begin", ID: id, Update: true})
		for j, m := 0, 1+r.Intn(3); j < m; j++ {
			if r.Intn(5) == 0 {
				d.Ops = append(d.Ops, txnOp{Kind: "del", ID: id, Key: r.Intn(len(txnKeys))})
			} else {
				d.Ops = append(d.Ops, txnOp{Kind: "set", ID: id, Key: r.Intn(len(txnKeys)), Val: val()})
			}
		}
	}
	for i, m := 0, r.Intn(3); i < m; i++ {
		writer(0)
		d.Ops = append(d.Ops, txnOp{Kind: "commit", ID: 0})
	}
	if r.Intn(2) == 0 { // a healthy batch first
		writer(0)
		writer(1)
		d.Ops = append(d.Ops, txnOp{Kind: "commitbatch", IDs: []int{0, 1}})
	}
	d.Ops = append(d.Ops, txnOp{Kind: "failwal"})
	for round, m := 0, 1+r.Intn(3); round < m; round++ {
		switch r.Intn(3) {
		case 0:
			writer(0)
			d.Ops = append(d.Ops, txnOp{Kind: "commit", ID: 0})
		case 1:
			writer(1)
			d.Ops = append(d.Ops, txnOp{Kind: "commitwith", ID: 1})
		default:
			n := 2 + r.Intn(3)
			var ids []int
			for id := 0; id < n; id++ {
				writer(id)
				ids = append(ids, id)
			}
			d.Ops = append(d.Ops, txnOp{Kind: "commitbatch", IDs: ids})
		}
		d.Ops = append(d.Ops, txnOp{Kind: "begin", ID: 5, Update: false})
		for k := range txnKeys {
			d.Ops = append(d.Ops, txnOp{Kind: "get", ID: 5, Key: k})
		}
		d.Ops = append(d.Ops, txnOp{Kind: "discard", ID: 5})
	}
	for k := range txnKeys {
		d.Ops = append(d.Ops, txnOp{Kind: "dump", Key: k})
	}
	return d
}

func runTxn(c *corr.Ctx) error {
	c.Meta("run_module", "RunTxn")
	c.Meta("exhaustive", false)
	c.Meta("rule", "random call-by-call interleavings of 2-4 logical transactions (begin/get/set/delete/commit/commitWith/discard, "+
		"calls on finished handles, Close, reopen) over 4 colliding keys on a real DB in a temp dir; DetectConflicts on and off; "+
		"MaxBatchCount in {3,4,5,64}, MaxBatchSize in {90,150,260,1MiB}, ValueThreshold in {32,1024}; plus apply-failure scenarios "+
		"(the WAL is closed under the engine, then single Commit / CommitWith and batches of 2-4 CommitWith sharing one commit batch, "+
		"read back through the same DB); every call result and the "+
		"final versions of every key are compared with the model and with the trace / version oracles. non-trivial = a commit "+
		"succeeded while another transaction was live, or a commit failed; distinct by Gallina term")
	if c.Replay != "" {
		cases, err := c.ReplayCases()
		if err != nil {
			return err
		}
		for _, cs := range cases {
			b, _ := json.Marshal(cs.Desc)
			var d txnDesc
			if err := json.Unmarshal(b, &d); err != nil {
				return err
			}
			c.Emit(execTxn(c, d))
		}
		return nil
	}
	// fixed scenarios, executed live on every run: a reader whose read timestamp is 0 / equals the
	// read watermark must still conflict with a later overwrite (fixes/txn-active-reads.md)
	for _, d := range staleReaderScenarios() {
		c.Emit(execTxn(c, d))
	}
	n := c.Scale(200, 8000)
	for i := 0; i < n && hungCases < 4; i++ {
		c.Emit(execTxn(c, genTxn(c.Rng, c.Prop)))
	}
	// reads of deleted / expired / absent keys inside the conflict window
	for i, m := 0, c.Scale(40, 1500); i < m && hungCases < 4; i++ {
		c.Count("dead_key_read_scenarios")
		c.Emit(execTxn(c, genDeadKeyRead(c.Rng)))
	}
	// conflict-history pruning around a live reader
	for i, m := 0, c.Scale(40, 1500); i < m && hungCases < 4; i++ {
		c.Count("history_prune_scenarios")
		c.Emit(execTxn(c, genHistoryPrune(c.Rng)))
	}
	// apply failures in the commit worker (closed WAL), single and batched commits
	for i, m := 0, c.Scale(30, 800); i < m && hungCases < 4; i++ {
		c.Count("apply_failure_scenarios")
		c.Emit(execTxn(c, genApplyFailure(c.Rng)))
	}
	return nil
}

func staleReaderScenarios() []txnDesc {
	cfg := txnCfg{Detect: true, MaxCount: 64, MaxSize: 1 << 20, VThr: 1024}
	o := func(k string, id, key int, v string) txnOp {
		return txnOp{Kind: k, ID: id, Update: true, Key: key, Val: v}
	}
	dumps := []txnOp{{Kind: "dump", Key: 0}, {Kind: "dump", Key: 1}, {Kind: "dump", Key: 2}, {Kind: "dump", Key: 3}}
	a := []txnOp{o("begin", 0, 0, ""), o("set", 0, 0, "v0"), o("commit", 0, 0, ""), o("begin", 0, 0, ""), o("discard", 0, 0, ""),
		o("begin", 1, 0, ""), o("get", 1, 0, ""), o("begin", 2, 0, ""), o("set", 2, 0, "vC"), o("commit", 2, 0, ""),
		o("begin", 3, 0, ""), o("discard", 3, 0, ""), o("begin", 3, 0, ""), o("set", 3, 1, "x"), o("commit", 3, 0, ""),
		o("set", 1, 0, "vB"), o("commit", 1, 0, "")}
	b := []txnOp{o("begin", 0, 0, ""), o("get", 0, 0, ""), o("begin", 1, 0, ""), o("set", 1, 0, "v1"), o("commit", 1, 0, ""),
		o("begin", 2, 0, ""), o("set", 2, 1, "x"), o("commit", 2, 0, ""), o("begin", 3, 0, ""), o("set", 3, 2, "y"), o("commit", 3, 0, ""),
		o("set", 0, 0, "v0"), o("commit", 0, 0, "")}
	// a key committed twice (A, B) around the begin of reader 1, while an older transaction 3 keeps A in
	// the conflict history at B's commit; 3 ends, an unrelated commit prunes A but must keep B's intent:
	// the reader's commit on that key is a conflict (intentTable / committedTxns bookkeeping)
	p := []txnOp{o("begin", 3, 0, ""),
		o("begin", 0, 0, ""), o("set", 0, 0, "vA"), o("commit", 0, 0, ""),
		o("begin", 1, 0, ""), o("get", 1, 0, ""),
		o("begin", 0, 0, ""), o("set", 0, 0, "vB"), o("commit", 0, 0, ""),
		o("discard", 3, 0, ""),
		o("begin", 2, 0, ""), o("set", 2, 1, "vC"), o("commit", 2, 0, ""),
		o("set", 1, 0, "vR"), o("commit", 1, 0, "")}
	// a key whose newest visible version is a tombstone (q) / an expired value (e) is read by 1 (not
	// found), overwritten by 2 inside the conflict window, then written by 1: a conflict
	q := []txnOp{o("begin", 0, 0, ""), o("set", 0, 0, "v0"), o("commit", 0, 0, ""),
		o("begin", 0, 0, ""), o("del", 0, 0, ""), o("commit", 0, 0, ""),
		o("begin", 1, 0, ""), o("get", 1, 0, ""),
		o("begin", 2, 0, ""), o("set", 2, 0, "v2"), o("commit", 2, 0, ""),
		o("set", 1, 0, "v1"), o("commit", 1, 0, "")}
	e := []txnOp{o("begin", 0, 0, ""), o("setexp", 0, 0, "old"), o("commit", 0, 0, ""),
		o("begin", 1, 0, ""), o("get", 1, 0, ""),
		o("begin", 2, 0, ""), o("set", 2, 0, "v2"), o("commit", 2, 0, ""),
		o("set", 1, 1, "v1"), o("commit", 1, 0, "")}
	return []txnDesc{{Cfg: cfg, Ops: append(a, dumps...)}, {Cfg: cfg, Ops: append(b, dumps...)}, {Cfg: cfg, Ops: append(p, dumps...)},
		{Cfg: cfg, Ops: append(q, dumps...)}, {Cfg: cfg, Ops: append(e, dumps...)}}
}

// genDeadKeyRead: keys that are deleted or expired (or never written) before the transactions under test
// start; one transaction reads some of them (ErrKeyNotFound) and other keys, a second one commits writes
// inside the conflict window, the first one writes and commits.
func genDeadKeyRead(r *rand.Rand) txnDesc {
	d := txnDesc{Cfg: txnCfg{Detect: r.Intn(6) != 0, MaxCount: 64, MaxSize: 1 << 20, VThr: 1024}}
	o := func(k string, id, key int, v string) {
		d.Ops = append(d.Ops, txnOp{Kind: k, ID: id, Update: true, Key: key, Val: v})
	}
	valc := 0
	val := func() string { valc++; return fmt.Sprintf("d%d", valc) }
	// history: every key is live, deleted, expired or absent
	for key := range txnKeys {
		switch r.Intn(4) {
		case 0:
			o("begin", 0, 0, "")
			o("set", 0, key, val())
			o("commit", 0, 0, "")
		case 1:
			o("begin", 0, 0, "")
			o("set", 0, key, val())
			o("commit", 0, 0, "")
			o("begin", 0, 0, "")
			o("del", 0, key, "")
			o("commit", 0, 0, "")
		case 2:
			o("begin", 0, 0, "")
			o("setexp", 0, key, val())
			o("commit", 0, 0, "")
		}
	}
	o("begin", 1, 0, "")
	nreads := 1 + r.Intn(3)
	var read []int
	for i := 0; i < nreads; i++ {
		k := r.Intn(len(txnKeys))
		read = append(read, k)
		o("get", 1, k, "")
	}
	for i, m := 0, 1+r.Intn(2); i < m; i++ {
		k := r.Intn(len(txnKeys))
		if r.Intn(3) != 0 {
			k = read[r.Intn(len(read))]
		}
		o("begin", 2, 0, "")
		switch r.Intn(4) {
		case 0:
			o("del", 2, k, "")
		case 1:
			o("setexp", 2, k, val())
		default:
			o("set", 2, k, val())
		}
		o("commit", 2, 0, "")
	}
	if r.Intn(4) == 0 {
		o("get", 1, read[0], "") // repeatable
	}
	o("set", 1, r.Intn(len(txnKeys)), val())
	o("commit", 1, 0, "")
	for key := range txnKeys {
		d.Ops = append(d.Ops, txnOp{Kind: "dump", Key: key})
	}
	return d
}

// genHistoryPrune: random variants of the scenario above (which keys, how many overwrites and
// unrelated commits, whether the old transaction ends before the pruning commit).
func genHistoryPrune(r *rand.Rand) txnDesc {
	d := txnDesc{Cfg: txnCfg{Detect: true, MaxCount: 64, MaxSize: 1 << 20, VThr: 1024}}
	o := func(k string, id, key int, v string) {
		d.Ops = append(d.Ops, txnOp{Kind: k, ID: id, Update: true, Key: key, Val: v})
	}
	valc := 0
	commit := func(key int) {
		valc++
		o("begin", 0, 0, "")
		o("set", 0, key, fmt.Sprintf("h%d", valc))
		o("commit", 0, 0, "")
	}
	k := r.Intn(2)
	old := r.Intn(4) != 0
	if old {
		o("begin", 3, 0, "")
	}
	for i, m := 0, 1+r.Intn(2); i < m; i++ {
		commit(k)
	}
	o("begin", 1, 0, "")
	o("get", 1, k, "")
	if r.Intn(3) == 0 {
		o("get", 1, 1-k, "")
	}
	for i, m := 0, 1+r.Intn(2); i < m; i++ {
		if r.Intn(4) == 0 {
			commit(2 + r.Intn(2))
		} else {
			commit(k)
		}
	}
	if old && r.Intn(5) != 0 {
		o("discard", 3, 0, "")
	}
	for i, m := 0, 1+r.Intn(3); i < m; i++ {
		commit(2 + r.Intn(2)) // unrelated commits: their cleanup prunes the history
	}
	o("set", 1, k, "hR")
	o("commit", 1, 0, "")
	if old {
		o("discard", 3, 0, "")
	}
	for key := range txnKeys {
		d.Ops = append(d.Ops, txnOp{Kind: "dump", Key: key})
	}
	return d
}

package main

import (
	"bytes"
	"strings"

	"encoding/json"
	"errors"
	"fmt"
	"github.com/feichai0017/NoKV/vfs"
	"math/rand"
	"os"
	"sort"
	"sync"
	"sync/atomic"
	"time"

	NoKV "github.com/feichai0017/NoKV"
	"github.com/feichai0017/NoKV/utils"
	"verifharness/internal/corr"
)

// Family "linz" (C34): goroutines issue Set/Del/Get on 2 keys with unique
// values against a real DB; call and return events are stamped by one atomic
// counter; the complete history must satisfy lin_check (evaluated in Coq).

type linzOp struct {
	Kind string `json:"k"` // set | del | get
	Key  int    `json:"key"`
	Val  string `json:"v,omitempty"`
}

type linzDesc struct {
	Progs    [][]linzOp `json:"progs"`
	Throttle bool       `json:"throttle"`
	Big      int        `json:"big"`
	History  []string   `json:"history,omitempty"`
}

func openLinzDB(dir string) *NoKV.DB {
	opt := NoKV.NewDefaultOptions()
	opt.WorkDir = dir
	opt.MemTableSize = 4 << 20
	opt.SSTableMaxSz = 8 << 20
	opt.HotRingEnabled = true
	opt.WriteHotKeyLimit = 6 // consecutive writes of one key beyond this are rejected (ErrHotKeyWriteThrottle)
	opt.HotWriteBurstThreshold = 2
	opt.EnableWALWatchdog = false
	opt.ValueLogGCInterval = 0
	opt.ValueLogBucketCount = 1
	opt.ValueLogHotBucketCount = 0
	opt.MaxBatchSize = 512 // a 900-byte value (below ValueThreshold, so counted in full) is rejected with ErrTxnTooBig
	opt.WriteBatchWait = 100 * time.Microsecond
	return NoKV.Open(opt)
}

func genLinz(r *rand.Rand) linzDesc {
	var d linzDesc
	d.Throttle = r.Intn(3) == 0
	nthreads := 3 + r.Intn(2)
	nops := 4 + r.Intn(3)
	valc := 0
	for t := 0; t < nthreads; t++ {
		var p []linzOp
		for i := 0; i < nops; i++ {
			key := r.Intn(2)
			switch x := r.Intn(10); {
			case x < 4:
				valc++
				v := fmt.Sprintf("v%d", valc)
				if r.Intn(12) == 0 {
					v = "big"
				}
				p = append(p, linzOp{Kind: "set", Key: key, Val: v})
			case x < 5:
				p = append(p, linzOp{Kind: "del", Key: key})
			default:
				p = append(p, linzOp{Kind: "get", Key: key})
			}
		}
		d.Progs = append(d.Progs, p)
	}
	return d
}

var linzCase int64

func execLinz(c *corr.Ctx, db *NoKV.DB, d linzDesc) corr.Case {
	id := atomic.AddInt64(&linzCase, 1)
	keys := [][]byte{[]byte(fmt.Sprintf("L%d.a", id)), []byte(fmt.Sprintf("L%d.b", id))}
	var clock atomic.Uint64
	type rec struct {
		term string
		call uint64
	}
	recs := make([][]rec, len(d.Progs))
	var wg sync.WaitGroup
	start := make(chan struct{})
	stop := make(chan struct{})
	if d.Throttle {
		go func() {
			<-start
			for i := 0; ; i++ {
				select {
				case <-stop:
					db.VerifApplyThrottle(false)
					return
				default:
				}
				db.VerifApplyThrottle(i%2 == 0)
				time.Sleep(150 * time.Microsecond)
			}
		}()
	}
	var nerr, nok int64
	for t := range d.Progs {
		wg.Add(1)
		go func(t int) {
			defer wg.Done()
			<-start
			for _, o := range d.Progs[t] {
				key := keys[o.Key]
				var term string
				call := clock.Add(1)
				switch o.Kind {
				case "set", "del":
					var err error
					val := "None"
					if o.Kind == "set" {
						v := []byte(fmt.Sprintf("%d.%s", id, o.Val))
						if o.Val == "big" {
							v = make([]byte, 900)
							copy(v, fmt.Sprintf("%d.big.%d", id, call))
							val = "(V " + corr.Hex(v[:24]) + ")"
						} else {
							val = "(V " + corr.Hex(v) + ")"
						}
						err = db.Set(key, v)
					} else {
						err = db.Del(key)
					}
					ret := clock.Add(1)
					if err != nil {
						atomic.AddInt64(&nerr, 1)
						if !(errors.Is(err, utils.ErrHotKeyWriteThrottle) || errors.Is(err, utils.ErrTxnTooBig) || errors.Is(err, utils.ErrBlockedWrites)) {
							val = "(V \"ff\")" // unknown error class: still "no effect" is what is checked
						}
					} else {
						atomic.AddInt64(&nok, 1)
					}
					term = fmt.Sprintf("W %d %d %d %s %s %s", t, call, ret, corr.Hex(key), val, corr.Bool(err == nil))
				case "get":
					e, err := db.Get(key)
					ret := clock.Add(1)
					res := "None"
					if err == nil && e != nil {
						v := e.Value
						if len(v) > 24 {
							v = v[:24]
						}
						res = "(V " + corr.Hex(v) + ")"
					} else if err != nil && !errors.Is(err, utils.ErrKeyNotFound) {
						res = "(V \"fe\")"
					}
					term = fmt.Sprintf("R %d %d %d %s %s", t, call, ret, corr.Hex(key), res)
				}
				recs[t] = append(recs[t], rec{term, call})
			}
		}(t)
	}
	close(start)
	wg.Wait()
	close(stop)
	// ordered by call stamp: the checker's depth-first search then tries the earliest call first
	var all []rec
	for _, rs := range recs {
		all = append(all, rs...)
	}
	sort.Slice(all, func(i, j int) bool { return all[i].call < all[j].call })
	var terms []string
	for _, r := range all {
		terms = append(terms, r.term)
	}
	c.CountN("ops", len(terms))
	c.CountN("write_ok", int(nok))
	c.CountN("write_rejected", int(nerr))
	d.History = terms
	return corr.Case{Coq: "Cs " + corr.List(terms), Nontrivial: nok > 0, Desc: d}
}

// ---- fault-injected batches ----

type linzFaultDesc struct {
	Small int  `json:"small"` // small writes that join the batch before the failing one
	After int  `json:"after"` // small writes that join the batch after the failing one
	Big   bool `json:"big"`   // a 300 KiB write whose WAL record needs a file write, which fails
}

// execLinzFault: a fresh DB over a fault-injecting file system; several plain writes on distinct keys join
// one commit batch (coalescing window); the WAL file write of the large one fails. Every write reports its
// own outcome; afterwards every key is read. The history (call/return stamps as in execLinz) must be
// linearizable with failed writes as no-ops: a write that returned an error must not be readable, an
// acknowledged one must be.
func execLinzFault(c *corr.Ctx, d linzFaultDesc) corr.Case {
	dir := scratchDir(c)
	defer os.RemoveAll(dir)
	var armed atomic.Bool
	injected := errors.New("verif: injected WAL write error")
	fs := vfs.NewFaultFS(vfs.OSFS{}, func(op vfs.Op, path string) error {
		if armed.Load() && op == vfs.OpFileWrite && strings.HasSuffix(path, ".wal") {
			return injected
		}
		return nil
	})
	opt := &NoKV.Options{WorkDir: dir, FS: fs, SSTableMaxSz: 8 << 20, MemTableSize: 8 << 20, ValueLogFileSize: 16 << 20,
		ValueThreshold: 1 << 20, ValueLogBucketCount: 1, MaxBatchCount: 100, MaxBatchSize: 1 << 20,
		WriteBatchWait: 300 * time.Millisecond}
	db := NoKV.Open(opt)
	defer func() {
		armed.Store(false)
		watchdog(func() { defer func() { _ = recover() }(); db.Close() })
	}()
	var clock atomic.Uint64
	type rec struct {
		term string
		call uint64
	}
	var mu sync.Mutex
	var recs []rec
	var wg sync.WaitGroup
	nfail, nok, npanic := 0, 0, 0
	write := func(t int, key string, val []byte) {
		defer wg.Done()
		call := clock.Add(1)
		var err error
		panicked := false
		func() {
			defer func() {
				if r := recover(); r != nil {
					panicked = true
				}
			}()
			err = db.Set([]byte(key), val)
		}()
		ret := clock.Add(1)
		shown := val
		if len(shown) > 24 {
			shown = shown[:24]
		}
		mu.Lock()
		defer mu.Unlock()
		ok := err == nil && !panicked
		if ok {
			nok++
		} else {
			nfail++
		}
		recs = append(recs, rec{fmt.Sprintf("W %d %d %d %s (V %s) %s", t, call, ret, corr.Hex([]byte(key)), corr.Hex(shown), corr.Bool(ok)), call})
		if panicked {
			// a write that neither returned nil nor an error: recorded as a read of a value nobody wrote
			npanic++
			recs = append(recs, rec{fmt.Sprintf("R %d %d %d %s (V \"ff\")", t, ret, clock.Add(1), corr.Hex([]byte(key))), ret})
		}
	}
	var keys []string
	t := 0
	start := func(key string, val []byte) {
		keys = append(keys, key)
		wg.Add(1)
		go write(t, key, val)
		t++
	}
	for i := 0; i < d.Small; i++ {
		start(fmt.Sprintf("f.s%d", i), []byte(fmt.Sprintf("s%d", i)))
	}
	time.Sleep(60 * time.Millisecond) // the worker has popped the first request and waits for company
	if d.Big {
		armed.Store(true)
		big := bytes.Repeat([]byte{'b'}, 300<<10)
		copy(big, "big.")
		start("f.big", big)
		time.Sleep(20 * time.Millisecond)
	}
	for i := 0; i < d.After; i++ {
		start(fmt.Sprintf("f.a%d", i), []byte(fmt.Sprintf("a%d", i)))
	}
	if !watchdog(wg.Wait) {
		c.Count("fault_writes_hung")
	}
	armed.Store(false)
	for _, key := range keys {
		call := clock.Add(1)
		e, err := db.Get([]byte(key))
		ret := clock.Add(1)
		res := "None"
		if err == nil && e != nil {
			v := e.Value
			if len(v) > 24 {
				v = v[:24]
			}
			res = "(V " + corr.Hex(v) + ")"
		} else if err != nil && !errors.Is(err, utils.ErrKeyNotFound) {
			res = "(V \"fe\")"
		}
		recs = append(recs, rec{fmt.Sprintf("R %d %d %d %s %s", t, call, ret, corr.Hex([]byte(key)), res), call})
	}
	sort.Slice(recs, func(i, j int) bool { return recs[i].call < recs[j].call })
	var terms []string
	for _, r := range recs {
		terms = append(terms, r.term)
	}
	c.CountN("fault_write_ok", nok)
	c.CountN("fault_write_failed", nfail)
	c.CountN("fault_write_panicked", npanic)
	c.Count("fault_histories")
	return corr.Case{Coq: "Cs " + corr.List(terms), Nontrivial: nfail > 0 && nok > 0, Desc: map[string]any{"fault": d, "history": terms}}
}

func runLinz(c *corr.Ctx) error {
	c.Meta("run_module", "RunLinz")
	c.Meta("exhaustive", false)
	c.Meta("rule", "3-4 goroutines x 4-6 operations (Set with unique values, Del, Get) on 2 fresh keys per history against one real DB "+
		"(commit worker batching on, WriteHotKeyLimit=6 so that repeated writes are rejected, 900-byte values rejected by MaxBatchSize=512, "+
		"a fifth goroutine toggling the L0 write throttle in a third of the histories); call/return stamped by a global atomic counter; "+
		"the complete history must satisfy lin_check. Plus fault-injected batches on a fresh DB over a FaultFS: 1-3 small writes and "+
		"a 300 KiB write join one commit batch (WriteBatchWait 300 ms), the WAL file write of the large record fails, every key is read "+
		"afterwards: a write that returned an error must be linearizable as no effect, an acknowledged one must be visible. non-trivial = at least one write succeeded; distinct by Gallina term")
	dir := scratchDir(c)
	defer os.RemoveAll(dir)
	db := openLinzDB(dir)
	defer db.Close()
	if c.Replay != "" {
		cases, err := c.ReplayCases()
		if err != nil {
			return err
		}
		for _, cs := range cases {
			b, _ := json.Marshal(cs.Desc)
			var d linzDesc
			if err := json.Unmarshal(b, &d); err != nil {
				return err
			}
			for i := 0; i < 20; i++ { // a schedule cannot be replayed exactly: re-run the programs several times
				c.Emit(execLinz(c, db, d))
			}
		}
		return nil
	}
	n := c.Scale(300, 20000)
	for i := 0; i < n; i++ {
		c.Emit(execLinz(c, db, genLinz(c.Rng)))
	}
	// shared commit batches in which the WAL write of one request fails
	for i, m := 0, c.Scale(12, 200); i < m; i++ {
		d := linzFaultDesc{Small: 1 + c.Rng.Intn(3), After: c.Rng.Intn(2), Big: c.Rng.Intn(6) != 0}
		c.Emit(execLinzFault(c, d))
	}
	return nil
}

// Harness binary for the transaction / commit-queue properties
// (C03, C04: family txn; C34: linz; C05: txnsched; C37: close).
package main

import "verifharness/internal/corr"

func main() {
	corr.Main(map[string]corr.Family{
		"txn":      runTxn,
		"linz":     runLinz,
		"txnsched": runTxnSched,
		"close":    runClose,
	})
}

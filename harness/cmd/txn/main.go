// Harness binary for the transaction / commit-queue properties
// (C03, C04: family txn; C34: linz; C05: txnsched; C37: close).
package main

import (
	"os"

	"verifharness/internal/corr"
)

func main() {
	if len(os.Args) > 1 && os.Args[1] == "reopen-child" {
		reopenChild(os.Args[2:])
		return
	}
	corr.Main(map[string]corr.Family{
		"txn":      runTxn,
		"linz":     runLinz,
		"txnsched": runTxnSched,
		"close":    runClose,
	})
}

package main

import (
	"bufio"
	"bytes"
	"fmt"
	"math"
	"os"
	"os/exec"
	"strings"
	"time"

	NoKV "github.com/feichai0017/NoKV"
	"github.com/feichai0017/NoKV/kv"
	"verifharness/internal/corr"
)

// Scenario "write, Close, reopen, transactional commit, read back" (close family, C37). It runs in a child
// process (this binary re-executed with the argument reopen-child) because utils.AssertTrue ends the
// process with log.Fatal, which cannot be caught. The child prints one line per completed stage.

var reopenVariants = []struct {
	name   string
	maxver uint64 // the largest version stored before the reopen
}{
	{"sentinel", math.MaxUint64},  // plain DB.Set: sentinel version 2^64-1
	{"below", math.MaxUint64 - 1}, // SetVersionedEntry at 2^64-2: no wrap
	{"versioned", 1000},           // SetVersionedEntry at 1000
	{"txnonly", 1},                // one transactional commit
}

func reopenOpts(dir string) *NoKV.Options {
	opt := NoKV.NewDefaultOptions()
	opt.WorkDir = dir
	opt.MemTableSize = 1 << 20
	opt.SSTableMaxSz = 4 << 20
	opt.HotRingEnabled = false
	opt.WriteHotKeyLimit = 0
	opt.EnableWALWatchdog = false
	opt.ValueLogGCInterval = 0
	opt.ValueLogBucketCount = 1
	opt.ValueLogHotBucketCount = 0
	opt.DetectConflicts = true
	return opt
}

// reopenChild: args = <dir> <variant>
func reopenChild(args []string) {
	out := bufio.NewWriter(os.Stdout)
	stage := func(s string) { fmt.Fprintln(out, "stage "+s); out.Flush() }
	if len(args) < 2 {
		os.Exit(2)
	}
	dir, variant := args[0], args[1]
	db := NoKV.Open(reopenOpts(dir))
	stage("open1")
	var err error
	switch variant {
	case "sentinel":
		err = db.Set([]byte("a"), []byte("1"))
	case "below":
		err = db.SetVersionedEntry(kv.CFDefault, []byte("a"), 1<<62, []byte("1"), 0)
	case "versioned":
		err = db.SetVersionedEntry(kv.CFDefault, []byte("a"), 1000, []byte("1"), 0)
	case "txnonly":
		txn := db.NewTransaction(true)
		if err = txn.Set([]byte("a"), []byte("1")); err == nil {
			err = txn.Commit()
		}
	default:
		os.Exit(2)
	}
	if err != nil {
		fmt.Fprintln(out, "error write:", err)
		out.Flush()
		os.Exit(3)
	}
	stage("write")
	if err := db.Close(); err != nil {
		fmt.Fprintln(out, "error close:", err)
		out.Flush()
		os.Exit(3)
	}
	stage("close")
	db = NoKV.Open(reopenOpts(dir))
	stage("open2")
	txn := db.NewTransaction(true)
	stage("begin")
	if err := txn.Set([]byte("b"), []byte("2")); err != nil {
		fmt.Fprintln(out, "error set:", err)
		out.Flush()
		os.Exit(3)
	}
	stage("set")
	err = txn.Commit()
	if err != nil {
		fmt.Fprintln(out, "commit error:", err)
	} else {
		fmt.Fprintln(out, "commit ok")
	}
	stage("commit")
	ro := db.NewTransaction(false)
	it, gerr := ro.Get([]byte("b"))
	if gerr == nil && bytes.Equal(it.Entry().Value, []byte("2")) {
		fmt.Fprintln(out, "read ok")
	} else {
		fmt.Fprintln(out, "read wrong:", gerr)
	}
	ro.Discard()
	stage("read")
	_ = db.Close()
	stage("done")
	out.Flush()
}

// execReopen runs one variant in a child process and reports what it reached.
func execReopen(c *corr.Ctx, variant string, maxver uint64) corr.Case {
	dir := scratchDir(c)
	defer os.RemoveAll(dir)
	cmd := exec.Command(os.Args[0], "reopen-child", dir, variant)
	var stdout, stderr bytes.Buffer
	cmd.Stdout, cmd.Stderr = &stdout, &stderr
	done := make(chan error, 1)
	if err := cmd.Start(); err != nil {
		panic(err)
	}
	go func() { done <- cmd.Wait() }()
	exitOK, timedOut := false, false
	select {
	case err := <-done:
		exitOK = err == nil
	case <-time.After(60 * time.Second):
		_ = cmd.Process.Kill()
		<-done
		timedOut = true
	}
	last := "RsStart"
	commitOK, readOK := false, false
	names := map[string]string{"open1": "RsOpen1", "write": "RsWrite", "close": "RsClose", "open2": "RsOpen2", "begin": "RsBegin",
		"set": "RsSet", "commit": "RsCommit", "read": "RsRead", "done": "RsDone"}
	for _, line := range strings.Split(stdout.String(), "\n") {
		line = strings.TrimSpace(line)
		switch {
		case strings.HasPrefix(line, "stage "):
			if n, ok := names[strings.TrimPrefix(line, "stage ")]; ok {
				last = n
			}
		case line == "commit ok":
			commitOK = true
		case line == "read ok":
			readOK = true
		}
	}
	c.Count("reopen_child_" + variant + "_" + last)
	tail := stderr.String()
	if len(tail) > 400 {
		tail = tail[len(tail)-400:]
	}
	return corr.Case{
		Coq:        fmt.Sprintf("Rp %d %s %s %s %s", maxver, last, corr.Bool(exitOK && !timedOut), corr.Bool(commitOK), corr.Bool(readOK)),
		Nontrivial: true,
		Desc:       map[string]any{"reopen": variant, "max_version": fmt.Sprint(maxver), "last_stage": last, "exit_ok": exitOK, "timed_out": timedOut, "stderr_tail": tail},
	}
}

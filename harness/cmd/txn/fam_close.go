package main

import (
	"bytes"
	"sync"

	"encoding/json"
	"fmt"
	NoKV "github.com/feichai0017/NoKV"
	"github.com/feichai0017/NoKV/lsm/compact"
	"math/rand"
	"os"
	"regexp"
	"strings"
	"sync/atomic"
	"time"

	"github.com/feichai0017/NoKV/utils/verifhook"
	"verifharness/internal/corr"
	"verifharness/internal/sched"
)

// Family "close" (C37): writers (threads 3..), the L0 throttle (thread 1) and
// the goroutine calling Close (thread 2) under the controlled scheduler. The
// commit worker is free-running. Yield points that are steps of the model:
// h.call (before DB.Set), sendToWriteCh, sendToWriteCh.blocked, h.throttle,
// h.close, commitQueue.close; enqueueCommitRequest / commitQueue.acquireItem /
// commitQueue.pop are passed through.

type closeOp struct {
	Big bool `json:"big,omitempty"`
}

type closeDesc struct {
	Writers [][]closeOp `json:"writers"`
	Toggles int         `json:"toggles"`
	Close   bool        `json:"close"`
	Words   []int       `json:"words"`
	Grants  []int       `json:"grants,omitempty"`
	Txn     *txnDesc    `json:"txn,omitempty"`   // second kind of case: transactional calls around a rejected commit
	Maint   *maintDesc  `json:"maint,omitempty"` // third kind: flush, a compaction with many output tables, Close
	Conc    *concDesc   `json:"conc,omitempty"`  // fourth kind: concurrent writers of large inline values, Close
}

type concDesc struct {
	Writers  int `json:"writers"`
	Ops      int `json:"ops"`
	ValueKiB int `json:"value_kib"`
	WaitMs   int `json:"wait_ms"`
}

// execConc: Writers goroutines write Ops values of ValueKiB KiB each (inline: ValueThreshold 1 MiB) while
// the commit worker coalesces them into batches with a byte budget of 64 KiB; every Set must return, every
// acknowledged value must be readable, Close must return.
func execConc(c *corr.Ctx, d concDesc) corr.Case {
	dir := scratchDir(c)
	defer os.RemoveAll(dir)
	opt := NoKV.NewDefaultOptions()
	opt.WorkDir = dir
	opt.MemTableSize = 16 << 20
	opt.ValueThreshold = 1 << 20
	opt.MaxBatchSize = 16 << 20
	opt.WriteBatchMaxSize = 64 << 10
	opt.WriteBatchWait = time.Duration(d.WaitMs) * time.Millisecond
	opt.HotRingEnabled = false
	opt.WriteHotKeyLimit = 0
	opt.EnableWALWatchdog = false
	opt.ValueLogGCInterval = 0
	db := NoKV.Open(opt)
	var returned, acked int64
	ok := make([][]bool, d.Writers)
	val := func(w, i int) []byte {
		v := bytes.Repeat([]byte{byte('a' + w)}, d.ValueKiB<<10)
		copy(v, fmt.Sprintf("c%d.%d.", w, i))
		return v
	}
	var wg sync.WaitGroup
	for w := 0; w < d.Writers; w++ {
		w := w
		ok[w] = make([]bool, d.Ops)
		wg.Add(1)
		go func() {
			defer wg.Done()
			for i := 0; i < d.Ops; i++ {
				err := db.Set([]byte(fmt.Sprintf("conc-%d-%d", w, i)), val(w, i))
				ok[w][i] = err == nil
				if err == nil {
					atomic.AddInt64(&acked, 1)
				}
				atomic.AddInt64(&returned, 1)
			}
		}()
	}
	all := watchdogFor(10*time.Second, wg.Wait)
	nret := atomic.LoadInt64(&returned)
	readsOK := true
	closeOK := false
	if all {
		for w := 0; w < d.Writers; w++ {
			for i := 0; i < d.Ops; i++ {
				if !ok[w][i] {
					continue
				}
				e, err := db.Get([]byte(fmt.Sprintf("conc-%d-%d", w, i)))
				if err != nil || !bytes.Equal(e.Value, val(w, i)) {
					readsOK = false
				}
			}
		}
		closeOK = watchdogFor(30*time.Second, func() { _ = db.Close() })
	} else {
		c.Count("writes_hung")
		hungCases++
	}
	c.CountN("concurrent_writes_acked", int(atomic.LoadInt64(&acked)))
	return corr.Case{Coq: fmt.Sprintf("Wr %d %d %d %s %s", d.Writers, d.Ops, nret, corr.Bool(readsOK), corr.Bool(closeOK)),
		Nontrivial: true, Desc: closeDesc{Conc: &d}}
}

type maintDesc struct {
	Keys     int `json:"keys"`
	ValueKiB int `json:"value_kib"`
}

// watchdogFor is watchdog with its own time limit (a compaction of tens of MiB takes seconds).
func watchdogFor(limit time.Duration, f func()) bool {
	done := make(chan struct{})
	go func() {
		defer close(done)
		f()
	}()
	select {
	case <-done:
		return true
	case <-time.After(limit):
		return false
	}
}

// execMaint: write Keys distinct keys with ValueKiB-KiB inline values, rotate, flush, move L0 to the
// ingest buffer of L6, drain it into L6 (the merge is split into ceil(total/8MiB) output tables, built by
// concurrent builders), read everything back, Close. Every step runs under a watchdog.
func execMaint(c *corr.Ctx, d maintDesc) corr.Case {
	dir := scratchDir(c)
	defer os.RemoveAll(dir)
	verifhook.SetFlag("compaction.pause", true) // only the compactions asked for below run
	defer verifhook.SetFlag("compaction.pause", false)
	opt := NoKV.NewDefaultOptions()
	opt.WorkDir = dir
	opt.MemTableSize = 64 << 20
	opt.SSTableMaxSz = 8 << 20
	opt.ValueThreshold = 1 << 20
	opt.MaxBatchSize = 16 << 20
	opt.HotRingEnabled = false
	opt.WriteHotKeyLimit = 0
	opt.EnableWALWatchdog = false
	opt.ValueLogGCInterval = 0
	opt.NumCompactors = 1
	db := NoKV.Open(opt)
	val := func(i int) []byte {
		v := bytes.Repeat([]byte{byte('a' + i%26)}, d.ValueKiB<<10)
		copy(v, fmt.Sprintf("m%04d.", i))
		return v
	}
	for i := 0; i < d.Keys; i++ {
		if err := db.Set([]byte(fmt.Sprintf("maint-%04d", i)), val(i)); err != nil {
			panic(err)
		}
	}
	ls := db.VerifLSM()
	flushOK := watchdogFor(60*time.Second, func() {
		ls.Rotate()
		_ = ls.VerifWaitFlushed(0, 50*time.Second)
	})
	var comps []string
	allOK := flushOK
	step := func(level, mode, base int) {
		if !allOK {
			return
		}
		ok := watchdogFor(45*time.Second, func() { _ = ls.VerifCompact(level, mode, base) })
		comps = append(comps, corr.Bool(ok))
		allOK = allOK && ok
	}
	step(0, 0, 6)                        // L0 -> ingest buffer of L6
	step(6, int(compact.IngestDrain), 0) // ingest buffer -> L6: many output tables
	tables := 0
	readsOK := true
	if allOK {
		lay := ls.VerifLayout(false)
		if len(lay.Levels) > 6 {
			tables = len(lay.Levels[6].Main)
		}
		for i := 0; i < d.Keys; i++ {
			e, err := db.Get([]byte(fmt.Sprintf("maint-%04d", i)))
			if err != nil || !bytes.Equal(e.Value, val(i)) {
				readsOK = false
			}
		}
	}
	closeOK := false
	if allOK {
		closeOK = watchdogFor(60*time.Second, func() { _ = db.Close() })
	} else {
		c.Count("maintenance_hung")
		hungCases++
	}
	c.CountN("compaction_output_tables", tables)
	return corr.Case{Coq: fmt.Sprintf("Mt %d %s %s %s %s", tables, corr.Bool(flushOK), corr.List(comps), corr.Bool(readsOK), corr.Bool(closeOK)),
		Nontrivial: tables > 3, Desc: closeDesc{Maint: &d}}
}

var closePoints = map[string]bool{
	"h.call": true, "sendToWriteCh": true, "sendToWriteCh.blocked": true,
	"h.throttle": true, "h.close": true, "commitQueue.close": true,
}

func execClose(c *corr.Ctx, d closeDesc) (corr.Case, error) {
	dir := scratchDir(c)
	defer os.RemoveAll(dir)
	db := openLinzDB(dir)
	defer db.Close()
	s := sched.New()
	nw := len(d.Writers)
	returned := make([]int64, nw)
	results := make([][]string, nw)
	s.SetEnabled(func(id int, point string) bool {
		switch point {
		case "sendToWriteCh.blocked":
			return !db.VerifWritesBlocked() || db.VerifCommitQueueClosed() || db.IsClosed()
		case "h.throttle":
			return !db.IsClosed()
		}
		return true
	})
	valc := 0
	for w := 0; w < nw; w++ {
		w := w
		ops := d.Writers[w]
		vals := make([][]byte, len(ops))
		for i, o := range ops {
			valc++
			if o.Big {
				vals[i] = make([]byte, 900)
			} else {
				vals[i] = []byte(fmt.Sprintf("v%d", valc))
			}
		}
		s.Spawn(3+w, func() {
			for i := range ops {
				verifhook.Yield("h.call")
				err := db.Set([]byte(fmt.Sprintf("w%d", w)), vals[i])
				results[w] = append(results[w], corr.Bool(err == nil))
				atomic.AddInt64(&returned[w], 1)
			}
		})
	}
	if d.Toggles > 0 {
		s.Spawn(1, func() {
			for i := 0; i < d.Toggles; i++ {
				verifhook.Yield("h.throttle")
				db.VerifApplyThrottle(i%2 == 0)
			}
		})
	}
	if d.Close {
		s.Spawn(2, func() {
			verifhook.Yield("h.close")
			db.Close()
		})
	}
	var groups []string
	var grants []int
	var herr error
	settle := func(id int, st sched.Step) sched.Step {
		deadline := time.Now().Add(20 * time.Second)
		for st.Status == sched.Blocked {
			if time.Now().After(deadline) {
				herr = fmt.Errorf("thread %d stays blocked (a call or Close does not return)", id)
				return st
			}
			time.Sleep(50 * time.Microsecond)
			if s.Finished(id) {
				st.Status, st.Point = sched.Finished, ""
			} else if p := s.Point(id); p != "" {
				st.Status, st.Point = sched.Parked, p
			}
		}
		return st
	}
	grant := func(id int) {
		if herr != nil {
			return
		}
		from := s.Point(id)
		st := settle(id, s.Grant(id))
		for herr == nil && st.Ran && st.Status == sched.Parked && !closePoints[st.Point] {
			st = settle(id, s.Grant(id))
		}
		grants = append(grants, id)
		var picks []uint64
		t := uint64(id)
		if st.Ran {
			switch from {
			case "h.call":
				picks = []uint64{t, t}
			case "sendToWriteCh", "sendToWriteCh.blocked":
				if !(st.Status == sched.Parked && st.Point == "sendToWriteCh.blocked") {
					picks = []uint64{t, 0, 0, 0, 0, t}
				}
			case "h.throttle":
				picks = []uint64{1}
			case "commitQueue.close":
				picks = []uint64{2, 0, 0, 0, 0, 0, 2, 2}
			}
		}
		ret := make([]uint64, nw)
		for w := range ret {
			ret[w] = uint64(atomic.LoadInt64(&returned[w]))
		}
		groups = append(groups, fmt.Sprintf("Gr %d %s %s %s %s", id, corr.Bool(st.Ran), corr.ListN(picks), corr.ListN(ret), corr.Bool(db.IsClosed())))
	}
	for _, id := range d.Words {
		grant(id)
	}
	// after Close the throttle (compaction) no longer runs: thread 1 may stay parked
	allDone := func() bool {
		live := s.Live()
		return len(live) == 0 || (len(live) == 1 && live[0] == 1 && db.IsClosed())
	}
	for round := 0; round < 200 && !allDone() && herr == nil; round++ {
		for _, id := range s.Live() {
			grant(id)
		}
	}
	if !allDone() && herr == nil {
		herr = fmt.Errorf("threads did not finish: live=%v", s.Live())
	}
	s.Close(5 * time.Second)
	if herr != nil {
		return corr.Case{}, herr
	}
	var progs, res []string
	nerr := 0
	for w, ops := range d.Writers {
		var p []string
		for i, o := range ops {
			_ = i
			p = append(p, fmt.Sprintf("St %s \"00\" %s", hexs([]byte(fmt.Sprintf("w%d", w))), corr.Bool(o.Big)))
		}
		progs = append(progs, corr.List(p))
		res = append(res, corr.List(results[w]))
		for _, r := range results[w] {
			if r == "false" {
				nerr++
			}
		}
	}
	d.Grants = grants
	c.CountN("grants", len(grants))
	c.CountN("calls_failed", nerr)
	if db.IsClosed() {
		c.Count("closed")
	}
	coq := fmt.Sprintf("Cs %s %s %s", corr.List(progs), corr.List(groups), corr.List(res))
	return corr.Case{Coq: coq, Nontrivial: d.Close || d.Toggles > 0, Desc: d}, nil
}

var txnCtor = regexp.MustCompile(`\b(Cs|Cfg|FP|V|B|Bh|G|S|D|C|X|Xh|Cl|Clh|Ro|Roh|Fw|Du|Vl|Nf)\b`)

// execRejected runs a transactional scenario with the txn family's executor (every call under the
// watchdog) and turns the term into a TxnCase of Corr/RunClose.v.
func execRejected(c *corr.Ctx, d txnDesc) corr.Case {
	cs := execTxn(c, d)
	cs.Coq = txnCtor.ReplaceAllString(cs.Coq, "T$1")
	cs.Desc = closeDesc{Txn: &d}
	cs.Nontrivial = true
	return cs
}

// genRejected: a commit that gets its timestamp and is then refused by the write path (too large
// for one request; commit queue closed), followed by further transactions that must all return.
func genRejected(r *rand.Rand) txnDesc {
	var d txnDesc
	op := func(k string, id, key int, v string) txnOp {
		return txnOp{Kind: k, ID: id, Update: true, Key: key, Val: v}
	}
	follow := func(id int) {
		d.Ops = append(d.Ops, op("begin", id, 0, ""))
		if !d.closedNow() {
			d.Ops = append(d.Ops, op("get", id, r.Intn(2), ""))
		}
		d.Ops = append(d.Ops, op("set", id, 1, fmt.Sprintf("w%d", id)))
		kind := "commit"
		if r.Intn(3) == 0 {
			kind = "commitwith"
		}
		d.Ops = append(d.Ops, txnOp{Kind: kind, ID: id})
	}
	d.Cfg = txnCfg{Detect: r.Intn(2) == 0, MaxCount: 64, MaxSize: 1 << 20, VThr: 1024}
	if r.Intn(2) == 0 { // a seed commit
		d.Ops = append(d.Ops, op("begin", 0, 0, ""), op("set", 0, 0, "s0"), op("commit", 0, 0, ""))
	}
	if r.Intn(2) == 0 {
		// too large for one request: passes Txn.checkSize (user keys), fails sendToWriteCh (internal keys)
		d.Cfg.MaxSize = 90
		d.Ops = append(d.Ops, op("begin", 0, 0, ""))
		for i, k := range []int{0, 1, 2} {
			d.Ops = append(d.Ops, op("set", 0, k, fmt.Sprintf("v%d", i)+strings.Repeat("z", 18)))
		}
		d.Ops = append(d.Ops, txnOp{Kind: "commit", ID: 0})
	} else {
		// the commit queue is closed between the writes and the commit
		d.Ops = append(d.Ops, op("begin", 0, 0, ""), op("set", 0, 0, "v0"), txnOp{Kind: "close"}, txnOp{Kind: "commit", ID: 0})
	}
	for id, m := 1, 1+r.Intn(3); id <= m; id++ {
		follow(id)
	}
	d.Ops = append(d.Ops, txnOp{Kind: "begin", ID: 5}, txnOp{Kind: "discard", ID: 5})
	if d.closedNow() {
		d.Ops = append(d.Ops, txnOp{Kind: "reopen"})
		follow(6)
	}
	for k := range txnKeys {
		d.Ops = append(d.Ops, txnOp{Kind: "dump", Key: k})
	}
	return d
}

func (d *txnDesc) closedNow() bool {
	closed := false
	for _, o := range d.Ops {
		switch o.Kind {
		case "close":
			closed = true
		case "reopen":
			closed = false
		}
	}
	return closed
}

func runClose(c *corr.Ctx) error {
	c.Meta("run_module", "RunClose")
	c.Meta("rule", "exhaustive: every interleaving of one writer (1 Set = 2 grants), Close (2 grants) and the throttle (2 toggles) = 90 "+
		"schedules, each followed by a round-robin drain; random: 2-3 writers x 1-3 Sets (some rejected by the size check), 0-4 throttle "+
		"toggles, Close in 3 of 4 cases, random block schedules + drain. After every grant the number of returned calls per writer "+
		"and whether Close returned are compared with the model; at the end the ok/error result of every call. Plus transactional "+
		"scenarios: a commit that got its timestamp is rejected (too large for one request / commit queue closed), then further "+
		"NewTransaction + Get + Set + Commit (and a reopen) - every call under a watchdog of 4 s, compared with Model/TxnOracle.v, "+
		"a call that does not return is the violation. Plus, each in a child process: write (plain Set at the sentinel version / "+
		"SetVersionedEntry at 2^62 / at 1000 / a transactional commit), Close, reopen, NewTransaction + Set + Commit, read back, Close; "+
		"observation = last stage reached and exit status, model = commit_after_open on the stored maximal version (known finding C37-F2 "+
		"for the sentinel). Plus one maintenance scenario: 48 keys x 900 KiB inline values, rotate, flush, "+
		"L0 -> L6 ingest, ingest drain (5-6 output tables of <= 8 MiB built concurrently), read back, Close, each under a watchdog. non-trivial = Close or "+
		"throttle present; distinct by Gallina term")
	emit := func(d closeDesc) error {
		cs, err := execClose(c, d)
		if err != nil {
			return err
		}
		c.Emit(cs)
		return nil
	}
	if c.Replay != "" {
		cases, err := c.ReplayCases()
		if err != nil {
			return err
		}
		for _, cs := range cases {
			b, _ := json.Marshal(cs.Desc)
			var d closeDesc
			if err := json.Unmarshal(b, &d); err != nil {
				return err
			}
			if d.Txn != nil {
				c.Emit(execRejected(c, *d.Txn))
				continue
			}
			if d.Maint != nil {
				c.Emit(execMaint(c, *d.Maint))
				continue
			}
			if d.Conc != nil {
				c.Emit(execConc(c, *d.Conc))
				continue
			}
			d.Words = d.Grants
			if err := emit(d); err != nil {
				return err
			}
		}
		return nil
	}
	// write, Close, reopen, transactional commit, read back - in a child process (C37-F2)
	for _, v := range reopenVariants {
		c.Emit(execReopen(c, v.name, v.maxver))
	}
	// concurrent writers whose batches hit the commit worker's byte budget; then Close
	for i, m := 0, c.Scale(6, 60); i < m && hungCases < 2; i++ {
		c.Emit(execConc(c, concDesc{Writers: 4 + c.Rng.Intn(5), Ops: 1 + c.Rng.Intn(3), ValueKiB: 20 + c.Rng.Intn(40), WaitMs: []int{0, 5, 50}[c.Rng.Intn(3)]}))
	}
	// a compaction with more than 3 output tables finishes, and Close finishes afterwards
	c.Emit(execMaint(c, maintDesc{Keys: 48, ValueKiB: 900}))
	if c.Tier == "thorough" {
		c.Emit(execMaint(c, maintDesc{Keys: 70, ValueKiB: 700}))
	}
	// transactional calls around a rejected commit: every later call must return
	for i, m := 0, c.Scale(30, 600); i < m && hungCases < 4; i++ {
		c.Count("rejected_commit_scenarios")
		c.Emit(execRejected(c, genRejected(c.Rng)))
	}
	var ferr error
	// thread ids in words: 1 throttle, 2 closer, 3 writer
	ids := []int{3, 2, 1}
	interleavings([]int{2, 2, 2}, func(w []int) {
		if ferr != nil {
			return
		}
		words := make([]int, len(w))
		for i, x := range w {
			words[i] = ids[x]
		}
		ferr = emit(closeDesc{Writers: [][]closeOp{{{}}}, Toggles: 2, Close: true, Words: words})
	})
	if ferr != nil {
		return ferr
	}
	c.Meta("exhaustive", true)
	c.Meta("exhaustive_scope", "all 90 interleavings of writer(1 Set) x Close x throttle(on, off) at the model's yield points")
	n := c.Scale(100, 3000)
	for i := 0; i < n; i++ {
		r := c.Rng
		d := closeDesc{Close: r.Intn(4) != 0, Toggles: 2 * r.Intn(3)}
		for w, nw := 0, 2+r.Intn(2); w < nw; w++ {
			var ops []closeOp
			for j, m := 0, 1+r.Intn(3); j < m; j++ {
				ops = append(ops, closeOp{Big: r.Intn(8) == 0})
			}
			d.Writers = append(d.Writers, ops)
		}
		k := 3 + len(d.Writers)
		for _, x := range sched.RandomBlocks(r, k-1, 6+r.Intn(14), 3) {
			d.Words = append(d.Words, x+1) // ids 1..k-1
		}
		if err := emit(d); err != nil {
			return err
		}
	}
	return nil
}

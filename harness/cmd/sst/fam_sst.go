package main

import (
	"bytes"
	"encoding/hex"
	"encoding/json"
	"fmt"
	"math"
	"math/rand"
	"os"
	"sort"
	"strings"

	"github.com/feichai0017/NoKV/kv"
	"github.com/feichai0017/NoKV/lsm"
	"github.com/feichai0017/NoKV/utils"
	"verifharness/internal/corr"
)

// C35: build a real SSTable from a sorted entry list, observe block index,
// bloom filter, iteration, Search and Seek before and after reopening.

type sstEnt struct {
	Key  string `json:"key"` // hex of the internal key
	Val  string `json:"val"` // hex
	Meta byte   `json:"meta"`
	Exp  uint64 `json:"exp"`
	// Stale: added through AddStaleEntryWithLen (as a compaction does for deleted / expired entries)
	Stale bool `json:"stale,omitempty"`
}

// sstTarget: key = KeyWithTs(base, Ver) where base is the base key of entry
// Idx (Idx >= 0) or Base (hex); Search(key, &maxvs), Seek(key)+Next forward and reverse.
type sstTarget struct {
	Idx   int    `json:"idx"`
	Base  string `json:"base,omitempty"`
	Ver   uint64 `json:"ver"`
	MaxVs uint64 `json:"maxvs"`
}

func (t sstTarget) key(d *sstDesc) []byte {
	if t.Idx >= 0 {
		return kv.KeyWithTs(kv.ParseKey(unhex(d.Entries[t.Idx].Key)), t.Ver)
	}
	return kv.KeyWithTs(unhex(t.Base), t.Ver)
}

func (t sstTarget) term() string {
	if t.Idx >= 0 {
		return fmt.Sprintf("T (TB %d %d) %d", t.Idx, t.Ver, t.MaxVs)
	}
	return fmt.Sprintf("T (TX %s %d) %d", corr.Hex(unhex(t.Base)), t.Ver, t.MaxVs)
}

// sstSeq: Seek every listed target (index into Targets) in turn on ONE iterator.
type sstSeq struct {
	Asc     bool  `json:"asc"`
	Targets []int `json:"targets"`
}

const sstSeqLimit = 2

type sstDesc struct {
	BlockSize int         `json:"block_size"`
	BloomFP   float64     `json:"bloom_fp"`
	Entries   []sstEnt    `json:"entries"`
	Targets   []sstTarget `json:"targets"`
	Seqs      []sstSeq    `json:"seqs,omitempty"`
}

const sstSeekLimit = 3

func unhex(s string) []byte {
	b, err := hex.DecodeString(s)
	if err != nil {
		panic(err)
	}
	return b
}

func entTerm(e lsm.VerifEntry) string {
	return fmt.Sprintf("E %s %d %d %s", corr.Hex(e.Key), e.Meta, e.ExpiresAt, corr.Hex(e.Value))
}

func entsTerm(es []lsm.VerifEntry) string {
	s := make([]string, len(es))
	for i, e := range es {
		s[i] = entTerm(e)
	}
	return corr.List(s)
}

func entEq(a, b lsm.VerifEntry) bool {
	return bytes.Equal(a.Key, b.Key) && bytes.Equal(a.Value, b.Value) && a.Meta == b.Meta && a.ExpiresAt == b.ExpiresAt
}

// oent prints an observed entry as an index into the built entries when it is one of them.
func oent(idx map[string]int, es []lsm.VerifEntry, e lsm.VerifEntry) string {
	if i, ok := idx[string(e.Key)]; ok && entEq(es[i], e) {
		return fmt.Sprintf("I %d", i)
	}
	return "X (" + entTerm(e) + ")"
}

// olist prints an observed iteration compactly relative to the built entries.
func olist(es, got []lsm.VerifEntry) string {
	if len(es) == len(got) {
		same, rev := true, true
		for i := range es {
			if !entEq(es[i], got[i]) {
				same = false
			}
			if !entEq(es[len(es)-1-i], got[i]) {
				rev = false
			}
		}
		if same {
			return "Same"
		}
		if rev {
			return "Rev"
		}
	}
	return "(Lst " + entsTerm(got) + ")"
}

type sstStats struct {
	blocks     int
	gapTargets int
	hits       int
	misses     int
	bloomLen   int
	seqSeeks   int
}

// observe prints one `obs` term for an open table.
func observe(st *lsm.VerifSST, es []lsm.VerifEntry, d *sstDesc, stats *sstStats) (string, error) {
	blocks, err := st.Blocks()
	if err != nil {
		return "", err
	}
	lay := make([]string, len(blocks))
	starts := map[int]bool{} // entry indices that start a block other than the first
	pos := 0
	for i, b := range blocks {
		if pos < len(es) && bytes.Equal(es[pos].Key, b.BaseKey) {
			lay[i] = fmt.Sprintf("L %d %d %d", pos, b.Entries, b.Len)
		} else {
			lay[i] = fmt.Sprintf("LX %s %d %d", corr.Hex(b.BaseKey), b.Entries, b.Len)
		}
		if i > 0 {
			starts[pos] = true
		}
		pos += b.Entries
	}
	stats.blocks = len(blocks)
	bloom := st.Bloom()
	stats.bloomLen = len(bloom)
	keyCount, maxVer, _, _ := st.Meta()
	fwd := st.Iterate(true)
	rev := st.Iterate(false)
	var qs []string
	idx := map[string]int{}
	for i, e := range es {
		idx[string(e.Key)] = i
	}
	ents := func(out []lsm.VerifEntry) string {
		os := make([]string, len(out))
		for i, e := range out {
			os[i] = oent(idx, es, e)
		}
		return corr.List(os)
	}
	for _, q := range d.Targets {
		k := q.key(d)
		e, found, _, err := st.Search(k, q.MaxVs)
		if err != nil {
			return "", fmt.Errorf("Search(%x): %w", k, err)
		}
		if found {
			stats.hits++
		} else {
			stats.misses++
		}
		fw, err := st.SeekIterate(k, true, sstSeekLimit)
		if err != nil {
			return "", fmt.Errorf("Seek(%x): %w", k, err)
		}
		rv, err := st.SeekIterate(k, false, sstSeekLimit)
		if err != nil {
			return "", fmt.Errorf("Seek(%x): %w", k, err)
		}
		// a target strictly between the last key of a block and the next base key
		i := sort.Search(len(es), func(i int) bool { return utils.CompareKeys(es[i].Key, k) >= 0 })
		if i < len(es) && starts[i] && !bytes.Equal(es[i].Key, k) {
			stats.gapTargets++
		}
		qs = append(qs, fmt.Sprintf("R %s %s %s", corr.OptionStr("("+oent(idx, es, e)+")", found), ents(fw), ents(rv)))
	}
	var sqs []string
	for _, sq := range d.Seqs {
		var keys [][]byte
		idxs := make([]string, len(sq.Targets))
		for i, ti := range sq.Targets {
			keys = append(keys, d.Targets[ti].key(d))
			idxs[i] = fmt.Sprint(ti)
		}
		res, err := st.SeekSeq(keys, sq.Asc, sstSeqLimit)
		if err != nil {
			return "", fmt.Errorf("SeekSeq: %w", err)
		}
		rs := make([]string, len(res))
		for i, r := range res {
			rs[i] = ents(r)
		}
		sqs = append(sqs, fmt.Sprintf("SQ %s %s %s", corr.Bool(sq.Asc), corr.List(idxs), corr.List(rs)))
		stats.seqSeeks += len(keys)
	}
	return fmt.Sprintf("(OT %s %s %d %d %d %s %s %s %s)", corr.List(lay), corr.Hex(bloom), maxVer, keyCount, st.StaleDataSize(),
		olist(es, fwd), olist(es, rev), corr.List(qs), corr.List(sqs)), nil
}

var sstFid uint64

func sstCase(c *corr.Ctx, d *sstDesc) (corr.Case, error) {
	dir, err := os.MkdirTemp("", "verif-sst")
	if err != nil {
		return corr.Case{}, err
	}
	defer os.RemoveAll(dir)
	es := make([]lsm.VerifEntry, len(d.Entries))
	for i, e := range d.Entries {
		es[i] = lsm.VerifEntry{Key: unhex(e.Key), Value: unhex(e.Val), Meta: e.Meta, ExpiresAt: e.Exp}
	}
	sstFid++
	fid := sstFid
	env := lsm.VerifNewTableEnv(dir, d.BlockSize, d.BloomFP)
	stale := make([]bool, len(es))
	var staleIdx []uint64
	for i, e := range d.Entries {
		if e.Stale {
			stale[i] = true
			staleIdx = append(staleIdx, uint64(i))
		}
	}
	st, err := env.VerifBuildTableStale(fid, es, stale)
	if err != nil {
		return corr.Case{}, err
	}
	var s1, s2 sstStats
	built, err := observe(st, es, d, &s1)
	if err != nil {
		return corr.Case{}, err
	}
	if err := st.CloseKeep(); err != nil {
		return corr.Case{}, err
	}
	env.Close()
	// reopen from the file with fresh caches
	env2 := lsm.VerifNewTableEnv(dir, d.BlockSize, d.BloomFP)
	st2, err := env2.VerifOpenTable(fid)
	if err != nil {
		return corr.Case{}, fmt.Errorf("reopen: %w", err)
	}
	reopened, err := observe(st2, es, d, &s2)
	if err != nil {
		return corr.Case{}, err
	}
	_ = st2.CloseDelete()
	env2.Close()

	withBloom := d.BloomFP > 0
	bpk, k := 0, 0
	if withBloom {
		bpk = lsm.VerifBloomBitsPerKey(len(es), d.BloomFP)
		k = int(utils.BloomKForBitsPerKey(bpk))
		if bpk < 0 {
			return corr.Case{}, fmt.Errorf("negative bits per key")
		}
	}
	tg := make([]string, len(d.Targets))
	for i, t := range d.Targets {
		tg[i] = t.term()
	}
	if reopened == built {
		reopened = "AsBuilt"
		c.Count("reopened_identical")
	} else {
		reopened = "(Reopened " + reopened + ")"
		c.Count("reopened_differs")
	}
	term := fmt.Sprintf("Ct %d %s %d %d %s %s %s %s %s", d.BlockSize, corr.Bool(withBloom), bpk, k, entsTerm(es), corr.ListN(staleIdx), corr.List(tg), built, reopened)
	c.CountN("stale_adds", len(staleIdx))
	if len(staleIdx) > 0 && withBloom {
		c.Count("cases_with_stale_adds_and_bloom")
	}
	// a stale entry whose user key has no other version in the table
	nver := map[string]int{}
	for _, e := range es {
		nver[string(kv.ParseKey(e.Key))]++
	}
	for i, e := range es {
		if stale[i] && nver[string(kv.ParseKey(e.Key))] == 1 {
			c.Count("stale_only_version_of_its_key")
		}
	}
	c.Count(fmt.Sprintf("blocks_%s", bucket(s1.blocks)))
	c.Count(fmt.Sprintf("block_size_%d", d.BlockSize))
	c.CountN("search_hits", s1.hits)
	c.CountN("search_misses", s1.misses)
	c.CountN("seek_targets_between_blocks", s1.gapTargets)
	c.CountN("entries", len(es))
	c.CountN("repeated_seeks_on_one_iterator", s1.seqSeeks)
	if withBloom {
		c.Count("with_bloom")
	}
	return corr.Case{Coq: term, Nontrivial: s1.blocks >= 2 && s1.gapTargets > 0, Desc: d}, nil
}

func bucket(n int) string {
	switch {
	case n <= 1:
		return "1"
	case n <= 4:
		return "2-4"
	case n <= 16:
		return "5-16"
	}
	return "17+"
}

// ---- generator ----

var sstVersions = []uint64{0, 1, 2, 3, 4, 5, 8, 9, 1 << 32, math.MaxUint64 - 1, math.MaxUint64}
var sstAlphabet = []byte{'a', 'b', 0x00, 0xff, 'a', 'b'}

func genUserKey(r *rand.Rand, prefix []byte) []byte {
	n := 1 + r.Intn(4)
	k := append([]byte(nil), prefix...)
	for i := 0; i < n; i++ {
		k = append(k, sstAlphabet[r.Intn(len(sstAlphabet))])
	}
	return k
}

func genSstDesc(r *rand.Rand, maxEntries, maxTargets int) *sstDesc {
	d := &sstDesc{}
	d.BlockSize = corr.Pick(r, []int{64, 64, 256, 256, 4096, 100, 150, 40})
	d.BloomFP = corr.Pick(r, []float64{0, 0.01, 0.01, 0.3, 0.0001})
	n := 1 + r.Intn(maxEntries)
	if r.Intn(10) == 0 {
		n = 1
	}
	useCF := r.Intn(2) == 0
	var prefix []byte
	if r.Intn(3) == 0 {
		prefix = bytes.Repeat([]byte{'p'}, 1+r.Intn(30))
	}
	mkKey := func(uk []byte, ver uint64) []byte {
		if useCF {
			return kv.InternalKey(kv.ColumnFamily(r.Intn(3)), uk, ver)
		}
		return kv.KeyWithTs(uk, ver)
	}
	seen := map[string]bool{}
	var keys [][]byte
	var ukeys [][]byte
	for len(keys) < n {
		var uk []byte
		if len(ukeys) > 0 && r.Intn(2) == 0 {
			uk = ukeys[r.Intn(len(ukeys))] // another version of an existing user key
		} else {
			uk = genUserKey(r, prefix)
			ukeys = append(ukeys, uk)
		}
		k := mkKey(uk, corr.Pick(r, sstVersions))
		if seen[string(k)] {
			if r.Intn(4) == 0 {
				n-- // alphabet exhausted for this shape
			}
			continue
		}
		seen[string(k)] = true
		keys = append(keys, k)
	}
	sort.Slice(keys, func(i, j int) bool { return utils.CompareKeys(keys[i], keys[j]) < 0 })
	valLens := []int{0, 1, 5, 20, 20, 40}
	staleMode := r.Intn(2) == 0 // a compaction-built table: some entries go through the stale path
	for _, k := range keys {
		vl := corr.Pick(r, valLens)
		switch r.Intn(40) {
		case 0, 1:
			vl = 300 // larger than the small block sizes
		case 2:
			if d.BlockSize == 4096 {
				vl = 4200 // larger than a 4096-byte block
			}
		}
		v := make([]byte, vl)
		r.Read(v)
		d.Entries = append(d.Entries, sstEnt{Key: hex.EncodeToString(k), Val: hex.EncodeToString(v),
			Meta: corr.Pick(r, []byte{0, 0, 1, 2, 0x40, 0x80, 0xff}),
			Exp:  corr.Pick(r, []uint64{0, 0, 0, 1, 127, 128, 1 << 40, math.MaxUint64}),
			Stale: staleMode && r.Intn(3) == 0})
	}
	// targets: every stored key and its neighbours
	tseen := map[string]bool{}
	var targets []sstTarget
	addT := func(t sstTarget) {
		k := t.key(d)
		if len(k) > 8 && !tseen[string(k)] {
			tseen[string(k)] = true
			targets = append(targets, t)
		}
	}
	for i, k := range keys {
		base, ver := kv.ParseKey(k), kv.ParseTs(k)
		addT(sstTarget{Idx: i, Ver: ver})
		if ver > 0 {
			addT(sstTarget{Idx: i, Ver: ver - 1})
		}
		if ver < math.MaxUint64 {
			addT(sstTarget{Idx: i, Ver: ver + 1})
		}
		addT(sstTarget{Idx: i, Ver: math.MaxUint64})
		addT(sstTarget{Idx: i, Ver: 0})
		addT(sstTarget{Idx: -1, Base: hex.EncodeToString(append(append([]byte(nil), base...), 0)), Ver: corr.Pick(r, sstVersions)})
		if len(base) > 1 {
			addT(sstTarget{Idx: -1, Base: hex.EncodeToString(base[:len(base)-1]), Ver: corr.Pick(r, sstVersions)})
		}
		if r.Intn(4) == 0 {
			addT(sstTarget{Idx: -1, Base: hex.EncodeToString(genUserKey(r, prefix)), Ver: corr.Pick(r, sstVersions)})
		}
	}
	addT(sstTarget{Idx: -1, Base: "00", Ver: math.MaxUint64})
	addT(sstTarget{Idx: -1, Base: "ffffffffffffffff", Ver: 0})
	if len(targets) > maxTargets {
		r.Shuffle(len(targets), func(i, j int) { targets[i], targets[j] = targets[j], targets[i] })
		targets = targets[:maxTargets]
	}
	for _, t := range targets {
		switch r.Intn(6) {
		case 0:
			t.MaxVs = t.Ver
		case 1:
			t.MaxVs = corr.Pick(r, sstVersions)
		}
		d.Targets = append(d.Targets, t)
	}
	// repeated Seeks on one iterator, jumping between blocks, both directions
	for _, asc := range []bool{true, false} {
		sq := sstSeq{Asc: asc}
		for i := 0; i < 8 && len(d.Targets) > 0; i++ {
			sq.Targets = append(sq.Targets, r.Intn(len(d.Targets)))
		}
		d.Seqs = append(d.Seqs, sq)
	}
	return d
}

func runSst(c *corr.Ctx) error {
	c.Meta("run_module", "RunSst")
	c.Meta("exhaustive", false)
	c.Meta("rule", "build programs mixing AddKey and AddStaleEntryWithLen (half of the cases: each entry stale with probability 1/3; plus fixed cases where a stale entry is the only version of its key, with and without bloom; StaleDataSize compared) over random sorted entry sets (1..24 entries, every 40th case up to 120; user keys over {a,b,00,ff} with optional long shared prefix, with and without CF marker; 11 versions incl. 0 and 2^64-1; values 0..40 bytes, sometimes 300 or 4200; meta/expiry at varint boundaries), block sizes {40,64,100,150,256,4096}, bloom fp {0,0.0001,0.01,0.3}; targets = every stored key, version +-1, max, 0, key++00, key minus last byte, random; Search(maxVs 0 / own version / random), Seek+3*Next both directions, 8..12 repeated Seeks on ONE iterator per direction jumping between blocks (incl. two key families aaaa-/bbbb- sharing no prefix), full iteration both directions, block index, bloom bytes; all repeated after reopening the file. non-trivial = >= 2 blocks and at least one forward seek target strictly between the last key of a block and the next base key")
	if c.Replay != "" {
		cases, err := c.ReplayCases()
		if err != nil {
			return err
		}
		for _, rc := range cases {
			b, _ := json.Marshal(rc.Desc)
			var d sstDesc
			if err := json.Unmarshal(b, &d); err != nil {
				return err
			}
			cs, err := sstCase(c, &d)
			if err != nil {
				return err
			}
			c.Emit(cs)
		}
		return nil
	}
	// the F5 shape first: one entry per block, two versions per key
	{
		d := &sstDesc{BlockSize: 64, BloomFP: 0.01}
		var keys [][]byte
		for i := 0; i < 4; i++ {
			for _, v := range []uint64{9, 3} {
				k := kv.KeyWithTs([]byte{byte('a' + i)}, v)
				keys = append(keys, k)
				d.Entries = append(d.Entries, sstEnt{Key: hex.EncodeToString(k), Val: strings.Repeat("61", 20)})
			}
		}
		for i := 0; i < 4; i++ {
			for _, v := range []uint64{10, 9, 5, 3, 2} {
				d.Targets = append(d.Targets, sstTarget{Idx: 2 * i, Ver: v})
			}
		}
		cs, err := sstCase(c, d)
		if err != nil {
			return err
		}
		c.Emit(cs)
	}
	// stale adds: a deleted/expired entry that is the only version of its user key, between
	// live keys, with and without bloom filter, one block and one entry per block
	for _, fp := range []float64{0.01, 0} {
		for _, bs := range []int{4096, 64} {
			d := &sstDesc{BlockSize: bs, BloomFP: fp}
			for i, uk := range []string{"k1", "k2", "k3", "k4"} {
				for _, v := range []uint64{9, 4} {
					if (uk == "k2" || uk == "k4") && v == 4 {
						continue // single-version keys
					}
					e := sstEnt{Key: hex.EncodeToString(kv.KeyWithTs([]byte(uk), v)), Val: strings.Repeat("63", 20)}
					if uk == "k2" || (uk == "k3" && v == 4) || (uk == "k4" && bs == 64) {
						e.Stale, e.Meta, e.Exp = true, 1, 1
					}
					d.Entries = append(d.Entries, e)
				}
				_ = i
			}
			for i := range d.Entries {
				for _, v := range []uint64{10, 9, 5, 4, 3} {
					d.Targets = append(d.Targets, sstTarget{Idx: i, Ver: v})
				}
			}
			cs, err := sstCase(c, d)
			if err != nil {
				return err
			}
			c.Emit(cs)
		}
	}
	// two key families whose base keys share no prefix, many blocks, one iterator
	// re-positioned from family to family (stale block-iterator state must not leak)
	for _, bs := range []int{128, 64} {
		d := &sstDesc{BlockSize: bs, BloomFP: 0.01}
		for _, fam := range []string{"aaaa-", "bbbb-"} {
			for i := 0; i < 24; i++ {
				k := kv.KeyWithTs([]byte(fmt.Sprintf("%s%04d", fam, i*5)), 7)
				d.Entries = append(d.Entries, sstEnt{Key: hex.EncodeToString(k), Val: strings.Repeat("62", 20)})
			}
		}
		for i := 0; i < 48; i += 3 {
			d.Targets = append(d.Targets, sstTarget{Idx: i, Ver: 7}, sstTarget{Idx: i, Ver: 9}, sstTarget{Idx: i, Ver: 2})
		}
		nt := len(d.Targets)
		for _, asc := range []bool{true, false} {
			sq := sstSeq{Asc: asc}
			for i := 0; i < 12; i++ {
				// alternate between the a-family (first half of the targets) and the b-family
				sq.Targets = append(sq.Targets, c.Rng.Intn(nt/2)+(i%2)*(nt/2))
			}
			d.Seqs = append(d.Seqs, sq)
		}
		cs, err := sstCase(c, d)
		if err != nil {
			return err
		}
		c.Emit(cs)
	}
	n := c.Scale(110, 2500)
	for i := 0; i < n; i++ {
		maxEntries, maxTargets := 24, 30
		if i%40 == 39 {
			maxEntries, maxTargets = 120, 100 // a few large tables
		}
		d := genSstDesc(c.Rng, maxEntries, maxTargets)
		cs, err := sstCase(c, d)
		if err != nil {
			b, _ := json.Marshal(d)
			return fmt.Errorf("case %d: %w (%s)", i, err, b)
		}
		c.Emit(cs)
	}
	return nil
}

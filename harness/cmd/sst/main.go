// Harness binary for the SSTable family (C35).
package main

import "verifharness/internal/corr"

func main() { corr.Main(map[string]corr.Family{"sst": runSst}) }

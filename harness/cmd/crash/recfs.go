package main

import (
	"os"

	"github.com/feichai0017/NoKV/vfs"
)

// recFS is a vfs.FS that performs every operation on the real file system and
// reports every state-changing operation to the run (after it completed): each
// report is a crash point.
type recFS struct {
	vfs.OSFS
	run *crashRun
}

type recFile struct {
	*os.File
	fs   *recFS
	name string
}

// OSFile lets file.OpenMmapFile map the descriptor (vfs.UnwrapOSFile).
func (f *recFile) OSFile() *os.File { return f.File }

func (f *recFile) Write(p []byte) (int, error) {
	n, err := f.File.Write(p)
	f.fs.run.fsOp(opWrite, f.name, "", p[:n])
	return n, err
}

func (f *recFile) WriteAt(p []byte, off int64) (int, error) {
	n, err := f.File.WriteAt(p, off)
	f.fs.run.fsOp(opWriteAt, f.name, "", nil)
	return n, err
}

func (f *recFile) Truncate(size int64) error {
	err := f.File.Truncate(size)
	f.fs.run.fsOp(opTruncate, f.name, "", nil)
	return err
}

func (f *recFile) Sync() error {
	err := f.File.Sync()
	f.fs.run.fsOp(opSync, f.name, "", nil)
	return err
}

func (fs *recFS) OpenHandle(name string) (vfs.File, error) {
	f, err := os.Open(name)
	if err != nil {
		return nil, err
	}
	return &recFile{File: f, fs: fs, name: name}, nil
}

func (fs *recFS) OpenFileHandle(name string, flag int, perm os.FileMode) (vfs.File, error) {
	_, statErr := os.Stat(name)
	existed := statErr == nil
	f, err := os.OpenFile(name, flag, perm)
	if err != nil {
		return nil, err
	}
	if (flag&os.O_CREATE != 0 && !existed) || (flag&os.O_TRUNC != 0) {
		fs.run.fsOp(opCreate, name, "", nil)
	}
	return &recFile{File: f, fs: fs, name: name}, nil
}

func (fs *recFS) MkdirAll(path string, perm os.FileMode) error {
	return os.MkdirAll(path, perm)
}

func (fs *recFS) RemoveAll(path string) error {
	err := os.RemoveAll(path)
	fs.run.fsOp(opRemove, path, "", nil)
	return err
}

func (fs *recFS) Remove(name string) error {
	err := os.Remove(name)
	if err == nil {
		fs.run.fsOp(opRemove, name, "", nil)
	}
	return err
}

func (fs *recFS) Rename(oldPath, newPath string) error {
	err := os.Rename(oldPath, newPath)
	if err == nil {
		fs.run.fsOp(opRename, oldPath, newPath, nil)
	}
	return err
}

func (fs *recFS) WriteFile(name string, data []byte, perm os.FileMode) error {
	err := os.WriteFile(name, data, perm)
	fs.run.fsOp(opWriteFile, name, "", data)
	return err
}

func (fs *recFS) Truncate(name string, size int64) error {
	err := os.Truncate(name, size)
	fs.run.fsOp(opTruncate, name, "", nil)
	return err
}

// Harness binary for the crash family (C09, C10, C11).
package main

import "verifharness/internal/corr"

func main() { corr.Main(map[string]corr.Family{"crash": runCrash}) }

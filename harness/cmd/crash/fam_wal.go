package main

import (
	"encoding/binary"
	"fmt"
	"os"
	"path/filepath"

	"github.com/feichai0017/NoKV/wal"
	"verifharness/internal/corr"
)

// runWalLevel is the wal.Manager-level sub-family of C09.  The DB opens its WAL with the default
// 64 MiB segment size and no option reaches wal.Config, so an acknowledged write that crosses the
// WAL's own segment rollover cannot be produced through the DB in a quick check.  Here a
// wal.Manager with the minimum segment size (64 KiB) is driven directly over the recording file
// system: AppendRecords (1-3 records, 16 B - 30 KiB) followed by Sync is an acknowledged write; every
// vfs operation is a crash point; the image is verified, reopened and replayed with the real code.
func runWalLevel(c *corr.Ctx, idx int) error {
	dir, err := os.MkdirTemp(tmpRoot(), "nokv-crashwal-")
	if err != nil {
		return err
	}
	defer os.RemoveAll(dir)
	r := &crashRun{dir: dir, cfg: &wlConfig{}, images: map[string]image{}, walStream: map[uint32][]byte{}, walNrec: map[uint32]int{},
		vlogNrec: map[[2]uint32]int{}, pendVC: map[uint32]bool{}, values: map[string]int{}, keyOf: map[string]int{}, lastWalW: -1}
	cfg := wal.Config{Dir: dir, SegmentSize: 64 << 10, FS: &recFS{run: r}}
	m, err := wal.Open(cfg)
	if err != nil {
		return err
	}
	r.mu.Lock()
	r.recording = true
	r.addPoint("start")
	r.mu.Unlock()
	sizes := []int{16, 16, 2000, 9000, 30000}
	var appended []uint64
	next := uint64(0)
	rollovers := 0
	for i := 0; i < 18; i++ {
		n := 1 + c.Rng.Intn(3)
		recs := make([]wal.Record, n)
		for j := range recs {
			next++
			p := make([]byte, corr.Pick(c.Rng, sizes))
			binary.BigEndian.PutUint64(p, next)
			recs[j] = wal.Record{Type: wal.RecordTypeEntry, Payload: p}
			appended = append(appended, next)
		}
		before := m.ActiveSegment()
		if _, err := m.AppendRecords(recs...); err != nil {
			return err
		}
		if m.ActiveSegment() != before {
			rollovers++
		}
		if c.Rng.Intn(5) != 0 {
			if err := m.Sync(); err != nil {
				return err
			}
			r.mu.Lock()
			r.acked = len(appended)
			r.addPoint("ack")
			r.mu.Unlock()
		}
	}
	r.mu.Lock()
	r.recording = false
	r.mu.Unlock()
	_ = m.Close()
	c.CountN("wal_level_rollovers_inside_append", rollovers)
	type res struct {
		opened bool
		ids    []uint64
	}
	seen := map[string]res{}
	emitted := map[string]bool{}
	for _, p := range r.points {
		o, ok := seen[p.img]
		if !ok {
			o = replayWalImage(r.images[p.img])
			seen[p.img] = o
			c.Count("wal_level_reopenings")
		}
		term := fmt.Sprintf("Wl %s %d %s %s", corr.ListN(appended), p.acked, corr.Bool(o.opened), corr.ListN(o.ids))
		key := fmt.Sprintf("%d/%s", p.acked, p.img)
		if emitted[key] {
			continue
		}
		emitted[key] = true
		c.Count("wal_level_crash_points")
		c.Emit(corr.Case{Coq: term, Nontrivial: p.why != "start", Desc: map[string]any{"workload": fmt.Sprintf("wal%d", idx),
			"crash_after": p.why, "acked_records": p.acked, "replayed_records": len(o.ids), "wal_level": true}})
	}
	return nil
}

func replayWalImage(img image) (out struct {
	opened bool
	ids    []uint64
}) {
	dir, err := os.MkdirTemp(tmpRoot(), "nokv-crashwalimg-")
	if err != nil {
		panic(err)
	}
	defer os.RemoveAll(dir)
	for n, b := range img {
		if err := os.WriteFile(filepath.Join(dir, n), b, 0o644); err != nil {
			panic(err)
		}
	}
	perr := safely(func() {
		if err := wal.VerifyDir(dir, nil); err != nil {
			return
		}
		m, err := wal.Open(wal.Config{Dir: dir, SegmentSize: 64 << 10})
		if err != nil {
			return
		}
		defer func() { _ = m.Close() }()
		err = m.Replay(func(_ wal.EntryInfo, payload []byte) error {
			if len(payload) >= 8 {
				out.ids = append(out.ids, binary.BigEndian.Uint64(payload))
			}
			return nil
		})
		out.opened = err == nil
	})
	if perr != "" {
		out.opened = false
	}
	return out
}

package main

import (
	"bytes"
	"crypto/sha1"
	"encoding/hex"
	"encoding/json"
	"errors"
	"fmt"
	"math"
	"os"
	"path/filepath"
	"sort"
	"strings"
	"sync"
	"time"

	NoKV "github.com/feichai0017/NoKV"
	"github.com/feichai0017/NoKV/kv"
	"github.com/feichai0017/NoKV/manifest"
	"github.com/feichai0017/NoKV/utils"
	"github.com/feichai0017/NoKV/utils/verifhook"
	"github.com/feichai0017/NoKV/wal"
	"verifharness/internal/corr"
)

const (
	opCreate = iota
	opWrite
	opWriteAt
	opTruncate
	opSync
	opRemove
	opRename
	opWriteFile
	opHook
)

// ---- flush gate (as in the lsm family): the flush worker blocks at its yield point ----

type gate struct {
	mu     sync.Mutex
	tokens chan struct{}
	open   bool
}

var flushGate = &gate{tokens: make(chan struct{}, 1024)}

func (g *gate) setOpen(b bool) {
	g.mu.Lock()
	g.open = b
	g.mu.Unlock()
}

func drainTokens() {
	for {
		select {
		case <-flushGate.tokens:
		default:
			return
		}
	}
}

var curRun *crashRun

func installHooks() {
	verifhook.SetFlag("compaction.pause", true)
	verifhook.SetYield(func(name string) {
		if name != "lsm.flush.before" {
			return
		}
		flushGate.mu.Lock()
		open := flushGate.open
		flushGate.mu.Unlock()
		if open {
			return
		}
		<-flushGate.tokens
	})
	verifhook.SetCrash(func(name string) {
		if r := curRun; r != nil {
			r.fsOp(opHook, name, "", nil)
		}
	})
}

// ---- workload description (replayable) ----

type wlEntry struct {
	Key  int  `json:"key"`  // 1..len(keys)
	Size int  `json:"size"` // value size; 0 with Del
	Del  bool `json:"del"`
	TTL  bool `json:"ttl,omitempty"` // transactional workloads: written with an expiry one hour ahead
	vid  int
}

// expOf: value id -> ExpiresAt the entry was written with (0: none). Written while a workload
// runs, read-only while its crash images are observed.
var (
	expMu sync.Mutex
	expOf = map[int]uint64{}
)

func txnSet(txn *NoKV.Txn, e wlEntry) error {
	if !e.TTL {
		return txn.Set(crashKeys[e.Key-1], valueBytes(e.vid, e.Size))
	}
	ent := kv.NewEntry(crashKeys[e.Key-1], valueBytes(e.vid, e.Size)).WithTTL(time.Hour)
	expMu.Lock()
	expOf[e.vid] = ent.ExpiresAt
	expMu.Unlock()
	return txn.SetEntry(ent)
}

type wlStep struct {
	Kind    string      `json:"kind"` // batch | cbatch | rot | flush | move | gc
	Entries []wlEntry   `json:"entries,omitempty"`
	Reqs    [][]wlEntry `json:"reqs,omitempty"` // cbatch: transactions committed concurrently (one commit batch)
}

type wlConfig struct {
	Txn       bool     `json:"txn"`
	Sync      bool     `json:"sync"`
	Buckets   int      `json:"buckets"`
	MemTable  int64    `json:"memtable"`
	VlogSize  int      `json:"vlogsize"`
	Threshold int64    `json:"threshold"`
	ManRewr   int64    `json:"manifest_rewrite"`
	BatchWait int      `json:"batch_wait_ms,omitempty"` // WriteBatchWait: concurrent commits share a commit batch
	Steps     []wlStep `json:"steps"`
}

var crashKeys = [][]byte{[]byte("a"), []byte("b"), []byte("c"), []byte("d")}

func options(dir string, cfg *wlConfig) *NoKV.Options {
	opt := NoKV.NewDefaultOptions()
	opt.WorkDir = dir
	opt.MemTableSize = cfg.MemTable
	opt.SSTableMaxSz = 1 << 20
	opt.ValueThreshold = cfg.Threshold
	opt.ValueLogFileSize = cfg.VlogSize
	opt.ValueLogBucketCount = cfg.Buckets
	opt.SyncWrites = cfg.Sync
	opt.ManifestRewriteThreshold = cfg.ManRewr
	opt.HotRingEnabled = false
	opt.EnableWALWatchdog = false
	opt.WriteHotKeyLimit = 0
	opt.NumCompactors = 1
	opt.ValueLogGCInterval = 0
	opt.WriteBatchWait = time.Duration(cfg.BatchWait) * time.Millisecond
	opt.DetectConflicts = true
	return opt
}

// ---- the recorded run ----

type image map[string][]byte

type point struct {
	n     int // abstract file effects completed
	acked int
	img   string
	why   string
	step  int
}

type vaEv struct {
	bucket, fid uint32
	key, vid    int
	rot         bool
	used        bool
	req         int
}

type stepRec struct {
	kind     string
	start    int // global WAL record index at the start of the step
	n        int // entries written by the step
	mrotAt   []int
	spillAt  []int
	vas      []vaEv
	specs    []wlEntry
	gcBucket uint32
	gcFid    uint32
	moved    []uint64
	moveLvl  int
	skipped  bool
	hord     []uint64
	// commit batches of several requests
	reqSizes   []int
	reqSeen    int
	groupStart []int
	hordReq    map[int][]uint64
}

type crashRun struct {
	mu        sync.Mutex
	dir       string
	cfg       *wlConfig
	recording bool
	effs      []string
	effDesc   []string
	points    []point
	images    map[string]image
	acked     int

	phase    string // "", "vlog", "apply", "sync"
	steps    []*stepRec
	cur      *stepRec
	pendWC   bool // a wal create seen: the preceding flush belonged to the rotation
	lastWalW int  // index into cur.spillAt of the last wal write during apply (candidate spill)

	walStream  map[uint32][]byte
	walNrec    map[uint32]int
	flushed    int // total complete WAL records in files so far (F)
	vlogNrec   map[[2]uint32]int
	pendVC     map[uint32]bool
	curMan     string
	lastSst    uint64
	values     map[string]int // value bytes -> vid
	keyOf      map[string]int
	nextVid    int
	totalRecs  int // records handed to the engine so far
	hookErr    string
	versionsUp bool
	maxGroup   int
	rewrites   int
}

func valueBytes(vid, size int) []byte {
	s := fmt.Sprintf("v%05d", vid)
	for len(s) < size {
		s += "."
	}
	return []byte(s[:max(size, 6)])
}

func rel(dir, name string) string {
	r, err := filepath.Rel(dir, name)
	if err != nil {
		return name
	}
	return r
}

func (r *crashRun) snapshot() image {
	img := image{}
	_ = filepath.Walk(r.dir, func(p string, info os.FileInfo, err error) error {
		if err != nil || info.IsDir() {
			return nil
		}
		b, err := os.ReadFile(p)
		if err == nil {
			img[rel(r.dir, p)] = b
		}
		return nil
	})
	return img
}

func hashImage(img image) string {
	h := sha1.New()
	names := make([]string, 0, len(img))
	for n := range img {
		names = append(names, n)
	}
	sort.Strings(names)
	for _, n := range names {
		if filepath.Base(n) == "LOCK" {
			continue
		}
		fmt.Fprintf(h, "%s\x00%d\x00", n, len(img[n]))
		h.Write(img[n])
	}
	return hex.EncodeToString(h.Sum(nil))
}

func parseWal(b []byte) []*kv.Entry {
	var out []*kv.Entry
	it := wal.NewRecordIterator(bytes.NewReader(b), 1<<16)
	defer func() { _ = it.Close() }()
	for it.Next() {
		if it.Type() != wal.RecordTypeEntry {
			continue
		}
		e, err := kv.DecodeEntry(it.Record())
		if err != nil {
			break
		}
		out = append(out, &kv.Entry{Key: kv.SafeCopy(nil, e.Key), Value: kv.SafeCopy(nil, e.Value), Meta: e.Meta})
		e.DecrRef()
	}
	return out
}

func countWal(b []byte) int {
	n := 0
	it := wal.NewRecordIterator(bytes.NewReader(b), 1<<16)
	defer func() { _ = it.Close() }()
	for it.Next() {
		n++
	}
	return n
}

// parseVlog returns the complete records of a value-log file image.
func parseVlog(b []byte) []*kv.Entry {
	var out []*kv.Entry
	if len(b) <= kv.ValueLogHeaderSize {
		return nil
	}
	it := kv.NewEntryIterator(bytes.NewReader(b[kv.ValueLogHeaderSize:]))
	defer func() { _ = it.Close() }()
	for it.Next() {
		e := it.Entry()
		out = append(out, &kv.Entry{Key: kv.SafeCopy(nil, e.Key), Value: kv.SafeCopy(nil, e.Value), Meta: e.Meta})
	}
	return out
}

func (r *crashRun) emit(term, desc string) {
	r.effs = append(r.effs, term)
	r.effDesc = append(r.effDesc, desc)
}

func (r *crashRun) addPoint(why string) {
	img := r.snapshot()
	h := hashImage(img)
	if _, ok := r.images[h]; !ok {
		r.images[h] = img
	}
	r.points = append(r.points, point{n: len(r.effs), acked: r.acked, img: h, why: why, step: len(r.steps) - 1})
}

func (r *crashRun) keyID(internal []byte) int {
	_, user, _ := kv.SplitInternalKey(internal)
	return r.keyOf[string(user)]
}

func editTerms(data []byte) ([]string, error) {
	var out []string
	for len(data) > 0 {
		if len(data) < 4 {
			return out, errors.New("short manifest write")
		}
		n := int(uint32(data[0]) | uint32(data[1])<<8 | uint32(data[2])<<16 | uint32(data[3])<<24)
		if len(data) < 4+n {
			return out, errors.New("short manifest edit")
		}
		e, err := manifest.VerifDecodeEdit(data[4 : 4+n])
		if err != nil {
			return out, err
		}
		data = data[4+n:]
		switch e.Type {
		case manifest.EditAddFile:
			out = append(out, fmt.Sprintf("AF %d %d", e.File.FileID, e.File.Level))
		case manifest.EditDeleteFile:
			out = append(out, fmt.Sprintf("DF %d %d", e.File.FileID, e.File.Level))
		case manifest.EditLogPointer:
			out = append(out, fmt.Sprintf("LP %d", e.LogSeg))
		case manifest.EditValueLogHead:
			out = append(out, fmt.Sprintf("VH %d %d", e.ValueLog.Bucket, e.ValueLog.FileID))
		case manifest.EditDeleteValueLog:
			out = append(out, fmt.Sprintf("VD %d %d", e.ValueLog.Bucket, e.ValueLog.FileID))
		case manifest.EditUpdateValueLog:
			out = append(out, fmt.Sprintf("VU %d %d %v", e.ValueLog.Bucket, e.ValueLog.FileID, e.ValueLog.Valid))
		default:
			out = append(out, fmt.Sprintf("EO %d", e.Type))
		}
	}
	return out, nil
}

// fsOp is called after every state-changing vfs operation and at every verifhook.Crash site.
func (r *crashRun) fsOp(op int, name, name2 string, data []byte) {
	r.mu.Lock()
	defer r.mu.Unlock()
	base := filepath.Base(name)
	// the WAL byte streams are always collected (they give the order of the entries of a batch)
	if strings.HasSuffix(base, ".wal") {
		var seg uint32
		fmt.Sscanf(base, "%05d.wal", &seg)
		switch op {
		case opCreate:
			r.walStream[seg] = nil
			r.walNrec[seg] = 0
		case opWrite:
			r.walStream[seg] = append(r.walStream[seg], data...)
		}
	}
	if !r.recording {
		return
	}
	why := fmt.Sprintf("op%d %s", op, rel(r.dir, name))
	switch {
	case op == opHook:
		why = "hook " + name
		switch name {
		case "commit.vlog":
			r.phase = "apply"
			if r.cur != nil {
				r.cur.groupStart = append(r.cur.groupStart, r.cur.reqSeen)
			}
		case "commit.head":
			if r.cur != nil {
				r.cur.reqSeen++
			}
		case "commit.applied":
			r.phase = "sync"
		case "commit.ack":
			r.phase = ""
		case "vlog.append":
			r.vlogAppend()
		case "sst.build":
			r.emit(fmt.Sprintf("SF %d", r.lastSst), "sst filled")
		}
	case strings.HasSuffix(base, ".wal"):
		var seg uint32
		fmt.Sscanf(base, "%05d.wal", &seg)
		switch op {
		case opCreate:
			r.emit(fmt.Sprintf("WC %d", seg), "wal create")
			if r.cur != nil && r.cur.kind != "rot" && r.phase == "apply" {
				// memtable rotation inside a batch: the entries already buffered went to the old segment
				r.cur.mrotAt = append(r.cur.mrotAt, r.flushed-r.cur.start)
				if r.lastWalW >= 0 && r.lastWalW == len(r.cur.spillAt)-1 {
					// the write just before was the rotation's own flush, not a spill
					r.cur.spillAt = r.cur.spillAt[:r.lastWalW]
				}
			}
			r.lastWalW = -1
		case opWrite:
			n := countWal(r.walStream[seg])
			k := n - r.walNrec[seg]
			r.walNrec[seg] = n
			r.flushed += k
			if k > 0 {
				r.emit(fmt.Sprintf("WF %d %d", seg, k), "wal flush")
			}
			if r.cur != nil && r.phase == "apply" {
				r.cur.spillAt = append(r.cur.spillAt, r.flushed-r.cur.start)
				r.lastWalW = len(r.cur.spillAt) - 1
			}
		case opRemove:
			r.emit(fmt.Sprintf("WR %d", seg), "wal remove")
		}
	case strings.HasSuffix(base, ".vlog"):
		var fid, bucket uint32
		fmt.Sscanf(base, "%05d.vlog", &fid)
		fmt.Sscanf(filepath.Base(filepath.Dir(name)), "bucket-%03d", &bucket)
		switch op {
		case opCreate:
			r.emit(fmt.Sprintf("VC %d %d", bucket, fid), "vlog create")
			r.vlogNrec[[2]uint32{bucket, fid}] = 0
			r.pendVC[bucket] = true
		case opRemove:
			r.emit(fmt.Sprintf("VR %d %d", bucket, fid), "vlog remove")
			delete(r.vlogNrec, [2]uint32{bucket, fid})
		}
	case strings.HasSuffix(base, ".sst"):
		fid := utils.FID(name)
		switch op {
		case opCreate:
			r.lastSst = fid
			r.emit(fmt.Sprintf("SC %d", fid), "sst create")
		case opRemove:
			r.emit(fmt.Sprintf("SR %d", fid), "sst remove")
		}
	case strings.HasPrefix(base, "MANIFEST-"):
		if op == opWrite && base == r.curMan {
			ts, err := editTerms(data)
			if err != nil {
				r.hookErr = "manifest write not decodable: " + err.Error()
			}
			r.emit("MF "+corr.List(ts), "manifest append")
			if r.cur != nil {
				for _, t := range ts {
					var b, f uint64
					if n, _ := fmt.Sscanf(t, "VH %d %d", &b, &f); n == 2 {
						r.cur.hord = append(r.cur.hord, b)
						if r.cur.hordReq == nil {
							r.cur.hordReq = map[int][]uint64{}
						}
						r.cur.hordReq[r.cur.reqSeen] = append(r.cur.hordReq[r.cur.reqSeen], b)
					}
				}
			}
		}
	case base == "CURRENT.tmp" && op == opRename:
		r.rewrites++
		if b, err := os.ReadFile(name2); err == nil {
			r.curMan = strings.TrimSpace(string(b))
		}
	}
	r.addPoint(why)
}

// vlogAppend finds the record that the mmap store just completed.
func (r *crashRun) vlogAppend() {
	for b := 0; b < r.cfg.Buckets; b++ {
		files, _ := filepath.Glob(filepath.Join(r.dir, "vlog", fmt.Sprintf("bucket-%03d", b), "*.vlog"))
		for _, f := range files {
			var fid uint32
			fmt.Sscanf(filepath.Base(f), "%05d.vlog", &fid)
			data, err := os.ReadFile(f)
			if err != nil {
				continue
			}
			recs := parseVlog(data)
			id := [2]uint32{uint32(b), fid}
			for i := r.vlogNrec[id]; i < len(recs); i++ {
				e := recs[i]
				k, v := r.keyID(e.Key), r.values[string(e.Value)]
				r.emit(fmt.Sprintf("VA %d %d %d %d", b, fid, k, v), "vlog append")
				if r.cur != nil {
					r.cur.vas = append(r.cur.vas, vaEv{bucket: uint32(b), fid: fid, key: k, vid: v, rot: r.pendVC[uint32(b)]})
				}
				r.pendVC[uint32(b)] = false
			}
			r.vlogNrec[id] = len(recs)
		}
	}
}

func (r *crashRun) beginStep(kind string) *stepRec {
	r.mu.Lock()
	defer r.mu.Unlock()
	s := &stepRec{kind: kind, start: r.totalRecs}
	r.steps = append(r.steps, s)
	r.cur = s
	r.lastWalW = -1
	for b := range r.pendVC {
		r.pendVC[b] = false
	}
	return s
}

func (r *crashRun) endStep(n int) {
	r.mu.Lock()
	r.cur.n = n
	r.totalRecs += n
	r.cur = nil
	r.phase = ""
	r.mu.Unlock()
}

func (r *crashRun) ack() {
	r.mu.Lock()
	r.acked++
	r.addPoint("ack")
	r.mu.Unlock()
}

// ---- driving the real DB ----

func (r *crashRun) doBatch(db *NoKV.DB, st wlStep) error {
	s := r.beginStep("batch")
	for i := range st.Entries {
		e := &st.Entries[i]
		if !e.Del {
			r.nextVid++
			e.vid = r.nextVid
			r.values[string(valueBytes(e.vid, e.Size))] = e.vid
		}
	}
	s.specs = st.Entries
	var err error
	if r.cfg.Txn {
		txn := db.NewTransaction(true)
		for _, e := range st.Entries {
			if e.Del {
				err = txn.Delete(crashKeys[e.Key-1])
			} else {
				err = txnSet(txn, e)
			}
			if err != nil {
				txn.Discard()
				r.endStep(0)
				return err
			}
		}
		err = txn.Commit()
	} else {
		e := st.Entries[0]
		if e.Del {
			err = db.Del(crashKeys[e.Key-1])
		} else {
			err = db.Set(crashKeys[e.Key-1], valueBytes(e.vid, e.Size))
		}
	}
	if err != nil {
		r.endStep(0)
		return err
	}
	r.endStep(len(st.Entries))
	r.ack()
	return nil
}

// doCBatch commits several transactions with CommitWith from one goroutine: they take their
// commit timestamps and enter the commit queue in this order and (WriteBatchWait) are normally
// coalesced into one commit batch; the grouping actually used is read off the hooks.
func (r *crashRun) doCBatch(db *NoKV.DB, st wlStep) error {
	s := r.beginStep("cbatch")
	total := 0
	chans := make([]chan error, len(st.Reqs))
	txns := make([]*NoKV.Txn, len(st.Reqs))
	for j := range st.Reqs {
		for i := range st.Reqs[j] {
			e := &st.Reqs[j][i]
			if !e.Del {
				r.nextVid++
				e.vid = r.nextVid
				r.values[string(valueBytes(e.vid, e.Size))] = e.vid
			}
		}
		txn := db.NewTransaction(true)
		for _, e := range st.Reqs[j] {
			var err error
			if e.Del {
				err = txn.Delete(crashKeys[e.Key-1])
			} else {
				err = txnSet(txn, e)
			}
			if err != nil {
				return err
			}
		}
		txns[j] = txn
		s.reqSizes = append(s.reqSizes, len(st.Reqs[j]))
		total += len(st.Reqs[j])
	}
	for j := range st.Reqs {
		ch := make(chan error, 1)
		chans[j] = ch
		txns[j].CommitWith(func(e error) { ch <- e })
	}
	// the records are counted as handed over before the first acknowledgement is reported
	var firstErr error
	ended := false
	for j := range st.Reqs {
		err := <-chans[j]
		if err != nil && firstErr == nil {
			firstErr = err
		}
		if !ended {
			// every request of the step was enqueued; acknowledgements arrive commit batch by commit batch
			ended = true
		}
		if err == nil {
			r.mu.Lock()
			r.acked++
			r.addPoint("ack")
			r.mu.Unlock()
		}
	}
	if firstErr != nil {
		r.endStep(0)
		return firstErr
	}
	r.endStep(total)
	return nil
}

func (r *crashRun) doRotate(db *NoKV.DB) {
	r.beginStep("rot")
	db.VerifLSM().Rotate()
	r.endStep(0)
}

func (r *crashRun) doFlush(db *NoKV.DB) {
	ls := db.VerifLSM()
	n := ls.VerifNumImmutables()
	s := r.beginStep("flush")
	if n == 0 {
		s.skipped = true
		r.endStep(0)
		return
	}
	flushGate.tokens <- struct{}{}
	if err := ls.VerifWaitFlushed(n-1, 20*time.Second); err != nil {
		panic(err)
	}
	// the WAL segment removal follows the in-memory install; wait for the worker to park again
	time.Sleep(2 * time.Millisecond)
	r.endStep(0)
}

func l0fids(db *NoKV.DB) []uint64 {
	l := db.VerifLSM().VerifLayout(false)
	var out []uint64
	for _, t := range l.Levels[0].Main {
		out = append(out, t.FID)
	}
	return out
}

func (r *crashRun) doMove(db *NoKV.DB) {
	s := r.beginStep("move")
	before := l0fids(db)
	err := db.VerifLSM().VerifCompact(0, 0, 6)
	after := l0fids(db)
	if err != nil || len(after) == len(before) {
		s.skipped = true
		r.endStep(0)
		return
	}
	left := map[uint64]bool{}
	for _, f := range after {
		left[f] = true
	}
	for _, f := range before {
		if !left[f] {
			s.moved = append(s.moved, f)
		}
	}
	s.moveLvl = 6
	r.endStep(0)
}

func (r *crashRun) doGC(db *NoKV.DB) {
	s := r.beginStep("gc")
	for b := 0; b < r.cfg.Buckets; b++ {
		fids, active := db.VerifVlogFids(uint32(b))
		for _, f := range fids {
			if f < active {
				s.gcBucket, s.gcFid = uint32(b), f
				before := r.acked
				if err := db.VerifCrashGC(uint32(b), f); err != nil && !errors.Is(err, utils.ErrEmptyKey) {
					// rewrite ends with ErrEmptyKey whenever it wrote records back (its final
					// check reads the key of an entry the write path has already released):
					// the file then stays in place, which is what the model does
					r.hookErr = "gc: " + err.Error()
				}
				_ = before
				r.mu.Lock()
				n := len(s.vas)
				r.mu.Unlock()
				r.endStep(n)
				return
			}
		}
	}
	s.skipped = true
	r.endStep(0)
}

// ---- reopening a crash image ----

type obsT struct {
	second []string // reads after the second incarnation (new writes, clean close, reopen); nil: none
	opened bool
	reads  []string   // per key: OA | OV n | OU | OG | OD
	stages [][]string // reads after flush, after move+GC, after a clean reopen
	stable bool
	note   string
}

func readKey(db *NoKV.DB, cfg *wlConfig, values map[string]int, key []byte) string {
	cls := func(val []byte, err error, deleted bool) string {
		if err != nil {
			if errors.Is(err, utils.ErrKeyNotFound) {
				return "OA"
			}
			return "OU"
		}
		if deleted {
			return "OA"
		}
		if v, ok := values[string(val)]; ok {
			return fmt.Sprintf("OV %d", v)
		}
		return "OG"
	}
	var outs []string
	e, err := db.Get(key)
	if err == nil && e != nil {
		outs = append(outs, cls(e.Value, nil, false))
	} else {
		outs = append(outs, cls(nil, err, false))
	}
	e2, err := db.GetVersionedEntry(kv.CFDefault, key, math.MaxUint64)
	if err == nil && e2 != nil {
		o := cls(e2.Value, nil, e2.Meta&kv.BitDelete != 0)
		if v, ok := values[string(e2.Value)]; ok && e2.Meta&kv.BitDelete == 0 {
			// the stored expiry belongs to the entry: a value whose expiry is not the one it was
			// written with is not an entry any client wrote
			expMu.Lock()
			want := expOf[v]
			expMu.Unlock()
			if e2.ExpiresAt != want {
				o = "OG"
			}
		}
		outs = append(outs, o)
	} else {
		outs = append(outs, cls(nil, err, false))
	}
	if cfg.Txn {
		var val []byte
		err := db.View(func(txn *NoKV.Txn) error {
			it, err := txn.Get(key)
			if err != nil {
				return err
			}
			val, err = it.ValueCopy(nil)
			return err
		})
		outs = append(outs, cls(val, err, false))
	}
	for _, o := range outs[1:] {
		if o != outs[0] {
			return "OD"
		}
	}
	return outs[0]
}

func readAll(db *NoKV.DB, cfg *wlConfig, values map[string]int) []string {
	out := make([]string, len(crashKeys))
	for i, k := range crashKeys {
		out[i] = readKey(db, cfg, values, k)
	}
	return out
}

// fillerKey returns a key outside the observed alphabet whose values go to the given bucket.
func fillerKey(bucket uint32, buckets int) []byte {
	for i := 0; ; i++ {
		k := []byte(fmt.Sprintf("zz%d", i))
		if kv.ValueLogBucket(kv.InternalKey(kv.CFDefault, k, 1), uint32(buckets)) == bucket {
			return k
		}
	}
}

func safeOpen(opt *NoKV.Options) (db *NoKV.DB, perr string) {
	defer func() {
		if x := recover(); x != nil {
			perr = fmt.Sprint(x)
			db = nil
		}
	}()
	return NoKV.Open(opt), ""
}

func safely(f func()) (perr string) {
	defer func() {
		if x := recover(); x != nil {
			perr = fmt.Sprint(x)
		}
	}()
	f()
	return ""
}

func tmpRoot() string {
	if d := os.Getenv("VERIF_TMP"); d != "" {
		return d
	}
	if st, err := os.Stat("/dev/shm"); err == nil && st.IsDir() {
		return "/dev/shm"
	}
	return ""
}

// walRecordEnds returns the end offsets of the complete records of a WAL segment image.
func walRecordEnds(b []byte) []int {
	var ends []int
	rd := bytes.NewReader(b)
	pos := 0
	for {
		_, _, length, err := wal.DecodeRecord(rd)
		if err != nil {
			return ends
		}
		pos += int(length) + 8
		ends = append(ends, pos)
	}
}

func applySecond(db *NoKV.DB, cfg *wlConfig, second []wlStep) error {
	for _, st := range second {
		if cfg.Txn {
			err := db.Update(func(txn *NoKV.Txn) error {
				for _, e := range st.Entries {
					if err := txn.Set(crashKeys[e.Key-1], valueBytes(e.vid, e.Size)); err != nil {
						return err
					}
				}
				return nil
			})
			if err != nil {
				return err
			}
		} else {
			e := st.Entries[0]
			if err := db.Set(crashKeys[e.Key-1], valueBytes(e.vid, e.Size)); err != nil {
				return err
			}
		}
	}
	return nil
}

// observeSecond reopens an image, reads, lets a second incarnation write acknowledged batches
// into the recovered store (same memtable, same WAL segment), closes cleanly, reopens and reads.
func observeSecond(img image, cfg *wlConfig, values map[string]int, second []wlStep) obsT {
	dir, err := os.MkdirTemp(tmpRoot(), "nokv-crashimg-")
	if err != nil {
		panic(err)
	}
	defer os.RemoveAll(dir)
	for n, b := range img {
		p := filepath.Join(dir, n)
		_ = os.MkdirAll(filepath.Dir(p), 0o755)
		if err := os.WriteFile(p, b, 0o644); err != nil {
			panic(err)
		}
	}
	var o obsT
	flushGate.setOpen(true)
	ocfg := *cfg
	ocfg.MemTable = 1 << 20
	ocfg.Sync = true
	cfg = &ocfg
	db, perr := safeOpen(options(dir, cfg))
	if db == nil {
		o.note = "open: " + perr
		return o
	}
	o.opened = true
	o.reads = readAll(db, cfg, values)
	o.stable = true
	fail := func(why string) obsT {
		o.note += " " + why
		o.second = make([]string, len(crashKeys))
		for i := range o.second {
			o.second[i] = "OU"
		}
		return o
	}
	var werr error
	if perr := safely(func() { werr = applySecond(db, cfg, second) }); perr != "" || werr != nil {
		_ = safely(func() { _ = db.Close() })
		return fail(fmt.Sprintf("second incarnation write failed: %s %v", perr, werr))
	}
	if perr := safely(func() { _ = db.Close() }); perr != "" {
		return fail("close panic: " + perr)
	}
	db2, perr := safeOpen(options(dir, cfg))
	if db2 == nil {
		return fail("second open: " + perr)
	}
	o.second = readAll(db2, cfg, values)
	_ = safely(func() { _ = db2.Close() })
	return o
}

func observe(img image, cfg *wlConfig, values map[string]int) obsT {
	dir, err := os.MkdirTemp(tmpRoot(), "nokv-crashimg-")
	if err != nil {
		panic(err)
	}
	defer os.RemoveAll(dir)
	for n, b := range img {
		p := filepath.Join(dir, n)
		_ = os.MkdirAll(filepath.Dir(p), 0o755)
		if err := os.WriteFile(p, b, 0o644); err != nil {
			panic(err)
		}
	}
	var o obsT
	flushGate.setOpen(true)
	// The reopened store gets a large memtable: recovery does not depend on MemTableSize, and the
	// records GC writes back then stay in the newest memtable instead of being rotated and flushed
	// in the background while the reads run (the versioned lookup, C02-F4, makes the reads depend
	// on whether a written-back record is still in a memtable).
	ocfg := *cfg
	ocfg.MemTable = 1 << 20
	cfg = &ocfg
	db, perr := safeOpen(options(dir, cfg))
	if db == nil {
		o.note = "open: " + perr
		return o
	}
	o.opened = true
	o.reads = readAll(db, cfg, values)
	o.stable = true
	// forced maintenance on the recovered store: rotation, flush of everything, an L0 move, GC of every sealed value-log file
	perr = safely(func() {
		ls := db.VerifLSM()
		ls.Rotate()
		if err := ls.VerifWaitFlushed(0, 20*time.Second); err != nil {
			panic(err)
		}
		got := readAll(db, cfg, values)
		o.stages = append(o.stages, got)
		if strings.Join(got, ";") != strings.Join(o.reads, ";") {
			o.stable = false
			o.note += " after-flush:" + strings.Join(got, ";")
		}
		// The L0 -> ingest-buffer move is not forced here: lookups inside an ingest shard follow the
		// key-range tie rule (known findings C01/C02-F2), which is the lsm family's subject; the
		// workload's own move step still runs before the crash.
		// new client writes of other keys until the value-log file of every bucket has rotated (the
		// file that was active at the crash may hold records of the interrupted request), then GC
		// of every sealed file, newest first
		for b := 0; b < cfg.Buckets; b++ {
			_, before := db.VerifVlogFids(uint32(b))
			fk := fillerKey(uint32(b), cfg.Buckets)
			for i := 0; i < 40; i++ {
				if _, now := db.VerifVlogFids(uint32(b)); now > before {
					break
				}
				val := bytes.Repeat([]byte{'f'}, 40)
				var err error
				if cfg.Txn {
					err = db.Update(func(txn *NoKV.Txn) error { return txn.Set(fk, val) })
				} else {
					err = db.Set(fk, val)
				}
				if err != nil {
					panic(err)
				}
			}
		}
		for b := 0; b < cfg.Buckets; b++ {
			fids, active := db.VerifVlogFids(uint32(b))
			for i := len(fids) - 1; i >= 0; i-- {
				if f := fids[i]; f < active {
					if err := db.VerifCrashGC(uint32(b), f); err != nil && !errors.Is(err, utils.ErrEmptyKey) {
						o.note += " gc-error:" + err.Error()
					}
				}
			}
		}
		got = readAll(db, cfg, values)
		o.stages = append(o.stages, got)
		if strings.Join(got, ";") != strings.Join(o.reads, ";") {
			o.stable = false
			o.note += " after-maintenance:" + strings.Join(got, ";")
		}
	})
	if perr != "" {
		o.stable = false
		o.note += " maintenance panic: " + perr
	}
	if perr := safely(func() { _ = db.Close() }); perr != "" {
		o.stable = false
		o.note += " close panic: " + perr
		return o
	}
	// a clean reopen of the maintained store
	db2, perr := safeOpen(options(dir, cfg))
	if db2 == nil {
		o.stable = false
		o.note += " second open: " + perr
		return o
	}
	got := readAll(db2, cfg, values)
	o.stages = append(o.stages, got)
	if strings.Join(got, ";") != strings.Join(o.reads, ";") {
		o.stable = false
		o.note += " after-reopen:" + strings.Join(got, ";")
	}
	_ = safely(func() { _ = db2.Close() })
	return o
}

// ---- one workload ----

func coqBool(b bool) string { return corr.Bool(b) }

func (r *crashRun) stepTerms() ([]string, error) {
	// global WAL record sequence
	var segs []uint32
	for s := range r.walStream {
		segs = append(segs, s)
	}
	sort.Slice(segs, func(i, j int) bool { return segs[i] < segs[j] })
	var G []*kv.Entry
	for _, s := range segs {
		G = append(G, parseWal(r.walStream[s])...)
	}
	if len(G) != r.totalRecs {
		return nil, fmt.Errorf("WAL streams hold %d records, the steps wrote %d", len(G), r.totalRecs)
	}
	has := func(xs []int, i int) bool {
		for _, x := range xs {
			if x == i {
				return true
			}
		}
		return false
	}
	var out []string
	lastVer := uint64(0)
	r.versionsUp = true
	rank := map[uint64]int{}
	for _, s := range r.steps {
		switch s.kind {
		case "rot":
			out = append(out, "SRot")
		case "flush":
			if !s.skipped {
				out = append(out, "SFl")
			}
		case "move":
			if !s.skipped {
				out = append(out, fmt.Sprintf("SMv %s %d", corr.ListN(s.moved), s.moveLvl))
			}
		case "close":
			for i := 0; i < s.moveLvl; i++ {
				out = append(out, "SFl")
			}
			out = append(out, "SCl")
		case "batch", "gc", "cbatch":
			if s.kind == "gc" && s.skipped {
				continue
			}
			var ents []string
			var border []uint64
			seenB := map[uint32]bool{}
			for _, va := range s.vas {
				if !seenB[va.bucket] {
					seenB[va.bucket] = true
					border = append(border, uint64(va.bucket))
				}
			}
			// request boundaries inside the step (one request unless it is a concurrent batch)
			reqOf := make([]int, s.n)
			firstOf := map[int]bool{0: true}
			if s.kind == "cbatch" {
				pos := 0
				for j, sz := range s.reqSizes {
					firstOf[pos] = true
					for x := 0; x < sz; x++ {
						reqOf[pos+x] = j
					}
					pos += sz
				}
			}
			for i := 0; i < s.n; i++ {
				g := G[s.start+i]
				k := r.keyID(g.Key)
				ver := kv.ParseTs(g.Key)
				if r.cfg.Txn && s.kind != "gc" {
					if firstOf[i] {
						if ver <= lastVer {
							r.versionsUp = false
						}
						lastVer = ver
						rank[ver] = len(rank) + 1
					} else if ver != lastVer {
						r.versionsUp = false
					}
				}
				vrank := 0
				if r.cfg.Txn {
					vr, ok := rank[ver]
					if !ok {
						return nil, fmt.Errorf("a written-back record carries version %d that no transaction committed", ver)
					}
					vrank = vr
				}
				del := g.Meta&kv.BitDelete != 0
				loc, vid, vrot := 0, 0, false
				if g.Meta&kv.BitValuePointer != 0 {
					var vp kv.ValuePtr
					vp.Decode(g.Value)
					loc = int(vp.Bucket) + 1
					found := false
					for vi := range s.vas {
						va := &s.vas[vi]
						if !va.used && va.key == k && va.bucket == vp.Bucket && va.fid == vp.Fid {
							vid, vrot, found = va.vid, va.rot, true
							va.used = true
							va.req = reqOf[i]
							break
						}
					}
					if !found {
						return nil, fmt.Errorf("WAL record of key %d points to a value-log record the step did not append", k)
					}
				} else if !del {
					vid = r.values[string(g.Value)]
				}
				ents = append(ents, fmt.Sprintf("En %d %d %s %d %s %s %s %d", k, vid, coqBool(del), loc,
					coqBool(has(s.mrotAt, i)), coqBool(has(s.spillAt, i)), coqBool(vrot), vrank))
			}
			if s.kind == "cbatch" {
				if s.reqSeen != len(s.reqSizes) {
					return nil, fmt.Errorf("concurrent batch: %d requests committed, %d seen by the commit worker", len(s.reqSizes), s.reqSeen)
				}
				var reqTerms []string
				pos := 0
				for j, sz := range s.reqSizes {
					var rb []uint64
					seen := map[uint32]bool{}
					for _, va := range s.vas {
						if va.used && va.req == j && !seen[va.bucket] {
							seen[va.bucket] = true
							rb = append(rb, uint64(va.bucket))
						}
					}
					reqTerms = append(reqTerms, fmt.Sprintf("Rq %s %s %s", corr.List(ents[pos:pos+sz]), corr.ListN(rb), corr.ListN(s.hordReq[j])))
					pos += sz
				}
				for gi, st := range s.groupStart {
					end := len(reqTerms)
					if gi+1 < len(s.groupStart) {
						end = s.groupStart[gi+1]
					}
					if end > st {
						out = append(out, "SCB "+corr.List(reqTerms[st:end]))
						r.maxGroup = max(r.maxGroup, end-st)
					}
				}
			} else if s.kind == "batch" {
				out = append(out, fmt.Sprintf("SB %s %s %s", corr.List(ents), corr.ListN(border), corr.ListN(s.hord)))
			} else {
				out = append(out, fmt.Sprintf("SGc %d %d %s %s %s", s.gcBucket, s.gcFid, corr.List(ents), corr.ListN(border), corr.ListN(s.hord)))
			}
		}
	}
	return out, nil
}

func runWorkload(c *corr.Ctx, cfg *wlConfig, label string) error {
	dir, err := os.MkdirTemp(tmpRoot(), "nokv-crash-")
	if err != nil {
		return err
	}
	defer os.RemoveAll(dir)
	r := &crashRun{dir: dir, cfg: cfg, images: map[string]image{}, walStream: map[uint32][]byte{}, walNrec: map[uint32]int{},
		vlogNrec: map[[2]uint32]int{}, pendVC: map[uint32]bool{}, values: map[string]int{}, keyOf: map[string]int{}, lastWalW: -1}
	for i, k := range crashKeys {
		r.keyOf[string(k)] = i + 1
	}
	expMu.Lock()
	expOf = map[int]uint64{}
	expMu.Unlock()
	curRun = r
	defer func() { curRun = nil }()
	flushGate.setOpen(false)
	drainTokens()
	opt := options(dir, cfg)
	opt.FS = &recFS{run: r}
	db := NoKV.Open(opt)
	// the freshly initialised directory is the start state; its creation is not part of the workload
	if b, err := os.ReadFile(filepath.Join(dir, "CURRENT")); err == nil {
		r.curMan = strings.TrimSpace(string(b))
	}
	files, _ := filepath.Glob(filepath.Join(dir, "*.wal"))
	firstSeg := uint32(0)
	for _, f := range files {
		var s uint32
		fmt.Sscanf(filepath.Base(f), "%05d.wal", &s)
		if s > firstSeg {
			firstSeg = s
		}
	}
	r.mu.Lock()
	r.recording = true
	r.addPoint("start")
	r.mu.Unlock()
	for _, st := range cfg.Steps {
		switch st.Kind {
		case "batch":
			if err := r.doBatch(db, st); err != nil {
				return fmt.Errorf("batch failed: %w", err)
			}
		case "cbatch":
			if err := r.doCBatch(db, st); err != nil {
				return fmt.Errorf("concurrent batch failed: %w", err)
			}
		case "rot":
			r.doRotate(db)
		case "flush":
			r.doFlush(db)
		case "move":
			r.doMove(db)
		case "gc":
			r.doGC(db)
		}
	}
	// a clean Close, still recorded: it waits for the flush of every sealed memtable and flushes
	// the WAL's userland buffer; every file operation in it is a crash point, and the cleanly
	// closed directory is the last image that is reopened
	cs := r.beginStep("close")
	cs.moveLvl = db.VerifLSM().VerifNumImmutables()
	flushGate.setOpen(true)
	flushGate.tokens <- struct{}{}
	if err := db.Close(); err != nil {
		return fmt.Errorf("close: %w", err)
	}
	r.endStep(0)
	r.mu.Lock()
	r.addPoint("closed")
	r.recording = false
	r.mu.Unlock()
	drainTokens()
	if r.hookErr != "" {
		return errors.New(r.hookErr)
	}
	steps, err := r.stepTerms()
	if err != nil {
		return err
	}
	if !r.versionsUp {
		return errors.New("commit versions of successive transactions are not increasing")
	}
	if r.rewrites > 0 {
		c.CountN("manifest_rewrites_recorded", r.rewrites)
	}
	if r.maxGroup > 1 {
		c.Count("workloads_with_multi_request_commit_batch")
		c.CountN("max_requests_in_commit_batch_sum", r.maxGroup)
	}
	// reopen every distinct crash image once
	curRun = nil
	obsOf := map[string]obsT{}
	var order []string
	for _, p := range r.points {
		if _, ok := obsOf[p.img]; !ok {
			obsOf[p.img] = obsT{}
			order = append(order, p.img)
		}
	}
	{
		var wg sync.WaitGroup
		var omu sync.Mutex
		sem := make(chan struct{}, 8)
		for _, h := range order {
			wg.Add(1)
			sem <- struct{}{}
			go func(h string) {
				defer wg.Done()
				defer func() { <-sem }()
				o := observe(r.images[h], cfg, r.values)
				omu.Lock()
				obsOf[h] = o
				omu.Unlock()
			}(h)
		}
		wg.Wait()
		c.CountN("reopenings", len(order))
	}
	propN := 10
	fmt.Sscanf(c.Prop, "C%d", &propN)
	// two-incarnation histories on selected WAL-write crash points: the image as it is and with
	// the write torn inside its last record
	type tornPt struct {
		p    point
		torn int // 0: untorn; j+1: j records of the write survive
		cut  int
		obs  obsT
	}
	second := []wlStep{{Kind: "batch", Entries: []wlEntry{{Key: 1, Size: 10}}}, {Kind: "batch", Entries: []wlEntry{{Key: 2, Size: 40}}}}
	for i := range second {
		for j := range second[i].Entries {
			e := &second[i].Entries[j]
			r.nextVid++
			e.vid = r.nextVid
			r.values[string(valueBytes(e.vid, e.Size))] = e.vid
		}
	}
	var secondTerm []string
	for _, st := range second {
		var ws []string
		for _, e := range st.Entries {
			ws = append(ws, fmt.Sprintf("(%d, Some %d)", e.Key, e.vid))
		}
		secondTerm = append(secondTerm, corr.List(ws))
	}
	var walPts []point
	for _, p := range r.points {
		if strings.HasPrefix(p.why, "op1 ") && strings.HasSuffix(p.why, ".wal") && p.n > 0 && strings.HasPrefix(r.effs[p.n-1], "WF ") {
			walPts = append(walPts, p)
		}
	}
	var torn []*tornPt
	maxPts := 3
	for i := 0; i < len(walPts) && i < maxPts; i++ {
		p := walPts[i*len(walPts)/min(len(walPts), maxPts)]
		var seg, k int
		fmt.Sscanf(r.effs[p.n-1], "WF %d %d", &seg, &k)
		name := fmt.Sprintf("%05d.wal", seg)
		data := r.images[p.img][name]
		ends := walRecordEnds(data)
		torn = append(torn, &tornPt{p: p})
		if len(ends) == 0 || ends[len(ends)-1] != len(data) {
			continue
		}
		last := 0
		if len(ends) > 1 {
			last = ends[len(ends)-2]
		}
		// one cut per byte class of the last record: inside the length header, inside the payload,
		// exactly between payload and checksum, inside the checksum (first and last byte missing)
		seenCut := map[int]bool{}
		for _, cut := range []int{last + 2, last + (len(data)-last)/2, len(data) - 4, len(data) - 3, len(data) - 1} {
			if cut > last && cut < len(data) && !seenCut[cut] {
				seenCut[cut] = true
				torn = append(torn, &tornPt{p: p, torn: k, cut: cut})
			}
		}
	}
	{
		var wg sync.WaitGroup
		sem := make(chan struct{}, 8)
		for _, tp := range torn {
			wg.Add(1)
			sem <- struct{}{}
			go func(tp *tornPt) {
				defer wg.Done()
				defer func() { <-sem }()
				img := r.images[tp.p.img]
				if tp.torn > 0 {
					var seg, k int
					fmt.Sscanf(r.effs[tp.p.n-1], "WF %d %d", &seg, &k)
					name := fmt.Sprintf("%05d.wal", seg)
					cp := image{}
					for n, b := range img {
						cp[n] = b
					}
					cp[name] = img[name][:tp.cut]
					img = cp
				}
				tp.obs = observeSecond(img, cfg, r.values, second)
			}(tp)
		}
		wg.Wait()
		c.CountN("second_incarnations", len(torn))
	}
	cfgJSON, _ := json.Marshal(cfg)
	seen := map[string]bool{}
	for _, p := range r.points {
		o := obsOf[p.img]
		rl := func(rs []string) string {
			var reads []string
			for i, rd := range rs {
				reads = append(reads, fmt.Sprintf("(%d, %s)", i+1, rd))
			}
			return corr.List(reads)
		}
		var stages []string
		for _, st := range o.stages {
			stages = append(stages, rl(st))
		}
		obs := fmt.Sprintf("Ob %s %s %s [] []", coqBool(o.opened), rl(o.reads), corr.List(stages))
		term := fmt.Sprintf("Cs %d %s %d %d %s %s %s %d %d 0 (%s)", propN, coqBool(cfg.Sync), firstSeg, cfg.Buckets, coqBool(cfg.Txn),
			corr.List(steps), corr.List(r.effs), p.n, p.acked, obs)
		key := fmt.Sprintf("%d/%d/%s", p.n, p.acked, obs)
		if seen[key] {
			c.Count("crash_points_same_state")
			continue
		}
		seen[key] = true
		c.Count("crash_points")
		if !o.opened {
			c.Count("open_failed")
		}
		inStep := p.step >= 0 && p.why != "ack" && p.why != "start"
		c.Emit(corr.Case{Coq: term, Nontrivial: inStep, Desc: map[string]any{"workload": label, "config": json.RawMessage(cfgJSON),
			"crash_after": p.why, "effects_done": p.n, "acked": p.acked, "note": strings.TrimSpace(o.note)}})
	}
	for _, tp := range torn {
		o := tp.obs
		rl := func(rs []string) string {
			var reads []string
			for i, rd := range rs {
				reads = append(reads, fmt.Sprintf("(%d, %s)", i+1, rd))
			}
			return corr.List(reads)
		}
		tornN := 0
		if tp.torn > 0 {
			tornN = tp.torn // j+1 with j = k-1 surviving records
			c.Count("torn_wal_tail_images")
		}
		obs := fmt.Sprintf("Ob %s %s [] %s %s", coqBool(o.opened), rl(o.reads), corr.List(secondTerm), rl(o.second))
		term := fmt.Sprintf("Cs %d %s %d %d %s %s %s %d %d %d (%s)", propN, coqBool(cfg.Sync), firstSeg, cfg.Buckets, coqBool(cfg.Txn),
			corr.List(steps), corr.List(r.effs), tp.p.n, tp.p.acked, tornN, obs)
		c.Count("two_incarnation_cases")
		c.Emit(corr.Case{Coq: term, Nontrivial: true, Desc: map[string]any{"workload": label, "config": json.RawMessage(cfgJSON),
			"crash_after": tp.p.why, "effects_done": tp.p.n, "acked": tp.p.acked, "torn_cut": tp.cut, "second_incarnation": true,
			"note": strings.TrimSpace(o.note)}})
	}
	return nil
}

// ---- generator ----

func genWorkload(c *corr.Ctx, txn, sync bool) *wlConfig {
	rng := c.Rng
	cfg := &wlConfig{Txn: txn, Sync: sync, Buckets: 1 + rng.Intn(2), Threshold: 32, VlogSize: 160 + 40*rng.Intn(4), ManRewr: 64 << 20}
	cfg.MemTable = []int64{150, 260, 1 << 20}[rng.Intn(3)]
	if rng.Intn(3) == 0 {
		cfg.ManRewr = 100
	}
	nb := 5 + rng.Intn(8)
	moved, gced := false, false
	for b := 0; b < nb; {
		x := rng.Intn(100)
		switch {
		case x < 10 && txn:
			cfg.BatchWait = 5
			var reqs [][]wlEntry
			for q := 0; q < 2+rng.Intn(2); q++ {
				var es []wlEntry
				used := map[int]bool{}
				for len(es) < 1+rng.Intn(2) {
					k := 1 + rng.Intn(len(crashKeys))
					if used[k] {
						continue
					}
					used[k] = true
					e := wlEntry{Key: k, Size: 32 + rng.Intn(30)}
					if rng.Intn(4) == 0 {
						e.Size = 6 + rng.Intn(20)
					}
					es = append(es, e)
				}
				reqs = append(reqs, es)
				b++
			}
			cfg.Steps = append(cfg.Steps, wlStep{Kind: "cbatch", Reqs: reqs})
		case x < 62:
			n := 1
			if txn {
				n = 1 + rng.Intn(3)
			}
			var es []wlEntry
			used := map[int]bool{}
			for len(es) < n {
				k := 1 + rng.Intn(len(crashKeys))
				if used[k] {
					continue
				}
				used[k] = true
				e := wlEntry{Key: k}
				switch y := rng.Intn(10); {
				case y == 0:
					e.Del = true
				case y < 5:
					e.Size = 6 + rng.Intn(20)
				default:
					e.Size = 32 + rng.Intn(30)
				}
				if txn && !e.Del && rng.Intn(4) == 0 {
					e.TTL = true
				}
				es = append(es, e)
			}
			cfg.Steps = append(cfg.Steps, wlStep{Kind: "batch", Entries: es})
			b++
		case x < 72:
			cfg.Steps = append(cfg.Steps, wlStep{Kind: "rot"})
		case x < 86:
			cfg.Steps = append(cfg.Steps, wlStep{Kind: "flush"})
		case x < 92 && !moved:
			moved = true
			cfg.Steps = append(cfg.Steps, wlStep{Kind: "move"})
		case x < 100 && !gced && b >= 3:
			gced = true
			cfg.Steps = append(cfg.Steps, wlStep{Kind: "gc"})
		}
	}
	return cfg
}

func runCrash(c *corr.Ctx) error {
	installHooks()
	c.Meta("run_module", "RunCrash")
	c.Meta("exhaustive", false)
	c.Meta("rule", "small workloads (<= 12 batches: plain Set/Del or transactions of 1-3 keys, in transactional workloads also 2-3 transactions committed concurrently so that one commit batch holds several requests, 4 keys, values on both sides of ValueThreshold, in transactional workloads a quarter of the values with an expiry one hour ahead (the stored ExpiresAt is part of every read), 1-2 value-log buckets, tiny value-log files and memtables so that both rotate, SyncWrites on/off, forced rotations, gated flushes, one L0 move, one value-log GC, optional manifest rewrites) on a real DB over a recording vfs.FS; every state-changing vfs operation and every verifhook.Crash site is a crash point: the directory image at that instant is reopened with the real Open, every key is read through Get / GetVersionedEntry / a transaction, then rotation + flush of every memtable, new writes of other keys until the value-log file of every bucket has rotated, GC of every sealed value-log file (newest first) are forced and the reads repeated after each stage, then a clean reopen; every workload ends with a recorded clean Close (which releases the backlog of sealed memtables: back-to-back flushes) whose directory is reopened the same way; on up to 3 WAL-write crash points per workload the image, and the image with that write torn at one position per byte class of its last record (inside the length header, inside the payload, between payload and checksum, inside the checksum), are reopened, a second incarnation writes two acknowledged batches, closes cleanly, and the directory is reopened and read again. non-trivial = crash point inside a batch or a maintenance step")
	if c.Replay != "" {
		cases, err := c.ReplayCases()
		if err != nil {
			return err
		}
		for i, cs := range cases {
			b, _ := json.Marshal(cs.Desc)
			var d struct {
				Config wlConfig `json:"config"`
			}
			if err := json.Unmarshal(b, &d); err != nil {
				return err
			}
			if err := runWorkload(c, &d.Config, fmt.Sprintf("replay-%d", i)); err != nil {
				return err
			}
		}
		return nil
	}
	// scripted regression workloads, run before the generated ones
	big := func(k int) wlEntry { return wlEntry{Key: k, Size: 40} }
	bigTTL := func(k int) wlEntry { return wlEntry{Key: k, Size: 40, TTL: true} }
	scripts := []*wlConfig{
		// a transaction crashes between its value-log write (+ rotation, head edit) and the WAL:
		// the sealed file keeps a record no logged record refers to; GC must not write it back
		{Txn: true, Sync: true, Buckets: 1, MemTable: 1 << 20, VlogSize: 160, Threshold: 32, ManRewr: 64 << 20,
			Steps: []wlStep{{Kind: "batch", Entries: []wlEntry{bigTTL(1)}}, {Kind: "batch", Entries: []wlEntry{big(1), big(2), big(3)}}}},
		// a value with a future expiry in a value-log file that is sealed and collected: GC must
		// move the entry with its expiry
		{Txn: true, Sync: true, Buckets: 1, MemTable: 1 << 20, VlogSize: 160, Threshold: 32, ManRewr: 64 << 20,
			Steps: []wlStep{{Kind: "batch", Entries: []wlEntry{bigTTL(1)}}, {Kind: "batch", Entries: []wlEntry{bigTTL(2)}},
				{Kind: "batch", Entries: []wlEntry{big(3)}}, {Kind: "gc"}, {Kind: "batch", Entries: []wlEntry{{Key: 4, Size: 10, TTL: true}}}}},
		// plain API: two values of one key in a value-log file that is then sealed; GC must not
		// write the superseded one back over the newer one (all plain records share one version)
		{Txn: false, Sync: false, Buckets: 1, MemTable: 1 << 20, VlogSize: 160, Threshold: 32, ManRewr: 64 << 20,
			Steps: []wlStep{{Kind: "batch", Entries: []wlEntry{big(1)}}, {Kind: "batch", Entries: []wlEntry{big(1)}},
				{Kind: "rot"}, {Kind: "batch", Entries: []wlEntry{big(2)}}, {Kind: "flush"}, {Kind: "batch", Entries: []wlEntry{{Key: 2, Del: true}}}}},
	}
	// several requests in one commit batch: an earlier request rotates the value-log file of its
	// bucket, the last request touches the other bucket only (head persistence per request)
	kA, kB := 0, 0
	for i, k := range crashKeys {
		if kv.ValueLogBucket(kv.InternalKey(kv.CFDefault, k, 1), 2) == 0 {
			if kA == 0 {
				kA = i + 1
			}
		} else if kB == 0 {
			kB = i + 1
		}
	}
	if kA != 0 && kB != 0 {
		one := func(k int) []wlEntry { return []wlEntry{big(k)} }
		scripts = append(scripts, &wlConfig{Txn: true, Sync: true, Buckets: 2, MemTable: 1 << 20, VlogSize: 160, Threshold: 32,
			ManRewr: 64 << 20, BatchWait: 5,
			Steps: []wlStep{{Kind: "batch", Entries: one(kA)}, {Kind: "batch", Entries: one(kA)},
				{Kind: "cbatch", Reqs: [][]wlEntry{one(kA), one(kB)}},
				{Kind: "cbatch", Reqs: [][]wlEntry{one(kB), one(kA), one(kB)}},
				{Kind: "batch", Entries: one(kB)}}})
	}
	// lost write at an offset equal to the live record's: key 1 is the first record of file 0; a
	// second transaction on key 1 rotates the value log and crashes after the head edit, leaving
	// its record as the first one of file 1 (both in transactional and in plain mode)
	for _, txn := range []bool{true, false} {
		scripts = append(scripts, &wlConfig{Txn: txn, Sync: true, Buckets: 1, MemTable: 1 << 20, VlogSize: 160, Threshold: 32, ManRewr: 64 << 20,
			Steps: []wlStep{{Kind: "batch", Entries: []wlEntry{big(1)}}, {Kind: "batch", Entries: []wlEntry{big(2)}},
				{Kind: "batch", Entries: []wlEntry{big(1)}}, {Kind: "batch", Entries: []wlEntry{big(3)}}}})
	}
	// a backlog of three sealed memtables that nothing flushes until the clean Close releases the
	// flush gate: the flushes then run back to back (every file operation of them is a crash
	// point; the model flushes oldest first, the real order shows in the manifest edits)
	scripts = append(scripts, &wlConfig{Txn: true, Sync: true, Buckets: 1, MemTable: 1 << 20, VlogSize: 400, Threshold: 32, ManRewr: 64 << 20,
		Steps: []wlStep{{Kind: "batch", Entries: []wlEntry{{Key: 1, Size: 10}}}, {Kind: "rot"},
			{Kind: "batch", Entries: []wlEntry{{Key: 2, Size: 10}, {Key: 1, Size: 40}}}, {Kind: "rot"},
			{Kind: "batch", Entries: []wlEntry{{Key: 3, Size: 10}}}, {Kind: "rot"},
			{Kind: "batch", Entries: []wlEntry{{Key: 1, Del: true}}}}})
	// manifest rewrites: a 64-byte rewrite threshold makes LogEdits rewrite the manifest every
	// few edits (new MANIFEST file, CURRENT.tmp, rename, removal of the old file): every one of
	// these file operations is a crash point
	scripts = append(scripts, &wlConfig{Txn: true, Sync: true, Buckets: 1, MemTable: 1 << 20, VlogSize: 400, Threshold: 32, ManRewr: 64,
		Steps: []wlStep{{Kind: "batch", Entries: []wlEntry{{Key: 1, Size: 10}, {Key: 2, Size: 40}}}, {Kind: "rot"}, {Kind: "flush"},
			{Kind: "batch", Entries: []wlEntry{{Key: 3, Size: 10}}}, {Kind: "rot"}, {Kind: "flush"},
			{Kind: "batch", Entries: []wlEntry{{Key: 1, Size: 40}}}, {Kind: "rot"}, {Kind: "flush"},
			{Kind: "batch", Entries: []wlEntry{{Key: 4, Size: 10}}}, {Kind: "rot"}, {Kind: "flush"},
			{Kind: "batch", Entries: []wlEntry{{Key: 2, Del: true}}}}})
	for i, cfg := range scripts {
		c.Count("workload_scripted")
		if err := runWorkload(c, cfg, fmt.Sprintf("script%d", i)); err != nil {
			return fmt.Errorf("scripted workload %d: %w", i, err)
		}
	}
	if c.Prop == "C09" {
		for i := 0; i < c.Scale(2, 30); i++ {
			if err := runWalLevel(c, i); err != nil {
				return fmt.Errorf("wal-level workload %d: %w", i, err)
			}
		}
	}
	n := c.Scale(3, 60)
	for i := 0; i < n; i++ {
		txn := i%3 != 1
		sync := i%2 == 0
		cfg := genWorkload(c, txn, sync)
		c.Count(fmt.Sprintf("workload_txn=%v_sync=%v", txn, sync))
		if err := runWorkload(c, cfg, fmt.Sprintf("w%d", i)); err != nil {
			return fmt.Errorf("workload %d: %w", i, err)
		}
	}
	return nil
}

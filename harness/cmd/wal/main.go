// Harness binary for C13 (WAL framing, replay, torn tails, reopen).
package main

import "verifharness/internal/corr"

func main() { corr.Main(map[string]corr.Family{"wal": runWal}) }

package main

import (
	"encoding/json"
	"fmt"
	"os"
	"path/filepath"
	"sort"
	"strings"

	"github.com/feichai0017/NoKV/wal"
	"verifharness/internal/corr"
)

// C13: wal.Manager AppendRecords / Replay / VerifyDir / Open.

type walRec struct {
	Ty  uint8  `json:"ty"`
	N   int    `json:"n"`             // payload length
	S   int    `json:"s"`             // pattern start byte (payload[i] = byte(s+i))
	Hex string `json:"hex,omitempty"` // explicit payload (overrides N,S) as hex via payloadOf
}

type walDesc struct {
	Seg   int64    `json:"seg"`
	Recs  []walRec `json:"recs"`
	Cut   int64    `json:"cut"` // -1: no cut
	Recs2 []walRec `json:"recs2"`
	Big   bool     `json:"big,omitempty"`
}

func (r walRec) payload() []byte {
	if r.Hex != "" {
		b := make([]byte, len(r.Hex)/2)
		fmt.Sscanf(r.Hex, "%x", &b)
		return b
	}
	b := make([]byte, r.N)
	for i := range b {
		b[i] = byte(r.S + i)
	}
	return b
}

// payloadTerm prints a payload compactly: a pattern term if it is one, hex otherwise.
func payloadTerm(b []byte) string {
	if len(b) > 24 {
		ok := true
		for i := range b {
			if b[i] != byte(int(b[0])+i) {
				ok = false
				break
			}
		}
		if ok {
			return fmt.Sprintf("(Pat %d %d)", len(b), b[0])
		}
	}
	return "(H " + corr.Hex(b) + ")"
}

func recsTerm(rs []walRec) string {
	items := make([]string, len(rs))
	for i, r := range rs {
		items[i] = fmt.Sprintf("(%d, %s)", r.Ty, payloadTerm(r.payload()))
	}
	return corr.List(items)
}

func infosTerm(is []wal.EntryInfo) string {
	items := make([]string, len(is))
	for i, e := range is {
		items[i] = fmt.Sprintf("(%d, %d)", e.SegmentID, e.Offset)
	}
	return corr.List(items)
}

func walErrCode(err error) int {
	if err == nil {
		return 0
	}
	m := err.Error()
	switch {
	case strings.Contains(m, "checksum mismatch"):
		return 1
	case strings.Contains(m, "empty record"):
		return 2
	}
	return 9
}

func replayObs(m *wal.Manager) (string, int, error) {
	var items []string
	n := 0
	err := m.Replay(func(info wal.EntryInfo, p []byte) error {
		items = append(items, fmt.Sprintf("(%d, %d, %d, %s)", info.SegmentID, info.Offset, info.Type, payloadTerm(p)))
		n++
		return nil
	})
	return fmt.Sprintf("(%s, %d)", corr.List(items), walErrCode(err)), n, nil
}

func toRecords(rs []walRec) []wal.Record {
	out := make([]wal.Record, len(rs))
	for i, r := range rs {
		out[i] = wal.Record{Type: wal.RecordType(r.Ty), Payload: r.payload()}
	}
	return out
}

type walBase struct {
	dir     string
	infos   []wal.EntryInfo
	lastSeg string
	lastLen int64
	ends    []int64 // end offsets of the records in the last segment
}

// buildBase appends recs to a fresh directory (in random batch sizes) and closes the manager.
func buildBase(c *corr.Ctx, root string, seg int64, recs []walRec) (*walBase, error) {
	dir, err := os.MkdirTemp(root, "base")
	if err != nil {
		return nil, err
	}
	m, err := wal.Open(wal.Config{Dir: dir, SegmentSize: seg, BufferSize: 4096})
	if err != nil {
		return nil, err
	}
	rs := toRecords(recs)
	var infos []wal.EntryInfo
	for i := 0; i < len(rs); {
		k := 1 + c.Rng.Intn(3)
		if i+k > len(rs) {
			k = len(rs) - i
		}
		is, err := m.AppendRecords(rs[i : i+k]...)
		if err != nil {
			return nil, err
		}
		infos = append(infos, is...)
		i += k
	}
	if err := m.Close(); err != nil {
		return nil, err
	}
	files, _ := filepath.Glob(filepath.Join(dir, "*.wal"))
	sort.Strings(files)
	b := &walBase{dir: dir, infos: infos, lastSeg: files[len(files)-1]}
	st, err := os.Stat(b.lastSeg)
	if err != nil {
		return nil, err
	}
	b.lastLen = st.Size()
	var lastID uint32
	fmt.Sscanf(filepath.Base(b.lastSeg), "%05d.wal", &lastID)
	for i, e := range infos {
		if e.SegmentID == lastID {
			b.ends = append(b.ends, e.Offset+int64(len(rs[i].Payload))+9)
		}
	}
	return b, nil
}

func copyDir(src, dst string) error {
	ents, err := os.ReadDir(src)
	if err != nil {
		return err
	}
	for _, e := range ents {
		b, err := os.ReadFile(filepath.Join(src, e.Name()))
		if err != nil {
			return err
		}
		if err := os.WriteFile(filepath.Join(dst, e.Name()), b, 0o644); err != nil {
			return err
		}
	}
	return nil
}

// walCase: copy the base directory, cut the last segment, replay, verify, reopen, append, replay.
func walCase(c *corr.Ctx, root string, b *walBase, d walDesc) (corr.Case, error) {
	dir, err := os.MkdirTemp(root, "case")
	if err != nil {
		return corr.Case{}, err
	}
	defer os.RemoveAll(dir)
	if err := copyDir(b.dir, dir); err != nil {
		return corr.Case{}, err
	}
	cutTerm := "None"
	if d.Cut >= 0 {
		if err := os.Truncate(filepath.Join(dir, filepath.Base(b.lastSeg)), d.Cut); err != nil {
			return corr.Case{}, err
		}
		cutTerm = fmt.Sprintf("(Some %d)", d.Cut)
	}
	m, err := wal.Open(wal.Config{Dir: dir, SegmentSize: d.Seg, BufferSize: 4096})
	if err != nil {
		return corr.Case{}, err
	}
	obs1, n1, _ := replayObs(m)
	if err := m.Close(); err != nil {
		return corr.Case{}, err
	}
	verr := wal.VerifyDir(dir, nil)
	if verr != nil {
		// reported as a replay error of phase 2 (the model expects no verify error on cut logs)
		obs2 := fmt.Sprintf("([], %d)", 90+walErrCode(verr))
		term := fmt.Sprintf("Cs %d %s %s %s %s %s [] %s", d.Seg, recsTerm(d.Recs), infosTerm(b.infos), cutTerm, obs1, recsTerm(d.Recs2), obs2)
		return corr.Case{Coq: term, Nontrivial: true, Desc: d}, nil
	}
	m, err = wal.Open(wal.Config{Dir: dir, SegmentSize: d.Seg, BufferSize: 4096})
	if err != nil {
		return corr.Case{}, err
	}
	infos2, err := m.AppendRecords(toRecords(d.Recs2)...)
	if err != nil {
		return corr.Case{}, err
	}
	if err := m.Sync(); err != nil {
		return corr.Case{}, err
	}
	obs2, _, _ := replayObs(m)
	if err := m.Close(); err != nil {
		return corr.Case{}, err
	}
	term := fmt.Sprintf("Cs %d %s %s %s %s %s %s %s", d.Seg, recsTerm(d.Recs), infosTerm(b.infos), cutTerm, obs1,
		recsTerm(d.Recs2), infosTerm(infos2), obs2)
	// non-trivial: the cut falls strictly inside a record (a torn record exists), or the log spans segments
	torn := false
	if d.Cut >= 0 {
		torn = d.Cut != 0
		for _, e := range b.ends {
			if e == d.Cut {
				torn = false
			}
		}
	}
	multi := len(b.infos) > 0 && b.infos[len(b.infos)-1].SegmentID > 1
	if torn {
		c.Count("cut_inside_record")
	} else if d.Cut >= 0 {
		c.Count("cut_on_boundary")
	} else {
		c.Count("no_cut")
	}
	if multi {
		c.Count("multi_segment")
	}
	if n1 < len(d.Recs) {
		c.Count("records_lost_to_cut")
	}
	return corr.Case{Coq: term, Nontrivial: torn || multi, Desc: d}, nil
}

// ---- records too large for literals: symbolic payloads (PP n s), see Corr/RunWal.v ----

// plTerm prints a payload for a big case: PP n s only if EVERY byte equals the pattern.
func plTerm(b []byte) string {
	if len(b) > 24 {
		ok := true
		for i := range b {
			if b[i] != byte(int(b[0])+i) {
				ok = false
				break
			}
		}
		if ok {
			return fmt.Sprintf("(PP %d %d)", len(b), b[0])
		}
		if len(b) > 4096 {
			// a large payload that is NOT the pattern: report its length and a marker start byte
			// that cannot match (the pattern start is < 256)
			return fmt.Sprintf("(PP %d %d)", len(b), 256+int(b[0]))
		}
	}
	return "(PH (H " + corr.Hex(b) + "))"
}

func bigRecsTerm(rs []walRec) string {
	items := make([]string, len(rs))
	for i, r := range rs {
		if r.Hex == "" && r.N > 24 {
			items[i] = fmt.Sprintf("(%d, (PP %d %d))", r.Ty, r.N, r.S%256)
		} else {
			items[i] = fmt.Sprintf("(%d, %s)", r.Ty, plTerm(r.payload()))
		}
	}
	return corr.List(items)
}

func bigReplayObs(m *wal.Manager) string {
	var items []string
	err := m.Replay(func(info wal.EntryInfo, p []byte) error {
		items = append(items, fmt.Sprintf("(%d, %d, %d, %s)", info.SegmentID, info.Offset, info.Type, plTerm(p)))
		return nil
	})
	return fmt.Sprintf("(%s, %d)", corr.List(items), walErrCode(err))
}

// walBigCase: append recs one AppendRecords call each (a 64 MiB payload is built, written and
// dropped before the next one), Close, Replay, VerifyDir, Open, append recs2, Sync, Replay.
func walBigCase(c *corr.Ctx, root string, d walDesc) (corr.Case, error) {
	dir, err := os.MkdirTemp(root, "big")
	if err != nil {
		return corr.Case{}, err
	}
	defer os.RemoveAll(dir)
	m, err := wal.Open(wal.Config{Dir: dir, SegmentSize: d.Seg, BufferSize: 4096})
	if err != nil {
		return corr.Case{}, err
	}
	var infos []wal.EntryInfo
	maxLen := 0
	for _, r := range d.Recs {
		is, err := m.AppendRecords(wal.Record{Type: wal.RecordType(r.Ty), Payload: r.payload()})
		if err != nil {
			return corr.Case{}, err
		}
		infos = append(infos, is...)
		if r.N > maxLen {
			maxLen = r.N
		}
	}
	if err := m.Close(); err != nil {
		return corr.Case{}, err
	}
	m, err = wal.Open(wal.Config{Dir: dir, SegmentSize: d.Seg, BufferSize: 4096})
	if err != nil {
		return corr.Case{}, err
	}
	obs1 := bigReplayObs(m)
	if err := m.Close(); err != nil {
		return corr.Case{}, err
	}
	verr := walErrCode(wal.VerifyDir(dir, nil))
	m, err = wal.Open(wal.Config{Dir: dir, SegmentSize: d.Seg, BufferSize: 4096})
	if err != nil {
		return corr.Case{}, err
	}
	var infos2 []wal.EntryInfo
	for _, r := range d.Recs2 {
		is, err := m.AppendRecords(wal.Record{Type: wal.RecordType(r.Ty), Payload: r.payload()})
		if err != nil {
			return corr.Case{}, err
		}
		infos2 = append(infos2, is...)
	}
	if err := m.Sync(); err != nil {
		return corr.Case{}, err
	}
	obs2 := bigReplayObs(m)
	if err := m.Close(); err != nil {
		return corr.Case{}, err
	}
	term := fmt.Sprintf("Cb %d %s %s %s %d %s %s %s", d.Seg, bigRecsTerm(d.Recs), infosTerm(infos), obs1, verr,
		bigRecsTerm(d.Recs2), infosTerm(infos2), obs2)
	switch {
	case maxLen >= 64<<20:
		c.Count("big_record_above_64MiB")
	case maxLen >= 16<<20:
		c.Count("big_record_16MiB_to_64MiB")
	default:
		c.Count("big_record_1MiB_class")
	}
	d.Big = true
	return corr.Case{Coq: term, Nontrivial: true, Desc: d}, nil
}

// bigShapes: payload sizes around every constant the read path knows: kv.ReadBounded's 1 MiB
// preallocation cap (length = payload+1), the default 256 KiB reader buffer, 16 MiB, the default
// 64 MiB segment size, and a record that needs its own oversize segment under any configuration.
func bigShapes(tier string) [][]int {
	const Mi = 1 << 20
	quick := [][]int{{100, 64*Mi + 0, 7}} // length word = 64 MiB + 1
	if tier != "thorough" {
		return quick
	}
	return append(quick, [][]int{
		{Mi - 2, Mi - 1, Mi, Mi + 1, 5},
		{256<<10 - 9, 256 << 10, 256<<10 + 1},
		{16*Mi - 1, 16 * Mi, 3},
		{64*Mi - 2, 9},
		{64*Mi - 1, 64 * Mi, 64*Mi + 1},
		{0, 80 * Mi, 0},
	}...)
}

func genSmallRecs(c *corr.Ctx, n int) []walRec {
	sizes := []int{0, 0, 1, 2, 3, 4, 5, 7, 8, 9, 16, 31, 100}
	rs := make([]walRec, n)
	for i := range rs {
		rs[i] = walRec{Ty: uint8(corr.Pick(c.Rng, []int{0, 0, 1, 2, 3, 4, 200, 255})), N: corr.Pick(c.Rng, sizes), S: c.Rng.Intn(256)}
		if c.Rng.Intn(4) == 0 {
			rs[i].S = 0 // payloads of zero bytes / starting with 00: look like length words
		}
	}
	return rs
}

// genLargeRecs: logs that rotate. 32759+9 = 32768 (two fill a 64 KiB segment exactly),
// 65527+9 = 65536 (one fills it exactly), 65528 and 70000 exceed it (oversize segment after an
// empty or short one).
func genLargeRecs(c *corr.Ctx, i int) []walRec {
	shapes := [][]int{
		{32759, 32759, 5},
		{70000, 3},
		{100, 65527, 0},
		{32760, 32759, 7},
		{65528, 1},
		{20000, 30000, 20000},
		{7, 65519, 1, 30000},
	}
	sh := shapes[i%len(shapes)]
	rs := make([]walRec, len(sh))
	for j, n := range sh {
		rs[j] = walRec{Ty: uint8(c.Rng.Intn(5)), N: n, S: c.Rng.Intn(256)}
	}
	return rs
}

func runWal(c *corr.Ctx) error {
	c.Meta("run_module", "RunWal")
	c.Meta("rule", "real wal.Manager (SegmentSize in {1,65536,100000}, i.e. effective 64KiB/100000; BufferSize 4096): append records (types incl. unknown ones, payload sizes 0..70000 incl. sizes that fill a segment exactly / exceed it) in random batches, Close, cut the newest segment, Replay (EntryInfo segment/offset/type + payload + error class), VerifyDir, Open, AppendRecords, Sync, Replay. Small logs: every cut offset of the final segment; large multi-segment logs: all offsets within 6 bytes of a record boundary plus random ones. non-trivial = the cut falls strictly inside a record, or the log spans several segments. Oversize records (the append path has no maximum below the 32-bit length word): one log with a record whose length word is 64 MiB + 1 in the quick tier; in the thorough tier payload sizes around the 1 MiB preallocation cap of kv.ReadBounded, the 256 KiB reader buffer, 16 MiB, 64 MiB - 2 .. 64 MiB + 1 and 80 MiB, under segment sizes default/64 KiB/100000; payloads are a byte pattern compared in full by the harness and carried symbolically (length + pattern start) to the Coq side, positions compared with the model's length-only placement")
	root, err := os.MkdirTemp(os.Getenv("VERIF_TMP"), "walfam")
	if err != nil {
		return err
	}
	defer os.RemoveAll(root)

	if c.Replay != "" {
		cs, err := c.ReplayCases()
		if err != nil {
			return err
		}
		for _, rc := range cs {
			var d walDesc
			b, _ := json.Marshal(rc.Desc)
			if err := json.Unmarshal(b, &d); err != nil {
				return err
			}
			if d.Big {
				cs, err := walBigCase(c, root, d)
				if err != nil {
					return err
				}
				c.Emit(cs)
				continue
			}
			base, err := buildBase(c, root, d.Seg, d.Recs)
			if err != nil {
				return err
			}
			cs, err := walCase(c, root, base, d)
			if err != nil {
				return err
			}
			c.Emit(cs)
		}
		return nil
	}

	// oversize records first (symbolic payloads; seconds each, no cost on the Coq side)
	for i, sh := range bigShapes(c.Tier) {
		var recs []walRec
		for _, n := range sh {
			recs = append(recs, walRec{Ty: uint8(c.Rng.Intn(5)), N: n, S: c.Rng.Intn(256)})
		}
		seg := []int64{0, 65536, 100000}[i%3] // 0 = the default 64 MiB segment size
		d := walDesc{Seg: seg, Recs: recs, Cut: -1, Recs2: []walRec{{Ty: 2, N: 33, S: 7}}}
		cs, err := walBigCase(c, root, d)
		if err != nil {
			return err
		}
		c.Emit(cs)
	}

	var small, large []corr.Case
	// small logs, exhaustive cuts
	nSmall := c.Scale(10, 200)
	for i := 0; i < nSmall; i++ {
		recs := genSmallRecs(c, 1+c.Rng.Intn(4))
		seg := corr.Pick(c.Rng, []int64{1, 65536, 100000})
		base, err := buildBase(c, root, seg, recs)
		if err != nil {
			return err
		}
		for cut := int64(-1); cut <= base.lastLen; cut++ {
			d := walDesc{Seg: seg, Recs: recs, Cut: cut, Recs2: genSmallRecs(c, c.Rng.Intn(3))}
			cs, err := walCase(c, root, base, d)
			if err != nil {
				return err
			}
			small = append(small, cs)
		}
		os.RemoveAll(base.dir)
	}
	c.Meta("exhaustive", true)
	c.Meta("exhaustive_scope", "for each generated small log (1-4 records, payloads 0..100 bytes): every truncation offset 0..len of the final segment, plus the uncut log")

	// large logs with rotation, sampled cuts
	nLarge := c.Scale(4, 120)
	for i := 0; i < nLarge; i++ {
		recs := genLargeRecs(c, i)
		seg := corr.Pick(c.Rng, []int64{1, 65536, 100000})
		base, err := buildBase(c, root, seg, recs)
		if err != nil {
			return err
		}
		cuts := map[int64]bool{-1: true}
		for _, e := range append([]int64{0}, base.ends...) {
			for _, dlt := range []int64{-5, -4, -1, 0, 1, 3, 4, 5} {
				if c.Rng.Intn(3) == 0 {
					cuts[e+dlt] = true
				}
			}
		}
		if base.lastLen > 0 {
			cuts[c.Rng.Int63n(base.lastLen+1)] = true
		}
		var cl []int64
		for k := range cuts {
			if k >= -1 && k <= base.lastLen {
				cl = append(cl, k)
			}
		}
		sort.Slice(cl, func(a, b int) bool { return cl[a] < cl[b] })
		if len(cl) > 3 {
			c.Rng.Shuffle(len(cl), func(a, b int) { cl[a], cl[b] = cl[b], cl[a] })
			cl = cl[:3]
		}
		for _, cut := range cl {
			r2 := genSmallRecs(c, c.Rng.Intn(3))
			d := walDesc{Seg: seg, Recs: recs, Cut: cut, Recs2: r2}
			cs, err := walCase(c, root, base, d)
			if err != nil {
				return err
			}
			large = append(large, cs)
		}
		os.RemoveAll(base.dir)
	}
	// the large cases cost seconds each in Coq (CRC over ~100 KB): spread them over the shards
	step := 1
	if len(large) > 0 {
		step = len(small)/len(large) + 1
	}
	li := 0
	for i, cs := range small {
		if i%step == 0 && li < len(large) {
			c.Emit(large[li])
			li++
		}
		c.Emit(cs)
	}
	for ; li < len(large); li++ {
		c.Emit(large[li])
	}
	return nil
}

package main

import (
	"encoding/hex"
	"fmt"
	"math/rand"

	"github.com/feichai0017/NoKV/lsm/compact"
	"verifharness/internal/corr"
)

var vUserKeys = []string{"a", "a\x00", "ab", "b", "k", "z\xff"}
var vSizes = []int{0, 1, 31, 32, 33, 200}
var vFileSizes = []int{160, 300, 1024}

func hk(s string) string { return hex.EncodeToString([]byte(s)) }

type vProfile struct {
	plain   bool // plain API only (every version is the max sentinel)
	txnOnly bool // transactions only (unique, increasing versions)
	noPlain bool // SetVersionedEntry/DeleteVersionedEntry only, versions increasing over the run
	reopen  bool
	bigBias bool // half of the values are 200 bytes (nearly every record starts a value-log file)
	races   bool
	steps   int
}

func genWrite(rng *rand.Rand, p vProfile, next *uint64) string {
	key := hk(corr.Pick(rng, vUserKeys))
	size := corr.Pick(rng, vSizes)
	if rng.Intn(3) == 0 {
		size = 32 + rng.Intn(60)
	}
	if p.bigBias && rng.Intn(2) == 0 {
		size = 200
	}
	kind := rng.Intn(10)
	switch {
	case p.plain:
		kind = rng.Intn(4)
	case p.txnOnly:
		kind = 7
	case p.noPlain:
		kind = 4 + rng.Intn(3)
	}
	cf := 0
	if rng.Intn(6) == 0 {
		cf = 2
	}
	switch {
	case kind < 3:
		return fmt.Sprintf("set %d %s %d", cf, key, size)
	case kind < 4:
		return fmt.Sprintf("del %d %s", cf, key)
	case kind < 6:
		*next += uint64(1 + rng.Intn(2))
		meta := 0
		if rng.Intn(8) == 0 {
			meta = 16
		}
		return fmt.Sprintf("setv %d %s %d %d %d", cf, key, *next, size, meta)
	case kind < 7:
		*next += 1
		return fmt.Sprintf("delv %d %s %d", cf, key, *next)
	default:
		n := 1 + rng.Intn(3)
		st := "txn"
		seen := map[string]bool{}
		for i := 0; i < n; i++ {
			k := hk(corr.Pick(rng, vUserKeys))
			if seen[k] {
				continue
			}
			seen[k] = true
			switch rng.Intn(8) {
			case 0:
				st += fmt.Sprintf(" %s=del", k)
			case 1:
				st += fmt.Sprintf(" %s=%d@future", k, corr.Pick(rng, vSizes))
			default:
				st += fmt.Sprintf(" %s=%d", k, corr.Pick(rng, vSizes))
			}
		}
		return st
	}
}

func (r *vrun) program(p vProfile) {
	rng := r.c.Rng
	// Versions chosen by setv/delv grow per run and may interleave with commit timestamps.
	next := uint64(rng.Intn(3))
	base := 6
	for i := 0; i < p.steps; i++ {
		x := rng.Intn(100)
		switch {
		case x < 50:
			r.do(genWrite(rng, p, &next))
		case x < 62:
			if p.races && rng.Intn(2) == 0 {
				r.do(fmt.Sprintf("gcw %d %s", rng.Intn(8), genWrite(rng, p, &next)))
			} else {
				r.do(fmt.Sprintf("gc %d", rng.Intn(8)))
			}
			r.do("read")
		case x < 70:
			r.do("rotate")
			r.do("read")
		case x < 79:
			r.do("flush")
			r.do("read")
		case x < 84:
			if base > 1 && rng.Intn(5) == 0 {
				base--
			}
			r.do(fmt.Sprintf("compact 0 0 %d", base))
			r.do("read")
		case x < 89:
			r.do(fmt.Sprintf("compact %d %d 0", 1+rng.Intn(6), int(compact.IngestDrain)))
			r.do("read")
		case x < 91:
			r.do(fmt.Sprintf("compact %d %d 0", 1+rng.Intn(6), int(compact.IngestKeep)))
			r.do("read")
		case x < 94:
			r.do(fmt.Sprintf("compact %d %d 0", 1+rng.Intn(5), int(compact.IngestNone)))
			r.do("read")
		case x < 96 && p.reopen:
			r.do("reopen")
			r.do("read")
		default:
			r.do("gcall")
		}
	}
	r.do("read")
	r.do("gcall")
	r.do("rotate")
	r.do("flush")
	r.do("read")
}

// scripted programs, run before the random ones
var vScripts = map[string][]string{
	// every value size through every read API, then GC of every sealed file, then flush + reopen
	"sizes": {"set 0 61 0", "set 0 62 1", "set 0 6b 31", "set 0 6162 32", "set 0 6100 33", "set 0 7aff 200", "read",
		"txn 61=200 62=33 6b=32", "read", "gcall", "rotate", "flush", "read", "reopen", "read", "gcall", "read"},
	// overwrite history of one key with GC at every position
	"overwrite": {"set 0 61 200", "set 0 61 200", "gcall", "set 0 61 33", "set 0 62 200", "gcall", "del 0 61", "set 0 62 200", "set 0 6b 200", "gcall",
		"rotate", "flush", "read", "gcall", "read"},
	// the rewritten copy must keep winning over its original in older sources
	"tie": {"set 0 61 200", "set 0 62 200", "rotate", "flush", "gc 0", "read", "rotate", "read", "flush", "read", "compact 0 0 6", "read", "compact 6 1 0", "read", "reopen", "read"},
	// transactions with unique versions
	"txn": {"txn 61=200", "txn 61=200 62=200", "txn 61=del", "txn 62=200", "read", "gcall", "rotate", "flush", "gcall", "read"},
	// GC against a concurrent overwrite / delete of the same plain key (F12)
	"race_set": {"set 0 61 200", "set 0 62 200", "gcw 0 set 0 61 40", "read"},
	"race_del": {"set 0 61 200", "set 0 62 200", "gcw 0 del 0 61", "read"},
	"race_txn": {"txn 61=200", "txn 62=200", "gcw 0 txn 61=40", "read"},
	// an expired out-of-line entry: GC drops it and removes its file while the LSM still points there
	"expired": {"txn 61=200@past", "txn 62=200", "read", "gc 0", "read"},
	// hot/cold buckets: the first write of k goes to the cold bucket, the overwrite to the hot
	// bucket, both at (file 0, offset 20); then the cold file is sealed and collected
	"hot_cross":  {"set 0 6b 200", "set 0 6b 200", "set 0 61 200", "read", "gcall", "read", "rotate", "flush", "gcall", "read"},
	"hot_cross3": {"set 0 6b 200", "set 0 61 200", "set 0 6b 200", "set 0 61 200", "set 0 62 200", "set 0 7aff 200", "set 0 6162 200", "read", "gcall", "read", "set 0 6b 200", "set 0 61 33", "gcall", "read"},
	// GC's rewritten copy and its original (same internal key) end up in two tables of one ingest
	// buffer; the original's file is removed by the second GC pass (C01-F2 tie: key-range order, not age)
	"gc_ingest_tie": {"setv 0 6b 7 73 0", "rotate", "flush", "setv 0 61 8 73 0", "gc 0", "read", "rotate", "flush", "gc 0", "read", "compact 0 0 6", "read"},
	// a zero-length transactional value read through Txn.Get before and after its memtable is flushed
	"txn_empty": {"txn 61=0", "read", "rotate", "flush", "read"},
}

var vScriptCfg = map[string]vcfg{
	"sizes":         {Buckets: 2, FileSize: 300, Threshold: 32},
	"overwrite":     {Buckets: 1, FileSize: 300, Threshold: 32},
	"tie":           {Buckets: 1, FileSize: 300, Threshold: 32},
	"txn":           {Buckets: 3, FileSize: 300, Threshold: 32},
	"race_set":      {Buckets: 1, FileSize: 300, Threshold: 32},
	"race_del":      {Buckets: 1, FileSize: 300, Threshold: 32},
	"race_txn":      {Buckets: 1, FileSize: 300, Threshold: 32},
	"expired":       {Buckets: 1, FileSize: 300, Threshold: 32},
	"txn_empty":     {Buckets: 1, FileSize: 300, Threshold: 32},
	"gc_ingest_tie": {Buckets: 1, FileSize: 160, Threshold: 32},
	"hot_cross":     {Buckets: 2, FileSize: 300, Threshold: 32, Hot: 1, HotThr: 2},
	"hot_cross3":    {Buckets: 3, FileSize: 300, Threshold: 32, Hot: 1, HotThr: 2},
}

func runProg(c *corr.Ctx, cfg vcfg, prog []string, tag string) {
	r := newRun(c, cfg)
	for _, st := range prog {
		r.do(st)
	}
	r.finish(tag)
}

func runVlog(c *corr.Ctx) error {
	installHooks()
	c.Meta("run_module", "RunVlog")
	c.Meta("exhaustive", false)
	c.Meta("rule", "programs over a real DB (ValueThreshold 32, 1-3 value-log buckets (one profile with a reserved hot bucket: overwritten keys change bucket, (file, offset) pairs coincide across buckets; the chosen bucket is reported to the model), value-log file size 160/300/1024 so files rotate every few writes, background compaction paused, flushes gated): plain Set/Del, SetVersionedEntry/DeleteVersionedEntry, multi-key transactions (incl. TTL) with value sizes {0,1,31,32,33,200,32..91} over 6 user keys (byte-prefix pairs, 2 column families); GC (valueLog.rewrite) of chosen / every sealed file at every position; memtable rotation, flush, every compaction kind, close+reopen; GC with a writer running at the yield point between GC's decisions and its write-back. After every step: every touched key through GetVersionedEntry (every written version, version-1, max), GetCF, Txn.Get, and a full DB iterator scan; the value-log layout (files, record counts, head) after every write and GC. non-trivial = at least one value stored out of line and at least one GC or maintenance step; distinct by Gallina term")
	if c.Replay != "" {
		cases, err := c.ReplayCases()
		if err != nil {
			return err
		}
		for _, cs := range cases {
			d, ok := cs.Desc.(map[string]any)
			if !ok {
				continue
			}
			var cfg vcfg
			if m, ok := d["cfg"].(map[string]any); ok {
				cfg = vcfg{Buckets: int(m["buckets"].(float64)), FileSize: int(m["file_size"].(float64)), Threshold: int(m["threshold"].(float64))}
				if h, ok := m["hot"].(float64); ok {
					cfg.Hot = int(h)
				}
				if h, ok := m["hot_thr"].(float64); ok {
					cfg.HotThr = int(h)
				}
			}
			var prog []string
			if l, ok := d["prog"].([]any); ok {
				for _, x := range l {
					prog = append(prog, x.(string))
				}
			}
			runProg(c, cfg, prog, "replay")
		}
		return nil
	}
	for _, name := range corr.SortedKeys(vScripts) {
		c.Count("script_" + name)
		if vScriptCfg[name].Buckets == 0 {
			return fmt.Errorf("script %s has no configuration", name)
		}
		runProg(c, vScriptCfg[name], vScripts[name], "script:"+name)
	}
	n := c.Scale(16, 300)
	for i := 0; i < n; i++ {
		cfg := vcfg{Buckets: 1 + c.Rng.Intn(3), FileSize: corr.Pick(c.Rng, vFileSizes), Threshold: 32}
		p := vProfile{steps: 18 + c.Rng.Intn(24)}
		// The plain API (max-version sentinel), explicit versions and transactions are not to be
		// mixed on one DB (db.go: "do not mix"; across a reopen the oracle's next timestamp wraps):
		// three single-API profiles, plus one mixed profile without reopen that mostly exercises
		// the known LSM ordering findings.
		switch i % 4 {
		case 0:
			p.plain, p.reopen = true, true
			c.Count("profile_plain")
		case 1:
			p.txnOnly, p.reopen = true, true
			c.Count("profile_txn")
		case 2:
			p.noPlain, p.reopen = true, true
			c.Count("profile_versions")
		default:
			// hot/cold bucket routing: overwritten plain keys move between buckets, file ids and
			// offsets coincide across buckets (most records start a file at offset 20)
			p.plain, p.reopen, p.bigBias = true, true, true
			cfg.Buckets = 2 + c.Rng.Intn(2)
			cfg.FileSize = corr.Pick(c.Rng, []int{160, 300, 300})
			cfg.Hot, cfg.HotThr = 1, 2
			c.Count("profile_plain_hot_buckets")
		}
		p.races = i%2 == 0
		r := newRun(c, cfg)
		r.program(p)
		r.finish(fmt.Sprintf("random:%+v", p))
	}
	return nil
}

package main

import (
	"bytes"
	"encoding/hex"
	"errors"
	"fmt"
	"math"
	"os"
	"sort"
	"strconv"
	"strings"
	"sync"
	"time"

	NoKV "github.com/feichai0017/NoKV"
	"github.com/feichai0017/NoKV/kv"
	"github.com/feichai0017/NoKV/lsm"
	"github.com/feichai0017/NoKV/lsm/compact"
	"github.com/feichai0017/NoKV/utils"
	"github.com/feichai0017/NoKV/utils/verifhook"
	"verifharness/internal/corr"
)

// ---- hooks: flush gate (as in the lsm family) + the GC yield point ----

type gate struct {
	mu     sync.Mutex
	tokens chan struct{}
	open   bool
}

var flushGate = &gate{tokens: make(chan struct{}, 1024)}

// atGCDecided, when set, runs once on the GC goroutine at the yield point
// between rewrite's liveness decisions and its write-back.
var (
	gcMu        sync.Mutex
	atGCDecided func()
)

func installHooks() {
	verifhook.SetFlag("compaction.pause", true)
	verifhook.SetYield(func(name string) {
		switch name {
		case "lsm.flush.before":
			flushGate.mu.Lock()
			open := flushGate.open
			flushGate.mu.Unlock()
			if open {
				return
			}
			<-flushGate.tokens
		case "vlog.gc.rewrite.decided":
			gcMu.Lock()
			f := atGCDecided
			atGCDecided = nil
			gcMu.Unlock()
			if f != nil {
				f()
			}
		}
	})
}

func (g *gate) setOpen(b bool) {
	g.mu.Lock()
	g.open = b
	g.mu.Unlock()
}

func drainTokens() {
	for {
		select {
		case <-flushGate.tokens:
		default:
			return
		}
	}
}

// ---- one DB under test ----

type vcfg struct {
	Buckets   int `json:"buckets"`
	FileSize  int `json:"file_size"`
	Threshold int `json:"threshold"`
	// Hot > 0: that many buckets are reserved for hot keys (a key is hot from its HotThr-th
	// out-of-line write on); the bucket of every out-of-line entry is then reported, not predicted.
	Hot    int `json:"hot,omitempty"`
	HotThr int `json:"hot_thr,omitempty"`
}

type vrun struct {
	dir       string
	cfg       vcfg
	db        *NoKV.DB
	c         *corr.Ctx
	ops       []string
	desc      []string
	steps     []string // executed program, replayable
	seq       uint64
	now       uint64
	touched   map[string]map[uint64]bool
	keys      []string
	prev      map[string]bool // vlog records seen so far: "bucket/fid/offset"
	maint     int
	gcs       int
	gcMoved   int
	races     int
	big       int
	rot       int
	firstMem  uint32
	plainUsed bool
	valSeq    map[string]uint64 // written value bytes -> ghost number of a write carrying them
	reopened  bool
}

func (r *vrun) openOpts() *NoKV.Options {
	opt := NoKV.NewDefaultOptions()
	opt.WorkDir = r.dir
	opt.MemTableSize = 1 << 20
	opt.SSTableMaxSz = 1 << 20
	opt.ValueThreshold = int64(r.cfg.Threshold)
	opt.ValueLogFileSize = r.cfg.FileSize
	opt.ValueLogBucketCount = r.cfg.Buckets
	opt.ValueLogHotBucketCount = 0
	opt.ValueLogHotKeyThreshold = 0
	opt.HotRingEnabled = false
	if r.cfg.Hot > 0 {
		// hot/cold routing with a plain per-key counter (no window, rotation or decay)
		opt.ValueLogHotBucketCount = r.cfg.Hot
		opt.ValueLogHotKeyThreshold = int32(r.cfg.HotThr)
		opt.HotRingEnabled = true
		opt.ValueLogHotRingOverride = false
		opt.HotRingWindowSlots = 0
		opt.HotRingRotationInterval = 0
		opt.HotRingDecayInterval = 0
		opt.HotWriteBurstThreshold = 0
	}
	opt.EnableWALWatchdog = false
	opt.WriteHotKeyLimit = 0
	opt.NumCompactors = 1
	opt.ValueLogGCInterval = 0
	opt.DetectConflicts = true
	return opt
}

func (r *vrun) open() { r.db = NoKV.Open(r.openOpts()) }

func baseKey(cf kv.ColumnFamily, user []byte) []byte {
	ik := kv.InternalKey(cf, user, 0)
	return ik[:len(ik)-8]
}

func splitBase(bk []byte) (kv.ColumnFamily, []byte) {
	ik := append(append([]byte{}, bk...), make([]byte, 8)...)
	cf, user, _ := kv.SplitInternalKey(ik)
	return cf, user
}

func (r *vrun) emit(term, desc string) {
	r.ops = append(r.ops, term)
	r.desc = append(r.desc, desc)
}

func (r *vrun) touch(bk []byte, ver uint64) {
	s := string(bk)
	if r.touched[s] == nil {
		r.touched[s] = map[uint64]bool{}
		r.keys = append(r.keys, s)
	}
	r.touched[s][ver] = true
}

// ---- value-log layout ----

func recID(b, fid, off uint32) string { return fmt.Sprintf("%d/%d/%d", b, fid, off) }

func (r *vrun) vlayout() []NoKV.VerifVlogBucket {
	l, err := r.db.VerifVlogLayout()
	if err != nil {
		panic(err)
	}
	return l
}

// newRecords returns the value-log records not seen before, per bucket in (fid, offset) order, and marks them seen.
func (r *vrun) newRecords(l []NoKV.VerifVlogBucket) map[uint32][]NoKV.VerifVlogRecord {
	out := map[uint32][]NoKV.VerifVlogRecord{}
	for _, b := range l {
		for _, f := range b.Files {
			for _, rec := range f.Records {
				id := recID(b.Bucket, f.FID, rec.Offset)
				if !r.prev[id] {
					r.prev[id] = true
					out[b.Bucket] = append(out[b.Bucket], rec)
				}
			}
		}
	}
	return out
}

func (r *vrun) resetSeen(l []NoKV.VerifVlogBucket) {
	r.prev = map[string]bool{}
	r.newRecords(l)
}

func (r *vrun) emitVl(l []NoKV.VerifVlogBucket) {
	var bs []string
	for _, b := range l {
		var fs []string
		for _, f := range b.Files {
			fs = append(fs, fmt.Sprintf("(%d, %d)", f.FID, len(f.Records)))
		}
		bs = append(bs, fmt.Sprintf("(%d, %d, %d, %s)", b.Bucket, b.ActiveFID, b.HeadOffset, corr.List(fs)))
	}
	r.emit("XVl "+corr.List(bs), "vlog layout "+strings.Join(bs, " "))
}

// ---- writes ----

type wEnt struct {
	cf   kv.ColumnFamily
	user []byte
	ver  uint64
	val  []byte // nil = no value
	meta byte
	exp  uint64
}

func (e wEnt) ikey() []byte { return kv.InternalKey(e.cf, e.user, e.ver) }

// vref prints observed value bytes: by reference to a write when they equal a written value.
func (r *vrun) vref(v []byte) string {
	if len(v) >= 8 {
		if n, ok := r.valSeq[string(v)]; ok {
			return fmt.Sprintf("(VS %d)", n)
		}
	}
	return "(VH " + corr.Hex(v) + ")"
}

func (r *vrun) recTerm(e wEnt) string {
	r.seq++
	if len(e.val) >= 8 {
		if _, ok := r.valSeq[string(e.val)]; !ok {
			r.valSeq[string(e.val)] = r.seq
		}
	}
	return fmt.Sprintf("W %s %d %s %d %d %d", corr.Hex(baseKey(e.cf, e.user)), e.ver, corr.Hex(e.val), e.meta, e.exp, r.seq)
}

// emitWrite records one acknowledged write request. The order of its entries
// inside the request (a transaction's pending writes are a Go map) is read off
// the value-log records the request produced.
func (r *vrun) emitWrite(ents []wEnt, what string) {
	l := r.vlayout()
	fresh := r.newRecords(l)
	used := make([]bool, len(ents))
	routed := r.cfg.Hot > 0
	var terms []string
	var buckets []uint32
	for b := range fresh {
		buckets = append(buckets, b)
	}
	sort.Slice(buckets, func(i, j int) bool { return buckets[i] < buckets[j] })
	wrap := func(t string, b uint32) string {
		if routed {
			return fmt.Sprintf("(%s, %d)", t, b)
		}
		return t
	}
	op := "XW "
	if routed {
		op = "XWr "
	}
	for _, b := range buckets {
		for _, rec := range fresh[b] {
			found := false
			for i, e := range ents {
				if !used[i] && bytes.Equal(rec.Key, e.ikey()) {
					used[i], found = true, true
					terms = append(terms, wrap(r.recTerm(e), b))
					r.big++
					if routed {
						r.c.Count(fmt.Sprintf("routed_bucket_%d", b))
					}
					break
				}
			}
			if !found {
				// a record the harness did not write (the discard-statistics key): a write of the system
				base := kv.ParseKey(rec.Key)
				r.seq++
				r.emit(op+"["+wrap(fmt.Sprintf("W %s %d %s %d %d %d", corr.Hex(base), kv.ParseTs(rec.Key), corr.Hex(rec.Value), rec.Meta, rec.ExpiresAt, r.seq), b)+"]",
					fmt.Sprintf("system write key=%q", rec.Key))
				r.c.Count("system_vlog_write")
			}
		}
	}
	for i, e := range ents {
		if !used[i] {
			terms = append(terms, wrap(r.recTerm(e), 0))
		}
	}
	for _, e := range ents {
		r.touch(baseKey(e.cf, e.user), e.ver)
	}
	r.emit(op+corr.List(terms), what)
	r.emitVl(l)
}

// value of the given size, different for every write
func (r *vrun) mkVal(size int) []byte {
	if size < 0 {
		return nil
	}
	v := make([]byte, size)
	tag := fmt.Sprintf("%d.", r.seq+1)
	for i := range v {
		if i < len(tag) {
			v[i] = tag[i]
		} else {
			v[i] = byte('a' + (i+int(r.seq))%26)
		}
	}
	return v
}

// sanitize keeps a message safe inside a Coq comment (no quotes, no comment brackets).
func sanitize(msg string) string {
	return strings.Map(func(c rune) rune {
		switch {
		case c >= 'a' && c <= 'z', c >= 'A' && c <= 'Z', c >= '0' && c <= '9', c == ' ', c == ':', c == '.', c == '_', c == '-':
			return c
		}
		return '_'
	}, msg)
}

func unhexKey(s string) []byte {
	b, err := hex.DecodeString(s)
	if err != nil {
		panic(err)
	}
	return b
}

// ---- reads ----

func (r *vrun) obsOf(e *kv.Entry, err error) string {
	switch {
	case err == nil && e != nil:
		return fmt.Sprintf("(RV %s %d)", r.vref(e.Value), e.Meta)
	case errors.Is(err, utils.ErrKeyNotFound):
		return "RN"
	default:
		msg := "nil entry"
		if err != nil {
			msg = err.Error()
		}
		return fmt.Sprintf("RE (* %s *)", sanitize(msg))
	}
}

func (r *vrun) iterate() string {
	it := r.db.NewIterator(&utils.Options{IsAsc: true})
	defer it.Close()
	var items []string
	for it.Rewind(); it.Valid(); it.Next() {
		e := it.Item().Entry()
		if bytes.HasPrefix(e.Key, []byte("!NoKV!")) {
			continue
		}
		items = append(items, fmt.Sprintf("(%s, %d, %s, %d)", corr.Hex(baseKey(e.CF, e.Key)), e.Version, r.vref(e.Value), e.Meta))
	}
	return corr.List(items)
}

func (r *vrun) readAll() {
	for _, s := range r.keys {
		cf, user := splitBase([]byte(s))
		vers := map[uint64]bool{math.MaxUint64: true}
		for v := range r.touched[s] {
			vers[v] = true
		}
		var vs []uint64
		for v := range vers {
			vs = append(vs, v)
		}
		sort.Slice(vs, func(i, j int) bool { return vs[i] < vs[j] })
		for _, v := range vs {
			e, err := r.db.GetVersionedEntry(cf, user, v)
			o := r.obsOf(e, err)
			r.emit(fmt.Sprintf("G %s %d %s", corr.Hex([]byte(s)), v, o), fmt.Sprintf("getv cf=%d key=%q ver=%d -> %s", cf, user, v, o))
		}
		e, err := r.db.GetCF(cf, user)
		o := r.obsOf(e, err)
		r.emit(fmt.Sprintf("GP %s %s", corr.Hex([]byte(s)), o), fmt.Sprintf("get cf=%d key=%q -> %s", cf, user, o))
		// after a reopen the plain API's max-version sentinel has wrapped the oracle's next timestamp (the two APIs are not to be mixed)
		if cf == kv.CFDefault && !(r.plainUsed && r.reopened) {
			txn := r.db.NewTransaction(false)
			ts := txn.ReadTs()
			item, err := txn.Get(user)
			var te *kv.Entry
			if item != nil {
				te = item.Entry()
			}
			o := r.obsOf(te, err)
			txn.Discard()
			r.emit(fmt.Sprintf("GT %s %d %s", corr.Hex([]byte(s)), ts, o), fmt.Sprintf("txn.get key=%q readTs=%d -> %s", user, ts, o))
		}
	}
	r.emit("XIter "+r.iterate(), "iterate")
}

// ---- LSM maintenance (as in the lsm family) ----

func fidsOf(ts []lsm.VerifTable) []uint64 {
	out := make([]uint64, 0, len(ts))
	for _, t := range ts {
		out = append(out, t.FID)
	}
	return out
}

func (r *vrun) layout() lsm.VerifLayout { return r.db.VerifLSM().VerifLayout(true) }

func (r *vrun) emitLayout(l lsm.VerifLayout) {
	var imms []uint64
	for _, m := range l.Immutables {
		imms = append(imms, uint64(m.SegmentID))
	}
	var lv []string
	for _, L := range l.Levels[1:] {
		var sh []string
		for _, rs := range L.Ranges {
			sh = append(sh, corr.ListN(rs))
		}
		for len(sh) < 4 {
			sh = append(sh, "[]")
		}
		lv = append(lv, fmt.Sprintf("(%s, %s)", corr.List(sh), corr.ListN(fidsOf(L.Main))))
	}
	r.emit(fmt.Sprintf("XLayout %s %s %s", corr.ListN(imms), corr.ListN(fidsOf(l.Levels[0].Main)), corr.List(lv)), "layout")
}

func (r *vrun) rotate() {
	r.db.VerifLSM().Rotate()
	l := r.layout()
	r.emit(fmt.Sprintf("XRotate %d", l.Active.SegmentID), "rotate")
	r.emitLayout(l)
}

func (r *vrun) flushOne() bool {
	ls := r.db.VerifLSM()
	n := ls.VerifNumImmutables()
	if n == 0 {
		return false
	}
	flushGate.tokens <- struct{}{}
	if err := ls.VerifWaitFlushed(n-1, 20*time.Second); err != nil {
		panic(err)
	}
	r.emit("XFlush", "flush")
	r.emitLayout(r.layout())
	return true
}

type tabLoc struct {
	level  int
	ingest bool
	t      lsm.VerifTable
}

func locate(l lsm.VerifLayout) map[uint64]tabLoc {
	m := map[uint64]tabLoc{}
	for _, L := range l.Levels {
		for _, t := range L.Main {
			m[t.FID] = tabLoc{L.Level, false, t}
		}
		for _, sh := range L.Shards {
			for _, t := range sh {
				m[t.FID] = tabLoc{L.Level, true, t}
			}
		}
	}
	return m
}

func metaOf(ts []lsm.VerifTable) []compact.TableMeta {
	var out []compact.TableMeta
	for _, t := range ts {
		out = append(out, compact.TableMeta{ID: t.FID, MinKey: t.MinKey, MaxKey: t.MaxKey, MaxVersion: t.MaxVersion})
	}
	return out
}

// compactOnce runs one compaction attempt and derives the executed plan from the layout difference.
func (r *vrun) compactOnce(level, mode, base int) bool {
	before := r.layout()
	err := r.db.VerifLSM().VerifCompact(level, mode, base)
	if err != nil {
		if errors.Is(err, utils.ErrFillTables) {
			return false
		}
		r.emit(fmt.Sprintf("XLayout [] [] [] (* compaction error: %s *)", sanitize(err.Error())), "compaction error")
		return false
	}
	after := r.layout()
	b, a := locate(before), locate(after)
	var removed, addedIDs, moved []uint64
	for id, lb := range b {
		la, ok := a[id]
		if !ok {
			removed = append(removed, id)
		} else if la.level != lb.level || la.ingest != lb.ingest {
			moved = append(moved, id)
		}
	}
	for id := range a {
		if _, ok := b[id]; !ok {
			addedIDs = append(addedIDs, id)
		}
	}
	if len(removed) == 0 && len(addedIDs) == 0 && len(moved) == 0 {
		return false
	}
	sort.Slice(addedIDs, func(i, j int) bool {
		return utils.CompareKeys(a[addedIDs[i]].t.MinKey, a[addedIDs[j]].t.MinKey) < 0
	})
	sort.Slice(removed, func(i, j int) bool { return removed[i] < removed[j] })
	sort.Slice(moved, func(i, j int) bool { return moved[i] < moved[j] })
	var added []string
	for _, id := range addedIDs {
		added = append(added, fmt.Sprintf("(%d, %d)", id, len(a[id].t.Entries)))
	}
	kind, lvl := "", 0
	var top, bot []uint64
	switch {
	case len(moved) > 0:
		kind, lvl, top = "KMove", a[moved[0]].level, moved
	case level == 0:
		kind, lvl, top = "KL0L0", 0, removed
	case mode == int(compact.IngestKeep):
		kind, lvl = "KKeep", level
		for _, id := range removed {
			if b[id].ingest {
				top = append(top, id)
			}
		}
		var tops []lsm.VerifTable
		for _, id := range top {
			tops = append(tops, b[id].t)
		}
		next := before.Levels[level].Main
		kr := compact.RangeForTables(metaOf(tops))
		lo, hi := compact.OverlappingTables(metaOf(next), kr)
		bot = fidsOf(next[lo:hi])
	case mode == int(compact.IngestDrain):
		kind, lvl = "KDrain", level
		for _, id := range removed {
			if b[id].ingest {
				top = append(top, id)
			} else {
				bot = append(bot, id)
			}
		}
	default:
		kind, lvl = "KRegular", level
		for _, id := range removed {
			if b[id].level == level {
				top = append(top, id)
			} else {
				bot = append(bot, id)
			}
		}
	}
	r.emit(fmt.Sprintf("XCompact %s %d %s %s %s", kind, lvl, corr.ListN(top), corr.ListN(bot), corr.List(added)),
		fmt.Sprintf("compact level=%d mode=%d base=%d -> %s top=%v bot=%v added=%v", level, mode, base, kind, top, bot, added))
	r.c.Count("compact_" + kind)
	r.emitLayout(after)
	return true
}

func (r *vrun) closeDB() int {
	n := r.db.VerifLSM().VerifNumImmutables()
	flushGate.setOpen(true)
	flushGate.tokens <- struct{}{}
	if err := r.db.Close(); err != nil {
		panic(err)
	}
	drainTokens()
	flushGate.setOpen(false)
	return n
}

func (r *vrun) reopen() {
	n := r.closeDB()
	for i := 0; i < n; i++ {
		r.emit("XFlush", "flush (during close)")
	}
	r.open()
	// records the system wrote while closing (discard statistics) come first
	vl := r.vlayout()
	for b, recs := range r.newRecords(vl) {
		for _, rec := range recs {
			r.seq++
			t := fmt.Sprintf("W %s %d %s %d %d %d", corr.Hex(kv.ParseKey(rec.Key)), kv.ParseTs(rec.Key), corr.Hex(rec.Value), rec.Meta, rec.ExpiresAt, r.seq)
			if r.cfg.Hot > 0 {
				r.emit(fmt.Sprintf("XWr [(%s, %d)]", t, b), fmt.Sprintf("system write during close bucket=%d key=%q", b, rec.Key))
			} else {
				r.emit("XW ["+t+"]", fmt.Sprintf("system write during close bucket=%d key=%q", b, rec.Key))
			}
			r.c.Count("system_vlog_write")
		}
	}
	l := r.layout()
	var heads []string
	for _, b := range vl {
		heads = append(heads, fmt.Sprintf("(%d, %d, %d)", b.Bucket, b.ActiveFID, b.HeadOffset))
	}
	r.emit(fmt.Sprintf("XReopen %d %d %s", l.Active.SegmentID, l.MaxFID, corr.List(heads)), "reopen")
	r.emitLayout(l)
	r.emitVl(vl)
	r.c.Count("reopen")
}

// ---- GC ----

type gcTarget struct{ bucket, fid uint32 }

func (r *vrun) gcCandidates() []gcTarget {
	var out []gcTarget
	for _, b := range r.vlayout() {
		for _, f := range b.Files {
			if f.FID < b.ActiveFID {
				out = append(out, gcTarget{b.Bucket, f.FID})
			}
		}
	}
	return out
}

// runGC rewrites one value-log file; writer, when not nil, is a write step
// executed at GC's yield point (after its liveness decisions, before its write-back).
func (r *vrun) runGC(t gcTarget, writer string) {
	before := r.iterate()
	var wterm, wdesc string
	if writer != "" {
		gcMu.Lock()
		atGCDecided = func() {
			mark := len(r.ops)
			r.step(writer)
			// the writer's emitted ops are folded into the race op
			var ts []string
			for _, o := range r.ops[mark:] {
				if strings.HasPrefix(o, "XW ") {
					ts = append(ts, strings.TrimPrefix(o, "XW "))
				} else if strings.HasPrefix(o, "XWr ") {
					ts = append(ts, strings.TrimPrefix(o, "XWr "))
				}
			}
			r.ops, r.desc = r.ops[:mark], r.desc[:mark]
			wterm = strings.Join(ts, " ++ ")
			wdesc = writer
		}
		gcMu.Unlock()
	}
	err := r.db.VerifRunGC(t.bucket, t.fid)
	gcMu.Lock()
	ran := atGCDecided == nil
	atGCDecided = nil
	gcMu.Unlock()
	res := 0
	if err != nil {
		res = 1
	}
	l := r.vlayout()
	nseq := r.seq + 1 // ghost numbers of the entries GC wrote back: after everything acknowledged so far
	fresh := r.newRecords(l)
	moved := 0
	var routes []string
	var fb []uint32
	for b := range fresh {
		fb = append(fb, b)
	}
	sort.Slice(fb, func(i, j int) bool { return fb[i] < fb[j] })
	for _, b := range fb {
		for _, rec := range fresh[b] {
			moved++
			routes = append(routes, fmt.Sprintf("Rt %s %d %d", corr.Hex(kv.ParseKey(rec.Key)), kv.ParseTs(rec.Key), b))
		}
	}
	routed := r.cfg.Hot > 0
	switch {
	case writer != "" && ran && wterm != "" && routed:
		r.emit(fmt.Sprintf("XGCWr %d %d %d (%s) %d %s", t.bucket, t.fid, nseq, wterm, res, corr.List(routes)), fmt.Sprintf("gc bucket=%d fid=%d with writer %q at the yield point -> err=%v", t.bucket, t.fid, wdesc, err))
		r.races++
	case writer != "" && ran && wterm != "":
		r.emit(fmt.Sprintf("XGCW %d %d %d (%s) %d", t.bucket, t.fid, nseq, wterm, res), fmt.Sprintf("gc bucket=%d fid=%d with writer %q at the yield point -> err=%v", t.bucket, t.fid, wdesc, err))
		r.races++
	case routed:
		r.emit(fmt.Sprintf("XGCr %d %d %d %d %s", t.bucket, t.fid, nseq, res, corr.List(routes)), fmt.Sprintf("gc bucket=%d fid=%d -> err=%v", t.bucket, t.fid, err))
	default:
		r.emit(fmt.Sprintf("XGC %d %d %d %d", t.bucket, t.fid, nseq, res), fmt.Sprintf("gc bucket=%d fid=%d -> err=%v", t.bucket, t.fid, err))
	}
	r.resetSeen(l)
	r.seq += uint64(moved)
	r.gcs++
	r.gcMoved += moved
	r.c.CountN("gc_records_moved", moved)
	r.emitVl(l)
	after := r.iterate()
	if writer == "" {
		r.emit(fmt.Sprintf("XIterSame %s %s", before, after), "iterator output before and after gc")
	}
}

// ---- program steps ----

func (r *vrun) step(st string) {
	f := strings.Fields(st)
	atoi := func(s string) int {
		n, err := strconv.Atoi(s)
		if err != nil {
			panic(fmt.Sprintf("bad step %q", st))
		}
		return n
	}
	atou := func(s string) uint64 {
		n, err := strconv.ParseUint(s, 10, 64)
		if err != nil {
			panic(fmt.Sprintf("bad step %q", st))
		}
		return n
	}
	switch f[0] {
	case "set": // set cf key size
		r.plainUsed = true
		cf, user, val := kv.ColumnFamily(atoi(f[1])), unhexKey(f[2]), r.mkVal(atoi(f[3]))
		if err := r.db.SetCF(cf, user, val); err != nil {
			panic(err)
		}
		meta := byte(0)
		if val == nil {
			meta = kv.BitDelete
		}
		r.emitWrite([]wEnt{{cf: cf, user: user, ver: math.MaxUint64, val: val, meta: meta}}, st)
	case "del": // del cf key
		r.plainUsed = true
		cf, user := kv.ColumnFamily(atoi(f[1])), unhexKey(f[2])
		if err := r.db.DelCF(cf, user); err != nil {
			panic(err)
		}
		r.emitWrite([]wEnt{{cf: cf, user: user, ver: math.MaxUint64, meta: kv.BitDelete}}, st)
	case "setv": // setv cf key ver size meta
		cf, user, ver, val, meta := kv.ColumnFamily(atoi(f[1])), unhexKey(f[2]), atou(f[3]), r.mkVal(atoi(f[4])), byte(atoi(f[5]))
		if err := r.db.SetVersionedEntry(cf, user, ver, val, meta); err != nil {
			panic(err)
		}
		r.emitWrite([]wEnt{{cf: cf, user: user, ver: ver, val: val, meta: meta}}, st)
	case "delv": // delv cf key ver
		cf, user, ver := kv.ColumnFamily(atoi(f[1])), unhexKey(f[2]), atou(f[3])
		if err := r.db.DeleteVersionedEntry(cf, user, ver); err != nil {
			panic(err)
		}
		r.emitWrite([]wEnt{{cf: cf, user: user, ver: ver, meta: kv.BitDelete}}, st)
	case "txn": // txn key=size[@exp] | key=del ...
		txn := r.db.NewTransaction(true)
		var ents []wEnt
		for _, a := range f[1:] {
			kvp := strings.SplitN(a, "=", 2)
			user := unhexKey(kvp[0])
			if kvp[1] == "del" {
				if err := txn.Delete(user); err != nil {
					panic(err)
				}
				ents = append(ents, wEnt{cf: kv.CFDefault, user: user, meta: kv.BitDelete})
				continue
			}
			se := strings.SplitN(kvp[1], "@", 2)
			r.seq += uint64(len(ents)) // distinct values inside one transaction
			val := r.mkVal(atoi(se[0]))
			r.seq -= uint64(len(ents))
			e := kv.NewEntry(user, val)
			var exp uint64
			if len(se) == 2 {
				switch se[1] {
				case "past":
					exp = 1
				case "future":
					exp = r.now + 1000000
				}
				e.ExpiresAt = exp
			}
			if err := txn.SetEntry(e); err != nil {
				panic(err)
			}
			ents = append(ents, wEnt{cf: kv.CFDefault, user: user, val: val, exp: exp})
		}
		if err := txn.Commit(); err != nil {
			panic(err)
		}
		next, _, _, _ := r.db.VerifOracleState()
		for i := range ents {
			ents[i].ver = next - 1
		}
		r.c.Count("txn_commit")
		r.emitWrite(ents, st)
	case "rotate":
		r.rotate()
		r.maint++
	case "flush":
		if r.flushOne() {
			r.maint++
		}
	case "age":
		r.db.VerifLSM().VerifAgeTables(time.Hour)
	case "compact": // compact level mode base
		if r.compactOnce(atoi(f[1]), atoi(f[2]), atoi(f[3])) {
			r.maint++
		}
	case "reopen":
		r.reopen()
		r.reopened = true
		r.maint++
	case "gc": // gc i : the i-th non-active file
		cs := r.gcCandidates()
		if len(cs) > 0 {
			r.runGC(cs[atoi(f[1])%len(cs)], "")
		}
	case "gcall":
		for _, t := range r.gcCandidates() {
			r.runGC(t, "")
			r.readAll()
		}
	case "gcw": // gcw i <write step...>
		cs := r.gcCandidates()
		if len(cs) > 0 {
			r.runGC(cs[atoi(f[1])%len(cs)], strings.Join(f[2:], " "))
		}
	case "read":
		r.readAll()
	default:
		panic(fmt.Sprintf("unknown step %q", st))
	}
}

func (r *vrun) do(st string) {
	r.steps = append(r.steps, st)
	r.step(st)
}

func newRun(c *corr.Ctx, cfg vcfg) *vrun {
	dir, err := os.MkdirTemp(os.Getenv("VERIF_TMP"), "nokv-vlog-")
	if err != nil {
		panic(err)
	}
	r := &vrun{dir: dir, cfg: cfg, c: c, touched: map[string]map[uint64]bool{}, prev: map[string]bool{}, valSeq: map[string]uint64{}, now: uint64(time.Now().Unix())}
	flushGate.setOpen(false)
	r.open()
	r.firstMem = r.layout().Active.SegmentID
	r.emitVl(r.vlayout())
	return r
}

func (r *vrun) finish(tag string) {
	first := r.firstMem
	r.closeDB()
	os.RemoveAll(r.dir)
	nontriv := r.big > 0 && (r.gcs > 0 || r.maint > 0)
	r.c.CountN("gc_runs", r.gcs)
	r.c.CountN("gc_races", r.races)
	r.c.CountN("vlog_values", r.big)
	r.c.Count(fmt.Sprintf("buckets_%d", r.cfg.Buckets))
	if r.cfg.Hot > 0 {
		r.c.Count("hot_bucket_routing")
	}
	r.c.Count(fmt.Sprintf("file_size_%d", r.cfg.FileSize))
	term := fmt.Sprintf("Cs %d %d %d %d %d %s", first, r.now, r.cfg.Threshold, r.cfg.FileSize, r.cfg.Buckets, corr.List(r.ops))
	r.c.Emit(corr.Case{Coq: term, Nontrivial: nontriv, Desc: map[string]any{"tag": tag, "cfg": r.cfg, "prog": r.steps}})
	_ = r.desc // the per-op trace is kept out of the case description (size); --replay of the program regenerates it
}

// Harness binary for the value-log family (C08).
package main

import "verifharness/internal/corr"

func main() {
	corr.Main(map[string]corr.Family{"vlog": runVlog})
}

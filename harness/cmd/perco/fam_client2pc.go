package main

import (
	"context"
	"encoding/json"
	"fmt"
	"net"
	"os"
	"path/filepath"
	"runtime"
	"sort"
	"strings"
	"sync"
	"sync/atomic"
	"time"

	"google.golang.org/grpc"
	"google.golang.org/grpc/codes"
	"google.golang.org/grpc/credentials/insecure"
	"google.golang.org/grpc/status"
	"google.golang.org/grpc/test/bufconn"

	NoKV "github.com/feichai0017/NoKV"
	"github.com/feichai0017/NoKV/pb"
	"github.com/feichai0017/NoKV/raftstore/client"
	rkv "github.com/feichai0017/NoKV/raftstore/kv"
	"verifharness/internal/corr"
)

// C28: the real raftstore/client.Client against fault-injecting TinyKv stores backed by real
// kv.Apply on region DBs.

// ---- case description (replayable) ----

type C2Interferer struct {
	At   int    `json:"at"`   // before this RPC attempt of the client under test
	Kind string `json:"kind"` // push | early | expire_check | expire_resolve
}

type C2Desc struct {
	Muts    []Mut          `json:"muts"` // keys: one letter; the harness appends a per-case suffix
	Primary string         `json:"primary"`
	Base    []string       `json:"base"` // keys that hold a committed old value
	Start   uint64         `json:"start"`
	Commit  uint64         `json:"commit"`
	TTL     uint64         `json:"ttl"`
	Fault   map[int]string `json:"fault,omitempty"` // attempt index -> fail_before | notleader_before | fail_after | regionerr_after
	Interf  []C2Interferer `json:"interf,omitempty"`
}

// three fixed regions
var c2Regions = []*pb.RegionMeta{
	{Id: 1, StartKey: nil, EndKey: []byte("h"), EpochVersion: 1, EpochConfVersion: 1, Peers: []*pb.RegionPeer{{StoreId: 1, PeerId: 101}}},
	{Id: 2, StartKey: []byte("h"), EndKey: []byte("p"), EpochVersion: 1, EpochConfVersion: 1, Peers: []*pb.RegionPeer{{StoreId: 2, PeerId: 201}}},
	{Id: 3, StartKey: []byte("p"), EndKey: nil, EpochVersion: 1, EpochConfVersion: 1, Peers: []*pb.RegionPeer{{StoreId: 3, PeerId: 301}}},
}

func c2RegionOf(key string) uint64 {
	switch {
	case key < "h":
		return 1
	case key < "p":
		return 2
	}
	return 3
}

type c2Resolver struct{}

func (c2Resolver) GetRegionByKey(_ context.Context, req *pb.GetRegionByKeyRequest) (*pb.GetRegionByKeyResponse, error) {
	return &pb.GetRegionByKeyResponse{Region: c2Regions[c2RegionOf(string(req.GetKey()))-1]}, nil
}
func (c2Resolver) Close() error { return nil }

// ---- one run (case in progress) ----

type c2Run struct {
	mu      sync.Mutex
	events  []string // Gallina [ev] terms
	armed   bool     // TwoPhaseCommit of the client under test is in progress
	nested  int32    // >0 while a reader/resolver acts from inside a handler
	attempt int
	fault   map[int]string
	interf  map[int]func()
	pwOrder []uint64 // regions in order of first prewrite / commit attempt
	cmOrder []uint64
}

type c2World struct {
	dbs     map[uint64]*NoKV.DB
	servers []*grpc.Server
	lis     map[string]*bufconn.Listener
	main    *client.Client
	aux     *client.Client
	run     atomic.Pointer[c2Run]
	dir     string
}

type c2Store struct {
	pb.UnimplementedTinyKvServer
	w      *c2World
	region uint64
}

func faultCoq(f string) string {
	switch f {
	case "fail_before":
		return "FFailBefore"
	case "notleader_before":
		return "FNotLeaderBefore"
	case "fail_after":
		return "FFailAfter"
	case "regionerr_after":
		return "FRegionErrAfter"
	}
	return "FNone"
}

func reqOfPB(r *pb.Request) Req {
	switch c := r.GetCmd().(type) {
	case *pb.Request_Prewrite:
		q := Req{T: "pw", Primary: string(c.Prewrite.GetPrimaryLock()), Start: U64(c.Prewrite.GetStartVersion()), TTL: U64(c.Prewrite.GetLockTtl()), MinC: U64(c.Prewrite.GetMinCommitTs())}
		for _, m := range c.Prewrite.GetMutations() {
			q.Muts = append(q.Muts, Mut{Op: int(m.GetOp()), Key: string(m.GetKey()), Val: string(m.GetValue())})
		}
		return q
	case *pb.Request_Commit:
		q := Req{T: "cm", Start: U64(c.Commit.GetStartVersion()), Commit: U64(c.Commit.GetCommitVersion())}
		for _, k := range c.Commit.GetKeys() {
			q.Keys = append(q.Keys, string(k))
		}
		return q
	case *pb.Request_BatchRollback:
		q := Req{T: "rb", Start: U64(c.BatchRollback.GetStartVersion())}
		for _, k := range c.BatchRollback.GetKeys() {
			q.Keys = append(q.Keys, string(k))
		}
		return q
	case *pb.Request_ResolveLock:
		q := Req{T: "rs", Start: U64(c.ResolveLock.GetStartVersion()), Commit: U64(c.ResolveLock.GetCommitVersion())}
		for _, k := range c.ResolveLock.GetKeys() {
			q.Keys = append(q.Keys, string(k))
		}
		return q
	case *pb.Request_CheckTxnStatus:
		x := c.CheckTxnStatus
		return Req{T: "ck", Primary: string(x.GetPrimaryKey()), Start: U64(x.GetLockTs()), Current: U64(x.GetCurrentTs()), Caller: U64(x.GetCallerStartTs()), RB: x.GetRollbackIfNotExist()}
	case *pb.Request_Get:
		return Req{T: "get", Key: string(c.Get.GetKey()), Version: U64(c.Get.GetVersion())}
	}
	panic("client2pc: unexpected request")
}

// exec is the body of every handler: fault injection for the client under test, kv.Apply on the
// region DB, logging.
func (s *c2Store) exec(req *pb.Request) (*pb.Response, *pb.RegionError, error) {
	run := s.w.run.Load()
	isClient := false
	fault := ""
	idx := -1
	run.mu.Lock()
	if run.armed && atomic.LoadInt32(&run.nested) == 0 {
		isClient = true
		idx = run.attempt
		run.attempt++
		fault = run.fault[idx]
		order := &run.pwOrder
		if req.GetCmdType() == pb.CmdType_CMD_COMMIT {
			order = &run.cmOrder
		}
		seen := false
		for _, r := range *order {
			seen = seen || r == s.region
		}
		if !seen {
			*order = append(*order, s.region)
		}
	}
	var act func()
	if isClient {
		act = run.interf[idx]
	}
	run.mu.Unlock()
	if act != nil {
		atomic.AddInt32(&run.nested, 1)
		act()
		atomic.AddInt32(&run.nested, -1)
	}
	coqReq := reqOfPB(req).coq()
	if isClient && (fault == "fail_before" || fault == "notleader_before") {
		run.mu.Lock()
		run.events = append(run.events, fmt.Sprintf("EC %d (%s) %s None", s.region, coqReq, faultCoq(fault)))
		run.mu.Unlock()
		if fault == "fail_before" {
			return nil, nil, status.Error(codes.Unavailable, "injected: lost before execution")
		}
		return nil, &pb.RegionError{NotLeader: &pb.NotLeader{RegionId: s.region}}, nil
	}
	run.mu.Lock()
	out := "ObsOther"
	resp, err := rkv.Apply(s.w.dbs[s.region], &pb.RaftCmdRequest{Requests: []*pb.Request{req}})
	var r0 *pb.Response
	if err == nil && resp != nil && len(resp.Responses) == 1 {
		r0 = resp.Responses[0]
		out = respCoq(r0)
	}
	if isClient {
		run.events = append(run.events, fmt.Sprintf("EC %d (%s) %s (Some %s)", s.region, coqReq, faultCoq(fault), out))
	} else {
		run.events = append(run.events, fmt.Sprintf("EO (%s) %s", coqReq, out))
	}
	run.mu.Unlock()
	if err != nil {
		return nil, nil, status.Errorf(codes.Internal, "%v", err)
	}
	if isClient && fault == "fail_after" {
		return nil, nil, status.Error(codes.Unavailable, "injected: reply lost")
	}
	if isClient && fault == "regionerr_after" {
		return nil, &pb.RegionError{NotLeader: &pb.NotLeader{RegionId: s.region}}, nil
	}
	return r0, nil, nil
}

func (s *c2Store) KvPrewrite(_ context.Context, in *pb.KvPrewriteRequest) (*pb.KvPrewriteResponse, error) {
	r, re, err := s.exec(&pb.Request{CmdType: pb.CmdType_CMD_PREWRITE, Cmd: &pb.Request_Prewrite{Prewrite: in.GetRequest()}})
	if err != nil {
		return nil, err
	}
	return &pb.KvPrewriteResponse{RegionError: re, Response: r.GetPrewrite()}, nil
}
func (s *c2Store) KvCommit(_ context.Context, in *pb.KvCommitRequest) (*pb.KvCommitResponse, error) {
	r, re, err := s.exec(&pb.Request{CmdType: pb.CmdType_CMD_COMMIT, Cmd: &pb.Request_Commit{Commit: in.GetRequest()}})
	if err != nil {
		return nil, err
	}
	return &pb.KvCommitResponse{RegionError: re, Response: r.GetCommit()}, nil
}
func (s *c2Store) KvResolveLock(_ context.Context, in *pb.KvResolveLockRequest) (*pb.KvResolveLockResponse, error) {
	r, re, err := s.exec(&pb.Request{CmdType: pb.CmdType_CMD_RESOLVE_LOCK, Cmd: &pb.Request_ResolveLock{ResolveLock: in.GetRequest()}})
	if err != nil {
		return nil, err
	}
	return &pb.KvResolveLockResponse{RegionError: re, Response: r.GetResolveLock()}, nil
}
func (s *c2Store) KvCheckTxnStatus(_ context.Context, in *pb.KvCheckTxnStatusRequest) (*pb.KvCheckTxnStatusResponse, error) {
	r, re, err := s.exec(&pb.Request{CmdType: pb.CmdType_CMD_CHECK_TXN_STATUS, Cmd: &pb.Request_CheckTxnStatus{CheckTxnStatus: in.GetRequest()}})
	if err != nil {
		return nil, err
	}
	return &pb.KvCheckTxnStatusResponse{RegionError: re, Response: r.GetCheckTxnStatus()}, nil
}
func (s *c2Store) KvGet(_ context.Context, in *pb.KvGetRequest) (*pb.KvGetResponse, error) {
	r, re, err := s.exec(&pb.Request{CmdType: pb.CmdType_CMD_GET, Cmd: &pb.Request_Get{Get: in.GetRequest()}})
	if err != nil {
		return nil, err
	}
	return &pb.KvGetResponse{RegionError: re, Response: r.GetGet()}, nil
}

func newC2World(tmp string) (*c2World, error) {
	dir, err := os.MkdirTemp(tmp, "c2")
	if err != nil {
		return nil, err
	}
	w := &c2World{dbs: map[uint64]*NoKV.DB{}, lis: map[string]*bufconn.Listener{}, dir: dir}
	var eps []client.StoreEndpoint
	for id := uint64(1); id <= 3; id++ {
		w.dbs[id] = openDB(filepath.Join(dir, fmt.Sprintf("region%d", id)), 64<<20)
		addr := fmt.Sprintf("passthrough:///store%d", id)
		l := bufconn.Listen(1 << 20)
		w.lis[fmt.Sprintf("store%d", id)] = l
		srv := grpc.NewServer()
		pb.RegisterTinyKvServer(srv, &c2Store{w: w, region: id})
		go srv.Serve(l)
		w.servers = append(w.servers, srv)
		eps = append(eps, client.StoreEndpoint{StoreID: id, Addr: addr})
	}
	dial := grpc.WithContextDialer(func(ctx context.Context, addr string) (net.Conn, error) {
		l := w.lis[addr]
		if l == nil {
			return nil, fmt.Errorf("no store %q", addr)
		}
		return l.DialContext(ctx)
	})
	mk := func() (*client.Client, error) {
		return client.New(client.Config{Stores: eps, RegionResolver: c2Resolver{},
			DialOptions: []grpc.DialOption{dial, grpc.WithTransportCredentials(insecure.NewCredentials())}})
	}
	w.run.Store(&c2Run{})
	if w.main, err = mk(); err != nil {
		return nil, err
	}
	if w.aux, err = mk(); err != nil {
		return nil, err
	}
	return w, nil
}

func (w *c2World) close() {
	w.main.Close()
	w.aux.Close()
	for _, s := range w.servers {
		s.Stop()
	}
	for _, db := range w.dbs {
		db.Close()
	}
	os.RemoveAll(w.dir)
}

// resolveTxn is what a reader that met one of the transaction's locks does.
func resolveTxn(cl *client.Client, primary []byte, start, currentTs uint64, keys [][]byte, alsoResolve bool) {
	ctx, cancel := context.WithTimeout(context.Background(), 20*time.Second)
	defer cancel()
	st, err := cl.CheckTxnStatus(ctx, primary, start, currentTs)
	if err != nil || st == nil || st.GetError() != nil || !alsoResolve {
		return
	}
	switch {
	case st.GetCommitVersion() > 0:
		cl.ResolveLocks(ctx, start, st.GetCommitVersion(), keys)
	case st.GetAction() == pb.CheckTxnStatusAction_CheckTxnStatusTTLExpireRollback ||
		st.GetAction() == pb.CheckTxnStatusAction_CheckTxnStatusLockNotExistRollback:
		cl.ResolveLocks(ctx, start, 0, keys)
	}
}

type c2Stats struct {
	outcome    string
	attempts   int
	nontrivial bool
	committed  bool
}

func (w *c2World) runCase(d C2Desc, suffix string, st *c2Stats) (string, error) {
	ctx, cancel := context.WithTimeout(context.Background(), 60*time.Second)
	defer cancel()
	key := func(k string) string { return k + suffix }
	run := &c2Run{fault: d.Fault, interf: map[int]func(){}}
	w.run.Store(run)
	var muts []*pb.Mutation
	var keys [][]byte
	var mutsCoq, regionsCoq, oldCoq []string
	for _, m := range d.Muts {
		mm := &pb.Mutation{Op: pb.Mutation_Op(m.Op), Key: []byte(key(m.Key))}
		v := ""
		if m.Op == int(pb.Mutation_Put) {
			v = m.Val
			mm.Value = []byte(v)
		}
		muts = append(muts, mm)
		keys = append(keys, mm.Key)
		mutsCoq = append(mutsCoq, fmt.Sprintf("Mu %s %s %s", opName(mm.Op), hx(mm.Key), hs(v)))
		regionsCoq = append(regionsCoq, fmt.Sprintf("(%s, %d)", hx(mm.Key), c2RegionOf(m.Key)))
	}
	primary := []byte(key(d.Primary))
	// base data through the auxiliary client (logged as EO events)
	for _, b := range d.Base {
		if err := w.aux.Put(ctx, []byte(key(b)), []byte("old-"+b), 1, 2, 5); err != nil {
			return "", fmt.Errorf("base put: %w", err)
		}
		oldCoq = append(oldCoq, fmt.Sprintf("Old %s %s", hs(key(b)), hs("old-"+b)))
	}
	for _, it := range d.Interf {
		it := it
		run.interf[it.At] = func() {
			switch it.Kind {
			case "push": // alive lock, caller above the commit version: MinCommitTs pushed past it
				resolveTxn(w.aux, primary, d.Start, d.Commit+5, keys, true)
			case "early": // alive lock, caller below the commit version
				resolveTxn(w.aux, primary, d.Start, d.Start+1, keys, true)
			case "expire_check": // expired lock: the reader rolls the primary back and dies
				resolveTxn(w.aux, primary, d.Start, d.Start+d.TTL+1000, keys, false)
			case "expire_resolve":
				resolveTxn(w.aux, primary, d.Start, d.Start+d.TTL+1000, keys, true)
			}
		}
	}
	run.mu.Lock()
	run.armed = true
	run.mu.Unlock()
	err := w.main.TwoPhaseCommit(ctx, primary, muts, d.Start, d.Commit, d.TTL)
	run.mu.Lock()
	run.armed = false
	run.mu.Unlock()
	// the final resolution, then the reads
	resolveTxn(w.aux, primary, d.Start, d.Start+d.TTL+2000, keys, true)
	var reads []string
	for _, k := range keys {
		var two [2]string
		for i, v := range []uint64{d.Commit, d.Commit - 1} {
			g, gerr := w.aux.Get(ctx, k, v)
			two[i] = "ObsOther"
			if gerr == nil && g != nil {
				two[i] = respCoq(&pb.Response{Cmd: &pb.Response_Get{Get: g}})
			}
		}
		reads = append(reads, fmt.Sprintf("Rd %s %s %s", hx(k), two[0], two[1]))
	}
	primaryRegion := c2RegionOf(d.Primary)
	var o1, o2 []uint64
	for _, r := range run.pwOrder {
		if r != primaryRegion {
			o1 = append(o1, r)
		}
	}
	for _, r := range run.cmOrder {
		if r != primaryRegion {
			o2 = append(o2, r)
		}
	}
	tx := fmt.Sprintf("Tx %s %s %s %d %d %d %s %s", corr.List(regionsCoq), corr.List(mutsCoq), hx(primary),
		d.Start, d.Commit, d.TTL, corr.ListN(o1), corr.ListN(o2))
	if st != nil {
		st.attempts = run.attempt
		st.outcome = "ok"
		if err != nil {
			st.outcome = "failed"
		}
		st.committed = strings.Contains(reads[0], "AVal") && !strings.Contains(reads[0], hexOf("old-"))
		st.nontrivial = len(d.Fault) > 0 || len(d.Interf) > 0
	}
	return fmt.Sprintf("C2 (%s) %s %s %s %s", tx, corr.List(run.events), corr.Bool(err == nil), corr.List(oldCoq), corr.List(reads)), nil
}

func hexOf(s string) string { return strings.Trim(hs(s), `"`) }

// ---- generators ----

var c2KeyPool = []string{"a", "b", "j", "k", "q"}

func genC2Base(c *corr.Ctx) C2Desc {
	n := 1 + c.Rng.Intn(4)
	perm := c.Rng.Perm(len(c2KeyPool))[:n]
	d := C2Desc{Start: 10, Commit: 20, TTL: 100}
	for _, i := range perm {
		k := c2KeyPool[i]
		op := 0
		if c.Rng.Intn(4) == 0 {
			op = 1
		}
		d.Muts = append(d.Muts, Mut{Op: op, Key: k, Val: "new-" + k})
		if op == 1 || c.Rng.Intn(3) != 0 {
			d.Base = append(d.Base, k)
		}
	}
	d.Primary = d.Muts[c.Rng.Intn(len(d.Muts))].Key
	return d
}

func c2Regions3(d C2Desc) int {
	seen := map[uint64]bool{}
	for _, m := range d.Muts {
		seen[c2RegionOf(m.Key)] = true
	}
	return len(seen)
}

var c2FaultKinds = []string{"fail_before", "notleader_before", "fail_after", "regionerr_after"}
var c2InterfKinds = []string{"push", "early", "expire_check", "expire_resolve"}

func cloneC2(d C2Desc) C2Desc {
	b, _ := json.Marshal(d)
	var o C2Desc
	json.Unmarshal(b, &o)
	return o
}

func runClient2pc(c *corr.Ctx) error {
	c.Meta("run_module", "RunClient2pc")
	c.Meta("rule", "TwoPhaseCommit of the real client over 3 regions (separate DBs, one gRPC store each): 1-4 put/delete mutations on keys spanning 1-3 regions, any mutation as primary, in any list order, old committed values under most keys; for every base transaction: the fault-free run, one injected fault at every RPC attempt index x {lost before execution, NotLeader before execution, reply lost after execution, region error after execution (retried: duplicate)}, a resolving reader before every attempt index x {MinCommitTs pushed past the commit version, harmless push, expired lock: rollback of the primary only, expired lock: full resolution}, and random combinations of a reader and a fault (plus 5 consecutive NotLeader answers: retries exhausted); afterwards the resolver runs with an expired TTL and every key is read at commit_ts and commit_ts-1. Compared with the model: every executed request's response, every RPC attempt the client makes next, the final outcome. Oracle: protocol discipline of every request, reads all-new or all-old, all-old if the call failed before the primary was committed, all-new if it returned nil. non-trivial = a fault or a reader was injected")
	tmp, err := os.MkdirTemp("", "verif-c2")
	if err != nil {
		return err
	}
	defer os.RemoveAll(tmp)

	var descs []C2Desc
	if c.Replay != "" {
		cases, err := c.ReplayCases()
		if err != nil {
			return err
		}
		for _, cs := range cases {
			b, _ := json.Marshal(cs.Desc)
			var d C2Desc
			if err := json.Unmarshal(b, &d); err != nil {
				return err
			}
			descs = append(descs, d)
		}
	} else {
		nbase := c.Scale(12, 150)
		for i := 0; i < nbase; i++ {
			base := genC2Base(c)
			if i < 3 { // make sure the F24 shape is always present: primary last in a two-key region
				base = C2Desc{Start: 10, Commit: 20, TTL: 100, Primary: "b", Base: []string{"a", "b", "j"},
					Muts: []Mut{{Op: 0, Key: "a", Val: "new-a"}, {Op: 0, Key: "b", Val: "new-b"}, {Op: i % 2, Key: "j", Val: "new-j"}}[:2+i%2]}
			}
			descs = append(descs, base)
			nrpc := 2 * c2Regions3(base)
			for at := 0; at < nrpc; at++ {
				for _, fk := range c2FaultKinds {
					d := cloneC2(base)
					d.Fault = map[int]string{at: fk}
					descs = append(descs, d)
				}
				for _, ik := range c2InterfKinds {
					d := cloneC2(base)
					d.Interf = []C2Interferer{{At: at, Kind: ik}}
					descs = append(descs, d)
				}
			}
			for j := 0; j < 6; j++ { // a reader and a fault together; retries exhausted
				d := cloneC2(base)
				at := c.Rng.Intn(nrpc)
				d.Interf = []C2Interferer{{At: c.Rng.Intn(nrpc + 1), Kind: corr.Pick(c.Rng, c2InterfKinds)}}
				d.Fault = map[int]string{at: corr.Pick(c.Rng, c2FaultKinds)}
				if j == 0 {
					d.Fault = map[int]string{}
					for k := 0; k < 5; k++ {
						d.Fault[at+k] = "notleader_before"
					}
				}
				descs = append(descs, d)
			}
		}
		c.Meta("exhaustive", true)
		c.Meta("exhaustive_scope", "per base transaction: every RPC attempt index x 4 fault kinds, every attempt index x 4 reader kinds (single injection)")
	}

	type res struct {
		term string
		st   c2Stats
		err  error
	}
	results := make([]res, len(descs))
	jobs := make(chan int, len(descs))
	for i := range descs {
		jobs <- i
	}
	close(jobs)
	var wg sync.WaitGroup
	workers := runtime.NumCPU() / 2
	if workers < 1 {
		workers = 1
	}
	for wi := 0; wi < workers; wi++ {
		wg.Add(1)
		go func() {
			defer wg.Done()
			var w *c2World
			used := 0
			defer func() {
				if w != nil {
					w.close()
				}
			}()
			for i := range jobs {
				if w == nil || used >= 300 {
					if w != nil {
						w.close()
					}
					var err error
					if w, err = newC2World(tmp); err != nil {
						results[i].err = err
						w = nil
						continue
					}
					used = 0
				}
				used++
				var st c2Stats
				term, err := w.runCase(descs[i], fmt.Sprintf("%05d", i), &st)
				results[i] = res{term, st, err}
			}
		}()
	}
	wg.Wait()
	for i, r := range results {
		if r.err != nil {
			return r.err
		}
		c.Count("outcome_" + r.st.outcome)
		if r.st.committed {
			c.Count("final_all_new_or_partial")
		}
		c.Count(fmt.Sprintf("regions_%d", c2Regions3(descs[i])))
		kinds := []string{}
		for _, f := range descs[i].Fault {
			kinds = append(kinds, "fault_"+f)
		}
		for _, it := range descs[i].Interf {
			kinds = append(kinds, "reader_"+it.Kind)
		}
		sort.Strings(kinds)
		for _, k := range kinds {
			c.Count(k)
		}
		c.Emit(corr.Case{Coq: r.term, Nontrivial: r.st.nontrivial, Desc: descs[i]})
	}
	return nil
}

package main

import (
	"encoding/hex"
	"encoding/json"
	"fmt"
	"os"
	"path/filepath"
	"runtime"
	"math"
	"sort"
	"strconv"
	"strings"
	"sync"
	"unicode/utf8"

	NoKV "github.com/feichai0017/NoKV"
	"github.com/feichai0017/NoKV/pb"
	"github.com/feichai0017/NoKV/percolator"
	rkv "github.com/feichai0017/NoKV/raftstore/kv"
	"verifharness/internal/corr"
)

// ---- replayable description of a case ----

// U64 is a uint64 that survives a JSON round trip through float64 (replay files): values above
// 2^53 are written as strings; both forms are read.
type U64 uint64

func (u U64) MarshalJSON() ([]byte, error) {
	if u > 1<<53 {
		return []byte(`"` + strconv.FormatUint(uint64(u), 10) + `"`), nil
	}
	return []byte(strconv.FormatUint(uint64(u), 10)), nil
}

func (u *U64) UnmarshalJSON(b []byte) error {
	t := strings.Trim(string(b), `"`)
	if f, err := strconv.ParseUint(t, 10, 64); err == nil {
		*u = U64(f)
		return nil
	}
	f, err := strconv.ParseFloat(t, 64)
	if err != nil {
		return err
	}
	*u = U64(f)
	return nil
}

type Mut struct {
	Op  int    `json:"op"` // pb.Mutation_Op
	Key string `json:"key"`
	Val string `json:"val,omitempty"`
}

// Req is one request of a case; T selects the kind.
type Req struct {
	T       string   `json:"t"` // pw cm rb rs ck get scan
	Muts    []Mut    `json:"muts,omitempty"`
	Keys    []string `json:"keys,omitempty"`
	Primary string   `json:"primary,omitempty"`
	Start   U64   `json:"start,omitempty"`
	Commit  U64   `json:"commit,omitempty"`
	TTL     U64   `json:"ttl,omitempty"`
	MinC    U64   `json:"minc,omitempty"`
	Current U64   `json:"current,omitempty"`
	Caller  U64   `json:"caller,omitempty"`
	RB      bool     `json:"rb,omitempty"`
	Key     string   `json:"key,omitempty"`
	Version U64   `json:"version,omitempty"`
	Limit   uint32   `json:"limit,omitempty"`
	Incl    bool     `json:"incl,omitempty"`
}

type PercoDesc struct {
	Keys []string `json:"keys"`
	Reqs []Req    `json:"reqs"`
	Gen  string   `json:"gen,omitempty"`
	// Shared: the case ran on a DB that already held (smaller) keys of earlier cases.
	Shared bool `json:"shared,omitempty"`
	// Race: two concurrent requests after the setup Reqs (see fam_perco_race.go).
	Race *RaceDesc `json:"race,omitempty"`
	// Limits (fault cases): hot-key write limit in force for each request; FStart/FCommit: the
	// transaction whose records are observed after every step (see fam_perco_fault.go).
	Limits  []int `json:"limits,omitempty"`
	FStart  U64   `json:"fstart,omitempty"`
	FCommit U64   `json:"fcommit,omitempty"`
}

// Keys and values are raw byte strings; JSON cannot carry invalid UTF-8, so a PercoDesc is written
// with every non-UTF-8 string as "hex:<hex>" and read back accordingly (replay files stay exact).
func encS(x string) string {
	if utf8.ValidString(x) && !strings.HasPrefix(x, "hex:") {
		return x
	}
	return "hex:" + hex.EncodeToString([]byte(x))
}

func decS(x string) string {
	if strings.HasPrefix(x, "hex:") {
		if b, err := hex.DecodeString(x[4:]); err == nil {
			return string(b)
		}
	}
	return x
}

func (d PercoDesc) mapStrings(f func(string) string) PercoDesc {
	ml := func(xs []string) []string {
		if xs == nil {
			return nil
		}
		out := make([]string, len(xs))
		for i, x := range xs {
			out[i] = f(x)
		}
		return out
	}
	mr := func(r Req) Req {
		q := r
		q.Keys, q.Primary, q.Key = ml(r.Keys), f(r.Primary), f(r.Key)
		q.Muts = nil
		for _, m := range r.Muts {
			q.Muts = append(q.Muts, Mut{Op: m.Op, Key: f(m.Key), Val: f(m.Val)})
		}
		return q
	}
	o := PercoDesc{Keys: ml(d.Keys), Gen: d.Gen, Shared: d.Shared, Limits: d.Limits, FStart: d.FStart, FCommit: d.FCommit}
	for _, r := range d.Reqs {
		o.Reqs = append(o.Reqs, mr(r))
	}
	if d.Race != nil {
		o.Race = &RaceDesc{X: mr(d.Race.X), Y: mr(d.Race.Y)}
		for _, r := range d.Race.Tail {
			o.Race.Tail = append(o.Race.Tail, mr(r))
		}
	}
	return o
}

type percoDescJSON PercoDesc

func (d PercoDesc) MarshalJSON() ([]byte, error) { return json.Marshal(percoDescJSON(d.mapStrings(encS))) }
func (d *PercoDesc) UnmarshalJSON(b []byte) error {
	var j percoDescJSON
	if err := json.Unmarshal(b, &j); err != nil {
		return err
	}
	*d = PercoDesc(j).mapStrings(decS)
	return nil
}

func bs(keys []string) [][]byte {
	out := make([][]byte, len(keys))
	for i, k := range keys {
		out[i] = []byte(k)
	}
	return out
}

func (r Req) pb() *pb.Request {
	switch r.T {
	case "pw":
		var ms []*pb.Mutation
		for _, m := range r.Muts {
			mm := &pb.Mutation{Op: pb.Mutation_Op(m.Op), Key: []byte(m.Key)}
			if m.Op == int(pb.Mutation_Put) {
				mm.Value = []byte(m.Val)
			}
			ms = append(ms, mm)
		}
		return &pb.Request{CmdType: pb.CmdType_CMD_PREWRITE, Cmd: &pb.Request_Prewrite{Prewrite: &pb.PrewriteRequest{
			Mutations: ms, PrimaryLock: []byte(r.Primary), StartVersion: uint64(r.Start), LockTtl: uint64(r.TTL), MinCommitTs: uint64(r.MinC)}}}
	case "cm":
		return &pb.Request{CmdType: pb.CmdType_CMD_COMMIT, Cmd: &pb.Request_Commit{Commit: &pb.CommitRequest{
			Keys: bs(r.Keys), StartVersion: uint64(r.Start), CommitVersion: uint64(r.Commit)}}}
	case "rb":
		return &pb.Request{CmdType: pb.CmdType_CMD_BATCH_ROLLBACK, Cmd: &pb.Request_BatchRollback{BatchRollback: &pb.BatchRollbackRequest{
			Keys: bs(r.Keys), StartVersion: uint64(r.Start)}}}
	case "rs":
		return &pb.Request{CmdType: pb.CmdType_CMD_RESOLVE_LOCK, Cmd: &pb.Request_ResolveLock{ResolveLock: &pb.ResolveLockRequest{
			Keys: bs(r.Keys), StartVersion: uint64(r.Start), CommitVersion: uint64(r.Commit)}}}
	case "ck":
		return &pb.Request{CmdType: pb.CmdType_CMD_CHECK_TXN_STATUS, Cmd: &pb.Request_CheckTxnStatus{CheckTxnStatus: &pb.CheckTxnStatusRequest{
			PrimaryKey: []byte(r.Primary), LockTs: uint64(r.Start), CurrentTs: uint64(r.Current), CallerStartTs: uint64(r.Caller), RollbackIfNotExist: r.RB}}}
	case "get":
		return &pb.Request{CmdType: pb.CmdType_CMD_GET, Cmd: &pb.Request_Get{Get: &pb.GetRequest{Key: []byte(r.Key), Version: uint64(r.Version)}}}
	case "scan":
		return &pb.Request{CmdType: pb.CmdType_CMD_SCAN, Cmd: &pb.Request_Scan{Scan: &pb.ScanRequest{
			StartKey: []byte(r.Key), Limit: r.Limit, Version: uint64(r.Version), IncludeStart: r.Incl}}}
	}
	panic("bad request kind " + r.T)
}

// ---- Gallina printers ----

func hx(b []byte) string { return `"` + hex.EncodeToString(b) + `"` }
func hs(s string) string { return hx([]byte(s)) }

func opName(o pb.Mutation_Op) string {
	switch o {
	case pb.Mutation_Put:
		return "OpPut"
	case pb.Mutation_Delete:
		return "OpDelete"
	case pb.Mutation_Lock:
		return "OpLock"
	case pb.Mutation_Rollback:
		return "OpRollback"
	}
	return "OpOther"
}

func hexList(keys []string) string {
	s := make([]string, len(keys))
	for i, k := range keys {
		s[i] = hs(k)
	}
	return corr.List(s)
}

func (r Req) coq() string {
	switch r.T {
	case "pw":
		var ms []string
		for _, m := range r.Muts {
			v := ""
			if m.Op == int(pb.Mutation_Put) {
				v = m.Val
			}
			ms = append(ms, fmt.Sprintf("Mu %s %s %s", opName(pb.Mutation_Op(m.Op)), hs(m.Key), hs(v)))
		}
		return fmt.Sprintf("QPw %s %s %d %d %d", corr.List(ms), hs(r.Primary), r.Start, r.TTL, r.MinC)
	case "cm":
		return fmt.Sprintf("QCm %s %d %d", hexList(r.Keys), r.Start, r.Commit)
	case "rb":
		return fmt.Sprintf("QRb %s %d", hexList(r.Keys), r.Start)
	case "rs":
		return fmt.Sprintf("QRs %s %d %d", hexList(r.Keys), r.Start, r.Commit)
	case "ck":
		return fmt.Sprintf("QCk %s %d %d %d %s", hs(r.Primary), r.Start, r.Current, r.Caller, corr.Bool(r.RB))
	case "get":
		return fmt.Sprintf("QGet %s %d", hs(r.Key), r.Version)
	case "scan":
		return fmt.Sprintf("QScan %s %s %d %d", hs(r.Key), corr.Bool(r.Incl), r.Limit, r.Version)
	}
	panic("bad request kind")
}

func lockCoq(primary []byte, ts, ttl uint64, kind pb.Mutation_Op, mc uint64) string {
	return fmt.Sprintf("(Lk %s %d %d %s %d)", hx(primary), ts, ttl, opName(kind), mc)
}

// keyErrCoq returns ("", false) for an error class the model does not have.
func keyErrCoq(e *pb.KeyError) (string, bool) {
	switch {
	case e.GetLocked() != nil:
		l := e.GetLocked()
		return fmt.Sprintf("(ELocked %s %s)", hx(l.GetKey()), lockCoq(l.GetPrimaryLock(), l.GetLockVersion(), l.GetLockTtl(), l.GetLockType(), l.GetMinCommitTs())), true
	case e.GetWriteConflict() != nil:
		w := e.GetWriteConflict()
		return fmt.Sprintf("(EConf %s %s %d %d %d)", hx(w.GetKey()), hx(w.GetPrimary()), w.GetConflictTs(), w.GetStartTs(), w.GetCommitTs()), true
	case e.GetCommitTsExpired() != nil:
		c := e.GetCommitTsExpired()
		return fmt.Sprintf("(EExp %s %d %d)", hx(c.GetKey()), c.GetCommitTs(), c.GetMinCommitTs()), true
	case e.GetRetryable() != "":
		return "KERetryable", true
	case e.GetAbort() != "":
		m := e.GetAbort()
		switch {
		case strings.HasPrefix(m, "empty key"):
			return "(KEAbort AbEmptyKey)", true
		case strings.HasPrefix(m, "unsupported mutation op"):
			return "(KEAbort AbUnsupportedOp)", true
		case m == "lock not found":
			return "(KEAbort AbLockNotFound)", true
		case m == "transaction already rolled back":
			return "(KEAbort AbRolledBack)", true
		}
	}
	return "", false
}

func optKeyErr(e *pb.KeyError) (string, bool) {
	if e == nil {
		return "None", true
	}
	s, ok := keyErrCoq(e)
	return "(Some " + s + ")", ok
}

func actionName(a pb.CheckTxnStatusAction) string {
	switch a {
	case pb.CheckTxnStatusAction_CheckTxnStatusTTLExpireRollback:
		return "ActTTLExpireRollback"
	case pb.CheckTxnStatusAction_CheckTxnStatusLockNotExistRollback:
		return "ActLockNotExistRollback"
	case pb.CheckTxnStatusAction_CheckTxnStatusMinCommitTsPushed:
		return "ActMinCommitPushed"
	}
	return "ActNone"
}

// respCoq canonicalises one response into an [obs] term.
func respCoq(resp *pb.Response) string {
	switch c := resp.GetCmd().(type) {
	case *pb.Response_Prewrite:
		var es []string
		for _, e := range c.Prewrite.GetErrors() {
			s, ok := keyErrCoq(e)
			if !ok {
				return "ObsOther"
			}
			es = append(es, s)
		}
		return "(Obs (PPrewrite " + corr.List(es) + "))"
	case *pb.Response_Commit:
		s, ok := optKeyErr(c.Commit.GetError())
		if !ok {
			return "ObsOther"
		}
		return "(Obs (PCommit " + s + "))"
	case *pb.Response_BatchRollback:
		s, ok := optKeyErr(c.BatchRollback.GetError())
		if !ok {
			return "ObsOther"
		}
		return "(Obs (PRollback " + s + "))"
	case *pb.Response_ResolveLock:
		s, ok := optKeyErr(c.ResolveLock.GetError())
		if !ok {
			return "ObsOther"
		}
		return fmt.Sprintf("(Obs (PResolve %d %s))", c.ResolveLock.GetResolvedLocks(), s)
	case *pb.Response_CheckTxnStatus:
		r := c.CheckTxnStatus
		s, ok := optKeyErr(r.GetError())
		if !ok {
			return "ObsOther"
		}
		return fmt.Sprintf("(ACk %s %s %d %d)", s, actionName(r.GetAction()), r.GetLockTtl(), r.GetCommitVersion())
	case *pb.Response_Get:
		g := c.Get
		if g.GetError() != nil {
			l := g.GetError().GetLocked()
			if l == nil {
				return "ObsOther"
			}
			return fmt.Sprintf("(AGLocked %s %s)", hx(l.GetKey()), lockCoq(l.GetPrimaryLock(), l.GetLockVersion(), l.GetLockTtl(), l.GetLockType(), l.GetMinCommitTs()))
		}
		if g.GetNotFound() {
			return "ANotFound"
		}
		return "(AVal " + hx(g.GetValue()) + ")"
	case *pb.Response_Scan:
		var kvs []string
		for _, kvp := range c.Scan.GetKvs() {
			kvs = append(kvs, fmt.Sprintf("(%s, %s)", hx(kvp.GetKey()), hx(kvp.GetValue())))
		}
		s, ok := optKeyErr(c.Scan.GetError())
		if !ok {
			return "ObsOther"
		}
		return "(AScan " + corr.List(kvs) + " " + s + ")"
	}
	return "ObsOther"
}

// ---- running a case against the real code ----

func openDB(dir string, memtable int64) *NoKV.DB {
	opt := NoKV.NewDefaultOptions()
	opt.WorkDir = dir
	opt.MemTableSize = memtable
	opt.SSTableMaxSz = 1 << 20
	opt.ValueLogFileSize = 1 << 20
	opt.ValueLogBucketCount = 1
	opt.HotRingEnabled = false
	opt.WriteHotKeyLimit = 0
	opt.EnableWALWatchdog = false
	return NoKV.Open(opt)
}

type percoStats struct {
	kinds      map[string]int
	nontrivial bool
}

// runPercoCase applies the requests to db (a fresh DB when db == nil) and renders the case.
func runPercoCase(tmp string, db *NoKV.DB, d PercoDesc, st *percoStats) (string, error) {
	if db == nil {
		dir, err := os.MkdirTemp(tmp, "perco")
		if err != nil {
			return "", err
		}
		defer os.RemoveAll(dir)
		db = openDB(filepath.Join(dir, "db"), 1<<20)
		defer db.Close()
	}
	reader := percolator.NewReader(db)
	var steps []string
	sawErr, sawRead := false, false
	for _, r := range d.Reqs {
		out := "ObsOther"
		resp, err := rkv.Apply(db, &pb.RaftCmdRequest{Requests: []*pb.Request{r.pb()}})
		if err == nil && resp != nil && len(resp.Responses) == 1 {
			out = respCoq(resp.Responses[0])
		}
		var locks []string
		for _, k := range d.Keys {
			l, lerr := reader.GetLock([]byte(k))
			switch {
			case lerr != nil:
				locks = append(locks, "(Some (Lk \"\" 0 0 OpRollback 0))") // never produced by the model
			case l == nil:
				locks = append(locks, "None")
			default:
				locks = append(locks, "(Some "+lockCoq(l.Primary, l.Ts, l.TTL, l.Kind, l.MinCommitTs)+")")
			}
		}
		steps = append(steps, fmt.Sprintf("St (%s) %s %s", r.coq(), out, corr.List(locks)))
		if st != nil {
			st.kinds[r.T]++
			switch {
			case strings.Contains(out, "ELocked") || strings.Contains(out, "AGLocked"):
				st.kinds["resp_locked"]++
				sawErr = true
			case strings.Contains(out, "EConf"):
				st.kinds["resp_write_conflict"]++
				sawErr = true
			case strings.Contains(out, "KEAbort"):
				st.kinds["resp_abort"]++
				sawErr = true
			case strings.Contains(out, "EExp"):
				st.kinds["resp_commit_ts_expired"]++
				sawErr = true
			case strings.Contains(out, "Rollback 0 0") || strings.Contains(out, "ActTTLExpire"):
				st.kinds["resp_check_rollback"]++
			case strings.Contains(out, "AVal"):
				st.kinds["resp_value"]++
				sawRead = true
			case strings.Contains(out, "ObsOther"):
				st.kinds["resp_other"]++
			}
		}
	}
	if st != nil {
		st.nontrivial = sawErr && sawRead
	}
	return fmt.Sprintf("Cs %s %s", hexList(d.Keys), corr.List(steps)), nil
}

// withPrefix renames every key of the case to prefix+key, so that many cases can share one DB: cases
// run in increasing prefix order, every key of earlier cases is smaller than the prefix, and scans
// start at or above it (an empty start key becomes the bare prefix, which no key equals).
func withPrefix(d PercoDesc, n int) PercoDesc {
	pre := string([]byte{byte(n >> 16), byte(n >> 8), byte(n)})
	ren := func(xs []string) []string {
		out := make([]string, len(xs))
		for i, x := range xs {
			out[i] = pre + x
		}
		return out
	}
	rr := func(r Req) Req {
		q := r
		q.Keys = ren(r.Keys)
		if r.T == "pw" || r.T == "ck" {
			q.Primary = pre + r.Primary
		}
		if r.T == "get" || r.T == "scan" {
			q.Key = pre + r.Key
		}
		q.Muts = nil
		for _, m := range r.Muts {
			q.Muts = append(q.Muts, Mut{Op: m.Op, Key: pre + m.Key, Val: m.Val})
		}
		return q
	}
	o := PercoDesc{Keys: ren(d.Keys), Gen: d.Gen, Shared: true, Limits: d.Limits, FStart: d.FStart, FCommit: d.FCommit}
	for _, r := range d.Reqs {
		o.Reqs = append(o.Reqs, rr(r))
	}
	if d.Race != nil {
		o.Race = &RaceDesc{X: rr(d.Race.X), Y: rr(d.Race.Y)}
		for _, r := range d.Race.Tail {
			o.Race.Tail = append(o.Race.Tail, rr(r))
		}
	}
	return o
}

// ---- generators ----

var percoKeySets = [][]string{{"a", "b", "c"}, {"k", "k\x00", "kk"}, {"m", "m\xff", "n"}}

type txnPlan struct {
	start, commit uint64
	muts          []Mut
	primary       string
	ttl           uint64
}

func distinctTs(c *corr.Ctx, n int, max int) []uint64 {
	perm := c.Rng.Perm(max)
	out := make([]uint64, n)
	for i := 0; i < n; i++ {
		out[i] = uint64(perm[i] + 1)
	}
	return out
}

func genPlans(c *corr.Ctx, keys []string, ntx int) []txnPlan {
	ts := distinctTs(c, 2*ntx, 40)
	plans := make([]txnPlan, ntx)
	for i := range plans {
		a, b := ts[2*i], ts[2*i+1]
		if a > b {
			a, b = b, a
		}
		// ttl: none, small, large, and so large that start+ttl wraps mod 2^64 (to 0, to a small
		// value below the start ts, to start-1)
		p := txnPlan{start: a, commit: b, ttl: []uint64{0, 3, 10, 100, 0 - a, 0 - a + 5, math.MaxUint64, 1 << 63}[c.Rng.Intn(8)]}
		nk := 1 + c.Rng.Intn(len(keys))
		for _, ki := range c.Rng.Perm(len(keys))[:nk] {
			op := []int{0, 0, 0, 1, 2}[c.Rng.Intn(5)]
			p.muts = append(p.muts, Mut{Op: op, Key: keys[ki], Val: fmt.Sprintf("v%d%s", a, keys[ki][:1])})
		}
		p.primary = p.muts[0].Key
		plans[i] = p
	}
	return plans
}

func mutKeys(ms []Mut) []string {
	out := make([]string, len(ms))
	for i, m := range ms {
		out[i] = m.Key
	}
	return out
}

func subset(c *corr.Ctx, xs []string) []string {
	if len(xs) <= 1 || c.Rng.Intn(2) == 0 {
		return xs
	}
	n := 1 + c.Rng.Intn(len(xs))
	out := make([]string, 0, n)
	for _, i := range c.Rng.Perm(len(xs))[:n] {
		out = append(out, xs[i])
	}
	return out
}

// eventsOf lists the protocol events of one transaction (the pool the orderings are drawn from).
func eventsOf(c *corr.Ctx, p txnPlan, keys []string) []Req {
	ks := mutKeys(p.muts)
	// current ts below, at and above the lock's start ts and its expiry point (ts+ttl in uint64
	// arithmetic: with a wrapping ttl the expiry point lies *below* the start ts)
	expiry := p.start + p.ttl
	current := []uint64{0, p.start - 1, p.start, p.start + 1, expiry - 1, expiry, expiry + 1, 45, math.MaxUint64}[c.Rng.Intn(9)]
	caller := []uint64{0, p.start - 1, p.start + 1, p.commit, p.commit + 1, 44, math.MaxUint64}[c.Rng.Intn(7)]
	return []Req{
		{T: "pw", Muts: p.muts, Primary: p.primary, Start: U64(p.start), TTL: U64(p.ttl), MinC: U64([]uint64{0, 0, 0, p.commit, p.commit + 1}[c.Rng.Intn(5)])},
		{T: "cm", Keys: subset(c, ks), Start: U64(p.start), Commit: U64(p.commit)},
		{T: "rb", Keys: subset(c, ks), Start: U64(p.start)},
		{T: "rs", Keys: subset(c, keys), Start: U64(p.start), Commit: U64(p.commit)},
		{T: "rs", Keys: subset(c, keys), Start: U64(p.start)},
		{T: "ck", Primary: p.primary, Start: U64(p.start), Current: U64(current), Caller: U64(caller), RB: c.Rng.Intn(2) == 0},
	}
}

func genRead(c *corr.Ctx, keys []string) Req {
	v := U64(c.Rng.Intn(46))
	if c.Rng.Intn(3) == 0 {
		return Req{T: "scan", Key: []string{"", keys[0], keys[1], keys[2], "b", "l"}[c.Rng.Intn(6)], Incl: c.Rng.Intn(3) != 0,
			Limit: uint32([]int{0, 1, 2, 3, 10}[c.Rng.Intn(5)]), Version: v}
	}
	return Req{T: "get", Key: keys[c.Rng.Intn(len(keys))], Version: v}
}

// genInterleaved: 2-4 transactions, each a random selection (with duplicates) of its events,
// interleaved at random, reads in between.
func genInterleaved(c *corr.Ctx) PercoDesc {
	keys := percoKeySets[c.Rng.Intn(len(percoKeySets))]
	if c.Rng.Intn(2) == 0 {
		keys = percoKeySets[0]
	}
	plans := genPlans(c, keys, 2+c.Rng.Intn(3))
	var seqs [][]Req
	for _, p := range plans {
		ev := eventsOf(c, p, keys)
		var seq []Req
		if c.Rng.Intn(5) != 0 {
			seq = append(seq, ev[0]) // most transactions start with their prewrite
		}
		for n := 1 + c.Rng.Intn(4); n > 0; n-- {
			seq = append(seq, ev[c.Rng.Intn(len(ev))])
		}
		seqs = append(seqs, seq)
	}
	var reqs []Req
	for {
		var live []int
		for i, s := range seqs {
			if len(s) > 0 {
				live = append(live, i)
			}
		}
		if len(live) == 0 {
			break
		}
		i := live[c.Rng.Intn(len(live))]
		reqs = append(reqs, seqs[i][0])
		seqs[i] = seqs[i][1:]
		for c.Rng.Intn(3) == 0 {
			reqs = append(reqs, genRead(c, keys))
		}
	}
	for n := 2 + c.Rng.Intn(3); n > 0; n-- {
		reqs = append(reqs, genRead(c, keys))
	}
	return PercoDesc{Keys: keys, Reqs: reqs, Gen: "interleaved"}
}

// exhaustiveCases: one committed base value on "a" (txn 2..4), a second transaction (10..20, ttl 5)
// on "a" (put) and "b" (lock-only / delete), then every sequence of length <= depth over its event
// pool (duplicates included), and afterwards GET of both keys at 9, 15, 25 and a SCAN at 25.
func exhaustiveCases(depth int) []PercoDesc {
	keys := []string{"a", "b", "c"}
	base := []Req{
		{T: "pw", Muts: []Mut{{Op: 0, Key: "a", Val: "base"}, {Op: 0, Key: "b", Val: "bb"}}, Primary: "a", Start: 2, TTL: 5},
		{T: "cm", Keys: []string{"a", "b"}, Start: 2, Commit: 4},
	}
	pool := []Req{
		{T: "pw", Muts: []Mut{{Op: 0, Key: "a", Val: "new"}, {Op: 2, Key: "b"}}, Primary: "a", Start: 10, TTL: 5},
		{T: "cm", Keys: []string{"a", "b"}, Start: 10, Commit: 20},
		{T: "rb", Keys: []string{"a", "b"}, Start: 10},
		{T: "rs", Keys: []string{"a", "b", "c"}, Start: 10, Commit: 20},
		{T: "rs", Keys: []string{"b", "a"}, Start: 10},
		{T: "ck", Primary: "a", Start: 10, Current: 15, Caller: 22, RB: true},
		{T: "ck", Primary: "a", Start: 10, Current: 12, Caller: 22, RB: false},
		{T: "ck", Primary: "a", Start: 10, Current: 5, Caller: 5, RB: false},
		{T: "ck", Primary: "a", Start: 10, Current: 10, Caller: 0, RB: true},
		{T: "pw", Muts: []Mut{{Op: 1, Key: "b"}}, Primary: "b", Start: 12, TTL: 0},
		{T: "cm", Keys: []string{"b"}, Start: 12, Commit: 14},
	}
	tail := []Req{
		{T: "get", Key: "a", Version: 9}, {T: "get", Key: "a", Version: 15}, {T: "get", Key: "a", Version: 25},
		{T: "get", Key: "b", Version: 13}, {T: "get", Key: "b", Version: 25},
		{T: "scan", Key: "", Limit: 10, Version: 25}, {T: "scan", Key: "a", Incl: false, Limit: 1, Version: 13},
	}
	var out []PercoDesc
	var rec func(prefix []Req, d int)
	rec = func(prefix []Req, d int) {
		if len(prefix) > 0 {
			reqs := append(append(append([]Req{}, base...), prefix...), tail...)
			out = append(out, PercoDesc{Keys: keys, Reqs: reqs, Gen: "exhaustive"})
		}
		if d == 0 {
			return
		}
		for _, e := range pool {
			rec(append(append([]Req{}, prefix...), e), d-1)
		}
	}
	rec(nil, depth)
	return out
}

// ttlGridCases: one lock (start 10) for every ttl in {0, 1, 5, 2^63, 2^64-10 (expiry point 0),
// 2^64-7 (expiry point 3, below the start ts), 2^64-1 (expiry point 9)} and a CheckTxnStatus at every
// current ts in {0, 2, 3, 9, 10, 11, 14, 15, 16, 2^63+9, 2^63+10, 2^64-1}, with and without a caller ts;
// then the lock is read back and the key is read.
func ttlGridCases() []PercoDesc {
	var out []PercoDesc
	ttls := []uint64{0, 1, 5, 1 << 63, math.MaxUint64 - 9, math.MaxUint64 - 6, math.MaxUint64}
	currents := []uint64{0, 2, 3, 9, 10, 11, 14, 15, 16, 1<<63 + 9, 1<<63 + 10, math.MaxUint64}
	for _, ttl := range ttls {
		for _, cur := range currents {
			for _, caller := range []uint64{0, cur} {
				out = append(out, PercoDesc{Keys: []string{"a", "b", "c"}, Gen: "ttlgrid", Reqs: []Req{
					{T: "pw", Muts: []Mut{{Op: 0, Key: "a", Val: "base"}}, Primary: "a", Start: 2, TTL: 5},
					{T: "cm", Keys: []string{"a"}, Start: 2, Commit: 4},
					{T: "pw", Muts: []Mut{{Op: 0, Key: "a", Val: "new"}}, Primary: "a", Start: 10, TTL: U64(ttl)},
					{T: "ck", Primary: "a", Start: 10, Current: U64(cur), Caller: U64(caller), RB: true},
					{T: "get", Key: "a", Version: 9}, {T: "get", Key: "a", Version: 30},
					{T: "cm", Keys: []string{"a"}, Start: 10, Commit: 20},
					{T: "get", Key: "a", Version: 30},
				}})
			}
		}
	}
	return out
}

func runPerco(c *corr.Ctx) error {
	c.Meta("run_module", "RunPerco")
	tmp, err := os.MkdirTemp("", "verif-perco")
	if err != nil {
		return err
	}
	defer os.RemoveAll(tmp)

	var descs []PercoDesc
	if c.Replay != "" {
		cases, err := c.ReplayCases()
		if err != nil {
			return err
		}
		for _, cs := range cases {
			b, _ := json.Marshal(cs.Desc)
			var d PercoDesc
			if err := json.Unmarshal(b, &d); err != nil {
				return err
			}
			descs = append(descs, d)
		}
	} else {
		depth := 2
		if c.Tier == "thorough" {
			depth = 3
		}
		ex := exhaustiveCases(depth)
		descs = append(descs, ex...)
		c.CountN("exhaustive_cases", len(ex))
		grid := ttlGridCases()
		descs = append(descs, grid...)
		c.CountN("ttl_grid_cases", len(grid))
		races := raceCases()
		descs = append(descs, races...)
		c.CountN("race_cases", len(races))
		faults := faultCases(depth)
		descs = append(descs, faults...)
		c.CountN("fault_cases", len(faults))
		n := c.Scale(700, 12000)
		for i := 0; i < n; i++ {
			descs = append(descs, genInterleaved(c))
		}
		c.CountN("interleaved_cases", n)
		c.Meta("exhaustive", true)
		c.Meta("exhaustive_scope", fmt.Sprintf("every sequence of length <= %d over 11 protocol events (prewrite put+lock-only, commit, rollback, resolve-commit, resolve-rollback, check-txn-status expired / alive / from a caller below the lock's start ts / at the start ts, competing delete txn prewrite + commit) of a transaction 10..20 above a committed base value, followed by GET at 9/15/25, 13/25 and two SCANs", depth))
	}
	c.Meta("rule", "request sequences over 3 keys (3 key alphabets incl. prefix-related keys and 0x00/0xff bytes) and 2-4 transactions with distinct timestamps in 1..40: random interleavings of prewrite / commit / rollback / resolve(commit|rollback) / check-txn-status (current ts 0, below / at / above the lock's start ts, before / at / after the expiry point, 2^64-1; ttl 0, small, 2^63 and values for which start+ttl wraps mod 2^64; caller ts below and above commit and 2^64-1; plus a ttl x current-ts grid of 168 cases) with duplicates and missing prewrites, put / delete / lock-only mutations, GET and SCAN (start key, include flag, limit 0..10) at random versions between the events; every step compares the canonicalised response and reader.GetLock of all 3 keys with the model and with the protocol specification. Storage faults: transaction 10->30 on a put and a delete key; every pair (thorough: triple) of protocol events with the first running under a hot-key write limit of 1..3 (and the prewrite under 1..4), so that a DB write inside prewriteMutation / commitKey / rollbackKey / the MinCommitTs push is refused and the step leaves a prefix of its writes, followed by unlimited retries of commit / status check / resolve / rollback and reads; per step the response, the locks, reader.GetWriteByStartTs and reader.GetValue at the commit version are compared with the fault-aware model, and a history-only oracle checks that a key once seen committed (or rolled back) stays so with its value. Races: 17 request pairs (commit / rollback / resolve / prewrite / competing prewrite vs check-txn-status pushing MinCommitTs or expired, and write vs write) x both roles: one request is in flight (the harness holds its key latches) when the other arrives and must block in latch.Acquire; the two responses, the locks afterwards and the following reads must be one of the two serial orders, and an acknowledged Commit's lock must be gone. non-trivial = the case contains at least one key error response and one read returning a value")

	type res struct {
		term string
		st   percoStats
		err  error
	}
	results := make([]res, len(descs))
	shared := c.Replay == ""
	if shared {
		for i := range descs {
			if descs[i].Gen != "exhaustive" {
				descs[i] = withPrefix(descs[i], i+1)
			}
		}
	}
	jobs := make(chan int, len(descs))
	for i := range descs {
		jobs <- i
	}
	close(jobs)
	var wg sync.WaitGroup
	for w := 0; w < runtime.NumCPU(); w++ {
		wg.Add(1)
		go func(w int) {
			defer wg.Done()
			var db *NoKV.DB
			var dir string
			used := 0
			closeDB := func() {
				if db != nil {
					db.Close()
					os.RemoveAll(dir)
					db = nil
				}
			}
			defer closeDB()
			for i := range jobs {
				if descs[i].Race != nil || descs[i].Limits != nil {
					continue // races and fault cases run afterwards, one at a time
				}
				st := percoStats{kinds: map[string]int{}}
				var use *NoKV.DB
				if descs[i].Shared && shared {
					if db == nil || used >= 400 {
						closeDB()
						dir, _ = os.MkdirTemp(tmp, "shared")
						db = openDB(filepath.Join(dir, "db"), 64<<20)
						used = 0
					}
					use = db
					used++
				}
				term, err := runPercoCase(tmp, use, descs[i], &st)
				results[i] = res{term, st, err}
			}
		}(w)
	}
	wg.Wait()
	// races: sequentially, nothing else running (the blocked-in-Acquire probe looks at all goroutines)
	var rdb *NoKV.DB
	var rdir string
	for i := range descs {
		if descs[i].Race == nil {
			continue
		}
		if rdb == nil {
			rdir, _ = os.MkdirTemp(tmp, "race")
			rdb = openDB(filepath.Join(rdir, "db"), 64<<20)
		}
		term, blocked := runRaceCase(rdb, descs[i])
		st := percoStats{kinds: map[string]int{"race": 1}, nontrivial: blocked}
		if blocked {
			st.kinds["race_second_request_blocked_on_latch"] = 1
		}
		results[i] = res{term, st, nil}
	}
	if rdb != nil {
		rdb.Close()
		os.RemoveAll(rdir)
	}
	// fault cases: one DB with the hot-key ring on, write limit switched per request
	var fw *faultWorld
	for i := range descs {
		if descs[i].Limits == nil {
			continue
		}
		if fw == nil {
			if fw, err = openFaultWorld(tmp); err != nil {
				return err
			}
		}
		term, refused := fw.runFaultCase(descs[i])
		st := percoStats{kinds: map[string]int{"fault_case": 1}, nontrivial: refused}
		if refused {
			st.kinds["fault_case_with_refused_write"] = 1
		}
		results[i] = res{term, st, nil}
	}
	if fw != nil {
		fw.close()
	}
	for i, r := range results {
		if r.err != nil {
			return r.err
		}
		ks := make([]string, 0, len(r.st.kinds))
		for k := range r.st.kinds {
			ks = append(ks, k)
		}
		sort.Strings(ks)
		for _, k := range ks {
			c.CountN(k, r.st.kinds[k])
		}
		c.Emit(corr.Case{Coq: r.term, Nontrivial: r.st.nontrivial, Desc: descs[i]})
	}
	return nil
}

package main

import (
	"bytes"
	"fmt"
	"runtime"
	"time"

	NoKV "github.com/feichai0017/NoKV"
	"github.com/feichai0017/NoKV/pb"
	"github.com/feichai0017/NoKV/percolator"
	"github.com/feichai0017/NoKV/percolator/latch"
	rkv "github.com/feichai0017/NoKV/raftstore/kv"
	"verifharness/internal/corr"
)

// Races (C19 "a removed lock never reappears", C18): commands on one key are serialised by the key
// latch. A race case runs two requests so that one (X) is "in flight" -- the harness itself holds
// the latches of X's keys on latch manager M -- when the other (Y) arrives on M: Y must block in
// Acquire before it has looked at anything. When Y is blocked (or has finished without needing the
// latch), X's body is executed (on a private latch manager, so that it does not wait for the latch
// the harness holds on its behalf), the latches are released and Y completes. No hook in /repo is
// needed. The observation (both responses, reader.GetLock of every key afterwards, then reads) must
// be one of the two serial orders of the model / the specification, and a key whose Commit was
// acknowledged must not report the transaction's lock.

// RaceDesc is the racing part of a PercoDesc (Reqs is the setup).
type RaceDesc struct {
	X    Req   `json:"x"` // in flight (holds the latch)
	Y    Req   `json:"y"` // arrives meanwhile
	Tail []Req `json:"tail"`
}

// applyWith executes one write request directly on the percolator functions with the given latches
// and wraps the result exactly as raftstore/kv.Apply does.
func applyWith(db *NoKV.DB, m *latch.Manager, r Req) *pb.Response {
	q := r.pb()
	switch q.GetCmdType() {
	case pb.CmdType_CMD_PREWRITE:
		return &pb.Response{Cmd: &pb.Response_Prewrite{Prewrite: &pb.PrewriteResponse{Errors: percolator.Prewrite(db, m, q.GetPrewrite())}}}
	case pb.CmdType_CMD_COMMIT:
		return &pb.Response{Cmd: &pb.Response_Commit{Commit: &pb.CommitResponse{Error: percolator.Commit(db, m, q.GetCommit())}}}
	case pb.CmdType_CMD_BATCH_ROLLBACK:
		return &pb.Response{Cmd: &pb.Response_BatchRollback{BatchRollback: &pb.BatchRollbackResponse{Error: percolator.BatchRollback(db, m, q.GetBatchRollback())}}}
	case pb.CmdType_CMD_RESOLVE_LOCK:
		n, e := percolator.ResolveLock(db, m, q.GetResolveLock())
		return &pb.Response{Cmd: &pb.Response_ResolveLock{ResolveLock: &pb.ResolveLockResponse{ResolvedLocks: n, Error: e}}}
	case pb.CmdType_CMD_CHECK_TXN_STATUS:
		return &pb.Response{Cmd: &pb.Response_CheckTxnStatus{CheckTxnStatus: percolator.CheckTxnStatus(db, m, q.GetCheckTxnStatus())}}
	}
	panic("race: not a write request: " + r.T)
}

func reqKeys(r Req) [][]byte {
	switch r.T {
	case "pw":
		var ks [][]byte
		for _, m := range r.Muts {
			ks = append(ks, []byte(m.Key))
		}
		return ks
	case "ck":
		return [][]byte{[]byte(r.Primary)}
	}
	return bs(r.Keys)
}

// acquireBlocked reports whether some goroutine is inside latch.(*Manager).Acquire (twice, 2 ms apart).
func acquireBlocked() bool {
	probe := func() bool {
		buf := make([]byte, 1<<20)
		n := runtime.Stack(buf, true)
		return bytes.Contains(buf[:n], []byte("latch.(*Manager).Acquire"))
	}
	if !probe() {
		return false
	}
	time.Sleep(2 * time.Millisecond)
	return probe()
}

func stepsCoq(db *NoKV.DB, keys []string, reqs []Req) []string {
	reader := percolator.NewReader(db)
	var steps []string
	for _, r := range reqs {
		out := "ObsOther"
		resp, err := rkv.Apply(db, &pb.RaftCmdRequest{Requests: []*pb.Request{r.pb()}})
		if err == nil && resp != nil && len(resp.Responses) == 1 {
			out = respCoq(resp.Responses[0])
		}
		steps = append(steps, fmt.Sprintf("St (%s) %s %s", r.coq(), out, corr.List(locksCoq(reader, keys))))
	}
	return steps
}

func locksCoq(reader *percolator.Reader, keys []string) []string {
	var locks []string
	for _, k := range keys {
		l, lerr := reader.GetLock([]byte(k))
		switch {
		case lerr != nil:
			locks = append(locks, "(Some (Lk \"\" 0 0 OpRollback 0))")
		case l == nil:
			locks = append(locks, "None")
		default:
			locks = append(locks, "(Some "+lockCoq(l.Primary, l.Ts, l.TTL, l.Kind, l.MinCommitTs)+")")
		}
	}
	return locks
}

// runRaceCase executes one race on db and renders the case; blocked tells whether Y was seen
// waiting for the latch.
func runRaceCase(db *NoKV.DB, d PercoDesc) (term string, blocked bool) {
	setup := stepsCoq(db, d.Keys, d.Reqs)
	m := latch.NewManager(512)
	guard := m.Acquire(reqKeys(d.Race.X))
	done := make(chan *pb.Response, 1)
	go func() { done <- applyWith(db, m, d.Race.Y) }()
	var ry *pb.Response
	deadline := time.Now().Add(2 * time.Second)
	for ry == nil && !blocked && time.Now().Before(deadline) {
		select {
		case ry = <-done:
		case <-time.After(500 * time.Microsecond):
			blocked = acquireBlocked()
		}
	}
	rx := applyWith(db, latch.NewManager(512), d.Race.X)
	guard.Release()
	if ry == nil {
		ry = <-done
	}
	locks := locksCoq(percolator.NewReader(db), d.Keys)
	tail := stepsCoq(db, d.Keys, d.Race.Tail)
	term = fmt.Sprintf("Rc %s %s (%s) %s (%s) %s %s %s", hexList(d.Keys), corr.List(setup),
		d.Race.X.coq(), respCoq(rx), d.Race.Y.coq(), respCoq(ry), corr.List(locks), corr.List(tail))
	return term, blocked
}

// raceCases: transaction T = (start 10, commit 30, ttl 1000) on primary "a" (and "b"), over a committed
// base value; every ordered pair (X in flight, Y arriving) of the listed request pairs.
func raceCases() []PercoDesc {
	keys := []string{"a", "b", "c"}
	base := []Req{
		{T: "pw", Muts: []Mut{{Op: 0, Key: "a", Val: "base"}, {Op: 0, Key: "b", Val: "bb"}}, Primary: "a", Start: 2, TTL: 5},
		{T: "cm", Keys: []string{"a", "b"}, Start: 2, Commit: 4},
	}
	pw := Req{T: "pw", Muts: []Mut{{Op: 0, Key: "a", Val: "new"}, {Op: 1, Key: "b"}}, Primary: "a", Start: 10, TTL: 1000}
	cmA := Req{T: "cm", Keys: []string{"a"}, Start: 10, Commit: 30}
	cmAB := Req{T: "cm", Keys: []string{"a", "b"}, Start: 10, Commit: 30}
	rbA := Req{T: "rb", Keys: []string{"a", "b"}, Start: 10}
	rsC := Req{T: "rs", Keys: []string{"a", "b"}, Start: 10, Commit: 30}
	rs0 := Req{T: "rs", Keys: []string{"b", "a"}, Start: 10}
	ck := func(cur, caller uint64, rb bool) Req {
		return Req{T: "ck", Primary: "a", Start: 10, Current: U64(cur), Caller: U64(caller), RB: rb}
	}
	pw2 := Req{T: "pw", Muts: []Mut{{Op: 0, Key: "a", Val: "other"}}, Primary: "a", Start: 50, TTL: 10}
	tail := []Req{{T: "get", Key: "a", Version: 9}, {T: "get", Key: "a", Version: 35}, {T: "get", Key: "b", Version: 35},
		{T: "ck", Primary: "a", Start: 10, Current: 20, Caller: 0, RB: false}, {T: "get", Key: "a", Version: 100}}
	type pair struct {
		locked bool // T prewritten in the setup
		p, q   Req
	}
	pairs := []pair{
		{true, cmA, ck(20, 15, false)}, {true, cmA, ck(20, 40, false)}, {true, cmAB, ck(20, 15, true)},
		{true, cmA, ck(5000, 5000, false)}, {true, rbA, ck(20, 15, false)}, {true, rbA, ck(5000, 0, true)},
		{true, rsC, ck(20, 40, false)}, {true, rs0, ck(20, 15, false)},
		{false, pw, ck(20, 15, true)}, {false, pw, ck(20, 15, false)}, {true, pw, ck(20, 40, false)},
		{true, cmA, rbA}, {true, cmA, cmAB}, {true, cmA, pw2}, {true, rbA, pw}, {true, cmAB, rs0},
		{true, ck(20, 15, false), ck(20, 40, false)},
	}
	var out []PercoDesc
	for _, pr := range pairs {
		setup := append([]Req{}, base...)
		if pr.locked {
			setup = append(setup, pw)
		}
		for _, xy := range [][2]Req{{pr.p, pr.q}, {pr.q, pr.p}} {
			out = append(out, PercoDesc{Keys: keys, Reqs: setup, Gen: "race", Race: &RaceDesc{X: xy[0], Y: xy[1], Tail: tail}})
		}
	}
	return out
}

package main

import (
	"fmt"
	"os"
	"path/filepath"

	NoKV "github.com/feichai0017/NoKV"
	"github.com/feichai0017/NoKV/pb"
	"github.com/feichai0017/NoKV/percolator"
	rkv "github.com/feichai0017/NoKV/raftstore/kv"
	"verifharness/internal/corr"
)

// Storage faults inside protocol steps (C18 / C19): every protocol step is a sequence of separate
// DB writes and each can be refused before anything is written (ErrHotKeyWriteThrottle from
// DB.maybeThrottleWrite, enabled by default with limit 128). The harness provokes exactly that in
// the real DB: it opens the DB with the hot-key ring on (plain counters: no window, rotation or
// decay) and sets Options.WriteHotKeyLimit on the live DB before each request -- with limit L a
// write to a (column family, key) that has already accepted L writes is refused. The refused step
// returns a retryable key error and leaves a prefix of its writes; any request may follow.

type faultWorld struct {
	db  *NoKV.DB
	opt *NoKV.Options
	dir string
}

func openFaultWorld(tmp string) (*faultWorld, error) {
	dir, err := os.MkdirTemp(tmp, "fault")
	if err != nil {
		return nil, err
	}
	opt := NoKV.NewDefaultOptions()
	opt.WorkDir = filepath.Join(dir, "db")
	opt.MemTableSize = 64 << 20
	opt.SSTableMaxSz = 1 << 20
	opt.ValueLogFileSize = 1 << 20
	opt.ValueLogBucketCount = 1
	opt.EnableWALWatchdog = false
	opt.HotRingEnabled = true
	opt.HotRingRotationInterval = 0
	opt.HotRingWindowSlots = 0
	opt.HotRingDecayInterval = 0
	opt.HotRingNodeSampleBits = 0
	opt.WriteHotKeyLimit = 0
	opt.HotWriteBurstThreshold = 1 << 30 // writes are counted, never tagged hot
	return &faultWorld{db: NoKV.Open(opt), opt: opt, dir: dir}, nil
}

func (w *faultWorld) close() { w.db.Close(); os.RemoveAll(w.dir) }

func optBytes(v []byte, ok bool) string {
	if !ok {
		return "None"
	}
	return "(Some " + hx(v) + ")"
}

// runFaultCase: Limits[i] is the write limit in force for Reqs[i].
func (w *faultWorld) runFaultCase(d PercoDesc) (string, bool) {
	reader := percolator.NewReader(w.db)
	var steps []string
	refused := false
	for i, r := range d.Reqs {
		w.opt.WriteHotKeyLimit = int32(d.Limits[i])
		out := "ObsOther"
		resp, err := rkv.Apply(w.db, &pb.RaftCmdRequest{Requests: []*pb.Request{r.pb()}})
		w.opt.WriteHotKeyLimit = 0
		if err == nil && resp != nil && len(resp.Responses) == 1 {
			out = respCoq(resp.Responses[0])
		}
		if bytesContains(out, "KERetryable") {
			refused = true
		}
		var status []string
		for _, k := range d.Keys {
			ws := "None"
			if wr, cts, err := reader.GetWriteByStartTs([]byte(k), uint64(d.FStart)); err == nil && wr != nil {
				ws = fmt.Sprintf("(Some (%s, %d))", opName(wr.Kind), cts)
			}
			v, verr := reader.GetValue([]byte(k), uint64(d.FCommit))
			status = append(status, fmt.Sprintf("(%s, %s)", ws, optBytes(v, verr == nil)))
		}
		steps = append(steps, fmt.Sprintf("Fs %d (%s) %s %s %s", d.Limits[i], r.coq(), out,
			corr.List(locksCoq(reader, d.Keys)), corr.List(status)))
	}
	return fmt.Sprintf("Fc %s %d %d %s", hexList(d.Keys), d.FStart, d.FCommit, corr.List(steps)), refused
}

func bytesContains(s, sub string) bool {
	for i := 0; i+len(sub) <= len(s); i++ {
		if s[i:i+len(sub)] == sub {
			return true
		}
	}
	return false
}

// faultCases: over a committed base value, transaction T = (10 -> 30) on "a" (put, primary) and
// "b" (delete). Every pair of protocol events where the first one runs under write limit 1, 2 or 3
// (the prewrite itself under limit 1..4), followed by retries of commit / rollback / resolve /
// status check without a limit, and reads.
func faultCases(depth int) []PercoDesc {
	keys := []string{"a", "b", "c"}
	base := []Req{
		{T: "pw", Muts: []Mut{{Op: 0, Key: "a", Val: "base"}, {Op: 0, Key: "b", Val: "bb"}}, Primary: "a", Start: 2, TTL: 5},
		{T: "cm", Keys: []string{"a", "b"}, Start: 2, Commit: 4},
	}
	pw := Req{T: "pw", Muts: []Mut{{Op: 0, Key: "a", Val: "new"}, {Op: 1, Key: "b"}}, Primary: "a", Start: 10, TTL: 50}
	events := []Req{
		{T: "cm", Keys: []string{"a", "b"}, Start: 10, Commit: 30},
		{T: "cm", Keys: []string{"b", "a"}, Start: 10, Commit: 30},
		{T: "rb", Keys: []string{"a", "b"}, Start: 10},
		{T: "rs", Keys: []string{"a", "b"}, Start: 10, Commit: 30},
		{T: "rs", Keys: []string{"a", "b"}, Start: 10},
		{T: "ck", Primary: "a", Start: 10, Current: 5000, Caller: 0, RB: true},
		{T: "ck", Primary: "a", Start: 10, Current: 20, Caller: 40, RB: false},
		pw,
	}
	tail := []Req{
		{T: "get", Key: "a", Version: 35},
		{T: "cm", Keys: []string{"a", "b"}, Start: 10, Commit: 30},
		{T: "ck", Primary: "a", Start: 10, Current: 5000, Caller: 0, RB: true},
		{T: "rs", Keys: []string{"a", "b"}, Start: 10},
		{T: "rb", Keys: []string{"a", "b"}, Start: 10},
		{T: "get", Key: "a", Version: 35}, {T: "get", Key: "b", Version: 35},
	}
	var out []PercoDesc
	mk := func(pwLimit int, evs []Req, limits []int) {
		reqs := append(append([]Req{}, base...), pw)
		lims := []int{0, 0, pwLimit}
		reqs = append(reqs, evs...)
		lims = append(lims, limits...)
		for range tail {
			lims = append(lims, 0)
		}
		reqs = append(reqs, tail...)
		out = append(out, PercoDesc{Keys: keys, Reqs: reqs, Limits: lims, Gen: "fault", FStart: 10, FCommit: 30})
	}
	for l := 1; l <= 4; l++ { // the prewrite itself part-way
		for _, e := range events {
			mk(l, []Req{e}, []int{0})
		}
	}
	for _, e1 := range events {
		for l := 1; l <= 3; l++ {
			for _, e2 := range events {
				mk(0, []Req{e1, e2}, []int{l, 0})
				if depth > 2 {
					for _, e3 := range events {
						mk(0, []Req{e1, e2, e3}, []int{l, l, 0})
					}
				}
			}
		}
	}
	return out
}

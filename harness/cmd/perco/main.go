// Harness binary for the percolator stack: family "perco" (C17, C18, C19:
// request sequences through raftstore/kv.Apply on a real DB) and family
// "client2pc" (C28: the real raftstore/client against fault-injecting stores).
package main

import "verifharness/internal/corr"

func main() {
	corr.Main(map[string]corr.Family{
		"perco":     runPerco,
		"client2pc": runClient2pc,
	})
}

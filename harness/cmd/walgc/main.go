// Harness binary for C36 (WAL segment cleanup never removes data still needed).
package main

import "verifharness/internal/corr"

func main() { corr.Main(map[string]corr.Family{"walgc": runWalgc}) }

package main

import (
	"encoding/json"
	"errors"
	"fmt"
	"io"
	"math"
	"os"
	"path/filepath"
	"sort"
	"strconv"
	"strings"
	"sync"
	"time"

	NoKV "github.com/feichai0017/NoKV"
	"github.com/feichai0017/NoKV/manifest"
	myraft "github.com/feichai0017/NoKV/raft"
	"github.com/feichai0017/NoKV/raftstore/engine"
	"github.com/feichai0017/NoKV/utils/verifhook"
	"github.com/feichai0017/NoKV/wal"
	"verifharness/internal/corr"
)

// C36: a real DB and WALStorages of two raft groups share the DB's WAL and
// manifest; flushes are gated, the watchdog runs only when told to.

// ---- flush gate ----
// Every flush worker (of the DB under test and of the DBs opened on crash
// images) blocks at "lsm.flush.before" and registers a waiter; waiters are
// released individually, so the harness decides which DB flushes when.

type gateT struct {
	mu      sync.Mutex
	waiters []chan struct{}
	pass    bool
}

var gate gateT

func installHooks() {
	verifhook.SetFlag("compaction.pause", true)
	verifhook.SetYield(func(name string) {
		if name != "lsm.flush.before" {
			return
		}
		gate.mu.Lock()
		if gate.pass {
			gate.mu.Unlock()
			return
		}
		ch := make(chan struct{})
		gate.waiters = append(gate.waiters, ch)
		gate.mu.Unlock()
		<-ch
	})
}

func (g *gateT) count() int {
	g.mu.Lock()
	defer g.mu.Unlock()
	return len(g.waiters)
}

func (g *gateT) waitCount(n int) error {
	deadline := time.Now().Add(8 * time.Second)
	for g.count() < n {
		if time.Now().After(deadline) {
			return errors.New("flush worker did not reach the gate")
		}
		time.Sleep(100 * time.Microsecond)
	}
	return nil
}

// release lets waiter i go.
func (g *gateT) release(i int) {
	g.mu.Lock()
	ch := g.waiters[i]
	g.waiters = append(g.waiters[:i], g.waiters[i+1:]...)
	g.mu.Unlock()
	close(ch)
}

// releaseFrom lets every waiter with index >= mark go and lets later arrivals pass.
func (g *gateT) openFrom(mark int) {
	g.mu.Lock()
	g.pass = true
	for _, ch := range g.waiters[mark:] {
		close(ch)
	}
	g.waiters = g.waiters[:mark]
	g.mu.Unlock()
}

func (g *gateT) shut() {
	g.mu.Lock()
	g.pass = false
	g.mu.Unlock()
}

// ---- operations ----

type wgEntry struct {
	T uint64 `json:"t"`
	D uint64 `json:"d"`
}

type wgOp struct {
	K     string    `json:"k"` // put | rotate | flush | app | hs | compact | watchdog | reopen
	Key   uint64    `json:"key,omitempty"`
	Val   uint64    `json:"val,omitempty"`
	G     uint64    `json:"g,omitempty"`
	First uint64    `json:"first,omitempty"`
	Ents  []wgEntry `json:"ents,omitempty"`
	Term  uint64    `json:"term,omitempty"`
	Vote  uint64    `json:"vote,omitempty"`
	Com   uint64    `json:"com,omitempty"`
	Idx   uint64    `json:"idx,omitempty"`
}

const wgKeys = 4

func keyBytes(k uint64) []byte { return []byte{'k', byte('0' + k)} }

func tokBytes(d uint64) []byte {
	var b []byte
	for d > 0 {
		b = append([]byte{byte(d)}, b...)
		d >>= 8
	}
	return b
}

func bytesTok(b []byte) uint64 {
	if len(b) > 8 {
		return math.MaxUint32
	}
	var d uint64
	for _, x := range b {
		d = d<<8 | uint64(x)
	}
	return d
}

func mkEntries(first uint64, es []wgEntry) []myraft.Entry {
	out := make([]myraft.Entry, len(es))
	for i, e := range es {
		out[i] = myraft.Entry{Index: first + uint64(i), Term: e.T, Data: tokBytes(e.D)}
	}
	return out
}

func entsTerm(es []wgEntry) string {
	s := make([]string, len(es))
	for i, e := range es {
		s[i] = fmt.Sprintf("(%d,%d)", e.T, e.D)
	}
	return corr.List(s)
}

var errPanic = errors.New("panic")

func guard(f func() error) (err error) {
	defer func() {
		if r := recover(); r != nil {
			err = fmt.Errorf("%w: %v", errPanic, r)
		}
	}()
	return f()
}

func errTerm(err error) string {
	m := err.Error()
	switch {
	case errors.Is(err, errPanic):
		return "EPanic"
	case errors.Is(err, myraft.ErrCompacted):
		return "ECompacted"
	case errors.Is(err, myraft.ErrUnavailable):
		return "EUnavailable"
	case strings.Contains(m, "not found in segment"), strings.Contains(m, "no such file"):
		return "EPtrNotFound"
	case strings.Contains(m, "non-raft record"):
		return "EPtrNonRaft"
	}
	return "EOther"
}

func openOpts(dir string) *NoKV.Options {
	opt := NoKV.NewDefaultOptions()
	opt.WorkDir = dir
	opt.MemTableSize = 1 << 20
	opt.SSTableMaxSz = 1 << 20
	opt.ValueThreshold = 1 << 20
	opt.HotRingEnabled = false
	opt.EnableWALWatchdog = false
	opt.WriteHotKeyLimit = 0
	opt.NumCompactors = 1
	opt.ValueLogGCInterval = 0
	opt.SyncWrites = true
	opt.ValueLogFileSize = 1 << 20
	opt.ValueLogBucketCount = 1
	return opt
}

type wgRun struct {
	c     *corr.Ctx
	dir   string
	db    *NoKV.DB
	ws    map[uint64]*engine.WALStorage
	wd    *wal.Watchdog
	imms  int // sealed memtables of the DB under test
	steps []string
}

func walIDs(dir string) []uint64 {
	files, _ := filepath.Glob(filepath.Join(dir, "*.wal"))
	var ids []uint64
	for _, f := range files {
		id, err := strconv.ParseUint(strings.TrimSuffix(filepath.Base(f), ".wal"), 10, 32)
		if err == nil {
			ids = append(ids, id)
		}
	}
	sort.Slice(ids, func(i, j int) bool { return ids[i] < ids[j] })
	return ids
}

func observeWS(ws *engine.WALStorage) string {
	hs, _, _ := ws.InitialState()
	snap, _ := ws.Snapshot()
	fi, _ := ws.FirstIndex()
	la, _ := ws.LastIndex()
	var ents []string
	if la >= fi {
		var es []myraft.Entry
		err := guard(func() error {
			var e error
			es, e = ws.Entries(fi, la+1, math.MaxUint64)
			return e
		})
		if err != nil {
			ents = append(ents, "(0,(0,0))")
		}
		for _, e := range es {
			ents = append(ents, fmt.Sprintf("(%d,(%d,%d))", e.Index, e.Term, bytesTok(e.Data)))
		}
	}
	return fmt.Sprintf("(Ob (H %d %d %d) %d %d %d %d %s)", hs.Term, hs.Vote, hs.Commit,
		snap.Metadata.Index, snap.Metadata.Term, fi, la, corr.List(ents))
}

func copyTree(src, dst string) error {
	return filepath.Walk(src, func(p string, info os.FileInfo, err error) error {
		if err != nil {
			return err
		}
		rel, _ := filepath.Rel(src, p)
		if info.IsDir() {
			return os.MkdirAll(filepath.Join(dst, rel), 0o755)
		}
		if !info.Mode().IsRegular() {
			return nil
		}
		in, err := os.Open(p)
		if err != nil {
			return err
		}
		defer in.Close()
		out, err := os.Create(filepath.Join(dst, rel))
		if err != nil {
			return err
		}
		defer out.Close()
		_, err = io.Copy(out, in)
		return err
	})
}

// probe: crash image of the directory, reopened by the real code.
func (r *wgRun) probe() (string, error) {
	// the flush worker of the DB under test must be parked before the image DB starts its own
	want := 0
	if r.imms > 0 {
		want = 1
	}
	if err := gate.waitCount(want); err != nil {
		return "", err
	}
	mark := gate.count()
	img, err := os.MkdirTemp("", "walgc-img-")
	if err != nil {
		return "", err
	}
	defer os.RemoveAll(img)
	if err := copyTree(r.dir, img); err != nil {
		return "", err
	}
	var db *NoKV.DB
	if err := guard(func() error { db = NoKV.Open(openOpts(img)); return nil }); err != nil {
		return "", fmt.Errorf("reopen of crash image: %v", err)
	}
	imgIDs := corr.ListN(walIDs(img))
	var kvs []string
	for k := uint64(0); k < wgKeys; k++ {
		e, err := db.Get(keyBytes(k))
		if err != nil || e == nil {
			kvs = append(kvs, fmt.Sprintf("(%d,None)", k))
			continue
		}
		v, _ := strconv.ParseUint(string(e.Value), 10, 64)
		kvs = append(kvs, fmt.Sprintf("(%d,Some %d)", k, v))
	}
	var rs []string
	for _, g := range []uint64{1, 2} {
		var ws *engine.WALStorage
		err := guard(func() error {
			var e error
			ws, e = engine.OpenWALStorage(engine.WALStorageConfig{GroupID: g, WAL: db.WAL(), Manifest: db.Manifest()})
			return e
		})
		if err != nil {
			rs = append(rs, fmt.Sprintf("(%d,Err %s)", g, errTerm(err)))
			r.c.Count("probe_raft_" + errTerm(err))
		} else {
			rs = append(rs, fmt.Sprintf("(%d,Ok %s)", g, observeWS(ws)))
			r.c.Count("probe_raft_ok")
		}
	}
	gate.openFrom(mark)
	cerr := guard(func() error { return db.Close() })
	gate.shut()
	if cerr != nil {
		return "", fmt.Errorf("close of image DB: %v", cerr)
	}
	return fmt.Sprintf("(Some (Pr %s %s %s))", imgIDs, corr.List(kvs), corr.List(rs)), nil
}

func (r *wgRun) ptrs() string {
	var out []string
	for _, g := range []uint64{1, 2} {
		p, _ := r.db.Manifest().RaftPointer(g)
		out = append(out, fmt.Sprintf("(%d,(%d,%d,%d))", g, p.Segment, p.SegmentIndex, p.TruncatedIndex))
	}
	return corr.List(out)
}

func (r *wgRun) emit(opTerm string, withProbe bool) error { return r.emitAs("Ws", opTerm, withProbe) }

func (r *wgRun) emitAs(ctor, opTerm string, withProbe bool) error {
	pr := "None"
	if withProbe {
		p, err := r.probe()
		if err != nil {
			return err
		}
		pr = p
		r.c.Count("probes")
	}
	r.steps = append(r.steps, fmt.Sprintf("%s %s %s %s %s", ctor, opTerm, corr.ListN(walIDs(r.dir)), r.ptrs(), pr))
	return nil
}

func (r *wgRun) apply(o wgOp) (bool, error) {
	before := len(walIDs(r.dir))
	var term string
	switch o.K {
	case "put":
		if err := r.db.Set(keyBytes(o.Key), []byte(strconv.FormatUint(o.Val, 10))); err != nil {
			return false, err
		}
		term = fmt.Sprintf("(WPut %d %d)", o.Key, o.Val)
	case "rotate":
		r.db.VerifLSM().Rotate()
		r.imms++
		if err := gate.waitCount(1); err != nil {
			return false, err
		}
		term = fmt.Sprintf("(WRotate %d)", r.db.VerifLSM().VerifLayout(false).Active.SegmentID)
	case "flush":
		if r.imms == 0 {
			return false, nil
		}
		if err := gate.waitCount(1); err != nil {
			return false, err
		}
		gate.release(0)
		if err := r.db.VerifLSM().VerifWaitFlushed(r.imms-1, 8*time.Second); err != nil {
			return false, err
		}
		r.imms--
		if r.imms > 0 {
			if err := gate.waitCount(1); err != nil {
				return false, err
			}
		}
		// the worker removes the segment before it unlinks the memtable from the list, so
		// the directory is settled here
		term = "WFlush"
	case "app":
		_ = guard(func() error { return r.ws[o.G].Append(mkEntries(o.First, o.Ents)) })
		term = fmt.Sprintf("(WAppend %d %d %s)", o.G, o.First, entsTerm(o.Ents))
	case "hs":
		_ = guard(func() error {
			return r.ws[o.G].SetHardState(myraft.HardState{Term: o.Term, Vote: o.Vote, Commit: o.Com})
		})
		term = fmt.Sprintf("(WSetHs %d (H %d %d %d))", o.G, o.Term, o.Vote, o.Com)
	case "compact":
		_ = guard(func() error { return r.ws[o.G].MaybeCompact(o.Idx+1, 1) })
		term = fmt.Sprintf("(WCompact %d %d)", o.G, o.Idx)
	case "watchdog":
		r.wd.RunOnce()
		term = "WWatchdog"
	case "reopen":
		// a restarting peer: a new WALStorage for the group on the live manager + manifest
		var ws *engine.WALStorage
		err := guard(func() error {
			var e error
			ws, e = engine.OpenWALStorage(engine.WALStorageConfig{GroupID: o.G, WAL: r.db.WAL(), Manifest: r.db.Manifest()})
			return e
		})
		if err == nil && ws != nil {
			r.ws[o.G] = ws
			r.c.Count("reopen_ok")
		} else {
			r.c.Count("reopen_" + errTerm(err))
		}
		r.c.Count("op_" + o.K)
		removedR := len(walIDs(r.dir)) < before
		return removedR, r.emitAs("Wo", fmt.Sprintf("(WReopen %d) %s", o.G, corr.Bool(err == nil)), removedR)
	default:
		return false, fmt.Errorf("unknown op %q", o.K)
	}
	r.c.Count("op_" + o.K)
	removed := len(walIDs(r.dir)) < before
	if removed {
		r.c.Count("removal_by_" + o.K)
	}
	return removed, r.emit(term, removed)
}

func runHistory(c *corr.Ctx, ops []wgOp) (corr.Case, error) {
	dir, err := os.MkdirTemp("", "walgc-")
	if err != nil {
		return corr.Case{}, err
	}
	defer os.RemoveAll(dir)
	r := &wgRun{c: c, dir: dir, ws: map[uint64]*engine.WALStorage{}}
	r.db = NoKV.Open(openOpts(dir))
	for _, g := range []uint64{1, 2} {
		ws, err := engine.OpenWALStorage(engine.WALStorageConfig{GroupID: g, WAL: r.db.WAL(), Manifest: r.db.Manifest()})
		if err != nil {
			return corr.Case{}, err
		}
		r.ws[g] = ws
	}
	r.wd = wal.NewWatchdog(wal.WatchdogConfig{Manager: r.db.WAL(), MinRemovable: 1, MaxBatch: 4,
		RaftPointers: func() map[uint64]manifest.RaftLogPointer { return r.db.Manifest().RaftPointerSnapshot() }})
	ids0 := walIDs(dir)
	active0 := r.db.VerifLSM().VerifLayout(false).Active.SegmentID
	removals := 0
	var runErr error
	for _, o := range ops {
		removed, err := r.apply(o)
		if err != nil {
			runErr = err
			break
		}
		if removed {
			removals++
		}
	}
	if runErr == nil && len(r.steps) > 0 {
		// final crash image: re-emit the last step with a probe if it had none
		last := r.steps[len(r.steps)-1]
		if strings.HasSuffix(last, " None") {
			p, err := r.probe()
			if err != nil {
				runErr = err
			} else {
				r.steps[len(r.steps)-1] = strings.TrimSuffix(last, "None") + p
				c.Count("probes")
			}
		}
	}
	// close the DB under test: let its flush worker drain
	gate.openFrom(0)
	cerr := guard(func() error { return r.db.Close() })
	gate.shut()
	if runErr != nil {
		return corr.Case{}, runErr
	}
	if cerr != nil {
		return corr.Case{}, fmt.Errorf("close: %v", cerr)
	}
	return corr.Case{Coq: fmt.Sprintf("Cs %s %d %s", corr.ListN(ids0), active0, corr.List(r.steps)),
		Nontrivial: removals > 0, Desc: ops}, nil
}

// ---- generator ----

type wgGroup struct{ last, trunc, term uint64 }

func genHistory(c *corr.Ctx) []wgOp {
	r := c.Rng
	gs := map[uint64]*wgGroup{1: {term: 1}, 2: {term: 1}}
	imms := 0
	val := uint64(0)
	n := 8 + r.Intn(14)
	raftHeavy := r.Intn(3) != 0
	var ops []wgOp
	for len(ops) < n {
		g := uint64(1)
		if r.Intn(5) == 0 {
			g = 2
		}
		sh := gs[g]
		x := r.Intn(100)
		switch {
		case x < 22:
			val++
			ops = append(ops, wgOp{K: "put", Key: uint64(r.Intn(wgKeys)), Val: val})
		case x < 36:
			ops = append(ops, wgOp{K: "rotate"})
			imms++
		case x < 52:
			if imms == 0 {
				continue
			}
			ops = append(ops, wgOp{K: "flush"})
			imms--
		case x < 72:
			if !raftHeavy && r.Intn(2) == 0 {
				continue
			}
			o := wgOp{K: "app", G: g, First: sh.last + 1}
			if sh.last > sh.trunc && r.Intn(5) == 0 {
				o.First = sh.trunc + 1 + uint64(r.Intn(int(sh.last-sh.trunc)))
				sh.term++
			}
			k := 1 + r.Intn(3)
			for i := 0; i < k; i++ {
				o.Ents = append(o.Ents, wgEntry{T: sh.term, D: uint64(1 + r.Intn(200))})
			}
			sh.last = o.First + uint64(k) - 1
			ops = append(ops, o)
		case x < 80:
			if r.Intn(3) == 0 {
				sh.term++
			}
			ops = append(ops, wgOp{K: "hs", G: g, Term: sh.term, Vote: uint64(1 + r.Intn(3)), Com: sh.trunc})
		case x < 90:
			if sh.last <= sh.trunc {
				continue
			}
			idx := sh.trunc + 1 + uint64(r.Intn(int(sh.last-sh.trunc)))
			ops = append(ops, wgOp{K: "compact", G: g, Idx: idx})
			sh.trunc = idx
			if r.Intn(3) == 0 {
				ops = append(ops, wgOp{K: "reopen", G: g}) // a restart with truncation recorded in the pointer
			}
		case x < 94 && sh.last > 0:
			ops = append(ops, wgOp{K: "reopen", G: g})
		default:
			ops = append(ops, wgOp{K: "watchdog"})
		}
	}
	return ops
}

func runWalgc(c *corr.Ctx) error {
	c.Meta("run_module", "RunWalGc")
	c.Meta("rule", "random histories of 8..21 operations on a real DB (SyncWrites, compaction paused, gated flushes) whose WAL and manifest are shared with WALStorages of two raft groups: puts over 4 keys, memtable rotations, flushes of the oldest sealed memtable, raft appends (tail / conflicting overwrite), hard states, log compactions, Watchdog.RunOnce (MinRemovable 1, MaxBatch 4). After every operation: *.wal files and manifest raft pointers; after every operation that removed a file and at the end: crash image (directory copy) reopened with NoKV.Open + OpenWALStorage, Get of every key and raft observables. non-trivial = at least one segment was removed; distinct by Gallina term")
	c.Meta("exhaustive", false)
	installHooks()
	emitOps := func(ops []wgOp) error {
		cs, err := runHistory(c, ops)
		if err != nil {
			return err
		}
		c.Emit(cs)
		return nil
	}
	if c.Replay != "" {
		cases, err := c.ReplayCases()
		if err != nil {
			return err
		}
		for _, cs := range cases {
			b, _ := json.Marshal(cs.Desc)
			var ops []wgOp
			if err := json.Unmarshal(b, &ops); err != nil {
				return err
			}
			if err := emitOps(ops); err != nil {
				return err
			}
		}
		return nil
	}
	e := func(t uint64, ds ...uint64) []wgEntry {
		var out []wgEntry
		for _, d := range ds {
			out = append(out, wgEntry{T: t, D: d})
		}
		return out
	}
	fixed := [][]wgOp{
		// standalone: no raft group
		{{K: "put", Key: 0, Val: 1}, {K: "rotate"}, {K: "put", Key: 0, Val: 2}, {K: "put", Key: 1, Val: 3}, {K: "flush"},
			{K: "rotate"}, {K: "watchdog"}, {K: "flush"}},
		// class 1: nothing truncated, pointer's latest segment is later
		{{K: "put", Key: 0, Val: 1}, {K: "app", G: 1, First: 1, Ents: e(1, 5, 6)}, {K: "rotate"},
			{K: "hs", G: 1, Term: 1, Vote: 1}, {K: "flush"}},
		// class 2: watchdog removes the segment of an unflushed memtable
		{{K: "put", Key: 0, Val: 1}, {K: "app", G: 1, First: 1, Ents: e(1, 5)}, {K: "rotate"},
			{K: "app", G: 1, First: 2, Ents: e(1, 6)}, {K: "compact", G: 1, Idx: 2}, {K: "watchdog"}},
		// class 3: empty memtable
		{{K: "app", G: 1, First: 1, Ents: e(1, 5)}, {K: "hs", G: 1, Term: 1, Vote: 2}, {K: "rotate"}, {K: "flush"}},
		// class 4: legitimate removal, reopen cannot start from a truncated log
		{{K: "put", Key: 0, Val: 1}, {K: "hs", G: 1, Term: 1, Vote: 1}, {K: "app", G: 1, First: 1, Ents: e(1, 5, 6)}, {K: "rotate"},
			{K: "hs", G: 1, Term: 1, Vote: 1, Com: 2}, {K: "app", G: 1, First: 3, Ents: e(1, 7, 8)}, {K: "compact", G: 1, Idx: 3}, {K: "flush"}},
	}
	fixed = append(fixed,
		// truncation recorded in the pointer, the untruncated log spans two segments, the
		// storage is reopened, then the old segment's memtable is flushed: the pointer must
		// still carry SegmentIndex/TruncatedIndex and segment 1 must stay
		[]wgOp{{K: "put", Key: 0, Val: 1}, {K: "app", G: 1, First: 1, Ents: e(1, 5, 6, 7, 8)}, {K: "compact", G: 1, Idx: 2},
			{K: "rotate"}, {K: "app", G: 1, First: 5, Ents: e(1, 9, 10)}, {K: "reopen", G: 1}, {K: "flush"},
			{K: "put", Key: 1, Val: 2}, {K: "rotate"}, {K: "reopen", G: 1}, {K: "flush"}},
		// reopen twice, compact again after the reopen, watchdog
		[]wgOp{{K: "app", G: 1, First: 1, Ents: e(1, 5, 6, 7)}, {K: "hs", G: 1, Term: 1, Vote: 1}, {K: "put", Key: 0, Val: 1},
			{K: "compact", G: 1, Idx: 1}, {K: "reopen", G: 1}, {K: "rotate"}, {K: "app", G: 1, First: 4, Ents: e(1, 8)},
			{K: "reopen", G: 1}, {K: "compact", G: 1, Idx: 3}, {K: "watchdog"}, {K: "flush"}},
	)
	for _, ops := range fixed {
		if err := emitOps(ops); err != nil {
			return err
		}
	}
	n := c.Scale(150, 3000)
	if c.Tier == "search" && n > 300 {
		n = 300 // the driver's search multiplies the quick count by 8; a DB open per probe makes that crawl
	}
	for i := 0; i < n; i++ {
		if err := emitOps(genHistory(c)); err != nil {
			return err
		}
	}
	return nil
}

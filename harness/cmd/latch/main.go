// Harness binary for C20 (key latches).
package main

import "verifharness/internal/corr"

func main() { corr.Main(map[string]corr.Family{"latch": runLatch}) }

package main

import (
	"encoding/hex"
	"encoding/json"
	"fmt"
	"runtime"
	"strings"
	"sync"
	"time"

	"github.com/feichai0017/NoKV/kv"
	"github.com/feichai0017/NoKV/percolator/latch"
	"verifharness/internal/corr"
)

// C20: latch.Manager.Acquire / Guard.Release.
//
// Two kinds of cases.
//   - sequential: one goroutine enters/leaves requests in a random order (an
//     Enter is only attempted when none of its stripes is locked, judged by
//     the TryLock probe); after every event the set of locked stripes is
//     recorded.
//   - concurrent: 2..8 goroutines, each running several requests; the log of
//     Enter/Exit events is appended under one mutex (Enter after Acquire
//     returned, Exit before Release), so overlap in the log is real overlap.
//
// Every guard is released twice.

type latchDesc struct {
	N      int        `json:"n"`
	Reqs   [][]string `json:"reqs"` // hex keys
	Seq    bool       `json:"seq"`
	Order  []int      `json:"order,omitempty"` // sequential: request picked at each step
	Rounds int        `json:"rounds,omitempty"`
	Gs     int        `json:"goroutines,omitempty"`
}

var latchAlphabet = [][]byte{{}, {0}, {1}, {2}, {0xff}, {1, 2}, {1, 0}, []byte("a"), []byte("b"), []byte("ab"), []byte("key-3"), []byte("key-4"), []byte("key-5"), []byte("key-6")}

func hexKeys(ks [][]byte) []string {
	out := make([]string, len(ks))
	for i, k := range ks {
		out[i] = hex.EncodeToString(k)
	}
	return out
}

func unhexKeys(ks []string) [][]byte {
	out := make([][]byte, len(ks))
	for i, k := range ks {
		b, _ := hex.DecodeString(k)
		out[i] = b
	}
	return out
}

func ints2N(xs []int) string {
	s := make([]string, len(xs))
	for i, x := range xs {
		s[i] = fmt.Sprint(x)
	}
	return corr.List(s)
}

func latchTerm(n int, reqs [][][]byte, slots [][]int, trace []string, seq bool, locked [][]int, done bool) string {
	seen := map[string]bool{}
	var hs, rs, ss, ls []string
	for _, r := range reqs {
		var ks []string
		for _, k := range r {
			ks = append(ks, "K "+corr.Hex(k))
			if len(k) > 0 && !seen[string(k)] {
				seen[string(k)] = true
				hs = append(hs, fmt.Sprintf("H %s %d", corr.Hex(k), kv.MemHash(k)))
			}
		}
		rs = append(rs, corr.List(ks))
	}
	for _, s := range slots {
		ss = append(ss, ints2N(s))
	}
	for _, l := range locked {
		ls = append(ls, ints2N(l))
	}
	return fmt.Sprintf("Cs %d %s %s %s %s %s %s %s", n, corr.List(hs), corr.List(rs), corr.List(ss),
		corr.List(trace), corr.Bool(seq), corr.List(ls), corr.Bool(done))
}

func stripesFree(m *latch.Manager, n int, keys [][]byte) bool {
	locked := map[int]bool{}
	for _, i := range m.VerifLocked() {
		locked[i] = true
	}
	for _, k := range keys {
		if len(k) == 0 {
			continue
		}
		if locked[int(kv.MemHash(k)%uint64(n))] {
			return false
		}
	}
	return true
}

// latchSeq replays d.Order: each pick enters the request if it is outside and
// free, leaves it if it is inside, and is skipped otherwise.
func latchSeq(d latchDesc) corr.Case {
	m := latch.NewManager(d.N)
	reqs := make([][][]byte, len(d.Reqs))
	for i, r := range d.Reqs {
		reqs[i] = unhexKeys(r)
	}
	guards := make([]*latch.Guard, len(reqs))
	state := make([]int, len(reqs)) // 0 outside, 1 inside, 2 finished
	slots := make([][]int, len(reqs))
	var trace []string
	var locked [][]int
	blocked := 0
	step := func(t int) {
		switch state[t] {
		case 0:
			if !stripesFree(m, d.N, reqs[t]) {
				blocked++
				return
			}
			guards[t] = m.Acquire(reqs[t])
			slots[t] = guards[t].VerifSlots()
			state[t] = 1
			trace = append(trace, fmt.Sprintf("E %d", t))
		case 1:
			trace = append(trace, fmt.Sprintf("X %d", t))
			guards[t].Release()
			guards[t].Release()
			state[t] = 2
		default:
			return
		}
		locked = append(locked, m.VerifLocked())
	}
	for _, t := range d.Order {
		step(t)
	}
	for t := range reqs { // drain: leave everything inside, then run the rest
		if state[t] == 1 {
			step(t)
		}
	}
	for t := range reqs {
		if state[t] == 0 {
			step(t)
			step(t)
		}
	}
	return corr.Case{Coq: latchTerm(d.N, reqs, slots, trace, true, locked, true), Nontrivial: blocked > 0, Desc: d}
}

func latchConc(d latchDesc) corr.Case {
	m := latch.NewManager(d.N)
	reqs := make([][][]byte, len(d.Reqs))
	for i, r := range d.Reqs {
		reqs[i] = unhexKeys(r)
	}
	slots := make([][]int, len(reqs))
	var mu sync.Mutex
	var trace []string
	var wg sync.WaitGroup
	start := make(chan struct{})
	for g := 0; g < d.Gs; g++ {
		wg.Add(1)
		go func(g int) {
			defer wg.Done()
			<-start
			for r := 0; r < d.Rounds; r++ {
				t := g*d.Rounds + r
				gd := m.Acquire(reqs[t])
				mu.Lock()
				slots[t] = gd.VerifSlots()
				trace = append(trace, fmt.Sprintf("E %d", t))
				mu.Unlock()
				for i := 0; i < (t%3)+1; i++ {
					runtime.Gosched()
				}
				mu.Lock()
				trace = append(trace, fmt.Sprintf("X %d", t))
				mu.Unlock()
				gd.Release()
				gd.Release()
			}
		}(g)
	}
	close(start)
	fin := make(chan struct{})
	go func() { wg.Wait(); close(fin) }()
	done := true
	select {
	case <-fin:
	case <-time.After(20 * time.Second):
		done = false
	}
	mu.Lock()
	tr := append([]string(nil), trace...)
	sl := make([][]int, len(slots))
	copy(sl, slots)
	mu.Unlock()
	overlap := false
	inside := 0
	for _, e := range tr {
		if e[0] == 'E' {
			inside++
			if inside > 1 {
				overlap = true
			}
		} else {
			inside--
		}
	}
	return corr.Case{Coq: latchTerm(d.N, reqs, sl, tr, false, nil, done), Nontrivial: overlap || d.N <= 2, Desc: d}
}

// stripePairs searches, by hashing generated keys, pairs of keys whose stripes in a manager of n stripes
// are different but congruent modulo m (m = 256: the width of a byte-indexed table; m = n/2 etc.), plus
// pairs of distinct keys on the same stripe. MemHash is seeded per process, so the search runs every time.
func stripePairs(n, m, want int) (congruent, same [][2][]byte) {
	byStripe := map[int][][]byte{}
	for i := 0; i < 40000 && (len(congruent) < want || len(same) < want); i++ {
		k := []byte(fmt.Sprintf("ck-%d", i))
		st := int(kv.MemHash(k) % uint64(n))
		if prev := byStripe[st]; len(prev) > 0 && len(same) < want {
			same = append(same, [2][]byte{prev[0], k})
		}
		for _, o := range []int{st + m, st - m} {
			if o >= 0 && o < n && len(congruent) < want {
				if prev := byStripe[o]; len(prev) > 0 {
					congruent = append(congruent, [2][]byte{prev[0], k})
				}
			}
		}
		byStripe[st] = append(byStripe[st], k)
	}
	return congruent, same
}

// bigManagerDescs: managers around and above 256 stripes (512 is the size the apply path uses) with
// multi-key requests whose stripes collide modulo 256, and overlapping single-key requests.
func bigManagerDescs(c *corr.Ctx, perSize int) []latchDesc {
	var out []latchDesc
	for _, n := range []int{255, 256, 257, 512, 1024} {
		congr, same := stripePairs(n, 256, perSize)
		pairs := append(append([][2][]byte{}, congr...), same...)
		for len(pairs) < perSize { // n <= 256: no congruent pair exists; use arbitrary keys
			i := len(pairs)
			pairs = append(pairs, [2][]byte{[]byte(fmt.Sprintf("ak-%d", 2*i)), []byte(fmt.Sprintf("ak-%d", 2*i+1))})
		}
		for _, p := range pairs {
			a, b := p[0], p[1]
			extra := corr.Pick(c.Rng, latchAlphabet)
			d := latchDesc{N: n, Reqs: [][]string{
				hexKeys([][]byte{a, b}), hexKeys([][]byte{b}), hexKeys([][]byte{a}), hexKeys([][]byte{b, extra, a, b}),
			}}
			out = append(out, d)
		}
	}
	return out
}

func genReqs(c *corr.Ctx, n, maxKeys int) []string {
	k := c.Rng.Intn(maxKeys + 1)
	var ks [][]byte
	for i := 0; i < k; i++ {
		ks = append(ks, corr.Pick(c.Rng, latchAlphabet))
	}
	return hexKeys(ks)
}

func runLatch(c *corr.Ctx) error {
	c.Meta("run_module", "RunLatch")
	c.Meta("rule", "random key sets over a 14-key alphabet (empty key, duplicates, prefix-related keys), stripe counts {1,2,3,4,256,257,512}, plus managers of 255/256/257/512/1024 stripes with keys searched by hashing so that the stripes of one request are different but congruent modulo 256 (or equal), overlapped by single-key requests; sequential cases compare slot lists and the locked-stripe set after every Enter/Exit; concurrent cases (2..8 goroutines x 1..3 requests) compare slot lists and check that the logged Enter/Exit trace is a trace of the model and never overlaps conflicting requests. non-trivial = a sequential case in which an Enter was refused at least once, or a concurrent case with real overlap of critical sections or <= 2 stripes")
	c.Meta("exhaustive", false)
	if c.Replay != "" {
		cases, err := c.ReplayCases()
		if err != nil {
			return err
		}
		for _, cs := range cases {
			var d latchDesc
			if err := descInto(cs.Desc, &d); err != nil {
				return err
			}
			if d.Seq {
				c.Emit(latchSeq(d))
			} else {
				c.Emit(latchConc(d))
			}
		}
		return nil
	}
	// managers with 255..1024 stripes and keys whose stripes collide modulo 256
	for _, d := range bigManagerDescs(c, c.Scale(6, 60)) {
		// sequential: the multi-key request enters first, then the overlapping single-key requests are tried
		for _, order := range [][]int{{0, 1, 2, 3, 0, 1, 2, 3}, {1, 0, 2, 1, 3, 0, 2, 3}, {3, 1, 2, 0, 3, 1, 2, 0}} {
			ds := d
			ds.Seq, ds.Order = true, order
			c.Count(fmt.Sprintf("seq.big.n=%d", d.N))
			c.Emit(latchSeq(ds))
		}
		dc := d
		dc.Gs, dc.Rounds = 4, 1
		c.Count(fmt.Sprintf("conc.big.n=%d", d.N))
		cs := latchConc(dc)
		c.Emit(cs)
		if strings.HasSuffix(cs.Coq, "false") {
			c.Count("conc.incomplete")
			return nil
		}
	}
	ns := []int{1, 2, 2, 3, 4, 256, 257, 512}
	for i := 0; i < c.Scale(200, 4000); i++ {
		d := latchDesc{N: corr.Pick(c.Rng, ns), Seq: true}
		nreq := 2 + c.Rng.Intn(4)
		for j := 0; j < nreq; j++ {
			d.Reqs = append(d.Reqs, genReqs(c, d.N, 4))
		}
		for j := 0; j < 3*nreq; j++ {
			d.Order = append(d.Order, c.Rng.Intn(nreq))
		}
		c.Count(fmt.Sprintf("seq.n=%d", d.N))
		c.Emit(latchSeq(d))
	}
	for i := 0; i < c.Scale(150, 3000); i++ {
		d := latchDesc{N: corr.Pick(c.Rng, ns), Gs: 2 + c.Rng.Intn(7), Rounds: 1 + c.Rng.Intn(3)}
		for j := 0; j < d.Gs*d.Rounds; j++ {
			d.Reqs = append(d.Reqs, genReqs(c, d.N, 4))
		}
		c.Count(fmt.Sprintf("conc.n=%d", d.N))
		cs := latchConc(d)
		if cs.Nontrivial {
			c.Count("conc.overlap_or_few_stripes")
		}
		c.Emit(cs)
		if strings.HasSuffix(cs.Coq, "false") {
			// a request never completed (deadlock): the case is a violation; the blocked
			// goroutines are leaked, so stop here instead of waiting 20 s per further case
			c.Count("conc.incomplete")
			break
		}
	}
	return nil
}

// descInto converts the decoded JSON of a replay case's desc back to a struct.
func descInto(desc any, out any) error {
	b, err := json.Marshal(desc)
	if err != nil {
		return err
	}
	return json.Unmarshal(b, out)
}

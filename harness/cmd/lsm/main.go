// Harness binary for the LSM family (C01, C02, C12).
package main

import "verifharness/internal/corr"

func main() {
	corr.Main(map[string]corr.Family{"lsm": runLsm})
}

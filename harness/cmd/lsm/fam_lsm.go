package main

import (
	"bytes"
	"crypto/sha1"
	"errors"
	"fmt"
	"math"
	"os"
	"sort"
	"strings"
	"sync"
	"time"

	NoKV "github.com/feichai0017/NoKV"
	"github.com/feichai0017/NoKV/kv"
	"github.com/feichai0017/NoKV/lsm"
	"github.com/feichai0017/NoKV/lsm/compact"
	"github.com/feichai0017/NoKV/utils"
	"github.com/feichai0017/NoKV/utils/verifhook"
	"verifharness/internal/corr"
)

// ---- flush gate: the flush worker blocks at its yield point until a token arrives ----

type gate struct {
	mu     sync.Mutex
	tokens chan struct{}
	open   bool
}

var flushGate = &gate{tokens: make(chan struct{}, 1024)}

func installHooks() {
	verifhook.SetFlag("compaction.pause", true)
	verifhook.SetYield(func(name string) {
		if name != "lsm.flush.before" {
			return
		}
		flushGate.mu.Lock()
		open := flushGate.open
		flushGate.mu.Unlock()
		if open {
			return
		}
		<-flushGate.tokens
	})
}

func (g *gate) setOpen(b bool) {
	g.mu.Lock()
	g.open = b
	g.mu.Unlock()
}

// ---- one DB under test ----

type lsmRun struct {
	dir               string
	engine            string
	db                *NoKV.DB
	ops               []string // Gallina xop terms
	desc              []string
	seq               uint64
	touched           map[string]map[uint64]bool // base key -> versions written
	keys              []string                   // order of first touch
	nontriv           bool
	bigMem            bool
	next              map[string]uint64
	commitAfterReopen bool
	c                 *corr.Ctx
	now               uint64
}

func openOpts(dir, engine string) *NoKV.Options {
	opt := NoKV.NewDefaultOptions()
	opt.WorkDir = dir
	opt.MemTableSize = 1 << 20
	opt.MemTableEngine = NoKV.MemTableEngine(engine)
	opt.SSTableMaxSz = 1 << 20
	opt.ValueThreshold = 1 << 20
	opt.HotRingEnabled = false
	opt.EnableWALWatchdog = false
	opt.WriteHotKeyLimit = 0
	opt.NumCompactors = 1
	opt.ValueLogGCInterval = 0
	opt.DetectConflicts = true
	return opt
}

func (r *lsmRun) open() {
	opt := openOpts(r.dir, r.engine)
	if r.bigMem {
		opt.MemTableSize = 64 << 20
		opt.SSTableMaxSz = 8 << 20
	}
	r.db = NoKV.Open(opt)
}

// vrepr is how a value appears in the emitted terms: values longer than 64 bytes
// are replaced by an 8-byte prefix and their SHA-1 (the model treats values opaquely).
func vrepr(v []byte) []byte {
	if len(v) <= 64 {
		return v
	}
	sum := sha1.Sum(v)
	return append(append([]byte{}, v[:8]...), sum[:]...)
}

func baseKey(cf kv.ColumnFamily, user []byte) []byte {
	ik := kv.InternalKey(cf, user, 0)
	return ik[:len(ik)-8]
}

func (r *lsmRun) emit(term, desc string) {
	r.ops = append(r.ops, term)
	r.desc = append(r.desc, desc)
}

func (r *lsmRun) put(cf kv.ColumnFamily, user []byte, ver uint64, val []byte, del bool, plain bool) error {
	var err error
	meta := byte(0)
	switch {
	case plain && del:
		err = r.db.DelCF(cf, user)
		meta = kv.BitDelete
	case plain:
		err = r.db.SetCF(cf, user, val)
		if val == nil {
			meta = kv.BitDelete
		}
	case del:
		err = r.db.DeleteVersionedEntry(cf, user, ver)
		meta = kv.BitDelete
		val = nil
	default:
		err = r.db.SetVersionedEntry(cf, user, ver, val, 0)
	}
	if err != nil {
		return err
	}
	if plain {
		ver = math.MaxUint64
	}
	if meta == kv.BitDelete {
		val = nil
	}
	bk := baseKey(cf, user)
	r.seq++
	r.emit(fmt.Sprintf("XPut (Rc %s %d %s %d 0 %d)", corr.Hex(bk), ver, corr.Hex(vrepr(val)), meta, r.seq),
		fmt.Sprintf("put cf=%d key=%q ver=%d val=%q del=%v plain=%v", cf, user, ver, vrepr(val), del, plain))
	s := string(bk)
	if r.touched[s] == nil {
		r.touched[s] = map[uint64]bool{}
		r.keys = append(r.keys, s)
	}
	r.touched[s][ver] = true
	return nil
}

func splitBase(bk []byte) (kv.ColumnFamily, []byte) {
	ik := append(append([]byte{}, bk...), make([]byte, 8)...)
	cf, user, _ := kv.SplitInternalKey(ik)
	return cf, user
}

// readAll probes every touched key at every interesting version.
func (r *lsmRun) readAll(plain bool) {
	for _, s := range r.keys {
		cf, user := splitBase([]byte(s))
		vers := map[uint64]bool{math.MaxUint64: true}
		for v := range r.touched[s] {
			vers[v] = true
			if v > 0 {
				vers[v-1] = true
			}
		}
		var vs []uint64
		for v := range vers {
			vs = append(vs, v)
		}
		sort.Slice(vs, func(i, j int) bool { return vs[i] < vs[j] })
		for _, v := range vs {
			e, err := r.db.GetVersionedEntry(cf, user, v)
			obs := "None"
			if err == nil && e != nil {
				obs = fmt.Sprintf("(Some (%s, %d))", corr.Hex(vrepr(e.Value)), e.Meta)
			} else if err != nil && !errors.Is(err, utils.ErrKeyNotFound) {
				obs = fmt.Sprintf("(Some (\"\", 255)) (* error %s *)", strings.ReplaceAll(err.Error(), "*)", "* )"))
			}
			r.emit(fmt.Sprintf("G %s %d %s", corr.Hex([]byte(s)), v, obs), fmt.Sprintf("getv cf=%d key=%q ver=%d -> %s", cf, user, v, obs))
		}
		if plain {
			e, err := r.db.GetCF(cf, user)
			obs := "None"
			if err == nil && e != nil {
				obs = "(Some " + corr.Hex(vrepr(e.Value)) + ")"
			}
			r.emit(fmt.Sprintf("GP %s %s", corr.Hex([]byte(s)), obs), fmt.Sprintf("get cf=%d key=%q -> %s", cf, user, obs))
		}
	}
}

func fidsOf(ts []lsm.VerifTable) []uint64 {
	out := make([]uint64, 0, len(ts))
	for _, t := range ts {
		out = append(out, t.FID)
	}
	return out
}

func (r *lsmRun) layout() lsm.VerifLayout { return r.db.VerifLSM().VerifLayout(true) }

func (r *lsmRun) emitLayout(l lsm.VerifLayout) {
	var imms []uint64
	for _, m := range l.Immutables {
		imms = append(imms, uint64(m.SegmentID))
	}
	var lv []string
	for _, L := range l.Levels[1:] {
		var sh []string
		for _, rs := range L.Ranges {
			sh = append(sh, corr.ListN(rs))
		}
		for len(sh) < 4 {
			sh = append(sh, "[]")
		}
		lv = append(lv, fmt.Sprintf("(%s, %s)", corr.List(sh), corr.ListN(fidsOf(L.Main))))
	}
	r.emit(fmt.Sprintf("XLayout %s %s %s", corr.ListN(imms), corr.ListN(fidsOf(l.Levels[0].Main)), corr.List(lv)), "layout")
}

func (r *lsmRun) rotate() {
	r.db.VerifLSM().Rotate()
	l := r.layout()
	r.emit(fmt.Sprintf("XRotate %d", l.Active.SegmentID), "rotate")
	r.emitLayout(l)
}

func (r *lsmRun) flushOne() bool {
	ls := r.db.VerifLSM()
	n := ls.VerifNumImmutables()
	if n == 0 {
		return false
	}
	flushGate.tokens <- struct{}{}
	if err := ls.VerifWaitFlushed(n-1, 20*time.Second); err != nil {
		panic(err)
	}
	r.emit("XFlush", "flush")
	r.emitLayout(r.layout())
	return true
}

type tabLoc struct {
	level  int
	ingest bool
	t      lsm.VerifTable
}

func locate(l lsm.VerifLayout) map[uint64]tabLoc {
	m := map[uint64]tabLoc{}
	for _, L := range l.Levels {
		for _, t := range L.Main {
			m[t.FID] = tabLoc{L.Level, false, t}
		}
		for _, sh := range L.Shards {
			for _, t := range sh {
				m[t.FID] = tabLoc{L.Level, true, t}
			}
		}
	}
	return m
}

func metaOf(ts []lsm.VerifTable) []compact.TableMeta {
	var out []compact.TableMeta
	for _, t := range ts {
		out = append(out, compact.TableMeta{ID: t.FID, MinKey: t.MinKey, MaxKey: t.MaxKey, MaxVersion: t.MaxVersion})
	}
	return out
}

// compactOnce runs one compaction attempt and derives the executed plan from the layout difference.
func i64s(vs []int64) string {
	u := make([]uint64, len(vs))
	for i, v := range vs {
		if v < 0 {
			panic("negative size")
		}
		u[i] = uint64(v)
	}
	return corr.ListN(u)
}

func targetsTerm(sizes []int64, opt compact.TargetOptions, t compact.Targets) (string, string) {
	opts := []int64{opt.BaseLevelSize, int64(opt.LevelSizeMultiplier), opt.BaseTableSize, int64(opt.TableSizeMultiplier), opt.MemTableSize}
	term := fmt.Sprintf("XTargets %s %s %d %s %s", i64s(sizes), i64s(opts), t.BaseLevel, i64s(t.TargetSz), i64s(t.FileSz))
	return term, fmt.Sprintf("targets sizes=%v opts=%v -> base=%d target=%v file=%v", sizes, opts, t.BaseLevel, t.TargetSz, t.FileSz)
}

// emitTargets records what the planner derives from the current level sizes.
func (r *lsmRun) emitTargets() {
	sizes, opt, t := r.db.VerifLSM().VerifLevelTargets()
	r.emit(targetsTerm(sizes, opt, t))
}

// runTargets: compact.BuildTargets on generated level sizes and options (pure function).
func runTargets(c *corr.Ctx, n int) {
	var ops, desc []string
	pick := func(vs ...int64) int64 { return vs[c.Rng.Intn(len(vs))] }
	for i := 0; i < n; i++ {
		opt := compact.TargetOptions{
			BaseLevelSize:       pick(0, 1, 10, 32, 100, 1<<20, 32<<20),
			LevelSizeMultiplier: int(pick(0, 1, 2, 8, 10)),
			BaseTableSize:       pick(0, 1, 8, 8<<20),
			TableSizeMultiplier: int(pick(0, 1, 2, 3)),
			MemTableSize:        pick(1, 64, 1<<20),
		}
		nl := 7
		if c.Rng.Intn(4) == 0 {
			nl = c.Rng.Intn(10)
		}
		sizes := make([]int64, nl)
		for l := range sizes {
			switch c.Rng.Intn(5) {
			case 0, 1: // empty level
			case 2:
				sizes[l] = 1 + c.Rng.Int63n(16)
			case 3:
				sizes[l] = opt.BaseLevelSize * pick(1, 2, 7, 8, 9, 64, 100)
			default:
				sizes[l] = opt.BaseLevelSize + c.Rng.Int63n(3) - 1
				if sizes[l] < 0 {
					sizes[l] = 0
				}
			}
		}
		t := compact.BuildTargets(sizes, opt)
		term, d := targetsTerm(sizes, opt, t)
		ops, desc = append(ops, term), append(desc, d)
		c.Count(fmt.Sprintf("targets_base_%d", t.BaseLevel))
		if len(ops) == 300 || i == n-1 {
			c.Emit(corr.Case{Coq: fmt.Sprintf("Cs 1 0 %s", corr.List(ops)), Nontrivial: true,
				Desc: map[string]any{"script": "build_targets", "ops": desc}})
			ops, desc = nil, nil
		}
	}
}

func (r *lsmRun) compactOnce(level, mode, base int) bool {
	if level == 0 {
		r.emitTargets()
	}
	before := r.layout()
	err := r.db.VerifLSM().VerifCompact(level, mode, base)
	if err != nil {
		if errors.Is(err, utils.ErrFillTables) {
			return false
		}
		r.emit(fmt.Sprintf("XLayout [] [] [] (* compaction error: %s *)", strings.ReplaceAll(err.Error(), "*)", "* )")), "compaction error")
		return false
	}
	after := r.layout()
	b, a := locate(before), locate(after)
	var removed, addedIDs, moved []uint64
	for id, lb := range b {
		la, ok := a[id]
		if !ok {
			removed = append(removed, id)
		} else if la.level != lb.level || la.ingest != lb.ingest {
			moved = append(moved, id)
		}
	}
	for id := range a {
		if _, ok := b[id]; !ok {
			addedIDs = append(addedIDs, id)
		}
	}
	if len(removed) == 0 && len(addedIDs) == 0 && len(moved) == 0 {
		return false
	}
	sort.Slice(addedIDs, func(i, j int) bool {
		return utils.CompareKeys(a[addedIDs[i]].t.MinKey, a[addedIDs[j]].t.MinKey) < 0
	})
	sort.Slice(removed, func(i, j int) bool { return removed[i] < removed[j] })
	sort.Slice(moved, func(i, j int) bool { return moved[i] < moved[j] })
	var added []string
	for _, id := range addedIDs {
		added = append(added, fmt.Sprintf("(%d, %d)", id, len(a[id].t.Entries)))
	}
	kind, lvl := "", 0
	var top, bot []uint64
	switch {
	case len(moved) > 0:
		kind, lvl, top = "KMove", a[moved[0]].level, moved
	case level == 0:
		kind, lvl, top = "KL0L0", 0, removed
	case mode == int(compact.IngestKeep):
		kind, lvl = "KKeep", level
		for _, id := range removed {
			if b[id].ingest {
				top = append(top, id)
			}
		}
		// bot tables stay in the main list in memory; recompute them as the planner does
		var tops []lsm.VerifTable
		for _, id := range top {
			tops = append(tops, b[id].t)
		}
		next := before.Levels[level].Main
		kr := compact.RangeForTables(metaOf(tops))
		lo, hi := compact.OverlappingTables(metaOf(next), kr)
		bot = fidsOf(next[lo:hi])
	case mode == int(compact.IngestDrain):
		kind, lvl = "KDrain", level
		for _, id := range removed {
			if b[id].ingest {
				top = append(top, id)
			} else {
				bot = append(bot, id)
			}
		}
	default:
		kind, lvl = "KRegular", level
		for _, id := range removed {
			if b[id].level == level {
				top = append(top, id)
			} else {
				bot = append(bot, id)
			}
		}
	}
	r.emit(fmt.Sprintf("XCompact %s %d %s %s %s", kind, lvl, corr.ListN(top), corr.ListN(bot), corr.List(added)),
		fmt.Sprintf("compact level=%d mode=%d base=%d -> %s top=%v bot=%v added=%v", level, mode, base, kind, top, bot, added))
	r.c.Count("compact_" + kind)
	r.emitLayout(after)
	return true
}

func drainTokens() {
	for {
		select {
		case <-flushGate.tokens:
		default:
			return
		}
	}
}

// closeDB closes the DB; Close drains the flush queue, so every sealed
// memtable is flushed (oldest first) while it runs.
func (r *lsmRun) closeDB() int {
	n := r.db.VerifLSM().VerifNumImmutables()
	flushGate.setOpen(true)
	flushGate.tokens <- struct{}{}
	if err := r.db.Close(); err != nil {
		panic(err)
	}
	drainTokens()
	flushGate.setOpen(false)
	return n
}

// snapshotReads reads every touched key at every interesting version.
func (r *lsmRun) snapshotReads() map[string]string {
	out := map[string]string{}
	for _, s := range r.keys {
		cf, user := splitBase([]byte(s))
		vers := map[uint64]bool{math.MaxUint64: true}
		for v := range r.touched[s] {
			vers[v] = true
		}
		for v := range vers {
			e, err := r.db.GetVersionedEntry(cf, user, v)
			obs := "None"
			if err == nil && e != nil {
				obs = fmt.Sprintf("(Some (%s, %d))", corr.Hex(vrepr(e.Value)), e.Meta)
			}
			out[fmt.Sprintf("%s %d", corr.Hex([]byte(s)), v)] = obs
		}
	}
	return out
}

// commitOne commits a one-key transaction (a put, a put that is already expired, or a delete)
// and reports the commit version it got.
func (r *lsmRun) commitOne() { r.commitKind(-1) }

// commitKind: kind 0 = delete, 1 = already expired put, 2.. = put, -1 = random.
func (r *lsmRun) commitKind(forced int) { r.commitKey(forced, corr.Pick(r.c.Rng, lsmUserKeys)) }

func (r *lsmRun) commitKey(forced int, user []byte) {
	r.seq++
	val := []byte(fmt.Sprintf("t%d", r.seq))
	kind := r.c.Rng.Intn(5)
	if forced >= 0 {
		kind = forced
	}
	meta, exp := byte(0), uint64(0)
	txn := r.db.NewTransaction(true)
	var err error
	switch kind {
	case 0:
		err = txn.Delete(user)
		meta = kv.BitDelete
	case 1:
		e := kv.NewEntry(user, val)
		e.ExpiresAt = 1 // expired long ago: readable through the versioned API, dead for Get
		exp = 1
		err = txn.SetEntry(e)
	default:
		err = txn.Set(user, val)
	}
	if err != nil {
		panic(err)
	}
	if err := txn.Commit(); err != nil {
		panic(err)
	}
	bk := baseKey(kv.CFDefault, user)
	// the freshly committed record is the newest version of this key in the active memtable
	var ver uint64
	found := false
	for _, e := range r.layout().Active.Entries {
		if bytes.Equal(e.Key[:len(e.Key)-8], bk) {
			if v := kv.ParseTs(e.Key); v > ver && v != math.MaxUint64 {
				ver, found = v, true
			}
		}
	}
	if !found {
		panic("committed entry not found in the active memtable")
	}
	if meta == kv.BitDelete {
		val = nil
	}
	r.emit(fmt.Sprintf("XCommit (Rc %s %d %s %d %d %d)", corr.Hex(bk), ver, corr.Hex(val), meta, exp, r.seq),
		fmt.Sprintf("txn commit key=%q val=%q meta=%d exp=%d -> version %d", user, val, meta, exp, ver))
	s := string(bk)
	if r.touched[s] == nil {
		r.touched[s] = map[uint64]bool{}
		r.keys = append(r.keys, s)
	}
	r.touched[s][ver] = true
	if r.next[s] < ver {
		r.next[s] = ver
	}
}

func (r *lsmRun) reopen() {
	before := r.snapshotReads()
	n := r.closeDB()
	for i := 0; i < n; i++ {
		r.emit("XFlush", "flush (during close)")
	}
	r.open()
	l := r.layout()
	r.emit(fmt.Sprintf("XReopen %d %d", l.Active.SegmentID, l.MaxFID), "reopen")
	r.emitLayout(l)
	after := r.snapshotReads()
	for _, k := range corr.SortedKeys(before) {
		r.emit(fmt.Sprintf("SM %s %s %s", k, before[k], after[k]), fmt.Sprintf("same-after-reopen %s: %s / %s", k, before[k], after[k]))
	}
	r.c.Count("reopen")
	if r.commitAfterReopen {
		r.commitOne()
		r.c.Count("commit_after_reopen")
	}
}

type lsmProfile struct {
	plain       bool
	monotone    bool // versions of successive writes to one key strictly increase
	engine      string
	steps       int
	withL0L0    bool
	withReopn   bool
	reopenHeavy bool
}

var lsmUserKeys = [][]byte{[]byte("a"), []byte("a\x00"), []byte("ab"), []byte("b"), []byte("k"), []byte("z\xff")}
var lsmVersions = []uint64{1, 2, 3, 5, 7, 9}

func (r *lsmRun) program(p lsmProfile) {
	rng := r.c.Rng
	next := r.next
	val := 0
	doPut := func() {
		if p.reopenHeavy {
			r.commitOne()
			return
		}
		cf := kv.CFDefault
		if rng.Intn(6) == 0 {
			cf = kv.CFWrite
		}
		user := corr.Pick(rng, lsmUserKeys)
		val++
		v := []byte(fmt.Sprintf("v%d", val))
		if rng.Intn(12) == 0 {
			v = []byte{}
		}
		del := rng.Intn(6) == 0
		var ver uint64
		if !p.plain {
			if p.monotone {
				k := string(baseKey(cf, user))
				next[k] += uint64(1 + rng.Intn(3))
				ver = next[k]
			} else {
				ver = corr.Pick(rng, lsmVersions)
			}
		}
		if err := r.put(cf, user, ver, v, del, p.plain); err != nil {
			panic(err)
		}
	}
	maint := 0
	// The base level (destination of L0 moves) only moves towards L1 as data grows
	// (compact.BuildTargets); the harness never directs a move below an earlier one.
	base := 6
	for i := 0; i < p.steps; i++ {
		x := rng.Intn(100)
		did := false
		switch {
		case x < 55:
			if p.plain && !p.withReopn && rng.Intn(6) == 0 {
				// a transactional write among the plain ones: live, deleted or already expired (never in programs that
				// reopen: with a plain write stored, Open seeds the oracle from the sentinel version and the next commit
				// kills the process - finding C37-F2, demonstrated in a child process by the txn family)
				r.commitOne()
				r.c.Count("plain_profile_txn_commit")
			} else {
				doPut()
			}
		case x < 67:
			r.rotate()
			did = true
		case x < 80:
			did = r.flushOne()
		case x < 86:
			if base > 1 && rng.Intn(5) == 0 {
				base--
			}
			did = r.compactOnce(0, 0, base)
		case x < 88 && p.withL0L0:
			r.db.VerifLSM().VerifAgeTables(time.Hour)
			did = r.compactOnce(0, 0, 0)
		case x < 92:
			did = r.compactOnce(1+rng.Intn(6), int(compact.IngestDrain), 0)
		case x < 94:
			did = r.compactOnce(1+rng.Intn(6), int(compact.IngestKeep), 0)
		case x < 97:
			did = r.compactOnce(1+rng.Intn(5), int(compact.IngestNone), 0)
		case p.withReopn:
			r.reopen()
			did = true
		}
		if p.reopenHeavy && !did && rng.Intn(8) == 0 {
			r.reopen()
			did = true
		}
		if did {
			maint++
			r.readAll(p.plain)
		}
	}
	r.readAll(p.plain)
	r.nontriv = maint > 0
}

// scripted regression programs, run before the random ones
var lsmScripts = map[string][]string{
	// a zero-length value is a value, not a delete (only a nil value is): over an older value, alone, through flush and reopen
	"empty_value_plain": {"put a 1", "put a empty", "put b empty", "read", "rotate", "flush", "read", "put a 2", "put a empty", "read", "reopen", "read"},
	// a wide, newer ingest table arrives after a narrower one that starts later: the lookup must not stop at the
	// narrower table's bound (running maxima of the range index follow the SORTED order, not the arrival order)
	"ingest_wide_after_narrow_plain": {"put x 1", "rotate", "flush", "move", "drain", "read", "put m 2", "put p 3", "rotate", "flush", "move", "put a 4", "put x 5", "put z 6", "rotate", "flush", "move", "read", "reopen", "read"},
	"ingest_wide_after_narrow":       {"putv x 1 1", "rotate", "flush", "move", "drain", "read", "putv m 2 2", "putv p 2 3", "rotate", "flush", "move", "putv a 3 4", "putv x 3 5", "putv z 3 6", "rotate", "flush", "move", "read", "reopen", "read"},
	// the newest version of k is an expired entry (or a tombstone) parked in the ingest buffer above the older live value:
	// rewriting its table alone (ingest keep-merge) must keep it shadowing
	"ttl_shadow":       {"tput k", "tput a", "rotate", "flush", "move", "drain", "read", "texp k", "tdel a", "rotate", "flush", "move", "read", "keep", "read", "reopen", "read", "drain", "read"},
	"ttl_shadow_plain": {"tput k", "tput a", "rotate", "flush", "move", "drain", "read", "texp k", "tdel a", "rotate", "flush", "move", "read", "keep", "read", "reopen", "read", "drain", "read"},
	// the bottom level grows past the base-level size (moves go to L5), then shrinks again once deletes reach it:
	// the planner's own base level drops back to L6 while L5 still holds the older copy of k
	"base_level_drop_plain": {"bulk 40", "rotate", "flush", "rmove", "drainl 6", "read", "bulkdel 40", "rotate", "flush", "rmove", "drainl 5", "put k 1", "rotate", "flush", "rmove", "read", "regular 5", "read", "put k 2", "rotate", "flush", "rmove", "read"},
	// the highest versions belong to expired entries that a compaction rewrites as stale: reopen must still seed the oracle above them
	"ttl_compact_reopen": {"commit", "commit", "commit_exp", "commit_exp", "commit_exp", "rotate", "flush", "move", "drain", "read", "reopen", "read", "commit", "read"},
	// three L0 tables, the middle one disjoint from the first: an L0 move must take an oldest-first prefix
	"l0_prefix_plain": {"put a 1", "put c 2", "rotate", "flush", "put m 3", "put p 4", "rotate", "flush", "put c 5", "put m 6", "put n 7", "rotate", "flush", "move", "read", "move", "read", "move", "read"},
	// one key with more versions (bytes) than an output table may hold: compaction must not split a key's versions over two tables
	"hot_key": {"putv a 1 1", "big h 1", "big h 2", "big h 3", "big h 4", "big h 5", "big h 6", "big h 7", "big h 8", "big h 9", "big h 10", "big h 11", "big h 12", "putv z 1 2", "rotate", "flush", "move", "drain", "read", "reopen", "read"},
	// newest versions live only in an ingest buffer when the DB is reopened: the next commit timestamp must still exceed them
	"ingest_reopen": {"putv a 5 1", "putv b 9 2", "rotate", "flush", "move", "reopen", "read", "commit", "read", "reopen", "read"},
	// an expired overwrite that only lives in the WAL must survive reopen (it shadows the older flushed value)
	"ttl_reopen": {"commit", "commit", "commit", "rotate", "flush", "commit", "commit", "commit", "commit", "commit", "commit", "read", "reopen", "read", "reopen", "read"},
	// newer copy parked in the ingest buffer of the level whose main run holds the older copy
	"ingest_over_main":       {"putv a 1 1", "putv b 1 2", "rotate", "flush", "move", "drain", "read", "putv a 2 3", "rotate", "flush", "move", "read", "reopen", "read"},
	"ingest_over_main_plain": {"put a 1", "put b 2", "rotate", "flush", "move", "drain", "read", "put a 3", "rotate", "flush", "move", "read"},
	// equal-version copies in two L0 tables (F1, repaired): the newer flush must win
	"l0_tie": {"put a 1", "rotate", "flush", "put a 2", "rotate", "flush", "read", "put a del", "rotate", "flush", "read", "reopen", "read"},
	// the same through a move into one ingest buffer
	"ingest_tie":  {"put k 1", "rotate", "flush", "put a 2", "put k 3", "rotate", "flush", "move", "read", "drain", "read"},
	"ingest_tie2": {"put a 1", "put k 2", "rotate", "flush", "put k 3", "rotate", "flush", "move", "read", "drain", "read", "reopen", "read"},
	// versions written out of order across sources (F4, repaired: LSM.Get keeps the greatest version over all sources)
	"order": {"putv a 7 1", "rotate", "flush", "putv a 5 2", "read", "rotate", "flush", "read", "move", "read"},
	// monotone versions through every kind of maintenance
	// a drained ingest table whose range lies inside an existing main table: the plan must take that table as bottom
	"drain_overlap":       {"putv a 1 1", "putv d 1 2", "putv m 1 3", "rotate", "flush", "move", "drain", "read", "putv c 2 4", "putv d 2 5", "rotate", "flush", "move", "drain", "read", "reopen", "read"},
	"drain_overlap_plain": {"put a 1", "put d 2", "put m 3", "rotate", "flush", "move", "drain", "read", "put c 4", "put d 5", "rotate", "flush", "move", "drain", "read"},
	"mono":                {"putv a 1 1", "putv b 1 2", "rotate", "flush", "putv a 2 3", "rotate", "flush", "move", "read", "putv a 3 4", "rotate", "flush", "move", "read", "drain", "read", "putv a 4 5", "rotate", "read", "reopen", "read", "flush", "read"},
}

func (r *lsmRun) script(steps []string, plain bool) {
	maint := 0
	for _, st := range steps {
		f := strings.Fields(st)
		switch f[0] {
		case "put":
			if f[2] == "del" {
				_ = r.put(kv.CFDefault, []byte(f[1]), 0, nil, true, true)
			} else if f[2] == "empty" {
				_ = r.put(kv.CFDefault, []byte(f[1]), 0, []byte{}, false, true)
			} else {
				_ = r.put(kv.CFDefault, []byte(f[1]), 0, []byte("v"+f[2]), false, true)
			}
		case "putv":
			var ver uint64
			fmt.Sscan(f[2], &ver)
			_ = r.put(kv.CFDefault, []byte(f[1]), ver, []byte("v"+f[3]), false, false)
		case "big":
			var ver uint64
			fmt.Sscan(f[2], &ver)
			v := bytes.Repeat([]byte(f[1]+f[2]+"|"), 900*1024/(len(f[1])+len(f[2])+1))
			_ = r.put(kv.CFDefault, []byte(f[1]), ver, v, false, false)
		case "bulk", "bulkdel":
			var n int
			fmt.Sscan(f[1], &n)
			for i := 0; i < n; i++ {
				k := []byte(fmt.Sprintf("x%02d", i))
				if f[0] == "bulkdel" {
					_ = r.put(kv.CFDefault, k, 0, nil, true, true)
				} else {
					_ = r.put(kv.CFDefault, k, 0, bytes.Repeat([]byte(fmt.Sprintf("x%02d|", i)), 900*1024/4), false, true)
				}
			}
		case "rmove":
			// the planner's own base level (no direction from the harness)
			r.compactOnce(0, 0, 0)
			maint++
		case "drainl", "regular":
			var lvl int
			fmt.Sscan(f[1], &lvl)
			mode := int(compact.IngestDrain)
			if f[0] == "regular" {
				mode = int(compact.IngestNone)
			}
			r.compactOnce(lvl, mode, 0)
			maint++
		case "rotate":
			r.rotate()
			maint++
		case "flush":
			r.flushOne()
			maint++
		case "move":
			r.compactOnce(0, 0, 6)
			maint++
		case "drain":
			r.compactOnce(6, int(compact.IngestDrain), 0)
			maint++
		case "reopen":
			r.reopen()
			maint++
		case "commit":
			r.commitOne()
		case "commit_exp":
			r.commitKind(1)
		case "tput":
			r.commitKey(2, []byte(f[1]))
		case "texp":
			r.commitKey(1, []byte(f[1]))
		case "tdel":
			r.commitKey(0, []byte(f[1]))
		case "keep":
			r.compactOnce(6, int(compact.IngestKeep), 0)
			maint++
		case "read":
			r.readAll(plain)
		}
	}
	r.readAll(plain)
	r.nontriv = maint > 0
}

func runScriptLsm(c *corr.Ctx, name string, plain bool) {
	dir, err := os.MkdirTemp(os.Getenv("VERIF_TMP"), "nokv-lsm-")
	if err != nil {
		panic(err)
	}
	defer os.RemoveAll(dir)
	r := &lsmRun{dir: dir, engine: "skiplist", bigMem: name == "hot_key" || name == "base_level_drop_plain", touched: map[string]map[uint64]bool{}, next: map[string]uint64{}, c: c, now: uint64(time.Now().Unix())}
	flushGate.setOpen(false)
	r.open()
	first := r.layout().Active.SegmentID
	if _, ok := lsmScripts[name]; !ok {
		panic("unknown script " + name)
	}
	r.script(lsmScripts[name], plain)
	r.closeDB()
	c.Count("script_" + name)
	c.Emit(corr.Case{Coq: fmt.Sprintf("Cs %d %d %s", first, r.now, corr.List(r.ops)), Nontrivial: r.nontriv,
		Desc: map[string]any{"script": name, "ops": r.desc}})
}

func runOneLsm(c *corr.Ctx, p lsmProfile, idx int) {
	dir, err := os.MkdirTemp(os.Getenv("VERIF_TMP"), "nokv-lsm-")
	if err != nil {
		panic(err)
	}
	defer os.RemoveAll(dir)
	r := &lsmRun{dir: dir, engine: p.engine, touched: map[string]map[uint64]bool{}, next: map[string]uint64{}, c: c, now: uint64(time.Now().Unix()), commitAfterReopen: p.reopenHeavy}
	flushGate.setOpen(false)
	r.open()
	l := r.layout()
	first := l.Active.SegmentID
	r.program(p)
	r.closeDB()
	term := fmt.Sprintf("Cs %d %d %s", first, r.now, corr.List(r.ops))
	c.Emit(corr.Case{Coq: term, Nontrivial: r.nontriv, Desc: map[string]any{"profile": fmt.Sprintf("%+v", p), "ops": r.desc}})
}

func runLsm(c *corr.Ctx) error {
	installHooks()
	c.Meta("run_module", "RunLsm")
	plain := c.Prop == "C01"
	c.Meta("rule", "random programs of writes (6 user keys incl. byte-prefix pairs, 2 column families, deletes, empty values), memtable rotation, gated flushes, every compaction kind (L0->ingest move to a chosen base level, L0->L0, ingest drain, ingest keep, regular), close+reopen, on a real DB with background compaction paused; after every maintenance step every touched key is read at every written version, version-1 and the maximum. non-trivial = at least one maintenance step executed; distinct by Gallina term")
	n := c.Scale(8, 800)
	if c.Prop == "C12" {
		n = c.Scale(5, 300)
	}
	if only := os.Getenv("VERIF_SCRIPT"); only != "" {
		runScriptLsm(c, only, strings.HasSuffix(only, "_plain"))
		return nil
	}
	if c.Prop != "C12" {
		runTargets(c, c.Scale(300, 20000))
	}
	if plain {
		for _, name := range []string{"l0_tie", "ingest_tie", "ingest_tie2", "drain_overlap_plain", "ingest_over_main_plain", "l0_prefix_plain", "base_level_drop_plain", "ttl_shadow_plain", "ingest_wide_after_narrow_plain", "empty_value_plain"} {
			runScriptLsm(c, name, true)
		}
	} else if c.Prop == "C12" {
		for _, name := range []string{"ingest_reopen", "ttl_reopen", "ttl_compact_reopen", "mono", "ttl_shadow"} {
			runScriptLsm(c, name, false)
		}
	} else {
		for _, name := range []string{"order", "mono", "l0_tie", "drain_overlap", "ingest_over_main", "hot_key", "ttl_shadow", "ingest_wide_after_narrow"} {
			runScriptLsm(c, name, false)
		}
	}
	for i := 0; i < n; i++ {
		p := lsmProfile{plain: plain, engine: "skiplist", steps: 25 + c.Rng.Intn(35), withL0L0: c.Rng.Intn(3) == 0, withReopn: c.Rng.Intn(2) == 0}
		// the ART engine is property C07's subject; C01/C02/C12 use the default engine
		if !plain {
			p.monotone = c.Rng.Intn(2) == 0
		}
		if c.Prop == "C12" {
			p.monotone, p.withReopn, p.reopenHeavy, p.withL0L0 = true, true, true, false
		}
		if p.monotone {
			c.Count("profile_monotone")
		} else if plain {
			c.Count("profile_plain")
		} else {
			c.Count("profile_arbitrary_versions")
		}
		c.Count("engine_" + p.engine)
		runOneLsm(c, p, i)
	}
	return nil
}

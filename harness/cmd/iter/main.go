// Harness binary for the iterator family (C06).
package main

import "verifharness/internal/corr"

func main() {
	corr.Main(map[string]corr.Family{"iter": runIter})
}

package main

import (
	"bytes"
	"errors"
	"fmt"
	"math"
	"math/rand"
	"os"
	"strings"
	"sync"
	"time"

	NoKV "github.com/feichai0017/NoKV"
	"github.com/feichai0017/NoKV/kv"
	"github.com/feichai0017/NoKV/lsm"
	"github.com/feichai0017/NoKV/lsm/compact"
	"github.com/feichai0017/NoKV/utils"
	"github.com/feichai0017/NoKV/utils/verifhook"
	"verifharness/internal/corr"
)

// ---- flush gate (as in cmd/lsm): the flush worker blocks at its yield point until a token arrives ----

type gate struct {
	mu     sync.Mutex
	tokens chan struct{}
	open   bool
}

var flushGate = &gate{tokens: make(chan struct{}, 1024)}

func installHooks() {
	verifhook.SetFlag("compaction.pause", true)
	verifhook.SetYield(func(name string) {
		if name != "lsm.flush.before" {
			return
		}
		flushGate.mu.Lock()
		open := flushGate.open
		flushGate.mu.Unlock()
		if open {
			return
		}
		<-flushGate.tokens
	})
}

func (g *gate) setOpen(b bool) {
	g.mu.Lock()
	g.open = b
	g.mu.Unlock()
}

func drainTokens() {
	for {
		select {
		case <-flushGate.tokens:
		default:
			return
		}
	}
}

func openOpts(dir string) *NoKV.Options {
	opt := NoKV.NewDefaultOptions()
	opt.WorkDir = dir
	opt.MemTableSize = 1 << 20
	opt.MemTableEngine = NoKV.MemTableEngine("skiplist")
	opt.SSTableMaxSz = 1 << 20
	opt.ValueThreshold = 1 << 20
	opt.HotRingEnabled = false
	opt.EnableWALWatchdog = false
	opt.WriteHotKeyLimit = 0
	opt.NumCompactors = 1
	opt.ValueLogGCInterval = 0
	opt.DetectConflicts = true
	return opt
}

// ---- one write of the history ----

type wrec struct {
	base []byte // cf marker + cf + user key
	ver  uint64
	val  []byte
	meta byte
	exp  uint64
	seq  uint64
}

func (w wrec) term() string {
	return fmt.Sprintf("R %s %d %s %d %d %d", corr.Hex(w.base), w.ver, corr.Hex(w.val), w.meta, w.exp, w.seq)
}

type pendingW struct {
	key  []byte
	val  []byte
	del  bool
	exp  uint64
	term string
}

type heldTxn struct {
	txn    *NoKV.Txn
	readTs uint64
	update bool
	pw     []pendingW
}

type iterRun struct {
	dir     string
	db      *NoKV.DB
	c       *corr.Ctx
	rng     *rand.Rand
	ws      []wrec
	seq     uint64
	lastTs  uint64
	held    []*heldTxn
	desc    []string
	nscan   int
	profile string
	maint   int
	cases   int
	tag     string
}

var userKeys = [][]byte{[]byte("a"), []byte("a\x00"), []byte("a\xff"), []byte("ab"), []byte("b"), []byte("k"), []byte("z\xff")}
var seekTargets = [][]byte{[]byte("a"), []byte("a\x00"), []byte("a\xff"), []byte("ab"), []byte("b"), []byte("k"), []byte("z\xff"),
	[]byte("\x00"), []byte("a\x00\x00"), []byte("aa"), []byte("abc"), []byte("c"), []byte("z"), []byte("zz"), []byte("\xff\xff")}
var prefixes = [][]byte{[]byte("a"), []byte("ab"), []byte("a\x00"), []byte("z"), []byte("k"), []byte("q")}

func baseKey(cf kv.ColumnFamily, user []byte) []byte {
	ik := kv.InternalKey(cf, user, 0)
	return ik[:len(ik)-8]
}

func (r *iterRun) open() { r.db = NoKV.Open(openOpts(r.dir)) }

func (r *iterRun) note(f string, a ...any) { r.desc = append(r.desc, fmt.Sprintf(f, a...)) }

func (r *iterRun) record(cf kv.ColumnFamily, user []byte, ver uint64, val []byte, meta byte, exp uint64) {
	r.seq++
	if meta&kv.BitDelete != 0 {
		val = nil
	}
	r.ws = append(r.ws, wrec{base: baseKey(cf, user), ver: ver, val: append([]byte{}, val...), meta: meta, exp: exp, seq: r.seq})
}

func (r *iterRun) nextVal() []byte {
	if r.rng.Intn(14) == 0 {
		return []byte{}
	}
	return []byte(fmt.Sprintf("v%d", r.seq+1))
}

func (r *iterRun) oracleNext() uint64 {
	next, _, _, _ := r.db.VerifOracleState()
	return next
}

// ---- writes ----

func (r *iterRun) plain(cf kv.ColumnFamily, user []byte, del bool) {
	val := r.nextVal()
	var err error
	meta := byte(0)
	if del {
		err = r.db.DelCF(cf, user)
		meta = kv.BitDelete
	} else {
		err = r.db.SetCF(cf, user, val)
	}
	if err != nil {
		panic(err)
	}
	r.record(cf, user, math.MaxUint64, val, meta, 0)
	r.note("plain cf=%d key=%q del=%v val=%q", cf, user, del, val)
	r.c.Count("write_plain")
}

func (r *iterRun) versioned(cf kv.ColumnFamily, user []byte, ver uint64, del bool) {
	val := r.nextVal()
	meta := byte(0)
	if del {
		meta = kv.BitDelete
	}
	if err := r.db.SetVersionedEntry(cf, user, ver, val, meta); err != nil {
		panic(err)
	}
	r.record(cf, user, ver, val, meta, 0)
	r.note("versioned cf=%d key=%q ver=%d del=%v val=%q", cf, user, ver, del, val)
	r.c.Count("write_versioned")
}

type wspec struct {
	key []byte
	val []byte
	del bool
	exp uint64
}

func (r *iterRun) randWrites(n int) []wspec { return r.randWritesFrom(n, userKeys) }

func (r *iterRun) randWritesFrom(n int, keys [][]byte) []wspec {
	if n > len(keys) {
		n = len(keys)
	}
	var out []wspec
	seen := map[string]bool{}
	for len(out) < n {
		k := corr.Pick(r.rng, keys)
		if seen[string(k)] {
			continue
		}
		seen[string(k)] = true
		w := wspec{key: k}
		x := r.rng.Intn(100)
		switch {
		case x < 20:
			w.del = true
		case x < 28:
			w.exp = 1
		case x < 34:
			w.exp = uint64(time.Now().Unix()) + 1000000
		}
		if !w.del {
			w.val = []byte(fmt.Sprintf("t%d.%d", r.seq+1, len(out)))
			if r.rng.Intn(14) == 0 {
				w.val = []byte{}
			}
		}
		out = append(out, w)
	}
	return out
}

func applyWrites(txn *NoKV.Txn, ws []wspec) {
	for _, w := range ws {
		if w.del {
			if err := txn.Delete(w.key); err != nil {
				panic(err)
			}
			continue
		}
		e := kv.NewEntry(w.key, w.val)
		e.ExpiresAt = w.exp
		if err := txn.SetEntry(e); err != nil {
			panic(err)
		}
	}
}

func (r *iterRun) commit(ws []wspec) {
	txn := r.db.NewTransaction(true)
	applyWrites(txn, ws)
	if err := txn.Commit(); err != nil {
		panic(err)
	}
	ts := r.oracleNext() - 1
	r.lastTs = ts
	for _, w := range ws {
		meta := byte(0)
		if w.del {
			meta = kv.BitDelete
		}
		r.record(kv.CFDefault, w.key, ts, w.val, meta, w.exp)
	}
	r.note("commit ts=%d writes=%s", ts, descWrites(ws))
	r.c.Count("write_commit")
}

func descWrites(ws []wspec) string {
	var s []string
	for _, w := range ws {
		s = append(s, fmt.Sprintf("%q del=%v exp=%d val=%q", w.key, w.del, w.exp, w.val))
	}
	return "[" + strings.Join(s, "; ") + "]"
}

func (r *iterRun) begin(update bool, ws []wspec) *heldTxn {
	h := &heldTxn{update: update}
	h.readTs = r.oracleNext() - 1
	h.txn = r.db.NewTransaction(update)
	if update {
		applyWrites(h.txn, ws)
		for _, w := range ws {
			meta := byte(0)
			val := w.val
			if w.del {
				meta = kv.BitDelete
				val = nil
			}
			h.pw = append(h.pw, pendingW{key: w.key, val: val, del: w.del, exp: w.exp,
				term: fmt.Sprintf("R %s %d %s %d %d 0", corr.Hex(baseKey(kv.CFDefault, w.key)), h.readTs, corr.Hex(val), meta, w.exp)})
		}
	}
	r.note("begin update=%v readTs=%d pending=%s", update, h.readTs, descWrites(ws))
	return h
}

func (r *iterRun) discardHeld() {
	for _, h := range r.held {
		h.txn.Discard()
	}
	r.held = nil
}

// ---- maintenance ----

func (r *iterRun) rotate() {
	r.db.VerifLSM().Rotate()
	r.note("rotate")
	r.maint++
	r.c.Count("rotate")
}

func (r *iterRun) flushOne() bool {
	ls := r.db.VerifLSM()
	n := ls.VerifNumImmutables()
	if n == 0 {
		return false
	}
	flushGate.tokens <- struct{}{}
	if err := ls.VerifWaitFlushed(n-1, 20*time.Second); err != nil {
		panic(err)
	}
	r.note("flush")
	r.maint++
	r.c.Count("flush")
	return true
}

func (r *iterRun) compactOnce(level, mode, base int, what string) bool {
	err := r.db.VerifLSM().VerifCompact(level, mode, base)
	if err != nil {
		if !errors.Is(err, utils.ErrFillTables) {
			r.note("compaction error %v", err)
		}
		return false
	}
	r.note("compact level=%d mode=%d base=%d", level, mode, base)
	r.maint++
	r.c.Count("compact_" + what)
	return true
}

func (r *iterRun) closeDB() {
	r.discardHeld()
	flushGate.setOpen(true)
	flushGate.tokens <- struct{}{}
	if err := r.db.Close(); err != nil {
		panic(err)
	}
	drainTokens()
	flushGate.setOpen(false)
}

func (r *iterRun) reopen() {
	r.closeDB()
	r.open()
	r.note("reopen")
	r.maint++
	r.c.Count("reopen")
}

// ---- dump ----

func (r *iterRun) seqIndex() map[string]uint64 {
	m := map[string]uint64{}
	for _, w := range r.ws {
		m[fmt.Sprintf("%x|%d|%x|%d|%d", w.base, w.ver, w.val, w.meta, w.exp)] = w.seq
	}
	return m
}

func recsTerm(es []lsm.VerifEntry, idx map[string]uint64) string {
	out := make([]string, 0, len(es))
	for _, e := range es {
		base := e.Key[:len(e.Key)-8]
		ver := kv.ParseTs(e.Key)
		seq := idx[fmt.Sprintf("%x|%d|%x|%d|%d", base, ver, e.Value, e.Meta, e.ExpiresAt)]
		out = append(out, fmt.Sprintf("R %s %d %s %d %d %d", corr.Hex(base), ver, corr.Hex(e.Value), e.Meta, e.ExpiresAt, seq))
	}
	return corr.List(out)
}

func tablesTerm(ts []lsm.VerifTable, idx map[string]uint64) string {
	out := make([]string, 0, len(ts))
	for _, t := range ts {
		out = append(out, fmt.Sprintf("T %d %s", t.FID, recsTerm(t.Entries, idx)))
	}
	return corr.List(out)
}

type layoutInfo struct {
	term    string
	sources int
	records int
}

func (r *iterRun) stateTerm() layoutInfo {
	l := r.db.VerifLSM().VerifLayout(true)
	idx := r.seqIndex()
	info := layoutInfo{}
	var imms []string
	for _, m := range l.Immutables {
		imms = append(imms, fmt.Sprintf("(%d, %s)", m.SegmentID, recsTerm(m.Entries, idx)))
		info.sources++
		info.records += len(m.Entries)
	}
	info.sources++
	info.records += len(l.Active.Entries)
	var lvls []string
	for _, L := range l.Levels[1:] {
		var sh []string
		for _, ts := range L.Shards {
			sh = append(sh, tablesTerm(ts, idx))
			info.sources += len(ts)
		}
		for len(sh) < 4 {
			sh = append(sh, "[]")
		}
		info.sources += len(L.Main)
		lvls = append(lvls, fmt.Sprintf("Lv %s %s", corr.List(sh), tablesTerm(L.Main, idx)))
	}
	info.sources += len(l.Levels[0].Main)
	info.term = fmt.Sprintf("(St %s %s %s %s)", recsTerm(l.Active.Entries, idx), corr.List(imms), tablesTerm(l.Levels[0].Main, idx), corr.List(lvls))
	return info
}

// ---- probes ----

func itemTerm(cf kv.ColumnFamily, key []byte, ver uint64, val []byte) string {
	return fmt.Sprintf("It %d %s %d %s", cf, corr.Hex(key), ver, corr.Hex(val))
}

func actTerm(seek bool, key []byte) string {
	if !seek {
		return "ARewind"
	}
	return "(Sk " + corr.Hex(key) + ")"
}

const maxSteps = 5000

// preOp is one positioning operation performed on an iterator before the
// probe's own one, followed by a number of Next calls.
type preOp struct {
	seek   bool
	target []byte
	nexts  int
}

func preTerm(pre []preOp, probe string) string {
	if len(pre) == 0 {
		return probe
	}
	var s []string
	for _, p := range pre {
		s = append(s, fmt.Sprintf("Pre %s %d", actTerm(p.seek, p.target), p.nexts))
	}
	return fmt.Sprintf("PSeq %s (%s)", corr.List(s), probe)
}

func (r *iterRun) dbProbe(asc, keyOnly bool, lower, upper []byte, seek bool, target []byte, pre ...preOp) string {
	it := r.db.NewIterator(&utils.Options{IsAsc: asc, OnlyUseKey: keyOnly, LowerBound: lower, UpperBound: upper})
	defer func() { _ = it.Close() }()
	for _, p := range pre {
		if p.seek {
			it.Seek(p.target)
		} else {
			it.Rewind()
		}
		for i := 0; i < p.nexts; i++ {
			it.Next()
		}
	}
	if len(pre) > 0 {
		r.c.Count("probe_db_sequence")
	}
	if seek {
		it.Seek(target)
	} else {
		it.Rewind()
	}
	var items []string
	for n := 0; it.Valid() && n < maxSteps; it.Next() {
		n++
		item := it.Item()
		e := item.Entry()
		var val []byte
		if vc, ok := item.(interface {
			ValueCopy([]byte) ([]byte, error)
		}); ok {
			v, err := vc.ValueCopy(nil)
			if err != nil {
				panic(err)
			}
			val = v
		} else {
			val = e.Value
		}
		items = append(items, itemTerm(e.CF, e.Key, e.Version, val))
	}
	r.c.Count("probe_db")
	if len(items) > 0 {
		r.c.Count("probe_nonempty")
	}
	return preTerm(pre, fmt.Sprintf("PDb (Od %s %s %s %s) %s %s", corr.Bool(asc), corr.Bool(keyOnly), corr.Hex(lower), corr.Hex(upper), actTerm(seek, target), corr.List(items)))
}

type tOpts struct {
	rev, all, keyOnly, pik bool
	prefix                 []byte
	since                  uint64
	lower, upper           []byte
}

func (o tOpts) term() string {
	return fmt.Sprintf("(Ot %s %s %s %s %s %d %s %s)", corr.Bool(o.rev), corr.Bool(o.all), corr.Bool(o.keyOnly), corr.Bool(o.pik),
		corr.Hex(o.prefix), o.since, corr.Hex(o.lower), corr.Hex(o.upper))
}

func pwTerm(h *heldTxn) string {
	var s []string
	for _, p := range h.pw {
		s = append(s, p.term)
	}
	return corr.List(s)
}

func (r *iterRun) txnProbe(h *heldTxn, o tOpts, seek bool, target []byte, pre ...preOp) string {
	io := NoKV.IteratorOptions{Reverse: o.rev, AllVersions: o.all, KeyOnly: o.keyOnly, SinceTs: o.since, LowerBound: o.lower, UpperBound: o.upper}
	var it *NoKV.TxnIterator
	if o.pik {
		it = h.txn.NewKeyIterator(o.prefix, io)
	} else {
		io.Prefix = o.prefix
		it = h.txn.NewIterator(io)
	}
	defer it.Close()
	for _, p := range pre {
		if p.seek {
			it.Seek(p.target)
		} else {
			it.Rewind()
		}
		for i := 0; i < p.nexts; i++ {
			it.Next()
		}
	}
	if len(pre) > 0 {
		r.c.Count("probe_txn_sequence")
	}
	if seek {
		it.Seek(target)
	} else {
		it.Rewind()
	}
	var items []string
	for n := 0; it.Valid() && n < maxSteps; it.Next() {
		n++
		item := it.Item()
		e := item.Entry()
		val, err := item.ValueCopy(nil)
		if err != nil {
			panic(err)
		}
		items = append(items, itemTerm(e.CF, e.Key, e.Version, val))
	}
	r.c.Count("probe_txn")
	if o.rev {
		r.c.Count("probe_txn_reverse")
	}
	if o.all {
		r.c.Count("probe_txn_allversions")
	}
	if o.pik {
		r.c.Count("probe_txn_keyiterator")
	}
	if seek {
		r.c.Count("probe_txn_seek")
	}
	if len(h.pw) > 0 {
		r.c.Count("probe_txn_pending")
	}
	if len(items) > 0 {
		r.c.Count("probe_nonempty")
	}
	return preTerm(pre, fmt.Sprintf("PTxn %d %s %s %s %s", h.readTs, pwTerm(h), o.term(), actTerm(seek, target), corr.List(items)))
}

func (r *iterRun) getsProbe(h *heldTxn) string {
	var obs []string
	for _, k := range userKeys {
		item, err := h.txn.Get(k)
		switch {
		case err == nil:
			v, err2 := item.ValueCopy(nil)
			if err2 != nil {
				panic(err2)
			}
			obs = append(obs, fmt.Sprintf("Gk %s (Some %s)", corr.Hex(k), corr.Hex(v)))
		case errors.Is(err, utils.ErrKeyNotFound):
			obs = append(obs, fmt.Sprintf("Gk %s None", corr.Hex(k)))
		default:
			panic(err)
		}
	}
	r.c.Count("probe_gets")
	return fmt.Sprintf("PGets %d %s %s", h.readTs, pwTerm(h), corr.List(obs))
}

func (r *iterRun) optBound(p int) []byte {
	if r.rng.Intn(100) < p {
		return corr.Pick(r.rng, seekTargets)
	}
	return nil
}

// randPre draws the positioning operations performed before the probe's own:
// none (half of the probes), or one or two of Seek (preferably to a target the
// bounds reject) / Rewind, each followed by 0-2 Next calls.
func (r *iterRun) randPre(rev bool, lower, upper []byte) []preOp {
	if r.rng.Intn(2) == 0 {
		return nil
	}
	var pre []preOp
	for n := 1 + r.rng.Intn(2); n > 0; n-- {
		p := preOp{seek: r.rng.Intn(3) != 0, nexts: r.rng.Intn(3)}
		if p.seek {
			p.target = corr.Pick(r.rng, seekTargets)
			if r.rng.Intn(2) == 0 {
				// out of range for the direction, when there is a bound
				if !rev && len(upper) > 0 {
					p.target = append(append([]byte{}, upper...), byte(r.rng.Intn(2)))
				} else if rev && len(lower) > 1 {
					p.target = lower[:len(lower)-1]
				}
			}
		}
		pre = append(pre, p)
	}
	return pre
}

func (r *iterRun) randTOpts() tOpts {
	o := tOpts{rev: r.rng.Intn(2) == 0, all: r.rng.Intn(3) == 0, keyOnly: r.rng.Intn(4) == 0}
	switch x := r.rng.Intn(10); {
	case x < 2:
		o.prefix = corr.Pick(r.rng, prefixes)
	case x < 4:
		o.pik, o.all = true, true
		o.prefix = corr.Pick(r.rng, userKeys)
	}
	if r.rng.Intn(5) == 0 && r.lastTs > 0 {
		o.since = uint64(r.rng.Intn(int(r.lastTs) + 1))
	}
	o.lower = r.optBound(25)
	o.upper = r.optBound(25)
	return o
}

// scan runs one batch of probes on the current state and emits the cases.
func (r *iterRun) scan(nDB, nTxn int, fixed []string) {
	info := r.stateTerm()
	now := uint64(time.Now().Unix())
	var wsT []string
	for _, w := range r.ws {
		wsT = append(wsT, w.term())
	}
	wsTerm := corr.List(wsT)
	emit := func(group string, probes []string) {
		if len(probes) == 0 {
			return
		}
		r.cases++
		r.c.Count("case_" + group)
		r.c.Emit(corr.Case{
			Coq:        fmt.Sprintf("Cs %d %s %s %s", now, info.term, wsTerm, corr.List(probes)),
			Nontrivial: info.sources >= 2 && info.records > 0,
			Desc:       map[string]any{"episode": r.tag, "group": group, "scan": r.nscan, "ops": append([]string{}, r.desc...)},
		})
	}
	r.nscan++
	r.c.CountN("sources_total", info.sources)

	// DB iterator
	var db []string
	for i := 0; i < nDB; i++ {
		asc := r.rng.Intn(2) == 0
		seek := r.rng.Intn(2) == 0
		lo, hi := r.optBound(25), r.optBound(25)
		db = append(db, r.dbProbe(asc, r.rng.Intn(4) == 0, lo, hi, seek, corr.Pick(r.rng, seekTargets), r.randPre(!asc, lo, hi)...))
	}
	// fixed probes: a forward Seek exactly onto every key (table boundaries of the main
	// levels), and Rewind after a Seek that the bounds reject
	for _, k := range userKeys {
		db = append(db, r.dbProbe(true, false, nil, nil, true, k))
	}
	db = append(db, r.dbProbe(true, false, nil, []byte("b"), false, nil, preOp{seek: true, target: []byte("k")}))
	db = append(db, r.dbProbe(false, false, []byte("ab"), nil, false, nil, preOp{seek: true, target: []byte("a")}))
	db = append(db, r.dbProbe(true, false, nil, nil, true, []byte("b"), preOp{seek: true, target: []byte("a"), nexts: 1}))
	emit("db", db)

	// transactions: a fresh read-only one, a fresh update one with pending writes, and the held ones
	txns := []*heldTxn{r.begin(false, nil)}
	if r.profile != "simple" {
		txns = append(txns, r.begin(true, r.randWrites(1+r.rng.Intn(3))))
	}
	fresh := len(txns)
	txns = append(txns, r.held...)
	var fwd, rev []string
	for ti, h := range txns {
		fwd = append(fwd, r.getsProbe(h))
		n := nTxn
		if ti >= fresh {
			n = nTxn / 2
		}
		for i := 0; i < n; i++ {
			o := r.randTOpts()
			seek := r.rng.Intn(2) == 0
			target := corr.Pick(r.rng, seekTargets)
			if seek && r.rng.Intn(12) == 0 {
				target = nil
			}
			p := r.txnProbe(h, o, seek, target, r.randPre(o.rev, o.lower, o.upper)...)
			if o.rev {
				rev = append(rev, p)
			} else {
				fwd = append(fwd, p)
			}
		}
		// fixed probes: a forward Seek exactly onto every key (the seek key carries readTs:
		// for a transaction begun right after a commit that is the stored version), and
		// sequences on one iterator: Rewind after a Seek that the bounds reject, Seek after
		// Seek, Seek after Rewind and some Next
		if ti == 0 || ti >= fresh {
			for _, k := range userKeys {
				fwd = append(fwd, r.txnProbe(h, tOpts{}, true, k))
			}
		}
		fwd = append(fwd, r.txnProbe(h, tOpts{upper: []byte("b")}, false, nil, preOp{seek: true, target: []byte("k")}))
		fwd = append(fwd, r.txnProbe(h, tOpts{}, true, []byte("b"), preOp{seek: true, target: []byte("a"), nexts: 1}))
		fwd = append(fwd, r.txnProbe(h, tOpts{all: true}, true, []byte("ab"), preOp{nexts: 2}))
		rev = append(rev, r.txnProbe(h, tOpts{rev: true, all: true, lower: []byte("ab")}, false, nil, preOp{seek: true, target: []byte("a")}))
		rev = append(rev, r.txnProbe(h, tOpts{rev: true, all: true}, true, []byte("b"), preOp{seek: true, target: []byte("k"), nexts: 1}))
		if ti == 0 {
			// the plain scans every key iterator / point read must agree with
			for _, rv := range []bool{false, true} {
				for _, all := range []bool{false, true} {
					p := r.txnProbe(h, tOpts{rev: rv, all: all}, false, nil)
					if rv {
						rev = append(rev, p)
					} else {
						fwd = append(fwd, p)
					}
				}
			}
		}
	}
	for _, h := range txns[:fresh] {
		h.txn.Discard()
	}
	emit("txn_fwd", fwd)
	emit("txn_rev", rev)
}

// ---- programs ----

// keyRanges are disjoint contiguous ranges of the key alphabet: commits confined to one
// range, flushed, moved to the L6 ingest buffer and drained give one main table per range.
var keyRanges = [][][]byte{userKeys[0:3], userKeys[3:5], userKeys[5:7]}

// programRanges builds levels >= 1 with SEVERAL main tables and readers at OLD read
// timestamps: each phase commits to the keys of one range, optionally keeps a transaction
// begun before or after it, and settles the data (rotate, flush, move to the ingest buffer
// of L6, drain); later phases rewrite ranges at newer versions. The scans seek (among
// others) exactly onto every key with every kept transaction, i.e. onto the last key of a
// main table and the first of the next one at read timestamps below their stored versions.
func (r *iterRun) programRanges(steps, nDB, nTxn int) {
	rng := r.rng
	phases := 3 + steps/12
	for ph := 0; ph < phases; ph++ {
		keys := keyRanges[rng.Intn(len(keyRanges))]
		if ph < len(keyRanges) {
			keys = keyRanges[(ph+int(r.rng.Int63()%3))%len(keyRanges)]
		}
		if len(r.held) < 3 && rng.Intn(2) == 0 {
			upd := rng.Intn(3) == 0
			var ws []wspec
			if upd {
				ws = r.randWrites(1 + rng.Intn(2))
			}
			r.held = append(r.held, r.begin(upd, ws))
		}
		for n := 1 + rng.Intn(3); n > 0; n-- {
			r.commit(r.randWritesFrom(1+rng.Intn(len(keys)), keys))
		}
		if len(r.held) < 3 && rng.Intn(3) == 0 {
			r.held = append(r.held, r.begin(false, nil))
		}
		switch x := rng.Intn(10); {
		case x < 7: // settle into a main table of L6
			r.rotate()
			r.flushOne()
			r.compactOnce(0, 0, 6, "l0_move")
			r.compactOnce(6, int(compact.IngestDrain), 0, "drain")
		case x < 8: // leave it in the ingest buffer
			r.rotate()
			r.flushOne()
			r.compactOnce(0, 0, 6, "l0_move")
		case x < 9: // leave it in L0
			r.rotate()
			r.flushOne()
		}
		if ph >= 2 && rng.Intn(2) == 0 {
			r.scan(nDB, nTxn, nil)
		}
	}
	r.scan(nDB, nTxn, nil)
}

func (r *iterRun) program(steps, nDB, nTxn int) {
	rng := r.rng
	base := 6
	sinceScan := 0
	for i := 0; i < steps; i++ {
		x := rng.Intn(100)
		simple := r.profile == "simple"
		switch {
		case x < 30:
			if simple {
				r.plain(kv.CFDefault, corr.Pick(rng, userKeys), rng.Intn(5) == 0)
			} else {
				r.commit(r.randWrites(1 + rng.Intn(3)))
			}
		case x < 42:
			if r.profile == "txn" {
				r.commit(r.randWrites(1))
			} else {
				cf := kv.CFDefault
				if !simple && rng.Intn(4) == 0 {
					cf = corr.Pick(rng, []kv.ColumnFamily{kv.CFLock, kv.CFWrite})
				}
				r.plain(cf, corr.Pick(rng, userKeys), rng.Intn(5) == 0)
			}
		case x < 50:
			if r.profile == "mixed" && r.lastTs > 0 {
				cf := kv.CFDefault
				if rng.Intn(4) == 0 {
					cf = kv.CFWrite
				}
				r.versioned(cf, corr.Pick(rng, userKeys), r.lastTs, rng.Intn(5) == 0)
			} else if simple {
				r.plain(kv.CFDefault, corr.Pick(rng, userKeys), false)
			} else {
				r.commit(r.randWrites(2))
			}
		case x < 55:
			if !simple && len(r.held) < 2 {
				upd := rng.Intn(2) == 0
				var ws []wspec
				if upd {
					ws = r.randWrites(1 + rng.Intn(3))
				}
				r.held = append(r.held, r.begin(upd, ws))
			}
		case x < 67:
			r.rotate()
		case x < 79:
			r.flushOne()
		case x < 85:
			if base > 1 && rng.Intn(5) == 0 {
				base--
			}
			r.compactOnce(0, 0, base, "l0_move")
		case x < 87:
			// With base level 0 the compaction falls back to a move to the natural base
			// level (6); the directed base level only ever moves towards L1
			// (compact.BuildTargets), so this is tried only while it is still 6.
			if base == 6 {
				r.db.VerifLSM().VerifAgeTables(time.Hour)
				r.compactOnce(0, 0, 0, "l0l0")
			}
		case x < 91:
			r.compactOnce(1+rng.Intn(6), int(compact.IngestDrain), 0, "drain")
		case x < 93:
			r.compactOnce(1+rng.Intn(6), int(compact.IngestKeep), 0, "keep")
		case x < 96:
			r.compactOnce(1+rng.Intn(5), int(compact.IngestNone), 0, "regular")
		case x < 97:
			// Open seeds the commit timestamp from the largest stored version: with
			// plain-API records (version 2^64-1) it wraps, so only the txn profile reopens
			if r.profile == "txn" {
				r.reopen()
			}
		}
		sinceScan++
		if sinceScan >= 14 && rng.Intn(3) == 0 {
			r.scan(nDB, nTxn, nil)
			sinceScan = 0
		}
	}
	r.scan(nDB, nTxn, nil)
}

// scripted regression programs, run before the random ones. Words:
//
//	c k=v ...   commit (k=- deletes, k=!v writes an already expired entry, k=~ an empty value)
//	p k v | p k -            plain Set / Del          pc cf k v   plain SetCF
//	v k ver v | v k ver -    SetVersionedEntry
//	hold k=v ...             begin an update transaction with pending writes and keep it
//	holdro                   begin a read-only transaction and keep it
//	rot, fl, move, drain, reopen, scan
var iterScripts = map[string][]string{
	// F8: a committed delete must hide the older version in scans
	"tombstone": {"c a=1 b=2 k=3", "c b=-", "scan", "rot", "fl", "c a=-", "scan", "rot", "scan"},
	// F3: two sealed memtables holding the same internal key
	"imm_tie": {"p a 1", "p b 1", "rot", "p a 2", "p b -", "rot", "scan", "fl", "scan", "fl", "scan"},
	// F9: reverse scan of a key with several versions
	"reverse_versions": {"c a=1 b=1", "c a=2", "c a=3 k=1", "scan", "rot", "fl", "c b=2", "scan"},
	// F10: other column families and older versions under DB.NewIterator
	"db_cf": {"p a 1", "pc 2 a 9", "pc 1 b 8", "c a=2", "c a=-", "scan", "rot", "fl", "scan"},
	// DBIterator: tombstones, reverse seek onto a key written by a transaction
	"db_plain": {"p a 1", "p b 2", "p k 3", "p b -", "scan", "rot", "fl", "p a -", "scan"},
	"db_rseek": {"c a=1", "c b=2", "c k=3", "scan"},
	// pending writes on prefix-related keys
	"pending_prefix": {"c a=1 ab=2", "hold a=5 a\x00=6 a\xff=7 ab=8", "scan"},
	// equal internal keys in two tables of one ingest buffer (inherited finding C01-F2)
	"dup_copies": {"c k=1", "rot", "fl", "c a=2", "v k 1 9", "rot", "fl", "move", "scan"},
	// two main tables in L6 (two ingest drains of disjoint key ranges): the DB iterator seeks
	// exactly onto the last key of the first one (plain-API keys carry the seek version)
	"main_boundary_plain": {"p a 1", "p b 2", "rot", "fl", "move", "drain", "p k 3", "p z\xff 4", "rot", "fl", "move", "drain", "scan"},
	// the same for a transaction whose readTs is the stored version of that last key
	"main_boundary_txn": {"c a=1 b=2", "holdro", "rot", "fl", "move", "drain", "c k=3 z\xff=4", "rot", "fl", "move", "drain", "scan"},
	// a reader begun BEFORE the commit of b: its Seek(b) carries a version below every stored
	// version of b, the last key of the first main table; k and z of the next table are visible
	"old_reader_boundary": {"c k=1 z\xff=1", "holdro", "rot", "fl", "move", "drain", "c a=2 b=2", "rot", "fl", "move", "drain", "scan"},
	// own writes over keys whose newest committed version is exactly readTs
	"own_write_at_readts": {"c a=1 b=2 k=3", "hold a=9 b=- ab=7", "scan", "rot", "fl", "scan"},
	// a committed empty value, read from a memtable and from a table
	"empty_value": {"c a=~ b=1", "scan", "rot", "fl", "scan"},
	// expiry
	"expired": {"c a=!1 b=2", "c b=!3 k=4", "scan", "rot", "fl", "scan"},
}

func parseKVs(fs []string, seq *int) []wspec {
	var ws []wspec
	for _, f := range fs {
		i := strings.IndexByte(f, '=')
		w := wspec{key: []byte(f[:i])}
		v := f[i+1:]
		switch {
		case v == "-":
			w.del = true
		case v == "~":
			w.val = []byte{}
		case strings.HasPrefix(v, "!"):
			w.exp = 1
			w.val = []byte("x" + v[1:])
		default:
			w.val = []byte("s" + v)
		}
		ws = append(ws, w)
	}
	return ws
}

func (r *iterRun) script(steps []string, nDB, nTxn int) {
	n := 0
	for _, st := range steps {
		f := strings.Fields(st)
		switch f[0] {
		case "c":
			r.commit(parseKVs(f[1:], &n))
		case "holdro":
			r.held = append(r.held, r.begin(false, nil))
		case "hold":
			r.held = append(r.held, r.begin(true, parseKVs(f[1:], &n)))
		case "p":
			r.plain(kv.CFDefault, []byte(f[1]), f[2] == "-")
		case "pc":
			var cf int
			fmt.Sscan(f[1], &cf)
			r.plain(kv.ColumnFamily(cf), []byte(f[2]), f[3] == "-")
		case "v":
			var ver uint64
			fmt.Sscan(f[2], &ver)
			r.versioned(kv.CFDefault, []byte(f[1]), ver, f[3] == "-")
		case "rot":
			r.rotate()
		case "fl":
			r.flushOne()
		case "move":
			r.compactOnce(0, 0, 6, "l0_move")
		case "drain":
			r.compactOnce(6, int(compact.IngestDrain), 0, "drain")
		case "reopen":
			r.reopen()
		case "scan":
			r.scan(nDB, nTxn, nil)
		}
	}
}

func tmpRoot() string {
	if d := os.Getenv("VERIF_TMP"); d != "" {
		return d
	}
	if st, err := os.Stat("/dev/shm"); err == nil && st.IsDir() {
		return "/dev/shm"
	}
	return ""
}

type episode struct {
	Seed    int64  `json:"seed"`
	Profile string `json:"profile"`
	Script  string `json:"script"`
	Steps   int    `json:"steps"`
	NDB     int    `json:"ndb"`
	NTxn    int    `json:"ntxn"`
}

func runEpisode(c *corr.Ctx, ep episode) {
	dir, err := os.MkdirTemp(tmpRoot(), "nokv-iter-")
	if err != nil {
		panic(err)
	}
	defer os.RemoveAll(dir)
	r := &iterRun{dir: dir, c: c, rng: rand.New(rand.NewSource(ep.Seed)), profile: ep.Profile,
		tag: fmt.Sprintf("%+v", ep)}
	flushGate.setOpen(false)
	r.open()
	if ep.Script != "" {
		r.script(iterScripts[ep.Script], ep.NDB, ep.NTxn)
		c.Count("script_" + ep.Script)
	} else {
		if ep.Profile == "ranges" {
			r.programRanges(ep.Steps, ep.NDB, ep.NTxn)
		} else {
			r.program(ep.Steps, ep.NDB, ep.NTxn)
		}
		c.Count("profile_" + ep.Profile)
	}
	r.closeDB()
}

func runIter(c *corr.Ctx) error {
	installHooks()
	c.Meta("run_module", "RunIter")
	c.Meta("exhaustive", false)
	c.Meta("rule", "states built on a real DB (background compaction paused, flushes gated) by random programs of transaction commits (1-3 keys; sets, deletes, expired and not yet expired entries, empty values), plain-API writes (default/lock/write column families), equal-version overwrites, memtable rotation, flushes, every compaction kind, reopen; 7 user keys incl. byte-prefix pairs and 0x00/0xFF; at checkpoints the layout is dumped with every record and DB.NewIterator, Txn.NewIterator, Txn.NewKeyIterator run under random option records (Reverse, AllVersions, KeyOnly, Prefix, SinceTs, LowerBound/UpperBound from keys and neighbours) with Rewind or Seek (targets = keys, neighbours, empty), half of them after a SEQUENCE of earlier positioning operations on the same iterator (Seek, preferably out of the bounds, / Rewind, each followed by 0-2 Next), plus fixed probes (forward Seek exactly onto every key, Rewind after a rejected Seek, Seek after Seek, Seek after Rewind+Next, forward and reverse), on a fresh read-only transaction, a fresh update transaction with pending writes and transactions begun earlier, plus Txn.Get of every key; the full (cf, key, version, value) listings are compared. a `ranges` profile commits to one of three disjoint key ranges per phase and settles each into its own L6 main table (several main tables per level) while transactions begun earlier stay open (old read timestamps). scripted regression programs run first (incl. a reader older than every version of the last key of a main table, own writes over keys committed exactly at readTs, two main tables in one level after two ingest drains, with the DB iterator / a transaction whose readTs is the stored version seeking exactly onto the last key of the first table). non-trivial = the state has at least two sources and one record; distinct by Gallina term")
	if c.Replay != "" {
		cases, err := c.ReplayCases()
		if err != nil {
			return err
		}
		seen := map[string]bool{}
		for _, cs := range cases {
			d, _ := cs.Desc.(map[string]any)
			tag, _ := d["episode"].(string)
			if tag == "" || seen[tag] {
				continue
			}
			seen[tag] = true
			ep := parseEpisode(tag)
			runEpisode(c, ep)
		}
		return nil
	}
	nDB, nTxn := 6, 6
	for _, name := range []string{"tombstone", "imm_tie", "reverse_versions", "db_cf", "db_plain", "db_rseek", "pending_prefix", "expired", "empty_value", "dup_copies", "main_boundary_plain", "main_boundary_txn", "old_reader_boundary", "own_write_at_readts"} {
		runEpisode(c, episode{Seed: 7, Script: name, NDB: nDB, NTxn: nTxn})
	}
	n := c.Scale(8, 300)
	for i := 0; i < n; i++ {
		ep := episode{Seed: c.Rng.Int63(), Steps: 30 + c.Rng.Intn(30), NDB: nDB, NTxn: nTxn}
		switch x := c.Rng.Intn(10); {
		case i == 0 || x < 2:
			ep.Profile = "ranges"
		case x < 4:
			ep.Profile = "simple"
		case x < 6:
			ep.Profile = "txn"
		default:
			ep.Profile = "mixed"
		}
		runEpisode(c, ep)
	}
	return nil
}

func parseEpisode(tag string) episode {
	var ep episode
	tag = strings.Trim(tag, "{}")
	for _, f := range strings.Fields(tag) {
		i := strings.IndexByte(f, ':')
		if i < 0 {
			continue
		}
		k, v := f[:i], f[i+1:]
		switch k {
		case "Seed":
			fmt.Sscan(v, &ep.Seed)
		case "Profile":
			ep.Profile = v
		case "Script":
			ep.Script = v
		case "Steps":
			fmt.Sscan(v, &ep.Steps)
		case "NDB":
			fmt.Sscan(v, &ep.NDB)
		case "NTxn":
			fmt.Sscan(v, &ep.NTxn)
		}
	}
	return ep
}

var _ = bytes.Equal

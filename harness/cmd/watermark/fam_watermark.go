package main

import (
	"context"
	"encoding/json"
	"fmt"
	"strings"
	"time"

	"github.com/feichai0017/NoKV/utils"
	"github.com/feichai0017/NoKV/utils/verifhook"
	"verifharness/internal/corr"
	"verifharness/internal/sched"
)

// C32: utils.WaterMark under the controlled scheduler, with a small window
// (VerifInitWindow) so that rebuilds happen with small indices. Every thread
// runs a list of operations (Begin i / Done i / WaitForMark i), with a harness
// yield point before each operation. After every grant: whether it ran, the
// yield point reached, DoneUntil, LastIndex, base and slots of the current window.

type wmOp struct {
	K string   `json:"k"` // "b" | "d" | "w" | "B" (BeginMany) | "D" (DoneMany)
	I uint64   `json:"i,omitempty"`
	L []uint64 `json:"l,omitempty"` // indices of a batch (non-zero)
}

type wmDesc struct {
	Size     int      `json:"size"`
	Progs    [][]wmOp `json:"progs"`
	Schedule []int    `json:"schedule"`
}

var wmTags = map[string]int{
	"harness.wm.op":                             0,
	"utils.WaterMark.setLastIndex.load":         1,
	"utils.WaterMark.setLastIndex.cas":          2,
	"utils.WaterMark.ensureWindow.load":         3,
	"utils.WaterMark.ensureWindow.lock":         4,
	"utils.WaterMark.ensureWindow.reload":       5,
	"utils.WaterMark.ensureWindow.unlock":       6,
	"utils.WaterMark.rebuildWindowLocked.done":  7,
	"utils.WaterMark.rebuildWindowLocked.copy":  8,
	"utils.WaterMark.rebuildWindowLocked.store": 9,
	"utils.WaterMark.ensureWindow.final":        10,
	"utils.WaterMark.addIndex.add":              11,
	"utils.WaterMark.tryAdvance.done":           12,
	"utils.WaterMark.tryAdvance.last":           13,
	"utils.WaterMark.tryAdvance.window":         14,
	"utils.WaterMark.tryAdvance.slot":           15,
	"utils.WaterMark.tryAdvance.cas":            16,
	"utils.WaterMark.notifyWaiters.lock":        17,
	"utils.WaterMark.notifyWaiters.close":       18,
	"utils.WaterMark.WaitForMark.fast":          19,
	"utils.WaterMark.WaitForMark.lock":          20,
	"utils.WaterMark.WaitForMark.check":         21,
	"utils.WaterMark.WaitForMark.select":        22,
}

func wmTag(st sched.Step) int {
	switch st.Status {
	case sched.Finished:
		return 99
	case sched.Parked:
		if t, ok := wmTags[st.Point]; ok {
			return t
		}
	}
	return 98
}

func wmCase(d wmDesc) (corr.Case, error) {
	w := &utils.WaterMark{Name: "verif"}
	w.VerifInitWindow(d.Size)
	cur := make([]int, len(d.Progs)) // op index each thread is in
	s := sched.New()
	s.SetEnabled(func(id int, point string) bool {
		if strings.HasSuffix(point, ".lock") {
			return !w.VerifMuLocked()
		}
		if strings.HasSuffix(point, "WaitForMark.select") {
			return !w.VerifHasWaiter(d.Progs[id][cur[id]].I)
		}
		return true
	})
	for t, prog := range d.Progs {
		t, prog := t, prog
		s.Spawn(t, func() {
			for k, o := range prog {
				cur[t] = k
				verifhook.Yield("harness.wm.op")
				switch o.K {
				case "b":
					w.Begin(o.I)
				case "d":
					w.Done(o.I)
				case "w":
					_ = w.WaitForMark(context.Background(), o.I)
				case "B":
					w.BeginMany(o.L)
				case "D":
					w.DoneMany(o.L)
				}
			}
		})
	}
	var steps []string
	rebuilt, waited, advanced := false, false, false
	after := func(_ int, st sched.Step) {
		base, slots := w.VerifWindow()
		ss := make([]string, len(slots))
		for i, v := range slots {
			ss[i] = corr.Z(int64(v))
		}
		tag := wmTag(st)
		if tag == 9 {
			rebuilt = true
		}
		if tag == 22 {
			waited = true
		}
		if w.DoneUntil() > 0 {
			advanced = true
		}
		steps = append(steps, fmt.Sprintf("St %d %s %d %d %d %d %s", st.Thread, corr.Bool(st.Ran), tag,
			w.DoneUntil(), w.LastIndex(), base, corr.List(ss)))
	}
	s.Run(d.Schedule, after)
	s.Drain(400, after)
	stuck := !s.AllFinished()
	if stuck {
		// a wait that can never return (or a mark blocked by a lost Done): the threads
		// are abandoned; the model must show the same disabled picks
		s.Close(100 * time.Millisecond)
	} else if !s.Close(5 * time.Second) {
		return corr.Case{}, fmt.Errorf("watermark: threads did not finish: %+v", d)
	}
	var ps []string
	for _, prog := range d.Progs {
		var os []string
		for _, o := range prog {
			switch o.K {
			case "b":
				os = append(os, fmt.Sprintf("Begin %d", o.I))
			case "d":
				os = append(os, fmt.Sprintf("Done %d", o.I))
			case "B":
				os = append(os, "BeginMany "+corr.ListN(o.L))
			case "D":
				os = append(os, "DoneMany "+corr.ListN(o.L))
			default:
				os = append(os, fmt.Sprintf("Wait %d", o.I))
			}
		}
		ps = append(ps, corr.List(os))
	}
	term := fmt.Sprintf("Cs %d %s %s %s", d.Size, corr.List(ps), corr.List(steps), corr.Bool(rebuilt))
	return corr.Case{Coq: term, Nontrivial: advanced && (rebuilt || waited || len(d.Progs) > 1), Desc: d}, nil
}

func bd(i uint64) []wmOp { return []wmOp{{K: "b", I: i}, {K: "d", I: i}} }

// bdMany: BeginMany l; DoneMany l
func bdMany(l ...uint64) []wmOp { return []wmOp{{K: "B", L: l}, {K: "D", L: l}} }

func runWatermark(c *corr.Ctx) error {
	c.Meta("run_module", "RunWatermark")
	c.Meta("rule", "2..3 threads running Begin/Done/WaitForMark/BeginMany/DoneMany lists (batches inside the window, spanning one and two window sizes, alone and next to other threads) on a real WaterMark with a window of 2..4 slots under the controlled scheduler; indices from {1,2,3} and {1, base+size} (forces rebuilds); schedules: every word of length b over 2 threads (b=9 quick, 11 thorough) for fixed programs, random block schedules for random programs; each completed round-robin. Compared after every grant: ran, yield point, DoneUntil, LastIndex, base and slot counts of the current window. non-trivial = the mark advanced and the run had a rebuild, a blocked wait, or several threads")
	c.Meta("exhaustive", true)
	c.Meta("exhaustive_scope", "2 threads, programs (Begin 1; Done 1 | Begin 2; Done 2), (Begin 1; Done 1 | Wait 1), (Begin 2; Done 2 | Begin 6; Done 6 with 4 slots): all schedule prefixes up to the bound")
	emit := func(d wmDesc) error {
		cs, err := wmCase(d)
		if err != nil {
			return err
		}
		if strings.HasSuffix(cs.Coq, "true") {
			c.Count("with_rebuild")
		}
		c.Emit(cs)
		return nil
	}
	if c.Replay != "" {
		cases, err := c.ReplayCases()
		if err != nil {
			return err
		}
		for _, cs := range cases {
			var d wmDesc
			b, _ := json.Marshal(cs.Desc)
			if err := json.Unmarshal(b, &d); err != nil {
				return err
			}
			if err := emit(d); err != nil {
				return err
			}
		}
		return nil
	}
	var ferr error
	bound := c.Scale(9, 11)
	if c.Tier == "search" {
		bound = 11
	}
	fixedProgs := []wmDesc{
		{Size: 4, Progs: [][]wmOp{bd(1), bd(2)}},
		{Size: 4, Progs: [][]wmOp{bd(1), {{K: "w", I: 1}}}},
		{Size: 4, Progs: [][]wmOp{bd(2), bd(6)}},
	}
	// batches that stay inside the window, span one window size and span two window sizes,
	// alone and next to Begin/Done/WaitForMark of another thread
	batchProgs := []wmDesc{
		{Size: 4, Progs: [][]wmOp{bdMany(1, 2, 3)}},
		{Size: 4, Progs: [][]wmOp{bdMany(1, 5)}},
		{Size: 4, Progs: [][]wmOp{bdMany(2, 6, 10)}},
		{Size: 2, Progs: [][]wmOp{{{K: "B", L: []uint64{1, 3, 5}}, {K: "d", I: 1}, {K: "D", L: []uint64{3, 5}}}}},
		{Size: 4, Progs: [][]wmOp{bdMany(1, 5), {{K: "w", I: 1}}}},
		{Size: 4, Progs: [][]wmOp{bdMany(1, 5), {{K: "w", I: 5}}}},
		{Size: 4, Progs: [][]wmOp{bdMany(2, 6), bd(1)}},
		{Size: 2, Progs: [][]wmOp{bdMany(1, 3, 5), bd(2)}},
		{Size: 3, Progs: [][]wmOp{bdMany(1, 2), bdMany(4, 7)}},
	}
	for _, bp := range batchProgs {
		for i := 0; i < c.Scale(12, 200); i++ {
			d := bp
			if i > 0 && len(d.Progs) > 1 {
				d.Schedule = sched.RandomBlocks(c.Rng, len(d.Progs), 10+c.Rng.Intn(60), 12)
			} else if i > 0 {
				break
			}
			c.Count("batch")
			if err := emit(d); err != nil {
				return err
			}
		}
	}
	for _, fp := range fixedProgs {
		fp := fp
		sched.Prefixes(2, bound, func(w []int) bool {
			c.Count("prefix")
			d := fp
			d.Schedule = w
			ferr = emit(d)
			return ferr == nil
		})
		if ferr != nil {
			return ferr
		}
	}
	for i := 0; i < c.Scale(500, 3000); i++ {
		n := 2 + c.Rng.Intn(2)
		size := 2 + c.Rng.Intn(3)
		d := wmDesc{Size: size}
		idxs := []uint64{1, 2, 3, uint64(size + 1), uint64(size + 2)}
		for t := 0; t < n; t++ {
			var prog []wmOp
			for k := 0; k < 1+c.Rng.Intn(2); k++ {
				switch c.Rng.Intn(4) {
				case 0:
					prog = append(prog, wmOp{K: "w", I: corr.Pick(c.Rng, idxs[:3])})
				case 1:
					a, b := corr.Pick(c.Rng, idxs[:3]), corr.Pick(c.Rng, idxs[3:])
					if c.Rng.Intn(2) == 0 {
						prog = append(prog, bdMany(a, b)...)
					} else {
						prog = append(prog, bdMany(a, b, b+uint64(size))...)
					}
				default:
					prog = append(prog, bd(corr.Pick(c.Rng, idxs))...)
				}
			}
			d.Progs = append(d.Progs, prog)
		}
		d.Schedule = sched.RandomBlocks(c.Rng, n, 10+c.Rng.Intn(50), 12)
		c.Count(fmt.Sprintf("random.n=%d", n))
		if err := emit(d); err != nil {
			return err
		}
	}
	return nil
}

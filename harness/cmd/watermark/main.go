// Harness binary for C32 (watermark).
package main

import "verifharness/internal/corr"

func main() { corr.Main(map[string]corr.Family{"watermark": runWatermark}) }

package main

import (
	"bytes"
	"encoding/binary"
	"encoding/hex"
	"encoding/json"
	"fmt"
	"math"
	"math/rand"
	"sort"
	"sync"

	"github.com/feichai0017/NoKV/kv"
	"github.com/feichai0017/NoKV/utils"
	"verifharness/internal/corr"
)

// C07: the same entry sequence goes into utils.NewSkiplist and utils.NewART;
// both are observed through Add / Search / NewIterator (the lsm.memIndex interface).

type miTarget struct {
	Idx  int    `json:"idx"` // base key of op Idx, or -1 with Base
	Base string `json:"base,omitempty"`
	Ver  uint64 `json:"ver"`
}

type miDesc struct {
	Keys       []string   `json:"keys"` // hex internal keys in insertion order (value = index+1)
	Targets    []miTarget `json:"targets"`
	Concurrent bool       `json:"concurrent,omitempty"`
}

func (t miTarget) key(d *miDesc) []byte {
	if t.Idx >= 0 {
		k, _ := hex.DecodeString(d.Keys[t.Idx])
		return kv.KeyWithTs(kv.ParseKey(k), t.Ver)
	}
	b, _ := hex.DecodeString(t.Base)
	return kv.KeyWithTs(b, t.Ver)
}

func (t miTarget) term() string {
	if t.Idx >= 0 {
		return fmt.Sprintf("T (TB %d %d) 0", t.Idx, t.Ver)
	}
	b, _ := hex.DecodeString(t.Base)
	return fmt.Sprintf("T (TX %s %d) 0", corr.Hex(b), t.Ver)
}

type memIndex interface {
	Add(*kv.Entry)
	Search([]byte) kv.ValueStruct
	NewIterator(*utils.Options) utils.Iterator
}

const miLimit = 3

func miVal(i int) []byte {
	var b [4]byte
	binary.BigEndian.PutUint32(b[:], uint32(i+1))
	return b[:]
}

// ref prints an observed (key, value) as the index of the inserted entry it is.
func miRef(keys [][]byte, k, v []byte) string {
	if len(v) == 4 {
		i := int(binary.BigEndian.Uint32(v)) - 1
		if i >= 0 && i < len(keys) && bytes.Equal(keys[i], k) {
			return fmt.Sprintf("I %d", i)
		}
	}
	return fmt.Sprintf("X (E %s 0 0 %s)", corr.Hex(k), corr.Hex(v))
}

func miDrain(keys [][]byte, it utils.Iterator, limit int) []string {
	var out []string
	for ; it.Valid(); it.Next() {
		e := it.Item().Entry()
		out = append(out, miRef(keys, e.Key, e.Value))
		if limit > 0 && len(out) >= limit {
			break
		}
	}
	return out
}

func miObserve(idx memIndex, keys [][]byte, d *miDesc) (term string, hits int, err error) {
	defer func() {
		if r := recover(); r != nil {
			err = fmt.Errorf("panic: %v", r)
		}
	}()
	full := func(asc bool) string {
		it := idx.NewIterator(&utils.Options{IsAsc: asc})
		defer it.Close()
		it.Rewind()
		return "(Lst " + corr.List(miDrainX(keys, it)) + ")"
	}
	fwd, rev := full(true), full(false)
	var rs []string
	for _, t := range d.Targets {
		q := t.key(d)
		vs := idx.Search(q)
		s := "None"
		if len(vs.Value) > 0 {
			hits++
			// Search returns only the value: identify the entry by it
			i := -1
			if len(vs.Value) == 4 {
				i = int(binary.BigEndian.Uint32(vs.Value)) - 1
			}
			if i >= 0 && i < len(keys) {
				s = fmt.Sprintf("(Some (I %d))", i)
			} else {
				s = fmt.Sprintf("(Some (X (E \"\" 0 0 %s)))", corr.Hex(vs.Value))
			}
		}
		seek := func(asc bool) string {
			it := idx.NewIterator(&utils.Options{IsAsc: asc})
			defer it.Close()
			it.Seek(q)
			return corr.List(miDrain(keys, it, miLimit))
		}
		rs = append(rs, fmt.Sprintf("R %s %s %s", s, seek(true), seek(false)))
	}
	return fmt.Sprintf("(Om %s %s %s)", fwd, rev, corr.List(rs)), hits, nil
}

// miDrainX prints full iterations as entries resolved against ops.
func miDrainX(keys [][]byte, it utils.Iterator) []string {
	var out []string
	for ; it.Valid(); it.Next() {
		e := it.Item().Entry()
		r := miRef(keys, e.Key, e.Value)
		if r[0] == 'I' {
			out = append(out, "N"+r[1:]) // N i = the i-th inserted entry
		} else {
			out = append(out, "("+r[3:len(r)-1]+")")
		}
	}
	return out
}

func padCmp(a, b []byte) int {
	n := len(a)
	if len(b) > n {
		n = len(b)
	}
	pa, pb := make([]byte, n), make([]byte, n)
	copy(pa, a)
	copy(pb, b)
	return bytes.Compare(pa, pb)
}

func radixSafe(keys [][]byte) bool {
	for _, a := range keys {
		for _, b := range keys {
			if padCmp(a, b) != utils.CompareKeys(a, b) {
				return false
			}
		}
	}
	return true
}

func miCase(c *corr.Ctx, d *miDesc) (corr.Case, error) {
	keys := make([][]byte, len(d.Keys))
	for i, h := range d.Keys {
		keys[i], _ = hex.DecodeString(h)
	}
	skl := utils.NewSkiplist(1 << 22)
	art := utils.NewART(1 << 22)
	defer skl.DecrRef()
	defer art.DecrRef()
	add := func(idx memIndex, i int) {
		idx.Add(&kv.Entry{Key: append([]byte(nil), keys[i]...), Value: miVal(i)})
	}
	if d.Concurrent {
		// stress only: 8 goroutines insert disjoint slices of distinct keys
		for _, idx := range []memIndex{skl, art} {
			var wg sync.WaitGroup
			for g := 0; g < 8; g++ {
				wg.Add(1)
				go func(g int) {
					defer wg.Done()
					for i := g; i < len(keys); i += 8 {
						add(idx, i)
					}
				}(g)
			}
			wg.Wait()
		}
		c.Count("concurrent_stress_cases")
	} else {
		for i := range keys {
			add(skl, i)
			add(art, i)
		}
	}
	so, sh, err := miObserve(skl, keys, d)
	if err != nil {
		return corr.Case{}, fmt.Errorf("skiplist: %w", err)
	}
	ao, _, err := miObserve(art, keys, d)
	if err != nil {
		return corr.Case{}, fmt.Errorf("art: %w", err)
	}
	es := make([]string, len(keys))
	for i, k := range keys {
		es[i] = fmt.Sprintf("E %s 0 0 %s", corr.Hex(k), corr.Hex(miVal(i)))
	}
	tg := make([]string, len(d.Targets))
	all := append([][]byte(nil), keys...)
	for i, t := range d.Targets {
		tg[i] = t.term()
		all = append(all, t.key(d))
	}
	// `N i` inside the observations refers to the i-th inserted entry
	term := fmt.Sprintf("let ops := %s in let N := fun i => nth (N.to_nat i) ops (E \"\" 0 0 \"\") in Cm %s ops %s %s %s",
		corr.List(es), corr.Bool(d.Concurrent), corr.List(tg), so, ao)
	safe := radixSafe(all)
	if safe {
		c.Count("radix_safe_cases")
	} else {
		c.Count("radix_unsafe_cases")
	}
	if so == ao {
		c.Count("engines_agree")
	} else {
		c.Count("engines_differ")
	}
	c.CountN("search_hits_skiplist", sh)
	c.CountN("keys", len(keys))
	ukeys := map[string]bool{}
	for _, k := range keys {
		ukeys[string(kv.ParseKey(k))] = true
	}
	return corr.Case{Coq: term, Nontrivial: len(ukeys) >= 2 && (len(d.Targets) > len(keys) || len(keys) >= 5), Desc: d}, nil
}

var miVersions = []uint64{0, 1, 2, 3, 5, 8, 1 << 32, math.MaxUint64 - 1, math.MaxUint64}
var miAlphabet = []byte{'a', 'b', 0x00, 0xff, 'a', 0x00}

func miTargets(r *rand.Rand, d *miDesc, keys [][]byte, max int, sameLen bool) {
	seen := map[string]bool{}
	var ts []miTarget
	add := func(t miTarget) {
		k := t.key(d)
		if len(k) > 8 && !seen[string(k)] {
			seen[string(k)] = true
			ts = append(ts, t)
		}
	}
	for i, k := range keys {
		base, ver := kv.ParseKey(k), kv.ParseTs(k)
		add(miTarget{Idx: i, Ver: ver})
		if ver > 0 {
			add(miTarget{Idx: i, Ver: ver - 1})
		}
		if ver < math.MaxUint64 {
			add(miTarget{Idx: i, Ver: ver + 1})
		}
		add(miTarget{Idx: i, Ver: math.MaxUint64})
		add(miTarget{Idx: i, Ver: 0})
		if sameLen {
			// only targets of the same length as the stored keys (radix-safe shape)
			if len(base) > 0 {
				nb := append([]byte(nil), base...)
				nb[len(nb)-1] = byte(r.Intn(256))
				add(miTarget{Idx: -1, Base: hex.EncodeToString(nb), Ver: corr.Pick(r, miVersions)})
			}
			continue
		}
		add(miTarget{Idx: -1, Base: hex.EncodeToString(append(append([]byte(nil), base...), 0)), Ver: corr.Pick(r, miVersions)})
		add(miTarget{Idx: -1, Base: hex.EncodeToString(append(append([]byte(nil), base...), 0xff)), Ver: corr.Pick(r, miVersions)})
		if len(base) > 1 {
			add(miTarget{Idx: -1, Base: hex.EncodeToString(base[:len(base)-1]), Ver: corr.Pick(r, miVersions)})
		}
	}
	if len(ts) > max {
		r.Shuffle(len(ts), func(i, j int) { ts[i], ts[j] = ts[j], ts[i] })
		ts = ts[:max]
	}
	d.Targets = ts
}

// genKeys: user keys over a colliding alphabet; fixedLen > 0 makes every user
// key that long (radix-safe shape).
func genKeys(r *rand.Rand, n int, fixedLen int, wide bool) [][]byte {
	useCF := r.Intn(2) == 0
	var prefix []byte
	if r.Intn(3) == 0 {
		prefix = bytes.Repeat([]byte{'p'}, 1+r.Intn(12))
	}
	var ukeys [][]byte
	seen := map[string]bool{}
	var keys [][]byte
	for tries := 0; len(keys) < n && tries < 20*n; tries++ {
		var uk []byte
		if len(ukeys) > 0 && r.Intn(3) != 0 {
			uk = ukeys[r.Intn(len(ukeys))]
		} else {
			l := fixedLen
			if l == 0 {
				l = r.Intn(5)
			}
			uk = append([]byte(nil), prefix...)
			for i := 0; i < l; i++ {
				if wide {
					uk = append(uk, byte(r.Intn(256)))
				} else {
					uk = append(uk, miAlphabet[r.Intn(len(miAlphabet))])
				}
			}
			ukeys = append(ukeys, uk)
		}
		var k []byte
		if useCF || len(uk) == 0 {
			k = kv.InternalKey(kv.ColumnFamily(r.Intn(2)), uk, corr.Pick(r, miVersions))
		} else {
			k = kv.KeyWithTs(uk, corr.Pick(r, miVersions))
		}
		if seen[string(k)] && r.Intn(8) != 0 { // a few overwrites
			continue
		}
		seen[string(k)] = true
		keys = append(keys, k)
	}
	return keys
}

// growthKeySets: see runMemidx. Every set has equal-length keys (radix-safe shape).
func growthKeySets(r *rand.Rand) [][][]byte {
	var out [][][]byte
	extremes := []byte{0x00, 0x01, 0xfe, 0xff}
	isExtreme := func(b byte) bool { return b <= 0x01 || b >= 0xfe }
	others := func(n int) []byte { // n distinct non-extreme bytes in random order
		p := r.Perm(252)
		bs := make([]byte, n)
		for i := range bs {
			bs[i] = byte(p[i] + 2)
		}
		return bs
	}
	for _, deep := range []bool{false, true} {
		mk := func(bs []byte) [][]byte {
			var keys [][]byte
			if deep {
				// the fan-out node sits under the root child 'q'; 'r' keeps the root an inner node
				keys = append(keys, kv.KeyWithTs([]byte{'r', 0x7f}, 3))
			}
			for _, b := range bs {
				uk := []byte{b}
				if deep {
					uk = []byte{'q', b}
				}
				keys = append(keys, kv.KeyWithTs(uk, 3))
			}
			return keys
		}
		for _, x := range extremes {
			// the extreme child is there before every growth
			out = append(out, mk(append([]byte{x}, others(51)...)))
			for _, t := range []int{5, 17, 49} {
				o := others(t + 2)
				// x is the insert that makes the node grow (t-th child)
				grow := append(append(append([]byte(nil), o[:t-1]...), x), o[t-1:t+1]...)
				out = append(out, mk(grow))
				// x is inserted right after the growth
				after := append(append(append([]byte(nil), o[:t]...), x), o[t:]...)
				out = append(out, mk(after))
			}
		}
		// all four extremes first, then 50 others
		out = append(out, mk(append(append([]byte(nil), extremes...), others(50)...)))
		// the others first, the four extremes last
		out = append(out, mk(append(others(50), extremes...)))
	}
	_ = isExtreme
	// one user key, 60 versions differing in the first version byte (inverted: 0xFF, 0xFE, ... and 0x00, 0x01)
	for _, firstLast := range []bool{true, false} {
		var vers []uint64
		for i := 0; i < 56; i++ {
			vers = append(vers, uint64(i+2)<<56)
		}
		r.Shuffle(len(vers), func(i, j int) { vers[i], vers[j] = vers[j], vers[i] })
		ext := []uint64{0, 1 << 56, 0xfe << 56, 0xff << 56} // inverted first byte 0xFF, 0xFE, 0x01, 0x00
		if firstLast {
			vers = append(ext, vers...)
		} else {
			vers = append(vers, ext...)
		}
		var keys [][]byte
		for _, v := range vers {
			keys = append(keys, kv.KeyWithTs([]byte("k"), v))
		}
		out = append(out, keys)
	}
	return out
}

// longPrefixKeySets: see runMemidx.
func longPrefixKeySets(r *rand.Rand) [][][]byte {
	var out [][][]byte
	for _, plen := range []int{17, 24, 40} {
		for _, deep := range []bool{false, true} {
			for _, useCF := range []bool{false, true} {
				run := make([]byte, plen)
				for i := range run {
					run[i] = byte('a' + r.Intn(3))
				}
				head := []byte{}
				if deep {
					head = []byte{'q'}
				}
				mk := func(uk []byte, ver uint64) []byte {
					if useCF {
						return kv.InternalKey(kv.CFDefault, uk, ver)
					}
					return kv.KeyWithTs(uk, ver)
				}
				// user key = head ++ run ++ [x, y]: x is the branching byte after the long run
				uk := func(x, y byte) []byte {
					return append(append(append([]byte(nil), head...), run...), x, y)
				}
				var keys [][]byte
				if deep {
					// keeps the root an inner node with a short prefix
					other := append([]byte{'r'}, bytes.Repeat([]byte{'z'}, plen+2)...)
					keys = append(keys, mk(other, 3))
				}
				// two keys create the node with the long prefix, the third clones it
				keys = append(keys, mk(uk('a', 'a'), 3), mk(uk('b', 'a'), 3), mk(uk('c', 'a'), 3))
				// keys below the cloned node (lookups go through it), other versions
				keys = append(keys, mk(uk('a', 'b'), 3), mk(uk('b', 'a'), 9), mk(uk('c', 'c'), 1))
				// a key that leaves the long run in the middle: splitPrefix, both halves may be long
				mid := uk('a', 'a')
				mid[len(head)+plen/2] = 'X'
				keys = append(keys, mk(mid, 3))
				// more siblings: 5th child (Node4 -> Node16) ... 18 children (Node16 -> Node48)
				n := 3 + r.Intn(3)
				if plen == 24 {
					n = 16
				}
				for i := 0; i < n; i++ {
					keys = append(keys, mk(uk(byte('d'+i), byte('a'+r.Intn(2))), 3))
				}
				// and again below the grown node
				keys = append(keys, mk(uk('b', 'b'), 3), mk(uk('d', 'z'), 5))
				out = append(out, keys)
				// the same set with the siblings first and the long-run pair last
				rev := make([][]byte, len(keys))
				for i, k := range keys {
					rev[len(keys)-1-i] = k
				}
				out = append(out, rev)
			}
		}
	}
	return out
}

func permutations(n int) [][]int {
	if n == 0 {
		return [][]int{{}}
	}
	var out [][]int
	for _, p := range permutations(n - 1) {
		for i := 0; i <= len(p); i++ {
			q := append(append(append([]int(nil), p[:i]...), n-1), p[i:]...)
			out = append(out, q)
		}
	}
	return out
}

func runMemidx(c *corr.Ctx) error {
	c.Meta("run_module", "RunMemIndex")
	c.Meta("exhaustive", false)
	c.Meta("rule", "the same insertion sequence into utils.NewSkiplist and utils.NewART (value = insertion index): random key multisets over user-key alphabet {a,b,00,ff} (lengths 0..4, optional shared prefix, with/without CF marker, 9 versions incl. 0 and 2^64-1, a few overwrites), fixed-length (radix-safe) and mixed-length shapes, wide fan-out sets (>48 distinct next bytes: every ART node width), long-prefix sets (keys sharing a run of 17/24/40 bytes, then 3rd/5th/17th sibling at the end of the run, a key splitting the run, keys below the cloned node; root and one level down, with and without CF marker), node-growth sets (children crossing 5/17/49 with a child keyed 00/01/fe/ff inserted before, at and after each growth, at the root and one level down; 60 versions of one key), all insertion orders of 2..4-key sets (5 in thorough); per engine: full forward and reverse iteration, Search and Seek+3*Next in both directions on every key and its neighbours (version +-1, max, 0, key++00, key++ff, key minus last byte). Concurrent inserts (8 goroutines, distinct keys) are a stress test only, compared with the sequential model. non-trivial = >= 2 user keys and more targets than keys")
	if c.Replay != "" {
		cases, err := c.ReplayCases()
		if err != nil {
			return err
		}
		for _, rc := range cases {
			b, _ := json.Marshal(rc.Desc)
			var d miDesc
			if err := json.Unmarshal(b, &d); err != nil {
				return err
			}
			cs, err := miCase(c, &d)
			if err != nil {
				return err
			}
			c.Emit(cs)
		}
		return nil
	}
	emit := func(keys [][]byte, maxT int, conc bool, sameLen bool) error {
		d := &miDesc{Concurrent: conc}
		for _, k := range keys {
			d.Keys = append(d.Keys, hex.EncodeToString(k))
		}
		miTargets(c.Rng, d, keys, maxT, sameLen)
		cs, err := miCase(c, d)
		if err != nil {
			b, _ := json.Marshal(d)
			return fmt.Errorf("%w (%s)", err, b)
		}
		c.Emit(cs)
		return nil
	}
	// F11: "a" and "a\x00" both present, lookup of ("a", max version)
	if err := emit([][]byte{kv.KeyWithTs([]byte("a"), 5), kv.KeyWithTs([]byte("a\x00"), 5)}, 40, false, false); err != nil {
		return err
	}
	// every insertion order of small key sets
	nsets := c.Scale(3, 40)
	for s := 0; s < nsets; s++ {
		n := 2 + c.Rng.Intn(3)
		if c.Tier == "thorough" && s%4 == 0 {
			n = 5
		}
		fixed := 0
		if s%2 == 0 {
			fixed = 1 + c.Rng.Intn(2)
		}
		set := genKeys(c.Rng, n, fixed, false)
		sort.Slice(set, func(i, j int) bool { return bytes.Compare(set[i], set[j]) < 0 })
		for _, p := range permutations(len(set)) {
			keys := make([][]byte, len(set))
			for i, j := range p {
				keys[i] = set[j]
			}
			if err := emit(keys, 12, false, fixed > 0); err != nil {
				return err
			}
			c.Count("permutation_cases")
		}
	}
	// random multisets
	n := c.Scale(60, 3000)
	for i := 0; i < n; i++ {
		fixed := 0
		if i%3 == 0 {
			fixed = 1 + c.Rng.Intn(3) // radix-safe shape
		}
		keys := genKeys(c.Rng, 1+c.Rng.Intn(20), fixed, false)
		if err := emit(keys, 24, false, fixed > 0); err != nil {
			return err
		}
	}
	// wide fan-out: forces Node16 / Node48 / Node256
	for i, w := range []int{6, 20, 60, 200} {
		if c.Tier != "thorough" && i%2 == 1 && c.Rng.Intn(2) == 0 {
			continue
		}
		keys := genKeys(c.Rng, w, 1+c.Rng.Intn(2), true)
		if err := emit(keys, 24, false, true); err != nil {
			return err
		}
		c.Count("wide_fanout_cases")
	}
	// node growth with extreme child bytes: fan-out sets that cross the 4->16, 16->48 and
	// 48->256 thresholds (5th, 17th, 49th child) with a child keyed 0x00 / 0x01 / 0xFE / 0xFF
	// inserted before every growth, as the growing insert, or right after the growth; at the
	// root and at a deeper node; plus one user key with 60 versions (fan-out in the version bytes)
	for _, keys := range growthKeySets(c.Rng) {
		if err := emit(keys, 14, false, true); err != nil {
			return err
		}
		c.Count("node_growth_cases")
	}
	// long compressed paths: keys sharing a run of 17 / 24 / 40 bytes (longer than the 16
	// inline prefix bytes of an ART node), then siblings inserted at the end of that run so
	// the node is cloned (3rd child) and grown (5th, 17th child), a key that splits the long
	// run in the middle, and further keys below the cloned node; equal lengths throughout
	for _, keys := range longPrefixKeySets(c.Rng) {
		if err := emit(keys, 30, false, true); err != nil {
			return err
		}
		c.Count("long_prefix_cases")
	}
	// concurrent inserts: stress test only
	for i := 0; i < c.Scale(2, 20); i++ {
		keys := genKeys(c.Rng, 40, 2, true)
		// distinct keys only, so that the result does not depend on the interleaving
		seen := map[string]bool{}
		var uniq [][]byte
		for _, k := range keys {
			if !seen[string(k)] {
				seen[string(k)] = true
				uniq = append(uniq, k)
			}
		}
		if err := emit(uniq, 16, true, true); err != nil {
			return err
		}
	}
	return nil
}

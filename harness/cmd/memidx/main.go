// Harness binary for the memtable-index family (C07).
package main

import "verifharness/internal/corr"

func main() { corr.Main(map[string]corr.Family{"memidx": runMemidx}) }

package main

import pdserver "github.com/feichai0017/NoKV/pd/server"

// pdPersistLocked is the Enabled guard of the yield point before persistMu.Lock.
func pdPersistLocked(s *pdserver.Service) bool { return s.VerifPersistLocked() }

package main

import (
	"context"
	"encoding/json"
	"fmt"
	"os"
	"path/filepath"
	"strings"
	"sync"
	"time"

	"github.com/feichai0017/NoKV/pb"
	"github.com/feichai0017/NoKV/pd/core"
	pdserver "github.com/feichai0017/NoKV/pd/server"
	pdstorage "github.com/feichai0017/NoKV/pd/storage"
	"github.com/feichai0017/NoKV/pd/tso"
	"github.com/feichai0017/NoKV/vfs"
	"verifharness/internal/corr"
	"verifharness/internal/sched"
)

// C27: pd/server Service.Tso / Service.AllocID with a real LocalStore under the
// controlled scheduler, then a restart from a copy of the directory taken at
// the end of the schedule (= what a killed process leaves behind).

type pdReq struct {
	Kind  int    `json:"kind"` // 0 = AllocID, 1 = Tso
	Count uint64 `json:"count"`
}

type pdDesc struct {
	IDStart  uint64  `json:"id_start"`
	TSStart  uint64  `json:"ts_start"`
	Reqs     []pdReq `json:"reqs"`
	Schedule []int   `json:"schedule"`       // thread ids; id+100 = grant the thread at the persistMu.Lock point even if the mutex is held
	Drain    bool    `json:"drain"`          // complete the first incarnation round-robin before the crash
	Fail     []bool  `json:"fail,omitempty"` // requests whose checkpoint write (tmp file) is made to fail once
	IDStart2 uint64  `json:"id_start2"`
	TSStart2 uint64  `json:"ts_start2"`
	Reqs2    []pdReq `json:"reqs2"`
}

type pdInc struct {
	dir   string
	store *pdstorage.LocalStore
	ids   *core.IDAllocator
	ts    *tso.Allocator
	svc   *pdserver.Service
}

func pdOpen(dir string, idStart, tsStart uint64, fs vfs.FS) (*pdInc, error) {
	store, err := pdstorage.OpenLocalStore(dir, fs)
	if err != nil {
		return nil, err
	}
	snap, err := store.Load()
	if err != nil {
		return nil, err
	}
	idS, tsS := pdstorage.ResolveAllocatorStarts(idStart, tsStart, snap.Allocator)
	in := &pdInc{dir: dir, store: store, ids: core.NewIDAllocator(idS), ts: tso.NewAllocator(tsS)}
	in.svc = pdserver.NewService(nil, in.ids, in.ts)
	in.svc.SetStorage(store)
	return in, nil
}

func pdCheckpoint(dir string) (uint64, uint64) {
	b, err := os.ReadFile(filepath.Join(dir, pdstorage.StateFileName))
	if err != nil || len(b) == 0 {
		return 0, 0
	}
	var st pdstorage.AllocatorState
	if json.Unmarshal(b, &st) != nil {
		return 0, 0
	}
	return st.IDCurrent, st.TSCurrent
}

func (in *pdInc) call(r pdReq) (first, count uint64, err error) {
	if r.Kind == 0 {
		resp, err := in.svc.AllocID(context.Background(), &pb.AllocIDRequest{Count: r.Count})
		if err != nil {
			return 0, 0, err
		}
		return resp.GetFirstId(), resp.GetCount(), nil
	}
	resp, err := in.svc.Tso(context.Background(), &pb.TsoRequest{Count: r.Count})
	if err != nil {
		return 0, 0, err
	}
	return resp.GetTimestamp(), resp.GetCount(), nil
}

func pdTag(st sched.Step) int {
	switch st.Status {
	case sched.Finished:
		return 5
	case sched.Blocked:
		return 6
	case sched.Parked:
		switch {
		case strings.HasSuffix(st.Point, ".reserve"):
			return 0
		case strings.HasSuffix(st.Point, "persist.lock"):
			return 1
		case strings.HasSuffix(st.Point, "persist.load_id"):
			return 2
		case strings.HasSuffix(st.Point, "persist.load_ts"):
			return 3
		case strings.HasSuffix(st.Point, "persist.save"):
			return 4
		}
	}
	return 99
}

func copyDir(src, dst string) error {
	if err := os.MkdirAll(dst, 0o755); err != nil {
		return err
	}
	ents, err := os.ReadDir(src)
	if err != nil {
		return err
	}
	for _, e := range ents {
		if e.IsDir() || e.Name() == "LOCK" {
			continue
		}
		b, err := os.ReadFile(filepath.Join(src, e.Name()))
		if err != nil {
			return err
		}
		if err := os.WriteFile(filepath.Join(dst, e.Name()), b, 0o644); err != nil {
			return err
		}
	}
	return nil
}

func reqTerm(rs []pdReq) string {
	out := make([]string, len(rs))
	for i, r := range rs {
		out[i] = fmt.Sprintf("R %d %d", r.Kind, r.Count)
	}
	return corr.List(out)
}

func pdCase(base string, d pdDesc) (corr.Case, error) {
	root, err := os.MkdirTemp(base, "pd")
	if err != nil {
		return corr.Case{}, err
	}
	defer os.RemoveAll(root)
	dir1 := filepath.Join(root, "a")
	var mu sync.Mutex
	var steps []string
	var images []string
	var imgErr error
	cur := -1 // thread holding the grant
	injected := make([]bool, len(d.Reqs))
	errored := make([]bool, len(d.Reqs))
	imaging := true
	nimg := 0
	// every file-system operation of SaveAllocatorState is a crash point: the directory is
	// copied as it is just before the operation (for WriteFile also with the target truncated,
	// which is what a kill between O_TRUNC and the write leaves) and a service is booted from it
	hook := func(op vfs.Op, path string) error {
		if !strings.Contains(filepath.Base(path), pdstorage.StateFileName) || (op != vfs.OpWriteFile && op != vfs.OpRename) {
			return nil
		}
		if op == vfs.OpWriteFile && cur >= 0 && cur < len(d.Fail) && d.Fail[cur] && !injected[cur] {
			injected[cur] = true
			return fmt.Errorf("injected checkpoint write failure")
		}
		mu.Lock()
		on, k := imaging, len(steps)
		mu.Unlock()
		if !on {
			return nil
		}
		variants := []bool{false}
		if op == vfs.OpWriteFile {
			variants = append(variants, true)
		}
		for _, torn := range variants {
			nimg++
			img := filepath.Join(root, fmt.Sprintf("img%d", nimg))
			if err := copyDir(dir1, img); err != nil {
				imgErr = err
				return nil
			}
			if torn {
				if err := os.WriteFile(filepath.Join(img, filepath.Base(path)), nil, 0o644); err != nil {
					imgErr = err
					return nil
				}
			}
			b, err := pdOpen(img, 1, 1, nil)
			if err != nil {
				imgErr = fmt.Errorf("boot from crash image: %w", err)
				return nil
			}
			images = append(images, fmt.Sprintf("Im %d %d %d", k, b.ids.Current(), b.ts.Current()))
			_ = b.store.Close()
			os.RemoveAll(img)
		}
		return nil
	}
	in, err := pdOpen(dir1, d.IDStart, d.TSStart, vfs.NewFaultFS(vfs.OSFS{}, hook))
	if err != nil {
		return corr.Case{}, err
	}
	first := make([]uint64, len(d.Reqs))
	failed := false
	s := sched.New()
	forced := -1
	s.SetEnabled(func(id int, point string) bool {
		if strings.HasSuffix(point, "persist.lock") {
			return id == forced || !pdPersistLocked(in.svc)
		}
		return true
	})
	for t, r := range d.Reqs {
		t, r := t, r
		s.Spawn(t, func() {
			f, _, err := in.call(r)
			mu.Lock()
			if err != nil {
				if t < len(d.Fail) && d.Fail[t] && strings.Contains(err.Error(), "injected checkpoint write failure") {
					errored[t] = true
				} else {
					failed = true
				}
			}
			first[t] = f
			mu.Unlock()
		})
	}
	interleaved := false
	waiting := -1 // thread blocked for real inside persistMu.Lock
	kind := "St"
	after := func(_ int, st sched.Step) {
		cid, cts := pdCheckpoint(dir1)
		mu.Lock()
		resp := uint64(0)
		if st.Status == sched.Finished && st.Thread >= 0 && st.Thread < len(first) {
			resp = first[st.Thread]
		}
		mu.Unlock()
		tag := pdTag(st)
		mu.Lock()
		if tag == 5 && st.Thread >= 0 && st.Thread < len(errored) && errored[st.Thread] {
			tag = 7 // the request returned the injected error
		}
		mu.Unlock()
		line := fmt.Sprintf("%s %d %s %d %d %d %d %d %d", kind, st.Thread, corr.Bool(st.Ran), tag,
			in.ids.Current(), in.ts.Current(), cid, cts, resp)
		for _, w := range st.Woken {
			if w == waiting {
				waiting = -1
			}
		}
		mu.Lock()
		steps = append(steps, line)
		mu.Unlock()
	}
	for i, pick := range d.Schedule {
		t := pick % 100
		kind = "St"
		if pick >= 100 && waiting < 0 && strings.HasSuffix(s.Point(t), "persist.lock") && pdPersistLocked(in.svc) {
			// the real Lock blocks (goroutine-state fallback of the scheduler); the model's thread stays disabled
			forced, kind, waiting = t, "Sf", t
		}
		cur = t
		after(i, s.Grant(t))
		forced, kind = -1, "St"
	}
	if d.Drain {
		for n, progressed := 0, true; progressed && n < 12*len(d.Reqs); {
			progressed = false
			for _, t := range s.Live() {
				cur = t
				st := s.Grant(t)
				after(n, st)
				n++
				progressed = progressed || st.Ran
			}
		}
	}
	cur = -1
	for _, id := range s.Live() {
		if p := s.Point(id); p != "" && !strings.HasSuffix(p, ".reserve") {
			interleaved = true
		}
	}
	// crash: what the directory holds now
	dir2 := filepath.Join(root, "b")
	if err := copyDir(dir1, dir2); err != nil {
		return corr.Case{}, err
	}
	mu.Lock()
	imaging = false
	mu.Unlock()
	if !s.Close(5 * time.Second) {
		return corr.Case{}, fmt.Errorf("pdalloc: threads did not finish")
	}
	_ = in.store.Close()
	if failed {
		return corr.Case{}, fmt.Errorf("pdalloc: request failed")
	}
	if imgErr != nil {
		return corr.Case{}, imgErr
	}
	in2, err := pdOpen(dir2, d.IDStart2, d.TSStart2, nil)
	if err != nil {
		return corr.Case{}, err
	}
	id0, ts0 := in2.ids.Current(), in2.ts.Current()
	var firsts []string
	for _, r := range d.Reqs2 {
		f, _, err := in2.call(r)
		if err != nil {
			return corr.Case{}, err
		}
		firsts = append(firsts, fmt.Sprint(f))
	}
	cid, cts := pdCheckpoint(dir2)
	_ = in2.store.Close()
	head := fmt.Sprintf("Cs %d %d %s", d.IDStart, d.TSStart, reqTerm(d.Reqs))
	if len(d.Fail) > 0 {
		fl := make([]string, len(d.Fail))
		for i, f := range d.Fail {
			fl[i] = corr.Bool(f)
		}
		head = fmt.Sprintf("Cf %d %d %s %s", d.IDStart, d.TSStart, reqTerm(d.Reqs), corr.List(fl))
	}
	term := fmt.Sprintf("%s %s %s (Cr %d %d %s %d %d %s %d %d)", head, corr.List(steps),
		corr.List(images), d.IDStart2, d.TSStart2, reqTerm(d.Reqs2), id0, ts0, corr.List(firsts), cid, cts)
	return corr.Case{Coq: term, Nontrivial: interleaved, Desc: d}, nil
}

func genPdReqs(c *corr.Ctx, n int) []pdReq {
	out := make([]pdReq, n)
	for i := range out {
		out[i] = pdReq{Kind: c.Rng.Intn(2), Count: uint64(c.Rng.Intn(4))} // count 0 means 1
	}
	return out
}

func runPdAlloc(c *corr.Ctx) error {
	c.Meta("run_module", "RunPdAlloc")
	c.Meta("rule", "2..3 concurrent Tso/AllocID requests (counts 0..3, both kinds) on a real LocalStore under the controlled scheduler; schedules: every word of length b over the threads (b=7 for 2 threads, 6 for 3 threads; thorough 10 / 8), random block schedules, optionally drained; then the directory is copied (crash) and a second service is started from the copy with random start flags and serves 1..3 requests. Compared after every grant: ran, yield point, both counters, checkpoint file content, response; after restart: counters, responses, checkpoint. non-trivial = the crash happened while some request was between reserve and its response")
	c.Meta("exhaustive", true)
	c.Meta("exhaustive_scope", "all schedule prefixes up to the bound for two fixed request mixes (Tso+Tso, Tso+AllocID+Tso)")
	base := c.Out
	emit := func(d pdDesc) error {
		cs, err := pdCase(base, d)
		if err != nil {
			return err
		}
		if cs.Nontrivial {
			c.Count("crash_mid_request")
		}
		c.Emit(cs)
		return nil
	}
	if c.Replay != "" {
		cases, err := c.ReplayCases()
		if err != nil {
			return err
		}
		for _, cs := range cases {
			var d pdDesc
			b, _ := json.Marshal(cs.Desc)
			var bd bootDesc
			if json.Unmarshal(b, &bd) == nil && bd.Boot {
				bin, err := buildNokv(c.Out)
				if err != nil {
					return err
				}
				bc, err := pdBootCase(bin, base, bd)
				if err != nil {
					return err
				}
				c.Emit(bc)
				continue
			}
			if err := json.Unmarshal(b, &d); err != nil {
				return err
			}
			if err := emit(d); err != nil {
				return err
			}
		}
		return nil
	}
	// restart through the real `nokv pd` command (start-value resolution of cmd/nokv/pd.go)
	bin, err := buildNokv(c.Out)
	if err != nil {
		return err
	}
	// A start that cannot be observed (process too slow to come up under load, RPC timeout) is not an
	// observation of different behaviour: it is retried and, failing that, skipped and counted.
	observed := 0
	for _, bd := range bootDescs() {
		var bc corr.Case
		var err error
		for attempt := 0; attempt < 3; attempt++ {
			if bc, err = pdBootCase(bin, base, bd); err == nil {
				break
			}
			c.Count("command_restart_retry")
		}
		if err != nil {
			c.Count("command_restart_unobserved")
			c.Meta("command_restart_last_error", err.Error())
			continue
		}
		observed++
		c.Count("command_restart")
		c.Emit(bc)
	}
	if observed == 0 {
		return fmt.Errorf("pdalloc: no restart through the real command could be observed")
	}
	os.Remove(bin)
	var ferr error
	b2, b3 := c.Scale(7, 10), c.Scale(6, 8)
	if c.Tier == "search" {
		b2, b3 = 9, 7
	}
	mix2 := []pdReq{{Kind: 1, Count: 1}, {Kind: 1, Count: 2}}
	mix3 := []pdReq{{Kind: 1, Count: 1}, {Kind: 0, Count: 2}, {Kind: 1, Count: 1}}
	after := []pdReq{{Kind: 1, Count: 1}, {Kind: 0, Count: 1}}
	sched.Prefixes(2, b2, func(w []int) bool {
		c.Count("prefix2")
		ferr = emit(pdDesc{IDStart: 1, TSStart: 1, Reqs: mix2, Schedule: w, IDStart2: 1, TSStart2: 1, Reqs2: after})
		return ferr == nil
	})
	if ferr != nil {
		return ferr
	}
	sched.Prefixes(3, b3, func(w []int) bool {
		c.Count("prefix3")
		ferr = emit(pdDesc{IDStart: 1, TSStart: 1, Reqs: mix3, Schedule: w, IDStart2: 1, TSStart2: 1, Reqs2: after})
		return ferr == nil
	})
	if ferr != nil {
		return ferr
	}
	// a checkpoint write fails (I/O error on the temporary file): the request returns an error and
	// the next checkpoint must still be written
	for _, fl := range [][]bool{{true, false}, {false, true}} {
		fl := fl
		sched.Prefixes(2, c.Scale(6, 9), func(w []int) bool {
			c.Count("failing_write_prefix")
			ferr = emit(pdDesc{IDStart: 1, TSStart: 1, Reqs: mix2, Fail: fl, Schedule: append([]int{0, 1}, w...), Drain: true, IDStart2: 1, TSStart2: 1, Reqs2: after})
			return ferr == nil
		})
		if ferr != nil {
			return ferr
		}
	}
	for i := 0; i < c.Scale(100, 1000); i++ {
		n := 2 + c.Rng.Intn(2)
		d := pdDesc{IDStart: 1, TSStart: 1, Reqs: genPdReqs(c, n), Fail: make([]bool, n), IDStart2: 1, TSStart2: 1, Reqs2: genPdReqs(c, 1+c.Rng.Intn(2)),
			Schedule: sched.RandomBlocks(c.Rng, n, 2+c.Rng.Intn(6*n), 4), Drain: c.Rng.Intn(3) > 0}
		d.Fail[c.Rng.Intn(n)] = true
		c.Count("failing_write_random")
		if err := emit(d); err != nil {
			return err
		}
	}
	// a request is granted at persistMu.Lock while another one holds the mutex
	for i := 0; i < c.Scale(150, 1500); i++ {
		n := 2 + c.Rng.Intn(2)
		d := pdDesc{IDStart: 1, TSStart: 1, Reqs: genPdReqs(c, n), IDStart2: 1, TSStart2: 1, Reqs2: genPdReqs(c, 1+c.Rng.Intn(2))}
		for k := 0; k < 2+c.Rng.Intn(3); k++ {
			d.Schedule = append(d.Schedule, 0)
		}
		d.Schedule = append(d.Schedule, 1, 101)
		for _, p := range sched.RandomBlocks(c.Rng, n, c.Rng.Intn(4*n), 4) {
			if c.Rng.Intn(6) == 0 {
				p += 100
			}
			d.Schedule = append(d.Schedule, p)
		}
		d.Drain = c.Rng.Intn(2) == 0
		c.Count("forced_lock")
		if err := emit(d); err != nil {
			return err
		}
	}
	starts := []uint64{0, 1, 1, 1, 2, 5, 100}
	for i := 0; i < c.Scale(400, 5000); i++ {
		n := 2 + c.Rng.Intn(2)
		d := pdDesc{IDStart: corr.Pick(c.Rng, starts), TSStart: corr.Pick(c.Rng, starts), Reqs: genPdReqs(c, n),
			Schedule: sched.RandomBlocks(c.Rng, n, 2+c.Rng.Intn(5*n), 4), Drain: c.Rng.Intn(4) == 0,
			IDStart2: corr.Pick(c.Rng, starts), TSStart2: corr.Pick(c.Rng, starts), Reqs2: genPdReqs(c, 1+c.Rng.Intn(3))}
		c.Count(fmt.Sprintf("random.n=%d", n))
		if err := emit(d); err != nil {
			return err
		}
	}
	return nil
}

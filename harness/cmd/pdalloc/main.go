// Harness binary for C27 (PD allocators and their checkpoint).
package main

import "verifharness/internal/corr"

func main() { corr.Main(map[string]corr.Family{"pdalloc": runPdAlloc}) }

package main

import (
	"bufio"
	"context"
	"fmt"
	"os"
	"os/exec"
	"path/filepath"
	"strings"
	"syscall"
	"time"

	"github.com/feichai0017/NoKV/pb"
	"google.golang.org/grpc"
	"google.golang.org/grpc/credentials/insecure"
	"verifharness/internal/corr"
)

// Restart through the real command: the harness builds cmd/nokv from the repository under test
// ($VERIF_REPO) and runs `nokv pd --addr 127.0.0.1:0 --workdir W [--id-start a --ts-start b]`
// twice on the same work directory. First incarnation: a few Tso/AllocID calls over gRPC, then
// SIGTERM. Second incarnation: the start values the command printed ("PD allocator starts") and
// the first Tso / AllocID it hands out. Start flags are left at their defaults or passed explicitly.

type bootDesc struct {
	Boot   bool   `json:"boot"`
	Pass1  bool   `json:"pass1"` // first incarnation passes --id-start/--ts-start explicitly
	ID1    uint64 `json:"id1"`
	TS1    uint64 `json:"ts1"`
	NTso   int    `json:"ntso"`
	NAlloc int    `json:"nalloc"`
	Pass2  bool   `json:"pass2"`
	ID2    uint64 `json:"id2"`
	TS2    uint64 `json:"ts2"`
}

func buildNokv(out string) (string, error) {
	repo := os.Getenv("VERIF_REPO")
	if repo == "" {
		repo = "/repo"
	}
	bin := filepath.Join(out, "nokv-under-test")
	cmd := exec.Command("go", "build", "-tags", "verif", "-o", bin, "./cmd/nokv")
	cmd.Dir = repo
	if b, err := cmd.CombinedOutput(); err != nil {
		return "", fmt.Errorf("build cmd/nokv: %v: %s", err, b)
	}
	return bin, nil
}

type pdProc struct {
	cmd     *exec.Cmd
	addr    string
	startID uint64
	startTS uint64
	hasLine bool
}

func startPD(bin, workdir string, pass bool, id, ts uint64) (*pdProc, error) {
	args := []string{"pd", "--addr", "127.0.0.1:0", "--workdir", workdir}
	if pass {
		args = append(args, "--id-start", fmt.Sprint(id), "--ts-start", fmt.Sprint(ts))
	}
	cmd := exec.Command(bin, args...)
	out, err := cmd.StdoutPipe()
	if err != nil {
		return nil, err
	}
	cmd.Stderr = os.Stderr
	if err := cmd.Start(); err != nil {
		return nil, err
	}
	p := &pdProc{cmd: cmd}
	ready := make(chan error, 1)
	go func() {
		sc := bufio.NewScanner(out)
		for sc.Scan() {
			line := sc.Text()
			if strings.HasPrefix(line, "PD allocator starts:") {
				if _, err := fmt.Sscanf(line, "PD allocator starts: id=%d ts=%d", &p.startID, &p.startTS); err == nil {
					p.hasLine = true
				}
			}
			if i := strings.Index(line, "listening on "); i >= 0 {
				p.addr = strings.TrimSpace(line[i+len("listening on "):])
				ready <- nil
				break
			}
		}
		for sc.Scan() {
		}
	}()
	select {
	case <-ready:
	case <-time.After(30 * time.Second):
		cmd.Process.Kill()
		cmd.Wait()
		return nil, fmt.Errorf("nokv pd did not start")
	}
	return p, nil
}

func (p *pdProc) stop() {
	p.cmd.Process.Signal(syscall.SIGTERM)
	done := make(chan struct{})
	go func() { p.cmd.Wait(); close(done) }()
	select {
	case <-done:
	case <-time.After(10 * time.Second):
		p.cmd.Process.Kill()
		<-done
	}
}

func pdBootCase(bin, base string, d bootDesc) (corr.Case, error) {
	root, err := os.MkdirTemp(base, "pdboot")
	if err != nil {
		return corr.Case{}, err
	}
	defer os.RemoveAll(root)
	w := filepath.Join(root, "w")
	ctx, cancel := context.WithTimeout(context.Background(), 60*time.Second)
	defer cancel()
	p1, err := startPD(bin, w, d.Pass1, d.ID1, d.TS1)
	if err != nil {
		return corr.Case{}, err
	}
	conn, err := grpc.NewClient(p1.addr, grpc.WithTransportCredentials(insecure.NewCredentials()))
	if err != nil {
		p1.stop()
		return corr.Case{}, err
	}
	cli := pb.NewPDClient(conn)
	var resp []string
	for i := 0; i < d.NTso; i++ {
		r, err := cli.Tso(ctx, &pb.TsoRequest{Count: uint64(1 + i%2)})
		if err != nil {
			conn.Close()
			p1.stop()
			return corr.Case{}, err
		}
		resp = append(resp, fmt.Sprintf("Rv 1 %d %d", r.GetTimestamp(), r.GetCount()))
	}
	for i := 0; i < d.NAlloc; i++ {
		r, err := cli.AllocID(ctx, &pb.AllocIDRequest{Count: uint64(1 + i%3)})
		if err != nil {
			conn.Close()
			p1.stop()
			return corr.Case{}, err
		}
		resp = append(resp, fmt.Sprintf("Rv 0 %d %d", r.GetFirstId(), r.GetCount()))
	}
	conn.Close()
	p1.stop()
	cid, cts := pdCheckpoint(w)
	p2, err := startPD(bin, w, d.Pass2, d.ID2, d.TS2)
	if err != nil {
		return corr.Case{}, err
	}
	defer p2.stop()
	if !p2.hasLine {
		return corr.Case{}, fmt.Errorf("nokv pd did not print its allocator starts")
	}
	conn2, err := grpc.NewClient(p2.addr, grpc.WithTransportCredentials(insecure.NewCredentials()))
	if err != nil {
		return corr.Case{}, err
	}
	defer conn2.Close()
	cli2 := pb.NewPDClient(conn2)
	rt, err := cli2.Tso(ctx, &pb.TsoRequest{Count: 1})
	if err != nil {
		return corr.Case{}, err
	}
	ri, err := cli2.AllocID(ctx, &pb.AllocIDRequest{Count: 1})
	if err != nil {
		return corr.Case{}, err
	}
	id2, ts2 := uint64(1), uint64(1) // flag defaults of `nokv pd`
	if d.Pass2 {
		id2, ts2 = d.ID2, d.TS2
	}
	d.Boot = true
	term := fmt.Sprintf("CsBoot %s %d %d %d %d %d %d %d %d", corr.List(resp), cid, cts, id2, ts2, p2.startID, p2.startTS, ri.GetFirstId(), rt.GetTimestamp())
	return corr.Case{Coq: term, Nontrivial: cid > 0 || cts > 0, Desc: d}, nil
}

func bootDescs() []bootDesc {
	return []bootDesc{
		{NTso: 3, NAlloc: 2}, // defaults on both starts
		{NTso: 3, NAlloc: 2, Pass2: true, ID2: 1, TS2: 100}, // the documented launch line, restart below the checkpoint
		{Pass1: true, ID1: 1, TS1: 100, NTso: 4, NAlloc: 1, Pass2: true, ID2: 1, TS2: 100},
		{NTso: 2, NAlloc: 2, Pass2: true, ID2: 500, TS2: 700}, // explicit flags above the checkpoint
		{NTso: 0, NAlloc: 0, Pass2: true, ID2: 7, TS2: 9},     // no checkpoint content
		{Pass1: true, ID1: 50, TS1: 60, NTso: 2, NAlloc: 2, Pass2: true, ID2: 0, TS2: 0},
	}
}

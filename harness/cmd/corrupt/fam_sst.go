package main

import (
	"bytes"
	"encoding/hex"
	"fmt"
	"os"
	"strings"

	"github.com/feichai0017/NoKV/kv"
	"github.com/feichai0017/NoKV/lsm"
	"github.com/feichai0017/NoKV/utils"
	"verifharness/internal/corr"
)

// C14, SST part: flip every bit of a small table file and read it back through the real
// table path (openTable, index checksum, loadBlock, Search, iterator) via lsm's verif hooks.

type sstEnt struct {
	K string `json:"k"` // hex internal key
	V string `json:"v"`
	M uint8  `json:"m"`
	X uint64 `json:"x"`
}

func entTerm(k, v []byte, m uint8, x uint64) string {
	return fmt.Sprintf("(%s, %s, %d, %d)", hx(k), hx(v), m, x)
}

// sstRead opens table fid of dir with a fresh environment, Searches every built key and
// iterates the table forward. perKey[i] is "(KFound <entry>)", "KNotFound" or "KErr".
// With warm = true the environment has a block cache and the two read-ahead paths run first
// (prefetchBlockForKey for every built key; a forward iterator with PrefetchBlocks = 2), with a
// barrier on the cache after each: whatever they left in the cache is what Search / iteration see.
func sstRead(dir string, fid uint64, blockSize int, keys [][]byte, warm bool) (kind string, perKey []string, iter []string, blockErr bool) {
	defer func() {
		if r := recover(); r != nil {
			kind = "panic"
		}
	}()
	var env *lsm.VerifTableEnv
	if warm {
		env = lsm.VerifNewTableEnvCached(dir, blockSize, 0.01, 256)
	} else {
		env = lsm.VerifNewTableEnv(dir, blockSize, 0.01)
	}
	defer env.Close()
	st, err := env.VerifOpenTable(fid)
	if err != nil {
		if strings.HasPrefix(err.Error(), "panic:") {
			return "panic", nil, nil, false
		}
		return "openerr", nil, nil, false
	}
	defer st.CloseKeep()
	if warm {
		for _, k := range keys {
			if _, err := st.VerifPrefetchKey(k); err != nil {
				return "panic", nil, nil, false
			}
		}
		env.VerifCacheWait()
		out, err := st.VerifPrefetchIterate(2)
		if err != nil {
			return "panic", nil, nil, false
		}
		for _, e := range out { // what the read-ahead iterator itself served
			iter = append(iter, entTerm(e.Key, e.Value, e.Meta, e.ExpiresAt))
		}
		env.VerifCacheWait()
	}
	for _, k := range keys {
		e, found, _, err := st.Search(k, 0)
		switch {
		case err != nil && strings.HasPrefix(err.Error(), "panic:"):
			return "panic", nil, nil, false
		case err != nil:
			perKey = append(perKey, "KErr")
		case found:
			perKey = append(perKey, "(KFound "+entTerm(e.Key, e.Value, e.Meta, e.ExpiresAt)+")")
		default:
			perKey = append(perKey, "KNotFound")
		}
	}
	for _, e := range st.Iterate(true) {
		iter = append(iter, entTerm(e.Key, e.Value, e.Meta, e.ExpiresAt))
	}
	if _, err := st.Blocks(); err != nil {
		if strings.HasPrefix(err.Error(), "panic:") {
			return "panic", nil, nil, false
		}
		blockErr = true
	}
	return "read", perKey, iter, blockErr
}

// table shapes: (block size, number of entries, key format, value length): blocks of 1, 2, 3 and 4+ entries
var sstShapes = []struct {
	block, n, vlen int
}{{120, 6, 8}, {120, 9, 8}, {64, 5, 6}, {200, 11, 5}, {90, 6, 9}, {160, 7, 12}, {48, 4, 3}}

func sstFlipCases(c *corr.Ctx, root string) error {
	nt := c.Scale(1, 12)
	for i := 0; i < nt; i++ {
		sh := sstShapes[i%len(sstShapes)]
		dir, err := os.MkdirTemp(root, "sst")
		if err != nil {
			return err
		}
		var ents []lsm.VerifEntry
		var keys [][]byte
		var built []string
		for j := 0; j < sh.n; j++ {
			uk := []byte(fmt.Sprintf("key-%02d", j))
			k := kv.KeyWithTs(uk, uint64(1+c.Rng.Intn(3)))
			if i%2 == 1 {
				k = kv.InternalKey(kv.CFDefault, uk, uint64(5+c.Rng.Intn(3)))
			}
			v := bytes.Repeat([]byte{byte('a' + j)}, sh.vlen)
			copy(v, fmt.Sprintf("v%02d", j))
			e := lsm.VerifEntry{Key: k, Value: v, Meta: byte(c.Rng.Intn(2))}
			ents = append(ents, e)
			keys = append(keys, k)
			built = append(built, entTerm(e.Key, e.Value, e.Meta, e.ExpiresAt))
		}
		env := lsm.VerifNewTableEnv(dir, sh.block, 0.01)
		st, err := env.VerifBuildTable(1, ents)
		if err != nil {
			return err
		}
		blocks, err := st.Blocks()
		if err != nil {
			return err
		}
		var blockOf []int
		for bi, b := range blocks {
			c.Count(fmt.Sprintf("sst_block_with_%d_entries", b.Entries))
			for k := 0; k < b.Entries; k++ {
				blockOf = append(blockOf, bi)
			}
		}
		if len(blockOf) != len(built) {
			return fmt.Errorf("sst: block index covers %d entries, built %d", len(blockOf), len(built))
		}
		if err := st.CloseKeep(); err != nil {
			return err
		}
		env.Close()
		path := utils.FileNameSSTable(dir, 1)
		orig, err := os.ReadFile(path)
		if err != nil {
			return err
		}
		// the intact table must serve exactly what was built
		kind, perKey, iter, berr := sstRead(dir, 1, sh.block, keys, false)
		if kind != "read" || len(iter) != len(built) || berr {
			return fmt.Errorf("sst: intact table unreadable: %s (%d of %d entries)", kind, len(iter), len(built))
		}
		for j := range built {
			if perKey[j] != "(KFound "+built[j]+")" || iter[j] != built[j] {
				return fmt.Errorf("sst: intact table does not serve built entry %d: %s / %s vs %s", j, perKey[j], iter[j], built[j])
			}
		}
		bt := make([]string, len(built))
		for j := range built {
			bt[j] = fmt.Sprintf("(%s, %d)", built[j], blockOf[j])
		}
		builtTerm := corr.List(bt)
		c.CountN("sst_file_bytes", len(orig))
		for bit := 0; bit < len(orig)*8; bit++ {
			// a new inode for every image: a table object of the previous image may still be mapped by a
			// read-ahead task that outlives its iterator (SST files are never rewritten in place by the store)
			_ = os.Remove(path)
			if err := os.WriteFile(path, flip(orig, bit), 0o644); err != nil {
				return err
			}
			opened := true
			for _, warm := range []bool{false, true} {
				tag := "sst_"
				if warm {
					if !opened { // the warm pass is for flipped files that open
						break
					}
					tag = "sstwarm_"
				}
				kind, perKey, iter, berr := sstRead(dir, 1, sh.block, keys, warm)
				opened = kind == "read"
				c.Count(tag + kind)
				obs := "TOpenErr"
				switch kind {
				case "panic":
					obs = "TPanic"
				case "read":
					obs = fmt.Sprintf("(TRead %s %s %s)", corr.List(perKey), corr.List(iter), corr.Bool(berr))
					if berr {
						c.Count(tag + "block_error_reported")
					}
					for _, pk := range perKey {
						switch {
						case pk == "KErr":
							c.Count(tag + "key_error")
						case pk == "KNotFound":
							c.Count(tag + "key_notfound")
						default:
							c.Count(tag + "key_found")
						}
					}
				}
				term := fmt.Sprintf("Ct %s %d %s", builtTerm, bit, obs)
				c.Emit(corr.Case{Coq: term, Nontrivial: true, Desc: crDesc{Kind: "sst", Orig: hex.EncodeToString(orig), Bit: bit}})
			}
		}
		os.RemoveAll(dir)
	}
	return nil
}

package main

import (
	"bytes"
	"encoding/hex"
	"fmt"
	"os"
	"strings"

	"github.com/feichai0017/NoKV/kv"
	"github.com/feichai0017/NoKV/lsm"
	"github.com/feichai0017/NoKV/utils"
	"verifharness/internal/corr"
)

// C14, SST part: flip every bit of a small table file and read it back through the real
// table path (openTable, index checksum, loadBlock, Search, iterator) via lsm's verif hooks.

type sstEnt struct {
	K string `json:"k"` // hex internal key
	V string `json:"v"`
	M uint8  `json:"m"`
	X uint64 `json:"x"`
}

func entTerm(k, v []byte, m uint8, x uint64) string {
	return fmt.Sprintf("(%s, %s, %d, %d)", hx(k), hx(v), m, x)
}

// readAll opens table fid of dir with a fresh environment and collects every entry that
// Search (for each original key) and a forward iteration deliver.
func sstRead(dir string, fid uint64, keys [][]byte) (kind string, ents []string, nerr int) {
	defer func() {
		if r := recover(); r != nil {
			kind = "panic"
		}
	}()
	env := lsm.VerifNewTableEnv(dir, 64, 0.01)
	defer env.Close()
	st, err := env.VerifOpenTable(fid)
	if err != nil {
		if strings.HasPrefix(err.Error(), "panic:") {
			return "panic", nil, 0
		}
		return "openerr", nil, 0
	}
	defer st.CloseKeep()
	seen := map[string]bool{}
	add := func(e lsm.VerifEntry) {
		t := entTerm(e.Key, e.Value, e.Meta, e.ExpiresAt)
		if !seen[t] {
			seen[t] = true
			ents = append(ents, t)
		}
	}
	for _, k := range keys {
		e, found, _, err := st.Search(k, 0)
		if err != nil {
			if strings.HasPrefix(err.Error(), "panic:") {
				return "panic", ents, nerr
			}
			nerr++
			continue
		}
		if found {
			add(e)
		}
	}
	for _, e := range st.Iterate(true) {
		add(e)
	}
	return "read", ents, nerr
}

func sstFlipCases(c *corr.Ctx, root string) error {
	nt := c.Scale(1, 12)
	for i := 0; i < nt; i++ {
		dir, err := os.MkdirTemp(root, "sst")
		if err != nil {
			return err
		}
		var ents []lsm.VerifEntry
		var keys [][]byte
		n := 4 + c.Rng.Intn(3)
		for j := 0; j < n; j++ {
			uk := []byte(fmt.Sprintf("k%02d", j*2))
			k := kv.InternalKey(kv.CFDefault, uk, uint64(5+c.Rng.Intn(3)))
			v := bytes.Repeat([]byte{byte('a' + j)}, 3+c.Rng.Intn(12))
			// value struct encoding is what a table stores
			vs := kv.ValueStruct{Meta: byte(c.Rng.Intn(2)), Value: v, ExpiresAt: 0}
			buf := make([]byte, vs.EncodedSize())
			vs.EncodeValue(buf)
			ents = append(ents, lsm.VerifEntry{Key: k, Value: v, Meta: vs.Meta})
			keys = append(keys, k)
		}
		env := lsm.VerifNewTableEnv(dir, 64, 0.01)
		st, err := env.VerifBuildTable(1, ents)
		if err != nil {
			return err
		}
		base, _, _ := func() (string, []string, int) { return "", nil, 0 }()
		_ = base
		if err := st.CloseKeep(); err != nil {
			return err
		}
		env.Close()
		path := utils.FileNameSSTable(dir, 1)
		orig, err := os.ReadFile(path)
		if err != nil {
			return err
		}
		// what the uncorrupted table delivers (reference set)
		kind, ref, _ := sstRead(dir, 1, keys)
		if kind != "read" {
			return fmt.Errorf("sst: clean table unreadable: %s", kind)
		}
		refTerm := corr.List(ref)
		c.CountN("sst_file_bytes", len(orig))
		for bit := 0; bit < len(orig)*8; bit++ {
			if err := os.WriteFile(path, flip(orig, bit), 0o644); err != nil {
				return err
			}
			kind, got, nerr := sstRead(dir, 1, keys)
			c.Count("sst_" + kind)
			obs := "TOpenErr"
			switch kind {
			case "panic":
				obs = "TPanic"
			case "read":
				obs = fmt.Sprintf("(TRead %s %d)", corr.List(got), nerr)
				if len(got) < len(ref) {
					c.Count("sst_read_fewer_entries")
				}
			}
			term := fmt.Sprintf("Ct %s %d %s", refTerm, bit, obs)
			c.Emit(corr.Case{Coq: term, Nontrivial: true, Desc: crDesc{Kind: "sst", Orig: hex.EncodeToString(orig), Bit: bit}})
		}
		os.RemoveAll(dir)
	}
	return nil
}

// Harness binary for C14 (single-bit corruption of WAL segments and entry records).
package main

import "verifharness/internal/corr"

func main() { corr.Main(map[string]corr.Family{"corrupt": runCorrupt}) }

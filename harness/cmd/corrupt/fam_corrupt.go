package main

import (
	"bytes"
	"encoding/hex"
	"encoding/json"
	"errors"
	"fmt"
	"io"
	"os"
	"path/filepath"
	"strings"

	"github.com/feichai0017/NoKV/kv"
	"github.com/feichai0017/NoKV/wal"
	"verifharness/internal/corr"
)

type crRec struct {
	Ty uint8  `json:"ty"`
	P  string `json:"p"` // hex
}

type crDesc struct {
	Kind string  `json:"kind"` // wal | entry
	Recs []crRec `json:"recs,omitempty"`
	K    int     `json:"k,omitempty"`
	Orig string  `json:"orig"`
	Bit  int     `json:"bit"`
}

func hx(b []byte) string { return "(H " + corr.Hex(b) + ")" }

func errCode(err error) int {
	if err == nil {
		return 0
	}
	m := err.Error()
	switch {
	case strings.Contains(m, "checksum mismatch"):
		return 1
	case strings.Contains(m, "empty record"):
		return 2
	}
	return 9
}

func flip(b []byte, bit int) []byte {
	out := append([]byte(nil), b...)
	out[bit/8] ^= 1 << uint(bit%8)
	return out
}

func walFlipCase(c *corr.Ctx, root string, recs []crRec, orig []byte, bit int) (corr.Case, error) {
	dir, err := os.MkdirTemp(root, "w")
	if err != nil {
		return corr.Case{}, err
	}
	defer os.RemoveAll(dir)
	if err := os.WriteFile(filepath.Join(dir, "00001.wal"), flip(orig, bit), 0o644); err != nil {
		return corr.Case{}, err
	}
	m, err := wal.Open(wal.Config{Dir: dir})
	if err != nil {
		return corr.Case{}, err
	}
	var items []string
	n := 0
	rerr := m.Replay(func(info wal.EntryInfo, p []byte) error {
		items = append(items, fmt.Sprintf("(%d, %d, %d, %s)", info.SegmentID, info.Offset, info.Type, hx(p)))
		n++
		return nil
	})
	m.Close()
	verr := wal.VerifyDir(dir, nil)
	var rs []string
	for _, r := range recs {
		p, _ := hex.DecodeString(r.P)
		rs = append(rs, fmt.Sprintf("(%d, %s)", r.Ty, hx(p)))
	}
	term := fmt.Sprintf("Cw %s %s %d (%s, %d) %d", hx(orig), corr.List(rs), bit, corr.List(items), errCode(rerr), errCode(verr))
	switch {
	case rerr != nil:
		c.Count("wal_replay_error")
	case n < len(recs):
		c.Count("wal_tail_dropped")
	default:
		c.Count("wal_all_delivered")
	}
	return corr.Case{Coq: term, Nontrivial: true, Desc: crDesc{Kind: "wal", Recs: recs, Orig: hex.EncodeToString(orig), Bit: bit}}, nil
}

func flatTerm(n []uint64, b [][]byte) string {
	bs := make([]string, len(b))
	for i, x := range b {
		bs[i] = "H " + corr.Hex(x)
	}
	return fmt.Sprintf("(%s, %s)", corr.ListN(n), corr.List(bs))
}

func decodeEntryObs(k int, in []byte) (res string) {
	defer func() {
		if r := recover(); r != nil {
			res = "OPanic"
		}
	}()
	if k == 1 {
		r := bytes.NewReader(in)
		e, n, err := kv.DecodeEntryFrom(r)
		if err != nil {
			switch {
			case errors.Is(err, io.EOF):
				return "(OErr 1)"
			case errors.Is(err, kv.ErrPartialEntry):
				return "(OErr 2)"
			case errors.Is(err, kv.ErrBadChecksum):
				return "(OErr 3)"
			}
			return "(OErr 4)"
		}
		defer e.DecrRef()
		return "(OVal " + flatTerm([]uint64{uint64(e.Meta), e.ExpiresAt, uint64(n), uint64(r.Len())}, [][]byte{e.Key, e.Value}) + ")"
	}
	v, h, err := kv.DecodeValueSlice(in)
	if err != nil {
		switch {
		case errors.Is(err, io.ErrUnexpectedEOF):
			return "(OErr 1)"
		case errors.Is(err, kv.ErrBadChecksum):
			return "(OErr 3)"
		}
		return "(OErr 2)"
	}
	return "(OVal " + flatTerm([]uint64{uint64(h.KeyLen), uint64(h.ValueLen), uint64(h.Meta), h.ExpiresAt}, [][]byte{v}) + ")"
}

func entryFlipCase(c *corr.Ctx, k int, orig []byte, bit int) corr.Case {
	origObs := decodeEntryObs(k, orig)
	origVal := strings.TrimSuffix(strings.TrimPrefix(origObs, "(OVal "), ")")
	obs := decodeEntryObs(k, flip(orig, bit))
	if strings.HasPrefix(obs, "(OVal") {
		c.Count("entry_accepted_after_flip")
	} else {
		c.Count("entry_rejected")
	}
	term := fmt.Sprintf("Cv %d %s %d %s %s", k, hx(orig), bit, obs, origVal)
	return corr.Case{Coq: term, Nontrivial: true, Desc: crDesc{Kind: "entry", K: k, Orig: hex.EncodeToString(orig), Bit: bit}}
}

func runCorrupt(c *corr.Ctx) error {
	c.Meta("run_module", "RunCorrupt")
	c.Meta("rule", "every single-bit flip (exhaustive over all bytes: length words, type, payload, checksum) of small WAL segments (2-3 records) replayed through wal.Manager.Replay and checked by wal.VerifyDir; every single-bit flip of entry records (varint header, key, value, checksum) decoded by kv.DecodeEntryFrom and kv.DecodeValueSlice (the record codec of vlog/io.go and of WAL payloads). Compared with the model's decode of the same flipped bytes (real CRC-32C in Coq): records delivered, error class. Oracle: what is delivered is a prefix of what was written / equals the original entry; never a panic")
	root, err := os.MkdirTemp(os.Getenv("VERIF_TMP"), "corrupt")
	if err != nil {
		return err
	}
	defer os.RemoveAll(root)

	if c.Replay != "" {
		cs, err := c.ReplayCases()
		if err != nil {
			return err
		}
		for _, rc := range cs {
			var d crDesc
			b, _ := json.Marshal(rc.Desc)
			if err := json.Unmarshal(b, &d); err != nil {
				return err
			}
			orig, _ := hex.DecodeString(d.Orig)
			if d.Kind == "sst" {
				// an SST case is re-run by regenerating the family (the table is built by the code
				// under test); nothing to replay from bytes alone
				continue
			}
			if d.Kind == "wal" {
				cs, err := walFlipCase(c, root, d.Recs, orig, d.Bit)
				if err != nil {
					return err
				}
				c.Emit(cs)
			} else {
				c.Emit(entryFlipCase(c, d.K, orig, d.Bit))
			}
		}
		return nil
	}

	pick := func(max int) []byte {
		n := c.Rng.Intn(max + 1)
		b := make([]byte, n)
		for i := range b {
			b[i] = corr.Pick(c.Rng, []byte{0, 1, 0x7f, 0x80, 0xff, 'k', byte(c.Rng.Intn(256))})
		}
		return b
	}
	// WAL segments
	nw := c.Scale(2, 40)
	for i := 0; i < nw; i++ {
		var recs []crRec
		var buf bytes.Buffer
		for j, n := 0, 2+c.Rng.Intn(2); j < n; j++ {
			p := pick(6)
			ty := uint8(c.Rng.Intn(4))
			recs = append(recs, crRec{Ty: ty, P: hex.EncodeToString(p)})
			if _, err := wal.EncodeRecord(&buf, wal.RecordType(ty), p); err != nil {
				return err
			}
		}
		orig := buf.Bytes()
		for bit := 0; bit < len(orig)*8; bit++ {
			cs, err := walFlipCase(c, root, recs, orig, bit)
			if err != nil {
				return err
			}
			c.Emit(cs)
		}
	}
	// entry records
	ne := c.Scale(3, 60)
	for i := 0; i < ne; i++ {
		e := &kv.Entry{Key: pick(5), Value: pick(8), Meta: byte(c.Rng.Intn(256)), ExpiresAt: corr.Pick(c.Rng, []uint64{0, 1, 127, 128, 1 << 40})}
		if len(e.Key) == 0 {
			e.Key = []byte{'k'}
		}
		orig, err := kv.EncodeEntry(nil, e)
		if err != nil {
			return err
		}
		orig = append([]byte(nil), orig...)
		for bit := 0; bit < len(orig)*8; bit++ {
			for _, k := range []int{1, 2} {
				c.Emit(entryFlipCase(c, k, orig, bit))
			}
		}
	}
	if err := sstFlipCases(c, root); err != nil {
		return err
	}
	c.Meta("exhaustive", true)
	c.Meta("exhaustive_scope", "all single-bit flip positions of each generated WAL segment, entry record and SST file")
	return nil
}

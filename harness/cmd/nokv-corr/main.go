// nokv-corr runs one correspondence family against the NoKV implementation
// built from /repo's working tree and writes cases.jsonl + meta.json.
package main

import (
	"flag"
	"fmt"
	"os"
	"strconv"

	"verifharness/internal/corr"
)

type family func(c *corr.Ctx) error

var families = map[string]family{}

func register(name string, f family) { families[name] = f }

func main() {
	if len(os.Args) < 2 {
		fmt.Fprintln(os.Stderr, "usage: nokv-corr <family> --prop Cxx --seed N --tier quick|thorough|search --out DIR [--replay FILE]")
		os.Exit(2)
	}
	fam := os.Args[1]
	fs := flag.NewFlagSet("nokv-corr", flag.ExitOnError)
	prop := fs.String("prop", "", "property id")
	seedS := fs.String("seed", "1", "seed")
	tier := fs.String("tier", "quick", "tier")
	out := fs.String("out", "", "output directory")
	replay := fs.String("replay", "", "replay file")
	fs.Parse(os.Args[2:])
	seed, err := strconv.ParseInt(*seedS, 10, 64)
	if err != nil {
		seed = 1
	}
	f, ok := families[fam]
	if !ok {
		fmt.Fprintf(os.Stderr, "unknown family %q\n", fam)
		os.Exit(2)
	}
	ctx, err := corr.NewCtx(*prop, *tier, seed, *out, *replay)
	if err != nil {
		fmt.Fprintln(os.Stderr, err)
		os.Exit(2)
	}
	if err := f(ctx); err != nil {
		fmt.Fprintln(os.Stderr, "harness error:", err)
		os.Exit(3)
	}
	if err := ctx.Close(); err != nil {
		fmt.Fprintln(os.Stderr, err)
		os.Exit(2)
	}
}

package main

import (
	"fmt"
	"strings"

	"github.com/feichai0017/NoKV/config"
	"verifharness/internal/corr"
)

// C38: config.File.Validate.

func classifyConfigErr(err error) string {
	if err == nil {
		return "ObsOk"
	}
	m := err.Error()
	switch {
	case strings.Contains(m, "store_work_dir_template must contain"):
		return "(ObsErr ErrTmpl)"
	case strings.Contains(m, "store_docker_work_dir_template must contain"):
		return "(ObsErr ErrDockerTmpl)"
	case strings.Contains(m, "store_id must be > 0"):
		return "(ObsErr ErrStoreZero)"
	case strings.Contains(m, "duplicate store_id"):
		return "(ObsErr ErrStoreDup)"
	case strings.Contains(m, "region id must be > 0"):
		return "(ObsErr ErrRegionZero)"
	case strings.Contains(m, "leader store"):
		return "(ObsErr ErrLeaderMissing)"
	case strings.Contains(m, "peer requires"):
		return "(ObsErr ErrPeerZero)"
	case strings.Contains(m, "references unknown store"):
		return "(ObsErr ErrPeerUnknown)"
	}
	return "ObsOther"
}

func configCase(f *config.File) corr.Case {
	err := f.Validate()
	var regions []string
	for _, r := range f.Regions {
		var ps []string
		for _, p := range r.Peers {
			ps = append(ps, fmt.Sprintf("P %d %d", p.StoreID, p.PeerID))
		}
		regions = append(regions, fmt.Sprintf("R %d %d %s", r.ID, r.LeaderStoreID, corr.List(ps)))
	}
	var stores []uint64
	for _, s := range f.Stores {
		stores = append(stores, s.StoreID)
	}
	term := fmt.Sprintf("Cs (F %s %s %s %s) %s", corr.Hex([]byte(f.StoreWorkDirTemplate)),
		corr.Hex([]byte(f.StoreDockerWorkDirTemplate)), corr.ListN(stores), corr.List(regions), classifyConfigErr(err))
	nontrivial := len(f.Stores) > 0 || len(f.Regions) > 0 || f.StoreWorkDirTemplate != "" || f.StoreDockerWorkDirTemplate != ""
	return corr.Case{Coq: term, Nontrivial: nontrivial, Desc: map[string]any{"file": f, "error": fmt.Sprint(err)}}
}

var configTemplates = []string{"", " ", "x", "{id}", " a{id} ", "\t\n", "{id", " ", "  　", " x", "é", "\xc2", " {ID} ", "{id}{id}", "a "}

func runConfig(c *corr.Ctx) error {
	c.Meta("run_module", "RunConfig")
	c.Meta("rule", "exhaustive grid: ids in {0,1,2}, <=2 stores, <=1 region (id in {0,1}, leader in {0,1,2}, <=2 peers), 5 templates on either field; plus random larger topologies with ids in {0..5} and 15 templates incl. Unicode white space. non-trivial = topology has at least one store, region or template; distinct by Gallina term")
	ids := []uint64{0, 1, 2}
	// exhaustive grid
	var storeLists [][]uint64
	storeLists = append(storeLists, nil)
	for _, a := range ids {
		storeLists = append(storeLists, []uint64{a})
		for _, b := range ids {
			storeLists = append(storeLists, []uint64{a, b})
		}
	}
	var peerLists [][]config.Peer
	peerLists = append(peerLists, nil)
	var peers []config.Peer
	for _, s := range ids {
		for _, p := range []uint64{0, 1} {
			peers = append(peers, config.Peer{StoreID: s, PeerID: p})
		}
	}
	for _, a := range peers {
		peerLists = append(peerLists, []config.Peer{a})
	}
	for _, a := range peers {
		for _, b := range peers {
			peerLists = append(peerLists, []config.Peer{a, b})
		}
	}
	var regions []config.Region
	for _, id := range []uint64{0, 1} {
		for _, l := range ids {
			for _, ps := range peerLists {
				regions = append(regions, config.Region{ID: id, LeaderStoreID: l, Peers: ps})
			}
		}
	}
	mk := func(t, d string, ss []uint64, rs []config.Region) *config.File {
		f := &config.File{StoreWorkDirTemplate: t, StoreDockerWorkDirTemplate: d, Regions: rs}
		for _, s := range ss {
			f.Stores = append(f.Stores, config.Store{StoreID: s})
		}
		return f
	}
	grid := 0
	// one region over every store list (complete), two regions sampled in quick tier
	for _, ss := range storeLists {
		c.Emit(configCase(mk("", "", ss, nil)))
		grid++
		for _, r := range regions {
			c.Emit(configCase(mk("", "", ss, []config.Region{r})))
			grid++
		}
	}
	for _, t := range configTemplates[:5] {
		for _, d := range configTemplates[:5] {
			for _, ss := range [][]uint64{nil, {1}, {0}} {
				c.Emit(configCase(mk(t, d, ss, nil)))
				grid++
				if len(ss) > 0 {
					f := mk(t, d, ss, nil)
					for i := range f.Stores {
						f.Stores[i].WorkDir = "/data/s"
						f.Stores[i].DockerWorkDir = "/docker/s"
					}
					c.Emit(configCase(f))
					grid++
				}
			}
		}
	}
	c.CountN("grid_cases", grid)
	c.Meta("exhaustive", true)
	c.Meta("exhaustive_scope", "every topology with <=2 stores over ids {0,1,2} and <=1 region (id in {0,1}, leader in {0,1,2}, <=2 peers over store {0,1,2} x peer {0,1}); every pair of the first 5 templates")
	// random larger ones (two regions, more ids, Unicode templates)
	n := c.Scale(1500, 40000)
	for i := 0; i < n; i++ {
		f := &config.File{}
		if c.Rng.Intn(3) == 0 {
			f.StoreWorkDirTemplate = corr.Pick(c.Rng, configTemplates)
		}
		if c.Rng.Intn(3) == 0 {
			f.StoreDockerWorkDirTemplate = corr.Pick(c.Rng, configTemplates)
		}
		for j, ns := 0, c.Rng.Intn(5); j < ns; j++ {
			id := uint64(c.Rng.Intn(6))
			if c.Rng.Intn(4) != 0 && id == 0 {
				id = uint64(j + 1)
			}
			st := config.Store{StoreID: id}
			// fields Validate must not depend on
			if c.Rng.Intn(2) == 0 {
				st.WorkDir = corr.Pick(c.Rng, []string{"/data/s", " ", "/d/{id}"})
			}
			if c.Rng.Intn(3) == 0 {
				st.DockerWorkDir = "/docker/s"
			}
			if c.Rng.Intn(3) == 0 {
				st.Addr = "127.0.0.1:1"
			}
			f.Stores = append(f.Stores, st)
		}
		for j, nr := 0, c.Rng.Intn(4); j < nr; j++ {
			r := config.Region{ID: uint64(c.Rng.Intn(4))}
			if c.Rng.Intn(3) != 0 && r.ID == 0 {
				r.ID = uint64(j + 1)
			}
			pickStore := func() uint64 {
				if len(f.Stores) > 0 && c.Rng.Intn(5) != 0 {
					return f.Stores[c.Rng.Intn(len(f.Stores))].StoreID
				}
				return uint64(c.Rng.Intn(7))
			}
			if c.Rng.Intn(2) == 0 {
				r.LeaderStoreID = pickStore()
			}
			for k, np := 0, c.Rng.Intn(4); k < np; k++ {
				pid := uint64(c.Rng.Intn(5))
				if c.Rng.Intn(4) != 0 && pid == 0 {
					pid = uint64(k + 1)
				}
				r.Peers = append(r.Peers, config.Peer{StoreID: pickStore(), PeerID: pid})
			}
			f.Regions = append(f.Regions, r)
		}
		cs := configCase(f)
		if f.Validate() == nil {
			c.Count("random_accepted")
		} else {
			c.Count("random_rejected")
		}
		c.Emit(cs)
	}
	return nil
}

// Harness binary for C38 (config validation).
package main

import "verifharness/internal/corr"

func main() { corr.Main(map[string]corr.Family{"config": runConfig}) }

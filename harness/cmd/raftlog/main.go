// Harness binary for C21 (raft WAL storage survives a process crash).
package main

import "verifharness/internal/corr"

func main() { corr.Main(map[string]corr.Family{"raftlog": runRaftlog}) }

package main

import (
	"encoding/json"
	"errors"
	"fmt"
	"io"
	"math"
	"os"
	"path/filepath"
	"strings"

	"github.com/feichai0017/NoKV/manifest"
	myraft "github.com/feichai0017/NoKV/raft"
	"github.com/feichai0017/NoKV/raftstore/engine"
	"github.com/feichai0017/NoKV/wal"
	"verifharness/internal/corr"
)

// C21: WALStorage.Append / SetHardState / ApplySnapshot / MaybeCompact on a
// real wal.Manager + manifest; crash image = copy of the directory taken
// without flushing or closing anything; reopen = VerifyDir + wal.Open +
// manifest.Open + OpenWALStorage on the copy.

type rlEntry struct {
	T uint64 `json:"t"`
	D uint64 `json:"d"`
}

// rlOp is one operation of a history (also the replayable description).
type rlOp struct {
	K     string    `json:"k"` // hs | app | snap | compact | flsm | fill | fhs | fapp | crash
	Pad   int       `json:"pad,omitempty"` // extra payload bytes per entry / LSM record / snapshot (forces size-based WAL rotation)
	Term  uint64    `json:"term,omitempty"`
	Vote  uint64    `json:"vote,omitempty"`
	Com   uint64    `json:"com,omitempty"`
	First uint64    `json:"first,omitempty"`
	Ents  []rlEntry `json:"ents,omitempty"`
	Idx   uint64    `json:"idx,omitempty"`
}

func (o rlOp) coq() string {
	ents := func() string {
		s := make([]string, len(o.Ents))
		for i, e := range o.Ents {
			s[i] = fmt.Sprintf("(%d,%d)", e.T, e.D)
		}
		return corr.List(s)
	}
	switch o.K {
	case "hs":
		return fmt.Sprintf("(OHs (H %d %d %d))", o.Term, o.Vote, o.Com)
	case "app":
		return fmt.Sprintf("(OAppend %d %s)", o.First, ents())
	case "snap":
		return fmt.Sprintf("(OSnap %d %d)", o.Idx, o.Term)
	case "compact":
		return fmt.Sprintf("(OCompact %d)", o.Idx)
	case "flsm", "fill":
		return "(OForeign FLsm)"
	case "fhs":
		return fmt.Sprintf("(OForeign (FState (H %d %d %d)))", o.Term, o.Vote, o.Com)
	case "fapp":
		return fmt.Sprintf("(OForeign (FEntries %d %s))", o.First, ents())
	case "crash":
		return "(OCrash 0)"
	}
	panic("unknown op " + o.K)
}

func tokBytes(d uint64) []byte {
	if d == 0 {
		return nil
	}
	var b []byte
	for d > 0 {
		b = append([]byte{byte(d)}, b...)
		d >>= 8
	}
	return b
}

const padByte = 0xAB

// padded payload: one token byte followed by pad bytes (tokens of padded entries are < 256)
func padData(d uint64, pad int) []byte {
	if pad <= 0 {
		return tokBytes(d)
	}
	b := make([]byte, 1+pad)
	b[0] = byte(d)
	for i := 1; i < len(b); i++ {
		b[i] = padByte
	}
	return b
}

func bytesTok(b []byte) uint64 {
	if len(b) > 8 {
		for _, x := range b[1:] {
			if x != padByte {
				return math.MaxUint32
			}
		}
		return uint64(b[0])
	}
	var d uint64
	for _, x := range b {
		d = d<<8 | uint64(x)
	}
	return d
}

func mkEntries(first uint64, es []rlEntry, pad int) []myraft.Entry {
	out := make([]myraft.Entry, len(es))
	for i, e := range es {
		out[i] = myraft.Entry{Index: first + uint64(i), Term: e.T, Data: padData(e.D, pad)}
	}
	return out
}

// rlNode is one "process": the shared WAL manager, the manifest, and the two
// raft groups' storages living in dir.
type rlNode struct {
	dir string
	seg int64 // wal.Config.SegmentSize (0 = default 64 MiB)
	w   *wal.Manager
	man *manifest.Manager
	ws1 *engine.WALStorage
	ws2 *engine.WALStorage
}

func classifyRaftErr(err error) string {
	if err == nil {
		return "OK"
	}
	m := err.Error()
	switch {
	case errors.Is(err, errPanic):
		return "(ER EPanic)"
	case errors.Is(err, myraft.ErrCompacted):
		return "(ER ECompacted)"
	case errors.Is(err, myraft.ErrUnavailable):
		return "(ER EUnavailable)"
	case errors.Is(err, myraft.ErrSnapOutOfDate):
		return "(ER ESnapOutOfDate)"
	case strings.Contains(m, "not found in segment"), strings.Contains(m, "no such file"):
		return "(ER EPtrNotFound)"
	case strings.Contains(m, "non-raft record"):
		return "(ER EPtrNonRaft)"
	}
	return "(ER EOther)"
}

func errTerm(err error) string { // the same class as a bare [err]
	s := classifyRaftErr(err)
	return strings.TrimSuffix(strings.TrimPrefix(s, "(ER "), ")")
}

var errPanic = errors.New("panic")

func guard(f func() error) (err error) {
	defer func() {
		if r := recover(); r != nil {
			err = fmt.Errorf("%w: %v", errPanic, r)
		}
	}()
	return f()
}

// openNode opens the directory the way a starting process does.
const smallSegment = 64 << 10 // wal.minSegmentSize

func openNode(dir string, segSize int64) (*rlNode, error) {
	n := &rlNode{dir: dir, seg: segSize}
	if err := wal.VerifyDir(dir, nil); err != nil {
		return nil, fmt.Errorf("verifydir: %v", err)
	}
	w, err := wal.Open(wal.Config{Dir: dir, SegmentSize: segSize})
	if err != nil {
		return nil, fmt.Errorf("wal.Open: %v", err)
	}
	n.w = w
	man, err := manifest.Open(dir, nil)
	if err != nil {
		w.Close()
		return nil, fmt.Errorf("manifest.Open: %v", err)
	}
	n.man = man
	err = guard(func() error {
		ws, e := engine.OpenWALStorage(engine.WALStorageConfig{GroupID: 1, WAL: w, Manifest: man})
		n.ws1 = ws
		return e
	})
	if err != nil {
		n.ws1 = nil
		return n, err
	}
	err = guard(func() error {
		ws, e := engine.OpenWALStorage(engine.WALStorageConfig{GroupID: 2, WAL: w, Manifest: man})
		n.ws2 = ws
		return e
	})
	if err != nil {
		return n, fmt.Errorf("group 2: %v", err)
	}
	return n, nil
}

func (n *rlNode) close() {
	if n == nil {
		return
	}
	if n.w != nil {
		n.w.Close()
	}
	if n.man != nil {
		n.man.Close()
	}
}

// crashImage copies what a killed process leaves behind: every regular file
// of the directory as the operating system has it now.
func crashImage(src string) (string, error) {
	dst, err := os.MkdirTemp("", "raftlog-img-")
	if err != nil {
		return "", err
	}
	ents, err := os.ReadDir(src)
	if err != nil {
		return "", err
	}
	for _, e := range ents {
		if !e.Type().IsRegular() {
			continue
		}
		in, err := os.Open(filepath.Join(src, e.Name()))
		if err != nil {
			return "", err
		}
		out, err := os.Create(filepath.Join(dst, e.Name()))
		if err != nil {
			in.Close()
			return "", err
		}
		_, err = io.Copy(out, in)
		in.Close()
		out.Close()
		if err != nil {
			return "", err
		}
	}
	return dst, nil
}

func observeWS(ws *engine.WALStorage) string {
	hs, _, _ := ws.InitialState()
	snap, _ := ws.Snapshot()
	fi, _ := ws.FirstIndex()
	la, _ := ws.LastIndex()
	var ents []string
	if la >= fi {
		var es []myraft.Entry
		err := guard(func() error {
			var e error
			es, e = ws.Entries(fi, la+1, math.MaxUint64)
			return e
		})
		if err != nil {
			ents = append(ents, "(0,(0,0))") // never equal to a model log
		}
		for _, e := range es {
			ents = append(ents, fmt.Sprintf("(%d,(%d,%d))", e.Index, e.Term, bytesTok(e.Data)))
		}
	}
	return fmt.Sprintf("(Ob (H %d %d %d) %d %d %d %d %s)", hs.Term, hs.Vote, hs.Commit,
		snap.Metadata.Index, snap.Metadata.Term, fi, la, corr.List(ents))
}

// probe takes a crash image now, reopens it, reports what group 1 sees.
func (n *rlNode) probe() (string, bool, error) {
	img, err := crashImage(n.dir)
	if err != nil {
		return "", false, err
	}
	defer os.RemoveAll(img)
	p, err := openNode(img, n.seg)
	defer p.close()
	if p == nil {
		return "", false, err
	}
	if p.ws1 == nil {
		return "(Some (Err " + errTerm(err) + "))", false, nil
	}
	return "(Some (Ok " + observeWS(p.ws1) + "))", true, nil
}

func (n *rlNode) apply(o rlOp) error {
	switch o.K {
	case "hs":
		return guard(func() error {
			return n.ws1.SetHardState(myraft.HardState{Term: o.Term, Vote: o.Vote, Commit: o.Com})
		})
	case "app":
		return guard(func() error { return n.ws1.Append(mkEntries(o.First, o.Ents, o.Pad)) })
	case "snap":
		return guard(func() error {
			var s myraft.Snapshot
			s.Metadata.Index = o.Idx
			s.Metadata.Term = o.Term
			s.Metadata.ConfState.Voters = []uint64{1, 2, 3}
			s.Data = padData(o.Idx&0xff, o.Pad)
			return n.ws1.ApplySnapshot(s)
		})
	case "compact":
		return guard(func() error { return n.ws1.MaybeCompact(o.Idx+1, 1) })
	case "flsm":
		b := make([]byte, 3+o.Pad)
		b[0], b[1], b[2] = 0xde, 0xad, byte(o.Idx)
		_, err := n.w.Append(b)
		return err
	case "fill":
		// an LSM record sized so that o.Idx bytes stay free in the active segment: the next
		// record larger than that is the first record of an auto-rotated segment
		size := int(n.seg) - int(n.w.ActiveSize()) - 9 - int(o.Idx)
		if size < 1 {
			size = 1
		}
		_, err := n.w.Append(make([]byte, size))
		return err
	case "fhs":
		return guard(func() error {
			return n.ws2.SetHardState(myraft.HardState{Term: o.Term, Vote: o.Vote, Commit: o.Com})
		})
	case "fapp":
		return guard(func() error { return n.ws2.Append(mkEntries(o.First, o.Ents, o.Pad)) })
	}
	return fmt.Errorf("unknown op %q", o.K)
}

// runHistory executes ops against the real code and returns the case.
func runHistory(c *corr.Ctx, ops []rlOp) (corr.Case, error) {
	dir, err := os.MkdirTemp("", "raftlog-")
	if err != nil {
		return corr.Case{}, err
	}
	var segSize int64
	for _, o := range ops {
		if o.Pad > 0 || o.K == "fill" {
			segSize = smallSegment
		}
	}
	n, err := openNode(dir, segSize)
	if err != nil {
		return corr.Case{}, fmt.Errorf("fresh open: %v", err)
	}
	dirs := []string{dir}
	defer func() {
		n.close()
		for _, d := range dirs {
			os.RemoveAll(d)
		}
	}()
	var steps []string
	lost, recovered, failedReopen := false, 0, false
	rotatedByRaft := 0
	for _, o := range ops {
		var out string
		if o.K == "crash" {
			img, err := crashImage(n.dir)
			if err != nil {
				return corr.Case{}, err
			}
			dirs = append(dirs, img)
			old := n
			nn, err := openNode(img, n.seg)
			old.close() // flushes into the abandoned directory only
			if nn == nil {
				return corr.Case{}, err
			}
			n = nn
			if nn.ws1 == nil {
				steps = append(steps, fmt.Sprintf("St %s %s None None", o.coq(), classifyRaftErr(err)))
				failedReopen = true
				c.Count("reopen_failed")
				break
			}
			if nn.ws2 == nil {
				// the other group's storage cannot be reopened: not modelled, reported as a
				// class the model never produces (a mismatch); the history stops here.
				steps = append(steps, fmt.Sprintf("St %s (ER EOther) None None", o.coq()))
				c.Count("reopen_failed_other_group")
				break
			}
			out = "OK"
			c.Count("op_crash")
		} else {
			segBefore := n.w.ActiveSegment()
			err := n.apply(o)
			if n.w.ActiveSegment() != segBefore {
				c.Count("auto_rotation_by_" + o.K)
				if o.K == "hs" || o.K == "app" || o.K == "snap" {
					rotatedByRaft++
				}
			}
			out = classifyRaftErr(err)
			c.Count("op_" + o.K)
			if err != nil {
				c.Count("result_" + errTerm(err))
			}
		}
		pr, ok, err := n.probe()
		if err != nil {
			return corr.Case{}, err
		}
		if ok {
			recovered++
		} else {
			lost = true
			c.Count("probe_reopen_failed")
		}
		steps = append(steps, fmt.Sprintf("St %s %s (Some %s) %s", o.coq(), out, observeWS(n.ws1), pr))
	}
	_ = lost
	if rotatedByRaft > 0 {
		c.Count("histories_with_raft_record_first_in_rotated_segment")
	}
	_ = failedReopen
	return corr.Case{Coq: "Cs " + corr.List(steps), Nontrivial: recovered >= 3, Desc: ops}, nil
}

// ---- generator ----

type rlShadow struct {
	term, last, snap, com uint64
	last2                 uint64
}

func genHistoryBase(c *corr.Ctx) []rlOp {
	r := c.Rng
	var sh rlShadow
	sh.term = 1
	n := 5 + r.Intn(10)
	var ops []rlOp
	genEnts := func(k int) []rlEntry {
		es := make([]rlEntry, k)
		for i := range es {
			es[i] = rlEntry{T: sh.term, D: uint64(1 + r.Intn(200))}
		}
		return es
	}
	for len(ops) < n {
		x := r.Intn(100)
		switch {
		case x < 22: // hard state
			o := rlOp{K: "hs"}
			switch y := r.Intn(20); {
			case y == 0:
				// empty hard state: never written
			case y == 1 && sh.term > 1:
				o.Term, o.Vote = sh.term-1, uint64(1+r.Intn(3)) // goes backwards: breaks the chain premise
			default:
				if r.Intn(3) == 0 {
					sh.term += uint64(1 + r.Intn(2))
				}
				o.Term, o.Vote = sh.term, uint64(r.Intn(4))
				if sh.last > 0 {
					sh.com = sh.com + uint64(r.Intn(int(sh.last-min(sh.com, sh.last))+1))
				}
				o.Com = sh.com
			}
			ops = append(ops, o)
		case x < 62: // append
			o := rlOp{K: "app"}
			k := 1 + r.Intn(3)
			switch y := r.Intn(100); {
			case y < 55 || sh.last == sh.snap:
				o.First = sh.last + 1
			case y < 88: // conflicting overwrite inside the log
				o.First = sh.snap + 1 + uint64(r.Intn(int(sh.last-sh.snap)))
				if r.Intn(2) == 0 {
					sh.term++
				}
			case y < 97 && sh.snap > 0: // reaches at or below the snapshot
				o.First = sh.snap - uint64(r.Intn(int(min(sh.snap, 2))))
				if o.First == 0 {
					o.First = 1
				}
			case y < 98 && r.Intn(2) == 0:
				o.First = sh.last + 2 + uint64(r.Intn(2)) // gap: MemoryStorage panics
			default:
				o.First, k = sh.last+1, 0 // empty append
			}
			o.Ents = genEnts(k)
			if k > 0 && o.First <= sh.last+1 && o.First+uint64(k)-1 > sh.snap {
				sh.last = o.First + uint64(k) - 1
			}
			ops = append(ops, o)
		case x < 70: // snapshot
			o := rlOp{K: "snap", Term: sh.term}
			switch y := r.Intn(20); {
			case y == 0:
				o.Idx = 0
			case y <= 2 && sh.snap > 0 && r.Intn(2) == 0:
				o.Idx = sh.snap - uint64(r.Intn(2)) // out of date
			default:
				o.Idx = sh.snap + 1 + uint64(r.Intn(int(sh.last-sh.snap)+2))
			}
			if o.Idx > sh.snap {
				sh.snap, sh.last = o.Idx, o.Idx
				if sh.com < o.Idx {
					sh.com = o.Idx
				}
			}
			ops = append(ops, o)
		case x < 78: // compaction
			o := rlOp{K: "compact"}
			o.Idx = sh.snap + uint64(r.Intn(int(sh.last-sh.snap)+2))
			ops = append(ops, o)
		case x < 84:
			ops = append(ops, rlOp{K: "flsm", Idx: uint64(r.Intn(200))})
		case x < 88:
			ops = append(ops, rlOp{K: "fhs", Term: uint64(1 + r.Intn(5)), Vote: uint64(r.Intn(3)), Com: 0})
		case x < 92:
			k := 1 + r.Intn(2)
			ops = append(ops, rlOp{K: "fapp", First: sh.last2 + 1, Ents: genEnts(k)})
			sh.last2 += uint64(k)
		default:
			ops = append(ops, rlOp{K: "crash"})
		}
	}
	return ops
}

// genHistory: two histories in five run on a WAL with the minimal segment size and
// carry large payloads and "fill" records, so that the manager's size-based rotation
// happens inside AppendRecords, often with a raft record as the first record of the new
// segment; a crash image is taken after every record as always.
func genHistory(c *corr.Ctx) []rlOp {
	ops := genHistoryBase(c)
	r := c.Rng
	if r.Intn(5) >= 2 {
		return ops
	}
	var out []rlOp
	for _, o := range ops {
		switch o.K {
		case "hs", "app", "snap":
			if r.Intn(10) < 4 {
				out = append(out, rlOp{K: "fill", Idx: uint64(r.Intn(40))})
			}
		}
		switch o.K {
		case "app", "fapp":
			if len(o.Ents) > 0 {
				o.Pad = 2000 + r.Intn(18000)
			}
		case "flsm":
			o.Pad = r.Intn(30000)
		case "snap":
			if r.Intn(2) == 0 {
				o.Pad = 1 + r.Intn(6000)
			}
		}
		out = append(out, o)
	}
	if len(out) > 0 && out[0].K != "fill" && out[0].Pad == 0 {
		out[0].Pad = 0 // small segments are selected by any padded op or fill below
		out = append([]rlOp{{K: "flsm", Pad: 1 + r.Intn(2000)}}, out...)
	}
	return out
}

func runRaftlog(c *corr.Ctx) error {
	c.Meta("run_module", "RunRaftStore")
	c.Meta("rule", "random histories of 5..14 operations on a real WALStorage (group 1) sharing one wal.Manager+manifest with a second group and raw LSM appends: two histories in five on a WAL with 64 KiB segments, payloads of 2..30 KB and fill records so that size-based rotation happens inside AppendRecords (often with a raft record first in the new segment); hard states (chain, with rare regressions and empty states), appends (tail, conflicting overwrite, at/below snapshot, rare gap and empty), snapshots (newer, rare stale/empty), compactions, crash+reopen; after EVERY operation a crash image of the directory is reopened with the real code and InitialState/Snapshot/FirstIndex/LastIndex/Entries are compared with the model and with the persisted-history oracle. non-trivial = at least 3 crash images reopened successfully; distinct by Gallina term")
	c.Meta("exhaustive", false)
	if c.Replay != "" {
		cases, err := c.ReplayCases()
		if err != nil {
			return err
		}
		for _, cs := range cases {
			b, _ := json.Marshal(cs.Desc)
			var ops []rlOp
			if err := json.Unmarshal(b, &ops); err != nil {
				return err
			}
			out, err := runHistory(c, ops)
			if err != nil {
				return err
			}
			c.Emit(out)
		}
		return nil
	}
	// fixed regression histories first
	fixed := [][]rlOp{
		{{K: "hs", Term: 2, Vote: 1}, {K: "app", First: 1, Ents: []rlEntry{{2, 7}, {2, 8}}}},
		{{K: "app", First: 1, Ents: []rlEntry{{1, 1}, {1, 2}, {1, 3}}}, {K: "app", First: 2, Ents: []rlEntry{{2, 9}}},
			{K: "hs", Term: 2, Vote: 2, Com: 1}, {K: "compact", Idx: 1}, {K: "crash"}, {K: "app", First: 3, Ents: []rlEntry{{2, 4}}}},
		{{K: "app", First: 1, Ents: []rlEntry{{1, 1}, {1, 2}}}, {K: "snap", Idx: 5, Term: 3}, {K: "flsm"},
			{K: "app", First: 6, Ents: []rlEntry{{3, 1}}}, {K: "crash"}, {K: "hs", Term: 3, Vote: 1, Com: 6}},
	}
	fixed = append(fixed,
		// a raft record is the first record of a segment created by size-based rotation; crash right after
		[]rlOp{{K: "hs", Term: 3, Vote: 2}, {K: "fill", Idx: 5}, {K: "app", First: 1, Ents: []rlEntry{{3, 7}}}},
		[]rlOp{{K: "app", First: 1, Ents: []rlEntry{{1, 1}, {1, 2}}}, {K: "fill", Idx: 0}, {K: "hs", Term: 2, Vote: 1, Com: 1},
			{K: "crash"}, {K: "app", First: 3, Ents: []rlEntry{{2, 3}}}},
		[]rlOp{{K: "app", First: 1, Ents: []rlEntry{{1, 1}, {1, 2}}}, {K: "hs", Term: 1, Vote: 1}, {K: "fill", Idx: 12}, {K: "snap", Idx: 2, Term: 1},
			{K: "fhs", Term: 1, Vote: 2}, {K: "app", First: 3, Ents: []rlEntry{{1, 9}}}},
		// large entries: every few appends cross a 64 KiB segment
		[]rlOp{{K: "hs", Term: 3, Vote: 2}, {K: "app", First: 1, Ents: []rlEntry{{3, 1}, {3, 2}}, Pad: 9000},
			{K: "app", First: 3, Ents: []rlEntry{{3, 3}, {3, 4}}, Pad: 9000}, {K: "app", First: 5, Ents: []rlEntry{{3, 5}, {3, 6}}, Pad: 9000},
			{K: "app", First: 7, Ents: []rlEntry{{3, 7}, {3, 8}}, Pad: 9000}, {K: "crash"}, {K: "app", First: 8, Ents: []rlEntry{{4, 9}}, Pad: 9000},
			{K: "hs", Term: 4, Vote: 1, Com: 7}},
	)
	for _, ops := range fixed {
		cs, err := runHistory(c, ops)
		if err != nil {
			return err
		}
		c.Emit(cs)
	}
	n := c.Scale(250, 6000)
	for i := 0; i < n; i++ {
		cs, err := runHistory(c, genHistory(c))
		if err != nil {
			return err
		}
		c.Emit(cs)
	}
	return nil
}

package main

import (
	"fmt"
	"io"
	"log"
	"math/rand"
	"os"
	"path/filepath"
	"runtime"
	"strings"
	"sync"
	"sync/atomic"
	"time"

	"github.com/feichai0017/NoKV/manifest"
	"github.com/feichai0017/NoKV/pb"
	myraft "github.com/feichai0017/NoKV/raft"
	"github.com/feichai0017/NoKV/raftstore/failpoints"
	"github.com/feichai0017/NoKV/raftstore/peer"
	"github.com/feichai0017/NoKV/raftstore/store"
	"github.com/feichai0017/NoKV/wal"
)

// A cluster has 3 stores and 1 or 2 regions; every store hosts a peer of every
// region. Peer id = (region-1)*10 + store id. With two regions, region 1 owns
// the keys k0,k1 and region 2 the keys k2,k3; all regions of a store share the
// store's commandPipeline and state machine, as in production.

func peerID(region, storeID uint64) uint64 { return (region-1)*10 + storeID }
func storeOfPeer(id uint64) uint64         { return id % 10 }
func regionOfPeer(id uint64) uint64        { return id/10 + 1 }

// event is one observed event (Spec/ClusterSpec.v: oev). Events whose details
// are learned a little later (the id a proposal was registered under, the
// index of an applied entry) are appended when they happen and completed in
// place, so the order of the list is the real-time order.
type event struct {
	kind   string // start propose read apply serve exec ret
	s, w   uint64
	region uint64
	cmd    cmdSpec
	leader bool
	term   uint64
	pobs   string // PoNotLeader | (PoRegistered id) | PoStarted | PoDropped | PoOther
	index  uint64
	eterm  uint64
	reqid  uint64
	ans    *answer
	ridx   uint64
	mark   uint64
	robs   string // (RoOk uid v) | RoNotLeader | RoErr
}

func optAns(a *answer) string {
	if a == nil {
		return "None"
	}
	return "(Some " + a.coq() + ")"
}

func (e *event) coq() string {
	switch e.kind {
	case "start":
		return fmt.Sprintf("OStart %d", e.s)
	case "propose":
		return fmt.Sprintf("OPropose %d %d %d %s %v %d %s", e.s, e.region, e.w, e.cmd.coq(), e.leader, e.term, e.pobs)
	case "read":
		return fmt.Sprintf("ORead %d %d %d %s %v %d %s", e.s, e.region, e.w, e.cmd.coq(), e.leader, e.term, e.pobs)
	case "apply":
		return fmt.Sprintf("OApply %d %d %d %d %d %s %s", e.s, e.region, e.index, e.eterm, e.reqid, e.cmd.coq(), optAns(e.ans))
	case "serve":
		return fmt.Sprintf("OServe %d %d %d %d %d", e.s, e.region, e.w, e.ridx, e.mark)
	case "exec":
		return fmt.Sprintf("OExec %d %d %s", e.s, e.w, optAns(e.ans))
	case "ret":
		return fmt.Sprintf("ORet %d %s", e.w, e.robs)
	}
	return "?"
}

type node struct {
	c   *cluster
	id  uint64
	st  *store.Store
	sm  *regSM // survives restarts, like the DB behind the real applier
	up  bool
	inc *incarn
	// the process is dying after a storage fault: nothing reaches it any more,
	// what it already sent is still in the network
	unreachable bool
}

// incarn is one process lifetime of a store. A restart stands for a process
// crash: whatever goroutines of the old store.Store object are still around
// must not be observed any more (dead), and must not touch the state machine.
type incarn struct {
	n        *node
	dead     bool                        // guarded by cluster.mu
	reads    map[*pb.RaftCmdRequest]bool // requests announced by the read observer
	lastAppl *event
	peers    map[uint64]*peer.Peer // region -> peer
	wal      *wal.Manager
	man      *manifest.Manager
}

func (n *node) peer(region uint64) *peer.Peer { return n.inc.peers[region] }

type opState struct {
	done chan struct{}
	ok   bool
}

type cluster struct {
	mu            sync.Mutex
	evs           []*event
	closed        bool
	queue         []myraft.Message
	cut           [4]bool
	nodes         [4]*node
	regions       []uint64
	dir           string
	nextW         uint64
	ops           []*opState
	stats         map[string]int
	readsInFlight atomic.Int32
	maxMsg        uint64 // raft MaxSizePerMsg (= MaxCommittedSizePerReady): small values page the committed backlog
	checkQuorum   bool   // raft CheckQuorum (not the default of NoKV's configs)
	noPreVote     bool   // raft PreVote off
	inline        bool   // zero-latency network: Send steps the receiver at once (replies can arrive between two Readys of the sender)
}

type netT struct{ c *cluster }

func (n netT) Send(m myraft.Message) {
	b, err := m.Marshal()
	if err != nil {
		return
	}
	var cp myraft.Message
	if cp.Unmarshal(b) != nil {
		return
	}
	c := n.c
	c.mu.Lock()
	if c.inline && !c.closed {
		from, to := storeOfPeer(cp.From), storeOfPeer(cp.To)
		ok := from >= 1 && from <= 3 && to >= 1 && to <= 3 && !c.cut[from] && !c.cut[to]
		c.mu.Unlock()
		if ok {
			c.step(c.nodes[to], cp)
		}
		return
	}
	c.queue = append(c.queue, cp)
	c.mu.Unlock()
}

// guard runs a driver action on a node; a panic of the raft library (it
// panics when asked to overwrite a committed entry) takes the node down
// instead of the harness.
func (c *cluster) guard(n *node, f func()) {
	defer func() {
		if r := recover(); r != nil {
			n.up = false
			c.mu.Lock()
			c.stats["raft_panics"]++
			n.inc.dead = true
			c.mu.Unlock()
		}
	}()
	f()
}

func (c *cluster) step(n *node, m myraft.Message) {
	if n == nil || !n.up || (n.unreachable && failpoints.Current() == failpoints.None) {
		return
	}
	c.guard(n, func() { _ = n.st.Step(m) })
}

var quietLogger = &myraft.DefaultLogger{Logger: log.New(io.Discard, "", 0)}

func newCluster(dir string, nregions int, maxMsg uint64, checkQuorum, noPreVote bool) (*cluster, error) {
	if maxMsg == 0 {
		maxMsg = 1 << 20
	}
	c := &cluster{dir: dir, stats: map[string]int{}, maxMsg: maxMsg, checkQuorum: checkQuorum, noPreVote: noPreVote}
	for r := 1; r <= nregions; r++ {
		c.regions = append(c.regions, uint64(r))
	}
	for id := uint64(1); id <= 3; id++ {
		n := &node{c: c, id: id, sm: newRegSM()}
		c.nodes[id] = n
		if err := n.start(); err != nil {
			return nil, err
		}
	}
	return c, nil
}

func (c *cluster) regionMeta(region uint64) manifest.RegionMeta {
	m := manifest.RegionMeta{
		ID:    region,
		Epoch: manifest.RegionEpoch{Version: 1, ConfVersion: 1},
		Peers: []manifest.PeerMeta{{StoreID: 1, PeerID: peerID(region, 1)}, {StoreID: 2, PeerID: peerID(region, 2)},
			{StoreID: 3, PeerID: peerID(region, 3)}},
	}
	if len(c.regions) > 1 {
		if region == 1 {
			m.EndKey = []byte("k2")
		} else {
			m.StartKey = []byte("k2")
		}
	}
	return m
}

func (n *node) start() error {
	c := n.c
	in := &incarn{n: n, reads: map[*pb.RaftCmdRequest]bool{}, peers: map[uint64]*peer.Peer{}}
	n.inc = in
	n.st = store.NewStoreWithConfig(store.Config{StoreID: n.id, CommandApplier: in.apply, CommandTimeout: 60 * time.Second})
	n.st.VerifObserve(in.onApply, in.onRead)
	// The raft logs live where production keeps them: WAL-backed storage
	// (engine.WALStorage) over one wal.Manager and one manifest in the store's
	// directory, shared by the regions and reopened on restart.
	sdir := filepath.Join(c.dir, fmt.Sprintf("s%d", n.id))
	w, err := wal.Open(wal.Config{Dir: filepath.Join(sdir, "wal")})
	if err != nil {
		return err
	}
	m, err := manifest.Open(filepath.Join(sdir, "manifest"), nil)
	if err != nil {
		return err
	}
	in.wal, in.man = w, m
	for _, region := range c.regions {
		meta := c.regionMeta(region)
		cfg := &peer.Config{
			RaftConfig: myraft.Config{ID: peerID(region, n.id), ElectionTick: 10, HeartbeatTick: 1, MaxSizePerMsg: c.maxMsg,
				MaxInflightMsgs: 256, PreVote: !c.noPreVote, CheckQuorum: c.checkQuorum, Logger: quietLogger},
			Transport: netT{c},
			WAL:       w,
			Manifest:  m,
			GroupID:   region,
			Region:    &meta,
		}
		p, err := n.st.StartPeer(cfg, []myraft.Peer{{ID: peerID(region, 1)}, {ID: peerID(region, 2)}, {ID: peerID(region, 3)}})
		if err != nil {
			return err
		}
		c.mu.Lock()
		in.peers[region] = p
		c.mu.Unlock()
	}
	n.up = true
	// hand out what the log already holds (a restarted node ignores Campaign
	// while conf changes of its log are unapplied)
	for _, region := range c.regions {
		p := in.peers[region]
		c.guard(n, func() { _ = p.Flush() })
	}
	return nil
}

// apply is Config.CommandApplier of the store.
func (in *incarn) apply(req *pb.RaftCmdRequest) (*pb.RaftCmdResponse, error) {
	spec, ok := parseReq(req)
	if !ok {
		return nil, fmt.Errorf("harness: unknown command")
	}
	n := in.n
	c := n.c
	if c.readsInFlight.Load() > 0 {
		// handleReady wakes readers (ReadStates) before it applies the committed
		// entries of the same Ready: give a woken reader the chance to overtake
		// the apply, so that a missing WaitApplied shows.
		time.Sleep(100 * time.Microsecond)
	}
	c.mu.Lock()
	defer c.mu.Unlock()
	if in.dead {
		return nil, fmt.Errorf("harness: store process is gone")
	}
	a, err := n.sm.exec(spec)
	if in.reads[req] {
		delete(in.reads, req)
		ev := &event{kind: "exec", s: n.id, w: spec.UID}
		if err == nil {
			ev.ans = &a
		}
		c.log(ev)
	} else {
		ev := &event{kind: "apply", s: n.id, region: req.GetHeader().GetRegionId(), cmd: spec}
		if err == nil {
			ev.ans = &a
		}
		c.log(ev)
		in.lastAppl = ev
	}
	if err != nil {
		return nil, err
	}
	return buildResp(req, a), nil
}

func (in *incarn) onApply(ev store.VerifApplyEvent) {
	c := in.n.c
	c.mu.Lock()
	defer c.mu.Unlock()
	if e := in.lastAppl; e != nil {
		e.index, e.eterm, e.reqid, e.region = ev.Index, ev.Term, ev.RequestID, ev.RegionID
		in.lastAppl = nil
	}
}

func (in *incarn) onRead(ev store.VerifReadEvent) {
	region := ev.Req.GetHeader().GetRegionId()
	c := in.n.c
	c.mu.Lock()
	p := in.peers[region]
	c.mu.Unlock()
	mark := p.VerifAppliedMark()
	spec, _ := parseReq(ev.Req)
	c.mu.Lock()
	defer c.mu.Unlock()
	if in.dead {
		return
	}
	in.reads[ev.Req] = true
	c.log(&event{kind: "serve", s: in.n.id, region: region, w: spec.UID, ridx: ev.ReadIndex, mark: mark})
}

// log appends an event; the caller holds c.mu.
func (c *cluster) log(e *event) {
	if c.closed {
		return
	}
	c.evs = append(c.evs, e)
}

func (c *cluster) leaderClaims(region uint64) []*node {
	var out []*node
	for id := 1; id <= 3; id++ {
		n := c.nodes[id]
		if n.up && n.peer(region).Status().RaftState == myraft.StateLeader {
			out = append(out, n)
		}
	}
	return out
}

func regionErrKind(resp *pb.RaftCmdResponse) string {
	if re := resp.GetRegionError(); re != nil {
		if re.GetNotLeader() != nil {
			return "notleader"
		}
		return "other"
	}
	return ""
}

// call issues ProposeCommand (read=false) or ReadCommand (read=true) on n from
// a client goroutine and waits until the call has either returned or reached
// the point where it blocks.
func (c *cluster) call(n *node, region uint64, spec cmdSpec, read bool) {
	p := n.peer(region)
	pid := peerID(region, n.id)
	st := p.Status()
	ev := &event{kind: "propose", s: n.id, region: region, w: spec.UID, cmd: spec, leader: st.RaftState == myraft.StateLeader,
		term: st.Term, pobs: "PoOther"}
	if read {
		ev.kind = "read"
	}
	before := map[uint64]int{}
	for _, id := range n.st.VerifPendingProposals() {
		before[id]++
	}
	readsBefore := p.VerifReadSeq()
	matchBefore := st.Progress[pid].Match
	op := &opState{done: make(chan struct{})}
	c.mu.Lock()
	c.log(ev)
	c.ops = append(c.ops, op)
	c.mu.Unlock()
	req := buildReq(spec, region)
	var early string
	in, st0 := n.inc, n.st
	if read {
		c.readsInFlight.Add(1)
	}
	go func() {
		var resp *pb.RaftCmdResponse
		var err error
		func() {
			// The raft library panics when a Ready is requested after an earlier one
			// failed without Advance (closed or failing storage): that is the store
			// process dying, not the harness. The caller gets no answer.
			defer func() {
				if r := recover(); r != nil {
					err = fmt.Errorf("store process died: %v", r)
					c.mu.Lock()
					if !in.dead {
						c.stats["client_goroutine_raft_panics_live_store"]++
					} else {
						c.stats["client_goroutine_raft_panics_dead_store"]++
					}
					c.mu.Unlock()
				}
			}()
			if read {
				defer c.readsInFlight.Add(-1)
				resp, err = st0.ReadCommand(req)
			} else {
				resp, err = st0.ProposeCommand(req)
			}
		}()
		r := &event{kind: "ret", w: spec.UID, robs: "RoErr"}
		if err == nil {
			switch regionErrKind(resp) {
			case "notleader":
				r.robs = "RoNotLeader"
				early = "PoNotLeader"
			case "":
				if a, ok := parseResp(resp); ok {
					v := "None"
					if a.Present {
						v = fmt.Sprintf("(Some %d)", a.V)
					}
					r.robs = fmt.Sprintf("(RoOk %d %s)", a.UID, v)
					op.ok = true
				}
			}
		}
		c.mu.Lock()
		if in.dead && op.ok {
			// the process died before the client got its answer
			r.robs, op.ok = "RoErr", false
		}
		c.log(r)
		c.mu.Unlock()
		close(op.done)
	}()
	deadline := time.Now().Add(2 * time.Second)
wait:
	for {
		select {
		case <-op.done:
			if early != "" {
				ev.pobs = early
			} else if !op.ok {
				ev.pobs = "PoDropped"
				c.stats["calls_refused_by_raft"]++
			}
			return
		default:
		}
		if read {
			if p.VerifReadSeq() > readsBefore {
				ev.pobs = "PoStarted"
				break wait
			}
		} else {
			now := map[uint64]int{}
			for _, id := range n.st.VerifPendingProposals() {
				now[id]++
			}
			for id, k := range now {
				if k > before[id] {
					ev.pobs = fmt.Sprintf("(PoRegistered %d)", id)
					break wait
				}
			}
		}
		if time.Now().After(deadline) {
			return
		}
		runtime.Gosched()
	}
	// let the client goroutine hand its entry to raft (the leader's own Match
	// moves when it appends) and finish its own Ready processing
	if !read {
		for t0 := time.Now(); time.Since(t0) < 20*time.Millisecond; {
			if p.Status().Progress[pid].Match > matchBefore {
				break
			}
			select {
			case <-op.done:
				t0 = time.Time{}
			default:
				runtime.Gosched()
			}
		}
	}
	_ = p.Flush()
	for i := 0; i < 20; i++ {
		runtime.Gosched()
	}
}

// deliverAt delivers (or, if the link is cut, drops) the i-th queued message.
func (c *cluster) deliverAt(i int, keep bool) {
	c.mu.Lock()
	if i >= len(c.queue) {
		c.mu.Unlock()
		return
	}
	m := c.queue[i]
	if !keep {
		c.queue = append(c.queue[:i:i], c.queue[i+1:]...)
	}
	from, to := storeOfPeer(m.From), storeOfPeer(m.To)
	dropped := from > 3 || to > 3 || to == 0 || c.cut[from] || c.cut[to]
	c.mu.Unlock()
	if dropped {
		return
	}
	c.step(c.nodes[to], m)
}

// deliverFaulty delivers the i-th queued message while the store's raft
// storage refuses writes (the tree's failpoint "before storage": persisting
// the Ready fails), after which the store process dies and restarts from its
// directory. The failpoint is process-wide: only used by runs that execute
// alone.
func (c *cluster) deliverFaulty(i int) error {
	c.mu.Lock()
	if i >= len(c.queue) {
		c.mu.Unlock()
		return nil
	}
	m := c.queue[i]
	c.queue = append(c.queue[:i:i], c.queue[i+1:]...)
	from, to := storeOfPeer(m.From), storeOfPeer(m.To)
	dropped := from > 3 || to > 3 || to == 0 || c.cut[from] || c.cut[to]
	c.mu.Unlock()
	n := c.nodes[to]
	if dropped || n == nil || !n.up {
		return nil
	}
	failpoints.Set(failpoints.BeforeStorage)
	c.step(n, m)
	failpoints.Set(failpoints.None)
	c.stats["storage_faults"]++
	return c.restart(n)
}

func (c *cluster) tick(n *node, region uint64) {
	if n.up {
		c.guard(n, func() { _ = n.peer(region).Tick() })
	}
}

func (c *cluster) campaign(n *node, region uint64) {
	if n.up {
		c.guard(n, func() { _ = n.peer(region).Campaign() })
	}
}

func (c *cluster) qlen() int {
	c.mu.Lock()
	defer c.mu.Unlock()
	return len(c.queue)
}

func (c *cluster) pump(max int) {
	for i := 0; i < max && c.qlen() > 0; i++ {
		c.deliverAt(0, false)
	}
}

// pumpRegion delivers only the messages of one region, in order, until none is left.
func (c *cluster) pumpRegion(region uint64, max int) {
	for k := 0; k < max; k++ {
		c.mu.Lock()
		idx := -1
		for i, m := range c.queue {
			if regionOfPeer(m.To) == region {
				idx = i
				break
			}
		}
		c.mu.Unlock()
		if idx < 0 {
			return
		}
		c.deliverAt(idx, false)
	}
}

func (c *cluster) restart(n *node) error {
	if !n.up {
		return nil // taken down by a raft panic: stays down
	}
	n.up = false
	c.mu.Lock()
	n.inc.dead = true
	c.log(&event{kind: "start", s: n.id})
	c.mu.Unlock()
	n.stop()
	n.unreachable = false
	return n.start()
}

func (n *node) stop() {
	for _, region := range n.c.regions {
		n.st.StopPeer(peerID(region, n.id))
	}
	n.st.Close()
	if n.inc.wal != nil {
		_ = n.inc.wal.Close()
	}
	if n.inc.man != nil {
		_ = n.inc.man.Close()
	}
}

func (c *cluster) pendingOps() int {
	k := 0
	for _, op := range c.ops {
		select {
		case <-op.done:
		default:
			k++
		}
	}
	return k
}

// finish heals the network, lets the cluster settle and returns the trace.
func (c *cluster) finish() []*event {
	c.mu.Lock()
	c.cut = [4]bool{}
	c.mu.Unlock()
	for round := 0; round < 80; round++ {
		for id := 1; id <= 3; id++ {
			if c.nodes[id].up {
				for _, region := range c.regions {
					c.tick(c.nodes[id], region)
				}
			}
		}
		c.pump(2000)
		if round > 3 && c.pendingOps() == 0 && c.qlen() == 0 {
			break
		}
		if round%8 == 7 {
			for _, region := range c.regions {
				if len(c.leaderClaims(region)) == 0 {
					c.campaign(c.nodes[1+round%3], region)
				}
			}
		}
	}
	// give returning client goroutines a moment to log their result
	for i := 0; i < 50 && c.pendingOps() > 0; i++ {
		time.Sleep(200 * time.Microsecond)
	}
	c.mu.Lock()
	c.closed = true
	evs := c.evs
	c.mu.Unlock()
	for id := 1; id <= 3; id++ {
		n := c.nodes[id]
		if n.up {
			n.stop()
		}
	}
	_ = os.RemoveAll(c.dir)
	return evs
}

// runSpec describes one cluster run; Desc of the emitted case, so that a run
// can be repeated (goroutine timing is the only thing not controlled).
type runSpec struct {
	Seed        int64  `json:"seed"`
	Steps       int    `json:"steps"`
	Profile     string `json:"profile"` // mixed | reads | f20 | newleader | tworegions
	Regions     int    `json:"regions,omitempty"`
	MaxMsg      uint64 `json:"max_msg,omitempty"`      // raft MaxSizePerMsg; 0 = 1 MiB
	Faults      bool   `json:"faults,omitempty"`       // storage faults (process-wide failpoint): the run executes alone
	CheckQuorum bool   `json:"check_quorum,omitempty"` // raft CheckQuorum on
	NoPreVote   bool   `json:"no_pre_vote,omitempty"`  // raft PreVote off
}

// newCmd makes a command for a region: with two regions, region r owns the keys 2(r-1), 2(r-1)+1.
func (c *cluster) newCmd(rng *rand.Rand, region uint64, kind string) cmdSpec {
	c.nextW++
	w := c.nextW
	k := uint64(rng.Intn(2))
	if len(c.regions) > 1 {
		k += 2 * (region - 1)
	}
	return cmdSpec{UID: w, Kind: kind, K: k, V: w}
}

func runOne(spec runSpec, dir string) ([]*event, map[string]int, error) {
	_ = os.RemoveAll(dir)
	nregions := spec.Regions
	if nregions < 1 {
		nregions = 1
	}
	if spec.Profile == "tworegions" {
		nregions = 2
	}
	maxMsg := spec.MaxMsg
	if spec.Profile == "backlog" {
		maxMsg = 150
	}
	if spec.Profile == "lease" {
		spec.CheckQuorum = true
	}
	c, err := newCluster(dir, nregions, maxMsg, spec.CheckQuorum, spec.NoPreVote)
	if err != nil {
		return nil, nil, err
	}
	rng := rand.New(rand.NewSource(spec.Seed))
	switch spec.Profile {
	case "f20":
		c.scriptF20()
		return c.finish(), c.stats, nil
	case "newleader":
		c.scriptNewLeaderRead()
		return c.finish(), c.stats, nil
	case "tworegions":
		c.scriptTwoRegions()
		return c.finish(), c.stats, nil
	case "storagefault":
		if err := c.scriptStorageFault(); err != nil {
			return nil, nil, err
		}
		return c.finish(), c.stats, nil
	case "backlog":
		c.scriptBacklogRead()
		return c.finish(), c.stats, nil
	case "lease":
		c.scriptDeposedLeaderRead()
		return c.finish(), c.stats, nil
	}
	pickRegion := func() uint64 { return c.regions[rng.Intn(len(c.regions))] }
	for _, region := range c.regions {
		// with two regions, prefer different leaders and equal term numbers
		c.campaign(c.nodes[1+(rng.Intn(3)+int(region))%3], region)
		c.pump(200)
	}
	maxOps := 9
	restarts := 0
	dbg := os.Getenv("VERIF_CLUSTER_DEBUG") != ""
	for step := 0; step < spec.Steps; step++ {
		r := rng.Intn(100)
		if dbg {
			fmt.Fprintf(os.Stderr, "step %d r=%d q=%d\n", step, r, c.qlen())
		}
		switch {
		case r < 40:
			if q := c.qlen(); q > 0 {
				i := 0
				if rng.Intn(10) < 3 {
					i = rng.Intn(q)
					if i > 0 {
						c.stats["reordered"]++
					}
				}
				switch f := rng.Intn(100); {
				case spec.Faults && f >= 94 && restarts < 3:
					restarts++
					if err := c.deliverFaulty(i); err != nil {
						return nil, nil, err
					}
				case f < 6:
					c.stats["duplicated"]++
					c.deliverAt(i, true)
				case f < 14:
					c.stats["dropped"]++
					c.mu.Lock()
					if i < len(c.queue) {
						c.queue = append(c.queue[:i:i], c.queue[i+1:]...)
					}
					c.mu.Unlock()
				default:
					c.deliverAt(i, false)
				}
			}
		case r < 52:
			c.pump(1 + rng.Intn(8))
		case r < 64:
			c.tick(c.nodes[1+rng.Intn(3)], pickRegion())
		case r < 82:
			if int(c.nextW) >= maxOps {
				continue
			}
			region := pickRegion()
			var n *node
			if ls := c.leaderClaims(region); len(ls) > 0 && rng.Intn(10) < 8 {
				n = ls[rng.Intn(len(ls))]
			} else {
				n = c.nodes[1+rng.Intn(3)]
			}
			if !n.up {
				continue
			}
			k := rng.Intn(100)
			readShare := 30
			if spec.Profile == "reads" {
				readShare = 55
			}
			switch {
			case k < readShare:
				c.call(n, region, c.newCmd(rng, region, "get"), true)
			case k < readShare+12:
				c.call(n, region, c.newCmd(rng, region, "get"), false)
			default:
				c.call(n, region, c.newCmd(rng, region, "put"), false)
			}
		case r < 87:
			c.stats["campaigns"]++
			c.campaign(c.nodes[1+rng.Intn(3)], pickRegion())
		case r < 92:
			c.mu.Lock()
			if rng.Intn(2) == 0 {
				c.cut = [4]bool{}
			} else {
				c.cut = [4]bool{}
				c.cut[1+rng.Intn(3)] = true
				c.stats["partitions"]++
			}
			c.mu.Unlock()
		case r < 95:
			if restarts < 2 {
				restarts++
				c.stats["restarts"]++
				if err := c.restart(c.nodes[1+rng.Intn(3)]); err != nil {
					return nil, nil, err
				}
			}
		default:
			region := pickRegion()
			if ls := c.leaderClaims(region); len(ls) > 0 {
				c.stats["transfers"]++
				_ = ls[0].peer(region).TransferLeader(peerID(region, uint64(1+rng.Intn(3))))
			}
		}
	}
	evs := c.finish()
	return evs, c.stats, nil
}

// scriptF20: the scenario of finding F20. Store 1 is leader and is cut off;
// a client proposes A there (its entry stays local). Store 2 is elected and a
// client proposes B there. Before the repair both proposals carried request
// id 1, and when store 1 applied B it answered A's caller with B's result.
func (c *cluster) scriptF20() {
	rng := rand.New(rand.NewSource(1))
	_ = c.nodes[1].peer(1).Campaign()
	c.pump(500)
	c.mu.Lock()
	c.cut[1] = true
	c.mu.Unlock()
	c.call(c.nodes[1], 1, c.newCmd(rng, 1, "put"), false)
	_ = c.nodes[2].peer(1).Campaign()
	c.pump(500)
	c.call(c.nodes[2], 1, c.newCmd(rng, 1, "put"), false)
	c.pump(500)
	c.mu.Lock()
	c.cut = [4]bool{}
	c.mu.Unlock()
	for i := 0; i < 4; i++ {
		_ = c.nodes[2].peer(1).Tick()
		c.pump(500)
	}
	c.call(c.nodes[2], 1, c.newCmd(rng, 1, "get"), true)
	c.pump(500)
}

// scriptTwoRegions: the cross-region half of finding F20. Store 1 leads
// region 1 and store 2 leads region 2, both in the same term number, so both
// hand out the same request id. Region 1's messages are held back while a
// client proposes A there; a client proposes B on region 2, which commits;
// store 1, a follower of region 2, applies B. With waiters keyed by the id
// alone it answered A's caller with B's result.
func (c *cluster) scriptTwoRegions() {
	rng := rand.New(rand.NewSource(1))
	_ = c.nodes[1].peer(1).Campaign()
	c.pumpRegion(1, 500)
	_ = c.nodes[2].peer(2).Campaign()
	c.pumpRegion(2, 500)
	c.call(c.nodes[1], 1, c.newCmd(rng, 1, "put"), false)
	c.call(c.nodes[2], 2, c.newCmd(rng, 2, "put"), false)
	for i := 0; i < 3; i++ {
		c.pumpRegion(2, 500)
		_ = c.nodes[2].peer(2).Tick()
	}
	c.pumpRegion(2, 500)
	c.pump(1000)
	c.call(c.nodes[1], 1, c.newCmd(rng, 1, "get"), true)
	c.pump(500)
}

// scriptStorageFault: follower 2's storage fails while it handles the Ready
// that carries a new entry (store 3 is unreachable); the process of store 2
// then dies and restarts from disk; afterwards the old leader 1 is cut off
// and 2 leads with 3. Nothing that was not durable on 2 may have been
// acknowledged by 2: otherwise leader 1 commits, applies and acknowledges a
// command that only it holds, and the new majority applies something else at
// that index.
func (c *cluster) scriptStorageFault() error {
	rng := rand.New(rand.NewSource(1))
	c.campaign(c.nodes[1], 1)
	c.pump(500)
	c.call(c.nodes[1], 1, c.newCmd(rng, 1, "put"), false)
	c.pump(500)
	c.tick(c.nodes[1], 1)
	c.pump(500)
	c.mu.Lock()
	c.cut[3] = true
	c.mu.Unlock()
	c.call(c.nodes[1], 1, c.newCmd(rng, 1, "put"), false)
	for k := 0; k < 50; k++ {
		c.mu.Lock()
		idx := -1
		for i, m := range c.queue {
			if m.To == peerID(1, 2) && m.Type == myraft.MsgAppend && len(m.Entries) > 0 {
				idx = i
				break
			}
		}
		c.mu.Unlock()
		if idx >= 0 {
			// what store 2 sent before it died stays in the network
			if err := c.deliverFaultyKeepDown(idx); err != nil {
				return err
			}
			break
		}
		if c.qlen() == 0 {
			break
		}
		c.deliverAt(0, false)
	}
	c.pump(500)
	if err := c.restart(c.nodes[2]); err != nil {
		return err
	}
	c.mu.Lock()
	c.queue = nil
	c.cut = [4]bool{}
	c.cut[1] = true
	c.mu.Unlock()
	c.campaign(c.nodes[2], 1)
	for i := 0; i < 500 && c.qlen() > 0; i++ {
		c.deliverAt(0, false)
	}
	if os.Getenv("VERIF_CLUSTER_DEBUG") != "" {
		fmt.Fprintf(os.Stderr, "store 2 after campaign: %+v\nstore 3: %+v\n", c.nodes[2].peer(1).Status().BasicStatus, c.nodes[3].peer(1).Status().BasicStatus)
	}
	c.call(c.nodes[2], 1, c.newCmd(rng, 1, "put"), false)
	c.pump(500)
	c.tick(c.nodes[2], 1)
	c.pump(500)
	return nil
}

// deliverFaultyKeepDown is deliverFaulty without the immediate restart: the
// store stays unreachable (its process is dying) while what it already sent
// travels on; the caller restarts it.
func (c *cluster) deliverFaultyKeepDown(i int) error {
	c.mu.Lock()
	m := c.queue[i]
	c.queue = append(c.queue[:i:i], c.queue[i+1:]...)
	c.mu.Unlock()
	n := c.nodes[storeOfPeer(m.To)]
	failpoints.Set(failpoints.BeforeStorage)
	c.step(n, m)
	failpoints.Set(failpoints.None)
	c.stats["storage_faults"]++
	n.unreachable = true
	return nil
}

// scriptBacklogRead: leader 1 commits, applies and acknowledges a batch of
// writes whose commit index never reaches the followers; 1 is cut off, 2 is
// elected and inherits the batch as a committed backlog that raft hands out
// in pages (small MaxCommittedSizePerReady); a read is issued on 2 right
// after the election. On a zero-latency network the heartbeat round that
// confirms the read index completes between two pages, so the ReadState
// arrives with a later page: ReadCommand must wait until that page has been
// applied (WaitApplied), not merely begun.
func (c *cluster) scriptBacklogRead() {
	rng := rand.New(rand.NewSource(1))
	c.campaign(c.nodes[1], 1)
	c.pump(500)
	c.tick(c.nodes[1], 1)
	c.pump(500)
	// two writes to k0 and a last one to k1, all in flight together: with the
	// new leader's empty entry the backlog is four entries = two pages, and the
	// read index (the empty entry) lies in the second page
	for i := 0; i < 3; i++ {
		w := c.newCmd(rng, 1, "put")
		w.K = 0
		if i == 2 {
			w.K = 1
		}
		c.call(c.nodes[1], 1, w, false)
	}
	nops := len(c.ops)
	for i := 0; i < 2000 && c.qlen() > 0; i++ {
		// whatever would tell a follower the new commit index is lost
		c.mu.Lock()
		m := c.queue[0]
		lose := storeOfPeer(m.From) == 1 && (m.Type == myraft.MsgHeartbeat || (m.Type == myraft.MsgAppend && len(m.Entries) == 0))
		if lose {
			c.queue = c.queue[1:]
		}
		c.mu.Unlock()
		if lose {
			continue
		}
		c.deliverAt(0, false)
		done := 0
		for _, op := range c.ops[:nops] {
			select {
			case <-op.done:
				done++
			default:
			}
		}
		if done == nops {
			break
		}
		runtime.Gosched()
	}
	for i := 0; i < 100 && c.pendingOps() > 0; i++ {
		time.Sleep(100 * time.Microsecond)
	}
	c.mu.Lock()
	c.queue = nil // the followers never hear that the batch is committed
	c.cut[1] = true
	c.mu.Unlock()
	c.campaign(c.nodes[2], 1)
	for i := 0; i < 500 && c.qlen() > 0 && c.nodes[2].peer(1).Status().RaftState != myraft.StateLeader; i++ {
		c.deliverAt(0, false)
	}
	r := c.newCmd(rng, 1, "get")
	r.K = 1
	c.call(c.nodes[2], 1, r, true)
	c.mu.Lock()
	c.inline = true
	c.mu.Unlock()
	c.pump(2000)
	for i := 0; i < 3; i++ {
		c.tick(c.nodes[2], 1)
		c.pump(2000)
	}
	c.mu.Lock()
	c.inline = false
	c.mu.Unlock()
}

// scriptDeposedLeaderRead (raft CheckQuorum on): leader 1 is cut off and its
// logical clock stalls (no ticks), so it does not notice that it lost its
// quorum; the other two stores let an election timeout pass, elect a leader
// and acknowledge an overwrite. A ReadCommand on store 1, which still believes
// it leads, must fail or wait: it cannot confirm leadership with a quorum.
func (c *cluster) scriptDeposedLeaderRead() {
	rng := rand.New(rand.NewSource(1))
	c.campaign(c.nodes[1], 1)
	c.pump(500)
	w1 := c.newCmd(rng, 1, "put")
	c.call(c.nodes[1], 1, w1, false)
	c.pump(500)
	c.tick(c.nodes[1], 1)
	c.pump(500)
	c.mu.Lock()
	c.cut[1] = true
	c.mu.Unlock()
	for i := 0; i < 45 && len(c.leaderAmong(1, 2, 3)) == 0; i++ {
		c.tick(c.nodes[2], 1)
		c.tick(c.nodes[3], 1)
		c.pump(500)
	}
	if len(c.leaderAmong(1, 2, 3)) == 0 {
		c.campaign(c.nodes[2], 1)
		c.pump(500)
	}
	ls := c.leaderAmong(1, 2, 3)
	if len(ls) == 0 {
		return
	}
	w2 := c.newCmd(rng, 1, "put")
	w2.K = w1.K
	c.call(ls[0], 1, w2, false)
	acked := c.ops[len(c.ops)-1]
	for i := 0; i < 20; i++ {
		c.pump(500)
		select {
		case <-acked.done:
			i = 20
		default:
			time.Sleep(200 * time.Microsecond)
		}
	}
	r := c.newCmd(rng, 1, "get")
	r.K = w1.K
	c.call(c.nodes[1], 1, r, true)
	c.pump(500)
	for i := 0; i < 50 && c.pendingOps() > 0; i++ {
		time.Sleep(100 * time.Microsecond)
	}
}

// leaderAmong returns the stores among ids that claim leadership of the region.
func (c *cluster) leaderAmong(region uint64, ids ...uint64) []*node {
	var out []*node
	for _, id := range ids {
		if n := c.nodes[id]; n.up && n.peer(region).Status().RaftState == myraft.StateLeader {
			out = append(out, n)
		}
	}
	return out
}

// scriptNewLeaderRead: a write is acknowledged by leader 1 while follower 2 has
// the entry but has not learned that it is committed; 2 is then elected and
// asked to read before it has committed anything in its own term.
func (c *cluster) scriptNewLeaderRead() {
	rng := rand.New(rand.NewSource(1))
	_ = c.nodes[1].peer(1).Campaign()
	c.pump(500)
	put := c.newCmd(rng, 1, "put")
	c.call(c.nodes[1], 1, put, false)
	op := c.ops[len(c.ops)-1]
	for i := 0; i < 500 && c.qlen() > 0; i++ {
		c.deliverAt(0, false)
		runtime.Gosched()
		select {
		case <-op.done:
			i = 500
		default:
		}
	}
	c.mu.Lock()
	c.queue = nil // store 2 never hears about the commit from store 1
	c.cut[1] = true
	c.mu.Unlock()
	_ = c.nodes[2].peer(1).Campaign()
	for i := 0; i < 500 && c.qlen() > 0 && c.nodes[2].peer(1).Status().RaftState != myraft.StateLeader; i++ {
		c.deliverAt(0, false)
	}
	k := c.newCmd(rng, 1, "get")
	k.K = put.K
	c.call(c.nodes[2], 1, k, true)
	c.pump(500)
	for i := 0; i < 3; i++ {
		_ = c.nodes[2].peer(1).Tick()
		c.pump(500)
	}
}

func evsCoq(prop string, evs []*event) string {
	items := make([]string, len(evs))
	for i, e := range evs {
		items[i] = e.coq()
	}
	p := "22"
	if prop == "C23" {
		p = "23"
	}
	return "CCluster " + p + " [" + strings.Join(items, "; ") + "]"
}

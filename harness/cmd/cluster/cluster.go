package main

import (
	"fmt"
	"io"
	"log"
	"math/rand"
	"os"
	"path/filepath"
	"runtime"
	"strings"
	"sync"
	"sync/atomic"
	"time"

	"github.com/feichai0017/NoKV/manifest"
	"github.com/feichai0017/NoKV/pb"
	myraft "github.com/feichai0017/NoKV/raft"
	"github.com/feichai0017/NoKV/raftstore/peer"
	"github.com/feichai0017/NoKV/raftstore/store"
	"github.com/feichai0017/NoKV/wal"
)

const regionID = 1

// event is one observed event (Spec/ClusterSpec.v: oev). Events whose details
// are learned a little later (the id a proposal was registered under, the
// index of an applied entry) are appended when they happen and completed in
// place, so the order of the list is the real-time order.
type event struct {
	kind   string // start propose read apply serve exec ret
	s, w   uint64
	cmd    cmdSpec
	leader bool
	term   uint64
	pobs   string // PoNotLeader | (PoRegistered id) | PoStarted | PoOther
	index  uint64
	eterm  uint64
	reqid  uint64
	ans    *answer
	ridx   uint64
	mark   uint64
	robs   string // (RoOk uid v) | RoNotLeader | RoErr
}

func optAns(a *answer) string {
	if a == nil {
		return "None"
	}
	return "(Some " + a.coq() + ")"
}

func (e *event) coq() string {
	switch e.kind {
	case "start":
		return fmt.Sprintf("OStart %d", e.s)
	case "propose":
		return fmt.Sprintf("OPropose %d %d %s %v %d %s", e.s, e.w, e.cmd.coq(), e.leader, e.term, e.pobs)
	case "read":
		return fmt.Sprintf("ORead %d %d %s %v %d %s", e.s, e.w, e.cmd.coq(), e.leader, e.term, e.pobs)
	case "apply":
		return fmt.Sprintf("OApply %d %d %d %d %s %s", e.s, e.index, e.eterm, e.reqid, e.cmd.coq(), optAns(e.ans))
	case "serve":
		return fmt.Sprintf("OServe %d %d %d %d", e.s, e.w, e.ridx, e.mark)
	case "exec":
		return fmt.Sprintf("OExec %d %d %s", e.s, e.w, optAns(e.ans))
	case "ret":
		return fmt.Sprintf("ORet %d %s", e.w, e.robs)
	}
	return "?"
}

type node struct {
	c    *cluster
	id   uint64
	st   *store.Store
	peer *peer.Peer
	sm   *regSM // survives restarts, like the DB behind the real applier
	up   bool
	inc  *incarn
}

// incarn is one process lifetime of a store. A restart stands for a process
// crash: whatever goroutines of the old store.Store object are still around
// must not be observed any more (dead), and must not touch the state machine.
type incarn struct {
	n        *node
	dead     bool                        // guarded by cluster.mu
	reads    map[*pb.RaftCmdRequest]bool // requests announced by the read observer
	lastAppl *event
	peer     *peer.Peer
	wal      *wal.Manager
	man      *manifest.Manager
}

type opState struct {
	done chan struct{}
	ok   bool
}

type cluster struct {
	mu            sync.Mutex
	evs           []*event
	closed        bool
	queue         []myraft.Message
	cut           [4]bool
	nodes         [4]*node
	dir           string
	nextW         uint64
	ops           []*opState
	stats         map[string]int
	terms         map[uint64]uint64 // term -> store seen as leader
	readsInFlight atomic.Int32
}

type netT struct{ c *cluster }

func (n netT) Send(m myraft.Message) {
	b, err := m.Marshal()
	if err != nil {
		return
	}
	var cp myraft.Message
	if cp.Unmarshal(b) != nil {
		return
	}
	n.c.mu.Lock()
	n.c.queue = append(n.c.queue, cp)
	n.c.mu.Unlock()
}

var quietLogger = &myraft.DefaultLogger{Logger: log.New(io.Discard, "", 0)}

func newCluster(dir string) (*cluster, error) {
	c := &cluster{dir: dir, stats: map[string]int{}, terms: map[uint64]uint64{}}
	for id := uint64(1); id <= 3; id++ {
		n := &node{c: c, id: id, sm: newRegSM()}
		c.nodes[id] = n
		if err := n.start(); err != nil {
			return nil, err
		}
	}
	return c, nil
}

func (n *node) start() error {
	c := n.c
	in := &incarn{n: n, reads: map[*pb.RaftCmdRequest]bool{}}
	n.inc = in
	n.st = store.NewStoreWithConfig(store.Config{StoreID: n.id, CommandApplier: in.apply, CommandTimeout: 60 * time.Second})
	n.st.VerifObserve(in.onApply, func(ev store.VerifReadEvent) { in.onRead(ev, n.peerOf(in)) })
	region := manifest.RegionMeta{
		ID:    regionID,
		Epoch: manifest.RegionEpoch{Version: 1, ConfVersion: 1},
		Peers: []manifest.PeerMeta{{StoreID: 1, PeerID: 1}, {StoreID: 2, PeerID: 2}, {StoreID: 3, PeerID: 3}},
	}
	// The raft log lives where production keeps it: a WAL-backed storage
	// (engine.WALStorage) over a wal.Manager and a manifest in the store's
	// directory, reopened on restart.
	sdir := filepath.Join(c.dir, fmt.Sprintf("s%d", n.id))
	w, err := wal.Open(wal.Config{Dir: filepath.Join(sdir, "wal")})
	if err != nil {
		return err
	}
	m, err := manifest.Open(filepath.Join(sdir, "manifest"), nil)
	if err != nil {
		return err
	}
	in.wal, in.man = w, m
	cfg := &peer.Config{
		RaftConfig: myraft.Config{ID: n.id, ElectionTick: 10, HeartbeatTick: 1, MaxSizePerMsg: 1 << 20,
			MaxInflightMsgs: 256, PreVote: true, Logger: quietLogger},
		Transport: netT{c},
		WAL:       w,
		Manifest:  m,
		GroupID:   regionID,
		Region:    &region,
	}
	p, err := n.st.StartPeer(cfg, []myraft.Peer{{ID: 1}, {ID: 2}, {ID: 3}})
	if err != nil {
		return err
	}
	n.peer = p
	in.peer = p
	n.up = true
	return nil
}

// apply is Config.CommandApplier of the store.
func (in *incarn) apply(req *pb.RaftCmdRequest) (*pb.RaftCmdResponse, error) {
	spec, ok := parseReq(req)
	if !ok {
		return nil, fmt.Errorf("harness: unknown command")
	}
	n := in.n
	c := n.c
	if c.readsInFlight.Load() > 0 {
		// handleReady wakes readers (ReadStates) before it applies the committed
		// entries of the same Ready: give a woken reader the chance to overtake
		// the apply, so that a missing WaitApplied shows.
		time.Sleep(100 * time.Microsecond)
	}
	c.mu.Lock()
	defer c.mu.Unlock()
	if in.dead {
		return nil, fmt.Errorf("harness: store process is gone")
	}
	a, err := n.sm.exec(spec)
	if in.reads[req] {
		delete(in.reads, req)
		ev := &event{kind: "exec", s: n.id, w: spec.UID}
		if err == nil {
			ev.ans = &a
		}
		c.log(ev)
	} else {
		ev := &event{kind: "apply", s: n.id, cmd: spec}
		if err == nil {
			ev.ans = &a
		}
		c.log(ev)
		in.lastAppl = ev
	}
	if err != nil {
		return nil, err
	}
	return buildResp(req, a), nil
}

func (in *incarn) onApply(ev store.VerifApplyEvent) {
	c := in.n.c
	c.mu.Lock()
	defer c.mu.Unlock()
	if e := in.lastAppl; e != nil {
		e.index, e.eterm, e.reqid = ev.Index, ev.Term, ev.RequestID
		in.lastAppl = nil
	}
}

func (in *incarn) onRead(ev store.VerifReadEvent, p *peer.Peer) {
	mark := p.VerifAppliedMark()
	spec, _ := parseReq(ev.Req)
	n := in.n
	c := n.c
	c.mu.Lock()
	defer c.mu.Unlock()
	if in.dead {
		return
	}
	in.reads[ev.Req] = true
	c.log(&event{kind: "serve", s: n.id, w: spec.UID, ridx: ev.ReadIndex, mark: mark})
}

// log appends an event; the caller holds c.mu.
func (c *cluster) log(e *event) {
	if c.closed {
		return
	}
	c.evs = append(c.evs, e)
}

func (c *cluster) leaderClaims() []*node {
	var out []*node
	for id := 1; id <= 3; id++ {
		n := c.nodes[id]
		if n.up && n.peer.Status().RaftState == myraft.StateLeader {
			out = append(out, n)
		}
	}
	return out
}

func regionErrKind(resp *pb.RaftCmdResponse) string {
	if re := resp.GetRegionError(); re != nil {
		if re.GetNotLeader() != nil {
			return "notleader"
		}
		return "other"
	}
	return ""
}

// call issues ProposeCommand (read=false) or ReadCommand (read=true) on n from
// a client goroutine and waits until the call has either returned or reached
// the point where it blocks.
func (c *cluster) call(n *node, spec cmdSpec, read bool) {
	st := n.peer.Status()
	ev := &event{kind: "propose", s: n.id, w: spec.UID, cmd: spec, leader: st.RaftState == myraft.StateLeader, term: st.Term, pobs: "PoOther"}
	if read {
		ev.kind = "read"
	}
	if ev.leader {
		c.terms[st.Term] = n.id
	}
	before := map[uint64]bool{}
	for _, id := range n.st.VerifPendingProposals() {
		before[id] = true
	}
	readsBefore := n.peer.VerifReadSeq()
	matchBefore := st.Progress[n.id].Match
	op := &opState{done: make(chan struct{})}
	c.mu.Lock()
	c.log(ev)
	c.ops = append(c.ops, op)
	c.mu.Unlock()
	req := buildReq(spec, regionID)
	var early string
	in, st0 := n.inc, n.st
	if read {
		c.readsInFlight.Add(1)
	}
	go func() {
		var resp *pb.RaftCmdResponse
		var err error
		if read {
			resp, err = st0.ReadCommand(req)
			c.readsInFlight.Add(-1)
		} else {
			resp, err = st0.ProposeCommand(req)
		}
		r := &event{kind: "ret", w: spec.UID, robs: "RoErr"}
		if err == nil {
			switch regionErrKind(resp) {
			case "notleader":
				r.robs = "RoNotLeader"
				early = "PoNotLeader"
			case "":
				if a, ok := parseResp(resp); ok {
					v := "None"
					if a.Present {
						v = fmt.Sprintf("(Some %d)", a.V)
					}
					r.robs = fmt.Sprintf("(RoOk %d %s)", a.UID, v)
					op.ok = true
				}
			}
		}
		c.mu.Lock()
		if in.dead && op.ok {
			// the process died before the client got its answer
			r.robs, op.ok = "RoErr", false
		}
		c.log(r)
		c.mu.Unlock()
		close(op.done)
	}()
	deadline := time.Now().Add(2 * time.Second)
	for {
		select {
		case <-op.done:
			if early != "" {
				ev.pobs = early
			} else if !op.ok {
				ev.pobs = "PoDropped"
				c.stats["calls_refused_by_raft"]++
			}
			return
		default:
		}
		if read {
			if n.peer.VerifReadSeq() > readsBefore {
				ev.pobs = "PoStarted"
				break
			}
		} else {
			found := false
			for _, id := range n.st.VerifPendingProposals() {
				if !before[id] {
					ev.pobs = fmt.Sprintf("(PoRegistered %d)", id)
					found = true
				}
			}
			if found {
				break
			}
		}
		if time.Now().After(deadline) {
			return
		}
		runtime.Gosched()
		continue
	}
	// let the client goroutine hand its entry to raft (the leader's own Match
	// moves when it appends) and finish its own Ready processing
	if !read {
		for t0 := time.Now(); time.Since(t0) < 20*time.Millisecond; {
			if n.peer.Status().Progress[n.id].Match > matchBefore {
				break
			}
			select {
			case <-op.done:
				t0 = time.Time{}
			default:
				runtime.Gosched()
			}
		}
	}
	_ = n.peer.Flush()
	for i := 0; i < 20; i++ {
		runtime.Gosched()
	}
}

func (c *cluster) deliverAt(i int, keep bool) {
	c.mu.Lock()
	if i >= len(c.queue) {
		c.mu.Unlock()
		return
	}
	m := c.queue[i]
	if !keep {
		c.queue = append(c.queue[:i:i], c.queue[i+1:]...)
	}
	dropped := c.cut[m.From] || c.cut[m.To]
	c.mu.Unlock()
	n := c.nodes[m.To]
	if dropped || n == nil || !n.up {
		return
	}
	_ = n.st.Step(m)
}

func (c *cluster) qlen() int {
	c.mu.Lock()
	defer c.mu.Unlock()
	return len(c.queue)
}

func (c *cluster) pump(max int) {
	for i := 0; i < max && c.qlen() > 0; i++ {
		c.deliverAt(0, false)
	}
}

func (c *cluster) restart(n *node) error {
	n.up = false
	c.mu.Lock()
	n.inc.dead = true
	c.log(&event{kind: "start", s: n.id})
	c.mu.Unlock()
	n.stop()
	return n.start()
}

func (n *node) stop() {
	n.st.StopPeer(n.id)
	n.st.Close()
	if n.inc.wal != nil {
		_ = n.inc.wal.Close()
	}
	if n.inc.man != nil {
		_ = n.inc.man.Close()
	}
}

// peerOf returns the peer of incarnation in (the read observer runs on client
// goroutines, possibly while the node is being restarted).
func (n *node) peerOf(in *incarn) *peer.Peer { return in.peer }

func (c *cluster) pendingOps() int {
	k := 0
	for _, op := range c.ops {
		select {
		case <-op.done:
		default:
			k++
		}
	}
	return k
}

// finish heals the network, lets the cluster settle and returns the trace.
func (c *cluster) finish() []*event {
	c.mu.Lock()
	c.cut = [4]bool{}
	c.mu.Unlock()
	for round := 0; round < 80; round++ {
		for id := 1; id <= 3; id++ {
			if c.nodes[id].up {
				_ = c.nodes[id].peer.Tick()
			}
		}
		c.pump(2000)
		if round > 3 && c.pendingOps() == 0 && c.qlen() == 0 {
			break
		}
		if round%8 == 7 && len(c.leaderClaims()) == 0 {
			_ = c.nodes[1+round%3].peer.Campaign()
		}
	}
	// give returning client goroutines a moment to log their result
	for i := 0; i < 50 && c.pendingOps() > 0; i++ {
		time.Sleep(200 * time.Microsecond)
	}
	c.mu.Lock()
	c.closed = true
	evs := c.evs
	c.mu.Unlock()
	for id := 1; id <= 3; id++ {
		n := c.nodes[id]
		if n.up {
			n.stop()
		}
	}
	_ = os.RemoveAll(c.dir)
	return evs
}

// runSpec describes one cluster run; Desc of the emitted case, so that a run
// can be repeated (goroutine timing is the only thing not controlled).
type runSpec struct {
	Seed    int64  `json:"seed"`
	Steps   int    `json:"steps"`
	Profile string `json:"profile"` // mixed | reads | f20
}

func (c *cluster) newCmd(rng *rand.Rand, kind string) cmdSpec {
	c.nextW++
	w := c.nextW
	return cmdSpec{UID: w, Kind: kind, K: uint64(rng.Intn(2)), V: w}
}

func runOne(spec runSpec, dir string) ([]*event, map[string]int, error) {
	_ = os.RemoveAll(dir)
	c, err := newCluster(dir)
	if err != nil {
		return nil, nil, err
	}
	rng := rand.New(rand.NewSource(spec.Seed))
	if spec.Profile == "f20" {
		c.scriptF20()
		return c.finish(), c.stats, nil
	}
	if spec.Profile == "newleader" {
		c.scriptNewLeaderRead()
		return c.finish(), c.stats, nil
	}
	_ = c.nodes[1+rng.Intn(3)].peer.Campaign()
	c.pump(200)
	maxOps := 9
	restarts := 0
	dbg := os.Getenv("VERIF_CLUSTER_DEBUG") != ""
	for step := 0; step < spec.Steps; step++ {
		r := rng.Intn(100)
		if dbg {
			fmt.Fprintf(os.Stderr, "step %d r=%d q=%d\n", step, r, c.qlen())
		}
		switch {
		case r < 40:
			if q := c.qlen(); q > 0 {
				i := 0
				if rng.Intn(10) < 3 {
					i = rng.Intn(q)
					if i > 0 {
						c.stats["reordered"]++
					}
				}
				switch f := rng.Intn(100); {
				case f < 6:
					c.stats["duplicated"]++
					c.deliverAt(i, true)
				case f < 14:
					c.stats["dropped"]++
					c.mu.Lock()
					c.queue = append(c.queue[:i:i], c.queue[i+1:]...)
					c.mu.Unlock()
				default:
					c.deliverAt(i, false)
				}
			}
		case r < 52:
			c.pump(1 + rng.Intn(8))
		case r < 64:
			if n := c.nodes[1+rng.Intn(3)]; n.up {
				_ = n.peer.Tick()
			}
		case r < 82:
			if int(c.nextW) >= maxOps {
				continue
			}
			var n *node
			if ls := c.leaderClaims(); len(ls) > 0 && rng.Intn(10) < 8 {
				n = ls[rng.Intn(len(ls))]
			} else {
				n = c.nodes[1+rng.Intn(3)]
			}
			if !n.up {
				continue
			}
			k := rng.Intn(100)
			readShare := 30
			if spec.Profile == "reads" {
				readShare = 55
			}
			switch {
			case k < readShare:
				c.call(n, c.newCmd(rng, "get"), true)
			case k < readShare+12:
				c.call(n, c.newCmd(rng, "get"), false)
			default:
				c.call(n, c.newCmd(rng, "put"), false)
			}
		case r < 87:
			if n := c.nodes[1+rng.Intn(3)]; n.up {
				c.stats["campaigns"]++
				_ = n.peer.Campaign()
			}
		case r < 92:
			c.mu.Lock()
			if rng.Intn(2) == 0 {
				c.cut = [4]bool{}
			} else {
				c.cut = [4]bool{}
				c.cut[1+rng.Intn(3)] = true
				c.stats["partitions"]++
			}
			c.mu.Unlock()
		case r < 95:
			if restarts < 2 {
				restarts++
				c.stats["restarts"]++
				if err := c.restart(c.nodes[1+rng.Intn(3)]); err != nil {
					return nil, nil, err
				}
			}
		default:
			if ls := c.leaderClaims(); len(ls) > 0 {
				c.stats["transfers"]++
				_ = ls[0].peer.TransferLeader(uint64(1 + rng.Intn(3)))
			}
		}
	}
	evs := c.finish()
	return evs, c.stats, nil
}

// scriptF20: the scenario of finding F20. Store 1 is leader and is cut off;
// a client proposes A there (its entry stays local). Store 2 is elected and a
// client proposes B there. Before the repair both proposals carried request
// id 1, and when store 1 applied B it answered A's caller with B's result.
func (c *cluster) scriptF20() {
	rng := rand.New(rand.NewSource(1))
	_ = c.nodes[1].peer.Campaign()
	c.pump(500)
	c.mu.Lock()
	c.cut[1] = true
	c.mu.Unlock()
	c.call(c.nodes[1], c.newCmd(rng, "put"), false)
	_ = c.nodes[2].peer.Campaign()
	c.pump(500)
	c.call(c.nodes[2], c.newCmd(rng, "put"), false)
	c.pump(500)
	c.mu.Lock()
	c.cut = [4]bool{}
	c.mu.Unlock()
	for i := 0; i < 4; i++ {
		_ = c.nodes[2].peer.Tick()
		c.pump(500)
	}
	c.call(c.nodes[2], c.newCmd(rng, "get"), true)
	c.pump(500)
}

// scriptNewLeaderRead: a write is acknowledged by leader 1 while follower 2 has
// the entry but has not learned that it is committed; 2 is then elected and
// asked to read before it has committed anything in its own term. The read
// index and the entries it covers arrive in one Ready: ReadCommand has to
// wait for them (WaitApplied) or it serves the state before the acknowledged
// write.
func (c *cluster) scriptNewLeaderRead() {
	rng := rand.New(rand.NewSource(1))
	_ = c.nodes[1].peer.Campaign()
	c.pump(500)
	c.call(c.nodes[1], c.newCmd(rng, "put"), false)
	op := c.ops[len(c.ops)-1]
	if os.Getenv("VERIF_CLUSTER_DEBUG") != "" {
		fmt.Fprintf(os.Stderr, "after put: q=%d leader1=%v\n", c.qlen(), c.nodes[1].peer.Status().RaftState)
	}
	for i := 0; i < 500 && c.qlen() > 0; i++ {
		if os.Getenv("VERIF_CLUSTER_DEBUG") != "" {
			c.mu.Lock()
			fmt.Fprintf(os.Stderr, "deliver %v %d->%d\n", c.queue[0].Type, c.queue[0].From, c.queue[0].To)
			c.mu.Unlock()
		}
		c.deliverAt(0, false)
		runtime.Gosched()
		select {
		case <-op.done:
			i = 500
		default:
		}
	}
	c.mu.Lock()
	c.queue = nil // store 2 never hears about the commit from store 1
	c.cut[1] = true
	c.mu.Unlock()
	_ = c.nodes[2].peer.Campaign()
	for i := 0; i < 500 && c.qlen() > 0 && c.nodes[2].peer.Status().RaftState != myraft.StateLeader; i++ {
		c.deliverAt(0, false)
	}
	k := c.newCmd(rng, "get")
	k.K = c.evs[0].cmd.K
	c.call(c.nodes[2], k, true)
	c.pump(500)
	for i := 0; i < 3; i++ {
		_ = c.nodes[2].peer.Tick()
		c.pump(500)
	}
}

func evsCoq(prop string, evs []*event) string {
	items := make([]string, len(evs))
	for i, e := range evs {
		items[i] = e.coq()
	}
	p := "22"
	if prop == "C23" {
		p = "23"
	}
	return "CCluster " + p + " [" + strings.Join(items, "; ") + "]"
}

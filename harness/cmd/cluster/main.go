// Harness binary for C22 / C23 (command pipeline, leader checks, linearizable
// reads on a 3-store cluster).
package main

import "verifharness/internal/corr"

func main() { corr.Main(map[string]corr.Family{"cluster": runCluster}) }

package main

import (
	"encoding/binary"
	"errors"
	"fmt"

	"github.com/feichai0017/NoKV/pb"
)

// The register map used as Config.CommandApplier (Spec/ClusterSpec.v: rapply).
// A command is carried by ordinary pb requests so that it passes
// validateRequestKeys and isReadOnlyRequest:
//   put k v  = CMD_PREWRITE, one Put mutation (key "k<k>", 8-byte value), StartVersion = uid
//   get k    = CMD_GET key "k<k>", Version = uid
//   fail     = CMD_GET key "fail", Version = uid   (the applier returns an error)
// The answer is a GetResponse whose value is uid(8) ++ value(8), NotFound = no value.

type cmdSpec struct {
	UID  uint64 `json:"uid"`
	Kind string `json:"kind"` // put | get | fail
	K    uint64 `json:"k"`
	V    uint64 `json:"v,omitempty"`
}

func (c cmdSpec) coq() string {
	switch c.Kind {
	case "put":
		return fmt.Sprintf("(Pt %d %d %d)", c.UID, c.K, c.V)
	case "get":
		return fmt.Sprintf("(Gt %d %d)", c.UID, c.K)
	}
	return fmt.Sprintf("(Fl %d)", c.UID)
}

func keyBytes(k uint64) []byte { return []byte(fmt.Sprintf("k%d", k)) }

func buildReq(c cmdSpec, regionID uint64) *pb.RaftCmdRequest {
	req := &pb.RaftCmdRequest{Header: &pb.CmdHeader{RegionId: regionID, RegionEpoch: &pb.RegionEpoch{Version: 1, ConfVer: 1}}}
	switch c.Kind {
	case "put":
		v := make([]byte, 8)
		binary.BigEndian.PutUint64(v, c.V)
		req.Requests = []*pb.Request{{CmdType: pb.CmdType_CMD_PREWRITE, Cmd: &pb.Request_Prewrite{Prewrite: &pb.PrewriteRequest{
			Mutations: []*pb.Mutation{{Op: pb.Mutation_Put, Key: keyBytes(c.K), Value: v}}, StartVersion: c.UID}}}}
	case "get":
		req.Requests = []*pb.Request{{CmdType: pb.CmdType_CMD_GET, Cmd: &pb.Request_Get{Get: &pb.GetRequest{Key: keyBytes(c.K), Version: c.UID}}}}
	default:
		req.Requests = []*pb.Request{{CmdType: pb.CmdType_CMD_GET, Cmd: &pb.Request_Get{Get: &pb.GetRequest{Key: []byte("fail"), Version: c.UID}}}}
	}
	return req
}

func parseReq(req *pb.RaftCmdRequest) (cmdSpec, bool) {
	rs := req.GetRequests()
	if len(rs) != 1 || rs[0] == nil {
		return cmdSpec{}, false
	}
	var k uint64
	switch rs[0].GetCmdType() {
	case pb.CmdType_CMD_PREWRITE:
		p := rs[0].GetPrewrite()
		if p == nil || len(p.GetMutations()) != 1 || len(p.GetMutations()[0].GetValue()) != 8 {
			return cmdSpec{}, false
		}
		if _, err := fmt.Sscanf(string(p.GetMutations()[0].GetKey()), "k%d", &k); err != nil {
			return cmdSpec{}, false
		}
		return cmdSpec{UID: p.GetStartVersion(), Kind: "put", K: k, V: binary.BigEndian.Uint64(p.GetMutations()[0].GetValue())}, true
	case pb.CmdType_CMD_GET:
		g := rs[0].GetGet()
		if string(g.GetKey()) == "fail" {
			return cmdSpec{UID: g.GetVersion(), Kind: "fail"}, true
		}
		if _, err := fmt.Sscanf(string(g.GetKey()), "k%d", &k); err != nil {
			return cmdSpec{}, false
		}
		return cmdSpec{UID: g.GetVersion(), Kind: "get", K: k}, true
	}
	return cmdSpec{}, false
}

// answer = (uid, value present?, value)
type answer struct {
	UID     uint64 `json:"uid"`
	Present bool   `json:"present"`
	V       uint64 `json:"v,omitempty"`
}

func (a answer) coq() string {
	if a.Present {
		return fmt.Sprintf("(%d, Some %d)", a.UID, a.V)
	}
	return fmt.Sprintf("(%d, None)", a.UID)
}

func buildResp(req *pb.RaftCmdRequest, a answer) *pb.RaftCmdResponse {
	v := make([]byte, 16)
	binary.BigEndian.PutUint64(v, a.UID)
	binary.BigEndian.PutUint64(v[8:], a.V)
	return &pb.RaftCmdResponse{Header: req.GetHeader(), Responses: []*pb.Response{{
		Cmd: &pb.Response_Get{Get: &pb.GetResponse{Value: v, NotFound: !a.Present}}}}}
}

func parseResp(resp *pb.RaftCmdResponse) (answer, bool) {
	rs := resp.GetResponses()
	if len(rs) != 1 || rs[0].GetGet() == nil || len(rs[0].GetGet().GetValue()) != 16 {
		return answer{}, false
	}
	g := rs[0].GetGet()
	a := answer{UID: binary.BigEndian.Uint64(g.GetValue()), Present: !g.GetNotFound()}
	if a.Present {
		a.V = binary.BigEndian.Uint64(g.GetValue()[8:])
	}
	return a, true
}

var errFailCmd = errors.New("register map: fail command")

type regSM struct{ m map[uint64]uint64 }

func newRegSM() *regSM { return &regSM{m: map[uint64]uint64{}} }

// exec runs one command (not synchronised: callers hold the cluster lock).
func (s *regSM) exec(c cmdSpec) (answer, error) {
	switch c.Kind {
	case "put":
		old, ok := s.m[c.K]
		s.m[c.K] = c.V
		return answer{UID: c.UID, Present: ok, V: old}, nil
	case "get":
		v, ok := s.m[c.K]
		return answer{UID: c.UID, Present: ok, V: v}, nil
	}
	return answer{}, errFailCmd
}

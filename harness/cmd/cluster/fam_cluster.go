package main

import (
	"encoding/json"
	"fmt"
	"math/rand"
	"os"
	"path/filepath"
	"runtime/pprof"
	"sort"
	"strings"
	"sync"
	"time"

	"github.com/feichai0017/NoKV/pb"
	myraft "github.com/feichai0017/NoKV/raft"
	"github.com/feichai0017/NoKV/raftstore/command"
	"github.com/feichai0017/NoKV/raftstore/store"
	"verifharness/internal/corr"
)

// ---- pipeline unit cases (CPipe) ----

type pipeSpec struct {
	Seed  int64 `json:"pipe_seed"`
	Steps int   `json:"steps"`
}

func classifyApplyErr(err error) string {
	if err == nil {
		return "AOk"
	}
	m := err.Error()
	switch {
	case strings.Contains(m, "apply request"):
		return "AErrApply"
	case strings.Contains(m, "unsupported legacy"):
		return "AErrLegacy"
	}
	return "AErrDecode"
}

func pipeCase(spec pipeSpec) corr.Case {
	rng := rand.New(rand.NewSource(spec.Seed))
	sm := newRegSM()
	type seenT struct {
		uid uint64
		ans *answer
	}
	var seen []seenT
	vp := store.VerifNewPipeline(func(req *pb.RaftCmdRequest) (*pb.RaftCmdResponse, error) {
		c, ok := parseReq(req)
		if !ok {
			return nil, fmt.Errorf("harness: unknown command")
		}
		a, err := sm.exec(c)
		if err != nil {
			seen = append(seen, seenT{c.UID, nil})
			return nil, err
		}
		seen = append(seen, seenT{c.UID, &a})
		return buildResp(req, a), nil
	})
	terms := []uint64{0, 1, 2, 3, 1<<32 - 1, 1 << 32, 1<<40 + 5, 1<<63 + 9}
	ids := []uint64{0, 1, 2, 3, 1<<32 | 1, 1<<32 | 2, 2<<32 | 1}
	var steps []string
	var toks []uint64
	uid := uint64(0)
	collide := false
	registered := map[uint64]bool{}
	// a store that has already handed out about 2^32 (or 2^64) request ids: the
	// counter's overflow must not reach the term half of the id
	seqs := []uint64{1<<32 - 3, 1<<32 - 1, 1 << 32, 1<<32 + 6, 1<<33 - 2, 5<<32 + 1, 1<<64 - 2}
	presetAt := -1
	if rng.Intn(2) == 0 {
		presetAt = rng.Intn(spec.Steps/2 + 1)
		terms = append(terms, 4, 5, 6)
	}
	for i := 0; i < spec.Steps; i++ {
		if i == presetAt {
			n := seqs[rng.Intn(len(seqs))]
			vp.SetSeq(n)
			steps = append(steps, fmt.Sprintf("USeq %d", n))
			// directed: this store leads term t; another store (fresh process) leads term t+k,
			// where k is what the counter's overflow would add to the term half of the id
			if k, j := (n+1)>>32, (n+1)&0xffffffff; k >= 1 && k < 1<<20 && j >= 1 && j <= 16 {
				t := uint64(rng.Intn(7))
				id := vp.NextID(t)
				ids = append(ids, id)
				steps = append(steps, fmt.Sprintf("UNext %d %d", t, id))
				other := store.VerifNewPipeline(func(*pb.RaftCmdRequest) (*pb.RaftCmdResponse, error) { return nil, nil })
				for q := uint64(0); q < j; q++ {
					oid := other.NextID(t + k)
					steps = append(steps, fmt.Sprintf("UOther %d %d", t+k, oid))
				}
			}
		}
		switch r := rng.Intn(100); {
		case r < 20:
			t := terms[rng.Intn(len(terms))]
			id := vp.NextID(t)
			ids = append(ids, id)
			steps = append(steps, fmt.Sprintf("UNext %d %d", t, id))
		case r < 50:
			id := ids[rng.Intn(len(ids))]
			region := uint64(rng.Intn(3))
			tok := uint64(len(toks) + 1)
			ok, dup := vp.Register(region, id, tok)
			obs := "RegNil"
			if ok {
				obs = "RegOk"
				toks = append(toks, tok)
				registered[id] = true
			} else if dup {
				obs = "RegDup"
				collide = true
			}
			steps = append(steps, fmt.Sprintf("UReg %d %d %d %s", region, id, tok, obs))
		case r < 58:
			id := ids[rng.Intn(len(ids))]
			region := uint64(rng.Intn(3))
			vp.Remove(region, id)
			steps = append(steps, fmt.Sprintf("URem %d %d", region, id))
		default:
			n := rng.Intn(4)
			var es []myraft.Entry
			var ces []string
			for j := 0; j < n; j++ {
				idx, term := uint64(rng.Intn(50)), uint64(rng.Intn(5))
				e := myraft.Entry{Index: idx, Term: term, Type: myraft.EntryNormal}
				switch k := rng.Intn(100); {
				case k < 70:
					uid++
					c := cmdSpec{UID: uid, Kind: "put", K: uint64(rng.Intn(2)), V: uid}
					if q := rng.Intn(10); q < 3 {
						c.Kind = "get"
					} else if q == 3 {
						c.Kind = "fail"
					}
					id := ids[rng.Intn(len(ids))]
					region := uint64(rng.Intn(3))
					req := buildReq(c, region)
					req.Header.RequestId = id
					e.Data, _ = command.Encode(req)
					ces = append(ces, fmt.Sprintf("En %d %d %d %d %s", idx, term, region, id, c.coq()))
				case k < 78:
					ces = append(ces, fmt.Sprintf("Ex %d %d ENormal PEmpty", idx, term))
				case k < 84:
					e.Data = []byte{command.PayloadPrefix, 0xff}
					ces = append(ces, fmt.Sprintf("Ex %d %d ENormal PGarbage", idx, term))
				case k < 90:
					e.Data = []byte{0xAD, 0x01}
					ces = append(ces, fmt.Sprintf("Ex %d %d ENormal PAdmin", idx, term))
				case k < 95:
					e.Data = []byte("legacy")
					ces = append(ces, fmt.Sprintf("Ex %d %d ENormal PLegacy", idx, term))
				default:
					e.Type = myraft.EntryConfChange
					e.Data = []byte{1, 2, 3}
					ces = append(ces, fmt.Sprintf("Ex %d %d EConf PLegacy", idx, term))
				}
				es = append(es, e)
			}
			seen = seen[:0]
			err := vp.Apply(es)
			var ss []string
			for _, s := range seen {
				ss = append(ss, fmt.Sprintf("(%d, %s)", s.uid, optAns(s.ans)))
			}
			steps = append(steps, fmt.Sprintf("UApply %s %s %s", corr.List(ces), classifyApplyErr(err), corr.List(ss)))
		}
	}
	var final []string
	completed := 0
	for _, tok := range toks {
		resp, err, done := vp.Result(tok)
		switch {
		case !done:
			final = append(final, fmt.Sprintf("(%d, None)", tok))
		case err != nil:
			completed++
			final = append(final, fmt.Sprintf("(%d, Some None)", tok))
		default:
			completed++
			a, _ := parseResp(resp)
			final = append(final, fmt.Sprintf("(%d, Some (Some %s))", tok, a.coq()))
		}
	}
	return corr.Case{
		Coq:        fmt.Sprintf("CPipe %s %s", corr.List(wrap(steps)), corr.List(final)),
		Nontrivial: completed > 0 && (collide || len(toks) > 1),
		Desc:       spec,
	}
}

func wrap(xs []string) []string {
	out := make([]string, len(xs))
	for i, x := range xs {
		out[i] = "(" + x + ")"
	}
	return out
}

// ---- cluster cases (CCluster) ----

func clusterCase(c *corr.Ctx, spec runSpec, n int) (corr.Case, map[string]int, error) {
	dir := filepath.Join(c.Out, fmt.Sprintf("cl-%d", n))
	evs, stats, err := runOne(spec, dir)
	if err != nil {
		return corr.Case{}, nil, err
	}
	okOps, notLeader, reads, applies, starts := 0, 0, 0, 0, 0
	leaders := map[uint64]bool{}
	for _, e := range evs {
		switch e.kind {
		case "ret":
			if strings.HasPrefix(e.robs, "(RoOk") {
				okOps++
			} else if e.robs == "RoNotLeader" {
				notLeader++
			}
		case "exec":
			reads++
		case "apply":
			applies++
		case "start":
			starts++
		case "propose", "read":
			if e.leader {
				leaders[e.s] = true
			}
		}
	}
	if spec.CheckQuorum || spec.Profile == "lease" {
		stats["runs_check_quorum"]++
	}
	if spec.NoPreVote {
		stats["runs_no_prevote"]++
	}
	if spec.Regions > 1 || spec.Profile == "tworegions" {
		stats["runs_two_regions"]++
	}
	st := map[string]int{"ops_ok": okOps, "ops_notleader": notLeader, "reads_served": reads, "applies": applies, "runs": 1}
	if len(leaders) > 1 {
		st["runs_with_leader_change"] = 1
	}
	for k, v := range stats {
		st[k] += v
	}
	var lines []string
	for _, e := range evs {
		lines = append(lines, e.coq())
	}
	return corr.Case{
		Coq:        evsCoq(c.Prop, evs),
		Nontrivial: okOps >= 2 && (len(leaders) > 1 || starts > 0 || reads > 0),
		Desc:       map[string]any{"run": spec, "trace": lines},
	}, st, nil
}

func runCluster(c *corr.Ctx) error {
	c.Meta("run_module", "RunCluster")
	c.Meta("exhaustive", false)
	c.Meta("rule", "CPipe: random op sequences (nextProposalID with boundary terms, registerProposal incl. id 0 and duplicates, removeProposal, applyEntries over command / empty / undecodable / legacy / admin / conf-change entries and failing commands) on a bare commandPipeline; non-trivial = some waiter completed and ids were reused or several waiters existed. "+
		"CCluster: 3 real store.Store on an in-memory transport; PRNG-driven delivery (30% out of order, 6% duplicated, 8% dropped), ticks, campaigns, leader transfers, single-store partitions, up to 2 store restarts from the store directory (WAL-backed raft logs), in 16 serial runs also storage faults (the tree's before-storage failpoint while a store handles a Ready, then the store dies and restarts), a quarter of the runs with MaxSizePerMsg=150 so committed entries are paged, a third of the runs with raft CheckQuorum on and a fifth with PreVote off, scripted runs (PreVote on and off) for a read on a cut-off leader whose clock stalls under CheckQuorum while the others elect a leader and acknowledge an overwrite, scripted runs for a follower storage fault + crash + leader change and for a read on a new leader with a paged backlog on a zero-latency network, one region or (every second run) two regions sharing each store's pipeline, with a scripted two-region run where both leaders hand out the same request id, up to 9 client calls (put / get through ProposeCommand, get through ReadCommand) aimed 80% at a store that claims leadership; the observed trace (apply observer, read observer, call/return) is replayed through the model and judged by the spec oracles; non-trivial = at least 2 successful calls and a leader change, a restart or a served read; distinct by Gallina term")

	if c.Replay != "" {
		cases, err := c.ReplayCases()
		if err != nil {
			return err
		}
		for i, cs := range cases {
			b, _ := json.Marshal(cs.Desc)
			var d struct {
				Run  *runSpec `json:"run"`
				Seed *int64   `json:"pipe_seed"`
				Step int      `json:"steps"`
			}
			_ = json.Unmarshal(b, &d)
			switch {
			case d.Run != nil:
				out, _, err := clusterCase(c, *d.Run, i)
				if err != nil {
					return err
				}
				c.Emit(out)
			case d.Seed != nil:
				c.Emit(pipeCase(pipeSpec{Seed: *d.Seed, Steps: d.Step}))
			}
		}
		return nil
	}

	if one := os.Getenv("VERIF_CLUSTER_ONE"); one != "" {
		var sp runSpec
		if _, err := fmt.Sscanf(one, "%d,%d,%d,%s", &sp.Seed, &sp.Steps, &sp.Regions, &sp.Profile); err != nil {
			return err
		}
		cs, st, err := clusterCase(c, sp, 0)
		if err != nil {
			return err
		}
		for k, v := range st {
			c.CountN(k, v)
		}
		c.Emit(cs)
		return nil
	}

	// pipeline unit cases
	np := c.Scale(200, 6000)
	for i := 0; i < np; i++ {
		cs := pipeCase(pipeSpec{Seed: c.Rng.Int63(), Steps: 6 + c.Rng.Intn(30)})
		c.Count("pipe_cases")
		c.Emit(cs)
	}

	// cluster runs, a few at a time
	nc := c.Scale(110, 2500)
	specs := make([]runSpec, 0, nc+3)
	specs = append(specs, runSpec{Seed: 1, Profile: "f20"}, runSpec{Seed: 1, Profile: "newleader"},
		runSpec{Seed: 1, Profile: "tworegions"})
	for i := 0; i < nc; i++ {
		p := "mixed"
		if c.Prop == "C23" || i%3 == 2 {
			p = "reads"
		}
		sp := runSpec{Seed: c.Rng.Int63(), Steps: 60 + c.Rng.Intn(140), Profile: p, Regions: 1 + i%2}
		if i%4 == 1 {
			sp.MaxMsg = 150 // committed entries are handed out a few at a time
		}
		sp.CheckQuorum = i%3 == 0 // the non-default raft option, in a third of the runs
		sp.NoPreVote = i%5 == 2
		specs = append(specs, sp)
	}
	// runs with storage faults use the tree's process-wide failpoint: they execute alone, before the others
	serial := []runSpec{{Seed: 1, Profile: "storagefault"}, {Seed: 1, Profile: "backlog"},
		{Seed: 1, Profile: "lease"}, {Seed: 1, Profile: "lease", NoPreVote: true}}
	for i, nf := 0, c.Scale(16, 400); i < nf; i++ {
		serial = append(serial, runSpec{Seed: c.Rng.Int63(), Steps: 80 + c.Rng.Intn(120), Profile: "mixed", Regions: 1 + i%2, Faults: true})
	}
	nserial := len(serial)
	specs = append(serial, specs...)
	type res struct {
		cs  corr.Case
		st  map[string]int
		err error
	}
	out := make([]res, len(specs))
	var wg sync.WaitGroup
	sem := make(chan struct{}, 6)
	for i := 0; i < nserial; i++ {
		cs, st, err := clusterCase(c, specs[i], i)
		out[i] = res{cs, st, err}
	}
	for i := nserial; i < len(specs); i++ {
		wg.Add(1)
		sem <- struct{}{}
		go func(i int) {
			defer wg.Done()
			defer func() { <-sem }()
			fin := make(chan struct{})
			if os.Getenv("VERIF_CLUSTER_WATCH") != "" {
				go func() {
					select {
					case <-fin:
					case <-time.After(5 * time.Second):
						fmt.Fprintf(os.Stderr, "STUCK run %d spec %+v\n", i, specs[i])
						for k := 0; k < 3; k++ {
							f, _ := os.Create(fmt.Sprintf("/verif/run/tmp/w-cluster/stuck-%d.txt", k))
							pprof.Lookup("goroutine").WriteTo(f, 1)
							f.Close()
							time.Sleep(300 * time.Millisecond)
						}
					}
				}()
			}
			cs, st, err := clusterCase(c, specs[i], i)
			close(fin)
			out[i] = res{cs, st, err}
		}(i)
	}
	wg.Wait()
	for _, r := range out {
		if r.err != nil {
			return r.err
		}
		keys := make([]string, 0, len(r.st))
		for k := range r.st {
			keys = append(keys, k)
		}
		sort.Strings(keys)
		for _, k := range keys {
			c.CountN(k, r.st[k])
		}
		c.Emit(r.cs)
	}
	return nil
}

package main

import (
	"encoding/json"
	"fmt"
	"os"
	"path/filepath"
	"sort"

	"github.com/feichai0017/NoKV/manifest"
	"github.com/feichai0017/NoKV/pb"
	myraft "github.com/feichai0017/NoKV/raft"
	"github.com/feichai0017/NoKV/raftstore/peer"
	"github.com/feichai0017/NoKV/raftstore/store"
	"verifharness/internal/corr"
)

// C24: split / merge / removal on a real Store over a real manifest.

type rgMeta struct {
	ID         uint64
	Start, End []byte
	Ver, Conf  uint64
	State      uint8
}

type rgOp struct {
	Kind  string // update setstate remove split merge
	Meta  rgMeta // update: the meta; split: the child
	ID    uint64 // setstate / remove: region; split: parent; merge: target
	ID2   uint64 // merge: source
	State uint8
	Key   []byte // split key
	// split: the child names no peer on this store, so the peer builder rejects it
	// after the parent was shrunk and SplitRegion has to put the parent back
	Unhosted bool
}

type rgCase struct {
	Ops []rgOp
}

func (m rgMeta) coq() string {
	return fmt.Sprintf("(Rm %d %s %s %d %d %d)", m.ID, corr.Hex(m.Start), corr.Hex(m.End), m.Ver, m.Conf, m.State)
}

func (m rgMeta) manifest(peerID uint64) manifest.RegionMeta {
	return manifest.RegionMeta{ID: m.ID, StartKey: m.Start, EndKey: m.End,
		Epoch: manifest.RegionEpoch{Version: m.Ver, ConfVersion: m.Conf},
		Peers: []manifest.PeerMeta{{StoreID: 1, PeerID: peerID}}, State: manifest.RegionState(m.State)}
}

type rgNoopTransport struct{}

func (rgNoopTransport) Send(myraft.Message) {}

func rgPeerBuilder(meta manifest.RegionMeta) (*peer.Config, error) {
	var peerID uint64
	for _, p := range meta.Peers {
		if p.StoreID == 1 {
			peerID = p.PeerID
		}
	}
	if peerID == 0 {
		return nil, fmt.Errorf("store 1 missing peer in region %d", meta.ID)
	}
	return &peer.Config{
		RaftConfig: myraft.Config{ID: peerID, ElectionTick: 5, HeartbeatTick: 1, MaxSizePerMsg: 1 << 20, MaxInflightMsgs: 256, PreVote: true},
		Transport:  rgNoopTransport{},
		Apply:      func([]myraft.Entry) error { return nil },
		GroupID:    meta.ID,
		Region:     manifest.CloneRegionMetaPtr(&meta),
	}, nil
}

func rgListing(rs *store.Store) string {
	metas := rs.RegionMetas()
	sort.Slice(metas, func(i, j int) bool { return metas[i].ID < metas[j].ID })
	out := make([]string, len(metas))
	for i, m := range metas {
		out[i] = rgMeta{ID: m.ID, Start: m.StartKey, End: m.EndKey, Ver: m.Epoch.Version, Conf: m.Epoch.ConfVersion, State: uint8(m.State)}.coq()
	}
	return corr.List(out)
}

func rgRun(c *corr.Ctx, d rgCase, serial int) (corr.Case, error) {
	dir := filepath.Join(c.Out, "work", fmt.Sprintf("rg-%d", serial))
	if err := os.MkdirAll(dir, 0o755); err != nil {
		return corr.Case{}, err
	}
	defer os.RemoveAll(dir)
	man, err := manifest.Open(dir, nil)
	if err != nil {
		return corr.Case{}, err
	}
	rs := store.NewStoreWithConfig(store.Config{StoreID: 1, Manifest: man, PeerBuilder: rgPeerBuilder})
	nextPeer := uint64(1000)
	var steps []string
	admin := 0
	for _, op := range d.Ops {
		var term string
		var err error
		switch op.Kind {
		case "update":
			nextPeer++
			err = rs.UpdateRegion(op.Meta.manifest(nextPeer))
			term = "Up " + op.Meta.coq()
		case "setstate":
			err = rs.UpdateRegionState(op.ID, manifest.RegionState(op.State))
			term = fmt.Sprintf("Ss %d %d", op.ID, op.State)
		case "remove":
			err = rs.RemoveRegion(op.ID)
			term = fmt.Sprintf("Rv %d", op.ID)
		case "split":
			nextPeer++
			ch := op.Meta.manifest(nextPeer)
			err = rs.VerifApplyAdmin(&pb.AdminCommand{Type: pb.AdminCommand_SPLIT, Split: &pb.SplitCommand{
				ParentRegionId: op.ID, SplitKey: op.Key,
				Child: &pb.RegionMeta{Id: ch.ID, StartKey: ch.StartKey, EndKey: ch.EndKey, EpochVersion: ch.Epoch.Version,
					EpochConfVersion: ch.Epoch.ConfVersion, Peers: []*pb.RegionPeer{{StoreId: rgHost(op.Unhosted), PeerId: nextPeer}}}}})
			term = fmt.Sprintf("Sp %d %s %s", op.ID, corr.Hex(op.Key), op.Meta.coq())
			if op.Unhosted {
				term = "Su" + term[2:]
				c.Count("split_unhosted")
			}
			if err == nil {
				admin++
				c.Count("split_ok")
			} else {
				c.Count("split_rejected")
			}
		case "merge":
			err = rs.VerifApplyAdmin(&pb.AdminCommand{Type: pb.AdminCommand_MERGE, Merge: &pb.MergeCommand{TargetRegionId: op.ID, SourceRegionId: op.ID2}})
			term = fmt.Sprintf("Mg %d %d", op.ID, op.ID2)
			if err == nil {
				admin++
				c.Count("merge_ok")
			} else {
				c.Count("merge_rejected")
			}
		default:
			continue
		}
		steps = append(steps, fmt.Sprintf("St (%s) %s %s", term, corr.Bool(err == nil), rgListing(rs)))
	}
	// stop the raft peers without going through StopPeer (which would log a state change), then restart
	rs.VisitPeers(func(p *peer.Peer) { _ = p.Close() })
	rs.Close()
	if err := man.Close(); err != nil {
		return corr.Case{}, err
	}
	man2, err := manifest.Open(dir, nil)
	if err != nil {
		return corr.Case{}, err
	}
	rs2 := store.NewStoreWithConfig(store.Config{StoreID: 1, Manifest: man2, PeerBuilder: rgPeerBuilder})
	reloaded := rgListing(rs2)
	rs2.Close()
	_ = man2.Close()
	return corr.Case{Coq: fmt.Sprintf("Cs %s %s", corr.List(steps), reloaded), Nontrivial: admin > 0, Desc: d}, nil
}

var rgKeys = [][]byte{nil, {0}, []byte("a"), []byte("b"), {'b', 0}, []byte("c"), []byte("m"), []byte("mm"), []byte("t"), []byte("z"), {0xff}}

// a partition from a list of bounds (empty = unbounded, only at the ends)
func rgPartition(bounds [][]byte, firstID uint64) []rgOp {
	var ops []rgOp
	for i := 0; i+1 < len(bounds); i++ {
		ops = append(ops, rgOp{Kind: "update", Meta: rgMeta{ID: firstID + uint64(i), Start: bounds[i], End: bounds[i+1], Ver: 1, Conf: 1, State: 1}})
	}
	return ops
}

func runRegions(c *corr.Ctx) error {
	c.Meta("run_module", "RunRegions")
	c.Meta("rule", "sweep: 6 base partitions (1-4 regions, bounded / unbounded at either end) x every ordered merge pair (incl. self) and x every region x 11 split keys; random: partitions of 1-5 regions over a boundary-rich alphabet followed by 2-7 operations (merge of neighbours in both directions, merge of arbitrary pairs, split at in-range / boundary / outside keys with right or wrong child end and fresh or colliding child id, removal, state changes forward and backward, raw updates); the catalog is listed after every step and after a restart over the same manifest. non-trivial = at least one split or merge succeeded")
	serial := 0
	emit := func(d rgCase) error {
		serial++
		cs, err := rgRun(c, d, serial)
		if err != nil {
			return err
		}
		c.Emit(cs)
		return nil
	}
	if c.Replay != "" {
		cases, err := c.ReplayCases()
		if err != nil {
			return err
		}
		for _, rc := range cases {
			b, _ := json.Marshal(rc.Desc)
			var d rgCase
			if err := json.Unmarshal(b, &d); err != nil {
				return err
			}
			if err := emit(d); err != nil {
				return err
			}
		}
		return nil
	}
	for _, raw := range corpusDescs(c.Prop) {
		var d rgCase
		if json.Unmarshal(raw, &d) == nil && len(d.Ops) > 0 {
			if err := emit(d); err != nil {
				return err
			}
			c.Count("corpus_rerun")
		}
	}
	B := func(s string) []byte {
		if s == "" {
			return nil
		}
		return []byte(s)
	}
	bases := [][][]byte{
		{B(""), B("")},
		{B(""), B("m"), B("")},
		{B(""), B("b"), B("m"), B("")},
		{B("b"), B("m"), B("t")},
		{B(""), B("b"), B("m"), B("t"), B("")},
		{B("b"), B("m"), B("")},
	}
	sweep := 0
	for _, bounds := range bases {
		setup := rgPartition(bounds, 1)
		n := uint64(len(setup))
		for t := uint64(1); t <= n; t++ {
			for s := uint64(1); s <= n; s++ {
				d := rgCase{Ops: append(append([]rgOp(nil), setup...), rgOp{Kind: "merge", ID: t, ID2: s})}
				if err := emit(d); err != nil {
					return err
				}
				sweep++
			}
			for _, k := range rgKeys {
				parent := setup[t-1].Meta
				d := rgCase{Ops: append(append([]rgOp(nil), setup...), rgOp{Kind: "split", ID: t, Key: k,
					Meta: rgMeta{ID: 50, Start: nil, End: parent.End, Ver: 1, Conf: 1}})}
				if err := emit(d); err != nil {
					return err
				}
				sweep++
				// the same split with a child that cannot be hosted here, then a hosted one
				u := rgCase{Ops: append(append([]rgOp(nil), setup...), rgOp{Kind: "split", ID: t, Key: k, Unhosted: true,
					Meta: rgMeta{ID: 50, Start: nil, End: parent.End, Ver: 1, Conf: 1}},
					rgOp{Kind: "split", ID: t, Key: k, Meta: rgMeta{ID: 51, Start: nil, End: parent.End, Ver: 1, Conf: 1}})}
				if err := emit(u); err != nil {
					return err
				}
				sweep++
			}
		}
	}
	// lifecycle sweep: every (current, requested) state pair reachable through UpdateRegionState
	for _, from := range []uint8{1, 2, 3} {
		for to := uint8(0); to <= 4; to++ {
			d := rgCase{Ops: rgPartition([][]byte{nil, []byte("m"), nil}, 1)}
			if from != 1 {
				d.Ops = append(d.Ops, rgOp{Kind: "setstate", ID: 1, State: from})
			}
			d.Ops = append(d.Ops, rgOp{Kind: "setstate", ID: 1, State: to},
				rgOp{Kind: "update", Meta: rgMeta{ID: 2, Start: []byte("m"), Ver: 1, Conf: 2, State: to}})
			if err := emit(d); err != nil {
				return err
			}
			sweep++
		}
	}
	c.CountN("sweep_cases", sweep)
	c.Meta("exhaustive", true)
	c.Meta("exhaustive_scope", "6 base partitions x all ordered merge pairs (target, source) incl. self x and every region x 11 split keys (child end = parent end, fresh child id)")

	bounds := [][]byte{[]byte("b"), {'b', 0}, []byte("d"), []byte("m"), []byte("mm"), []byte("t")}
	n := c.Scale(250, 8000)
	for i := 0; i < n; i++ {
		// random partition: a sorted subset of bounds, optionally unbounded at either end
		var cut [][]byte
		if c.Rng.Intn(2) == 0 {
			cut = append(cut, nil)
		}
		for _, b := range bounds {
			if c.Rng.Intn(2) == 0 {
				cut = append(cut, b)
			}
		}
		if c.Rng.Intn(2) == 0 || len(cut) < 2 {
			cut = append(cut, nil)
		}
		if len(cut) < 2 {
			cut = [][]byte{nil, nil}
		}
		d := rgCase{Ops: rgPartition(cut, 1)}
		live := len(d.Ops)
		nextID := uint64(live + 1)
		for j, nops := 0, 2+c.Rng.Intn(6); j < nops; j++ {
			shadow := rgShadow(d.Ops)
			var liveIDs []uint64
			for id := range shadow {
				liveIDs = append(liveIDs, id)
			}
			sort.Slice(liveIDs, func(a, b int) bool { return liveIDs[a] < liveIDs[b] })
			pick := func() uint64 {
				if len(liveIDs) > 0 && c.Rng.Intn(5) != 0 {
					return liveIDs[c.Rng.Intn(len(liveIDs))]
				}
				return uint64(1 + c.Rng.Intn(int(nextID)+1))
			}
			switch x := c.Rng.Intn(20); {
			case x < 6: // neighbours by range, either direction
				a := pick()
				b := a + 1
				for _, id := range liveIDs {
					if id != a && len(shadow[a].e) > 0 && string(shadow[id].s) == string(shadow[a].e) {
						b = id
					}
				}
				if c.Rng.Intn(2) == 0 {
					d.Ops = append(d.Ops, rgOp{Kind: "merge", ID: a, ID2: b})
				} else {
					d.Ops = append(d.Ops, rgOp{Kind: "merge", ID: b, ID2: a})
				}
			case x < 9:
				d.Ops = append(d.Ops, rgOp{Kind: "merge", ID: pick(), ID2: pick()})
			case x < 15:
				parent := pick()
				child := rgMeta{ID: nextID, Ver: uint64(1 + c.Rng.Intn(3)), Conf: 1}
				nextID++
				if c.Rng.Intn(10) == 0 {
					child.ID = pick() // colliding id
				}
				// the child's end: replay the case so far to know the parent's end is expensive; use a
				// shadow of the expected ranges instead
				child.End = rgShadowEnd(d.Ops, parent)
				if c.Rng.Intn(8) == 0 {
					child.End = corr.Pick(c.Rng, rgKeys)
				}
				key := corr.Pick(c.Rng, rgKeys)
				if pr, ok := shadow[parent]; ok && c.Rng.Intn(4) != 0 {
					// mostly a key strictly inside the parent
					for tries := 0; tries < 8; tries++ {
						k := corr.Pick(c.Rng, rgKeys)
						if len(k) > 0 && string(k) > string(pr.s) && (len(pr.e) == 0 || string(k) < string(pr.e)) {
							key = k
							break
						}
					}
				}
				if c.Rng.Intn(6) == 0 {
					child.Start = corr.Pick(c.Rng, rgKeys) // explicit child start: the split key is ignored
				}
				d.Ops = append(d.Ops, rgOp{Kind: "split", ID: parent, Key: key, Meta: child, Unhosted: c.Rng.Intn(5) == 0})
			case x < 17:
				d.Ops = append(d.Ops, rgOp{Kind: "remove", ID: pick()})
			case x < 19:
				d.Ops = append(d.Ops, rgOp{Kind: "setstate", ID: pick(), State: uint8(c.Rng.Intn(5))})
			default:
				d.Ops = append(d.Ops, rgOp{Kind: "update", Meta: rgMeta{ID: pick(), Start: corr.Pick(c.Rng, rgKeys), End: corr.Pick(c.Rng, rgKeys), Ver: uint64(c.Rng.Intn(4)), Conf: 1, State: uint8(c.Rng.Intn(4))}})
			}
		}
		if err := emit(d); err != nil {
			return err
		}
	}
	return nil
}

// rgShadowEnd predicts the end key of a region after the operations so far,
// assuming every well-formed one succeeded (only used to build realistic
// split commands; the real outcome is what gets recorded).
type rng struct{ s, e []byte }

func rgShadowEnd(ops []rgOp, id uint64) []byte { return rgShadow(ops)[id].e }

func rgHost(unhosted bool) uint64 {
	if unhosted {
		return 7
	}
	return 1
}

func rgShadow(ops []rgOp) map[uint64]rng {
	m := map[uint64]rng{}
	for _, op := range ops {
		switch op.Kind {
		case "update":
			m[op.Meta.ID] = rng{op.Meta.Start, op.Meta.End}
		case "remove":
			delete(m, op.ID)
		case "split":
			p, ok := m[op.ID]
			if !ok || op.Unhosted {
				continue
			}
			k := op.Meta.Start
			if len(k) == 0 {
				k = op.Key
			}
			if len(k) == 0 || string(k) <= string(p.s) || (len(p.e) > 0 && string(k) >= string(p.e)) {
				continue
			}
			m[op.ID] = rng{p.s, k}
			m[op.Meta.ID] = rng{k, op.Meta.End}
		case "merge":
			t, ok1 := m[op.ID]
			s, ok2 := m[op.ID2]
			if !ok1 || !ok2 || op.ID == op.ID2 {
				continue
			}
			if len(t.e) > 0 && string(t.e) == string(s.s) {
				m[op.ID] = rng{t.s, s.e}
				delete(m, op.ID2)
			} else if len(s.e) > 0 && string(s.e) == string(t.s) {
				m[op.ID] = rng{s.s, t.e}
				delete(m, op.ID2)
			}
		}
	}
	return m
}

package main

import (
	"encoding/json"
	"fmt"
	"os"
	"path/filepath"
	"sort"

	"github.com/feichai0017/NoKV/manifest"
	"github.com/feichai0017/NoKV/pb"
	"github.com/feichai0017/NoKV/raftstore/store"
	"verifharness/internal/corr"
)

// C25: validateRegionEpoch / validateRequestKeys / keyInRange / trimScanResponse.

type cvMeta struct {
	Start, End []byte
	Conf, Ver  uint64
}

type cvReq struct {
	Nil    bool
	Type   int32
	Body   string // none get scan prewrite commit rollback resolve check
	Keys   [][]byte
	NilMut []bool // prewrite: mutation i is a nil pointer
}

type cvKV struct {
	Nil bool
	Key []byte
	Tag uint64
}

type cvResp struct {
	Kind string // nil other-empty other-get other-scannil scan
	Kvs  []cvKV
}

type cvCase struct {
	Kind     string // validate key trim
	Meta     cvMeta
	EpochNil bool
	EConf    uint64
	EVer     uint64
	Reqs     []cvReq
	Resps    []cvResp
	Key      []byte
}

func (m cvMeta) region() manifest.RegionMeta {
	return manifest.RegionMeta{ID: 7, StartKey: m.Start, EndKey: m.End,
		Epoch: manifest.RegionEpoch{Version: m.Ver, ConfVersion: m.Conf},
		Peers: []manifest.PeerMeta{{StoreID: 1, PeerID: 11}}, State: manifest.RegionStateRunning}
}

func (m cvMeta) coq() string {
	return fmt.Sprintf("(Mt %s %s %d %d)", corr.Hex(m.Start), corr.Hex(m.End), m.Conf, m.Ver)
}

func firstKey(ks [][]byte) []byte {
	if len(ks) == 0 {
		return nil
	}
	return ks[0]
}

func (r cvReq) pb() *pb.Request {
	if r.Nil {
		return nil
	}
	out := &pb.Request{CmdType: pb.CmdType(r.Type)}
	switch r.Body {
	case "get":
		out.Cmd = &pb.Request_Get{Get: &pb.GetRequest{Key: firstKey(r.Keys), Version: 9}}
	case "scan":
		out.Cmd = &pb.Request_Scan{Scan: &pb.ScanRequest{StartKey: firstKey(r.Keys), Limit: 10}}
	case "prewrite":
		p := &pb.PrewriteRequest{PrimaryLock: []byte("zzzz-primary"), StartVersion: 5}
		for i, k := range r.Keys {
			if i < len(r.NilMut) && r.NilMut[i] {
				p.Mutations = append(p.Mutations, nil)
				continue
			}
			p.Mutations = append(p.Mutations, &pb.Mutation{Op: pb.Mutation_Put, Key: k, Value: []byte("v")})
		}
		out.Cmd = &pb.Request_Prewrite{Prewrite: p}
	case "commit":
		out.Cmd = &pb.Request_Commit{Commit: &pb.CommitRequest{Keys: r.Keys, StartVersion: 5, CommitVersion: 6}}
	case "rollback":
		out.Cmd = &pb.Request_BatchRollback{BatchRollback: &pb.BatchRollbackRequest{Keys: r.Keys, StartVersion: 5}}
	case "resolve":
		out.Cmd = &pb.Request_ResolveLock{ResolveLock: &pb.ResolveLockRequest{Keys: r.Keys, StartVersion: 5}}
	case "check":
		out.Cmd = &pb.Request_CheckTxnStatus{CheckTxnStatus: &pb.CheckTxnStatusRequest{PrimaryKey: firstKey(r.Keys), LockTs: 5}}
	}
	return out
}

func hexList(ks [][]byte) string {
	s := make([]string, len(ks))
	for i, k := range ks {
		s[i] = "unhex " + corr.Hex(k)
	}
	return corr.List(s)
}

func (r cvReq) coq() string {
	if r.Nil {
		return "RqNil"
	}
	var b string
	switch r.Body {
	case "get":
		b = "(G " + corr.Hex(firstKey(r.Keys)) + ")"
	case "scan":
		b = "(Sc " + corr.Hex(firstKey(r.Keys)) + ")"
	case "check":
		b = "(Ck " + corr.Hex(firstKey(r.Keys)) + ")"
	case "prewrite":
		s := make([]string, len(r.Keys))
		for i, k := range r.Keys {
			if i < len(r.NilMut) && r.NilMut[i] {
				s[i] = "None"
			} else {
				s[i] = "Some " + corr.UH(k)
			}
		}
		b = "(Pw " + corr.List(s) + ")"
	case "commit":
		b = "(Cm " + hexList(r.Keys) + ")"
	case "rollback":
		b = "(Rb " + hexList(r.Keys) + ")"
	case "resolve":
		b = "(Rl " + hexList(r.Keys) + ")"
	default:
		b = "BNone"
	}
	return fmt.Sprintf("Rq %d %s", r.Type, b)
}

func reqsCoq(rs []cvReq) string {
	s := make([]string, len(rs))
	for i, r := range rs {
		s[i] = r.coq()
	}
	return corr.List(s)
}

func (o cvResp) pb() *pb.Response {
	switch o.Kind {
	case "nil":
		return nil
	case "other-empty":
		return &pb.Response{}
	case "other-get":
		return &pb.Response{Cmd: &pb.Response_Get{Get: &pb.GetResponse{Value: []byte("v")}}}
	case "other-scannil":
		return &pb.Response{Cmd: &pb.Response_Scan{}}
	}
	sc := &pb.ScanResponse{}
	for _, kv := range o.Kvs {
		if kv.Nil {
			sc.Kvs = append(sc.Kvs, nil)
		} else {
			sc.Kvs = append(sc.Kvs, &pb.KV{Key: kv.Key, Value: []byte("v"), Version: kv.Tag})
		}
	}
	return &pb.Response{Cmd: &pb.Response_Scan{Scan: sc}}
}

func respCoq(o *pb.Response) string {
	if o == nil {
		return "RespNil"
	}
	sc := o.GetScan()
	if sc == nil {
		return "RespOther"
	}
	s := make([]string, len(sc.Kvs))
	for i, kv := range sc.Kvs {
		if kv == nil {
			s[i] = "KVNil"
		} else {
			s[i] = fmt.Sprintf("KV %s %d", corr.Hex(kv.Key), kv.Version)
		}
	}
	return "RespScan " + corr.List(s)
}

func respsCoq(os []*pb.Response) string {
	s := make([]string, len(os))
	for i, o := range os {
		s[i] = respCoq(o)
	}
	return corr.List(s)
}

// classifyRegionErr: 0 nil, 1 EpochNotMatch with the region's current epoch and meta, 2 other.
func classifyRegionErr(e *pb.RegionError, m cvMeta) int {
	if e == nil {
		return 0
	}
	en := e.GetEpochNotMatch()
	if en == nil || e.GetNotLeader() != nil || e.GetStaleCommand() != nil || e.GetEntryTooLarge() != nil {
		return 2
	}
	if en.GetCurrentEpoch().GetConfVer() != m.Conf || en.GetCurrentEpoch().GetVersion() != m.Ver || len(en.GetRegions()) != 1 {
		return 2
	}
	return 1
}

func cvRun(c cvCase) corr.Case {
	meta := c.Meta.region()
	var term string
	nontrivial := false
	switch c.Kind {
	case "key":
		got := store.VerifKeyInRange(meta, c.Key)
		term = fmt.Sprintf("CK %s %s %s", c.Meta.coq(), corr.Hex(c.Key), corr.Bool(got))
		nontrivial = len(c.Key) > 0 && (len(c.Meta.Start) > 0 || len(c.Meta.End) > 0)
	case "validate":
		var ep *pb.RegionEpoch
		epc := "None"
		if !c.EpochNil {
			ep = &pb.RegionEpoch{ConfVer: c.EConf, Version: c.EVer}
			epc = fmt.Sprintf("(Ep %d %d)", c.EConf, c.EVer)
		}
		req := &pb.RaftCmdRequest{Header: &pb.CmdHeader{RegionId: 7, RegionEpoch: ep}}
		for _, r := range c.Reqs {
			req.Requests = append(req.Requests, r.pb())
			if !r.Nil && len(r.Keys) > 0 {
				nontrivial = true
			}
		}
		ee := classifyRegionErr(store.VerifValidateRegionEpoch(ep, meta), c.Meta)
		ke := classifyRegionErr(store.VerifValidateRequestKeys(meta, req), c.Meta)
		term = fmt.Sprintf("CV %s %s %s %d %d", c.Meta.coq(), epc, reqsCoq(c.Reqs), ee, ke)
	case "trim":
		req := &pb.RaftCmdRequest{Header: &pb.CmdHeader{RegionId: 7}}
		for _, r := range c.Reqs {
			req.Requests = append(req.Requests, r.pb())
		}
		resp := &pb.RaftCmdResponse{}
		var in []*pb.Response
		for _, o := range c.Resps {
			resp.Responses = append(resp.Responses, o.pb())
			in = append(in, o.pb())
			if o.Kind == "scan" && len(o.Kvs) > 0 {
				nontrivial = true
			}
		}
		store.VerifTrimScanResponse(meta, req, resp)
		term = fmt.Sprintf("CT %s %s %s %s", c.Meta.coq(), reqsCoq(c.Reqs), respsCoq(in), respsCoq(resp.Responses))
	}
	return corr.Case{Coq: term, Nontrivial: nontrivial, Desc: c}
}

// corpusDescs returns the "desc" of every case stored under corpus/<prop>/.
func corpusDescs(prop string) []json.RawMessage {
	dir := filepath.Join(os.Getenv("VERIF_DIR"), "corpus", prop)
	files, _ := filepath.Glob(filepath.Join(dir, "*.json"))
	sort.Strings(files)
	var out []json.RawMessage
	for _, f := range files {
		b, err := os.ReadFile(f)
		if err != nil {
			continue
		}
		var j struct {
			Cases []struct {
				Desc json.RawMessage `json:"desc"`
			} `json:"cases"`
		}
		if json.Unmarshal(b, &j) != nil {
			continue
		}
		for _, cs := range j.Cases {
			out = append(out, cs.Desc)
		}
	}
	return out
}

// boundary-rich keys for a range
func cvKeysFor(m cvMeta) [][]byte {
	ks := [][]byte{nil, {0x00}, []byte("a"), []byte("b"), []byte("c"), []byte("m"), []byte("z"), {0xff}, {0xff, 0xff}}
	for _, b := range [][]byte{m.Start, m.End} {
		if len(b) == 0 {
			continue
		}
		ks = append(ks, append([]byte(nil), b...))
		ks = append(ks, append(append([]byte(nil), b...), 0x00))
		ks = append(ks, append(append([]byte(nil), b...), 0xff))
		ks = append(ks, append([]byte(nil), b[:len(b)-1]...))
		p := append([]byte(nil), b...)
		if p[len(p)-1] > 0 {
			p[len(p)-1]--
			ks = append(ks, p, append(append([]byte(nil), p...), 0xff))
		}
		q := append([]byte(nil), b...)
		if q[len(q)-1] < 0xff {
			q[len(q)-1]++
			ks = append(ks, q)
		}
	}
	return ks
}

var cvRanges = [][2][]byte{
	{nil, nil}, {[]byte("b"), nil}, {nil, []byte("m")}, {[]byte("b"), []byte("m")},
	{[]byte("m"), []byte("b")}, {[]byte("b"), []byte("b")}, {[]byte("b"), {'b', 0}},
	{[]byte("ba"), []byte("bb")}, {{0}, {0xff}}, {[]byte("b"), []byte("bm")},
}

var cvBodies = []string{"get", "scan", "prewrite", "commit", "rollback", "resolve", "check"}

func cvBodyType(b string) int32 {
	for i, x := range cvBodies {
		if x == b {
			return int32(i + 1)
		}
	}
	return 0
}

func runCmdValidate(c *corr.Ctx) error {
	c.Meta("run_module", "RunCmdValidate")
	c.Meta("rule", "grid: 7 command kinds x every boundary key of 10 ranges (bounded, unbounded start/end/both, inverted, empty, one-key) x epochs {equal, version+-1, confver+-1, nil}; keyInRange on the same keys; random multi-request commands (nil requests, nil mutations, type/payload mismatch, unsupported types, bad key at any position); random scan responses (aligned with the applier's shape and not) through trimScanResponse. non-trivial = a request names a key / a key against a bounded range / a scan result with entries")
	if c.Replay != "" {
		cases, err := c.ReplayCases()
		if err != nil {
			return err
		}
		for _, rc := range cases {
			b, _ := json.Marshal(rc.Desc)
			var d cvCase
			if err := json.Unmarshal(b, &d); err != nil {
				return err
			}
			c.Emit(cvRun(d))
		}
		return nil
	}
	// regression corpus: re-run the stored descriptions against the implementation first
	for _, d := range corpusDescs(c.Prop) {
		var cc cvCase
		if json.Unmarshal(d, &cc) == nil && cc.Kind != "" {
			c.Emit(cvRun(cc))
			c.Count("corpus_rerun")
		}
	}
	grid := 0
	type ep struct {
		nilE      bool
		conf, ver uint64
	}
	for _, rg := range cvRanges {
		m := cvMeta{Start: rg[0], End: rg[1], Conf: 3, Ver: 5}
		keys := cvKeysFor(m)
		eps := []ep{{false, 3, 5}, {false, 3, 4}, {false, 3, 6}, {false, 2, 5}, {false, 4, 5}, {true, 0, 0}}
		for _, k := range keys {
			c.Emit(cvRun(cvCase{Kind: "key", Meta: m, Key: k}))
			grid++
			for _, body := range cvBodies {
				for ei, e := range eps {
					// all epochs for the get kind, equal + one rotating other epoch for the rest
					if body != "get" && ei != 0 && ei != 1+(grid%5) {
						continue
					}
					r := cvReq{Type: cvBodyType(body), Body: body, Keys: [][]byte{k}}
					c.Emit(cvRun(cvCase{Kind: "validate", Meta: m, EpochNil: e.nilE, EConf: e.conf, EVer: e.ver, Reqs: []cvReq{r}}))
					grid++
					c.Count("grid_" + body)
				}
			}
		}
	}
	c.CountN("grid_cases", grid)
	c.Meta("exhaustive", true)
	c.Meta("exhaustive_scope", "every (range, boundary key, command kind) triple of the grid with the current epoch, each also with a non-current epoch; every epoch variant for GET")

	pickMeta := func() cvMeta {
		rg := corr.Pick(c.Rng, cvRanges)
		return cvMeta{Start: rg[0], End: rg[1], Conf: uint64(1 + c.Rng.Intn(3)), Ver: uint64(1 + c.Rng.Intn(3))}
	}
	pickKey := func(m cvMeta, inBias bool) []byte {
		ks := cvKeysFor(m)
		for tries := 0; tries < 6; tries++ {
			k := corr.Pick(c.Rng, ks)
			if !inBias || store.VerifKeyInRange(m.region(), k) {
				return k
			}
		}
		return corr.Pick(c.Rng, ks)
	}
	n := c.Scale(1000, 40000)
	for i := 0; i < n; i++ {
		m := pickMeta()
		d := cvCase{Kind: "validate", Meta: m, EConf: m.Conf, EVer: m.Ver}
		switch c.Rng.Intn(10) {
		case 0:
			d.EpochNil = true
		case 1:
			d.EVer++
		case 2:
			d.EConf--
		}
		// mostly in-range keys so that acceptance of long commands is reached; one bad key sometimes
		bad := c.Rng.Intn(3) == 0
		nr := 1 + c.Rng.Intn(4)
		for j := 0; j < nr; j++ {
			if c.Rng.Intn(12) == 0 {
				d.Reqs = append(d.Reqs, cvReq{Nil: true})
				continue
			}
			body := corr.Pick(c.Rng, cvBodies)
			r := cvReq{Type: cvBodyType(body), Body: body}
			switch c.Rng.Intn(14) {
			case 0: // payload of another kind
				r.Type = int32(1 + c.Rng.Intn(7))
			case 1: // unsupported type
				r.Type = corr.Pick(c.Rng, []int32{0, 8, 9, 100})
			case 2:
				r.Body = "none"
			}
			nk := 1
			if body == "prewrite" || body == "commit" || body == "rollback" || body == "resolve" {
				nk = c.Rng.Intn(4)
			}
			for x := 0; x < nk; x++ {
				r.Keys = append(r.Keys, pickKey(m, !(bad && c.Rng.Intn(3) == 0)))
				r.NilMut = append(r.NilMut, body == "prewrite" && c.Rng.Intn(8) == 0)
			}
			d.Reqs = append(d.Reqs, r)
		}
		cs := cvRun(d)
		c.Emit(cs)
		c.Count(fmt.Sprintf("random_validate_reqs_%d", len(d.Reqs)))
	}
	// trimming
	nt := c.Scale(800, 30000)
	for i := 0; i < nt; i++ {
		m := pickMeta()
		d := cvCase{Kind: "trim", Meta: m}
		nr := c.Rng.Intn(4)
		unshaped := c.Rng.Intn(6) == 0
		for j := 0; j < nr; j++ {
			if c.Rng.Intn(6) == 0 {
				d.Reqs = append(d.Reqs, cvReq{Nil: true})
				if unshaped && c.Rng.Intn(2) == 0 {
					d.Resps = append(d.Resps, cvResp{Kind: "nil"})
				}
				continue
			}
			body := corr.Pick(c.Rng, []string{"get", "scan", "scan", "scan"})
			r := cvReq{Type: cvBodyType(body), Body: body, Keys: [][]byte{pickKey(m, true)}}
			if c.Rng.Intn(15) == 0 {
				r.Body = "get" // type says scan, payload does not
			}
			d.Reqs = append(d.Reqs, r)
			o := cvResp{Kind: corr.Pick(c.Rng, []string{"other-get", "other-empty"})}
			if r.Type == 2 {
				o = cvResp{Kind: "scan"}
				for x, nk := 0, c.Rng.Intn(6); x < nk; x++ {
					if c.Rng.Intn(10) == 0 {
						o.Kvs = append(o.Kvs, cvKV{Nil: true})
					} else {
						o.Kvs = append(o.Kvs, cvKV{Key: pickKey(m, c.Rng.Intn(2) == 0), Tag: uint64(100*j + x)})
					}
				}
			}
			if unshaped {
				switch c.Rng.Intn(5) {
				case 0:
					o = cvResp{Kind: corr.Pick(c.Rng, []string{"nil", "other-scannil", "other-get"})}
				case 1:
					o = cvResp{Kind: "scan", Kvs: []cvKV{{Key: pickKey(m, false), Tag: 7}, {Key: pickKey(m, false), Tag: 8}}}
				case 2:
					continue // missing response
				}
			}
			d.Resps = append(d.Resps, o)
		}
		if unshaped && c.Rng.Intn(3) == 0 {
			d.Resps = append(d.Resps, cvResp{Kind: "scan", Kvs: []cvKV{{Key: pickKey(m, false), Tag: 9}}})
		}
		hasNil := false
		for _, r := range d.Reqs {
			hasNil = hasNil || r.Nil
		}
		if hasNil {
			c.Count("trim_with_nil_request")
		}
		if unshaped {
			c.Count("trim_unshaped")
		} else {
			c.Count("trim_shaped")
		}
		c.Emit(cvRun(d))
	}
	return nil
}

// Harness binary for the region families: C25 (cmdvalidate) and C24 (regions).
package main

import "verifharness/internal/corr"

func main() {
	corr.Main(map[string]corr.Family{"cmdvalidate": runCmdValidate, "regions": runRegions})
}

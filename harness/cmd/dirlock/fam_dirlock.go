package main

import (
	"encoding/json"
	"errors"
	"fmt"
	"os"
	"path/filepath"
	"strings"
	"sync"
	"time"

	"github.com/feichai0017/NoKV/utils"
	"github.com/feichai0017/NoKV/utils/verifhook"
	"github.com/feichai0017/NoKV/vfs"
	"verifharness/internal/corr"
	"verifharness/internal/sched"
)

// C33: utils.AcquireDirLock / (*DirLock).Release under the controlled scheduler.
//
// n contenders run in one process (flock is per open file description, so they
// conflict like processes do). Each one: AcquireDirLock; on success it "has the
// directory" until it calls Release. After every grant the harness records
// whether the grant ran, where the thread is now, which contenders have the
// directory and whether the LOCK file exists.

type dlDesc struct {
	N        int    `json:"n"`
	Faulty   []bool `json:"faulty,omitempty"` // contenders whose unlink of LOCK fails once; every contender calls Release twice
	Schedule []int  `json:"schedule"`         // picks; the run is completed round-robin afterwards
	Procs    bool   `json:"procs,omitempty"`  // contenders are child processes instead of goroutines
}

type dlStep struct {
	T       int
	Ran     bool
	Tag     int
	Holders []int
	Path    bool
}

// pc tags shared with Corr/RunDirLock.v
var errInjectedUnlink = errors.New("injected unlink failure")

func dlTag(st sched.Step, res int) int {
	switch st.Status {
	case sched.Finished:
		if res == 2 {
			return 9 // busy
		}
		if res == 4 {
			return 10 // Release reported the injected unlink error
		}
		return 8 // released
	case sched.Parked:
		switch st.Point {
		case "utils.AcquireDirLock.open":
			return 0
		case "utils.AcquireDirLock.flock":
			return 1
		case "utils.AcquireDirLock.check":
			return 2
		case "utils.AcquireDirLock.retry":
			return 3
		case "harness.dirlock.hold":
			return 4
		case "utils.DirLock.Release.remove":
			return 5
		case "utils.DirLock.Release.unlock":
			return 6
		case "utils.DirLock.Release.close":
			return 7
		}
	}
	return 99
}

func dlRun(base string, d dlDesc) ([]dlStep, []int, error) {
	dir, err := os.MkdirTemp(base, "dl")
	if err != nil {
		return nil, nil, err
	}
	defer os.RemoveAll(dir)
	var mu sync.Mutex
	held := make([]bool, d.N)
	res := make([]int, d.N) // 0 running, 1 released, 2 busy, 3 other error
	s := sched.New()
	for t := 0; t < d.N; t++ {
		t := t
		s.Spawn(t, func() {
			var fs vfs.FS
			faulty := t < len(d.Faulty) && d.Faulty[t]
			if faulty {
				policy := vfs.NewFaultPolicy(vfs.FailOnceRule(vfs.OpRemove, filepath.Join(dir, "LOCK"), errInjectedUnlink))
				fs = vfs.NewFaultFSWithPolicy(vfs.OSFS{}, policy)
			}
			l, err := utils.AcquireDirLock(dir, fs)
			if err != nil {
				mu.Lock()
				if strings.Contains(err.Error(), "already in use") {
					res[t] = 2
				} else {
					res[t] = 3
				}
				mu.Unlock()
				return
			}
			mu.Lock()
			held[t] = true
			mu.Unlock()
			verifhook.Yield("harness.dirlock.hold")
			mu.Lock()
			held[t] = false
			mu.Unlock()
			rerr := l.Release()
			// the owner retries: after Release has run once (with or without an error) a second call must do nothing
			_ = l.Release()
			mu.Lock()
			if rerr != nil && faulty && errors.Is(rerr, errInjectedUnlink) {
				res[t] = 4
			} else if rerr != nil {
				res[t] = 3
			} else {
				res[t] = 1
			}
			mu.Unlock()
		})
	}
	var steps []dlStep
	after := func(_ int, st sched.Step) {
		mu.Lock()
		var hs []int
		for t, h := range held {
			if h {
				hs = append(hs, t)
			}
		}
		r := 0
		if st.Thread >= 0 && st.Thread < d.N {
			r = res[st.Thread]
		}
		mu.Unlock()
		_, serr := os.Stat(filepath.Join(dir, "LOCK"))
		tag := dlTag(st, r)
		if r == 3 {
			tag = 98
		}
		steps = append(steps, dlStep{T: st.Thread, Ran: st.Ran, Tag: tag, Holders: hs, Path: serr == nil})
	}
	s.Run(d.Schedule, after)
	picks, _ := s.Drain(40*d.N, after)
	if !s.Close(5 * time.Second) {
		return nil, nil, fmt.Errorf("dirlock: threads did not finish")
	}
	return steps, append(append([]int(nil), d.Schedule...), picks...), nil
}

func dlCase(base string, d dlDesc) (corr.Case, error) {
	steps, full, err := dlRun(base, d)
	if err != nil {
		return corr.Case{}, err
	}
	var ss []string
	multi := false
	retried := false
	for _, st := range steps {
		hs := make([]string, len(st.Holders))
		for i, h := range st.Holders {
			hs[i] = fmt.Sprint(h)
		}
		if len(st.Holders) > 1 {
			multi = true
		}
		if st.Tag == 3 || st.Tag == 9 {
			retried = true
		}
		ss = append(ss, fmt.Sprintf("S %d %s %d %s %s", st.T, corr.Bool(st.Ran), st.Tag, corr.List(hs), corr.Bool(st.Path)))
	}
	_ = full
	head := fmt.Sprintf("Cs %d", d.N)
	if len(d.Faulty) > 0 {
		fl := make([]string, len(d.Faulty))
		for i, f := range d.Faulty {
			fl[i] = corr.Bool(f)
		}
		head = fmt.Sprintf("Cf %d %s", d.N, corr.List(fl))
	}
	return corr.Case{Coq: head + " " + corr.List(ss), Nontrivial: multi || retried, Desc: d}, nil
}

func runDirLock(c *corr.Ctx) error {
	c.Meta("run_module", "RunDirLock")
	c.Meta("rule", "3 contenders (2..4 in random cases) on one directory under the controlled scheduler; schedules: every word of length b over the contenders (b=6 quick, 7 thorough), every schedule of at most 4 runs of lengths 1..4 (thorough: also 5 runs of lengths 1..2), random block schedules; each completed round-robin. Compared after every grant: whether the grant ran, the yield point reached (pc), who has the directory, whether LOCK exists. non-trivial = some contender was refused (busy) or had to retry, or two contenders had the directory. Cases are de-duplicated by observed trace. Database level: NoKV.Open over a recording vfs.FS, writes, Close; every file operation of Close is recorded with whether it is on LOCK and whether a second AcquireDirLock succeeded right before it; the oracle requires no intrusion and no operation on another file after the first operation on LOCK. Process mode: the same comparison with 3 real child processes of the harness binary, each parking at the yield points through pipes (witness schedule + random schedules; thorough: all prefixes of length 5)")
	c.Meta("exhaustive", true)
	c.Meta("exhaustive_scope", "3 contenders: all schedule prefixes up to the bound and all schedules with at most 3 context switches with runs of length <= 4 (thorough: also 4 switches, runs <= 2)")
	base := c.Out
	emit := func(d dlDesc, seen map[string]bool) error {
		run := dlCase
		if d.Procs {
			run = dlProcCase
		}
		cs, err := run(base, d)
		if err != nil {
			return err
		}
		if seen != nil {
			if seen[cs.Coq] {
				c.Count("duplicate_trace")
				return nil
			}
			seen[cs.Coq] = true
		}
		if cs.Nontrivial {
			c.Count("contended")
		}
		c.Emit(cs)
		return nil
	}
	if c.Replay != "" {
		cases, err := c.ReplayCases()
		if err != nil {
			return err
		}
		for _, cs := range cases {
			var d dlDesc
			b, _ := json.Marshal(cs.Desc)
			var dd dbDesc
			if json.Unmarshal(b, &dd) == nil && dd.DB {
				dc, err := dlDbCase(base, dd)
				if err != nil {
					return err
				}
				c.Emit(dc)
				continue
			}
			if err := json.Unmarshal(b, &d); err != nil {
				return err
			}
			if err := emit(d, nil); err != nil {
				return err
			}
		}
		return nil
	}
	// 0. database level: the directory stays held until Close is done with every other file
	for _, dd := range []dbDesc{{Sets: 0}, {Sets: 100}, {Sets: 300, Big: true}} {
		dc, err := dlDbCase(base, dd)
		if err != nil {
			return err
		}
		c.Count("db_close")
		c.Emit(dc)
	}
	seen := map[string]bool{}
	var ferr error
	// 1. all prefixes
	bound := c.Scale(6, 7)
	if c.Tier == "search" {
		bound = 8
	}
	// contenders without faults are interchangeable: the quick tier only runs schedules whose first pick is contender 0
	quick := c.Tier != "thorough"
	sched.Prefixes(3, bound, func(w []int) bool {
		if quick && len(w) > 0 && w[0] != 0 {
			return true
		}
		c.Count("prefix_schedules")
		ferr = emit(dlDesc{N: 3, Schedule: w}, seen)
		return ferr == nil
	})
	if ferr != nil {
		return ferr
	}
	// 2. context-switch bounded
	blocks, maxRun := 4, 4
	var rec func(prefix []int, last, left int)
	rec = func(prefix []int, last, left int) {
		if ferr != nil {
			return
		}
		if left == 0 {
			c.Count("block_schedules")
			ferr = emit(dlDesc{N: 3, Schedule: prefix}, seen)
			return
		}
		for t := 0; t < 3; t++ {
			if t == last || (quick && last == -1 && t != 0) {
				continue
			}
			for l := 1; l <= maxRun; l++ {
				p := append([]int(nil), prefix...)
				for i := 0; i < l; i++ {
					p = append(p, t)
				}
				rec(p, t, left-1)
			}
		}
	}
	rec(nil, -1, blocks)
	if ferr == nil && c.Tier == "thorough" {
		blocks, maxRun = 5, 2
		rec(nil, -1, blocks)
	}
	if ferr != nil {
		return ferr
	}
	// 2a. the unlink of LOCK fails for contender 0 and its owner calls Release again: contender 0 runs up to
	// the end of its first Release, then every schedule of 3 runs (lengths 1..3) over the three contenders
	for _, k := range []int{6, 7, 8} {
		if quick && k != 7 {
			continue
		}
		head := make([]int, k)
		var rec3 func(prefix []int, last, left int)
		rec3 = func(prefix []int, last, left int) {
			if ferr != nil {
				return
			}
			if left == 0 {
				c.Count("faulty_unlink_schedules")
				ferr = emit(dlDesc{N: 3, Faulty: []bool{true, false, false}, Schedule: prefix}, seen)
				return
			}
			for t := 0; t < 3; t++ {
				if t == last {
					continue
				}
				for l := 1; l <= 3; l++ {
					p := append([]int(nil), prefix...)
					for i := 0; i < l; i++ {
						p = append(p, t)
					}
					rec3(p, t, left-1)
				}
			}
		}
		rec3(head, -1, 3)
		if ferr != nil {
			return ferr
		}
	}
	for i := 0; i < c.Scale(100, 2000); i++ {
		d := dlDesc{N: 3, Faulty: []bool{c.Rng.Intn(2) == 0, c.Rng.Intn(2) == 0, c.Rng.Intn(3) == 0}, Schedule: sched.RandomBlocks(c.Rng, 3, 8+c.Rng.Intn(24), 8)}
		c.Count("faulty_unlink_random")
		if err := emit(d, seen); err != nil {
			return err
		}
	}
	// 2b. real child processes (3 processes synchronised through pipes)
	procSeen := map[string]bool{}
	if err := emit(dlDesc{N: 3, Schedule: []int{0, 0, 0, 0, 1, 1, 0, 0, 2, 2}, Procs: true}, procSeen); err != nil {
		return err
	}
	c.Count("process_schedules")
	if c.Tier == "thorough" {
		sched.Prefixes(3, 5, func(w []int) bool {
			c.Count("process_schedules")
			ferr = emit(dlDesc{N: 3, Schedule: w, Procs: true}, procSeen)
			return ferr == nil
		})
		if ferr != nil {
			return ferr
		}
	}
	for i := 0; i < c.Scale(20, 100); i++ {
		c.Count("process_schedules")
		if err := emit(dlDesc{N: 3, Schedule: sched.RandomBlocks(c.Rng, 3, 8+c.Rng.Intn(16), 4), Procs: true}, procSeen); err != nil {
			return err
		}
	}
	// 3. random
	for i := 0; i < c.Scale(300, 2000); i++ {
		n := 2 + c.Rng.Intn(3)
		d := dlDesc{N: n, Schedule: sched.RandomBlocks(c.Rng, n, 8+c.Rng.Intn(24), 4)}
		c.Count(fmt.Sprintf("random.n=%d", n))
		if err := emit(d, seen); err != nil {
			return err
		}
	}
	return nil
}

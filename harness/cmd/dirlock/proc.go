package main

import (
	"bufio"
	"fmt"
	"io"
	"os"
	"os/exec"
	"path/filepath"
	"strings"

	"github.com/feichai0017/NoKV/utils"
	"github.com/feichai0017/NoKV/utils/verifhook"
	"verifharness/internal/corr"
	"verifharness/internal/sched"
)

// Process mode of C33: every contender is a child process of this binary
// ("<bin> child <dir>"). The child parks at every yield point by printing
// "P <point> <held>" and waiting for a line on stdin; it prints "F <result>"
// when AcquireDirLock failed or Release returned. The parent is the scheduler.

func childMain(dir string) {
	in := bufio.NewReader(os.Stdin)
	held := 0
	park := func(name string) {
		fmt.Fprintf(os.Stdout, "P %s %d\n", name, held)
		if _, err := in.ReadString('\n'); err != nil {
			os.Exit(3)
		}
	}
	verifhook.SetYield(park)
	l, err := utils.AcquireDirLock(dir, nil)
	if err != nil {
		if strings.Contains(err.Error(), "already in use") {
			fmt.Fprintln(os.Stdout, "F 2")
		} else {
			fmt.Fprintln(os.Stdout, "F 3")
		}
		return
	}
	held = 1
	park("harness.dirlock.hold")
	held = 0
	if err := l.Release(); err != nil {
		fmt.Fprintln(os.Stdout, "F 3")
		return
	}
	fmt.Fprintln(os.Stdout, "F 1")
}

type procChild struct {
	cmd      *exec.Cmd
	in       io.WriteCloser
	out      *bufio.Reader
	point    string
	held     bool
	finished bool
	res      int
}

func (p *procChild) read() error {
	line, err := p.out.ReadString('\n')
	if err != nil {
		return fmt.Errorf("child: %w", err)
	}
	f := strings.Fields(line)
	switch {
	case len(f) == 3 && f[0] == "P":
		p.point, p.held = f[1], f[2] == "1"
	case len(f) == 2 && f[0] == "F":
		p.finished, p.held, p.point = true, false, ""
		fmt.Sscan(f[1], &p.res)
		p.in.Close()
		p.cmd.Wait()
	default:
		return fmt.Errorf("child: unexpected line %q", line)
	}
	return nil
}

func dlProcCase(base string, d dlDesc) (corr.Case, error) {
	dir, err := os.MkdirTemp(base, "dlp")
	if err != nil {
		return corr.Case{}, err
	}
	defer os.RemoveAll(dir)
	self, err := os.Executable()
	if err != nil {
		return corr.Case{}, err
	}
	kids := make([]*procChild, d.N)
	defer func() {
		for _, k := range kids {
			if k != nil && !k.finished {
				k.cmd.Process.Kill()
				k.cmd.Wait()
			}
		}
	}()
	for t := range kids {
		cmd := exec.Command(self, "child", dir)
		in, _ := cmd.StdinPipe()
		out, _ := cmd.StdoutPipe()
		cmd.Stderr = os.Stderr
		if err := cmd.Start(); err != nil {
			return corr.Case{}, err
		}
		kids[t] = &procChild{cmd: cmd, in: in, out: bufio.NewReader(out)}
		if err := kids[t].read(); err != nil {
			return corr.Case{}, err
		}
	}
	var ss []string
	multi, contended := false, false
	live := d.N
	grant := func(t int) error {
		if t < 0 || t >= d.N {
			return nil
		}
		k := kids[t]
		ran := !k.finished
		if ran {
			if _, err := io.WriteString(k.in, "go\n"); err != nil {
				return err
			}
			if err := k.read(); err != nil {
				return err
			}
			if k.finished {
				live--
			}
		}
		st := sched.Step{Thread: t, Ran: ran, Status: sched.Parked, Point: k.point}
		if k.finished {
			st.Status = sched.Finished
		}
		tag := dlTag(st, k.res)
		if k.res == 3 {
			tag = 98
		}
		var hs []string
		for u, c := range kids {
			if c.held {
				hs = append(hs, fmt.Sprint(u))
			}
		}
		if len(hs) > 1 {
			multi = true
		}
		if tag == 3 || tag == 9 {
			contended = true
		}
		_, serr := os.Stat(filepath.Join(dir, "LOCK"))
		ss = append(ss, fmt.Sprintf("S %d %s %d %s %s", t, corr.Bool(ran), tag, corr.List(hs), corr.Bool(serr == nil)))
		return nil
	}
	for _, t := range d.Schedule {
		if err := grant(t); err != nil {
			return corr.Case{}, err
		}
	}
	for round := 0; live > 0 && round < 40; round++ {
		for t := 0; t < d.N; t++ {
			if !kids[t].finished {
				if err := grant(t); err != nil {
					return corr.Case{}, err
				}
			}
		}
	}
	if live > 0 {
		return corr.Case{}, fmt.Errorf("dirlock: child processes did not finish")
	}
	d.Procs = true
	return corr.Case{Coq: fmt.Sprintf("Cs %d %s", d.N, corr.List(ss)), Nontrivial: multi || contended, Desc: d}, nil
}

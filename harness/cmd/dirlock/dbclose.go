package main

import (
	"fmt"
	"os"
	"path/filepath"
	"sync"
	"sync/atomic"

	NoKV "github.com/feichai0017/NoKV"
	"github.com/feichai0017/NoKV/utils"
	"github.com/feichai0017/NoKV/vfs"
	"verifharness/internal/corr"
)

// DB-level scenario of C33 (db.go is one of its anchors): a database is opened over a
// recording vfs.FS, written to and closed. Every file operation of Close is recorded as
// (is it on LOCK?, could a second contender take the directory lock right before it?).
// The directory must stay held until Close has finished with every other file: no intrusion
// may succeed, and no operation on another file may follow the first operation on LOCK.

type dbDesc struct {
	DB   bool `json:"db"`
	Sets int  `json:"sets"`
	Big  bool `json:"big"` // values above the value-log threshold
}

func dlDbCase(base string, d dbDesc) (corr.Case, error) {
	root, err := os.MkdirTemp(base, "dldb")
	if err != nil {
		return corr.Case{}, err
	}
	defer os.RemoveAll(root)
	dir := filepath.Join(root, "db")
	var (
		closing atomic.Bool
		mu      sync.Mutex
		ops     []string
		nonLock int
		intr    int
	)
	hook := func(op vfs.Op, path string) error {
		if !closing.Load() {
			return nil
		}
		mu.Lock()
		defer mu.Unlock()
		if filepath.Base(path) == "LOCK" {
			ops = append(ops, "D true false")
			return nil
		}
		nonLock++
		got := false
		if other, err := utils.AcquireDirLock(dir, nil); err == nil {
			got = true
			intr++
			_ = other.Release()
		}
		ops = append(ops, "D false "+corr.Bool(got))
		return nil
	}
	opt := NoKV.NewDefaultOptions()
	opt.WorkDir = dir
	opt.FS = vfs.NewFaultFS(vfs.OSFS{}, hook)
	db := NoKV.Open(opt)
	val := []byte("value")
	if d.Big {
		val = make([]byte, 4096)
	}
	for i := 0; i < d.Sets; i++ {
		if err := db.Set([]byte(fmt.Sprintf("key-%04d", i)), val); err != nil {
			return corr.Case{}, err
		}
	}
	closing.Store(true)
	cerr := db.Close()
	closing.Store(false)
	if cerr != nil {
		return corr.Case{}, fmt.Errorf("dirlock/db: close: %w", cerr)
	}
	mu.Lock()
	defer mu.Unlock()
	if nonLock == 0 {
		return corr.Case{}, fmt.Errorf("dirlock/db: Close performed no recorded file operation")
	}
	d.DB = true
	return corr.Case{Coq: "CsDb " + corr.List(ops), Nontrivial: true, Desc: d}, nil
}

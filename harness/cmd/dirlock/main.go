// Harness binary for C33 (directory lock).
package main

import "verifharness/internal/corr"

func main() { corr.Main(map[string]corr.Family{"dirlock": runDirLock}) }

// Harness binary for C33 (directory lock).
package main

import (
	"os"

	"verifharness/internal/corr"
)

func main() {
	if len(os.Args) == 3 && os.Args[1] == "child" {
		childMain(os.Args[2])
		return
	}
	corr.Main(map[string]corr.Family{"dirlock": runDirLock})
}

// Harness binary for C15 (manifest reload equals in-memory state).
package main

import "verifharness/internal/corr"

func main() { corr.Main(map[string]corr.Family{"manifest": runManifest}) }

package main

import (
	"encoding/json"
	"errors"
	"fmt"
	"os"
	"path/filepath"
	"sort"

	"github.com/feichai0017/NoKV/manifest"
	"github.com/feichai0017/NoKV/vfs"
	"verifharness/internal/corr"
)

type flat struct {
	N []uint64 `json:"n"`
	B [][]byte `json:"b"`
}

func (f flat) term() string {
	bs := make([]string, len(f.B))
	for i, b := range f.B {
		bs[i] = "H " + corr.Hex(b)
	}
	return fmt.Sprintf("(%s, %s)", corr.ListN(f.N), corr.List(bs))
}

func flatsTerm(fs []flat) string {
	it := make([]string, len(fs))
	for i, f := range fs {
		it[i] = f.term()
	}
	return corr.List(it)
}

func b2u(b bool) uint64 {
	if b {
		return 1
	}
	return 0
}

func nb(b []byte) []byte {
	if b == nil {
		return []byte{}
	}
	return b
}

// canon prints a Version in the canonical form of Spec/ManifestSpec.v.
func canon(v manifest.Version) []flat {
	var out []flat
	var levels []uint64
	for l, fs := range v.Levels {
		if len(fs) > 0 {
			levels = append(levels, uint64(l))
		}
	}
	sort.Slice(levels, func(i, j int) bool { return levels[i] < levels[j] })
	for _, l := range levels {
		fs := append([]manifest.FileMeta(nil), v.Levels[int(l)]...)
		sort.SliceStable(fs, func(i, j int) bool { return fs[i].FileID < fs[j].FileID })
		for _, f := range fs {
			out = append(out, flat{N: []uint64{0, uint64(f.Level), f.FileID, f.Size, f.CreatedAt, f.ValueSize, b2u(f.Ingest)}, B: [][]byte{nb(f.Smallest), nb(f.Largest)}})
		}
	}
	out = append(out, flat{N: []uint64{2, uint64(v.LogSegment), v.LogOffset}})
	var ids []manifest.ValueLogID
	for id := range v.ValueLogs {
		ids = append(ids, id)
	}
	sort.Slice(ids, func(i, j int) bool {
		if ids[i].Bucket != ids[j].Bucket {
			return ids[i].Bucket < ids[j].Bucket
		}
		return ids[i].FileID < ids[j].FileID
	})
	for _, id := range ids {
		m := v.ValueLogs[id]
		out = append(out, flat{N: []uint64{5, 1, uint64(m.Bucket), uint64(m.FileID), m.Offset, b2u(m.Valid)}})
	}
	var bs []uint32
	for b := range v.ValueLogHead {
		bs = append(bs, b)
	}
	sort.Slice(bs, func(i, j int) bool { return bs[i] < bs[j] })
	for _, b := range bs {
		m := v.ValueLogHead[b]
		out = append(out, flat{N: []uint64{3, 1, uint64(m.Bucket), uint64(m.FileID), m.Offset, b2u(m.Valid)}})
	}
	var gs []uint64
	for g := range v.RaftPointers {
		gs = append(gs, g)
	}
	sort.Slice(gs, func(i, j int) bool { return gs[i] < gs[j] })
	for _, g := range gs {
		r := v.RaftPointers[g]
		out = append(out, flat{N: []uint64{6, 1, r.GroupID, uint64(r.Segment), r.Offset, r.AppliedIndex, r.AppliedTerm, r.Committed,
			r.SnapshotIndex, r.SnapshotTerm, r.TruncatedIndex, r.TruncatedTerm, r.SegmentIndex, r.TruncatedOffset}})
	}
	var rs []uint64
	for id := range v.Regions {
		rs = append(rs, id)
	}
	sort.Slice(rs, func(i, j int) bool { return rs[i] < rs[j] })
	for _, id := range rs {
		m := v.Regions[id]
		n := []uint64{7, 1, 0, m.ID, m.Epoch.Version, m.Epoch.ConfVersion, uint64(m.State)}
		for _, p := range m.Peers {
			n = append(n, p.StoreID, p.PeerID)
		}
		out = append(out, flat{N: n, B: [][]byte{nb(m.StartKey), nb(m.EndKey)}})
	}
	return out
}

func unflatEdit(v flat) manifest.Edit {
	t := manifest.EditType(v.N[0])
	e := manifest.Edit{Type: t}
	switch t {
	case manifest.EditAddFile, manifest.EditDeleteFile:
		e.File = &manifest.FileMeta{Level: int(v.N[1]), FileID: v.N[2], Size: v.N[3], CreatedAt: v.N[4], ValueSize: v.N[5], Ingest: v.N[6] != 0, Smallest: v.B[0], Largest: v.B[1]}
	case manifest.EditLogPointer:
		e.LogSeg, e.LogOffset = uint32(v.N[1]), v.N[2]
	case manifest.EditValueLogHead, manifest.EditDeleteValueLog, manifest.EditUpdateValueLog:
		if v.N[1] != 0 {
			e.ValueLog = &manifest.ValueLogMeta{Bucket: uint32(v.N[2]), FileID: uint32(v.N[3]), Offset: v.N[4], Valid: v.N[5] != 0}
		}
	case manifest.EditRaftPointer:
		if v.N[1] != 0 {
			n := v.N[2:]
			e.Raft = &manifest.RaftLogPointer{GroupID: n[0], Segment: uint32(n[1]), Offset: n[2], AppliedIndex: n[3], AppliedTerm: n[4], Committed: n[5],
				SnapshotIndex: n[6], SnapshotTerm: n[7], TruncatedIndex: n[8], TruncatedTerm: n[9], SegmentIndex: n[10], TruncatedOffset: n[11]}
		}
	case manifest.EditRegion:
		if v.N[1] != 0 {
			m := manifest.RegionMeta{ID: v.N[3], Epoch: manifest.RegionEpoch{Version: v.N[4], ConfVersion: v.N[5]}, State: manifest.RegionState(v.N[6]), StartKey: v.B[0], EndKey: v.B[1]}
			for i := 7; i+1 < len(v.N); i += 2 {
				m.Peers = append(m.Peers, manifest.PeerMeta{StoreID: v.N[i], PeerID: v.N[i+1]})
			}
			e.Region = &manifest.RegionEdit{Meta: m, Delete: v.N[2] != 0}
		}
	}
	return e
}

type mfDesc struct {
	Faults   []int    `json:"faults,omitempty"` // kind "fault": per batch 0 = none, 1..6 see faultNames
	Kind     string   `json:"kind"` // reload | crash | resume | fault
	Thr      int64    `json:"thr"`
	Batches  [][]flat `json:"batches"`
	Batches2 [][]flat `json:"batches2,omitempty"`
}

func key(c *corr.Ctx) []byte {
	return corr.Pick(c.Rng, [][]byte{{}, {0}, {'a'}, {'a', 0}, {'a', 0xff}, {'b', 'c'}, {0xff}})
}

func small(c *corr.Ctx) uint64 { return corr.Pick(c.Rng, []uint64{0, 1, 2, 3, 127, 128, 1 << 20, 1<<32 - 1}) }
func big(c *corr.Ctx) uint64 {
	return corr.Pick(c.Rng, []uint64{0, 1, 5, 127, 128, 300, 1 << 33, 1<<63 - 1, 1<<64 - 1})
}

// genEdits: all 8 edit types over small id spaces so that edits collide (delete existing files,
// update/delete existing value logs and heads, overwrite raft pointers, delete regions), nil
// sub-structs, invalid value-log updates with a non-zero offset. File ids are unique per level
// (the engine never adds a file id twice; see Properties/C15.v).
func genEdits(c *corr.Ctx, n int) []flat {
	var out []flat
	type lf struct{ l, id uint64 }
	live := map[lf]bool{}
	used := map[lf]bool{}
	nextID := uint64(1)
	for i := 0; i < n; i++ {
		switch c.Rng.Intn(9) {
		case 0, 1:
			l := uint64(c.Rng.Intn(7))
			id := nextID
			nextID += uint64(1 + c.Rng.Intn(3))
			if c.Rng.Intn(3) == 0 { // ids out of order
				id = nextID + 100 - uint64(i)
				nextID++
			}
			if live[lf{l, id}] {
				continue
			}
			live[lf{l, id}] = true
			used[lf{l, id}] = true
			out = append(out, flat{N: []uint64{0, l, id, big(c), big(c), big(c), uint64(c.Rng.Intn(2))}, B: [][]byte{key(c), key(c)}})
		case 2:
			var ks []lf
			for k := range live {
				ks = append(ks, k)
			}
			sort.Slice(ks, func(a, b int) bool { return ks[a].l < ks[b].l || (ks[a].l == ks[b].l && ks[a].id < ks[b].id) })
			if len(ks) > 0 && c.Rng.Intn(5) != 0 {
				k := corr.Pick(c.Rng, ks)
				delete(live, k)
				out = append(out, flat{N: []uint64{1, k.l, k.id, 0, 0, 0, 0}, B: [][]byte{{}, {}}})
			} else { // delete of a file that does not exist
				out = append(out, flat{N: []uint64{1, uint64(c.Rng.Intn(7)), 9999, 0, 0, 0, 0}, B: [][]byte{{}, {}}})
			}
		case 3:
			out = append(out, flat{N: []uint64{2, small(c), big(c)}})
		case 4:
			if c.Rng.Intn(8) == 0 {
				out = append(out, flat{N: []uint64{3, 0}})
				continue
			}
			out = append(out, flat{N: []uint64{3, 1, uint64(c.Rng.Intn(3)), uint64(c.Rng.Intn(4)), big(c), 1}})
		case 5:
			out = append(out, flat{N: []uint64{4, 1, uint64(c.Rng.Intn(3)), uint64(c.Rng.Intn(4)), 0, 0}})
		case 6:
			out = append(out, flat{N: []uint64{5, 1, uint64(c.Rng.Intn(3)), uint64(c.Rng.Intn(4)), big(c), uint64(c.Rng.Intn(2))}})
		case 7:
			if c.Rng.Intn(5) == 0 {
				out = append(out, flat{N: []uint64{6, 0}})
				continue
			}
			nn := []uint64{6, 1, uint64(c.Rng.Intn(3)), small(c)}
			for j := 0; j < 10; j++ {
				nn = append(nn, big(c))
			}
			out = append(out, flat{N: nn})
		case 8:
			id := uint64(c.Rng.Intn(4))
			if c.Rng.Intn(6) == 0 {
				out = append(out, flat{N: []uint64{7, 0}})
				continue
			}
			if c.Rng.Intn(4) == 0 {
				out = append(out, flat{N: []uint64{7, 1, 1, id, 0, 0, 0}, B: [][]byte{{}, {}}})
				continue
			}
			nn := []uint64{7, 1, 0, id, big(c), big(c), uint64(c.Rng.Intn(5))}
			for j, k := 0, c.Rng.Intn(4); j < k; j++ {
				nn = append(nn, big(c), big(c))
			}
			out = append(out, flat{N: nn, B: [][]byte{key(c), key(c)}})
		}
	}
	return out
}

func batchesOf(c *corr.Ctx, es []flat) [][]flat {
	var out [][]flat
	for i := 0; i < len(es); {
		k := 1 + c.Rng.Intn(3)
		if i+k > len(es) {
			k = len(es) - i
		}
		out = append(out, es[i:i+k])
		i += k
	}
	return out
}

func batchesTerm(bs [][]flat) string {
	it := make([]string, len(bs))
	for i, b := range bs {
		it[i] = flatsTerm(b)
	}
	return corr.List(it)
}

func toEdits(b []flat) []manifest.Edit {
	out := make([]manifest.Edit, len(b))
	for i, f := range b {
		out[i] = unflatEdit(f)
	}
	return out
}

// reopen: Verify (ErrNotExist tolerated, as db.go does) + Open + Current.
func reopen(dir string) ([]flat, int) {
	if err := manifest.Verify(dir, nil); err != nil && !errors.Is(err, os.ErrNotExist) {
		return nil, 1
	}
	m, err := manifest.Open(dir, nil)
	if err != nil {
		return nil, 2
	}
	defer m.Close()
	return canon(m.Current()), 0
}

func reloadCase(c *corr.Ctx, root string, d mfDesc) (corr.Case, error) {
	dir, err := os.MkdirTemp(root, "m")
	if err != nil {
		return corr.Case{}, err
	}
	defer os.RemoveAll(dir)
	m, err := manifest.Open(dir, nil)
	if err != nil {
		return corr.Case{}, err
	}
	m.SetRewriteThreshold(d.Thr)
	for _, b := range d.Batches {
		if err := m.LogEdits(toEdits(b)...); err != nil {
			return corr.Case{}, err
		}
	}
	mem := canon(m.Current())
	if err := m.Close(); err != nil {
		return corr.Case{}, err
	}
	if _, err := os.Stat(filepath.Join(dir, "MANIFEST-000001")); err != nil {
		c.Count("reload_rewritten")
	} else {
		c.Count("reload_no_rewrite")
	}
	disk, errc := reopen(dir)
	term := fmt.Sprintf("Cm %d %s %s %s %d", d.Thr, batchesTerm(d.Batches), flatsTerm(mem), flatsTerm(disk), errc)
	return corr.Case{Coq: term, Nontrivial: len(d.Batches) > 1, Desc: d}, nil
}

// ---- recording file system: a snapshot of the directory at every operation ----

type dirSnap map[string][]byte

type recFS struct {
	vfs.OSFS
	dir   string
	on    *bool
	snaps *[]dirSnap
}

func (r recFS) snap() dirSnap {
	s := dirSnap{}
	ents, _ := os.ReadDir(r.dir)
	for _, e := range ents {
		b, _ := os.ReadFile(filepath.Join(r.dir, e.Name()))
		s[e.Name()] = b
	}
	return s
}

func (r recFS) record() {
	if *r.on {
		*r.snaps = append(*r.snaps, r.snap())
	}
}

func (r recFS) OpenFileHandle(name string, flag int, perm os.FileMode) (vfs.File, error) {
	f, err := r.OSFS.OpenFileHandle(name, flag, perm)
	r.record()
	if err != nil {
		return nil, err
	}
	return &recFile{File: f, fs: r, base: filepath.Base(name)}, nil
}

func (r recFS) WriteFile(name string, data []byte, perm os.FileMode) error {
	// torn variants: the file created empty / holding a prefix
	if *r.on {
		base := r.snap()
		for _, k := range cutPoints(len(data)) {
			s := dirSnap{}
			for n, b := range base {
				s[n] = b
			}
			s[filepath.Base(name)] = append([]byte(nil), data[:k]...)
			*r.snaps = append(*r.snaps, s)
		}
	}
	err := r.OSFS.WriteFile(name, data, perm)
	r.record()
	return err
}

func (r recFS) Rename(a, b string) error { err := r.OSFS.Rename(a, b); r.record(); return err }
func (r recFS) Remove(a string) error    { err := r.OSFS.Remove(a); r.record(); return err }
func (r recFS) Truncate(a string, n int64) error {
	err := r.OSFS.Truncate(a, n)
	r.record()
	return err
}

type recFile struct {
	vfs.File
	fs   recFS
	base string
}

func cutPoints(n int) []int {
	set := map[int]bool{}
	for _, k := range []int{0, 1, 3, 4, 5, 9, n / 3, n / 2, n - 5, n - 4, n - 1} {
		if k >= 0 && k < n {
			set[k] = true
		}
	}
	var out []int
	for k := range set {
		out = append(out, k)
	}
	sort.Ints(out)
	return out
}

func (f *recFile) Write(p []byte) (int, error) {
	if *f.fs.on {
		base := f.fs.snap()
		for _, k := range cutPoints(len(p)) {
			s := dirSnap{}
			for n, b := range base {
				s[n] = b
			}
			s[f.base] = append(append([]byte(nil), base[f.base]...), p[:k]...)
			*f.fs.snaps = append(*f.fs.snaps, s)
		}
	}
	n, err := f.File.Write(p)
	f.fs.record()
	return n, err
}

func crashCase(c *corr.Ctx, root string, d mfDesc) (corr.Case, error) {
	dir, err := os.MkdirTemp(root, "c")
	if err != nil {
		return corr.Case{}, err
	}
	defer os.RemoveAll(dir)
	on := false
	var snaps []dirSnap
	fs := recFS{dir: dir, on: &on, snaps: &snaps}
	m, err := manifest.Open(dir, fs)
	if err != nil {
		return corr.Case{}, err
	}
	m.SetRewriteThreshold(d.Thr)
	var groups []string
	total := 0
	for k, b := range d.Batches {
		snaps = snaps[:0]
		on = true
		err := m.LogEdits(toEdits(b)...)
		on = false
		if err != nil {
			return corr.Case{}, err
		}
		seen := map[string]bool{}
		var obs []string
		for _, s := range snaps {
			sd, err := os.MkdirTemp(root, "s")
			if err != nil {
				return corr.Case{}, err
			}
			for n, bts := range s {
				if err := os.WriteFile(filepath.Join(sd, n), bts, 0o644); err != nil {
					return corr.Case{}, err
				}
			}
			st, errc := reopen(sd)
			os.RemoveAll(sd)
			t := fmt.Sprintf("(%s, %d)", flatsTerm(st), errc)
			total++
			if !seen[t] {
				seen[t] = true
				obs = append(obs, t)
			}
		}
		c.CountN("crash_snapshots", len(snaps))
		groups = append(groups, fmt.Sprintf("(%d, %s)", k, corr.List(obs)))
	}
	m.Close()
	term := fmt.Sprintf("Cc %d %s %s", d.Thr, batchesTerm(d.Batches), corr.List(groups))
	return corr.Case{Coq: term, Nontrivial: total > 0, Desc: d}, nil
}

// orphanImage: among the directory snapshots of one LogEdits call, the last one that holds a
// second, newer manifest file while CURRENT still names the old one (a rewrite that died
// between "new manifest written" and "CURRENT renamed").
func orphanImage(snaps []dirSnap) dirSnap {
	var img dirSnap
	for _, s := range snaps {
		var mans []string
		for n := range s {
			if len(n) > 9 && n[:9] == "MANIFEST-" {
				mans = append(mans, n)
			}
		}
		sort.Strings(mans)
		if len(mans) == 2 && string(s["CURRENT"]) == mans[0] && len(s[mans[1]]) > 0 {
			img = s
		}
	}
	return img
}

func longKey(c *corr.Ctx, i int) []byte {
	return []byte(fmt.Sprintf("key-%02d-%s", i, string(make([]byte, 8+c.Rng.Intn(12)))))
}

// resumeCase: a history whose last LogEdits rewrites the manifest; the image with the orphan
// manifest is reopened with the real Verify + Open, more edits are logged (first a batch of
// deletes, so that the next snapshot is smaller than the orphan; then a few small edits),
// Current() is taken, the manager closed and the directory reopened once more.
func resumeCase(c *corr.Ctx, root string, d mfDesc) (corr.Case, bool, error) {
	dir, err := os.MkdirTemp(root, "r")
	if err != nil {
		return corr.Case{}, false, err
	}
	defer os.RemoveAll(dir)
	on := false
	var snaps []dirSnap
	fs := recFS{dir: dir, on: &on, snaps: &snaps}
	m, err := manifest.Open(dir, fs)
	if err != nil {
		return corr.Case{}, false, err
	}
	m.SetRewriteThreshold(d.Thr)
	var img dirSnap
	cut := -1
	for k, b := range d.Batches {
		snaps = snaps[:0]
		on = true
		err := m.LogEdits(toEdits(b)...)
		on = false
		if err != nil {
			return corr.Case{}, false, err
		}
		if s := orphanImage(snaps); s != nil {
			img, cut = s, k
		}
	}
	m.Close()
	if img == nil {
		return corr.Case{}, false, nil
	}
	d.Batches = d.Batches[:cut+1]
	// the image: restart on it
	rd, err := os.MkdirTemp(root, "ri")
	if err != nil {
		return corr.Case{}, false, err
	}
	defer os.RemoveAll(rd)
	for n, b := range img {
		if err := os.WriteFile(filepath.Join(rd, n), b, 0o644); err != nil {
			return corr.Case{}, false, err
		}
	}
	if err := manifest.Verify(rd, nil); err != nil {
		return corr.Case{}, false, fmt.Errorf("verify of orphan image: %w", err)
	}
	m2, err := manifest.Open(rd, nil)
	if err != nil {
		return corr.Case{}, false, fmt.Errorf("open of orphan image: %w", err)
	}
	m2.SetRewriteThreshold(d.Thr)
	for _, b := range d.Batches2 {
		if err := m2.LogEdits(toEdits(b)...); err != nil {
			return corr.Case{}, false, err
		}
	}
	mem := canon(m2.Current())
	if err := m2.Close(); err != nil {
		return corr.Case{}, false, err
	}
	disk, errc := reopen(rd)
	ents, _ := os.ReadDir(rd)
	c.CountN("resume_manifest_files_left", len(ents)-1)
	term := fmt.Sprintf("Cr %d %s %s %s %s %d", d.Thr, batchesTerm(d.Batches), batchesTerm(d.Batches2), flatsTerm(mem), flatsTerm(disk), errc)
	return corr.Case{Coq: term, Nontrivial: true, Desc: d}, true, nil
}

// genResume: adds of files with long keys plus churn (log pointer, one raft group) until the
// threshold forces a rewrite whose snapshot is well below the threshold; then deletes.
func genResume(c *corr.Ctx) mfDesc {
	thr := int64(corr.Pick(c.Rng, []int{500, 700, 900}))
	nf := 4 + c.Rng.Intn(4)
	var b1 [][]flat
	for i := 0; i < nf; i++ {
		b1 = append(b1, []flat{{N: []uint64{0, uint64(i % 3), uint64(10 + i), 100, 1, 0, 0}, B: [][]byte{longKey(c, i), longKey(c, i+50)}}})
	}
	for i := 0; i < 40; i++ { // churn: overwritten state, grows the log only
		if c.Rng.Intn(2) == 0 {
			b1 = append(b1, []flat{{N: []uint64{2, uint64(i), big(c)}}})
		} else {
			nn := []uint64{6, 1, 1, small(c)}
			for j := 0; j < 10; j++ {
				nn = append(nn, big(c))
			}
			b1 = append(b1, []flat{{N: nn}})
		}
	}
	var dels []flat
	for i := 0; i < nf-1; i++ {
		dels = append(dels, flat{N: []uint64{1, uint64(i % 3), uint64(10 + i), 0, 0, 0, 0}, B: [][]byte{{}, {}}})
	}
	b2 := [][]flat{dels}
	for i, n := 0, c.Rng.Intn(4); i < n; i++ {
		b2 = append(b2, []flat{{N: []uint64{2, uint64(100 + i), uint64(i)}}})
	}
	if c.Rng.Intn(3) == 0 {
		b2 = append(b2, []flat{{N: []uint64{0, 5, 77, 1, 1, 1, 0}, B: [][]byte{{'x'}, {'y'}}}})
	}
	return mfDesc{Kind: "resume", Thr: thr, Batches: b1, Batches2: b2}
}

var faultNames = []string{"none", "append_write", "create_new_manifest", "snapshot_write", "snapshot_sync", "current_tmp_write", "current_rename"}

// faultCase: LogEdits calls on a vfs.FaultFS; before a call one fault may be armed (one shot):
// the write of the batch, or one of the I/O operations of the rewrite that the call triggers.
// After the history: Current(), Close, Verify + Open, Current().
func faultCase(c *corr.Ctx, root string, d mfDesc) (corr.Case, error) {
	dir, err := os.MkdirTemp(root, "f")
	if err != nil {
		return corr.Case{}, err
	}
	defer os.RemoveAll(dir)
	armed, fired := 0, false
	live := ""
	hook := func(op vfs.Op, path string) error {
		if armed == 0 || fired {
			return nil
		}
		base := filepath.Base(path)
		isMan := len(base) > 9 && base[:9] == "MANIFEST-"
		hit := false
		switch armed {
		case 1:
			hit = op == vfs.OpFileWrite && base == live
		case 2:
			hit = op == vfs.OpOpenFile && isMan && base != live
		case 3:
			hit = op == vfs.OpFileWrite && isMan && base != live
		case 4:
			hit = op == vfs.OpFileSync && isMan && base != live
		case 5:
			hit = op == vfs.OpWriteFile
		case 6:
			hit = op == vfs.OpRename
		}
		if hit {
			fired = true
			return fmt.Errorf("injected %s failure", faultNames[armed])
		}
		return nil
	}
	fs := vfs.NewFaultFS(nil, hook)
	m, err := manifest.Open(dir, fs)
	if err != nil {
		return corr.Case{}, err
	}
	m.SetRewriteThreshold(d.Thr)
	var steps []string
	for k, b := range d.Batches {
		cur, _ := os.ReadFile(filepath.Join(dir, "CURRENT"))
		live = string(cur)
		armed, fired = d.Faults[k], false
		var lerr error
		func() {
			defer func() {
				if r := recover(); r != nil {
					lerr = fmt.Errorf("panic: %v", r)
				}
			}()
			lerr = m.LogEdits(toEdits(b)...)
		}()
		f := armed
		armed = 0
		if lerr != nil && !fired {
			return corr.Case{}, fmt.Errorf("LogEdits failed without an injected fault: %w", lerr)
		}
		e := 0
		if lerr != nil {
			e = 1
			c.Count("fault_fired_" + faultNames[f])
		} else if f != 0 {
			c.Count("fault_not_reached")
		}
		steps = append(steps, fmt.Sprintf("(%s, %d, %d)", flatsTerm(b), f, e))
	}
	mem := canon(m.Current())
	if err := m.Close(); err != nil {
		return corr.Case{}, err
	}
	disk, errc := reopen(dir)
	term := fmt.Sprintf("Cf %d %s %s %s %d", d.Thr, corr.List(steps), flatsTerm(mem), flatsTerm(disk), errc)
	return corr.Case{Coq: term, Nontrivial: true, Desc: d}, nil
}

func runManifest(c *corr.Ctx) error {
	c.Meta("run_module", "RunManifest")
	c.Meta("rule", "real manifest.Manager. reload cases: random edit sequences (3..40 edits, LogEdits batches of 1-3) over all 8 edit types with colliding ids (file add/delete incl. deletes of missing files and out-of-order ids, WAL checkpoint, value-log head/delete/update incl. invalid updates with an offset, raft pointers, region update/delete, nil sub-structs), boundary field values (0, 2^32-1, 2^63-1, 2^64-1), empty keys; rewrite thresholds {disabled, 64, 300 bytes}; Current() before Close vs the model and vs Current() after Verify + Open. crash cases: the same run on a recording vfs.FS that snapshots the directory after every OpenFileHandle / Write / WriteFile / Rename / Remove / Truncate during LogEdits and at torn prefixes of every write; every snapshot is reopened with the real Verify + Open; each recovered state must be one of the model's crash states for that LogEdits call and the state after a prefix of the edits containing all acknowledged ones. resume cases: a history whose last LogEdits rewrites the manifest; the image with the new manifest written but CURRENT not yet renamed (orphan manifest file) is reopened with the real Verify + Open, a batch of deletes (smaller snapshot, next rewrite) and 0-3 small edits are logged, Current() compared with the model (open_mgr + log_all) and with Current() after another Verify + Open. fault cases: LogEdits calls on a vfs.FaultFS with a one-shot injected I/O error (write of the batch; create / write / sync of the new manifest; WriteFile of CURRENT.tmp; rename to CURRENT) armed for about a third of the calls, thresholds 64/150 so that most calls rewrite; the history goes on with successful calls; compared: which calls returned an error, Current() vs the model (log_all_f) and vs Current() after Verify + Open")
	root, err := os.MkdirTemp(os.Getenv("VERIF_TMP"), "mf")
	if err != nil {
		return err
	}
	defer os.RemoveAll(root)
	run := func(d mfDesc) error {
		var cs corr.Case
		var err error
		if d.Kind == "fault" {
			cs, err = faultCase(c, root, d)
		} else if d.Kind == "resume" {
			var ok bool
			cs, ok, err = resumeCase(c, root, d)
			if err == nil && !ok {
				c.Count("resume_no_orphan_image")
				return nil
			}
			c.Count("resume_cases")
		} else if d.Kind == "crash" {
			cs, err = crashCase(c, root, d)
		} else {
			cs, err = reloadCase(c, root, d)
		}
		if err != nil {
			return err
		}
		c.Emit(cs)
		return nil
	}
	if c.Replay != "" {
		cs, err := c.ReplayCases()
		if err != nil {
			return err
		}
		for _, rc := range cs {
			var d mfDesc
			b, _ := json.Marshal(rc.Desc)
			if err := json.Unmarshal(b, &d); err != nil {
				return err
			}
			if err := run(d); err != nil {
				return err
			}
		}
		return nil
	}
	n := c.Scale(250, 8000)
	nc := c.Scale(40, 1500)
	for i := 0; i < n; i++ {
		d := mfDesc{Kind: "reload", Thr: corr.Pick(c.Rng, []int64{0, 64, 300, 300}), Batches: batchesOf(c, genEdits(c, 3+c.Rng.Intn(38)))}
		if err := run(d); err != nil {
			return err
		}
		if i%(n/nc+1) == 0 {
			d := mfDesc{Kind: "crash", Thr: corr.Pick(c.Rng, []int64{0, 64, 150, 150}), Batches: batchesOf(c, genEdits(c, 2+c.Rng.Intn(7)))}
			if err := run(d); err != nil {
				return err
			}
		}
	}
	for i, n := 0, c.Scale(60, 2000); i < n; i++ {
		bs := batchesOf(c, genEdits(c, 4+c.Rng.Intn(14)))
		fl := make([]int, len(bs))
		for k := range fl {
			if c.Rng.Intn(3) == 0 {
				fl[k] = 1 + c.Rng.Intn(6)
			}
		}
		d := mfDesc{Kind: "fault", Thr: corr.Pick(c.Rng, []int64{64, 64, 150}), Batches: bs, Faults: fl}
		if i%2 == 1 && len(bs) >= 3 {
			// one fault late in the history, a larger threshold: the calls after the failed
			// rewrite do not reach another rewrite before the manager is closed
			for k := range fl {
				fl[k] = 0
			}
			fl[len(bs)-2-c.Rng.Intn(2)] = 2 + c.Rng.Intn(5)
			d.Thr = corr.Pick(c.Rng, []int64{150, 300, 500})
		}
		if err := run(d); err != nil {
			return err
		}
	}
	for i, n := 0, c.Scale(12, 300); i < n; i++ {
		if err := run(genResume(c)); err != nil {
			return err
		}
	}
	c.Meta("exhaustive", false)
	return nil
}

package main

import (
	"encoding/json"
	"fmt"
	"os"
	"sort"

	"github.com/feichai0017/NoKV/manifest"
	"verifharness/internal/corr"
)

type flat struct {
	N []uint64 `json:"n"`
	B [][]byte `json:"b"`
}

func (f flat) term() string {
	bs := make([]string, len(f.B))
	for i, b := range f.B {
		bs[i] = "H " + corr.Hex(b)
	}
	return fmt.Sprintf("(%s, %s)", corr.ListN(f.N), corr.List(bs))
}

func flatsTerm(fs []flat) string {
	it := make([]string, len(fs))
	for i, f := range fs {
		it[i] = f.term()
	}
	return corr.List(it)
}

func b2u(b bool) uint64 {
	if b {
		return 1
	}
	return 0
}

func nb(b []byte) []byte {
	if b == nil {
		return []byte{}
	}
	return b
}

// canon prints a Version in the canonical form of Spec/ManifestSpec.v.
func canon(v manifest.Version) []flat {
	var out []flat
	var levels []uint64
	for l, fs := range v.Levels {
		if len(fs) > 0 {
			levels = append(levels, uint64(l))
		}
	}
	sort.Slice(levels, func(i, j int) bool { return levels[i] < levels[j] })
	for _, l := range levels {
		fs := append([]manifest.FileMeta(nil), v.Levels[int(l)]...)
		sort.SliceStable(fs, func(i, j int) bool { return fs[i].FileID < fs[j].FileID })
		for _, f := range fs {
			out = append(out, flat{N: []uint64{0, uint64(f.Level), f.FileID, f.Size, f.CreatedAt, f.ValueSize, b2u(f.Ingest)}, B: [][]byte{nb(f.Smallest), nb(f.Largest)}})
		}
	}
	out = append(out, flat{N: []uint64{2, uint64(v.LogSegment), v.LogOffset}})
	var ids []manifest.ValueLogID
	for id := range v.ValueLogs {
		ids = append(ids, id)
	}
	sort.Slice(ids, func(i, j int) bool {
		if ids[i].Bucket != ids[j].Bucket {
			return ids[i].Bucket < ids[j].Bucket
		}
		return ids[i].FileID < ids[j].FileID
	})
	for _, id := range ids {
		m := v.ValueLogs[id]
		out = append(out, flat{N: []uint64{5, 1, uint64(m.Bucket), uint64(m.FileID), m.Offset, b2u(m.Valid)}})
	}
	var bs []uint32
	for b := range v.ValueLogHead {
		bs = append(bs, b)
	}
	sort.Slice(bs, func(i, j int) bool { return bs[i] < bs[j] })
	for _, b := range bs {
		m := v.ValueLogHead[b]
		out = append(out, flat{N: []uint64{3, 1, uint64(m.Bucket), uint64(m.FileID), m.Offset, b2u(m.Valid)}})
	}
	var gs []uint64
	for g := range v.RaftPointers {
		gs = append(gs, g)
	}
	sort.Slice(gs, func(i, j int) bool { return gs[i] < gs[j] })
	for _, g := range gs {
		r := v.RaftPointers[g]
		out = append(out, flat{N: []uint64{6, 1, r.GroupID, uint64(r.Segment), r.Offset, r.AppliedIndex, r.AppliedTerm, r.Committed,
			r.SnapshotIndex, r.SnapshotTerm, r.TruncatedIndex, r.TruncatedTerm, r.SegmentIndex, r.TruncatedOffset}})
	}
	var rs []uint64
	for id := range v.Regions {
		rs = append(rs, id)
	}
	sort.Slice(rs, func(i, j int) bool { return rs[i] < rs[j] })
	for _, id := range rs {
		m := v.Regions[id]
		n := []uint64{7, 1, 0, m.ID, m.Epoch.Version, m.Epoch.ConfVersion, uint64(m.State)}
		for _, p := range m.Peers {
			n = append(n, p.StoreID, p.PeerID)
		}
		out = append(out, flat{N: n, B: [][]byte{nb(m.StartKey), nb(m.EndKey)}})
	}
	return out
}

func unflatEdit(v flat) manifest.Edit {
	t := manifest.EditType(v.N[0])
	e := manifest.Edit{Type: t}
	switch t {
	case manifest.EditAddFile, manifest.EditDeleteFile:
		e.File = &manifest.FileMeta{Level: int(v.N[1]), FileID: v.N[2], Size: v.N[3], CreatedAt: v.N[4], ValueSize: v.N[5], Ingest: v.N[6] != 0, Smallest: v.B[0], Largest: v.B[1]}
	case manifest.EditLogPointer:
		e.LogSeg, e.LogOffset = uint32(v.N[1]), v.N[2]
	case manifest.EditValueLogHead, manifest.EditDeleteValueLog, manifest.EditUpdateValueLog:
		if v.N[1] != 0 {
			e.ValueLog = &manifest.ValueLogMeta{Bucket: uint32(v.N[2]), FileID: uint32(v.N[3]), Offset: v.N[4], Valid: v.N[5] != 0}
		}
	case manifest.EditRaftPointer:
		if v.N[1] != 0 {
			n := v.N[2:]
			e.Raft = &manifest.RaftLogPointer{GroupID: n[0], Segment: uint32(n[1]), Offset: n[2], AppliedIndex: n[3], AppliedTerm: n[4], Committed: n[5],
				SnapshotIndex: n[6], SnapshotTerm: n[7], TruncatedIndex: n[8], TruncatedTerm: n[9], SegmentIndex: n[10], TruncatedOffset: n[11]}
		}
	case manifest.EditRegion:
		if v.N[1] != 0 {
			m := manifest.RegionMeta{ID: v.N[3], Epoch: manifest.RegionEpoch{Version: v.N[4], ConfVersion: v.N[5]}, State: manifest.RegionState(v.N[6]), StartKey: v.B[0], EndKey: v.B[1]}
			for i := 7; i+1 < len(v.N); i += 2 {
				m.Peers = append(m.Peers, manifest.PeerMeta{StoreID: v.N[i], PeerID: v.N[i+1]})
			}
			e.Region = &manifest.RegionEdit{Meta: m, Delete: v.N[2] != 0}
		}
	}
	return e
}

type mfDesc struct {
	Thr   int64  `json:"thr"`
	Edits []flat `json:"edits"`
}

func key(c *corr.Ctx) []byte {
	return corr.Pick(c.Rng, [][]byte{{}, {0}, {'a'}, {'a', 0}, {'a', 0xff}, {'b', 'c'}, {0xff}})
}

func small(c *corr.Ctx) uint64 { return corr.Pick(c.Rng, []uint64{0, 1, 2, 3, 127, 128, 1 << 20, 1<<32 - 1}) }
func big(c *corr.Ctx) uint64 {
	return corr.Pick(c.Rng, []uint64{0, 1, 5, 127, 128, 300, 1 << 33, 1<<63 - 1, 1<<64 - 1})
}

// genEdits: all 8 edit types over small id spaces so that edits collide (delete existing files,
// update/delete existing value logs and heads, overwrite raft pointers, delete regions).
func genEdits(c *corr.Ctx, n int, risky bool) []flat {
	var out []flat
	type lf struct{ l, id uint64 }
	live := map[lf]bool{}
	nextID := uint64(1)
	for i := 0; i < n; i++ {
		switch c.Rng.Intn(9) {
		case 0, 1:
			l := uint64(c.Rng.Intn(7))
			id := nextID
			nextID += uint64(1 + c.Rng.Intn(3))
			if c.Rng.Intn(3) == 0 { // ids out of order across levels
				id = nextID + 100 - uint64(i)
				nextID++
			}
			if live[lf{l, id}] {
				continue
			}
			live[lf{l, id}] = true
			out = append(out, flat{N: []uint64{0, l, id, big(c), big(c), big(c), uint64(c.Rng.Intn(2))}, B: [][]byte{key(c), key(c)}})
		case 2:
			var ks []lf
			for k := range live {
				ks = append(ks, k)
			}
			sort.Slice(ks, func(a, b int) bool { return ks[a].l < ks[b].l || (ks[a].l == ks[b].l && ks[a].id < ks[b].id) })
			if len(ks) > 0 && c.Rng.Intn(5) != 0 {
				k := corr.Pick(c.Rng, ks)
				delete(live, k)
				out = append(out, flat{N: []uint64{1, k.l, k.id, 0, 0, 0, 0}, B: [][]byte{{}, {}}})
			} else { // delete of a file that does not exist
				out = append(out, flat{N: []uint64{1, uint64(c.Rng.Intn(7)), 9999, 0, 0, 0, 0}, B: [][]byte{{}, {}}})
			}
		case 3:
			out = append(out, flat{N: []uint64{2, small(c), big(c)}})
		case 4:
			out = append(out, flat{N: []uint64{3, 1, uint64(c.Rng.Intn(3)), uint64(c.Rng.Intn(4)), big(c), 1}})
		case 5:
			out = append(out, flat{N: []uint64{4, 1, uint64(c.Rng.Intn(3)), uint64(c.Rng.Intn(4)), 0, 0}})
		case 6:
			valid := uint64(c.Rng.Intn(2))
			off := big(c)
			if valid == 0 && !risky {
				off = 0
			}
			out = append(out, flat{N: []uint64{5, 1, uint64(c.Rng.Intn(3)), uint64(c.Rng.Intn(4)), off, valid}})
		case 7:
			if risky && c.Rng.Intn(4) == 0 {
				out = append(out, flat{N: []uint64{6, 0}})
				continue
			}
			nn := []uint64{6, 1, uint64(c.Rng.Intn(3)), small(c)}
			for j := 0; j < 10; j++ {
				nn = append(nn, big(c))
			}
			out = append(out, flat{N: nn})
		case 8:
			id := uint64(c.Rng.Intn(4))
			if risky && c.Rng.Intn(5) == 0 {
				out = append(out, flat{N: []uint64{7, 0}})
				continue
			}
			if c.Rng.Intn(4) == 0 {
				out = append(out, flat{N: []uint64{7, 1, 1, id, 0, 0, 0}, B: [][]byte{{}, {}}})
				continue
			}
			nn := []uint64{7, 1, 0, id, big(c), big(c), uint64(c.Rng.Intn(5))}
			for j, k := 0, c.Rng.Intn(4); j < k; j++ {
				nn = append(nn, big(c), big(c))
			}
			out = append(out, flat{N: nn, B: [][]byte{key(c), key(c)}})
		}
	}
	return out
}

func manifestCase(c *corr.Ctx, root string, d mfDesc) (corr.Case, error) {
	dir, err := os.MkdirTemp(root, "m")
	if err != nil {
		return corr.Case{}, err
	}
	defer os.RemoveAll(dir)
	m, err := manifest.Open(dir, nil)
	if err != nil {
		return corr.Case{}, err
	}
	m.SetRewriteThreshold(d.Thr)
	for i := 0; i < len(d.Edits); {
		k := 1 + c.Rng.Intn(3)
		if i+k > len(d.Edits) {
			k = len(d.Edits) - i
		}
		var batch []manifest.Edit
		for _, f := range d.Edits[i : i+k] {
			batch = append(batch, unflatEdit(f))
		}
		if err := m.LogEdits(batch...); err != nil {
			return corr.Case{}, err
		}
		i += k
	}
	mem := canon(m.Current())
	if err := m.Close(); err != nil {
		return corr.Case{}, err
	}
	ents, _ := os.ReadDir(dir)
	rewritten := true
	for _, e := range ents {
		if e.Name() == "MANIFEST-000001" {
			rewritten = false
		}
	}
	errc := 0
	var disk []flat
	if err := manifest.Verify(dir, nil); err != nil {
		errc = 1
	} else if m2, err := manifest.Open(dir, nil); err != nil {
		errc = 2
	} else {
		disk = canon(m2.Current())
		m2.Close()
	}
	if rewritten {
		c.Count("rewritten")
	} else {
		c.Count("no_rewrite")
	}
	term := fmt.Sprintf("Cm %d %s %s %s %d", d.Thr, flatsTerm(d.Edits), flatsTerm(mem), flatsTerm(disk), errc)
	return corr.Case{Coq: term, Nontrivial: len(d.Edits) > 2, Desc: d}, nil
}

func runManifest(c *corr.Ctx) error {
	c.Meta("run_module", "RunManifest")
	c.Meta("rule", "real manifest.Manager: random edit sequences (3..40 edits, batches of 1-3) over all 8 edit types with colliding ids (file add/delete incl. deletes of missing files and out-of-order ids, WAL checkpoint, value-log head/delete/update, raft pointers, region update/delete), boundary field values (0, 2^32-1, 2^63-1, 2^64-1), empty keys; rewrite thresholds {disabled, 64, 300 bytes} so that automatic rewrites happen after almost every batch / every few batches; Current() before Close compared with the model's fold of apply and with Current() of a manager reopened after Verify + Open. non-trivial = more than two edits")
	root, err := os.MkdirTemp(os.Getenv("VERIF_TMP"), "mf")
	if err != nil {
		return err
	}
	defer os.RemoveAll(root)
	if c.Replay != "" {
		cs, err := c.ReplayCases()
		if err != nil {
			return err
		}
		for _, rc := range cs {
			var d mfDesc
			b, _ := json.Marshal(rc.Desc)
			if err := json.Unmarshal(b, &d); err != nil {
				return err
			}
			cs, err := manifestCase(c, root, d)
			if err != nil {
				return err
			}
			c.Emit(cs)
		}
		return nil
	}
	risky := os.Getenv("VERIF_C15_RISKY") == "1"
	n := c.Scale(300, 8000)
	for i := 0; i < n; i++ {
		d := mfDesc{Thr: corr.Pick(c.Rng, []int64{0, 64, 300, 300}), Edits: genEdits(c, 3+c.Rng.Intn(38), risky)}
		cs, err := manifestCase(c, root, d)
		if err != nil {
			return err
		}
		c.Emit(cs)
	}
	c.Meta("exhaustive", false)
	return nil
}

#!/usr/bin/env python3
"""Regenerates MANIFEST.json from bin/props.py (claimed properties) and properties.jsonl."""
import json, os, subprocess, sys
VERIF = os.path.dirname(os.path.dirname(os.path.abspath(__file__)))
sys.path.insert(0, os.path.join(VERIF, "bin"))
from props import PROPS

ids = [json.loads(l)["id"] for l in open(os.path.join(VERIF, "properties.jsonl"))]
hooks_commits = []
hp = os.path.join(VERIF, "hooks_commits.txt")
if os.path.exists(hp):
    hooks_commits = [l.split()[0] for l in open(hp) if l.strip()]
checks = []
for pid in ids:
    if pid not in PROPS or not PROPS[pid].get('claimed'):
        continue
    c = PROPS[pid]
    checks.append({
        "property_id": pid,
        "quick_cmd": "bin/check %s --tier quick" % pid,
        "thorough_cmd": "bin/check %s --tier thorough" % pid,
        "evidence_file": "/verif/evidence/%s.json" % pid,
        "replay_cmd_template": "bin/check %s --replay {path}" % pid,
        "engine": "coq-corr",
        "level_claimed": {"category": "proof", "text": c["level_text"], "design_ref": "DESIGN.md §7 " + pid},
        "level_note": c["level_note"],
        "technique": c.get("technique", "machine-checked proof in Coq 8.16.1 over a hand-written Gallina model + differential correspondence check of the model against the Go implementation (vm_compute)"),
    })
na = [{"property_id": pid, "reason": "not claimed yet: model/theorems for this property are not built at this commit (work in progress, see DESIGN.md §10 staging); the technique applies"} for pid in ids if pid not in PROPS or not PROPS[pid].get('claimed')]
m = {
    "version": 1,
    "setup_cmd": "bin/check --setup",
    "hooks": {
        "guard": "verif",
        "enable": "go build -tags verif (the harness in /verif/harness is built with it against /repo via a replace directive)",
        "baseline_off_cmd": "cd /repo && GOFLAGS=-mod=mod go test -json -vet=off -count=1 -timeout 25m ./...",
        "source_commits": hooks_commits,
        "add_only": True,
    },
    "engines": [{"name": "coq-corr", "path": "/verif/bin/check", "serves_properties": [c["property_id"] for c in checks],
                 "kind_free_text": "Coq 8.16.1 development under /verif/coq (theorems in theories/Properties) + Go correspondence harness under /verif/harness"}],
    "checks": checks,
    "not_applicable": na,
    "notes": "See DESIGN.md. Every check: hygiene grep, full .vo make, Print Assumptions of the property theorems, harness rebuilt from /repo working tree, cases evaluated in Coq against model (correspondence) and specification (oracle).",
}
json.dump(m, open(os.path.join(VERIF, "MANIFEST.json"), "w"), indent=1)
# merge known-finding fragments (committed; never written by a check)
kd = os.path.join(VERIF, "known_findings.d")
findings, fixed = [], []
if os.path.isdir(kd):
    for fn in sorted(os.listdir(kd)):
        if fn.endswith(".json"):
            j = json.load(open(os.path.join(kd, fn)))
            findings += j.get("findings", [])
            fixed += j.get("fixed", [])
json.dump({"findings": findings, "fixed": fixed}, open(os.path.join(VERIF, "known_findings.json"), "w"), indent=1)
print("claimed:", len(checks), "not claimed:", len(na))

"""Per-property configuration of bin/check."""

ALLOWED_AXIOMS = {
    # standard-library axioms (named in DESIGN.md §9 if they ever appear)
    "functional_extensionality_dep", "classic", "proof_irrelevance", "JMeq_eq",
    "eq_rect_eq", "propositional_extensionality",
}

TRUSTED_BASE = [
    "Coq 8.16.1 kernel and its vm_compute machine (no native_compute); coqchk re-check in the thorough tier",
    "Coq standard library (and std++ where imported); no axioms declared by this development (bin/check greps and reads Print Assumptions)",
    "hand-written Gallina model of the anchored code, tied to /repo only by the correspondence run of this check (Go harness built from the working tree with -tags verif, outputs evaluated against the model by coqc/vm_compute)",
    "Go harness, generators, canonicalisation of observables, Python driver (a bug there can hide a divergence, it cannot make a false theorem check)",
    "no extraction is used",
]

PROPS = {
    "C38": dict(family="config", run_module="RunConfig",
                level_text="Theorem C38_iff: the model of Validate returns no error iff the topology is well-formed (all list lengths, all ids, all byte-string templates), plus soundness of the reported error class; the model is tied to config.File.Validate by an exhaustive small-scope grid and random larger topologies evaluated in Coq.",
                level_note="Model of Validate is hand-written (Model/Config.v); Go's strings.TrimSpace/Contains are modelled on byte strings; correspondence is differential testing.",
                assumptions=["templates are byte strings; Unicode white space is the set listed in Model/Config.v:ws_len",
                             "ids are unbounded naturals in the model (uint64 in the code; no arithmetic is performed on them)"]),
}

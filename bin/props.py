"""Per-property configuration of bin/check: one JSON fragment per property in bin/props.d/."""
import json, os

ALLOWED_AXIOMS = {
    # standard-library axioms (named in DESIGN.md §9 if they ever appear)
    "functional_extensionality_dep", "classic", "proof_irrelevance", "JMeq_eq",
    "eq_rect_eq", "propositional_extensionality",
}

TRUSTED_BASE = [
    "Coq 8.16.1 kernel and its vm_compute machine (no native_compute); coqchk re-check in the thorough tier",
    "Coq standard library only (no std++, MathComp, Equations, Program or CoqHammer); no axioms declared or used by this development (bin/check greps and reads Print Assumptions)",
    "hand-written Gallina model of the anchored code, tied to /repo only by the correspondence run of this check (Go harness built from the working tree with -tags verif, outputs evaluated against the model by coqc/vm_compute)",
    "Go harness, generators, canonicalisation of observables, Python driver (a bug there can hide a divergence, it cannot make a false theorem check)",
    "no extraction is used",
]

_D = os.path.join(os.path.dirname(os.path.abspath(__file__)), "props.d")
PROPS = {}
for _fn in sorted(os.listdir(_D)):
    if _fn.endswith(".json"):
        _j = json.load(open(os.path.join(_D, _fn)))
        PROPS[_j["id"]] = _j

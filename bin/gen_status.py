#!/usr/bin/env python3
"""Regenerates the machine-written tables of DESIGN.md (between the AUTOGEN markers) from
bin/props.d, known_findings.d, coq/theories/Properties and seeded/*/meta.json."""
import json, os, re, glob

VERIF = os.path.dirname(os.path.dirname(os.path.abspath(__file__)))


def strip_comments(src):
    out, depth, i = [], 0, 0
    while i < len(src):
        if src.startswith("(*", i):
            depth += 1; i += 2
        elif src.startswith("*)", i) and depth:
            depth -= 1; i += 2
        else:
            if not depth:
                out.append(src[i])
            i += 1
    return "".join(out)


props = [json.loads(l) for l in open(os.path.join(VERIF, "properties.jsonl"))]
rows = []
for p in props:
    pid = p["id"]
    fp = os.path.join(VERIF, "bin/props.d/%s.json" % pid)
    cfg = json.load(open(fp)) if os.path.exists(fp) else {}
    vf = os.path.join(VERIF, "coq/theories/Properties/%s.v" % pid)
    thms = re.findall(r"^\s*(?:Theorem|Lemma|Corollary)\s+(\w+)", strip_comments(open(vf).read()), re.M) if os.path.exists(vf) else []
    kf = os.path.join(VERIF, "known_findings.d/%s.json" % pid)
    k = json.load(open(kf)) if os.path.exists(kf) else {"findings": [], "fixed": []}
    seeds = []
    for m in sorted(glob.glob(os.path.join(VERIF, "seeded/*/meta.json"))):
        j = json.load(open(m))
        v = j.get("verification", {})
        if v.get("property") == pid and v.get("confirmed") and not (v.get("note", "").startswith("latent") and not v.get("caught_by")):
            seeds.append((os.path.basename(os.path.dirname(m)), bool(v.get("caught_by"))))
    refuted = [t for t in thms if "refuted" in t]
    partial = "partial" in (cfg.get("level_text", "") + cfg.get("level_note", "")).lower()[:400]
    rows.append("| %s | %s | %d (%d refuted-witness) | %s | %s | %s | %s |" % (
        pid, "yes" if cfg.get("claimed") else "no", len(thms), len(refuted),
        "partial" if partial else "full",
        "; ".join(re.sub(r"^fixed: property=\w+ ", "", x)[:7] for x in k.get("fixed", [])) or "–",
        ", ".join(f["id"] for f in k.get("findings", [])) or "–",
        ("%d/%d caught" % (sum(1 for _, c in seeds if c), len(seeds))) if seeds else "–"))

table = "\n".join(["| id | claimed | theorems in Properties/Cxx.v | statement | fix commits | known findings | seeded changes |",
                   "|---|---|---|---|---|---|---|"] + rows)

seed_rows = []
for m in sorted(glob.glob(os.path.join(VERIF, "seeded/*/meta.json"))):
    j = json.load(open(m))
    v = j.get("verification", {})
    sid = os.path.basename(os.path.dirname(m))
    chk = v.get("checks") or {}
    seed_rows.append("| %s | %s | %s | %s | %s |" % (
        sid, v.get("property"), "yes" if v.get("confirmed") else "NO",
        ", ".join(v.get("caught_by") or []) or ("latent, unreachable through the API (meta.json)" if v.get("note", "").startswith("latent") else "**missed**" if v.get("confirmed") else "n/a"),
        (j.get("what") or "")[:160].replace("|", "/").replace("\n", " ")))
seed_table = "\n".join(["| seeded change | property | confirmed (demo fails with it, passes without; existing tests pass) | caught by | what |",
                        "|---|---|---|---|---|"] + seed_rows)

per = []
for p_ in props:
    pid = p_["id"]
    fp = os.path.join(VERIF, "bin/props.d/%s.json" % pid)
    cfg = json.load(open(fp)) if os.path.exists(fp) else {}
    vf = os.path.join(VERIF, "coq/theories/Properties/%s.v" % pid)
    thms = re.findall(r"^\s*(?:Theorem|Lemma|Corollary)\s+(\w+)", strip_comments(open(vf).read()), re.M) if os.path.exists(vf) else []
    per.append("**%s — %s.** %s\n\n*Trusted / assumed:* %s %s\n\n*Theorems (`Properties/%s.v`):* %s\n\n*Harness:* `harness/cmd/%s` family `%s`, Coq side `Corr/%s.v`.\n" % (
        pid, p_["title"], cfg.get("level_text", "(not claimed)"), cfg.get("level_note", ""),
        ("Assumptions: " + "; ".join(cfg.get("assumptions", []))) if cfg.get("assumptions") else "",
        pid, ", ".join("`%s`" % t for t in thms) or "–", cfg.get("cmd", "?"), cfg.get("family", "?"), cfg.get("run_module", "?")))
perprop = "\n".join(per)

path = os.path.join(VERIF, "DESIGN.md")
s = open(path).read()
for name, body in (("STATUS", table), ("SEEDED", seed_table), ("PERPROP", perprop)):
    b, e = "<!-- AUTOGEN:%s:BEGIN -->" % name, "<!-- AUTOGEN:%s:END -->" % name
    if b in s:
        s = s[:s.index(b) + len(b)] + "\n" + body + "\n" + s[s.index(e):]
open(path, "w").write(s)
print("rows:", len(rows), "seeded:", len(seed_rows))

#!/usr/bin/env python3
"""Confirm a seeded breaking change and run the checks against it.

  bin/seedtest.py <mutant-dir> <seed-id> [--checks C01,C02] [--keep]

<mutant-dir> holds patch.diff, meta.json and a demonstration (demo_test.go or demo/).
Steps, all in a scratch worktree of /repo HEAD under /tmp/scratch (removed afterwards):
  1. demo without the patch passes; 2. patch applies and builds; 3. existing tests of the
  touched packages pass with the patch; 4. demo fails with the patch;
  5. `VERIF_REPO=<wt> bin/check <pid>` for the property (and --checks) — exit 1 + VIOLATION = caught.
Writes /verif/seeded/<seed-id>/{patch.diff, demo..., meta.json}.
"""
import json, os, re, shutil, subprocess, sys, time

VERIF = os.path.dirname(os.path.dirname(os.path.abspath(__file__)))
ENV = dict(os.environ, GOFLAGS="-mod=mod", GOPROXY="off")
ENV.pop("GOTOOLCHAIN", None)


def sh(cmd, cwd=None, timeout=1800, env=None):
    try:
        p = subprocess.run(cmd, cwd=cwd, shell=True, stdout=subprocess.PIPE, stderr=subprocess.STDOUT,
                           text=True, timeout=timeout, env=env or ENV)
        return p.returncode, p.stdout
    except subprocess.TimeoutExpired:
        return 124, "timeout"


def main():
    mdir, sid = sys.argv[1], sys.argv[2]
    extra = []
    if "--checks" in sys.argv:
        extra = sys.argv[sys.argv.index("--checks") + 1].split(",")
    meta = json.load(open(os.path.join(mdir, "meta.json")))
    pid = meta["property"].split()[0].strip(":")
    wt = "/tmp/scratch/seed-%s" % sid
    os.makedirs("/tmp/scratch", exist_ok=True)
    sh("git -C /repo worktree remove --force %s" % wt)
    rc, out = sh("git -C /repo worktree add -q --detach %s" % wt)
    assert rc == 0, out
    res = {"property": pid, "seed_id": sid, "what": meta.get("what"), "needs": meta.get("needs"),
           "repo_head": sh("git -C /repo rev-parse --short HEAD")[1].strip(), "ran": []}
    try:
        demo_cmd = meta.get("demo_cmd", "")
        mabs = os.path.abspath(mdir)
        run_demo = demo_cmd.replace("<repo>", wt).replace("<worktree>", wt)
        run_demo = re.sub(r"\s*\(after copying[^)]*\)\s*", " ", run_demo).strip()
        run_demo = re.sub(r"\s{2,}\(.*$", "", run_demo, flags=re.S).strip()  # trailing free-text remark
        if "cp " not in run_demo:
            # no copy step given: the demonstration goes into the package the go test command names
            m = re.search(r"go test .*?(\./[\w./-]+|\s\.)\s*$", run_demo)
            pkg = (m.group(1).strip() if m else ".")
            tests = [f for f in os.listdir(mdir) if f.endswith("_test.go")]
            run_demo = " && ".join(["cp %s/%s %s/%s/rt_%s" % (mabs, f, wt, pkg, f) for f in tests] + [run_demo])
        else:
            run_demo = re.sub(r"\bcp (-r )?(?!/)", lambda m: "cp %s%s/" % (m.group(1) or "", mabs), run_demo)
        res["demo_cmd"] = run_demo
        rc0, out0 = sh("timeout 1200 bash -c %s" % json.dumps(run_demo), cwd=wt)
        sh("git clean -fdq", cwd=wt)
        res["ran"].append({"step": "demo without patch", "rc": rc0, "tail": out0[-600:]})
        pf = os.path.abspath(os.path.join(mdir, "patch.diff"))
        rc, out = sh("git apply %s || patch -p1 -F3 --no-backup-if-mismatch < %s" % (pf, pf), cwd=wt)
        res["ran"].append({"step": "apply", "rc": rc, "tail": out[-300:]})
        if rc != 0:
            res["confirmed"] = False
            return res
        rc, out = sh("go build ./... && go build -tags verif ./...", cwd=wt)
        res["ran"].append({"step": "build (with and without verif tag)", "rc": rc, "tail": out[-600:]})
        builds = rc == 0
        tests_ok = True
        if "--skip-tests" not in sys.argv:
            for pkg in meta.get("touched_packages") or []:
                words = [w for w in pkg.split() if not w.startswith("(")] or ["."]
                pkg = words[0].replace("github.com/feichai0017/NoKV", ".")
                if not pkg.startswith("."):
                    pkg = "./" + pkg
                cmd = "timeout 1500 go test -count=1 %s" % pkg
                rc, out = sh(cmd, cwd=wt, timeout=1600)
                res["ran"].append({"step": "existing tests", "cmd": cmd, "rc": rc, "tail": out[-400:]})
                tests_ok = tests_ok and rc == 0
        rc1, out1 = sh("timeout 1200 bash -c %s" % json.dumps(run_demo), cwd=wt)
        sh("git clean -fdq", cwd=wt)
        res["ran"].append({"step": "demo with patch", "rc": rc1, "tail": out1[-600:]})
        res["confirmed"] = bool(builds and tests_ok and rc0 == 0 and rc1 != 0)
        caught = {}
        for c in [pid] + [x for x in extra if x != pid]:
            t0 = time.time()
            rc, out = sh("timeout 2400 bin/check %s" % c, cwd=VERIF, timeout=2500, env=dict(ENV, VERIF_REPO=wt))
            lines = [l for l in out.split("\n") if l.startswith("VIOLATION") or l.startswith("KNOWN-FINDING") or " ok " in l or " FAIL " in l]
            caught[c] = {"rc": rc, "lines": lines[-4:], "wall_s": round(time.time() - t0)}
        res["checks"] = caught
        def real(r):
            # a harness that does not build / produces no case is not a catch
            m = re.search(r"cases=(\d+)", " ".join(r["lines"]))
            return r["rc"] == 1 and any(l.startswith("VIOLATION") for l in r["lines"]) and m and int(m.group(1)) > 0
        res["caught_by"] = [c for c, r in caught.items() if real(r)]
        return res
    finally:
        out_dir = os.path.join(VERIF, "seeded", sid)
        os.makedirs(out_dir, exist_ok=True)
        for fn in os.listdir(mdir):
            src = os.path.join(mdir, fn)
            if os.path.isfile(src) and fn != "meta.json":
                shutil.copy(src, os.path.join(out_dir, fn))
            elif os.path.isdir(src):
                shutil.copytree(src, os.path.join(out_dir, fn), dirs_exist_ok=True)
        meta_out = dict(meta)
        meta_out["verification"] = res
        json.dump(meta_out, open(os.path.join(out_dir, "meta.json"), "w"), indent=1)
        if "--keep" not in sys.argv:
            sh("git -C /repo worktree remove --force %s" % wt)
            # remove the scratch run directory of this worktree
            import hashlib
            tag = hashlib.sha256(os.path.abspath(wt).encode()).hexdigest()[:8]
            shutil.rmtree(os.path.join(VERIF, "run", tag), ignore_errors=True)
        print(json.dumps({k: res.get(k) for k in ("property", "confirmed", "caught_by", "checks")}, indent=1))


if __name__ == "__main__":
    main()

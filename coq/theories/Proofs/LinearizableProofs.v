(** [lin_check] decides [linearizable]. *)
From Coq Require Import List NArith Bool Permutation Lia.
From NoKV Require Import Base.Bytes Spec.SerialSpec Spec.Linearizable.
Import ListNotations.
Local Open Scope N_scope.

Lemma picks_perm {A} (l : list A) x rest : In (x, rest) (picks l) -> Permutation (x :: rest) l.
Proof.
  revert x rest; induction l as [|y l IH]; intros x rest H; cbn [picks] in H; [contradiction|].
  destruct H as [H|H].
  - inversion H; subst. apply Permutation_refl.
  - apply in_map_iff in H as [[x' r'] [E Hin]]. cbn [fst snd] in E. inversion E; subst.
    apply Permutation_trans with (y :: x :: r'); [apply perm_swap|]. apply perm_skip. now apply IH.
Qed.

Lemma picks_length {A} (l : list A) x rest : In (x, rest) (picks l) -> length l = S (length rest).
Proof. intro H. apply picks_perm in H. apply Permutation_length in H. cbn in H. lia. Qed.

Lemma picks_in {A} (l : list A) x : In x l -> exists rest, In (x, rest) (picks l).
Proof.
  induction l as [|y l IH]; intros H; [contradiction|]. cbn [picks]. destruct H as [->|H].
  - exists l. now left.
  - destruct (IH H) as [rest Hr]. exists (y :: rest). right.
    apply in_map_iff. exists (x, rest). split; [reflexivity | exact Hr].
Qed.

Lemma minimal_spec o rest : minimal o rest = true <-> (forall r, In r rest -> ~ l_ret r < l_call o).
Proof.
  unfold minimal. rewrite forallb_forall. split; intros H r Hr.
  - specialize (H r Hr). apply negb_true_iff, N.ltb_ge in H. lia.
  - apply negb_true_iff, N.ltb_ge. specialize (H r Hr). lia.
Qed.

Lemma search_sound fuel : forall st rem, search fuel st rem = true -> linearizable_from st rem.
Proof.
  induction fuel as [|f IH]; intros st rem H.
  - destruct rem; [|discriminate]. exists []. repeat split; constructor.
  - destruct rem as [|x rem'].
    { exists []. repeat split; constructor. }
    cbn [search] in H. apply existsb_exists in H as [[o rest] [Hin Hc]]. cbn [fst snd] in Hc.
    apply andb_true_iff in Hc as [Hc Hs]. apply andb_true_iff in Hc as [Hm Hl].
    destruct (IH _ _ Hs) as [lin (Hp & Hrt & Hlg)].
    exists (o :: lin). split; [|split].
    + apply Permutation_trans with (o :: rest); [now apply perm_skip | now apply picks_perm].
    + cbn [rt_ok]. split; [|exact Hrt]. intros r Hr. apply (proj1 (minimal_spec o rest) Hm).
      apply Permutation_in with lin; assumption.
    + cbn [legal_seq]. now rewrite Hl, Hlg.
Qed.

Lemma rt_ok_perm_tail o l1 l2 :
  (forall r, In r l1 -> ~ l_ret r < l_call o) -> Permutation l2 l1 -> forall r, In r l2 -> ~ l_ret r < l_call o.
Proof. intros H Hp r Hr. apply H. apply Permutation_in with l2; assumption. Qed.

Lemma search_complete lin : forall st rem fuel,
  rt_ok lin -> legal_seq st lin = true -> Permutation rem lin -> (length rem <= fuel)%nat ->
  search fuel st rem = true.
Proof.
  induction lin as [|o lin IH]; intros st rem fuel Hrt Hlg Hp Hf.
  - apply Permutation_sym, Permutation_nil in Hp. subst. destruct fuel; reflexivity.
  - destruct rem as [|x rem']; [apply Permutation_nil in Hp; discriminate|].
    destruct fuel as [|f]; [cbn in Hf; lia|].
    cbn [search]. apply existsb_exists.
    assert (Ho : In o (x :: rem')) by (apply Permutation_in with (o :: lin); [now apply Permutation_sym | now left]).
    destruct (picks_in _ _ Ho) as [rest Hrest]. exists (o, rest). split; [exact Hrest|]. cbn [fst snd].
    assert (Hpr : Permutation rest lin).
    { apply Permutation_cons_inv with o. apply Permutation_trans with (x :: rem'); [now apply picks_perm | exact Hp]. }
    cbn [rt_ok] in Hrt. destruct Hrt as [Hmin Hrt]. cbn [legal_seq] in Hlg. apply andb_true_iff in Hlg as [Hl Hlg].
    apply andb_true_iff. split; [apply andb_true_iff; split|].
    + apply minimal_spec. now apply (rt_ok_perm_tail o lin rest).
    + exact Hl.
    + apply IH; try assumption. apply picks_length in Hrest. cbn [length] in *. lia.
Qed.

Lemma any_pick_existsb {A} (f : A -> bool) l : any_pick f l = existsb f l.
Proof. induction l as [|x l IH]; cbn; [reflexivity|]. destruct (f x); cbn; [reflexivity | exact IH]. Qed.

Lemma existsb_ext_all {A} (f g : A -> bool) l : (forall x, f x = g x) -> existsb f l = existsb g l.
Proof. intros H. induction l as [|x l IH]; cbn; [reflexivity|]. now rewrite H, IH. Qed.

Lemma search_fast_eq fuel : forall st rem, search_fast fuel st rem = search fuel st rem.
Proof.
  induction fuel as [|f IH]; intros st rem; destruct rem as [|x rem']; try reflexivity.
  cbn [search_fast search]. rewrite any_pick_existsb. apply existsb_ext_all. intros p.
  destruct (minimal (fst p) (snd p)); cbn [andb]; [|reflexivity].
  destruct (legal st (fst p)); cbn [andb]; [apply IH | reflexivity].
Qed.

Theorem lin_check_sound h : lin_check h = true -> linearizable h.
Proof. unfold lin_check. rewrite search_fast_eq. apply search_sound. Qed.

Theorem lin_check_complete h : linearizable h -> lin_check h = true.
Proof.
  intros [lin (Hp & Hrt & Hlg)]. unfold lin_check. rewrite search_fast_eq.
  apply (search_complete lin); auto. now apply Permutation_sym.
Qed.

Theorem lin_check_spec h : lin_check h = true <-> linearizable h.
Proof. split; [apply lin_check_sound | apply lin_check_complete]. Qed.

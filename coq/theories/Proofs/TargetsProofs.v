(** The base level computed by [build_targets] never lies below a level that holds data. *)
From Coq Require Import List ZArith Bool Arith Lia.
From NoKV Require Import Model.Targets.
Import ListNotations.
Local Open Scope Z_scope.

Lemma first_nonempty_spec sizes : forall fuel i base,
  (base <= i + fuel)%nat ->
  let r := first_nonempty sizes fuel i base in
  (r <= Nat.max i base)%nat /\ forall j, (i <= j < r)%nat -> nth j sizes 0 <= 0.
Proof.
  induction fuel as [|f IH]; intros i base Hf; cbn [first_nonempty].
  - split; [lia|]. intros j Hj. lia.
  - destruct (Nat.ltb i base) eqn:Hlt.
    + apply Nat.ltb_lt in Hlt.
      destruct (0 <? nth i sizes 0) eqn:Hne.
      * split; [lia|]. intros j Hj. lia.
      * apply Z.ltb_ge in Hne.
        destruct (IH (S i) base ltac:(lia)) as [Hle Hall].
        split; [lia|]. intros j Hj.
        destruct (Nat.eq_dec j i) as [->|Hji]; [exact Hne|]. apply Hall. lia.
    + apply Nat.ltb_ge in Hlt. split; [lia|]. intros j Hj. lia.
Qed.

Lemma base_above_data_spec sizes b :
  base_above_data sizes b = true <-> forall j, (1 <= j < b)%nat -> nth j sizes 0 <= 0.
Proof.
  unfold base_above_data. rewrite forallb_forall. split.
  - intros H j Hj. apply Z.leb_le. apply H. apply in_seq. lia.
  - intros H j Hj. apply in_seq in Hj. apply Z.leb_le. apply H. lia.
Qed.

Theorem base_level_above_data sizes o :
  forall j, (1 <= j < t_base (build_targets sizes o))%nat -> nth j sizes 0 <= 0.
Proof.
  unfold build_targets. destruct (length sizes) as [|m] eqn:Hn.
  - cbn. intros j Hj. lia.
  - destruct (size_loop o m (nth m sizes 0) 0%nat []) as [b1 tg]. cbn [t_base].
    match goal with |- context [first_nonempty sizes ?b 1%nat ?b] => set (b3 := b) end.
    intros j Hj.
    destruct (first_nonempty_spec sizes b3 1 b3 ltac:(lia)) as [_ Hall]. apply Hall. exact Hj.
Qed.

Theorem base_level_above_data_b sizes o : base_above_data sizes (t_base (build_targets sizes o)) = true.
Proof. apply base_above_data_spec. apply base_level_above_data. Qed.

(** Without the cap (the code before the repair) the statement is false. *)
Definition build_targets_uncapped_base (sizes : list Z) (o : topt) : nat :=
  match length sizes with
  | O => 0%nat
  | S m =>
      let '(b1, tg) := size_loop o m (nth m sizes 0) 0%nat [] in
      let n := S m in
      let b2 := skip_empty sizes n n (S b1) b1 in
      if Nat.ltb b2 (n - 1) && (nth b2 sizes 0 =? 0) && (nth (S b2) sizes 0 <? nth (S b2) (0 :: tg) 0) then S b2 else b2
  end.

Example uncapped_base_below_data :
  let sizes := [0; 0; 0; 0; 0; 5; 3] in
  let o := {| o_base_level_size := 32; o_level_mult := 8; o_base_table := 8; o_table_mult := 2; o_memtable := 1 |} in
  build_targets_uncapped_base sizes o = 6%nat /\ nth 5 sizes 0 > 0 /\ t_base (build_targets sizes o) = 5%nat.
Proof. vm_compute. repeat split; reflexivity. Qed.

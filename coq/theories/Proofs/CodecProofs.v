(** Proofs for C16: round trips, totality (no run-time panic), allocation bounds. *)
From Coq Require Import List NArith ZArith Bool Lia ZifyN ZifyNat ZifyBool.
From Coq Require Import Init.Byte.
From NoKV Require Import Base.Bytes Base.Num Base.Varint Base.Crc32c
  Model.EntryCodec Model.PercoCodec Model.RaftCodec Model.ManifestCodec Model.WalCodec.
Import ListNotations.
Local Open Scope N_scope.

(** * helpers *)
Lemma drop_0 (a : bytes) : drop 0 a = a.
Proof. reflexivity. Qed.

Lemma drop_cons_1 x (a : bytes) : drop 1 (x :: a) = a.
Proof. reflexivity. Qed.

Lemma drop_app_ge n (a b : bytes) : blen a <= n -> drop n (a ++ b) = drop (n - blen a) b.
Proof.
  unfold drop, blen. intro H. rewrite skipn_app.
  rewrite skipn_all2 by lia. cbn [app]. f_equal. lia.
Qed.

Lemma blen_put x : 1 <= blen (put_uvarint x) <= 10.
Proof. apply put_uvarint_len. Qed.

(** * percolator *)
Lemma at_var_ok data pos v p' : at_var data pos = DVal (v, p') -> pos < p' <= blen data.
Proof.
  unfold at_var. destruct (blen data <? pos) eqn:E; [discriminate|].
  destruct (uvarint (drop pos data)) as [v0 n| |] eqn:U; try discriminate.
  intro H. inversion H; subst. apply uvarint_bound in U. rewrite blen_drop in U. lia.
Qed.

Lemma at_var_nopanic data pos : pos <= blen data -> at_var data pos <> DPanic.
Proof.
  unfold at_var. intro H. destruct (blen data <? pos) eqn:E; [lia|].
  destruct (uvarint (drop pos data)); discriminate.
Qed.

Lemma drop_nonempty (data : bytes) pos : pos < blen data -> drop pos data <> [].
Proof.
  intros H E. pose proof (blen_drop pos data) as Hd. rewrite E, blen_nil in Hd. lia.
Qed.

Lemma decode_lock_total data : decode_lock data <> DPanic.
Proof.
  unfold decode_lock. destruct data as [|v d]; [discriminate|].
  set (data := v :: d). assert (Hl : 1 <= blen data) by (unfold data; rewrite blen_cons; lia).
  destruct (negb (byte_eqb v x01)); [discriminate|].
  destruct (at_var data 1) as [[plen p1]| |] eqn:E1; [|discriminate|exfalso; eapply at_var_nopanic; [|exact E1]; lia].
  apply at_var_ok in E1.
  destruct (blen data - p1 <? plen) eqn:E2; [discriminate|].
  destruct (at_var data (p1 + plen)) as [[ts p2]| |] eqn:E3;
    [|discriminate|exfalso; eapply at_var_nopanic; [|exact E3]; lia].
  apply at_var_ok in E3.
  destruct (at_var data p2) as [[ttl p3]| |] eqn:E4;
    [|discriminate|exfalso; eapply at_var_nopanic; [|exact E4]; lia].
  apply at_var_ok in E4.
  destruct (blen data <=? p3) eqn:E5; [discriminate|].
  destruct (drop p3 data) as [|k r] eqn:E6; [exfalso; eapply drop_nonempty; [|exact E6]; lia|].
  destruct (p3 + 1 <? blen data) eqn:E7; [|discriminate].
  destruct (at_var data (p3 + 1)) as [[mc p4]| |] eqn:E8;
    [discriminate|discriminate|exfalso; eapply at_var_nopanic; [|exact E8]; lia].
Qed.

Lemma decode_write_total data : decode_write data <> DPanic.
Proof.
  unfold decode_write. destruct data as [|v [|k [|x d]]]; try discriminate.
  set (data := v :: k :: x :: d).
  assert (Hl : 3 <= blen data) by (unfold data; rewrite !blen_cons; lia).
  destruct (negb (byte_eqb v x01)); [discriminate|].
  destruct (at_var data 2) as [[ts p1]| |] eqn:E1; [|discriminate|exfalso; eapply at_var_nopanic; [|exact E1]; lia].
  apply at_var_ok in E1.
  destruct (blen data <=? p1) eqn:E2; [discriminate|].
  destruct (drop p1 data) as [|f r] eqn:E3; [exfalso; eapply drop_nonempty; [|exact E3]; lia|].
  destruct (byte_eqb f x01); [|discriminate].
  destruct (at_var data (p1 + 1)) as [[sz p2]| |] eqn:E4;
    [|discriminate|exfalso; eapply at_var_nopanic; [|exact E4]; lia].
  destruct (blen data - p2 <? sz); discriminate.
Qed.

(** round trips *)
Lemma at_var_put pre x rest :
  x < two64 -> at_var (pre ++ put_uvarint x ++ rest) (blen pre) = DVal (x, blen pre + blen (put_uvarint x)).
Proof.
  intro H. unfold at_var.
  destruct (blen (pre ++ put_uvarint x ++ rest) <? blen pre) eqn:E; [rewrite blen_app in E; lia|].
  rewrite drop_app_exact, uvarint_put by exact H. reflexivity.
Qed.

Record lock_ok (l : lock) : Prop := {
  lk_ts : l_ts l < two64; lk_ttl : l_ttl l < two64; lk_kind : l_kind l < 256;
  lk_mc : l_min_commit l < two64; lk_len : blen (l_primary l) < two64 }.

Lemma rt_lock l : lock_ok l -> decode_lock (enc_lock l) = DVal l.
Proof.
  intros [Hts Httl Hk Hmc Hlen]. destruct l as [pr ts ttl kind mc]. cbn [l_primary l_ts l_ttl l_kind l_min_commit] in *.
  unfold enc_lock. cbn [l_primary l_ts l_ttl l_kind l_min_commit].
  set (A := put_uvarint (blen pr)). set (B := put_uvarint ts). set (C := put_uvarint ttl). set (D := put_uvarint mc).
  set (data := x01 :: A ++ pr ++ B ++ C ++ n2b kind :: D).
  unfold decode_lock. fold data. unfold data at 1. rewrite byte_eqb_refl. cbn [negb].
  (* primary length *)
  change data with ([x01] ++ A ++ (pr ++ B ++ C ++ n2b kind :: D)).
  change 1 with (blen [x01]) at 1. unfold A at 1. rewrite at_var_put by exact Hlen. fold A.
  set (p1 := blen [x01] + blen A).
  assert (Hd1 : forall t, drop p1 ([x01] ++ A ++ t) = t).
  { intro t. unfold p1. rewrite app_assoc, <- blen_app. apply drop_app_exact. }
  assert (Hlen_all : blen ([x01] ++ A ++ pr ++ B ++ C ++ n2b kind :: D) =
                     p1 + blen pr + blen B + blen C + 1 + blen D).
  { unfold p1. rewrite !blen_app, !blen_cons. lia. }
  rewrite Hlen_all.
  destruct (p1 + blen pr + blen B + blen C + 1 + blen D - p1 <? blen pr) eqn:E1; [lia|].
  rewrite Hd1, take_app_exact.
  (* ts *)
  replace ([x01] ++ A ++ pr ++ B ++ C ++ n2b kind :: D)
    with (([x01] ++ A ++ pr) ++ B ++ (C ++ n2b kind :: D)) by (rewrite <- !app_assoc; reflexivity).
  replace (p1 + blen pr) with (blen ([x01] ++ A ++ pr)) by (unfold p1; rewrite !blen_app; lia).
  unfold B at 1. rewrite at_var_put by exact Hts. fold B.
  (* ttl *)
  replace (([x01] ++ A ++ pr) ++ B ++ C ++ n2b kind :: D)
    with (([x01] ++ A ++ pr ++ B) ++ C ++ (n2b kind :: D)) by (rewrite <- !app_assoc; reflexivity).
  replace (blen ([x01] ++ A ++ pr) + blen B) with (blen ([x01] ++ A ++ pr ++ B)) by (rewrite !blen_app; lia).
  unfold C at 1. rewrite at_var_put by exact Httl. fold C.
  (* kind *)
  set (p3 := blen ([x01] ++ A ++ pr ++ B) + blen C).
  assert (Hl2 : blen (([x01] ++ A ++ pr ++ B) ++ C ++ n2b kind :: D) = p3 + 1 + blen D).
  { unfold p3. rewrite !blen_app, !blen_cons. lia. }
  try rewrite Hl2. pose proof (blen_put mc) as HD. fold D in HD.
  destruct (p3 + 1 + blen D <=? p3) eqn:E2; [lia|].
  assert (Hd3 : drop p3 (([x01] ++ A ++ pr ++ B) ++ C ++ n2b kind :: D) = n2b kind :: D).
  { unfold p3. rewrite <- blen_app. rewrite (app_assoc ([x01] ++ A ++ pr ++ B) C (n2b kind :: D)). apply drop_app_exact. }
  rewrite Hd3.
  destruct (p3 + 1 <? p3 + 1 + blen D) eqn:E3; [|lia].
  replace (([x01] ++ A ++ pr ++ B) ++ C ++ n2b kind :: D)
    with ((([x01] ++ A ++ pr ++ B) ++ C ++ [n2b kind]) ++ D ++ []) by (rewrite <- !app_assoc, app_nil_r; reflexivity).
  replace (p3 + 1) with (blen (([x01] ++ A ++ pr ++ B) ++ C ++ [n2b kind]))
    by (unfold p3; rewrite !blen_app, !blen_cons, ?blen_nil; lia).
  unfold D at 1. rewrite at_var_put by exact Hmc.
  rewrite b2n_n2b by exact Hk. reflexivity.
Qed.

(** * raft blobs and the command frame *)
Lemma ix_var_put pre x rest :
  x < two64 -> ix_var (pre ++ put_uvarint x ++ rest) (blen pre) = Some (x, blen pre + blen (put_uvarint x)).
Proof.
  intro H. unfold ix_var. pose proof (blen_put x).
  destruct (blen (pre ++ put_uvarint x ++ rest) <=? blen pre) eqn:E; [rewrite !blen_app in E; lia|].
  rewrite drop_app_exact, uvarint_put by exact H. reflexivity.
Qed.

Lemma rt_raft_blob gid body :
  gid < two64 -> blen body < two64 -> decode_raft_blob (enc_raft_blob gid body) = Some (gid, body).
Proof.
  intros Hg Hb. unfold decode_raft_blob, enc_raft_blob.
  change (put_uvarint gid ++ put_uvarint (blen body) ++ body)
    with ([] ++ put_uvarint gid ++ put_uvarint (blen body) ++ body).
  change 0 with (blen (@nil byte)). rewrite ix_var_put by exact Hg.
  cbn [app]. rewrite blen_nil, N.add_0_l.
  rewrite ix_var_put by exact Hb.
  rewrite !blen_app.
  destruct (blen (put_uvarint gid) + (blen (put_uvarint (blen body)) + blen body) -
            (blen (put_uvarint gid) + blen (put_uvarint (blen body))) <? blen body) eqn:E; [lia|].
  rewrite app_assoc, <- blen_app, drop_app_exact, take_all. reflexivity.
Qed.

Lemma rt_command body : decode_command (enc_command body) = Some body.
Proof. reflexivity. Qed.

Lemma decode_raft_entries_alloc_le data : decode_raft_entries_alloc data <= blen data.
Proof.
  unfold decode_raft_entries_alloc.
  destruct (ix_var data 0) as [[g i]|]; [|lia].
  destruct (ix_var data i) as [[c j]|]; [|lia].
  destruct (blen data <? c) eqn:E; lia.
Qed.

(** * value pointer and value struct *)
Lemma rt_vptr p :
  p_len p < two32 -> p_off p < two32 -> p_fid p < two32 -> p_bucket p < two32 ->
  decode_vptr (enc_vptr p) = p.
Proof.
  destruct p as [a b c d]. cbn [p_len p_off p_fid p_bucket]. intros Ha Hb Hc Hd.
  unfold decode_vptr, enc_vptr. cbn [p_len p_off p_fid p_bucket].
  rewrite rd_be32_be32.
  change (drop 4 (be32 a ++ be32 b ++ be32 c ++ be32 d)) with (be32 b ++ be32 c ++ be32 d).
  change (drop 8 (be32 a ++ be32 b ++ be32 c ++ be32 d)) with (be32 c ++ be32 d).
  change (drop 12 (be32 a ++ be32 b ++ be32 c ++ be32 d)) with (be32 d ++ []).
  rewrite !rd_be32_be32. now rewrite !N.mod_small by assumption.
Qed.

Lemma rt_value v : v_meta v < 256 -> v_exp v < two64 -> decode_value (enc_value v) = v.
Proof.
  destruct v as [m e val]. cbn [v_meta v_exp v_value]. intros Hm He.
  unfold enc_value, decode_value. cbn [v_meta v_exp v_value].
  rewrite uvarint_put by exact He. rewrite drop_app_exact, b2n_n2b by exact Hm. reflexivity.
Qed.

(** EncodedSize is the length of the encoding *)
Lemma value_size_law v :
  blen (v_value v) + 11 < two32 -> encoded_size v = blen (enc_value v).
Proof.
  intro H. unfold encoded_size, enc_value. rewrite size_varint_law, blen_cons, blen_app.
  pose proof (blen_put (v_exp v)). unfold u32. rewrite N.mod_small; lia.
Qed.

(** * allocation *)
Lemma decode_entry_prealloc_le bs : decode_entry_prealloc bs <= 2 * max_prealloc.
Proof.
  unfold decode_entry_prealloc. destruct (decode_header_from bs) as [e|[[[[k v] m] x] r]]; [unfold max_prealloc; lia|].
  pose proof (N.le_min_r k max_prealloc). pose proof (N.le_min_r v max_prealloc). lia.
Qed.

Lemma read_edit_prealloc_le bs : read_edit_prealloc bs <= 65536.
Proof. unfold read_edit_prealloc. destruct (rd_le32 bs); [apply N.le_min_r|lia]. Qed.

(** wal.DecodeRecord goes through kv.ReadBounded as well *)
Definition decode_record_prealloc (bs : bytes) : N := N.min (decode_record_alloc bs) max_prealloc.
Lemma decode_record_prealloc_le bs : decode_record_prealloc bs <= max_prealloc.
Proof. apply N.le_min_r. Qed.

(** * manifest: no panic *)
Lemma byte_at_some (data : bytes) pos : pos < blen data -> exists b, byte_at data pos = Some b.
Proof.
  intro H. unfold byte_at. destruct (drop pos data) eqn:E; [|eauto].
  exfalso. eapply drop_nonempty; eauto.
Qed.

Lemma opt_flag_total data pos : opt_flag data pos <> DPanic.
Proof.
  unfold opt_flag. destruct (pos <? blen data) eqn:E; [|discriminate].
  destruct (byte_at_some data pos) as [b Hb]; [lia|]. rewrite Hb. discriminate.
Qed.

Lemma dmap_total {A B} (f : A -> B) r : r <> DPanic -> dmap f r <> DPanic.
Proof. destruct r; simpl; intros H; [discriminate|discriminate|contradiction]. Qed.

Lemma dec_file_total data : dec_file data <> DPanic.
Proof.
  unfold dec_file.
  repeat match goal with |- context [let '(_, _) := ?x in _] => destruct x end.
  destruct (opt_flag data _) as [[ing p]| |] eqn:E; [|discriminate|exfalso; eapply opt_flag_total; eauto].
  destruct (blen data <? p); discriminate.
Qed.

Lemma dec_vlog_total data k : dec_vlog data k <> DPanic.
Proof.
  unfold dec_vlog. destruct (5 <? blen data); [|discriminate].
  repeat match goal with |- context [let '(_, _) := ?x in _] => destruct x end.
  destruct (k =? 4).
  - destruct (blen data <? _); discriminate.
  - repeat match goal with |- context [let '(_, _) := ?x in _] => destruct x end.
    destruct (blen data <? _); [discriminate|].
    destruct (k =? 3); [discriminate|].
    destruct (opt_flag data _) as [[v p]| |] eqn:E; [discriminate|discriminate|exfalso; eapply opt_flag_total; eauto].
Qed.

Lemma dec_raft_total data : dec_raft data <> DPanic.
Proof.
  unfold dec_raft. destruct (negb (5 <? blen data)); [discriminate|].
  repeat match goal with |- context [let '(_, _) := ?x in _] => destruct x end.
  destruct (blen data <? _); [discriminate|].
  repeat match goal with
  | |- context [match opt_uv ?d ?p with _ => _ end] => destruct (opt_uv d p) as [[? ?]|]; [|discriminate]
  end.
  discriminate.
Qed.

Lemma dec_region_total data : dec_region data <> DPanic.
Proof.
  unfold dec_region. destruct (negb (5 <? blen data)); [discriminate|].
  destruct (uv_at data 5) as [id p0].
  destruct (blen data <? p0); [discriminate|].
  destruct (opt_flag data p0) as [[del p1]| |] eqn:E; [|discriminate|exfalso; eapply opt_flag_total; eauto].
  destruct del; [discriminate|].
  repeat match goal with |- context [let '(_, _) := ?x in _] => destruct x end.
  destruct (blen data <? _); [discriminate|].
  match goal with |- context [if ?p <? blen data then _ else _] => destruct (p <? blen data) eqn:Ep end.
  - match goal with |- context [byte_at data ?p] => destruct (byte_at_some data p) as [bb Hbb]; [lia|rewrite Hbb] end.
    repeat match goal with |- context [let '(_, _) := ?x in _] => destruct x end.
    destruct (blen data <? _); [discriminate|]. destruct (_ / 2 <? _); [discriminate|].
    destruct (dec_peers _ _ _); discriminate.
  - repeat match goal with |- context [let '(_, _) := ?x in _] => destruct x end.
    destruct (blen data <? _); [discriminate|]. destruct (_ / 2 <? _); [discriminate|].
    destruct (dec_peers _ _ _); discriminate.
Qed.

Lemma decode_edit_total data : decode_edit data <> DPanic.
Proof.
  unfold decode_edit. destruct (blen data <? 5) eqn:E5; [discriminate|].
  destruct (negb _); [discriminate|].
  destruct (byte_at_some data 4) as [b Hb]; [lia|]. rewrite Hb.
  repeat match goal with |- context [if ?c then _ else _] => destruct c end;
    try discriminate;
    try (apply dmap_total; first [apply dec_file_total|apply dec_vlog_total|apply dec_raft_total|apply dec_region_total]).
  repeat match goal with |- context [let '(_, _) := ?x in _] => destruct x end.
  repeat match goal with |- context [if ?c then _ else _] => destruct c end; discriminate.
Qed.

Lemma read_edit_total bs : read_edit bs <> RePanic.
Proof.
  unfold read_edit. destruct (rd_le32 bs); [|destruct bs; discriminate].
  destruct (blen (drop 4 bs) <? n); [destruct (drop 4 bs); discriminate|].
  destruct (decode_edit _) eqn:E; try discriminate. exfalso. eapply decode_edit_total; eauto.
Qed.

(** peers are allocated only after the count was checked against the payload *)
Lemma dec_peers_length n : forall data p l, dec_peers n data p = Some l -> length l = n.
Proof.
  induction n as [|n IH]; intros data p l H; cbn [dec_peers] in H.
  - now inversion H.
  - destruct (uv_at data p) as [s p1]. destruct (uv_at data p1) as [i p2].
    destruct (blen data <? p2); [discriminate|].
    destruct (dec_peers n data p2) eqn:E; [|discriminate]. inversion H; subst. simpl. f_equal. eauto.
Qed.

Lemma dec_region_peers data r :
  dec_region data = DVal (Some r) -> N.of_nat (length (rg_peers (re_meta r))) <= blen data.
Proof.
  unfold dec_region. destruct (negb (5 <? blen data)); [discriminate|].
  destruct (uv_at data 5) as [id p0].
  destruct (blen data <? p0); [discriminate|].
  destruct (opt_flag data p0) as [[del p1]| |]; try discriminate.
  destruct del; [intro H; inversion H; subst; cbn; lia|].
  repeat match goal with |- context [let '(_, _) := ?x in _] => destruct x end.
  destruct (blen data <? _); [discriminate|].
  match goal with |- context [if ?p <? blen data then _ else _] => destruct (p <? blen data) eqn:Ep end.
  - destruct (byte_at data _); [|discriminate].
    repeat match goal with |- context [let '(_, _) := ?x in _] => destruct x end.
    destruct (blen data <? _); [discriminate|].
    match goal with |- context [(?a - ?b) / 2 <? ?c] => destruct ((a - b) / 2 <? c) eqn:Ec end; [discriminate|].
    destruct (dec_peers _ _ _) eqn:Ed; [|discriminate]. intro H; inversion H; subst. cbn [rg_peers re_meta].
    apply dec_peers_length in Ed. rewrite Ed. zdm.
  - repeat match goal with |- context [let '(_, _) := ?x in _] => destruct x end.
    destruct (blen data <? _); [discriminate|].
    match goal with |- context [(?a - ?b) / 2 <? ?c] => destruct ((a - b) / 2 <? c) eqn:Ec end; [discriminate|].
    destruct (dec_peers _ _ _) eqn:Ed; [|discriminate]. intro H; inversion H; subst. cbn [rg_peers re_meta].
    apply dec_peers_length in Ed. rewrite Ed. zdm.
Qed.

Lemma decode_edit_region data r :
  decode_edit data = DVal (ERegion (Some r)) -> dec_region data = DVal (Some r).
Proof.
  unfold decode_edit. intro E.
  destruct (blen data <? 5); [discriminate|]. destruct (negb _); [discriminate|].
  destruct (byte_at data 4) as [tb|]; [|discriminate].
  destruct (b2n tb =? 0). { destruct (dec_file data); cbn in E; discriminate. }
  destruct (b2n tb =? 1). { destruct (dec_file data); cbn in E; discriminate. }
  destruct (b2n tb =? 2).
  { destruct (uv_at data 5) as [? p]. destruct (uv_at data p) as [? p']. destruct (blen data <? p'); discriminate. }
  destruct (b2n tb =? 3). { destruct (dec_vlog data 3); cbn in E; discriminate. }
  destruct (b2n tb =? 4). { destruct (dec_vlog data 4); cbn in E; discriminate. }
  destruct (b2n tb =? 5). { destruct (dec_vlog data 5); cbn in E; discriminate. }
  destruct (b2n tb =? 6). { destruct (dec_raft data); cbn in E; discriminate. }
  destruct (b2n tb =? 7).
  { destruct (dec_region data) as [o| |]; cbn in E; try discriminate. inversion E. reflexivity. }
  discriminate.
Qed.

Lemma decode_edit_alloc_le data : decode_edit_alloc data <= blen data.
Proof.
  unfold decode_edit_alloc. destruct (decode_edit data) as [e| |] eqn:E; try lia.
  destruct e; try lia. destruct r as [r|]; [|lia].
  apply decode_edit_region in E. now apply dec_region_peers.
Qed.

(** Proofs for C35 (SST tables serve exactly the entries they were built
    from): order facts on [cmpk], sort.Search, block key reconstruction,
    in-block seek, table iterator stepping and draining, the builder, table
    Seek, bloom filter, table.Search. *)
From Coq Require Import List NArith ZArith Bool Lia ZifyN ZifyNat ZifyBool Sorted.
From Coq Require Import Init.Byte.
From NoKV Require Import Base.Bytes Base.Num Model.Keys Model.Bloom Model.Sst Spec.SstSpec.
Import ListNotations.
Local Open Scope N_scope.


(** * [cmpk] is a strict total order on byte strings *)

Definition ksplit (a : bytes) : bytes * bytes := (take (blen a - 8) a, drop (blen a - 8) a).

Lemma cmpk_refl a : cmpk a a = Eq.
Proof. unfold cmpk. now rewrite !bytes_cmp_refl. Qed.

Lemma cmpk_eq a b : cmpk a b = Eq <-> a = b.
Proof.
  split; [|intros ->; apply cmpk_refl].
  unfold cmpk. destruct (bytes_cmp (take _ a) (take _ b)) eqn:E1; try discriminate.
  intro E2. apply bytes_cmp_eq in E1, E2.
  rewrite <- (take_drop (blen a - 8) a), <- (take_drop (blen b - 8) b). congruence.
Qed.

Lemma cmpk_antisym a b : cmpk b a = CompOpp (cmpk a b).
Proof.
  unfold cmpk. rewrite (bytes_cmp_antisym (take _ a) (take _ b)).
  destruct (bytes_cmp (take _ a) (take _ b)); cbn [CompOpp]; auto using bytes_cmp_antisym.
Qed.

Lemma cmpk_lt_trans a b c : cmpk a b = Lt -> cmpk b c = Lt -> cmpk a c = Lt.
Proof.
  unfold cmpk.
  destruct (bytes_cmp (take _ a) (take _ b)) eqn:E1; try discriminate;
  destruct (bytes_cmp (take _ b) (take _ c)) eqn:E2; try discriminate; intros H1 H2.
  - apply bytes_cmp_eq in E1, E2. rewrite E1, E2, bytes_cmp_refl. eauto using bytes_cmp_lt_trans.
  - apply bytes_cmp_eq in E1. now rewrite E1, E2.
  - apply bytes_cmp_eq in E2. now rewrite <- E2, E1.
  - now rewrite (bytes_cmp_lt_trans _ _ _ E1 E2).
Qed.

Lemma cmpk_gt_lt a b : cmpk a b = Gt <-> cmpk b a = Lt.
Proof. rewrite (cmpk_antisym a b). destruct (cmpk a b); cbn; split; congruence. Qed.

Lemma cmpk_le_lt_trans a b c : cmpk a b <> Gt -> cmpk b c = Lt -> cmpk a c = Lt.
Proof.
  intros H1 H2. destruct (cmpk a b) eqn:E; try congruence.
  - apply cmpk_eq in E. now subst.
  - eauto using cmpk_lt_trans.
Qed.

Lemma cmpk_lt_le_trans a b c : cmpk a b = Lt -> cmpk b c <> Gt -> cmpk a c = Lt.
Proof.
  intros H1 H2. destruct (cmpk b c) eqn:E; try congruence.
  - apply cmpk_eq in E. now subst.
  - eauto using cmpk_lt_trans.
Qed.

Lemma is_ge_lt c : is_ge c = false <-> c = Lt.
Proof. destruct c; cbn; split; congruence. Qed.
Lemma is_gt_iff c : is_gt c = true <-> c = Gt.
Proof. destruct c; cbn; split; congruence. Qed.
Lemma is_le_gt c : is_le c = false <-> c = Gt.
Proof. destruct c; cbn; split; congruence. Qed.

(** for keys longer than 8 bytes [cmpk] is utils.CompareKeys *)
Lemma cmpk_compare_keys a b : 8 < blen a -> 8 < blen b -> compare_keys a b = Some (cmpk a b).
Proof.
  intros Ha Hb. unfold compare_keys, cmpk.
  replace (blen a <=? 8) with false by lia. replace (blen b <=? 8) with false by lia.
  cbn [orb]. destruct (bytes_cmp _ _); reflexivity.
Qed.

(** * sort.Search *)

Lemma div2_between i j : (i < j)%nat -> (i <= Nat.div2 (i + j) < j)%nat.
Proof.
  intro H. rewrite Nat.div2_div.
  pose proof (Nat.div_mod (i + j) 2 ltac:(lia)) as E.
  pose proof (Nat.mod_upper_bound (i + j) 2 ltac:(lia)). lia.
Qed.

Section BSearch.
  Context {St : Type} (f : St -> nat -> St * bool) (Inv : St -> Prop) (p : nat -> bool) (n : nat).
  Hypothesis Hf : forall s h, Inv s -> (h < n)%nat -> Inv (fst (f s h)) /\ snd (f s h) = p h.
  Hypothesis Hmono : forall a b, (a <= b < n)%nat -> p a = true -> p b = true.

  Lemma bsearch_st_spec : forall fuel s i j,
    Inv s -> (i <= j <= n)%nat -> (j - i < fuel)%nat ->
    (forall a, (a < i)%nat -> p a = false) -> (forall a, (j <= a < n)%nat -> p a = true) ->
    let r := bsearch_st f fuel s i j in
    Inv (fst r) /\ (snd r <= n)%nat /\
    (forall a, (a < snd r)%nat -> p a = false) /\ (forall a, (snd r <= a < n)%nat -> p a = true).
  Proof.
    induction fuel as [|fu IH]; intros s i j HI Hij Hfuel Hlo Hhi; [lia|].
    cbn [bsearch_st]. destruct (i <? j)%nat eqn:Elt.
    - apply Nat.ltb_lt in Elt. pose proof (div2_between i j Elt) as Hh.
      set (h := Nat.div2 (i + j)) in *.
      destruct (Hf s h HI ltac:(lia)) as [HI' Hp].
      destruct (f s h) as [s' r] eqn:Ef. cbn [fst snd] in HI', Hp. subst r.
      destruct (p h) eqn:Eph.
      + apply IH; auto; try lia.
        intros a Ha. destruct (Nat.lt_ge_cases a j); [|apply Hhi; lia].
        apply (Hmono h a); [lia|exact Eph].
      + apply IH; auto; try lia.
        intros a Ha. destruct (Nat.lt_ge_cases a i); [now apply Hlo|].
        destruct (p a) eqn:Epa; [|reflexivity].
        rewrite (Hmono a h ltac:(lia) Epa) in Eph. discriminate.
    - apply Nat.ltb_ge in Elt. assert (i = j) by lia. subst j. cbn [fst snd]. repeat split; auto; lia.
  Qed.
End BSearch.

(** a first-true index is unique *)
Lemma first_true_unique (p : nat -> bool) n r1 r2 :
  (r1 <= n)%nat -> (r2 <= n)%nat ->
  (forall a, (a < r1)%nat -> p a = false) -> (forall a, (r1 <= a < n)%nat -> p a = true) ->
  (forall a, (a < r2)%nat -> p a = false) -> (forall a, (r2 <= a < n)%nat -> p a = true) ->
  r1 = r2.
Proof.
  intros H1 H2 L1 U1 L2 U2.
  destruct (Nat.lt_trichotomy r1 r2) as [H|[H|H]]; [|exact H|].
  - specialize (U1 r1 ltac:(lia)). specialize (L2 r1 H). congruence.
  - specialize (U2 r2 ltac:(lia)). specialize (L1 r2 H). congruence.
Qed.


(** * Block contents and key reconstruction *)

Definition full_key (base : bytes) (be : bentry) : bytes := take (be_overlap be) base ++ be_diff be.
Definition dec (b : block) (be : bentry) : entry := {| e_key := full_key (bi_base b) be; e_vs := be_vs be |}.
Definition blk_entries (b : block) : list entry := map (dec b) (b_ents b).

Definition blk_wf (b : block) : Prop :=
  b_ents b <> [] /\ Forall (fun be => be_overlap be <= blen (bi_base b)) (b_ents b).

Definition bi_inv (it : biter) : Prop :=
  take (bi_prev it) (bi_key it) = take (bi_prev it) (bi_base (bi_blk it)) /\
  bi_prev it <= blen (bi_base (bi_blk it)).

Lemma take_take a b (l : bytes) : take a (take b l) = take (N.min a b) l.
Proof.
  unfold take. rewrite firstn_firstn. f_equal. lia.
Qed.

Lemma bi_inv_set_block b : bi_inv (bi_set_block b).
Proof. split; cbn; [reflexivity | lia]. Qed.

Lemma set_idx_ok it i be :
  blk_wf (bi_blk it) -> bi_inv it -> nth_error (b_ents (bi_blk it)) i = Some be ->
  let it' := bi_set_idx it (Z.of_nat i) in
  bi_blk it' = bi_blk it /\ bi_idx it' = Z.of_nat i /\
  bi_key it' = full_key (bi_base (bi_blk it)) be /\ bi_vs it' = be_vs be /\
  bi_err it' = false /\ bi_inv it'.
Proof.
  intros [Hne Hov] [Hk Hp] Hn. cbv zeta. unfold bi_set_idx.
  assert (Hi : (i < length (b_ents (bi_blk it)))%nat) by (apply nth_error_Some; congruence).
  replace ((Z.of_nat i <? 0)%Z || (Z.of_nat (length (b_ents (bi_blk it))) <=? Z.of_nat i)%Z) with false by lia.
  rewrite Nat2Z.id, Hn.
  assert (Hob : be_overlap be <= blen (bi_base (bi_blk it))).
  { rewrite Forall_forall in Hov. apply Hov. eapply nth_error_In; eauto. }
  set (base := bi_base (bi_blk it)) in *. set (ov := be_overlap be) in *.
  assert (Hk1 : take ov (if bi_prev it <? ov
                         then take (bi_prev it) (bi_key it) ++ drop (bi_prev it) (take ov base)
                         else bi_key it) = take ov base).
  { destruct (bi_prev it <? ov) eqn:E.
    - rewrite Hk. replace (take (bi_prev it) base) with (take (bi_prev it) (take ov base)).
      + rewrite take_drop. rewrite take_take. f_equal. lia.
      + rewrite take_take. f_equal. lia.
    - replace (take ov (bi_key it)) with (take ov (take (bi_prev it) (bi_key it))).
      + rewrite Hk, take_take. f_equal. lia.
      + rewrite take_take. f_equal. lia. }
  cbn [bi_blk bi_idx bi_key bi_vs bi_err].
  split; [reflexivity|]. split; [reflexivity|].
  split; [unfold full_key; f_equal; exact Hk1|].
  split; [reflexivity|]. split; [reflexivity|].
  { unfold bi_inv. cbn [bi_prev bi_key bi_blk]. fold base.
    match goal with |- take ov (?x ++ _) = _ /\ _ => replace x with (take ov base) by (symmetry; exact Hk1) end.
    assert (E : blen (take ov base) = ov) by (apply blen_take; lia).
    rewrite <- E at 1. rewrite take_app_exact. split; [reflexivity|lia]. }
Qed.

Lemma set_idx_oob it i :
  (i < 0 \/ Z.of_nat (length (b_ents (bi_blk it))) <= i)%Z ->
  let it' := bi_set_idx it i in
  bi_blk it' = bi_blk it /\ bi_idx it' = i /\ bi_err it' = true.
Proof.
  intros H. cbv zeta. unfold bi_set_idx.
  replace ((i <? 0)%Z || (Z.of_nat (length (b_ents (bi_blk it))) <=? i)%Z) with true by lia.
  cbn. auto.
Qed.

(** "the block iterator stands on entry [i] of block [b]" *)
Definition bi_at (b : block) (i : nat) (it : biter) : Prop :=
  exists be, nth_error (b_ents b) i = Some be /\
  bi_blk it = b /\ bi_idx it = Z.of_nat i /\ bi_key it = full_key (bi_base b) be /\
  bi_vs it = be_vs be /\ bi_err it = false /\ bi_inv it.

Lemma bi_at_set_idx b it i :
  blk_wf b -> bi_blk it = b -> bi_inv it -> (i < length (b_ents b))%nat ->
  bi_at b i (bi_set_idx it (Z.of_nat i)).
Proof.
  intros Hwf Hb Hinv Hi. subst b.
  destruct (nth_error (b_ents (bi_blk it)) i) as [be|] eqn:En; [|apply nth_error_None in En; lia].
  destruct (set_idx_ok it i be Hwf Hinv En) as (H1 & H2 & H3 & H4 & H5 & H6).
  exists be. split; [exact En|]. split; [exact H1|]. split; [exact H2|]. split; [exact H3|].
  split; [exact H4|]. split; [exact H5|exact H6].
Qed.

Lemma nth_error_blk_entries b i be :
  nth_error (b_ents b) i = Some be -> nth_error (blk_entries b) i = Some (dec b be).
Proof. intro H. unfold blk_entries. now rewrite nth_error_map, H. Qed.

Lemma bi_at_item b i it :
  bi_at b i it -> nth_error (blk_entries b) i = Some {| e_key := bi_key it; e_vs := bi_vs it |}.
Proof.
  intros (be & Hn & _ & _ & Hk & Hv & _). rewrite (nth_error_blk_entries _ _ _ Hn).
  unfold dec. now rewrite Hk, Hv.
Qed.

(** * In-block seek *)

Definition bkey (b : block) (i : nat) : bytes :=
  match nth_error (blk_entries b) i with Some e => e_key e | None => [] end.

Definition blk_sorted (b : block) : Prop := StronglySorted key_lt (blk_entries b).

Lemma sorted_nth_lt (l : list entry) i j a c :
  StronglySorted key_lt l -> (i < j)%nat -> nth_error l i = Some a -> nth_error l j = Some c -> key_lt a c.
Proof.
  intros Hs. revert i j. induction Hs as [|x l Hs IH Hall]; intros i j Hij Ha Hc.
  - destruct i; discriminate.
  - destruct j; [lia|]. destruct i; cbn in Ha, Hc.
    + inversion Ha; subst. rewrite Forall_forall in Hall. apply Hall. eapply nth_error_In; eauto.
    + apply (IH i j); [lia | exact Ha | exact Hc].
Qed.

Lemma blk_entries_length b : length (blk_entries b) = length (b_ents b).
Proof. unfold blk_entries. apply map_length. Qed.

Section BlockSeek.
  Variable b : block.
  Hypothesis Hwf : blk_wf b.
  Hypothesis Hsorted : blk_sorted b.
  Variable key : bytes.
  Let n := length (b_ents b).

  Let Inv (it : biter) : Prop := bi_blk it = b /\ bi_inv it.

  Lemma seek_step (cmp : comparison -> bool) s h :
    Inv s -> (h < n)%nat ->
    let r := (fun s idx => let s' := bi_set_idx s (Z.of_nat idx) in (s', cmp (cmpk (bi_key s') key))) s h in
    Inv (fst r) /\ snd r = cmp (cmpk (bkey b h) key).
  Proof.
    intros [Hb Hi] Hh. cbv zeta. cbn [fst snd].
    pose proof (bi_at_set_idx b s h Hwf Hb Hi Hh) as Hat.
    pose proof (bi_at_item _ _ _ Hat) as Hit.
    destruct Hat as (be & Hn & Hb' & _ & Hk & _ & _ & Hinv').
    split; [split; assumption|].
    unfold bkey. rewrite Hit. reflexivity.
  Qed.

  Lemma bkey_mono_ge a c : (a <= c < n)%nat -> is_ge (cmpk (bkey b a) key) = true -> is_ge (cmpk (bkey b c) key) = true.
  Proof.
    intros Hac H. destruct (Nat.eq_dec a c) as [->|Hne]; [exact H|].
    unfold bkey in *. subst n. rewrite <- blk_entries_length in Hac.
    destruct (nth_error (blk_entries b) a) as [ea|] eqn:Ea; [|apply nth_error_None in Ea; lia].
    destruct (nth_error (blk_entries b) c) as [ec|] eqn:Ec; [|apply nth_error_None in Ec; lia].
    pose proof (sorted_nth_lt _ a c ea ec Hsorted ltac:(lia) Ea Ec) as Hlt. unfold key_lt in Hlt.
    destruct (is_ge (cmpk (e_key ec) key)) eqn:E; [reflexivity|].
    apply is_ge_lt in E. pose proof (cmpk_lt_trans _ _ _ Hlt E) as Hc.
    rewrite Hc in H. discriminate.
  Qed.

  Lemma bkey_mono_gt a c : (a <= c < n)%nat -> is_gt (cmpk (bkey b a) key) = true -> is_gt (cmpk (bkey b c) key) = true.
  Proof.
    intros Hac H. destruct (Nat.eq_dec a c) as [->|Hne]; [exact H|].
    unfold bkey in *. subst n. rewrite <- blk_entries_length in Hac.
    destruct (nth_error (blk_entries b) a) as [ea|] eqn:Ea; [|apply nth_error_None in Ea; lia].
    destruct (nth_error (blk_entries b) c) as [ec|] eqn:Ec; [|apply nth_error_None in Ec; lia].
    pose proof (sorted_nth_lt _ a c ea ec Hsorted ltac:(lia) Ea Ec) as Hlt. unfold key_lt in Hlt.
    apply is_gt_iff in H. apply is_gt_iff. apply cmpk_gt_lt. apply cmpk_gt_lt in H.
    eauto using cmpk_lt_trans.
  Qed.

  (** forward: the iterator stands on the first entry >= key, or is exhausted *)
  Lemma bi_seek_fwd :
    let it := bi_seek true (bi_set_block b) key in
    exists r, (r <= n)%nat /\
      (forall a, (a < r)%nat -> is_ge (cmpk (bkey b a) key) = false) /\
      (forall a, (r <= a < n)%nat -> is_ge (cmpk (bkey b a) key) = true) /\
      ((r < n)%nat -> bi_at b r it) /\ (r = n -> bi_err it = true /\ bi_blk it = b).
  Proof.
    cbv zeta. unfold bi_seek. cbn [bi_set_block bi_blk]. fold n.
    pose proof (bsearch_st_spec _ Inv (fun h => is_ge (cmpk (bkey b h) key)) n
                  (fun s h HI Hh => seek_step is_ge s h HI Hh) bkey_mono_ge
                  (S n) (bi_set_block b) 0%nat n) as H.
    specialize (H (conj eq_refl (bi_inv_set_block b)) ltac:(lia) ltac:(lia) ltac:(intros; lia) ltac:(intros; lia)).
    cbv zeta in H.
    destruct (bsearch_st _ (S n) (bi_set_block b) 0%nat n) as [it' found] eqn:E.
    cbn [fst snd] in H. destruct H as ([Hb Hi] & Hr & Hlo & Hhi).
    cbv beta iota.
    exists found. split; [exact Hr|]. split; [exact Hlo|]. split; [exact Hhi|]. split.
    - intro Hlt. apply bi_at_set_idx; auto.
    - intros ->.
      assert (Hoob : (Z.of_nat n < 0 \/ Z.of_nat (length (b_ents (bi_blk it'))) <= Z.of_nat n)%Z)
        by (right; rewrite Hb; fold n; lia).
      destruct (set_idx_oob it' (Z.of_nat n) Hoob) as (X1 & X2 & X3).
      split; [exact X3 | now rewrite X1].
  Qed.

  (** reverse: the iterator stands on the last entry <= key, or is exhausted *)
  Lemma bi_seek_rev :
    let it := bi_seek false (bi_set_block b) key in
    exists r, (r <= n)%nat /\
      (forall a, (a < r)%nat -> is_gt (cmpk (bkey b a) key) = false) /\
      (forall a, (r <= a < n)%nat -> is_gt (cmpk (bkey b a) key) = true) /\
      (forall p, r = S p -> bi_at b p it) /\ (r = 0%nat -> bi_err it = true /\ bi_blk it = b).
  Proof.
    cbv zeta. unfold bi_seek. cbn [bi_set_block bi_blk]. fold n.
    pose proof (bsearch_st_spec _ Inv (fun h => is_gt (cmpk (bkey b h) key)) n
                  (fun s h HI Hh => seek_step is_gt s h HI Hh) bkey_mono_gt
                  (S n) (bi_set_block b) 0%nat n) as H.
    specialize (H (conj eq_refl (bi_inv_set_block b)) ltac:(lia) ltac:(lia) ltac:(intros; lia) ltac:(intros; lia)).
    cbv zeta in H.
    destruct (bsearch_st _ (S n) (bi_set_block b) 0%nat n) as [it' found] eqn:E.
    cbn [fst snd] in H. destruct H as ([Hb Hi] & Hr & Hlo & Hhi).
    cbv beta iota.
    exists found. split; [exact Hr|]. split; [exact Hlo|]. split; [exact Hhi|]. split.
    - intros p ->. apply bi_at_set_idx; auto; lia.
    - intros ->.
      assert (Hoob : (-1 < 0 \/ Z.of_nat (length (b_ents (bi_blk it'))) <= -1)%Z) by (left; lia).
      destruct (set_idx_oob it' (-1)%Z Hoob) as (X1 & X2 & X3).
      split; [exact X3 | now rewrite X1].
  Qed.
End BlockSeek.


(** * Tables *)

Definition flat (bs : list block) : list entry := concat (map blk_entries bs).

(** the index's base key is the key of the block's first entry *)
Definition blk_index_ok (b : block) : Prop :=
  match blk_entries b with e :: _ => b_base b = e_key e | [] => False end.

Definition tbl_wf (t : table) : Prop :=
  Forall blk_wf (t_blocks t) /\ Forall blk_index_ok (t_blocks t) /\ sorted (flat (t_blocks t)).

Lemma skipn_nth_error {A} (l : list A) p x : nth_error l p = Some x -> skipn p l = x :: skipn (S p) l.
Proof.
  revert p; induction l as [|y l IH]; intros [|p] H; cbn in *; try discriminate.
  - now inversion H.
  - now apply IH.
Qed.

Lemma firstn_S_nth_error {A} (l : list A) p x : nth_error l p = Some x -> firstn (S p) l = firstn p l ++ [x].
Proof.
  revert p; induction l as [|y l IH]; intros [|p] H; cbn in *; try discriminate.
  - now inversion H.
  - f_equal. now apply IH.
Qed.

Lemma flat_cons b l : flat (b :: l) = blk_entries b ++ flat l.
Proof. reflexivity. Qed.
Lemma flat_nil : flat [] = [].
Proof. reflexivity. Qed.

Lemma flat_app a b : flat (a ++ b) = flat a ++ flat b.
Proof. unfold flat. now rewrite map_app, concat_app. Qed.

Lemma flat_split bs p b :
  nth_error bs p = Some b -> flat bs = flat (firstn p bs) ++ blk_entries b ++ flat (skipn (S p) bs).
Proof.
  intro H. rewrite <- (firstn_skipn p bs) at 1. rewrite flat_app, (skipn_nth_error _ _ _ H), flat_cons.
  reflexivity.
Qed.

Lemma ss_app {A} (R : A -> A -> Prop) l1 l2 :
  StronglySorted R (l1 ++ l2) ->
  StronglySorted R l1 /\ StronglySorted R l2 /\ (forall x y, In x l1 -> In y l2 -> R x y).
Proof.
  induction l1 as [|a l1 IH]; cbn; intro H.
  - repeat split; [constructor | exact H | intros x y []].
  - inversion H as [|? ? Hs Hall]; subst. destruct (IH Hs) as (H1 & H2 & H3).
    rewrite Forall_forall in Hall. repeat split; auto.
    + constructor; auto. apply Forall_forall. intros x Hx. apply Hall. apply in_or_app. now left.
    + intros x y [->|Hx] Hy; [apply Hall; apply in_or_app; now right | now apply H3].
Qed.

Section Table.
  Variable t : table.
  Hypothesis Hwf : tbl_wf t.
  Let bs := t_blocks t.

  Lemma wf_block p b : nth_error bs p = Some b -> blk_wf b /\ blk_index_ok b /\ blk_sorted b.
  Proof.
    intro H. destruct Hwf as (H1 & H2 & H3). fold bs in H1, H2, H3.
    rewrite Forall_forall in H1, H2. pose proof (nth_error_In _ _ H) as Hin.
    split; [now apply H1|]. split; [now apply H2|].
    unfold sorted in H3. rewrite (flat_split _ _ _ H) in H3.
    apply ss_app in H3 as (_ & H3 & _). apply ss_app in H3 as (H3 & _ & _). exact H3.
  Qed.

  Lemma block_nonempty p b : nth_error bs p = Some b -> (0 < length (b_ents b))%nat.
  Proof.
    intro H. destruct (wf_block p b H) as ((Hne & _) & _ & _).
    destruct (b_ents b); [congruence | cbn; lia].
  Qed.

  (** the table iterator stands on entry [i] of block [p] *)
  Definition ti_at (p i : nat) (b : block) (it : titer) : Prop :=
    nth_error bs p = Some b /\ ti_pos it = Z.of_nat p /\ ti_err it = false /\
    exists bi, ti_bi it = Some bi /\ bi_at b i bi.

  Lemma ti_at_item p i b it :
    ti_at p i b it -> exists e, nth_error (blk_entries b) i = Some e /\ ti_item it = Some e.
  Proof.
    intros (Hb & Hp & He & bi & Hbi & Hat). pose proof (bi_at_item _ _ _ Hat) as Hn.
    eexists; split; [exact Hn|]. unfold ti_item. now rewrite He, Hbi.
  Qed.

  Lemma nblocks_eq : nblocks t = Z.of_nat (length bs).
  Proof. reflexivity. Qed.

  Lemma ti_load_first p b :
    nth_error bs p = Some b -> ti_at p 0 b (ti_load true t (Z.of_nat p)).
  Proof.
    intro H. unfold ti_load, get_block. replace (Z.of_nat p <? 0)%Z with false by lia.
    rewrite Nat2Z.id. fold bs. rewrite H.
    destruct (wf_block p b H) as (Hb & _ & _).
    pose proof (bi_at_set_idx b (bi_set_block b) 0 Hb eq_refl (bi_inv_set_block b) (block_nonempty p b H)) as Hat.
    change (Z.of_nat 0) with 0%Z in Hat.
    split; [exact H|]. cbn [ti_pos ti_err ti_bi]. split; [reflexivity|].
    split; [destruct Hat as (? & _ & _ & _ & _ & _ & He & _); exact He|].
    eexists; split; [reflexivity | exact Hat].
  Qed.

  Lemma ti_load_last p b :
    nth_error bs p = Some b -> ti_at p (length (b_ents b) - 1) b (ti_load false t (Z.of_nat p)).
  Proof.
    intro H. unfold ti_load, get_block. replace (Z.of_nat p <? 0)%Z with false by lia.
    rewrite Nat2Z.id. fold bs. rewrite H.
    destruct (wf_block p b H) as (Hb & _ & _). pose proof (block_nonempty p b H) as Hlen.
    pose proof (bi_at_set_idx b (bi_set_block b) (length (b_ents b) - 1) Hb eq_refl (bi_inv_set_block b) ltac:(lia)) as Hat.
    replace (Z.of_nat (length (b_ents b) - 1)) with (Z.of_nat (length (b_ents b)) - 1)%Z in Hat by lia.
    split; [exact H|]. cbn [ti_pos ti_err ti_bi]. split; [reflexivity|].
    split; [destruct Hat as (? & _ & _ & _ & _ & _ & He & _); exact He|].
    eexists; split; [reflexivity | exact Hat].
  Qed.

  Lemma oob_fwd z : out_of_blocks true t z = (Z.of_nat (length bs) <=? z)%Z.
  Proof. reflexivity. Qed.
  Lemma oob_rev z : out_of_blocks false t z = (z <? 0)%Z.
  Proof. reflexivity. Qed.

  Lemma ti_next_fwd p i b it :
    ti_at p i b it ->
    ((S i < length (b_ents b))%nat -> ti_at p (S i) b (ti_next true t it)) /\
    ((S i = length (b_ents b))%nat ->
       (forall b', nth_error bs (S p) = Some b' -> ti_at (S p) 0 b' (ti_next true t it)) /\
       (nth_error bs (S p) = None -> ti_item (ti_next true t it) = None)).
  Proof.
    intros (Hb & Hp & He & bi & Hbi & Hat).
    assert (Hpn : (p < length bs)%nat) by (apply nth_error_Some; congruence).
    destruct (wf_block p b Hb) as (Hbw & _ & _).
    destruct Hat as (be & Hn & Hblk & Hidx & Hk & Hv & Herr & Hinv).
    unfold ti_next. rewrite Hp, Hbi. rewrite !oob_fwd.
    destruct (Z.leb_spec (Z.of_nat (length bs)) (Z.of_nat p)); [lia|].
    unfold bi_next. rewrite Hidx. replace (Z.of_nat i + 1)%Z with (Z.of_nat (S i)) by lia.
    split.
    - intro Hlt. pose proof (bi_at_set_idx b bi (S i) Hbw Hblk Hinv Hlt) as Hat'.
      assert (He' : bi_err (bi_set_idx bi (Z.of_nat (S i))) = false)
        by (destruct Hat' as (? & _ & _ & _ & _ & _ & X & _); exact X).
      rewrite He'. split; [exact Hb|]. cbn [ti_pos ti_err ti_bi]. repeat split; auto.
      eexists; split; [reflexivity | exact Hat'].
    - intro Heq.
      assert (Hoob : (Z.of_nat (S i) < 0 \/ Z.of_nat (length (b_ents (bi_blk bi))) <= Z.of_nat (S i))%Z)
        by (right; rewrite Hblk; lia).
      destruct (set_idx_oob bi (Z.of_nat (S i)) Hoob) as (_ & _ & X). rewrite X.
      split.
      + intros b' Hb'. assert ((S p < length bs)%nat) by (apply nth_error_Some; congruence).
        destruct (Z.leb_spec (Z.of_nat (length bs)) (Z.of_nat p + 1)); [lia|].
        replace (Z.of_nat p + 1)%Z with (Z.of_nat (S p)) by lia. now apply ti_load_first.
      + intro Hnone. apply nth_error_None in Hnone.
        destruct (Z.leb_spec (Z.of_nat (length bs)) (Z.of_nat p + 1)); [|lia]. reflexivity.
  Qed.

  Lemma ti_next_rev p i b it :
    ti_at p i b it ->
    (forall i', i = S i' -> ti_at p i' b (ti_next false t it)) /\
    (i = 0%nat ->
       (forall p' b', p = S p' -> nth_error bs p' = Some b' ->
                      ti_at p' (length (b_ents b') - 1) b' (ti_next false t it)) /\
       (p = 0%nat -> ti_item (ti_next false t it) = None)).
  Proof.
    intros (Hb & Hp & He & bi & Hbi & Hat).
    destruct (wf_block p b Hb) as (Hbw & _ & _).
    destruct Hat as (be & Hn & Hblk & Hidx & Hk & Hv & Herr & Hinv).
    assert (Hi : (i < length (b_ents b))%nat) by (apply nth_error_Some; congruence).
    unfold ti_next. rewrite Hp, Hbi. rewrite !oob_rev.
    destruct (Z.ltb_spec (Z.of_nat p) 0); [lia|].
    unfold bi_next. rewrite Hidx.
    split.
    - intros i' ->. replace (Z.of_nat (S i') - 1)%Z with (Z.of_nat i') by lia.
      pose proof (bi_at_set_idx b bi i' Hbw Hblk Hinv ltac:(lia)) as Hat'.
      assert (He' : bi_err (bi_set_idx bi (Z.of_nat i')) = false)
        by (destruct Hat' as (? & _ & _ & _ & _ & _ & X & _); exact X).
      rewrite He'. split; [exact Hb|]. cbn [ti_pos ti_err ti_bi]. repeat split; auto.
      eexists; split; [reflexivity | exact Hat'].
    - intros ->.
      assert (Hoob : (Z.of_nat 0 - 1 < 0 \/ Z.of_nat (length (b_ents (bi_blk bi))) <= Z.of_nat 0 - 1)%Z)
        by (left; lia).
      destruct (set_idx_oob bi (Z.of_nat 0 - 1)%Z Hoob) as (_ & _ & X). rewrite X.
      split.
      + intros p' b' -> Hb'.
        destruct (Z.ltb_spec (Z.of_nat (S p') - 1) 0); [lia|].
        replace (Z.of_nat (S p') - 1)%Z with (Z.of_nat p') by lia. now apply ti_load_last.
      + intros ->. reflexivity.
  Qed.

  (** ** Draining *)

  Lemma drain_err asc fuel it : ti_item it = None -> drain asc t (S fuel) it = Some [].
  Proof. intro H. cbn [drain]. now rewrite H. Qed.

  Lemma drain_fwd : forall fuel p i b it,
    ti_at p i b it ->
    (length (skipn i (blk_entries b) ++ flat (skipn (S p) bs)) < fuel)%nat ->
    drain true t fuel it = Some (skipn i (blk_entries b) ++ flat (skipn (S p) bs)).
  Proof.
    induction fuel as [|fu IH]; intros p i b it Hat Hfuel; [lia|].
    destruct (ti_at_item _ _ _ _ Hat) as (e & Hn & Hitem).
    cbn [drain]. rewrite Hitem.
    rewrite (skipn_nth_error _ _ _ Hn) in *. cbn [app length] in Hfuel.
    destruct (ti_next_fwd p i b it Hat) as (Hin & Hout).
    assert (Hi : (i < length (b_ents b))%nat).
    { rewrite <- blk_entries_length. apply nth_error_Some. congruence. }
    destruct (Nat.eq_dec (S i) (length (b_ents b))) as [Heq|Hne].
    - destruct (Hout Heq) as (Hnext & Hend).
      assert (Hsk : skipn (S i) (blk_entries b) = []).
      { apply skipn_all2. rewrite blk_entries_length. lia. }
      rewrite Hsk in *. cbn [app] in *.
      destruct (nth_error bs (S p)) as [b'|] eqn:Eb'.
      + specialize (Hnext b' eq_refl).
        rewrite (skipn_nth_error _ _ _ Eb'), flat_cons in *.
        rewrite (IH (S p) 0%nat b' _ Hnext); [reflexivity|].
        change (skipn 0 (blk_entries b')) with (blk_entries b'). lia.
      + rewrite (skipn_all2 bs) in * by (apply nth_error_None; exact Eb'). rewrite flat_nil in *.
        destruct fu; [cbn in Hfuel; lia|]. rewrite drain_err; auto.
    - rewrite (IH p (S i) b _ (Hin ltac:(lia))); [reflexivity|lia].
  Qed.

  Lemma drain_rev : forall fuel p i b it,
    ti_at p i b it ->
    (length (rev (firstn (S i) (blk_entries b)) ++ rev (flat (firstn p bs))) < fuel)%nat ->
    drain false t fuel it = Some (rev (firstn (S i) (blk_entries b)) ++ rev (flat (firstn p bs))).
  Proof.
    induction fuel as [|fu IH]; intros p i b it Hat Hfuel; [lia|].
    destruct (ti_at_item _ _ _ _ Hat) as (e & Hn & Hitem).
    cbn [drain]. rewrite Hitem.
    rewrite (firstn_S_nth_error _ _ _ Hn), rev_app_distr in Hfuel |- *.
    change (rev [e]) with [e] in Hfuel |- *. rewrite <- !app_assoc in Hfuel |- *.
    change ([e] ++ ?x) with (e :: x) in Hfuel |- *. cbn [length] in Hfuel.
    destruct (ti_next_rev p i b it Hat) as (Hin & Hout).
    destruct i as [|i'].
    - destruct (Hout eq_refl) as (Hprev & Hend).
      change (firstn 0 (blk_entries b)) with (@nil entry) in Hfuel |- *.
      change (rev (@nil entry)) with (@nil entry) in Hfuel |- *.
      change (@nil entry ++ ?x) with x in Hfuel |- *.
      destruct p as [|p'].
      + destruct fu; [cbn in Hfuel; lia|]. rewrite drain_err; auto.
      + assert (Hp' : (p' < length bs)%nat).
        { destruct Hat as (Hb & _). assert ((S p' < length bs)%nat) by (apply nth_error_Some; congruence). lia. }
        destruct (nth_error bs p') as [b'|] eqn:Eb'; [|apply nth_error_None in Eb'; lia].
        specialize (Hprev p' b' eq_refl Eb').
        rewrite (firstn_S_nth_error _ _ _ Eb'), flat_app, rev_app_distr in Hfuel |- *.
        rewrite flat_cons, flat_nil, app_nil_r in Hfuel |- *.
        pose proof (block_nonempty p' b' Eb') as Hlen.
        assert (Hall : firstn (S (length (b_ents b') - 1)) (blk_entries b') = blk_entries b').
        { apply firstn_all2. rewrite blk_entries_length. lia. }
        rewrite (IH p' (length (b_ents b') - 1)%nat b' _ Hprev); rewrite Hall; [reflexivity|]. lia.
    - rewrite (IH p i' b _ (Hin i' eq_refl)); [reflexivity|]. lia.
  Qed.

  Lemma total_entries_flat : total_entries t = length (flat bs).
  Proof.
    unfold total_entries. fold bs.
    assert (G : forall l n, fold_left (fun n b => (n + length (b_ents b))%nat) l n = (n + length (flat l))%nat).
    { induction l as [|b l IH]; intro n; cbn [fold_left].
      - cbn. lia.
      - rewrite IH. unfold flat. cbn [map concat]. rewrite app_length, blk_entries_length. lia. }
    now rewrite G.
  Qed.

  Theorem iterate_fwd : iterate true t = Some (flat bs).
  Proof.
    unfold iterate. rewrite total_entries_flat.
    destruct (nth_error bs 0) as [b0|] eqn:H0.
    - assert (Hrw : ti_rewind true t = ti_load true t 0%Z).
      { unfold ti_rewind. unfold bs in H0. destruct (t_blocks t); [discriminate|reflexivity]. }
      rewrite Hrw.
      pose proof (ti_load_first 0 b0 H0) as Hat. change (Z.of_nat 0) with 0%Z in Hat.
      pose proof (flat_split bs 0 b0 H0) as Hfl. change (firstn 0 bs) with (@nil block) in Hfl.
      rewrite flat_nil in Hfl. change (@nil entry ++ ?x) with x in Hfl.
      rewrite (drain_fwd _ 0 0 b0 _ Hat); change (skipn 0 (blk_entries b0)) with (blk_entries b0).
      + now rewrite Hfl.
      + rewrite Hfl. lia.
    - assert (Hnil : t_blocks t = []).
      { apply nth_error_None in H0. unfold bs in H0. destruct (t_blocks t); [reflexivity | cbn in H0; lia]. }
      unfold ti_rewind, bs. rewrite Hnil. reflexivity.
  Qed.

  Theorem iterate_rev : iterate false t = Some (rev (flat bs)).
  Proof.
    unfold iterate. rewrite total_entries_flat.
    destruct (nth_error bs (length bs - 1)) as [b|] eqn:Eb.
    - assert (Hlen : (0 < length bs)%nat).
      { assert ((length bs - 1 < length bs)%nat) by (apply nth_error_Some; congruence). lia. }
      assert (Hrw : ti_rewind false t = ti_load false t (Z.of_nat (length bs - 1))).
      { unfold ti_rewind. rewrite nblocks_eq. fold bs.
        replace (Z.of_nat (length bs) - 1)%Z with (Z.of_nat (length bs - 1)) by lia.
        unfold bs in Hlen. destruct (t_blocks t); [cbn in Hlen; lia | reflexivity]. }
      rewrite Hrw. set (p := (length bs - 1)%nat) in *.
      pose proof (ti_load_last p b Eb) as Hat.
      pose proof (block_nonempty p b Eb) as Hbl.
      assert (Hall : firstn (S (length (b_ents b) - 1)) (blk_entries b) = blk_entries b).
      { apply firstn_all2. rewrite blk_entries_length. lia. }
      assert (Hflat : flat bs = flat (firstn p bs) ++ blk_entries b).
      { rewrite (flat_split bs p b Eb) at 1. rewrite (skipn_all2 bs) by lia. rewrite flat_nil.
        now rewrite app_nil_r. }
      rewrite (drain_rev _ p _ b _ Hat); rewrite Hall.
      + now rewrite Hflat, rev_app_distr.
      + rewrite Hflat, !app_length, !rev_length. lia.
    - assert (Hnil : t_blocks t = []).
      { apply nth_error_None in Eb. unfold bs in Eb. destruct (t_blocks t); [reflexivity | cbn in Eb; lia]. }
      unfold ti_rewind, bs. rewrite Hnil. reflexivity.
  Qed.
End Table.


(** * The builder *)

Lemma lcp_le a b : lcp a b <= blen a /\ lcp a b <= blen b.
Proof.
  revert b; induction a as [|x a IH]; intros [|y b]; cbn [lcp]; rewrite ?blen_cons, ?blen_nil; try lia.
  destruct (byte_eqb x y); [|lia]. specialize (IH b). lia.
Qed.

Lemma lcp_take a b : take (lcp a b) a = take (lcp a b) b.
Proof.
  revert b; induction a as [|x a IH]; intros [|y b]; cbn [lcp]; try reflexivity.
  destruct (byte_eqb x y) eqn:E; [|reflexivity].
  apply byte_eqb_eq in E. subst y. unfold take in *.
  replace (N.to_nat (1 + lcp a b)) with (S (N.to_nat (lcp a b))) by lia.
  cbn [firstn]. f_equal. apply IH.
Qed.

Definition hash_of (e : entry) : N := hash (parse_key (e_key e)).

Definition cur_entries (cur : option block) : list entry :=
  match cur with Some b => blk_entries b | None => [] end.

Definition cur_ok (cur : option block) : Prop :=
  match cur with
  | None => True
  | Some b => blk_wf b /\ blk_index_ok b /\ b_base b = bi_base b /\ b_base b <> []
  end.

Definition binv (st : bstate) (es : list entry) : Prop :=
  Forall blk_wf (bs_done st) /\ Forall blk_index_ok (bs_done st) /\ cur_ok (bs_cur st) /\
  flat (bs_done st) ++ cur_entries (bs_cur st) = es /\
  bs_hashes st = map hash_of es.

Lemma binv_init : binv bs_init [].
Proof. repeat split; constructor. Qed.

Lemma finish_block_ok done cur :
  Forall blk_wf done -> Forall blk_index_ok done -> cur_ok cur ->
  Forall blk_wf (finish_block done cur) /\ Forall blk_index_ok (finish_block done cur) /\
  flat (finish_block done cur) = flat done ++ cur_entries cur.
Proof.
  intros H1 H2 H3. destruct cur as [b|]; cbn [finish_block cur_entries].
  - destruct H3 as (Hw & Hi & _). destruct (b_ents b) eqn:E.
    + destruct Hw as (Hne & _). congruence.
    + rewrite flat_app, flat_cons, flat_nil, app_nil_r.
      repeat split; auto; apply Forall_app; split; auto.
  - rewrite app_nil_r. auto.
Qed.

Lemma add_ok bsz st es e :
  binv st es -> key_ok (e_key e) -> exists st', add bsz st e = Some st' /\ binv st' (es ++ [e]).
Proof.
  intros (Hd1 & Hd2 & Hc & Hfl & Hh) [Hk8 Hk16].
  destruct e as [key vs]. cbn [e_key] in *.
  unfold add. cbn [e_key e_vs].
  destruct (try_finish bsz (bs_cur st) {| e_key := key; e_vs := vs |}) eqn:Etf.
  - (* a new block *)
    destruct (finish_block_ok _ _ Hd1 Hd2 Hc) as (F1 & F2 & F3).
    cbn [b_base b_ents b_end blen length N.of_nat]. change (0 =? 0) with true. cbv iota beta.
    change (drop 0 key) with key.
    replace ((max_u16 <? blen key - blen key) || (max_u16 <? blen key)) with false by (unfold max_u16; lia).
    eexists; split; [reflexivity|].
    split; [exact F1|]. split; [exact F2|]. cbn [bs_done bs_cur bs_hashes].
    match goal with |- cur_ok (Some ?B) /\ _ => set (b' := B) end.
    assert (Hz : blen key - blen key = 0) by lia.
    assert (Hbase : bi_base b' = key) by reflexivity.
    assert (Hent : blk_entries b' = [{| e_key := key; e_vs := vs |}]).
    { unfold blk_entries, dec, full_key, bi_base, b'. cbn [b_ents app map be_overlap be_diff be_vs].
      rewrite Hz. reflexivity. }
    split.
    { split; [|split; [|split]].
      - split; [unfold b'; cbn; congruence|]. rewrite Hbase. unfold b'. cbn [b_ents app].
        constructor; [|constructor]. cbn [be_overlap]. lia.
      - unfold blk_index_ok. rewrite Hent. reflexivity.
      - now rewrite Hbase.
      - unfold b'. cbn [b_base]. intro Hnil. rewrite Hnil in Hk8. cbn in Hk8. lia. }
    split.
    + rewrite F3, <- Hfl. f_equal. unfold cur_entries. exact Hent.
    + rewrite Hh, map_app. reflexivity.
  - (* same block *)
    destruct (bs_cur st) as [b|] eqn:Ecur; [|discriminate].
    destruct Hc as (Hw & Hi & Hbb & Hbn).
    assert (Hbl : blen (b_base b) =? 0 = false).
    { destruct (b_base b); [congruence|]. rewrite blen_cons. lia. }
    rewrite Hbl. cbv iota beta.
    pose proof (lcp_le key (b_base b)) as [Hl1 Hl2].
    set (ov := lcp key (b_base b)) in *.
    assert (Hdl : blen (drop ov key) = blen key - ov) by apply blen_drop.
    replace ((max_u16 <? blen key - blen (drop ov key)) || (max_u16 <? blen (drop ov key))) with false
      by (unfold max_u16; lia).
    eexists; split; [reflexivity|].
    cbn [bs_done bs_cur bs_hashes].
    destruct Hw as (Hne & Hov).
    unfold binv. cbn [bs_done bs_cur bs_hashes].
    match goal with |- context [b_ents b ++ [?X]] => set (be := X) end.
    match goal with |- _ /\ _ /\ cur_ok (Some ?B) /\ _ => set (b' := B) end.
    assert (Hbase : bi_base b' = bi_base b).
    { unfold bi_base, b'. cbn [b_ents]. destruct (b_ents b); [congruence|reflexivity]. }
    assert (Hov' : be_overlap be = ov) by (unfold be; cbn [be_overlap]; lia).
    assert (Hent : blk_entries b' = blk_entries b ++ [{| e_key := key; e_vs := vs |}]).
    { unfold blk_entries, b'. cbn [b_ents]. rewrite map_app. cbn [map]. f_equal.
      - apply map_ext. intro x. unfold dec. fold b'. now rewrite Hbase.
      - unfold dec. fold b'. rewrite Hbase. f_equal. f_equal. unfold full_key. rewrite Hov'.
        cbn [be_diff be]. rewrite <- Hbb. unfold ov. rewrite <- lcp_take. apply take_drop. }
    split; [exact Hd1|]. split; [exact Hd2|]. split.
    { split; [|split; [|split]].
      - split.
        + unfold b'. cbn [b_ents]. destruct (b_ents b); cbn; congruence.
        + rewrite Hbase. unfold b'. cbn [b_ents]. apply Forall_app. split; [exact Hov|].
          constructor; [|constructor]. rewrite Hov', <- Hbb. exact Hl2.
      - unfold blk_index_ok in *. rewrite Hent. destruct (blk_entries b); [contradiction|]. exact Hi.
      - rewrite Hbase. exact Hbb.
      - exact Hbn. }
    split.
    + unfold cur_entries. rewrite Hent, app_assoc. f_equal. exact Hfl.
    + rewrite Hh, map_app. reflexivity.
Qed.

Lemma add_all_ok bsz : forall es2 st es1,
  binv st es1 -> keys_ok es2 -> exists st', add_all bsz st es2 = Some st' /\ binv st' (es1 ++ es2).
Proof.
  induction es2 as [|e es2 IH]; intros st es1 Hb Hk; cbn [add_all].
  - exists st. rewrite app_nil_r. auto.
  - inversion Hk as [|? ? Hke Hk2]; subst.
    destruct (add_ok bsz st es1 e Hb Hke) as (st' & Ha & Hb').
    rewrite Ha. destruct (IH st' (es1 ++ [e]) Hb' Hk2) as (st'' & Ha' & Hb'').
    exists st''. split; [exact Ha'|]. now rewrite <- app_assoc in Hb''.
Qed.

(** the builder never panics on well-formed keys, and the table it produces
    holds exactly the entries it was given *)
Theorem build_ok bsz wb bpk k es :
  keys_ok es -> sorted es ->
  exists t, build bsz wb bpk k es = Some t /\ tbl_wf t /\ flat (t_blocks t) = es /\
            t_bloom t = (if wb then build_bloom (map hash_of es) bpk k else []).
Proof.
  intros Hk Hs. unfold build.
  destruct (add_all_ok bsz es bs_init [] binv_init Hk) as (st & Ha & Hd1 & Hd2 & Hc & Hfl & Hh).
  rewrite Ha. cbn [app] in *.
  destruct (finish_block_ok _ _ Hd1 Hd2 Hc) as (F1 & F2 & F3).
  eexists; split; [reflexivity|]. cbn [t_blocks t_bloom].
  split; [|split].
  - split; [exact F1|]. split; [exact F2|]. cbn [t_blocks]. rewrite F3, Hfl. exact Hs.
  - now rewrite F3.
  - now rewrite Hh.
Qed.


(** * Seek *)

Lemma filter_pre_suf {A} (f : A -> bool) pre suf :
  Forall (fun x => f x = false) pre -> Forall (fun x => f x = true) suf -> filter f (pre ++ suf) = suf.
Proof.
  intros H1 H2. rewrite filter_app.
  assert (E1 : filter f pre = []).
  { induction H1 as [|x l Hx _ IH]; cbn; [reflexivity|]. now rewrite Hx. }
  assert (E2 : filter f suf = suf).
  { induction H2 as [|x l Hx _ IH]; cbn; [reflexivity|]. now rewrite Hx, IH. }
  now rewrite E1, E2.
Qed.

Lemma filter_pre_suf' {A} (f : A -> bool) pre suf :
  Forall (fun x => f x = true) pre -> Forall (fun x => f x = false) suf -> filter f (pre ++ suf) = pre.
Proof.
  intros H1 H2. rewrite filter_app.
  assert (E1 : filter f pre = pre).
  { induction H1 as [|x l Hx _ IH]; cbn; [reflexivity|]. now rewrite Hx, IH. }
  assert (E2 : filter f suf = []).
  { induction H2 as [|x l Hx _ IH]; cbn; [reflexivity|]. now rewrite Hx. }
  now rewrite E1, E2, app_nil_r.
Qed.

Lemma Forall_firstn_nth {A} (l : list A) r (P : A -> Prop) :
  (forall a e, (a < r)%nat -> nth_error l a = Some e -> P e) -> Forall P (firstn r l).
Proof.
  revert r; induction l as [|x l IH]; intros [|r] H; cbn [firstn]; try constructor.
  - apply (H 0%nat x); [lia|reflexivity].
  - apply IH. intros a e Ha Hn. apply (H (S a) e); [lia|exact Hn].
Qed.

Lemma Forall_skipn_nth {A} (l : list A) r (P : A -> Prop) :
  (forall a e, (r <= a)%nat -> nth_error l a = Some e -> P e) -> Forall P (skipn r l).
Proof.
  revert r; induction l as [|x l IH]; intros [|r] H; cbn [skipn]; try constructor.
  - apply (H 0%nat x); [lia|reflexivity].
  - apply Forall_forall. intros e He. apply In_nth_error in He as [a Ha].
    apply (H (S a) e); [lia|exact Ha].
  - apply IH. intros a e Ha Hn. apply (H (S a) e); [lia|exact Hn].
Qed.

Lemma nth_error_firstn_lt {A} (l : list A) a c : (a < c)%nat -> nth_error (firstn c l) a = nth_error l a.
Proof.
  revert a c; induction l as [|x l IH]; intros a c H.
  - rewrite firstn_nil. reflexivity.
  - destruct c; [lia|]. destruct a; cbn; [reflexivity|]. apply IH. lia.
Qed.

Lemma nth_error_skipn {A} (l : list A) a c : nth_error (skipn c l) a = nth_error l (c + a).
Proof.
  revert c; induction l as [|x l IH]; intros c.
  - rewrite skipn_nil. destruct a, c; reflexivity.
  - destruct c; cbn; [reflexivity|]. apply IH.
Qed.

Lemma in_flat x bs : In x (flat bs) <-> exists b, In b bs /\ In x (blk_entries b).
Proof.
  unfold flat. rewrite in_concat. split.
  - intros (l & Hl & Hx). apply in_map_iff in Hl as (b & <- & Hb). eauto.
  - intros (b & Hb & Hx). exists (blk_entries b). split; [now apply in_map|exact Hx].
Qed.

Section Seek.
  Variable t : table.
  Hypothesis Hwf : tbl_wf t.
  Variable key : bytes.
  Let bs := t_blocks t.
  Let n := length bs.

  Definition pbase (idx : nat) : bool :=
    match nth_error bs idx with Some b => is_gt (cmpk (b_base b) key) | None => true end.

  (** entries of an earlier block sort before entries of a later block *)
  Lemma blocks_lt a c ba bc x y :
    (a < c)%nat -> nth_error bs a = Some ba -> nth_error bs c = Some bc ->
    In x (blk_entries ba) -> In y (blk_entries bc) -> key_lt x y.
  Proof.
    intros Hac Ha Hc Hx Hy. destruct Hwf as (_ & _ & Hs). fold bs in Hs. unfold sorted in Hs.
    rewrite (flat_split bs c bc Hc) in Hs. apply ss_app in Hs as (_ & _ & Hs).
    apply Hs.
    - apply in_flat. exists ba. split; [|exact Hx].
      apply (nth_error_In (firstn c bs) a). now rewrite nth_error_firstn_lt.
    - apply in_or_app. now left.
  Qed.

  (** the base key is the first entry's key; every entry of the block is at or after it *)
  Lemma base_le_entries p b y :
    nth_error bs p = Some b -> In y (blk_entries b) -> cmpk (b_base b) (e_key y) <> Gt.
  Proof.
    intros Hb Hy. destruct (wf_block t Hwf p b Hb) as (_ & Hi & Hs).
    unfold blk_index_ok in Hi. unfold blk_sorted in Hs.
    destruct (blk_entries b) as [|e0 l] eqn:E; [contradiction|]. rewrite Hi.
    destruct Hy as [<-|Hy]; [now rewrite cmpk_refl|].
    inversion Hs as [|? ? _ Hall]; subst. rewrite Forall_forall in Hall.
    specialize (Hall y Hy). unfold key_lt in Hall. congruence.
  Qed.

  Lemma base_is_first p b :
    nth_error bs p = Some b -> exists e0, nth_error (blk_entries b) 0 = Some e0 /\ b_base b = e_key e0.
  Proof.
    intros Hb. destruct (wf_block t Hwf p b Hb) as (_ & Hi & _). unfold blk_index_ok in Hi.
    destruct (blk_entries b) as [|e0 l]; [contradiction|]. exists e0. now split.
  Qed.

  Lemma pbase_mono a c : (a <= c < n)%nat -> pbase a = true -> pbase c = true.
  Proof.
    intros Hac H. destruct (Nat.eq_dec a c) as [->|Hne]; [exact H|].
    unfold pbase in *.
    destruct (nth_error bs a) as [ba|] eqn:Ea; [|apply nth_error_None in Ea; fold n in Ea; lia].
    destruct (nth_error bs c) as [bc|] eqn:Ec; [|reflexivity].
    destruct (base_is_first a ba Ea) as (ea & Hea & Ba). destruct (base_is_first c bc Ec) as (ec & Hec & Bc).
    pose proof (blocks_lt a c ba bc ea ec ltac:(lia) Ea Ec (nth_error_In _ _ Hea) (nth_error_In _ _ Hec)) as Hlt.
    unfold key_lt in Hlt. rewrite Ba in H. rewrite Bc.
    apply is_gt_iff in H. apply is_gt_iff. apply cmpk_gt_lt. apply cmpk_gt_lt in H.
    eauto using cmpk_lt_trans.
  Qed.

  Lemma block_search_spec :
    let r := block_search t key in
    (r <= n)%nat /\ (forall a, (a < r)%nat -> pbase a = false) /\ (forall a, (r <= a < n)%nat -> pbase a = true).
  Proof.
    cbv zeta. unfold block_search. fold bs. fold n.
    pose proof (bsearch_st_spec (fun (s : unit) idx => (s, pbase idx)) (fun _ => True) pbase n
                  (fun s h _ _ => conj I eq_refl) pbase_mono (S n) tt 0%nat n I
                  ltac:(lia) ltac:(lia) ltac:(intros; lia) ltac:(intros; lia)) as H.
    cbv zeta in H. destruct H as (_ & H). exact H.
  Qed.

  (** blocks before the chosen index: everything in strictly earlier blocks is < key *)
  Lemma earlier_lt p b :
    nth_error bs p = Some b -> pbase p = false ->
    Forall (fun e => cmpk (e_key e) key = Lt) (flat (firstn p bs)).
  Proof.
    intros Hb Hp. apply Forall_forall. intros x Hx.
    apply in_flat in Hx as (bx & Hbx & Hx). apply In_nth_error in Hbx as (a & Ha).
    assert (Hap : (a < p)%nat).
    { assert (Hl : (a < length (firstn p bs))%nat) by (apply nth_error_Some; congruence).
      rewrite firstn_length in Hl. lia. }
    rewrite nth_error_firstn_lt in Ha by exact Hap.
    destruct (base_is_first p b Hb) as (e0 & He0 & B0).
    pose proof (blocks_lt a p bx b x e0 Hap Ha Hb Hx (nth_error_In _ _ He0)) as Hlt.
    unfold key_lt in Hlt. unfold pbase in Hp. rewrite Hb, B0 in Hp.
    apply (cmpk_lt_le_trans _ _ _ Hlt). intro HG. rewrite HG in Hp. discriminate.
  Qed.

  (** blocks from the chosen index on: everything is > key *)
  Lemma later_gt r :
    (forall a, (r <= a < n)%nat -> pbase a = true) ->
    Forall (fun e => cmpk (e_key e) key = Gt) (flat (skipn r bs)).
  Proof.
    intros Hhi. apply Forall_forall. intros y Hy.
    apply in_flat in Hy as (b & Hb & Hy). apply In_nth_error in Hb as (a & Ha).
    rewrite nth_error_skipn in Ha.
    assert (Hn : (r + a < n)%nat) by (apply nth_error_Some; congruence).
    specialize (Hhi (r + a)%nat ltac:(lia)). unfold pbase in Hhi. rewrite Ha in Hhi.
    apply is_gt_iff in Hhi. pose proof (base_le_entries _ _ _ Ha Hy) as Hle.
    apply cmpk_gt_lt. apply cmpk_gt_lt in Hhi.
    destruct (cmpk (b_base b) (e_key y)) eqn:E; try congruence.
    - apply cmpk_eq in E. now rewrite <- E.
    - eauto using cmpk_lt_trans.
  Qed.

  Lemma bkey_nth b a e : nth_error (blk_entries b) a = Some e -> bkey b a = e_key e.
  Proof. intro H. unfold bkey. now rewrite H. Qed.

  (** seeking forward in a block whose base key is > key lands on its first entry *)
  Lemma seek_helper_first idx b :
    nth_error bs idx = Some b -> pbase idx = true -> ti_at t idx 0 b (seek_helper true t idx key).
  Proof.
    intros Hb Hp. unfold seek_helper. fold bs. rewrite Hb.
    destruct (wf_block t Hwf idx b Hb) as (Hbw & _ & Hbs).
    destruct (bi_seek_fwd b Hbw Hbs key) as (r & Hr & Hlo & Hhi & Hin & Hout).
    pose proof (block_nonempty t Hwf idx b Hb) as Hlen.
    assert (r = 0%nat).
    { destruct r; [reflexivity|]. specialize (Hlo 0%nat ltac:(lia)).
      destruct (base_is_first idx b Hb) as (e0 & He0 & B0). rewrite (bkey_nth _ _ _ He0) in Hlo.
      unfold pbase in Hp. rewrite Hb, B0 in Hp. apply is_gt_iff in Hp. rewrite Hp in Hlo. discriminate. }
    subst r. specialize (Hin Hlen).
    split; [exact Hb|]. cbn [ti_pos ti_err ti_bi]. split; [reflexivity|].
    split; [destruct Hin as (? & _ & _ & _ & _ & _ & He & _); exact He|].
    eexists; split; [reflexivity|exact Hin].
  Qed.

  Definition ge_key (e : entry) : bool := is_ge (cmpk (e_key e) key).
  Definition le_key (e : entry) : bool := is_le (cmpk (e_key e) key).

  Lemma lt_not_ge l : Forall (fun e => cmpk (e_key e) key = Lt) l -> Forall (fun e => ge_key e = false) l.
  Proof. apply Forall_impl. intros e H. unfold ge_key. now rewrite H. Qed.
  Lemma gt_ge l : Forall (fun e => cmpk (e_key e) key = Gt) l -> Forall (fun e => ge_key e = true) l.
  Proof. apply Forall_impl. intros e H. unfold ge_key. now rewrite H. Qed.
  Lemma lt_le l : Forall (fun e => cmpk (e_key e) key = Lt) l -> Forall (fun e => le_key e = true) l.
  Proof. apply Forall_impl. intros e H. unfold le_key. now rewrite H. Qed.
  Lemma gt_not_le l : Forall (fun e => cmpk (e_key e) key = Gt) l -> Forall (fun e => le_key e = false) l.
  Proof. apply Forall_impl. intros e H. unfold le_key. now rewrite H. Qed.

  Theorem seek_fwd_drain : seek_iterate true t key = Some (filter ge_key (flat bs)).
  Proof.
    unfold seek_iterate, tseek. destruct block_search_spec as (Hr & Hlo & Hhi).
    set (idx := block_search t key) in *.
    assert (Hfuel : forall l : list entry, (length l <= length (flat bs))%nat -> (length l < S (total_entries t))%nat).
    { intros l Hl. rewrite (total_entries_flat t). fold bs. lia. }
    destruct idx as [|p] eqn:Eidx.
    - (* every block starts after the key *)
      pose proof (later_gt 0 Hhi) as Hall. change (skipn 0 bs) with bs in Hall.
      rewrite <- (app_nil_l (flat bs)) at 1. rewrite filter_pre_suf; [|constructor|now apply gt_ge].
      cbn [app].
      destruct (nth_error bs 0) as [b0|] eqn:E0.
      + pose proof (seek_helper_first 0 b0 E0 (Hhi 0%nat ltac:(apply nth_error_Some in E0 || idtac; assert ((0 < n)%nat) by (apply nth_error_Some; congruence); lia))) as Hat.
        pose proof (flat_split bs 0 b0 E0) as Hfl. change (firstn 0 bs) with (@nil block) in Hfl.
        rewrite flat_nil in Hfl. change (@nil entry ++ ?x) with x in Hfl.
        rewrite (drain_fwd t Hwf _ 0 0 b0 _ Hat); change (skipn 0 (blk_entries b0)) with (blk_entries b0); fold bs.
        * now rewrite Hfl.
        * apply Hfuel. rewrite Hfl. lia.
      + unfold seek_helper. fold bs. rewrite E0. cbn [drain ti_item ti_err].
        apply nth_error_None in E0. destruct bs; [reflexivity | cbn in E0; lia].
    - assert (Hp : (p < n)%nat) by lia.
      destruct (nth_error bs p) as [b|] eqn:Eb; [|apply nth_error_None in Eb; fold n in Eb; lia].
      pose proof (earlier_lt p b Eb (Hlo p ltac:(lia))) as Hpre.
      pose proof (later_gt (S p) Hhi) as Hsuf.
      pose proof (flat_split bs p b Eb) as Hfl.
      destruct (wf_block t Hwf p b Eb) as (Hbw & _ & Hbs).
      destruct (bi_seek_fwd b Hbw Hbs key) as (r & Hrr & Hblo & Hbhi & Hin & Hout).
      assert (Hpre2 : Forall (fun e => ge_key e = false) (firstn r (blk_entries b))).
      { apply Forall_firstn_nth. intros a e Ha Hn. unfold ge_key. rewrite <- (bkey_nth _ _ _ Hn). now apply Hblo. }
      assert (Hsuf2 : Forall (fun e => ge_key e = true) (skipn r (blk_entries b))).
      { apply Forall_skipn_nth. intros a e Ha Hn. unfold ge_key. rewrite <- (bkey_nth _ _ _ Hn). apply Hbhi.
        split; [exact Ha|]. rewrite <- blk_entries_length. apply nth_error_Some. congruence. }
      assert (Hsplit : flat bs = (flat (firstn p bs) ++ firstn r (blk_entries b)) ++
                                 (skipn r (blk_entries b) ++ flat (skipn (S p) bs))).
      { rewrite Hfl at 1. rewrite <- (firstn_skipn r (blk_entries b)) at 1. now rewrite <- !app_assoc. }
      assert (Hfilter : filter ge_key (flat bs) = skipn r (blk_entries b) ++ flat (skipn (S p) bs)).
      { rewrite Hsplit at 1. apply filter_pre_suf.
        - apply Forall_app. split; [now apply lt_not_ge|exact Hpre2].
        - apply Forall_app. split; [exact Hsuf2|now apply gt_ge]. }
      rewrite Hfilter.
      assert (Hsh : seek_helper true t p key =
                    {| ti_pos := Z.of_nat p; ti_bi := Some (bi_seek true (bi_set_block b) key);
                       ti_err := bi_err (bi_seek true (bi_set_block b) key) |}).
      { unfold seek_helper. fold bs. now rewrite Eb. }
      destruct (Nat.eq_dec r (length (b_ents b))) as [Hre|Hrne].
      + (* the block is exhausted: fall through to the next block *)
        destruct (Hout Hre) as (Herr & _). rewrite Hsh. cbn [ti_err]. rewrite Herr. cbn [andb].
        rewrite (skipn_all2 (blk_entries b)) by (rewrite blk_entries_length; lia). cbn [app].
        fold bs. fold n.
        destruct (S p <? n)%nat eqn:Elt.
        * apply Nat.ltb_lt in Elt.
          destruct (nth_error bs (S p)) as [b'|] eqn:Eb'; [|apply nth_error_None in Eb'; fold n in Eb'; lia].
          pose proof (seek_helper_first (S p) b' Eb' (Hhi (S p) ltac:(lia))) as Hat.
          rewrite (drain_fwd t Hwf _ (S p) 0 b' _ Hat); change (skipn 0 (blk_entries b')) with (blk_entries b'); fold bs.
          -- now rewrite (skipn_nth_error _ _ _ Eb'), flat_cons.
          -- apply Hfuel. rewrite Hfl, (skipn_nth_error _ _ _ Eb'), flat_cons, !app_length. lia.
        * apply Nat.ltb_ge in Elt.
          rewrite (skipn_all2 bs) by (fold n; lia). rewrite flat_nil. reflexivity.
      + assert (Hrl : (r < length (b_ents b))%nat) by lia.
        specialize (Hin Hrl).
        assert (He : bi_err (bi_seek true (bi_set_block b) key) = false)
          by (destruct Hin as (? & _ & _ & _ & _ & _ & X & _); exact X).
        assert (Hat : ti_at t p r b (seek_helper true t p key)).
        { rewrite Hsh. split; [exact Eb|]. cbn [ti_pos ti_err ti_bi]. split; [reflexivity|].
          split; [exact He|]. eexists; split; [reflexivity|exact Hin]. }
        replace (ti_err (seek_helper true t p key)) with false by (rewrite Hsh; cbn [ti_err]; now rewrite He).
        cbn [andb].
        rewrite (drain_fwd t Hwf _ p r b _ Hat); fold bs; [reflexivity|].
        apply Hfuel. rewrite Hsplit, !app_length. lia.
  Qed.

  Theorem seek_rev_drain : seek_iterate false t key = Some (rev (filter le_key (flat bs))).
  Proof.
    unfold seek_iterate, tseek. destruct block_search_spec as (Hr & Hlo & Hhi).
    set (idx := block_search t key) in *.
    assert (Hfuel : forall l : list entry, (length l <= length (flat bs))%nat -> (length l < S (total_entries t))%nat).
    { intros l Hl. rewrite (total_entries_flat t). fold bs. lia. }
    destruct idx as [|p] eqn:Eidx.
    - pose proof (later_gt 0 Hhi) as Hall. change (skipn 0 bs) with bs in Hall.
      rewrite <- (app_nil_l (flat bs)). rewrite filter_pre_suf'; [|constructor|now apply gt_not_le].
      reflexivity.
    - assert (Hp : (p < n)%nat) by lia.
      destruct (nth_error bs p) as [b|] eqn:Eb; [|apply nth_error_None in Eb; fold n in Eb; lia].
      pose proof (earlier_lt p b Eb (Hlo p ltac:(lia))) as Hpre.
      pose proof (later_gt (S p) Hhi) as Hsuf.
      pose proof (flat_split bs p b Eb) as Hfl.
      destruct (wf_block t Hwf p b Eb) as (Hbw & _ & Hbs).
      destruct (bi_seek_rev b Hbw Hbs key) as (r & Hrr & Hblo & Hbhi & Hin & Hout).
      pose proof (block_nonempty t Hwf p b Eb) as Hlen.
      destruct r as [|i].
      { exfalso. specialize (Hbhi 0%nat ltac:(lia)).
        destruct (base_is_first p b Eb) as (e0 & He0 & B0). rewrite (bkey_nth _ _ _ He0) in Hbhi.
        specialize (Hlo p ltac:(lia)). unfold pbase in Hlo. rewrite Eb, B0 in Hlo. congruence. }
      specialize (Hin i eq_refl).
      assert (Hpre2 : Forall (fun e => le_key e = true) (firstn (S i) (blk_entries b))).
      { apply Forall_firstn_nth. intros a e Ha Hn. unfold le_key. rewrite <- (bkey_nth _ _ _ Hn).
        specialize (Hblo a Ha). destruct (cmpk (bkey b a) key); cbn in *; congruence. }
      assert (Hsuf2 : Forall (fun e => le_key e = false) (skipn (S i) (blk_entries b))).
      { apply Forall_skipn_nth. intros a e Ha Hn. unfold le_key. rewrite <- (bkey_nth _ _ _ Hn).
        assert (Hg : is_gt (cmpk (bkey b a) key) = true).
        { apply Hbhi. split; [exact Ha|]. rewrite <- blk_entries_length. apply nth_error_Some. congruence. }
        apply is_gt_iff in Hg. now rewrite Hg. }
      assert (Hsplit : flat bs = (flat (firstn p bs) ++ firstn (S i) (blk_entries b)) ++
                                 (skipn (S i) (blk_entries b) ++ flat (skipn (S p) bs))).
      { rewrite Hfl at 1. rewrite <- (firstn_skipn (S i) (blk_entries b)) at 1. now rewrite <- !app_assoc. }
      assert (Hfilter : filter le_key (flat bs) = flat (firstn p bs) ++ firstn (S i) (blk_entries b)).
      { rewrite Hsplit at 1. apply filter_pre_suf'.
        - apply Forall_app. split; [now apply lt_le|exact Hpre2].
        - apply Forall_app. split; [exact Hsuf2|now apply gt_not_le]. }
      rewrite Hfilter, rev_app_distr.
      assert (He : bi_err (bi_seek false (bi_set_block b) key) = false)
        by (destruct Hin as (? & _ & _ & _ & _ & _ & X & _); exact X).
      assert (Hat : ti_at t p i b (seek_helper false t p key)).
      { unfold seek_helper. fold bs. rewrite Eb. split; [exact Eb|]. cbn [ti_pos ti_err ti_bi].
        split; [reflexivity|]. split; [exact He|]. eexists; split; [reflexivity|exact Hin]. }
      rewrite (drain_rev t Hwf _ p i b _ Hat); fold bs; [reflexivity|].
      apply Hfuel. rewrite Hsplit, !app_length, !rev_length. lia.
  Qed.
End Seek.


(** * Bloom filter: no false negatives *)

Lemma upd_nth_length {A} n (f : A -> A) l : length (upd_nth n f l) = length l.
Proof. revert n; induction l as [|x l IH]; intros [|n]; cbn; auto. Qed.

Lemma nth_error_upd_nth_same {A} n (f : A -> A) l x :
  nth_error l n = Some x -> nth_error (upd_nth n f l) n = Some (f x).
Proof. revert n; induction l as [|y l IH]; intros [|n] H; cbn in *; try discriminate; [now inversion H|auto]. Qed.

Lemma nth_error_upd_nth_other {A} n m (f : A -> A) l :
  n <> m -> nth_error (upd_nth n f l) m = nth_error l m.
Proof.
  revert n m; induction l as [|y l IH]; intros [|n] [|m] H; cbn; auto; try congruence.
Qed.

Lemma set_bit_length body p : length (set_bit body p) = length body.
Proof. apply upd_nth_length. Qed.

Lemma testbit_byte_or b j i :
  i < 8 -> N.testbit (b2n (n2b (N.lor (b2n b) (N.shiftl 1 j)))) i = N.testbit (b2n b) i || N.testbit (N.shiftl 1 j) i.
Proof.
  intro Hi. rewrite b2n_n2b_mod. change 256 with (2 ^ 8).
  rewrite N.mod_pow2_bits_low by exact Hi. apply N.lor_spec.
Qed.

Lemma get_bit_set_same body p :
  (N.to_nat (p / 8) < length body)%nat -> get_bit (set_bit body p) p = true.
Proof.
  intro H. unfold get_bit, set_bit.
  destruct (nth_error body (N.to_nat (p / 8))) as [b|] eqn:E; [|apply nth_error_None in E; lia].
  rewrite (nth_error_upd_nth_same _ _ _ _ E).
  assert (Hm : p mod 8 < 8) by (apply N.mod_lt; lia).
  rewrite testbit_byte_or by exact Hm.
  rewrite N.shiftl_spec_high' by lia. rewrite N.sub_diag. cbn. apply orb_true_r.
Qed.

Lemma get_bit_set_mono body p q : get_bit body q = true -> get_bit (set_bit body p) q = true.
Proof.
  unfold get_bit, set_bit. intro H.
  destruct (Nat.eq_dec (N.to_nat (p / 8)) (N.to_nat (q / 8))) as [E|E].
  - destruct (nth_error body (N.to_nat (q / 8))) as [b|] eqn:Eb; [|discriminate].
    rewrite E. rewrite (nth_error_upd_nth_same _ _ _ _ Eb).
    assert (Hm : q mod 8 < 8) by (apply N.mod_lt; lia).
    rewrite testbit_byte_or by exact Hm. now rewrite H.
  - now rewrite nth_error_upd_nth_other.
Qed.

Lemma fold_set_bit_length ps : forall body, length (fold_left set_bit ps body) = length body.
Proof. induction ps as [|p ps IH]; intro body; cbn; [reflexivity|]. now rewrite IH, set_bit_length. Qed.

Lemma fold_set_bit_mono ps : forall body q, get_bit body q = true -> get_bit (fold_left set_bit ps body) q = true.
Proof. induction ps as [|p ps IH]; intros body q H; cbn; [exact H|]. apply IH. now apply get_bit_set_mono. Qed.

Lemma fold_set_bit_sets ps : forall body q,
  In q ps -> (forall x, In x ps -> (N.to_nat (x / 8) < length body)%nat) ->
  get_bit (fold_left set_bit ps body) q = true.
Proof.
  induction ps as [|p ps IH]; intros body q Hin Hb; [destruct Hin|]. cbn [fold_left].
  destruct Hin as [->|Hin].
  - apply fold_set_bit_mono. apply get_bit_set_same. apply Hb. now left.
  - apply IH; [exact Hin|]. intros x Hx. rewrite set_bit_length. apply Hb. now right.
Qed.

Lemma probes_lt k : forall h delta nbits x, 0 < nbits -> In x (probes k h delta nbits) -> x < nbits.
Proof.
  induction k as [|k IH]; intros h delta nbits x Hn Hin; [destruct Hin|].
  cbn [probes] in Hin. destruct Hin as [<-|Hin]; [apply N.mod_lt; lia | eauto].
Qed.

Lemma probes_prefix k1 : forall k2 h delta nbits x,
  (k1 <= k2)%nat -> In x (probes k1 h delta nbits) -> In x (probes k2 h delta nbits).
Proof.
  induction k1 as [|k1 IH]; intros k2 h delta nbits x Hle Hin; [destruct Hin|].
  destruct k2; [lia|]. cbn [probes] in *. destruct Hin as [<-|Hin]; [now left|right]. apply IH; [lia|exact Hin].
Qed.

Lemma insert_hash_length k nbits body h : length (insert_hash k nbits body h) = length body.
Proof. apply fold_set_bit_length. Qed.

Lemma fold_insert_length k nbits hs : forall body, length (fold_left (insert_hash k nbits) hs body) = length body.
Proof. induction hs as [|h hs IH]; intro body; cbn; [reflexivity|]. now rewrite IH, insert_hash_length. Qed.

Lemma fold_insert_mono k nbits hs : forall body q,
  get_bit body q = true -> get_bit (fold_left (insert_hash k nbits) hs body) q = true.
Proof.
  induction hs as [|h hs IH]; intros body q H; cbn; [exact H|]. apply IH. now apply fold_set_bit_mono.
Qed.

Lemma fold_insert_sets k nbits hs : forall body h q,
  0 < nbits -> nbits = 8 * N.of_nat (length body) ->
  In h hs -> In q (probes_of k h nbits) ->
  get_bit (fold_left (insert_hash k nbits) hs body) q = true.
Proof.
  induction hs as [|h0 hs IH]; intros body h q Hn Hb Hin Hq; [destruct Hin|]. cbn [fold_left].
  destruct Hin as [->|Hin].
  - apply fold_insert_mono. unfold insert_hash. apply fold_set_bit_sets; [exact Hq|].
    intros x Hx. apply probes_lt in Hx; [|exact Hn].
    assert (x / 8 < N.of_nat (length body)) by (apply N.div_lt_upper_bound; lia). lia.
  - apply (IH _ h); auto. now rewrite insert_hash_length.
Qed.

Theorem bloom_no_false_negative_lemma hs bpk k h :
  In h hs -> may_contain (build_bloom hs bpk k) h = true.
Proof.
  intro Hin. unfold build_bloom, may_contain.
  set (nbytes := bloom_nbytes (N.of_nat (length hs)) bpk).
  assert (Hnb : 8 <= nbytes).
  { unfold nbytes, bloom_nbytes. apply N.div_le_lower_bound; lia. }
  set (body := fold_left (insert_hash (N.to_nat k) (nbytes * 8)) hs (repeat x00 (N.to_nat nbytes))).
  assert (Hlen : length body = N.to_nat nbytes).
  { unfold body. now rewrite fold_insert_length, repeat_length. }
  assert (Hbl : blen (body ++ [n2b k]) = nbytes + 1).
  { unfold blen. rewrite app_length, Hlen. cbn. lia. }
  rewrite Hbl. replace (nbytes + 1 <? 2) with false by lia.
  rewrite last_last, removelast_last, b2n_n2b_mod.
  destruct (30 <? k mod 256) eqn:Ek; [reflexivity|].
  apply forallb_forall. intros q Hq.
  replace (8 * (nbytes + 1 - 1)) with (nbytes * 8) in Hq by lia.
  unfold body. apply (fold_insert_sets _ _ _ _ h); auto; try lia.
  - rewrite repeat_length. lia.
  - unfold probes_of in *. eapply probes_prefix; [|exact Hq].
    assert (k mod 256 <= k) by (apply N.mod_le; lia). lia.
Qed.

(** * Search *)

Lemma drain_hd asc t fuel it l : drain asc t (S fuel) it = Some l -> ti_item it = hd_error l.
Proof.
  cbn [drain]. destruct (ti_item it) as [e|]; [|intro H; now inversion H].
  destruct (drain asc t fuel (ti_next asc t it)); intro H; inversion H. reflexivity.
Qed.

Lemma hd_filter_in {A} (f : A -> bool) l x : hd_error (filter f l) = Some x -> In x l /\ f x = true.
Proof.
  intro H. assert (Hin : In x (filter f l)) by (destruct (filter f l); inversion H; now left).
  now apply filter_In in Hin.
Qed.

Section Search.
  Variables (t : table) (es : list entry) (wb : bool) (bpk kk : N).
  Hypothesis Hwf : tbl_wf t.
  Hypothesis Hflat : flat (t_blocks t) = es.
  Hypothesis Hbloom : t_bloom t = (if wb then build_bloom (map hash_of es) bpk kk else []).
  Hypothesis Hkeys : keys_ok es.

  Lemma seek_item_fwd key : ti_item (tseek true t key) = spec_seek true es key.
  Proof.
    pose proof (seek_fwd_drain t Hwf key) as H. unfold seek_iterate in H.
    apply drain_hd in H. rewrite H, Hflat. reflexivity.
  Qed.

  Lemma seek_item_rev key : ti_item (tseek false t key) = spec_seek false es key.
  Proof.
    pose proof (seek_rev_drain t Hwf key) as H. unfold seek_iterate in H.
    apply drain_hd in H. rewrite H, Hflat. reflexivity.
  Qed.

  Theorem search_spec key maxvs : search t key maxvs = spec_search_seek es key maxvs.
  Proof.
    unfold search, search_with, spec_search_seek. rewrite seek_item_fwd.
    destruct ((0 <? blen (t_bloom t)) &&
              negb (may_contain (t_bloom t) (hash (if 8 <? blen key then parse_key key else key)))) eqn:Eb;
      [|reflexivity].
    destruct (spec_seek true es key) as [e|] eqn:Es; [|reflexivity].
    destruct (same_key key (e_key e)) eqn:Esk; [|reflexivity]. exfalso.
    apply andb_true_iff in Eb as [Eb1 Eb2]. apply negb_true_iff in Eb2.
    rewrite Hbloom in Eb1, Eb2. destruct wb; [|cbn in Eb1; discriminate].
    unfold spec_seek, spec_from in Es. apply hd_filter_in in Es as [Hin _].
    unfold same_key in Esk. apply andb_true_iff in Esk as [Hl Hp].
    apply bytes_eqb_eq in Hp.
    unfold keys_ok in Hkeys. rewrite Forall_forall in Hkeys. destruct (Hkeys e Hin) as [H8 _].
    replace (8 <? blen key) with true in Eb2 by lia. rewrite Hp in Eb2.
    rewrite (bloom_no_false_negative_lemma (map hash_of es) bpk kk (hash (parse_key (e_key e)))) in Eb2;
      [discriminate|].
    apply in_map_iff. exists e. split; [reflexivity|exact Hin].
  Qed.

  Lemma same_key_refl k : same_key k k = true.
  Proof. unfold same_key. now rewrite N.eqb_refl, bytes_eqb_refl. Qed.

  Lemma spec_seek_stored e : sorted es -> In e es -> spec_seek true es (e_key e) = Some e.
  Proof.
    intros Hs Hin. apply in_split in Hin as (l1 & l2 & ->).
    unfold sorted in Hs. apply ss_app in Hs as (_ & Hs2 & H12).
    unfold spec_seek, spec_from.
    rewrite (filter_pre_suf _ l1 (e :: l2)).
    - reflexivity.
    - apply Forall_forall. intros x Hx. specialize (H12 x e Hx ltac:(now left)). unfold key_lt in H12.
      now rewrite H12.
    - constructor; [now rewrite cmpk_refl|].
      inversion Hs2 as [|? ? _ Hall]; subst. eapply Forall_impl; [|exact Hall].
      intros y Hy. unfold key_lt in Hy. apply cmpk_gt_lt in Hy. now rewrite Hy.
  Qed.

  Theorem search_point e maxvs :
    sorted es -> In e es ->
    search t (e_key e) maxvs = if maxvs <? parse_ts (e_key e) then Some e else None.
  Proof.
    intros Hs Hin. rewrite search_spec. unfold spec_search_seek.
    rewrite (spec_seek_stored e Hs Hin), same_key_refl. reflexivity.
  Qed.
End Search.

(** * Boolean forms *)

Lemma sorted_b_spec es : sorted_b es = true <-> sorted es.
Proof.
  unfold sorted. induction es as [|a tl IH].
  - split; [constructor|reflexivity].
  - cbn [sorted_b]. destruct tl as [|b tl'].
    + split; [intros _; constructor; constructor | reflexivity].
    + rewrite andb_true_iff, IH. split.
      * intros [Hab Hs]. constructor; [exact Hs|].
        assert (Hlt : key_lt a b) by (unfold key_lt; destruct (cmpk (e_key a) (e_key b)); cbn in Hab; congruence).
        constructor; [exact Hlt|]. inversion Hs as [|? ? _ Hall]; subst.
        eapply Forall_impl; [|exact Hall]. intros c Hc. unfold key_lt in *. eauto using cmpk_lt_trans.
      * intro Hs. inversion Hs as [|? ? Hs' Hall]; subst. split; [|exact Hs'].
        inversion Hall as [|? ? Hab _]; subst. unfold key_lt in Hab. now rewrite Hab.
Qed.

Lemma keys_ok_b_spec es : keys_ok_b es = true <-> keys_ok es.
Proof.
  unfold keys_ok_b, keys_ok. rewrite forallb_forall, Forall_forall.
  split; intros H e He; specialize (H e He); unfold key_ok_b, key_ok in *; lia.
Qed.

(** * The theorems of C35, for tables produced by [build] *)

Section Final.
  Variables (bsz : N) (wb : bool) (bpk k : N) (es : list entry) (t : table).
  Hypothesis Hk : keys_ok es.
  Hypothesis Hs : sorted es.
  Hypothesis Hb : build bsz wb bpk k es = Some t.

  Lemma built : tbl_wf t /\ flat (t_blocks t) = es /\
                t_bloom t = (if wb then build_bloom (map hash_of es) bpk k else []).
  Proof.
    destruct (build_ok bsz wb bpk k es Hk Hs) as (t' & Hb' & H). rewrite Hb in Hb'. inversion Hb'. now subst.
  Qed.

  Theorem final_iter : iterate true t = Some (spec_iter true es) /\ iterate false t = Some (spec_iter false es).
  Proof.
    destruct built as (Hw & Hf & _). split.
    - now rewrite (iterate_fwd t Hw), Hf.
    - now rewrite (iterate_rev t Hw), Hf.
  Qed.

  Theorem final_seek_fwd key :
    ti_item (tseek true t key) = spec_seek true es key /\
    seek_iterate true t key = Some (spec_from true es key).
  Proof.
    destruct built as (Hw & Hf & _). split.
    - now apply seek_item_fwd.
    - now rewrite (seek_fwd_drain t Hw), Hf.
  Qed.

  Theorem final_seek_rev key :
    ti_item (tseek false t key) = spec_seek false es key /\
    seek_iterate false t key = Some (spec_from false es key).
  Proof.
    destruct built as (Hw & Hf & _). split.
    - now apply seek_item_rev.
    - now rewrite (seek_rev_drain t Hw), Hf.
  Qed.

  Theorem final_search key maxvs : search t key maxvs = spec_search_seek es key maxvs.
  Proof. destruct built as (Hw & Hf & Hbl). exact (search_spec t es wb bpk k Hw Hf Hbl Hk key maxvs). Qed.

  Theorem final_point e maxvs :
    In e es -> search t (e_key e) maxvs = if maxvs <? parse_ts (e_key e) then Some e else None.
  Proof. destruct built as (Hw & Hf & Hbl). intro Hin. exact (search_point t es wb bpk k Hw Hf Hbl Hk e maxvs Hs Hin). Qed.
End Final.

Theorem build_total bsz wb bpk k es : keys_ok es -> sorted es -> exists t, build bsz wb bpk k es = Some t.
Proof. intros Hk Hs. destruct (build_ok bsz wb bpk k es Hk Hs) as (t & H & _). eauto. Qed.

(** * The code before the repair (F5): forward Seek does not reach the next block *)

Definition f5_val : bytes := repeat x61 20.
Definition f5_key (v : N) : bytes := key_with_ts [x61] v.
Definition f5_entries : list entry :=
  [ {| e_key := f5_key 9; e_vs := {| vs_meta := 0; vs_exp := 0; vs_val := f5_val |} |};
    {| e_key := f5_key 3; e_vs := {| vs_meta := 0; vs_exp := 0; vs_val := f5_val |} |} ].

Theorem seek_orig_refuted :
  exists es key t,
    sorted es /\ keys_ok es /\ build 64 false 0 0 es = Some t /\
    ti_item (tseek_orig true t key) = None /\ spec_seek true es key <> None /\
    search_orig t key 0 = None /\ spec_search es key 0 <> None /\
    (* the repaired code on the same input *)
    ti_item (tseek true t key) = spec_seek true es key /\ search t key 0 = spec_search es key 0.
Proof.
  exists f5_entries, (f5_key 5).
  destruct (build 64 false 0 0 f5_entries) as [t|] eqn:E; [|vm_compute in E; discriminate].
  exists t. split; [apply sorted_b_spec; vm_compute; reflexivity|].
  split; [apply keys_ok_b_spec; vm_compute; reflexivity|].
  split; [reflexivity|].
  vm_compute in E. inversion E; subst t.
  repeat split; vm_compute; congruence.
Qed.

(** the hypotheses of the theorems are satisfiable on a multi-block table *)
Example final_hyps_sat :
  sorted f5_entries /\ keys_ok f5_entries /\
  exists t, build 64 true 10 6 f5_entries = Some t /\ length (t_blocks t) = 2%nat.
Proof.
  split; [apply sorted_b_spec; vm_compute; reflexivity|].
  split; [apply keys_ok_b_spec; vm_compute; reflexivity|].
  eexists; split; [vm_compute; reflexivity | reflexivity].
Qed.

(** Lemmas about Model/SchedLib.v. *)
From Coq Require Import List Arith Lia.
From NoKV Require Import Model.SchedLib.
Import ListNotations.

Lemma nth_error_set_nth_eq {A} (l : list A) n x y :
  nth_error l n = Some y -> nth_error (set_nth n x l) n = Some x.
Proof.
  revert n; induction l as [|z l IH]; intros [|n]; cbn; try discriminate; auto.
Qed.

Lemma nth_error_set_nth_neq {A} (l : list A) n m x :
  n <> m -> nth_error (set_nth n x l) m = nth_error l m.
Proof.
  revert n m; induction l as [|z l IH]; intros [|n] [|m] H; cbn; auto; try congruence.
Qed.

Lemma set_nth_length {A} (l : list A) n x : length (set_nth n x l) = length l.
Proof. revert n; induction l as [|z l IH]; intros [|n]; cbn; auto. Qed.

Lemma find_or_all {A} (P : A -> bool) (l : list A) :
  (exists i x, nth_error l i = Some x /\ P x = true) \/
  (forall i x, nth_error l i = Some x -> P x = false).
Proof.
  induction l as [|a l IH].
  - right. intros [|i] x; discriminate.
  - destruct (P a) eqn:E.
    + left. exists O, a. auto.
    + destruct IH as [(i & x & H1 & H2)|H].
      * left. exists (S i), x. auto.
      * right. intros [|i] x; cbn; [intros [= <-]; exact E | apply H].
Qed.


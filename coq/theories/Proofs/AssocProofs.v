(** Sorted association lists ([Model/Manifest.v]: upsert / lookup / remove_key). *)
From Coq Require Import List NArith Bool Lia.
From NoKV Require Import Model.Manifest.
Import ListNotations.

Section Assoc.
  Context {K V : Type} (ltb eqb : K -> K -> bool).
  Hypothesis eqb_spec : forall a b, eqb a b = true <-> a = b.
  Hypothesis ltb_irrefl : forall a, ltb a a = false.
  Hypothesis ltb_trans : forall a b c, ltb a b = true -> ltb b c = true -> ltb a c = true.
  Hypothesis ltb_total : forall a b, ltb a b = false -> eqb a b = false -> ltb b a = true.

  Lemma eqb_refl a : eqb a a = true.
  Proof. now apply eqb_spec. Qed.

  Lemma eqb_false a b : eqb a b = false <-> a <> b.
  Proof.
    split; [intros H E; apply eqb_spec in E; congruence|].
    intro H. destruct (eqb a b) eqn:E; [apply eqb_spec in E; contradiction|reflexivity].
  Qed.

  (** all keys of [l] are below [k] *)
  Definition below (k : K) (l : list (K * V)) : Prop := Forall (fun kv => ltb (fst kv) k = true) l.
  Definition above (k : K) (l : list (K * V)) : Prop := Forall (fun kv => ltb k (fst kv) = true) l.

  Fixpoint sorted (l : list (K * V)) : Prop :=
    match l with
    | [] => True
    | (k, _) :: l' => above k l' /\ sorted l'
    end.

  Lemma lookup_upsert k k' v (l : list (K * V)) :
    lookup eqb k (upsert ltb eqb k' v l) = if eqb k k' then Some v else lookup eqb k l.
  Proof.
    induction l as [|[k2 v2] l IH]; cbn [upsert lookup].
    - reflexivity.
    - destruct (eqb k' k2) eqn:E1.
      + apply eqb_spec in E1. subst k2. cbn [lookup]. destruct (eqb k k'); reflexivity.
      + destruct (ltb k' k2) eqn:E2; cbn [lookup].
        * reflexivity.
        * rewrite IH. destruct (eqb k k2) eqn:E3; [|reflexivity].
          apply eqb_spec in E3. subst k2. destruct (eqb k k') eqn:E4; [|reflexivity].
          apply eqb_spec in E4. subst k'. rewrite eqb_refl in E1. discriminate.
  Qed.

  Lemma above_upsert k k' v (l : list (K * V)) : above k l -> ltb k k' = true -> above k (upsert ltb eqb k' v l).
  Proof.
    intros Ha Hk. induction l as [|[k2 v2] l IH]; cbn [upsert].
    - constructor; [exact Hk|constructor].
    - inversion Ha as [|? ? H1 H2]; subst.
      destruct (eqb k' k2); [constructor; [exact Hk|exact H2]|].
      destruct (ltb k' k2); [constructor; [exact Hk|exact Ha]|].
      constructor; [exact H1|now apply IH].
  Qed.

  Lemma above_trans k k' (l : list (K * V)) : above k' l -> ltb k k' = true -> above k l.
  Proof.
    intros Ha Hk. unfold above in *. rewrite Forall_forall in *. intros x Hx. eapply ltb_trans; eauto.
  Qed.

  Lemma sorted_upsert k v (l : list (K * V)) : sorted l -> sorted (upsert ltb eqb k v l).
  Proof.
    induction l as [|[k2 v2] l IH]; intro Hs; cbn [upsert].
    - cbn. split; [constructor|exact I].
    - destruct Hs as [Ha Hs].
      destruct (eqb k k2) eqn:E1.
      + apply eqb_spec in E1. subst k2. cbn. auto.
      + destruct (ltb k k2) eqn:E2.
        * cbn. split; [|split; assumption]. constructor; [exact E2|]. eapply above_trans; eauto.
        * cbn. split; [|now apply IH]. apply above_upsert; [exact Ha|]. now apply ltb_total.
  Qed.

  Lemma above_remove k k' (l : list (K * V)) : above k l -> above k (remove_key eqb k' l).
  Proof.
    intro Ha. induction l as [|[k2 v2] l IH]; cbn [remove_key]; [constructor|].
    inversion Ha as [|? ? H1 H2]; subst. destruct (eqb k' k2); [exact H2|]. constructor; [exact H1|apply IH; exact H2].
  Qed.

  Lemma sorted_remove k (l : list (K * V)) : sorted l -> sorted (remove_key eqb k l).
  Proof.
    induction l as [|[k2 v2] l IH]; intro Hs; cbn [remove_key]; [exact I|].
    destruct Hs as [Ha Hs]. destruct (eqb k k2); [exact Hs|]. cbn. split; [now apply above_remove|auto].
  Qed.

  Lemma lookup_above k (l : list (K * V)) : above k l -> lookup eqb k l = None.
  Proof.
    induction l as [|[k2 v2] l IH]; intro Ha; cbn [lookup]; [reflexivity|].
    inversion Ha as [|? ? H1 H2]; subst. cbn [fst] in H1.
    destruct (eqb k k2) eqn:E; [|auto]. apply eqb_spec in E. subst. rewrite ltb_irrefl in H1. discriminate.
  Qed.

  Lemma lookup_remove k k' (l : list (K * V)) :
    sorted l -> lookup eqb k (remove_key eqb k' l) = if eqb k k' then None else lookup eqb k l.
  Proof.
    induction l as [|[k2 v2] l IH]; intro Hs; cbn [remove_key lookup].
    - destruct (eqb k k'); reflexivity.
    - destruct Hs as [Ha Hs]. destruct (eqb k' k2) eqn:E1.
      + apply eqb_spec in E1. subst k2. destruct (eqb k k') eqn:E2; [|reflexivity].
        apply eqb_spec in E2. subst. now apply lookup_above.
      + cbn [lookup]. rewrite IH by exact Hs. destruct (eqb k k2) eqn:E3; [|reflexivity].
        apply eqb_spec in E3. subst k2. destruct (eqb k k') eqn:E4; [|reflexivity].
        apply eqb_spec in E4. subst. rewrite eqb_refl in E1. discriminate.
  Qed.

  (** appending a key above all present keys *)
  Lemma upsert_append k v (l : list (K * V)) : below k l -> upsert ltb eqb k v l = l ++ [(k, v)].
  Proof.
    induction l as [|[k2 v2] l IH]; intro Hb; cbn [upsert app]; [reflexivity|].
    inversion Hb as [|? ? H1 H2]; subst. cbn [fst] in H1.
    destruct (eqb k k2) eqn:E1.
    { apply eqb_spec in E1. subst. rewrite ltb_irrefl in H1. discriminate. }
    destruct (ltb k k2) eqn:E2.
    { pose proof (ltb_trans _ _ _ H1 E2) as F. rewrite ltb_irrefl in F. discriminate. }
    now rewrite IH.
  Qed.

  Lemma upsert_last k v v0 (l : list (K * V)) : below k l -> upsert ltb eqb k v (l ++ [(k, v0)]) = l ++ [(k, v)].
  Proof.
    induction l as [|[k2 v2] l IH]; intro Hb; cbn [upsert app].
    - now rewrite eqb_refl.
    - inversion Hb as [|? ? H1 H2]; subst. cbn [fst] in H1.
      destruct (eqb k k2) eqn:E1.
      { apply eqb_spec in E1. subst. rewrite ltb_irrefl in H1. discriminate. }
      destruct (ltb k k2) eqn:E2.
      { pose proof (ltb_trans _ _ _ H1 E2) as F. rewrite ltb_irrefl in F. discriminate. }
      now rewrite IH.
  Qed.

  Lemma lookup_last k v (l : list (K * V)) : below k l -> lookup eqb k (l ++ [(k, v)]) = Some v.
  Proof.
    induction l as [|[k2 v2] l IH]; intro Hb; cbn [lookup app]; [now rewrite eqb_refl|].
    inversion Hb as [|? ? H1 H2]; subst. cbn [fst] in H1.
    destruct (eqb k k2) eqn:E1; [|auto].
    apply eqb_spec in E1. subst. rewrite ltb_irrefl in H1. discriminate.
  Qed.

  (** re-inserting a present binding changes nothing *)
  Lemma upsert_same k v (l : list (K * V)) : sorted l -> lookup eqb k l = Some v -> upsert ltb eqb k v l = l.
  Proof.
    induction l as [|[k2 v2] l IH]; intros Hs Hl; cbn [upsert lookup] in *; [discriminate|].
    destruct Hs as [Ha Hs]. destruct (eqb k k2) eqn:E1.
    - apply eqb_spec in E1. inversion Hl; subst. reflexivity.
    - destruct (ltb k k2) eqn:E2.
      + assert (F : lookup eqb k l = None).
        { apply lookup_above. eapply above_trans; eauto. }
        congruence.
      + now rewrite IH.
  Qed.

  (** in a sorted list every prefix is below the next key *)
  Lemma sorted_app_below (l1 : list (K * V)) k v (l2 : list (K * V)) : sorted (l1 ++ (k, v) :: l2) -> below k l1.
  Proof.
    induction l1 as [|[k1 v1] l1 IH]; intro Hs; [constructor|].
    cbn [app sorted] in Hs. destruct Hs as [Ha Hs]. constructor.
    - unfold above in Ha. rewrite Forall_forall in Ha. apply (Ha (k, v)). apply in_or_app. right. left. reflexivity.
    - now apply IH.
  Qed.

  Lemma lookup_in k v (l : list (K * V)) : lookup eqb k l = Some v -> In (k, v) l.
  Proof.
    induction l as [|[k2 v2] l IH]; cbn [lookup]; [discriminate|].
    destruct (eqb k k2) eqn:E; intro H.
    - apply eqb_spec in E. inversion H; subst. now left.
    - right. auto.
  Qed.

  Lemma in_lookup k v (l : list (K * V)) : sorted l -> In (k, v) l -> lookup eqb k l = Some v.
  Proof.
    induction l as [|[k2 v2] l IH]; intros Hs Hi; [contradiction|]. destruct Hs as [Ha Hs].
    cbn [lookup]. destruct Hi as [E|Hi].
    - inversion E; subst. now rewrite eqb_refl.
    - destruct (eqb k k2) eqn:E1; [|auto]. apply eqb_spec in E1. subst k2.
      unfold above in Ha. rewrite Forall_forall in Ha. specialize (Ha _ Hi). cbn [fst] in Ha.
      rewrite ltb_irrefl in Ha. discriminate.
  Qed.

  Lemma in_upsert x k v (l : list (K * V)) : In x (upsert ltb eqb k v l) -> x = (k, v) \/ In x l.
  Proof.
    induction l as [|[k2 v2] l IH]; cbn [upsert]; intro H.
    - destruct H as [H|[]]; auto.
    - destruct (eqb k k2); [destruct H as [H|H]; [auto|right; now right]|].
      destruct (ltb k k2); [destruct H as [H|H]; auto|].
      destruct H as [H|H]; [right; now left|]. apply IH in H. destruct H; [auto|right; now right].
  Qed.

  Lemma in_remove x k (l : list (K * V)) : In x (remove_key eqb k l) -> In x l.
  Proof.
    induction l as [|[k2 v2] l IH]; cbn [remove_key]; [auto|].
    destruct (eqb k k2); [intro; now right|]. intros [H|H]; [now left|right; auto].
  Qed.
End Assoc.

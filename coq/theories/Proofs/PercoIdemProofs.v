(** C18: a request applied twice in a row leaves the logical state as after
    the first application (requests with pairwise distinct keys). *)
From Coq Require Import List NArith Bool Lia ZifyN ZifyNat ZifyBool Sorted Relations.
From NoKV Require Import Base.Bytes Model.Percolator Model.KvApply Spec.PercoSpec
  Proofs.PercoProofs Proofs.PercoInvProofs.
Import ListNotations.
Local Open Scope N_scope.

(** states are compared key by key *)
Definition aeq (a b : lstate) : Prop := forall k, ls_at a k = ls_at b k.
Lemma aeq_refl a : aeq a a. Proof. intro; reflexivity. Qed.
Lemma aeq_trans a b c : aeq a b -> aeq b c -> aeq a c.
Proof. intros H1 H2 k. now rewrite H1. Qed.
Lemma aeq_lupd a b k ks : aeq a b -> aeq (lupd a k ks) (lupd b k ks).
Proof. intros H k'. rewrite !ls_at_lupd. destruct (bytes_eqb k' k); [reflexivity | apply H]. Qed.
Lemma aeq_lupd_same a k : aeq (lupd a k (ls_at a k)) a.
Proof. intro k'. rewrite ls_at_lupd. beq k' k; [now subst | reflexivity]. Qed.

(** * One generic key loop *)
Inductive kres := KCont (ks : kstate) | KSkip | KStop.

Section GLoop.
  Context {X : Type}.
  Variable key : X -> bytes.
  Variable step : X -> kstate -> kres.

  Fixpoint gloop (a : lstate) (items : list X) : lstate :=
    match items with
    | [] => a
    | x :: xs =>
        match step x (ls_at a (key x)) with
        | KCont ks' => gloop (lupd a (key x) ks') xs
        | KSkip => gloop a xs
        | KStop => a
        end
    end.

  Lemma gloop_aeq items : forall a b, aeq a b -> aeq (gloop a items) (gloop b items).
  Proof.
    induction items as [|x xs IH]; intros a b H; cbn [gloop]; [exact H|].
    rewrite (H (key x)). destruct (step x (ls_at b (key x))); [apply IH; now apply aeq_lupd | now apply IH | exact H].
  Qed.

  Lemma gloop_untouched items : forall a k, ~ In k (map key items) -> ls_at (gloop a items) k = ls_at a k.
  Proof.
    induction items as [|x xs IH]; intros a k Hn; cbn [gloop]; [reflexivity|].
    cbn [map] in Hn.
    assert (Hne : k <> key x) by (intro E; apply Hn; now left).
    assert (Hn' : ~ In k (map key xs)) by (intro E; apply Hn; now right).
    destruct (step x (ls_at a (key x))); [|now apply IH | reflexivity].
    rewrite (IH _ k Hn'), ls_at_lupd. apply bytes_eqb_neq in Hne. now rewrite Hne.
  Qed.

  Variable P : kstate -> Prop.
  (** a step that continues leaves a state on which it continues without change (or skips);
      skipping and stopping change nothing, so they repeat *)
  Hypothesis step_stable : forall x ks ks', P ks -> step x ks = KCont ks' ->
    P ks' /\ (step x ks' = KCont ks' \/ step x ks' = KSkip).

  Lemma gloop_idem items : forall a,
    NoDup (map key items) -> (forall k, P (ls_at a k)) -> aeq (gloop (gloop a items) items) (gloop a items).
  Proof.
    induction items as [|x xs IH]; intros a Hnd HP; [apply aeq_refl|].
    cbn [map] in Hnd. inversion Hnd as [|? ? Hn Hnd']; subst. cbn [gloop].
    destruct (step x (ls_at a (key x))) as [ks'| |] eqn:Hs.
    - destruct (step_stable _ _ _ (HP (key x)) Hs) as [HP' Hst].
      assert (E0 : ls_at (gloop (lupd a (key x) ks') xs) (key x) = ks').
      { rewrite (gloop_untouched xs _ (key x) Hn). now rewrite ls_at_lupd, bytes_eqb_refl. }
      assert (HP1 : forall k, P (ls_at (lupd a (key x) ks') k)).
      { intro k. rewrite ls_at_lupd. destruct (bytes_eqb k (key x)); [exact HP' | apply HP]. }
      rewrite E0. destruct Hst as [Hst|Hst]; rewrite Hst.
      + eapply aeq_trans; [|apply (IH _ Hnd' HP1)]. apply gloop_aeq.
        intro k. rewrite ls_at_lupd. beq k (key x); [now subst | reflexivity].
      + apply (IH _ Hnd' HP1).
    - rewrite (gloop_untouched xs a (key x) Hn), Hs. now apply IH.
    - now rewrite Hs.
  Qed.
End GLoop.

(** * The four loops are instances *)
Definition commit_step (start cv : N) (k : bytes) (ks : kstate) : kres :=
  if is_nil k then KStop else
  match ks_lock ks with
  | None =>
      match find_start (ks_recs ks) start with
      | Some r => if op_eqb (lr_kind r) OpRollback then KStop else KSkip
      | None => KStop
      end
  | Some l =>
      if l_ts (ll_rec l) =? start then
        match l_commit_key ks k l cv with
        | (ks1, None) => KCont ks1
        | (_, Some _) => KStop
        end
      else KStop
  end.

Lemma l_commit_gloop start cv keys : forall a,
  fst (l_commit a keys start cv) = gloop (fun k => k) (commit_step start cv) a keys.
Proof.
  induction keys as [|k ks IH]; intro a; cbn [l_commit gloop]; [reflexivity|].
  unfold commit_step at 1. destruct (is_nil k); [reflexivity|].
  destruct (ks_lock (ls_at a k)) as [l|].
  - destruct (l_ts (ll_rec l) =? start); [|reflexivity].
    destruct (l_commit_key (ls_at a k) k l cv) as [ks1 [e|]]; [reflexivity | apply IH].
  - destruct (find_start (ks_recs (ls_at a k)) start) as [r|]; [|reflexivity].
    destruct (op_eqb (lr_kind r) OpRollback); [reflexivity | apply IH].
Qed.

Definition rollback_step (start : N) (k : bytes) (ks : kstate) : kres :=
  if is_nil k then KStop else KCont (l_rollback_key ks start).

Lemma l_batch_rollback_gloop start keys : forall a,
  fst (l_batch_rollback a keys start) = gloop (fun k => k) (rollback_step start) a keys.
Proof.
  induction keys as [|k ks IH]; intro a; cbn [l_batch_rollback gloop]; [reflexivity|].
  unfold rollback_step at 1. destruct (is_nil k); [reflexivity | apply IH].
Qed.

Definition resolve_step (start cv : N) (k : bytes) (ks : kstate) : kres :=
  if is_nil k then KSkip else
  match own_lock ks start with
  | Some l =>
      if cv =? 0 then KCont (l_rollback_key ks start)
      else match l_commit_key ks k l cv with
           | (ks1, None) => KCont ks1
           | (_, Some _) => KStop
           end
  | None => KSkip
  end.

Lemma l_resolve_gloop start cv keys : forall a n,
  fst (fst (l_resolve a keys start cv n)) = gloop (fun k => k) (resolve_step start cv) a keys.
Proof.
  induction keys as [|k ks IH]; intros a n; cbn [l_resolve gloop]; [reflexivity|].
  unfold resolve_step at 1. destruct (is_nil k); [apply IH|].
  destruct (own_lock (ls_at a k) start) as [l|]; [|apply IH].
  destruct (cv =? 0); [apply IH|].
  destruct (l_commit_key (ls_at a k) k l cv) as [ks1 [e|]]; [reflexivity | apply IH].
Qed.

(** prewrite: one step per mutation; the loop runs over mutations, so it is stated for them *)
Definition pw_step (primary : bytes) (start ttl mc : N) (m : mutation) (ks : kstate) : kres :=
  if is_nil (m_key m) then KSkip else
  match l_prewrite_key ks primary start ttl mc m with
  | (ks', None) => KCont ks'
  | (_, Some _) => KSkip
  end.

Lemma l_prewrite_gloop primary start ttl mc ms : forall a,
  fst (l_prewrite a primary start ttl mc ms) = gloop m_key (pw_step primary start ttl mc) a ms.
Proof.
  induction ms as [|m ms IH]; intro a; cbn [l_prewrite gloop]; [reflexivity|].
  unfold pw_step at 1. destruct (is_nil (m_key m)).
  - specialize (IH a). destruct (l_prewrite a primary start ttl mc ms). exact IH.
  - destruct (l_prewrite_key (ls_at a (m_key m)) primary start ttl mc m) as [ks1 [e|]].
    + specialize (IH a). destruct (l_prewrite a primary start ttl mc ms). exact IH.
    + specialize (IH (lupd a (m_key m) ks1)).
      destruct (l_prewrite (lupd a (m_key m) ks1) primary start ttl mc ms). exact IH.
Qed.

(** C18: a request applied twice in a row leaves the logical state as after
    the first application (requests with pairwise distinct keys). *)
From Coq Require Import List NArith Bool Lia ZifyN ZifyNat ZifyBool Sorted Relations.
From NoKV Require Import Base.Bytes Model.Percolator Model.KvApply Spec.PercoSpec
  Proofs.PercoProofs Proofs.PercoInvProofs.
Import ListNotations.
Local Open Scope N_scope.

(** states are compared key by key *)
Definition aeq (a b : lstate) : Prop := forall k, ls_at a k = ls_at b k.
Lemma aeq_refl a : aeq a a. Proof. intro; reflexivity. Qed.
Lemma aeq_trans a b c : aeq a b -> aeq b c -> aeq a c.
Proof. intros H1 H2 k. now rewrite H1. Qed.
Lemma aeq_lupd a b k ks : aeq a b -> aeq (lupd a k ks) (lupd b k ks).
Proof. intros H k'. rewrite !ls_at_lupd. destruct (bytes_eqb k' k); [reflexivity | apply H]. Qed.
Lemma aeq_lupd_same a k : aeq (lupd a k (ls_at a k)) a.
Proof. intro k'. rewrite ls_at_lupd. beq k' k; [now subst | reflexivity]. Qed.

(** * One generic key loop *)
Inductive kres := KCont (ks : kstate) | KSkip | KStop.

Section GLoop.
  Context {X : Type}.
  Variable key : X -> bytes.
  Variable step : X -> kstate -> kres.

  Fixpoint gloop (a : lstate) (items : list X) : lstate :=
    match items with
    | [] => a
    | x :: xs =>
        match step x (ls_at a (key x)) with
        | KCont ks' => gloop (lupd a (key x) ks') xs
        | KSkip => gloop a xs
        | KStop => a
        end
    end.

  Lemma gloop_aeq items : forall a b, aeq a b -> aeq (gloop a items) (gloop b items).
  Proof.
    induction items as [|x xs IH]; intros a b H; cbn [gloop]; [exact H|].
    rewrite (H (key x)). destruct (step x (ls_at b (key x))); [apply IH; now apply aeq_lupd | now apply IH | exact H].
  Qed.

  Lemma gloop_untouched items : forall a k, ~ In k (map key items) -> ls_at (gloop a items) k = ls_at a k.
  Proof.
    induction items as [|x xs IH]; intros a k Hn; cbn [gloop]; [reflexivity|].
    cbn [map] in Hn.
    assert (Hne : k <> key x) by (intro E; apply Hn; now left).
    assert (Hn' : ~ In k (map key xs)) by (intro E; apply Hn; now right).
    destruct (step x (ls_at a (key x))); [|now apply IH | reflexivity].
    rewrite (IH _ k Hn'), ls_at_lupd. apply bytes_eqb_neq in Hne. now rewrite Hne.
  Qed.

  Variable P : kstate -> Prop.
  (** a step that continues leaves a state on which it continues without change (or skips);
      skipping and stopping change nothing, so they repeat *)
  Hypothesis step_stable : forall x ks ks', P ks -> step x ks = KCont ks' ->
    P ks' /\ (step x ks' = KCont ks' \/ step x ks' = KSkip).

  Lemma gloop_idem items : forall a,
    NoDup (map key items) -> (forall k, P (ls_at a k)) -> aeq (gloop (gloop a items) items) (gloop a items).
  Proof.
    induction items as [|x xs IH]; intros a Hnd HP; [apply aeq_refl|].
    cbn [map] in Hnd. inversion Hnd as [|? ? Hn Hnd']; subst. cbn [gloop].
    destruct (step x (ls_at a (key x))) as [ks'| |] eqn:Hs.
    - destruct (step_stable _ _ _ (HP (key x)) Hs) as [HP' Hst].
      assert (E0 : ls_at (gloop (lupd a (key x) ks') xs) (key x) = ks').
      { rewrite (gloop_untouched xs _ (key x) Hn). now rewrite ls_at_lupd, bytes_eqb_refl. }
      assert (HP1 : forall k, P (ls_at (lupd a (key x) ks') k)).
      { intro k. rewrite ls_at_lupd. destruct (bytes_eqb k (key x)); [exact HP' | apply HP]. }
      rewrite E0. destruct Hst as [Hst|Hst]; rewrite Hst.
      + eapply aeq_trans; [|apply (IH _ Hnd' HP1)]. apply gloop_aeq.
        intro k. rewrite ls_at_lupd. beq k (key x); [now subst | reflexivity].
      + apply (IH _ Hnd' HP1).
    - rewrite (gloop_untouched xs a (key x) Hn), Hs. now apply IH.
    - now rewrite Hs.
  Qed.
End GLoop.

(** * The four loops are instances *)
Definition commit_step (start cv : N) (k : bytes) (ks : kstate) : kres :=
  if is_nil k then KStop else
  match ks_lock ks with
  | None =>
      match find_start (ks_recs ks) start with
      | Some r => if op_eqb (lr_kind r) OpRollback then KStop else KSkip
      | None => KStop
      end
  | Some l =>
      if l_ts (ll_rec l) =? start then
        match l_commit_key ks k l cv with
        | (ks1, None) => KCont ks1
        | (_, Some _) => KStop
        end
      else KStop
  end.

Lemma l_commit_gloop start cv keys : forall a,
  fst (l_commit a keys start cv) = gloop (fun k => k) (commit_step start cv) a keys.
Proof.
  induction keys as [|k ks IH]; intro a; cbn [l_commit gloop]; [reflexivity|].
  unfold commit_step at 1. destruct (is_nil k); [reflexivity|].
  destruct (ks_lock (ls_at a k)) as [l|].
  - destruct (l_ts (ll_rec l) =? start); [|reflexivity].
    destruct (l_commit_key (ls_at a k) k l cv) as [ks1 [e|]]; [reflexivity | apply IH].
  - destruct (find_start (ks_recs (ls_at a k)) start) as [r|]; [|reflexivity].
    destruct (op_eqb (lr_kind r) OpRollback); [reflexivity | apply IH].
Qed.

Definition rollback_step (start : N) (k : bytes) (ks : kstate) : kres :=
  if is_nil k then KStop else KCont (l_rollback_key ks start).

Lemma l_batch_rollback_gloop start keys : forall a,
  fst (l_batch_rollback a keys start) = gloop (fun k => k) (rollback_step start) a keys.
Proof.
  induction keys as [|k ks IH]; intro a; cbn [l_batch_rollback gloop]; [reflexivity|].
  unfold rollback_step at 1. destruct (is_nil k); [reflexivity | apply IH].
Qed.

Definition resolve_step (start cv : N) (k : bytes) (ks : kstate) : kres :=
  if is_nil k then KSkip else
  match own_lock ks start with
  | Some l =>
      if cv =? 0 then KCont (l_rollback_key ks start)
      else match l_commit_key ks k l cv with
           | (ks1, None) => KCont ks1
           | (_, Some _) => KStop
           end
  | None => KSkip
  end.

Lemma l_resolve_gloop start cv keys : forall a n,
  fst (fst (l_resolve a keys start cv n)) = gloop (fun k => k) (resolve_step start cv) a keys.
Proof.
  induction keys as [|k ks IH]; intros a n; cbn [l_resolve gloop]; [reflexivity|].
  unfold resolve_step at 1. destruct (is_nil k); [apply IH|].
  destruct (own_lock (ls_at a k) start) as [l|]; [|apply IH].
  destruct (cv =? 0); [apply IH|].
  destruct (l_commit_key (ls_at a k) k l cv) as [ks1 [e|]]; [reflexivity | apply IH].
Qed.

(** prewrite: one step per mutation; the loop runs over mutations, so it is stated for them *)
Definition pw_step (primary : bytes) (start ttl mc : N) (m : mutation) (ks : kstate) : kres :=
  if is_nil (m_key m) then KSkip else
  match l_prewrite_key ks primary start ttl mc m with
  | (ks', None) => KCont ks'
  | (_, Some _) => KSkip
  end.

Lemma l_prewrite_gloop primary start ttl mc ms : forall a,
  fst (l_prewrite a primary start ttl mc ms) = gloop m_key (pw_step primary start ttl mc) a ms.
Proof.
  induction ms as [|m ms IH]; intro a; cbn [l_prewrite gloop]; [reflexivity|].
  unfold pw_step at 1. destruct (is_nil (m_key m)).
  - specialize (IH a). destruct (l_prewrite a primary start ttl mc ms). exact IH.
  - destruct (l_prewrite_key (ls_at a (m_key m)) primary start ttl mc m) as [ks1 [e|]].
    + specialize (IH a). destruct (l_prewrite a primary start ttl mc ms). exact IH.
    + specialize (IH (lupd a (m_key m) ks1)).
      destruct (l_prewrite (lupd a (m_key m) ks1) primary start ttl mc ms). exact IH.
Qed.

(** * The steps are stable *)
Lemma find_start_add_rec rs r :
  (forall x, In x rs -> lr_start x <> lr_start r) -> find_start (add_rec rs r) (lr_start r) = Some r.
Proof.
  intro Hn. destruct (find_start (add_rec rs r) (lr_start r)) as [x|] eqn:Hf.
  - apply find_start_some in Hf as [Hin Hs]. apply In_add_rec in Hin as [->|Hin]; [reflexivity|].
    exfalso. now apply (Hn x Hin).
  - exfalso. now apply (find_start_none _ _ r Hf (In_add_rec_new rs r)).
Qed.

Lemma find_start_add_rec_some rs r : find_start (add_rec rs r) (lr_start r) <> None.
Proof. intro Hf. now apply (find_start_none _ _ r Hf (In_add_rec_new rs r)). Qed.

Lemma pw_step_stable primary start ttl mc m ks ks' :
  ks_inv2 ks -> pw_step primary start ttl mc m ks = KCont ks' ->
  ks_inv2 ks' /\ (pw_step primary start ttl mc m ks' = KCont ks' \/ pw_step primary start ttl mc m ks' = KSkip).
Proof.
  intros HJ Hs. unfold pw_step in *. destruct (is_nil (m_key m)); [discriminate|].
  destruct (l_prewrite_key ks primary start ttl mc m) as [ks1 [e|]] eqn:Hp; [discriminate|].
  inversion Hs; subst ks1. split; [eapply ktrans_inv2; [econstructor; exact Hp | exact HJ]|].
  left. pose proof Hp as Hp0. apply prewrite_key_success in Hp as (Hbelow & Hop & _ & Hrecs & l' & Hl' & Hts & Hkind).
  unfold l_prewrite_key in *. unfold foreign_lock in *. rewrite Hl'.
  assert (E : (l_ts (ll_rec l') =? start) = true) by lia. rewrite E, Hrecs.
  (* the first run passed the conflict check on the same records *)
  destruct (match ks_lock ks with Some l => if l_ts (ll_rec l) =? start then None else Some l | None => None end); [discriminate|].
  destruct (match newest_any (ks_recs ks) with Some r => if start <=? lr_ts r then Some r else None | None => None end); [discriminate|].
  destruct (m_op m); inversion Hp0; subst ks'; cbn [ks_recs]; reflexivity.
Qed.

Lemma commit_key_success_stable ks k l cv ks1 :
  ks_inv2 ks -> ks_lock ks = Some l -> l_commit_key ks k l cv = (ks1, None) ->
  (ks1 = ks) \/
  (ks_lock ks1 = None /\ exists r, find_start (ks_recs ks1) (l_ts (ll_rec l)) = Some r /\ lr_kind r <> OpRollback).
Proof.
  intros HJ Hl Hc. unfold l_commit_key in Hc. destruct (cv <? l_min_commit (ll_rec l)); [discriminate|].
  destruct (find_start (ks_recs ks) (l_ts (ll_rec l))) as [r0|] eqn:Hf.
  - destruct (op_eqb (lr_kind r0) OpRollback) eqn:Hk; [discriminate|].
    inversion Hc; subst ks1.
    right. split; [reflexivity|]. exists r0. cbn [ks_recs]. split; [exact Hf|]. intro E. rewrite E in Hk. discriminate.
  - inversion Hc; subst ks1. right. split; [reflexivity|]. cbn [ks_recs].
    set (nr := {| lr_ts := cv; lr_kind := l_kind (ll_rec l); lr_start := l_ts (ll_rec l); lr_val := ll_val l |}).
    exists nr. split; [|apply (J_lock_kind _ HJ l Hl)].
    apply (find_start_add_rec (ks_recs ks) nr). intros x Hx. now apply (find_start_none _ _ x Hf Hx).
Qed.

Lemma commit_step_stable start cv k ks ks' :
  start <= cv -> ks_inv2 ks -> commit_step start cv k ks = KCont ks' ->
  ks_inv2 ks' /\ (commit_step start cv k ks' = KCont ks' \/ commit_step start cv k ks' = KSkip).
Proof.
  intros Hle HJ Hs. unfold commit_step in Hs. destruct (is_nil k) eqn:Hk; [discriminate|].
  destruct (ks_lock ks) as [l|] eqn:Hl.
  2: { destruct (find_start (ks_recs ks) start) as [r|]; [|discriminate].
       destruct (op_eqb (lr_kind r) OpRollback); discriminate. }
  destruct (l_ts (ll_rec l) =? start) eqn:Hts; [|discriminate].
  destruct (l_commit_key ks k l cv) as [ks1 [e|]] eqn:Hc; [discriminate|]. inversion Hs; subst ks1.
  split; [eapply ktrans_inv2; [eapply (KT_commit _ k l cv); [exact Hl | lia | exact Hc] | exact HJ]|].
  destruct (commit_key_success_stable ks k l cv ks' HJ Hl Hc) as [->|(Hn & r & Hf & Hkind)].
  - left. unfold commit_step. now rewrite Hk, Hl, Hts, Hc.
  - right. unfold commit_step. rewrite Hk, Hn. assert (start = l_ts (ll_rec l)) by lia. subst start.
    rewrite Hf. destruct (lr_kind r); try contradiction; reflexivity.
Qed.

Lemma rollback_key_idem ks start : l_rollback_key (l_rollback_key ks start) start = l_rollback_key ks start.
Proof.
  unfold l_rollback_key. destruct (find_start (ks_recs ks) start) as [r|] eqn:Hf.
  - now rewrite Hf.
  - cbn [ks_recs].
    set (nr := {| lr_ts := start; lr_kind := OpRollback; lr_start := start; lr_val := [] |}).
    destruct (find_start (add_rec (ks_recs ks) nr) start) eqn:Hf2; [reflexivity|].
    exfalso. now apply (find_start_add_rec_some (ks_recs ks) nr).
Qed.

Lemma rollback_step_stable start k ks ks' :
  ks_inv2 ks -> rollback_step start k ks = KCont ks' ->
  ks_inv2 ks' /\ (rollback_step start k ks' = KCont ks' \/ rollback_step start k ks' = KSkip).
Proof.
  intros HJ Hs. unfold rollback_step in *. destruct (is_nil k); [discriminate|]. inversion Hs; subst ks'.
  split; [eapply ktrans_inv2; [constructor | exact HJ]|]. left. now rewrite rollback_key_idem.
Qed.

Lemma rollback_key_unlocks ks start l :
  ks_inv2 ks -> ks_lock ks = Some l -> l_ts (ll_rec l) = start ->
  own_lock (l_rollback_key ks start) start = None.
Proof.
  intros HJ Hl Hts. unfold l_rollback_key.
  destruct (find_start (ks_recs ks) start) as [r|] eqn:Hf.
  - exfalso. apply find_start_some in Hf as [H1 H2]. apply (J_lock_fresh _ HJ l r Hl H1). congruence.
  - unfold own_lock at 1. cbn [ks_lock]. unfold own_lock. rewrite Hl.
    assert (E : (l_ts (ll_rec l) =? start) = true) by lia. now rewrite E.
Qed.

Lemma resolve_step_stable start cv k ks ks' :
  (cv = 0 \/ start <= cv) -> ks_inv2 ks -> resolve_step start cv k ks = KCont ks' ->
  ks_inv2 ks' /\ (resolve_step start cv k ks' = KCont ks' \/ resolve_step start cv k ks' = KSkip).
Proof.
  intros Hle HJ Hs. unfold resolve_step in Hs. destruct (is_nil k) eqn:Hk; [discriminate|].
  destruct (own_lock ks start) as [l|] eqn:Ho; [|discriminate].
  assert (Hl : ks_lock ks = Some l /\ l_ts (ll_rec l) = start).
  { unfold own_lock in Ho. destruct (ks_lock ks) as [l0|]; [|discriminate].
    destruct (l_ts (ll_rec l0) =? start) eqn:E; [|discriminate]. inversion Ho; subst. split; [reflexivity | lia]. }
  destruct Hl as [Hl Hts]. destruct (cv =? 0) eqn:Hcv.
  - inversion Hs; subst ks'. split; [eapply ktrans_inv2; [constructor | exact HJ]|].
    right. unfold resolve_step. now rewrite Hk, (rollback_key_unlocks ks start l HJ Hl Hts).
  - destruct (l_commit_key ks k l cv) as [ks1 [e|]] eqn:Hc; [discriminate|]. inversion Hs; subst ks1.
    split; [eapply ktrans_inv2; [eapply (KT_commit _ k l cv); [exact Hl | lia | exact Hc] | exact HJ]|].
    destruct (commit_key_success_stable ks k l cv ks' HJ Hl Hc) as [->|(Hn & _)].
    + left. unfold resolve_step. now rewrite Hk, Ho, Hcv, Hc.
    + right. unfold resolve_step, own_lock. now rewrite Hk, Hn.
Qed.

(** * A request applied twice *)
Definition req_nodup (r : request) : Prop :=
  match r with
  | RPrewrite ms _ _ _ _ => NoDup (map m_key ms)
  | RCommit keys _ _ | RRollback keys _ | RResolve keys _ _ => NoDup keys
  | _ => True
  end.

Lemma map_id {A} (l : list A) : map (fun k => k) l = l.
Proof. induction l; cbn; congruence. Qed.

Lemma l_check_idem a primary lts cur caller rb :
  Inv2 a ->
  aeq (fst (l_check (fst (l_check a primary lts cur caller rb)) primary lts cur caller rb))
      (fst (l_check a primary lts cur caller rb)).
Proof.
  intro HJ. unfold l_check at 2 3.
  destruct (ks_lock (ls_at a primary)) as [l|] eqn:Hl.
  - destruct (negb (l_ts (ll_rec l) =? lts)) eqn:Hts.
    { cbn [fst]. unfold l_check. rewrite Hl, Hts. apply aeq_refl. }
    apply negb_false_iff in Hts.
    assert (Hfn : find_start (ks_recs (ls_at a primary)) lts = None).
    { destruct (find_start (ks_recs (ls_at a primary)) lts) as [r|] eqn:Hf0; [|reflexivity].
      exfalso. apply find_start_some in Hf0 as [H1 H2]. apply (J_lock_fresh _ (HJ primary) l r Hl H1). lia. }
    rewrite Hfn.
    destruct (lock_expired (ll_rec l) cur) eqn:Hexp.
    + cbn [fst]. unfold l_check. rewrite ls_at_lupd, bytes_eqb_refl.
      pose proof (rollback_key_unlocks _ lts l (HJ primary) Hl ltac:(lia)) as Hu.
      unfold l_rollback_key in *. destruct (find_start (ks_recs (ls_at a primary)) lts) as [r|] eqn:Hf.
      * exfalso. apply find_start_some in Hf as [H1 H2]. apply (J_lock_fresh _ (HJ primary) l r Hl H1). lia.
      * cbn [ks_lock ks_recs] in *. unfold own_lock in Hu |- *. rewrite Hl in *.
        assert (E : (l_ts (ll_rec l) =? lts) = true) by lia. rewrite E in *. cbn [ks_lock].
        set (nr := {| lr_ts := lts; lr_kind := OpRollback; lr_start := lts; lr_val := [] |}).
        assert (Hfa : find_start (add_rec (ks_recs (ls_at a primary)) nr) lts = Some nr)
          by (apply (find_start_add_rec (ks_recs (ls_at a primary)) nr); intros x Hx; now apply (find_start_none _ _ x Hf Hx)).
        rewrite Hfa.
        cbn. apply aeq_refl.
    + destruct ((0 <? caller) && (l_min_commit (ll_rec l) <? wrap64 (caller + 1))) eqn:Hp.
      * cbn [fst]. unfold l_check. rewrite ls_at_lupd, bytes_eqb_refl. cbn [ks_lock ks_recs ll_rec l_ts].
        rewrite Hts. cbn [negb]. rewrite Hfn. unfold lock_expired in *. cbn [l_ttl l_ts l_min_commit]. rewrite Hexp.
        assert (E : (0 <? caller) && (wrap64 (caller + 1) <? wrap64 (caller + 1)) = false) by lia. rewrite E.
        apply aeq_refl.
      * cbn [fst]. unfold l_check. rewrite Hl, Hts. cbn [negb]. rewrite Hfn, Hexp, Hp. apply aeq_refl.
  - destruct (find_start (ks_recs (ls_at a primary)) lts) as [r|] eqn:Hf.
    + assert (E : fst (if op_eqb (lr_kind r) OpRollback then (a, cr_ok ActLockNotExistRollback 0 0) else (a, cr_ok ActNone 0 (lr_ts r))) = a)
        by (destruct (op_eqb (lr_kind r) OpRollback); reflexivity).
      rewrite E. unfold l_check. rewrite Hl, Hf. rewrite E. apply aeq_refl.
    + destruct rb.
      * cbn [fst]. unfold l_check. rewrite ls_at_lupd, bytes_eqb_refl. unfold l_rollback_key. rewrite Hf.
        cbn [ks_lock ks_recs]. unfold own_lock. rewrite Hl.
        set (nr := {| lr_ts := lts; lr_kind := OpRollback; lr_start := lts; lr_val := [] |}).
        assert (Hfa : find_start (add_rec (ks_recs (ls_at a primary)) nr) lts = Some nr)
          by (apply (find_start_add_rec (ks_recs (ls_at a primary)) nr); intros x Hx; now apply (find_start_none _ _ x Hf Hx)).
        rewrite Hfa.
        cbn. apply aeq_refl.
      * cbn [fst]. unfold l_check. rewrite Hl, Hf. apply aeq_refl.
Qed.

Theorem lstep_idem a r :
  req_ok r = true -> req_nodup r -> Inv2 a ->
  aeq (fst (lstep (fst (lstep a r)) r)) (fst (lstep a r)).
Proof.
  intros Hok Hnd HJ. destruct r; cbn [req_nodup req_ok] in *.
  - assert (E : forall a0, fst (lstep a0 (RPrewrite muts primary start ttl min_commit)) =
                          gloop m_key (pw_step primary start ttl min_commit) a0 muts).
    { intro a0. cbn [lstep]. rewrite <- l_prewrite_gloop. now destruct (l_prewrite a0 primary start ttl min_commit muts). }
    rewrite !E. apply (gloop_idem m_key _ ks_inv2); [|exact Hnd | exact HJ].
    intros x ks ks'. apply pw_step_stable.
  - apply andb_true_iff in Hok as [_ Hlt].
    assert (E : forall a0, fst (lstep a0 (RCommit keys start commit_version)) =
                          gloop (fun k => k) (commit_step start commit_version) a0 keys).
    { intro a0. cbn [lstep]. rewrite <- l_commit_gloop. now destruct (l_commit a0 keys start commit_version). }
    rewrite !E. apply (gloop_idem _ _ ks_inv2); [|now rewrite map_id | exact HJ].
    intros x ks ks'. apply commit_step_stable. lia.
  - assert (E : forall a0, fst (lstep a0 (RRollback keys start)) = gloop (fun k => k) (rollback_step start) a0 keys).
    { intro a0. cbn [lstep]. rewrite <- l_batch_rollback_gloop. now destruct (l_batch_rollback a0 keys start). }
    rewrite !E. apply (gloop_idem _ _ ks_inv2); [|now rewrite map_id | exact HJ].
    intros x ks ks'. apply rollback_step_stable.
  - apply andb_true_iff in Hok as [_ Hlt].
    assert (E : forall a0, fst (lstep a0 (RResolve keys start commit_version)) =
                          gloop (fun k => k) (resolve_step start commit_version) a0 keys).
    { intro a0. cbn [lstep]. rewrite <- (l_resolve_gloop start commit_version keys a0 0).
      now destruct (l_resolve a0 keys start commit_version 0) as [[a1 n] e]. }
    rewrite !E. apply (gloop_idem _ _ ks_inv2); [|now rewrite map_id | exact HJ].
    intros x ks ks'. apply resolve_step_stable. lia.
  - cbn [lstep].
    pose proof (l_check_idem a primary lock_ts current_ts caller_start rollback_if_not_exist HJ) as H.
    destruct (l_check a primary lock_ts current_ts caller_start rollback_if_not_exist) as [a1 r1]. cbn [fst] in *.
    destruct (l_check a1 primary lock_ts current_ts caller_start rollback_if_not_exist). exact H.
  - apply aeq_refl.
  - cbn [lstep]. destruct (lscan a start_key include_start limit version). cbn [fst].
    destruct (lscan a start_key include_start limit version). apply aeq_refl.
Qed.

(** * Observations after a repeated request *)
Lemma lget_aeq a b k t : aeq a b -> lget a k t = lget b k t.
Proof. intro H. unfold lget. now rewrite (H k). Qed.

Theorem repeat_changes_nothing h r k t :
  forallb req_ok (h ++ [r]) = true -> req_nodup r ->
  handle_get current (apply_all current (h ++ [r; r])) k t = handle_get current (apply_all current (h ++ [r])) k t /\
  get_lock (apply_all current (h ++ [r; r])) k = get_lock (apply_all current (h ++ [r])) k.
Proof.
  intros Hok Hnd.
  assert (Hok2 : forallb req_ok (h ++ [r; r]) = true).
  { rewrite forallb_app in *. apply andb_true_iff in Hok as [H1 H2]. cbn in *. rewrite H1.
    apply andb_true_iff in H2 as [H2 _]. now rewrite H2. }
  assert (Hr : req_ok r = true).
  { rewrite forallb_app in Hok. apply andb_true_iff in Hok as [_ H2]. cbn in H2. now apply andb_true_iff in H2 as [H2 _]. }
  assert (Hh : forallb req_ok h = true) by (rewrite forallb_app in Hok; now apply andb_true_iff in Hok as [H1 _]).
  pose proof (lstep_idem (lrun h) r Hr Hnd (lrun_inv2 h Hh)) as Hid.
  assert (E1 : lrun (h ++ [r]) = fst (lstep (lrun h) r)) by (rewrite lrun_app; reflexivity).
  assert (E2 : lrun (h ++ [r; r]) = fst (lstep (fst (lstep (lrun h) r)) r)) by (rewrite lrun_app; reflexivity).
  split.
  - rewrite (get_refines _ k t Hok2), (get_refines _ k t Hok), E1, E2. now apply lget_aeq.
  - rewrite (lock_refines _ k Hok2), (lock_refines _ k Hok), E1, E2. now rewrite (Hid k).
Qed.

(** re-applying an older part of the log is *not* harmless: a re-applied
    prewrite resets the MinCommitTs a reader had pushed *)
Definition wit_reapply : list request :=
  [RPrewrite [{| m_op := OpPut; m_key := B1 97; m_val := B1 1 |}] (B1 97) 10 100 0; RCheck (B1 97) 10 20 50 false].
Lemma reapply_prefix_refuted :
  forallb req_ok (wit_reapply ++ firstn 1 wit_reapply) = true /\
  option_map l_min_commit (get_lock (apply_all current wit_reapply) (B1 97)) = Some 51 /\
  option_map l_min_commit (get_lock (apply_all current (wit_reapply ++ firstn 1 wit_reapply)) (B1 97)) = Some 0.
Proof. vm_compute. repeat split. Qed.

Example repeat_nonvacuous :
  forallb req_ok (wit_f18 ++ [RCommit [B1 97] 10 20]) = true /\ req_nodup (RCommit [B1 97] 10 20).
Proof. split; [reflexivity|]. cbn. repeat constructor. intros []. Qed.

(** Proofs for C26. *)
From Coq Require Import List NArith Bool Lia ZifyN ZifyBool Permutation Sorted String.
From NoKV Require Import Base.Bytes Model.Pd Spec.PdSpec.
Import ListNotations.
Local Open Scope N_scope.

(** * Byte order helpers *)

Lemma eqb_nil k : bytes_eqb k [] = true <-> k = [].
Proof. apply bytes_eqb_eq. Qed.

Lemma ltb_asym a b : bytes_ltb a b = true -> bytes_ltb b a = false.
Proof.
  intros H. destruct (bytes_ltb b a) eqn:E; [|reflexivity].
  pose proof (bytes_ltb_trans _ _ _ H E) as H1. now rewrite bytes_ltb_irrefl in H1.
Qed.

Lemma ltb_leb a b : bytes_ltb a b = true -> bytes_leb a b = true.
Proof. intros H. rewrite bytes_leb_ltb. now rewrite (ltb_asym _ _ H). Qed.

Lemma not_ltb_leb a b : bytes_ltb a b = false -> bytes_leb b a = true.
Proof. intros H. rewrite bytes_leb_ltb. now rewrite H. Qed.

Lemma leb_not_ltb a b : bytes_leb a b = true -> bytes_ltb b a = false.
Proof. rewrite bytes_leb_ltb. now destruct (bytes_ltb b a). Qed.

(** * Specification oracles *)

Lemma contains_b_spec r k : contains_b r k = true <-> contains r k.
Proof. unfold contains_b, contains. rewrite andb_true_iff, orb_true_iff, eqb_nil. tauto. Qed.

Lemma wf_range_b_spec r : wf_range_b r = true <-> wf_range r.
Proof. unfold wf_range_b, wf_range. rewrite orb_true_iff, eqb_nil. tauto. Qed.

Lemma range_invalid_spec m : range_invalid m = false <-> wf_range m.
Proof.
  unfold range_invalid. rewrite <- wf_range_b_spec. unfold wf_range_b.
  destruct (bytes_eqb (g_end m) []); destruct (bytes_ltb (g_start m) (g_end m)); cbn; split; congruence.
Qed.

Lemma epoch_stale_spec m cur : epoch_stale m cur = true <-> stale m cur.
Proof. unfold epoch_stale, stale. lia. Qed.

Lemma stale_b_spec m cur : stale_b m cur = true <-> stale m cur.
Proof. apply epoch_stale_spec. Qed.

(** * Overlap *)

Lemma ranges_overlap_sym a b : ranges_overlap a b = ranges_overlap b a.
Proof.
  unfold ranges_overlap.
  destruct (negb (bytes_eqb (g_end a) []) && bytes_leb (g_end a) (g_start b));
  destruct (negb (bytes_eqb (g_end b) []) && bytes_leb (g_end b) (g_start a)); reflexivity.
Qed.

Lemma disjoint_sym a b : disjoint a b -> disjoint b a.
Proof. intros H k [H1 H2]. apply (H k). now split. Qed.

Lemma before_disjoint a b :
  g_end a <> [] -> bytes_leb (g_end a) (g_start b) = true -> disjoint a b.
Proof.
  intros Hne Hle k [[_ [Ha|Ha]] [Hb _]]; [contradiction|].
  pose proof (bytes_ltb_leb_trans _ _ _ Ha Hle) as H1.
  pose proof (bytes_ltb_leb_trans _ _ _ H1 Hb) as H2.
  now rewrite bytes_ltb_irrefl in H2.
Qed.

Lemma overlap_false_disjoint a b : ranges_overlap a b = false -> disjoint a b.
Proof.
  unfold ranges_overlap. intros H.
  destruct (negb (bytes_eqb (g_end a) []) && bytes_leb (g_end a) (g_start b)) eqn:E1.
  - apply andb_true_iff in E1 as [E1 E2]. apply negb_true_iff in E1.
    apply before_disjoint; [|exact E2]. intros Hn. apply eqb_nil in Hn. congruence.
  - destruct (negb (bytes_eqb (g_end b) []) && bytes_leb (g_end b) (g_start a)) eqn:E2; [|discriminate].
    apply andb_true_iff in E2 as [E2 E3]. apply negb_true_iff in E2.
    apply disjoint_sym. apply before_disjoint; [|exact E3]. intros Hn. apply eqb_nil in Hn. congruence.
Qed.

Lemma overlap_true_ends a b :
  ranges_overlap a b = true ->
  (g_end a = [] \/ bytes_ltb (g_start b) (g_end a) = true) /\
  (g_end b = [] \/ bytes_ltb (g_start a) (g_end b) = true).
Proof.
  unfold ranges_overlap. intros H.
  destruct (bytes_eqb (g_end a) []) eqn:Ea; destruct (bytes_eqb (g_end b) []) eqn:Eb;
    cbn [negb andb] in H.
  - apply eqb_nil in Ea, Eb. auto.
  - apply eqb_nil in Ea. split; [auto|]. right.
    rewrite bytes_leb_ltb in H. destruct (bytes_ltb (g_start a) (g_end b)); [reflexivity|discriminate].
  - apply eqb_nil in Eb. split; [|auto]. right.
    rewrite bytes_leb_ltb in H. destruct (bytes_ltb (g_start b) (g_end a)); [reflexivity|discriminate].
  - rewrite !bytes_leb_ltb in H.
    destruct (bytes_ltb (g_start b) (g_end a)); cbn [negb] in H; [|discriminate].
    destruct (bytes_ltb (g_start a) (g_end b)); cbn [negb] in H; [|discriminate]. auto.
Qed.

Lemma overlap_true_intersect a b :
  wf_range a -> wf_range b -> ranges_overlap a b = true -> intersect a b.
Proof.
  intros Wa Wb H. apply overlap_true_ends in H as [Ha Hb].
  destruct (bytes_ltb (g_start a) (g_start b)) eqn:E.
  - exists (g_start b). split; split.
    + now apply ltb_leb.
    + exact Ha.
    + apply bytes_leb_refl.
    + exact Wb.
  - exists (g_start a). split; split.
    + apply bytes_leb_refl.
    + exact Wa.
    + now apply not_ltb_leb.
    + exact Hb.
Qed.

Lemma intersect_overlap a b : intersect a b -> ranges_overlap a b = true.
Proof.
  intros [k Hk]. destruct (ranges_overlap a b) eqn:E; [reflexivity|].
  exfalso. exact (overlap_false_disjoint a b E k Hk).
Qed.

Lemma overlap_iff a b : wf_range a -> wf_range b -> (ranges_overlap a b = true <-> intersect a b).
Proof. intros Wa Wb. split; [now apply overlap_true_intersect | apply intersect_overlap]. Qed.

Lemma disjoint_not_intersect a b : disjoint a b <-> ~ intersect a b.
Proof.
  split.
  - intros H [k Hk]. exact (H k Hk).
  - intros H k Hk. apply H. now exists k.
Qed.

Lemma overlap_false_iff a b :
  wf_range a -> wf_range b -> (ranges_overlap a b = false <-> disjoint a b).
Proof.
  intros Wa Wb. split; [apply overlap_false_disjoint|].
  intros H. destruct (ranges_overlap a b) eqn:E; [|reflexivity].
  exfalso. apply disjoint_not_intersect in H. apply H. now apply overlap_true_intersect.
Qed.

(** The oracle [intersect_b] decides intersection of non-empty ranges. *)
Lemma intersect_b_spec a b : wf_range a -> wf_range b -> (intersect_b a b = true <-> intersect a b).
Proof.
  intros Wa Wb. unfold intersect_b. split.
  - intros H. apply andb_true_iff in H as [H1 H2].
    apply contains_b_spec in H1. apply contains_b_spec in H2. eexists. split; eassumption.
  - intros H. apply intersect_overlap in H. apply overlap_true_ends in H as [Ha Hb].
    destruct (bytes_ltb (g_start a) (g_start b)) eqn:E; apply andb_true_iff; split; apply contains_b_spec; split.
    + now apply ltb_leb.
    + exact Ha.
    + apply bytes_leb_refl.
    + exact Wb.
    + apply bytes_leb_refl.
    + exact Wa.
    + now apply not_ltb_leb.
    + exact Hb.
Qed.

(** * Association lists *)

Lemma find_in id c r : find id c = Some r -> In r c /\ g_id r = id.
Proof.
  induction c as [|x c IH]; cbn [find]; [discriminate|].
  destruct (N.eqb_spec (g_id x) id) as [E|E].
  - intros H. inversion H; subst. split; [now left | reflexivity].
  - intros H. destruct (IH H) as [H1 H2]. split; [now right | exact H2].
Qed.

Lemma find_none id c : find id c = None -> forall r, In r c -> g_id r <> id.
Proof.
  induction c as [|x c IH]; cbn [find]; [intros _ r []|].
  destruct (N.eqb_spec (g_id x) id) as [E|E]; [discriminate|].
  intros H r [->|Hin]; [exact E | now apply IH].
Qed.

Lemma in_find c r : NoDup (map g_id c) -> In r c -> find (g_id r) c = Some r.
Proof.
  induction c as [|x c IH]; cbn [map find]; [intros _ []|].
  intros Hnd [->|Hin].
  - now rewrite N.eqb_refl.
  - inversion Hnd as [|? ? Hnotin Hnd']; subst.
    destruct (N.eqb_spec (g_id x) (g_id r)) as [E|E].
    + exfalso. apply Hnotin. rewrite E. now apply in_map.
    + now apply IH.
Qed.

Lemma nodup_same_id c a b :
  NoDup (map g_id c) -> In a c -> In b c -> g_id a = g_id b -> a = b.
Proof.
  intros Hnd Ha Hb E. pose proof (in_find c a Hnd Ha) as H1. pose proof (in_find c b Hnd Hb) as H2.
  rewrite E in H1. congruence.
Qed.

Lemma in_remove_id x id c : In x (remove_id id c) <-> In x c /\ g_id x <> id.
Proof.
  unfold remove_id. rewrite filter_In, negb_true_iff, N.eqb_neq. tauto.
Qed.

Lemma remove_id_absent id c : (forall r, In r c -> g_id r <> id) -> remove_id id c = c.
Proof.
  induction c as [|x c IH]; [reflexivity|]. intros H. cbn [remove_id filter].
  destruct (N.eqb_spec (g_id x) id) as [E|E].
  - exfalso. apply (H x); [now left | exact E].
  - cbn [negb]. f_equal. apply IH. intros r Hr. apply H. now right.
Qed.

Lemma nodup_remove_id id c : NoDup (map g_id c) -> NoDup (map g_id (remove_id id c)).
Proof.
  induction c as [|x c IH]; [intros; constructor|].
  cbn [map remove_id filter]. intros Hnd. inversion Hnd as [|? ? Hnotin Hnd']; subst.
  destruct (negb (g_id x =? id)); [|now apply IH].
  cbn [map]. constructor; [|now apply IH].
  intros Hin. apply Hnotin. apply in_map_iff in Hin as [y [Hy1 Hy2]].
  apply in_remove_id in Hy2 as [Hy2 _]. apply in_map_iff. now exists y.
Qed.

Lemma find_overlap_false c m :
  find_overlap c m = false <->
  forall r, In r c -> g_id r <> g_id m -> ranges_overlap m r = false.
Proof.
  unfold find_overlap. split.
  - intros H r Hin Hne.
    destruct (ranges_overlap m r) eqn:E; [|reflexivity].
    assert (Hex : existsb (fun r => negb (g_id r =? g_id m) && ranges_overlap m r) c = true).
    { apply existsb_exists. exists r. split; [exact Hin|].
      apply andb_true_iff. split; [|exact E]. apply negb_true_iff. now apply N.eqb_neq. }
    congruence.
  - intros H. destruct (existsb _ c) eqn:E; [|reflexivity].
    apply existsb_exists in E as [r [Hin Hr]]. apply andb_true_iff in Hr as [Hr1 Hr2].
    apply negb_true_iff, N.eqb_neq in Hr1. rewrite (H r Hin Hr1) in Hr2. discriminate.
Qed.

(** * The catalog invariant *)

Lemma ok_nil : catalog_ok [].
Proof. split; [constructor|]. split; [constructor|]. intros a b []. Qed.

Lemma ok_put c m :
  catalog_ok c -> g_id m <> 0 -> wf_range m ->
  (forall r, In r c -> g_id r <> g_id m -> disjoint m r) ->
  catalog_ok (put m c).
Proof.
  intros (Hnd & Hall & Hpair) Hid Hwf Hdis. unfold put. split; [|split].
  - cbn [map]. constructor; [|now apply nodup_remove_id].
    intros Hin. apply in_map_iff in Hin as [y [Hy1 Hy2]]. apply in_remove_id in Hy2 as [_ Hy2]. contradiction.
  - constructor; [now split|]. apply Forall_forall. intros r Hr. apply in_remove_id in Hr as [Hr _].
    rewrite Forall_forall in Hall. now apply Hall.
  - intros a b [<-|Ha] [<-|Hb] Hne.
    + contradiction.
    + apply in_remove_id in Hb as [Hb1 Hb2]. now apply Hdis.
    + apply in_remove_id in Ha as [Ha1 Ha2]. apply disjoint_sym. now apply Hdis.
    + apply in_remove_id in Ha as [Ha _]. apply in_remove_id in Hb as [Hb _]. now apply Hpair.
Qed.

Lemma ok_remove c id : catalog_ok c -> catalog_ok (remove_id id c).
Proof.
  intros (Hnd & Hall & Hpair). split; [|split].
  - now apply nodup_remove_id.
  - apply Forall_forall. intros r Hr. apply in_remove_id in Hr as [Hr _].
    rewrite Forall_forall in Hall. now apply Hall.
  - intros a b Ha Hb. apply in_remove_id in Ha as [Ha _]. apply in_remove_id in Hb as [Hb _]. now apply Hpair.
Qed.

Lemma ok_wf c r : catalog_ok c -> In r c -> wf_range r.
Proof. intros (_ & Hall & _) Hin. rewrite Forall_forall in Hall. now apply Hall. Qed.

(** * Acceptance *)

Lemma upsert_result c m c' : upsert c m = inl c' -> c' = put m c.
Proof.
  unfold upsert. destruct (g_id m =? 0); [discriminate|].
  destruct (range_invalid m); [discriminate|].
  destruct (find (g_id m) c) as [cur|].
  - destruct (epoch_stale m cur); [discriminate|]. destruct (find_overlap c m); [discriminate|]. congruence.
  - destruct (find_overlap c m); [discriminate|]. congruence.
Qed.

(** C26_accept_iff *)
Lemma upsert_accept_iff c m :
  catalog_ok c -> ((exists c', upsert c m = inl c') <-> acceptable c m).
Proof.
  intros Hok. unfold acceptable, upsert. split.
  - intros [c' H].
    destruct (N.eqb_spec (g_id m) 0) as [E|E]; [discriminate|].
    destruct (range_invalid m) eqn:Er; [discriminate|]. apply range_invalid_spec in Er.
    assert (Hov : find_overlap c m = false /\
                  forall cur, find (g_id m) c = Some cur -> epoch_stale m cur = false).
    { destruct (find (g_id m) c) as [cur|].
      - destruct (epoch_stale m cur) eqn:Es; [discriminate|].
        destruct (find_overlap c m); [discriminate|]. split; [reflexivity|]. intros ? Hc. now inversion Hc; subst.
      - destruct (find_overlap c m); [discriminate|]. split; [reflexivity|]. discriminate. }
    destruct Hov as [Hov Hst]. repeat split; try assumption.
    + intros cur Hc Hs. apply epoch_stale_spec in Hs. rewrite (Hst cur Hc) in Hs. discriminate.
    + intros r Hin Hne. apply overlap_false_disjoint.
      rewrite find_overlap_false in Hov. now apply Hov.
  - intros (Hid & Hwf & Hst & Hdis).
    destruct (N.eqb_spec (g_id m) 0) as [E|E]; [contradiction|].
    apply range_invalid_spec in Hwf as Hri. rewrite Hri.
    assert (Hov : find_overlap c m = false).
    { apply find_overlap_false. intros r Hin Hne.
      apply overlap_false_iff; [exact Hwf | now apply (ok_wf c) | now apply Hdis]. }
    rewrite Hov. destruct (find (g_id m) c) as [cur|] eqn:Ef.
    + destruct (epoch_stale m cur) eqn:Es.
      * exfalso. apply (Hst cur eq_refl). now apply epoch_stale_spec.
      * now eexists.
    + now eexists.
Qed.

Lemma upsert_ok c m c' : catalog_ok c -> upsert c m = inl c' -> catalog_ok c'.
Proof.
  intros Hok H. pose proof (upsert_result _ _ _ H) as ->.
  assert (Ha : acceptable c m) by (apply upsert_accept_iff; [exact Hok | now exists (put m c)]).
  destruct Ha as (Hid & Hwf & _ & Hdis). now apply ok_put.
Qed.

(** The boolean oracle decides [acceptable] on well-formed catalogs. *)
Lemma acceptable_b_spec c m : catalog_ok c -> (acceptable_b c m = true <-> acceptable c m).
Proof.
  intros Hok. unfold acceptable_b, acceptable.
  rewrite !andb_true_iff, negb_true_iff, N.eqb_neq, wf_range_b_spec, forallb_forall.
  split.
  - intros [[[Hid Hwf] Hst] Hdis]. repeat split; try assumption.
    + intros cur Hc Hs. rewrite Hc in Hst. apply stale_b_spec in Hs. rewrite Hs in Hst. discriminate.
    + intros r Hin Hne. specialize (Hdis r Hin). apply orb_true_iff in Hdis as [Hd|Hd].
      * apply N.eqb_eq in Hd. contradiction.
      * apply negb_true_iff in Hd. apply disjoint_not_intersect. intros Hi.
        apply (intersect_b_spec m r Hwf (ok_wf c r Hok Hin)) in Hi. congruence.
  - intros (Hid & Hwf & Hst & Hdis). repeat split; try assumption.
    + destruct (find (g_id m) c) as [cur|]; [|reflexivity].
      apply negb_true_iff. destruct (stale_b m cur) eqn:Es; [|reflexivity].
      exfalso. apply (Hst cur eq_refl). now apply stale_b_spec.
    + intros r Hin. destruct (N.eqb_spec (g_id r) (g_id m)) as [E|E]; [reflexivity|].
      cbn [orb]. apply negb_true_iff. destruct (intersect_b m r) eqn:Ei; [|reflexivity].
      exfalso. apply (intersect_b_spec m r Hwf (ok_wf c r Hok Hin)) in Ei.
      apply (disjoint_not_intersect m r); [now apply Hdis | exact Ei].
Qed.

(** * Reachable states *)

Lemma step_ok s o :
  catalog_ok (mem s) -> disk s = mem s ->
  catalog_ok (mem (step s o)) /\ disk (step s o) = mem (step s o).
Proof.
  intros Hok Hd. destruct o as [m|id]; cbn [step].
  - destruct (upsert (mem s) m) as [c'|e] eqn:E; [|now split].
    cbn [mem disk]. split; [now apply (upsert_ok (mem s) m)|].
    rewrite Hd. symmetry. now apply upsert_result.
  - unfold remove. destruct (N.eqb_spec id 0) as [E|E].
    + cbn [mem disk]. now split.
    + destruct (find id (mem s)) eqn:Ef; cbn [mem disk].
      * split; [now apply ok_remove | now rewrite Hd].
      * split; [now apply ok_remove|]. rewrite Hd. symmetry. apply remove_id_absent. now apply find_none.
Qed.

Lemma run_ok ops : forall s,
  catalog_ok (mem s) -> disk s = mem s ->
  catalog_ok (mem (run s ops)) /\ disk (run s ops) = mem (run s ops).
Proof.
  induction ops as [|o ops IH]; intros s Hok Hd; [now split|].
  cbn [run fold_left]. destruct (step_ok s o Hok Hd) as [H1 H2]. now apply IH.
Qed.

(** C26_disjoint_inv *)
Lemma reachable_ok ops : catalog_ok (mem (run pd_init ops)).
Proof. apply run_ok; [apply ok_nil | reflexivity]. Qed.

Lemma reachable_disk ops : disk (run pd_init ops) = mem (run pd_init ops).
Proof. apply run_ok; [apply ok_nil | reflexivity]. Qed.

(** * The sorted index *)

Section SortFacts.
  Context (ltb : region -> region -> bool).

  Lemma perm_insert_by e l : Permutation (insert_by ltb e l) (e :: l).
  Proof.
    induction l as [|x l IH]; cbn [insert_by]; [apply Permutation_refl|].
    destruct (ltb e x); [apply Permutation_refl|].
    eapply Permutation_trans; [apply perm_skip, IH | apply perm_swap].
  Qed.

  Lemma perm_sort_by l : Permutation (sort_by ltb l) l.
  Proof.
    induction l as [|x l IH]; cbn [sort_by fold_right]; [constructor|].
    eapply Permutation_trans; [apply perm_insert_by | now apply perm_skip].
  Qed.

  Lemma in_sort_by x l : In x (sort_by ltb l) <-> In x l.
  Proof.
    split; apply Permutation_in; [apply perm_sort_by | apply Permutation_sym, perm_sort_by].
  Qed.
End SortFacts.

Definition start_le (a b : region) : Prop := bytes_leb (g_start a) (g_start b) = true.

Lemma start_le_trans a b c : start_le a b -> start_le b c -> start_le a c.
Proof. unfold start_le. apply bytes_leb_trans. Qed.

Lemma entry_ltb_le a b : entry_ltb a b = true -> start_le a b.
Proof.
  unfold entry_ltb, start_le, bytes_leb. destruct (bytes_cmp (g_start a) (g_start b)); congruence.
Qed.

Lemma entry_ltb_false_le a b : entry_ltb a b = false -> start_le b a.
Proof.
  unfold entry_ltb, start_le, bytes_leb. rewrite (bytes_cmp_antisym (g_start a) (g_start b)).
  destruct (bytes_cmp (g_start a) (g_start b)); cbn [CompOpp]; congruence.
Qed.

Lemma insert_sorted e l :
  StronglySorted start_le l -> StronglySorted start_le (insert_by entry_ltb e l).
Proof.
  induction l as [|x l IH]; intros Hs; cbn [insert_by].
  - constructor; constructor.
  - inversion Hs as [|? ? Hs' Hall]; subst.
    destruct (entry_ltb e x) eqn:E.
    + constructor; [exact Hs|]. apply entry_ltb_le in E. constructor; [exact E|].
      eapply Forall_impl; [|exact Hall]. intros y Hy. now apply (start_le_trans e x y).
    + constructor; [now apply IH|]. apply entry_ltb_false_le in E.
      apply Forall_forall. intros y Hy.
      apply (Permutation_in _ (perm_insert_by entry_ltb e l)) in Hy as [<-|Hy]; [exact E|].
      rewrite Forall_forall in Hall. now apply Hall.
Qed.

Lemma index_sorted c : StronglySorted start_le (index c).
Proof.
  unfold index, sort_by. induction c as [|x c IH]; cbn [fold_right]; [constructor|].
  now apply insert_sorted.
Qed.

Lemma pick_some idx k p : pick idx k (Some p) <> None.
Proof.
  revert p. induction idx as [|e idx IH]; intros p; cbn [pick]; [discriminate|].
  destruct (bytes_ltb k (g_start e)); [discriminate | apply IH].
Qed.

Definition prev_ok (prev : option region) (idx : list region) : Prop :=
  match prev with Some p => Forall (start_le p) idx | None => True end.

Lemma pick_spec idx k : forall prev,
  StronglySorted start_le idx -> prev_ok prev idx ->
  match pick idx k prev with
  | Some e => (prev = Some e \/ (In e idx /\ bytes_ltb k (g_start e) = false)) /\
              (forall e', In e' idx -> bytes_ltb k (g_start e') = false -> start_le e' e)
  | None => prev = None /\ forall e', In e' idx -> bytes_ltb k (g_start e') = true
  end.
Proof.
  induction idx as [|e0 idx IH]; intros prev Hs Hp; cbn [pick].
  - destruct prev as [p|]; [split; [now left | intros e' []] | split; [reflexivity | intros e' []]].
  - inversion Hs as [|? ? Hs' Hall]; subst.
    destruct (bytes_ltb k (g_start e0)) eqn:E.
    + (* every entry starts above the key *)
      assert (Habove : forall e', In e' (e0 :: idx) -> bytes_ltb k (g_start e') = true).
      { intros e' [<-|Hin]; [exact E|]. rewrite Forall_forall in Hall.
        exact (bytes_ltb_leb_trans _ _ _ E (Hall e' Hin)). }
      destruct prev as [p|].
      * split; [now left|]. intros e' Hin Hle. rewrite (Habove e' Hin) in Hle. discriminate.
      * split; [reflexivity | exact Habove].
    + specialize (IH (Some e0) Hs' Hall).
      destruct (pick idx k (Some e0)) as [e|] eqn:Ep.
      * destruct IH as [Hwhich Hmax]. split.
        -- right. destruct Hwhich as [Hw|[Hw1 Hw2]].
           ++ inversion Hw; subst. split; [now left | exact E].
           ++ split; [now right | exact Hw2].
        -- intros e' [<-|Hin] Hle.
           ++ destruct Hwhich as [Hw|[Hw1 _]].
              ** inversion Hw; subst. apply bytes_leb_refl.
              ** rewrite Forall_forall in Hall. now apply Hall.
           ++ now apply Hmax.
      * exfalso. now apply (pick_some idx k e0).
Qed.

(** * Routing *)

(** C26_route: on a catalog satisfying the invariant the lookup returns
    exactly the region containing the key. *)
Lemma route_iff c k r : catalog_ok c -> (route c k = Some r <-> In r c /\ contains r k).
Proof.
  intros Hok. destruct Hok as (Hnd & Hall & Hpair).
  pose proof (pick_spec (index c) k None (index_sorted c) I) as Hp.
  unfold route, route_in. split.
  - destruct (pick (index c) k None) as [e|]; [|discriminate].
    destruct Hp as [[Hw|[Hin Hle]] _]; [discriminate|].
    apply in_sort_by in Hin. rewrite Hle.
    destruct (negb (bytes_eqb (g_end e) []) && negb (bytes_ltb k (g_end e))) eqn:Ee; [discriminate|].
    intros Hf. rewrite (in_find c e Hnd Hin) in Hf. inversion Hf; subst. split; [exact Hin|].
    split; [now apply not_ltb_leb|].
    destruct (bytes_eqb (g_end r) []) eqn:E1; [left; now apply eqb_nil|].
    right. cbn [negb andb] in Ee. now apply negb_false_iff in Ee.
  - intros [Hin [Hc1 Hc2]].
    assert (Hle : bytes_ltb k (g_start r) = false) by now apply leb_not_ltb.
    destruct (pick (index c) k None) as [e|].
    + destruct Hp as [[Hw|[Hein Hele]] Hmax]; [discriminate|].
      apply in_sort_by in Hein.
      assert (Hre : start_le r e) by (apply Hmax; [now apply in_sort_by | exact Hle]).
      assert (He : e = r).
      { destruct (N.eq_dec (g_id e) (g_id r)) as [E|E]; [now apply (nodup_same_id c)|].
        exfalso. apply (Hpair e r Hein Hin E (g_start e)). split; split.
        - apply bytes_leb_refl.
        - rewrite Forall_forall in Hall. now apply Hall.
        - exact Hre.
        - destruct Hc2 as [Hc2|Hc2]; [now left|]. right.
          exact (bytes_leb_ltb_trans _ _ _ (not_ltb_leb _ _ Hele) Hc2). }
      subst e. rewrite Hle.
      assert (Hend : negb (bytes_eqb (g_end r) []) && negb (bytes_ltb k (g_end r)) = false).
      { destruct Hc2 as [Hc2|Hc2].
        - apply eqb_nil in Hc2. now rewrite Hc2.
        - rewrite Hc2. now rewrite andb_false_r. }
      rewrite Hend. now apply in_find.
    + destruct Hp as [_ Habove]. rewrite (Habove r) in Hle; [discriminate | now apply in_sort_by].
Qed.

Lemma route_none_iff c k : catalog_ok c -> (route c k = None <-> forall r, In r c -> ~ contains r k).
Proof.
  intros Hok. split.
  - intros Hn r Hin Hc. assert (H : route c k = Some r) by (apply route_iff; auto). congruence.
  - intros H. destruct (route c k) as [r|] eqn:E; [|reflexivity].
    apply route_iff in E as [Hin Hc]; [|exact Hok]. exfalso. exact (H r Hin Hc).
Qed.

(** At most one region contains a key. *)
Lemma owner_unique c k a b :
  catalog_ok c -> In a c -> contains a k -> In b c -> contains b k -> a = b.
Proof.
  intros Hok Ha Hca Hb Hcb.
  assert (H1 : route c k = Some a) by (apply route_iff; auto).
  assert (H2 : route c k = Some b) by (apply route_iff; auto). congruence.
Qed.

(** * Reload *)

Lemma ok_perm c1 c2 : Permutation c1 c2 -> catalog_ok c1 -> catalog_ok c2.
Proof.
  intros Hp (Hnd & Hall & Hpair). split; [|split].
  - eapply Permutation_NoDup; [apply Permutation_map, Hp | exact Hnd].
  - eapply Permutation_Forall; eassumption.
  - intros a b Ha Hb. apply Hpair; eapply Permutation_in; try eassumption; now apply Permutation_sym.
Qed.

Lemma ok_same_members c1 c2 :
  (forall x, In x c1 <-> In x c2) -> NoDup (map g_id c1) -> catalog_ok c2 -> catalog_ok c1.
Proof.
  intros Hm Hnd (_ & Hall & Hpair). split; [exact Hnd|]. split.
  - apply Forall_forall. intros r Hr. rewrite Forall_forall in Hall. apply Hall. now apply Hm.
  - intros a b Ha Hb. apply Hpair; now apply Hm.
Qed.

Lemma same_members_find c1 c2 :
  (forall x, In x c1 <-> In x c2) -> NoDup (map g_id c1) -> NoDup (map g_id c2) -> same_catalog c1 c2.
Proof.
  intros Hm H1 H2 id.
  destruct (find id c1) as [r|] eqn:E1.
  - apply find_in in E1 as [Hin <-]. symmetry. apply in_find; [exact H2 | now apply Hm].
  - destruct (find id c2) as [r|] eqn:E2; [|reflexivity].
    apply find_in in E2 as [Hin <-]. apply Hm in Hin. rewrite (in_find c1 r H1 Hin) in E1. discriminate.
Qed.

Lemma restore_into_spec l : forall acc,
  catalog_ok (l ++ acc) ->
  exists c', restore_into acc l = Some c' /\ (forall x, In x c' <-> In x (l ++ acc)) /\ NoDup (map g_id c').
Proof.
  induction l as [|r l IH]; intros acc Hok.
  - exists acc. cbn [restore_into app]. destruct Hok as (Hnd & _). repeat split; auto.
  - cbn [restore_into]. pose proof Hok as (Hnd & Hall & Hpair).
    cbn [app map] in Hnd, Hall. inversion Hnd as [|? ? Hnotin Hnd']; subst.
    inversion Hall as [|? ? [Hid Hwf] Hall']; subst.
    destruct (N.eqb_spec (g_id r) 0) as [E|_]; [contradiction|].
    assert (Habsent : forall x, In x acc -> g_id x <> g_id r).
    { intros x Hx E. apply Hnotin. rewrite <- E. apply in_map. apply in_or_app. now right. }
    assert (Hfind : find (g_id r) acc = None).
    { destruct (find (g_id r) acc) eqn:Ef; [|reflexivity].
      apply find_in in Ef as [Hin E]. exfalso. exact (Habsent _ Hin E). }
    assert (Hov : find_overlap acc r = false).
    { apply find_overlap_false. intros x Hx Hne.
      rewrite Forall_forall in Hall'.
      apply overlap_false_iff; [exact Hwf | apply Hall'; apply in_or_app; now right |].
      apply Hpair; [now left | right; apply in_or_app; now right | congruence]. }
    unfold upsert. destruct (N.eqb_spec (g_id r) 0) as [E|_]; [contradiction|].
    apply range_invalid_spec in Hwf as Hri. rewrite Hri, Hfind, Hov.
    unfold put. rewrite (remove_id_absent _ _ Habsent).
    assert (Hperm : Permutation ((r :: l) ++ acc) (l ++ r :: acc)) by apply Permutation_middle.
    destruct (IH (r :: acc) (ok_perm _ _ Hperm Hok)) as (c' & Hr & Hm & Hn).
    exists c'. split; [exact Hr|]. split; [|exact Hn].
    intros x. rewrite Hm. split; apply Permutation_in; [now apply Permutation_sym | exact Hperm].
Qed.

(** C26_reload (catalog level): a catalog satisfying the invariant is
    restored to the same map, and routes identically. *)
Lemma restore_same d :
  catalog_ok d ->
  exists c', restore d = Some c' /\ same_catalog c' d /\ catalog_ok c' /\ forall k, route c' k = route d k.
Proof.
  intros Hok. unfold restore.
  assert (Hs : catalog_ok (sort_by by_id d ++ [])).
  { rewrite app_nil_r. apply (ok_perm d); [apply Permutation_sym, perm_sort_by | exact Hok]. }
  destruct (restore_into_spec _ _ Hs) as (c' & Hr & Hm & Hn).
  assert (Hm' : forall x, In x c' <-> In x d).
  { intros x. rewrite Hm, app_nil_r. apply in_sort_by. }
  assert (Hok' : catalog_ok c') by now apply (ok_same_members c' d).
  exists c'. split; [exact Hr|]. split; [|split; [exact Hok'|]].
  - apply same_members_find; [exact Hm' | exact Hn | now destruct Hok].
  - intros k. destruct (route c' k) as [r|] eqn:E1.
    + apply route_iff in E1 as [Hin Hc]; [|exact Hok']. symmetry. apply route_iff; [exact Hok|].
      split; [now apply Hm' | exact Hc].
    + symmetry. apply route_none_iff; [exact Hok|]. intros r Hin.
      apply (proj1 (route_none_iff c' k Hok') E1). now apply Hm'.
Qed.

Lemma reload_reachable ops :
  let s := run pd_init ops in
  exists c', restore (disk s) = Some c' /\ same_catalog c' (mem s) /\ forall k, route c' k = route (mem s) k.
Proof.
  cbn zeta. rewrite reachable_disk.
  destruct (restore_same _ (reachable_ok ops)) as (c' & H1 & H2 & _ & H3). now exists c'.
Qed.

(** The oracle [route_ok_b] is exact on catalogs satisfying the invariant. *)
Lemma region_eqb_eq a b : region_eqb a b = true <-> a = b.
Proof.
  unfold region_eqb. rewrite !andb_true_iff, !N.eqb_eq, !bytes_eqb_eq.
  destruct a, b; cbn. split.
  - intros [[[[-> ->] ->] ->] ->]. reflexivity.
  - intros H. inversion H. tauto.
Qed.

Lemma in_owners c k r : In r (owners c k) <-> In r c /\ contains r k.
Proof. unfold owners. rewrite filter_In, contains_b_spec. tauto. Qed.

Lemma route_ok_b_spec c k res :
  catalog_ok c -> (route_ok_b c k res = true <-> res = route c k).
Proof.
  intros Hok. unfold route_ok_b.
  destruct (owners c k) as [|r [|r2 l]] eqn:Eo.
  - assert (Hn : route c k = None).
    { apply route_none_iff; [exact Hok|]. intros r Hin Hc.
      assert (Hi : In r (owners c k)) by now apply in_owners. now rewrite Eo in Hi. }
    rewrite Hn. destruct res; split; congruence.
  - assert (Hs : route c k = Some r).
    { apply route_iff; [exact Hok|]. apply in_owners. rewrite Eo. now left. }
    rewrite Hs. destruct res as [r'|]; [|split; congruence].
    rewrite region_eqb_eq. split; congruence.
  - exfalso.
    assert (H1 : In r (owners c k)) by (rewrite Eo; now left).
    assert (H2 : In r2 (owners c k)) by (rewrite Eo; right; now left).
    apply in_owners in H1 as [H1 H1']. apply in_owners in H2 as [H2 H2'].
    assert (E : r = r2) by now apply (owner_unique c k).
    subst r2. assert (Hnd : NoDup (owners c k)).
    { unfold owners. apply NoDup_filter. destruct Hok as (Hnd & _). now apply NoDup_map_inv in Hnd. }
    rewrite Eo in Hnd. inversion Hnd as [|? ? Hnot _]; subst. apply Hnot. now left.
Qed.

(** * The behaviour before the repair *)

Definition mkR (id : N) (s e : string) (v c : N) : region :=
  {| g_id := id; g_start := unhex s; g_end := unhex e; g_ver := v; g_conf := c |}.

Definition w_wide : region := mkR 1 "6b" "" 1 1.       (* [k, +inf) *)
Definition w_inverted : region := mkR 2 "6d" "62" 1 1. (* [m, b): no key *)
Definition w_key : bytes := unhex "78".                (* x *)

(** Without the range check both heartbeats are accepted and the lookup of a
    key of region 1 finds nothing. *)
Lemma route_unchecked_refuted :
  exists c1 c2,
    upsert_nocheck [] w_wide = inl c1 /\ upsert_nocheck c1 w_inverted = inl c2 /\
    In w_wide c2 /\ contains w_wide w_key /\ route c2 w_key = None.
Proof.
  eexists. eexists. split; [vm_compute; reflexivity|]. split; [vm_compute; reflexivity|].
  split; [vm_compute; tauto|]. split; [|vm_compute; reflexivity].
  apply contains_b_spec. vm_compute. reflexivity.
Qed.

(** Non-vacuity: a reachable catalog with two regions, a key routed. *)
Example reachable_example :
  let s := run pd_init [Heartbeat (mkR 1 "" "6d" 1 1); Heartbeat (mkR 2 "6d" "" 1 1); Heartbeat w_inverted] in
  List.length (mem s) = 2%nat /\ route (mem s) w_key = Some (mkR 2 "6d" "" 1 1).
Proof. vm_compute. split; reflexivity. Qed.

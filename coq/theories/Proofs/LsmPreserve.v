(** The invariant [J] under which reads return the latest acknowledged write
    ([get_latest]) holds initially and is preserved by every write (any version
    order; only a fresh larger acknowledgement index is needed, which is ghost
    state), by memtable rotation, by flushes and by reopen; hence
    last-writer-wins / newest-version reads for every history of such
    operations ([lww_memtables_l0], [lww_reopen]). *)
From Coq Require Import String List NArith Bool Lia Sorting.Sorted.
From NoKV Require Import Base.Bytes Model.Lsm Spec.MvccSpec Proofs.LsmOrder Spec.LsmSpec
     Proofs.LsmRead Proofs.LsmGet Proofs.LsmMain Proofs.LsmWitness Proofs.LsmInv.
Import ListNotations.
Local Open Scope N_scope.

(** * Bookkeeping invariants *)

(** File ids: L0 tables are in increasing id order, older than every sealed
    memtable, which are in increasing id order and older than the active one. *)
Record ids_inv (s : state) : Prop := {
  ii_l0 : StronglySorted (fun a b => t_fid a < t_fid b) (st_l0 s);
  ii_imms : StronglySorted (fun a b : N * list rec => fst a < fst b) (st_imms s);
  ii_l0_imm : forall t m, In t (st_l0 s) -> In m (st_imms s) -> t_fid t < fst m;
  ii_l0_mem : forall t, In t (st_l0 s) -> t_fid t < st_memid s;
  ii_imm_mem : forall m, In m (st_imms s) -> fst m < st_memid s;
  ii_mem_max : st_memid s <= st_maxfid s }.

Definition lsorted {A} (leb : A -> A -> bool) (l : list A) : Prop :=
  StronglySorted (fun a b => leb a b = true) l.

(** Ingest shards are kept in [sortShards] order. *)
Definition shards_sorted (s : state) : Prop :=
  Forall (fun lv => Forall (lsorted min_leb) (lv_shards lv)) (st_lvls s).

Record J (s : state) (ws : list rec) : Prop := {
  j_src : src_inv s;
  j_tier : scan_inv (scan_srcs s);
  j_content : content_ok s ws;
  j_seq : seq_functional ws;
  j_ids : ids_inv s;
  j_shards : shards_sorted s }.

(** The stronger tiered invariant of the old read path still suffices. *)
Corollary get_latest_tiers s ws k v :
  src_inv s -> tier_inv (tiers_of s) -> content_ok s ws -> seq_functional ws ->
  get s k v = latest_at ws k v.
Proof. intros Hs Ht. apply get_latest; [exact Hs | now apply tier_inv_scan_inv]. Qed.

Theorem J_get_latest s ws k v : J s ws -> get s k v = latest_at ws k v.
Proof. intros [H1 H2 H3 H4 _ _]. now apply get_latest. Qed.

(** * Generic list facts *)
Lemma ssorted_app {A} (R : A -> A -> Prop) l1 l2 :
  StronglySorted R l1 -> StronglySorted R l2 -> (forall a b, In a l1 -> In b l2 -> R a b) ->
  StronglySorted R (l1 ++ l2).
Proof.
  induction l1 as [|x l1 IH]; intros H1 H2 H; cbn [app]; [exact H2|].
  inversion H1 as [|? ? Hs Hf]; subst. constructor.
  - apply IH; [exact Hs | exact H2 | intros a b Ha Hb; apply H; [now right | exact Hb]].
  - apply Forall_app. split; [exact Hf|]. apply Forall_forall. intros b Hb. apply H; [now left | exact Hb].
Qed.

Lemma ssorted_impl {A} (R R' : A -> A -> Prop) l :
  (forall a b, R a b -> R' a b) -> StronglySorted R l -> StronglySorted R' l.
Proof.
  intros HR. induction 1 as [|x l Hs IH Hf]; constructor; [exact IH|].
  eapply Forall_impl; [|exact Hf]. intros b. apply HR.
Qed.

Lemma isort_cons {A} (leb : A -> A -> bool) x l : isort leb (x :: l) = ins leb x (isort leb l).
Proof. unfold isort. cbn [rev]. rewrite fold_left_app. reflexivity. Qed.

Lemma isort_id {A} (leb : A -> A -> bool) l : lsorted leb l -> isort leb l = l.
Proof.
  induction 1 as [|x l Hs IH Hf]; [reflexivity|]. rewrite isort_cons, IH.
  destruct l as [|y l']; [reflexivity|]. cbn [ins]. inversion Hf as [|? ? Hxy _]; subst. now rewrite Hxy.
Qed.

(** * Shape of [tiers_of] *)
Definition rest_tiers (s : state) : list (list (list rec)) :=
  map (fun m => [snd m]) (rev (st_imms s)) ++ [map t_recs (rev (st_l0 s))] ++ map level_srcs (st_lvls s).

Lemma tiers_of_eq s : tiers_of s = [st_mem s] :: rest_tiers s.
Proof. reflexivity. Qed.

Lemma tiers_of_put s r : tiers_of (put s r) = [mem_insert r (st_mem s)] :: rest_tiers s.
Proof. reflexivity. Qed.

Lemma tiers_of_rotate s : tiers_of (rotate s) = [[]] :: tiers_of s.
Proof.
  unfold tiers_of, rotate. cbn [st_mem st_imms st_l0 st_lvls]. rewrite rev_app_distr. reflexivity.
Qed.

Lemma concat_single {A} (l : list A) : concat [l] = l.
Proof. cbn. apply app_nil_r. Qed.

Definition rest_srcs (s : state) : list (list rec) := concat (rest_tiers s).

Lemma scan_srcs_cons s : scan_srcs s = st_mem s :: rest_srcs s.
Proof. reflexivity. Qed.

Lemma scan_srcs_put s r : scan_srcs (put s r) = mem_insert r (st_mem s) :: rest_srcs s.
Proof. reflexivity. Qed.

Lemma scan_srcs_rotate s : scan_srcs (rotate s) = [] :: scan_srcs s.
Proof. unfold scan_srcs. now rewrite tiers_of_rotate. Qed.

Lemma all_recs_scan s : all_recs (tiers_of s) = concat (scan_srcs s).
Proof. reflexivity. Qed.

(** * Initial state *)
Lemma empty_level_srcs : concat (level_srcs empty_level) = [].
Proof. reflexivity. Qed.

Lemma init_all_recs m : all_recs (tiers_of (init m)) = [].
Proof. reflexivity. Qed.

Lemma src_inv_init m : src_inv (init m).
Proof.
  constructor; cbn [init st_mem st_imms st_l0 st_lvls].
  - constructor.
  - constructor.
  - constructor.
  - repeat constructor.
  - rewrite init_all_recs. intros x [].
Qed.

Lemma tier_inv_init m : tier_inv (tiers_of (init m)).
Proof.
  constructor.
  - cbv [tiers_of init st_mem st_imms st_l0 st_lvls rev map app level_srcs empty_level lv_shards lv_main concat].
    repeat constructor.
  - rewrite init_all_recs. intros x [].
  - cbv [tiers_of init st_mem st_imms st_l0 st_lvls rev map app level_srcs empty_level lv_shards lv_main concat].
    repeat (constructor; [first [apply within_ok_single | apply within_ok_nil]|]). constructor.
  - intros l1 l2 E x y Hx Hy. exfalso.
    assert (Hx' : In x (all_recs (tiers_of (init m)))) by (rewrite E; apply all_recs_app; now left).
    rewrite init_all_recs in Hx'. exact Hx'.
Qed.

Theorem J_init m : J (init m) [].
Proof.
  constructor.
  - apply src_inv_init.
  - apply (tier_inv_scan_inv _ (tier_inv_init m)).
  - split; [rewrite init_all_recs; intros x [] | intros w []].
  - intros x y [].
  - constructor; cbn [init st_l0 st_imms st_memid st_maxfid];
      [constructor | constructor | intros ? ? [] | intros ? [] | intros ? [] | lia].
  - unfold shards_sorted. cbn [init st_lvls]. repeat (constructor; [repeat constructor|]). constructor.
Qed.

(** * put *)
Lemma put_recs s r x :
  In x (all_recs (tiers_of (put s r))) -> x = r \/ In x (all_recs (tiers_of s)).
Proof.
  rewrite tiers_of_put, tiers_of_eq, !all_recs_cons_eq, !concat_single, !in_app_iff.
  intros [H|H]; [|auto]. apply mem_insert_in in H. tauto.
Qed.

(** The content part of a write needs only [content_ok] and a fresh larger
    acknowledgement index (an equal internal key is overwritten by a more
    recent copy). *)
Lemma put_content_ok_gen s ws r :
  content_ok s ws -> (forall y, In y ws -> r_seq y < r_seq r) ->
  content_ok (put s r) (ws ++ [r]).
Proof.
  intros [Hc1 Hc2] Hfresh. split.
  - intros x Hx. apply in_or_app. apply put_recs in Hx as [->|Hx]; [right; now left | left; auto].
  - intros w Hw. apply in_app_or in Hw as [Hw|[<-|[]]].
    + destruct (Hc2 w Hw) as (x & Hx & Ek & Ev & Hg).
      rewrite tiers_of_put. rewrite tiers_of_eq in Hx. rewrite all_recs_cons_eq, concat_single in Hx.
      apply in_app_or in Hx as [Hx|Hx].
      * destruct (rcmp r x) eqn:E.
        -- apply rcmp_eq in E as [Ek' Ev']. exists r. split.
           ++ rewrite all_recs_cons_eq, concat_single. apply in_or_app. left. apply mem_insert_has.
           ++ split; [congruence|]. split; [congruence|]. right. split; [congruence|].
              specialize (Hfresh w Hw). lia.
        -- exists x. split; [|auto]. rewrite all_recs_cons_eq, concat_single. apply in_or_app. left.
           apply mem_insert_keeps; [exact Hx | congruence].
        -- exists x. split; [|auto]. rewrite all_recs_cons_eq, concat_single. apply in_or_app. left.
           apply mem_insert_keeps; [exact Hx | congruence].
      * exists x. split; [|auto]. rewrite all_recs_cons_eq. apply in_or_app. now right.
    + exists r. split; [|split; [reflexivity | split; [reflexivity | apply geq_refl]]].
      rewrite tiers_of_put, all_recs_cons_eq, concat_single. apply in_or_app. left. apply mem_insert_has.
Qed.

Lemma seq_functional_snoc ws r :
  seq_functional ws -> (forall y, In y ws -> r_seq y < r_seq r) -> seq_functional (ws ++ [r]).
Proof.
  intros Hf Hfresh x y Hx Hy E.
  apply in_app_or in Hx as [Hx|[<-|[]]]; apply in_app_or in Hy as [Hy|[<-|[]]].
  - now apply Hf.
  - specialize (Hfresh x Hx). lia.
  - specialize (Hfresh y Hy). lia.
  - reflexivity.
Qed.

Section Put.
  Variables (s : state) (ws : list rec) (r : rec).
  Hypothesis HJ : J s ws.
  Hypothesis Hpos : 0 < r_ver r.
  Hypothesis Hfresh : forall y, In y ws -> r_seq y < r_seq r.

  Lemma put_src_inv : src_inv (put s r).
  Proof.
    destruct HJ as [[Hm Hi Hl Hv Hp] _ _ _ _ _]. constructor; try assumption.
    - now apply mem_insert_sorted.
    - intros x Hx. apply put_recs in Hx as [->|Hx]; auto.
  Qed.

  Lemma put_scan_inv : scan_inv (scan_srcs (put s r)).
  Proof.
    destruct HJ as [Hsrc Ht [Hc1 _] _ _ _]. rewrite scan_srcs_put. rewrite scan_srcs_cons in Ht.
    rewrite all_recs_scan, scan_srcs_cons in Hc1. cbn [concat] in Hc1.
    apply scan_inv_cons in Ht as ((Hs & Hp) & Hb & Hr). apply scan_inv_cons.
    split; [split|split; [|exact Hr]].
    - now apply mem_insert_sorted.
    - intros x Hx. apply mem_insert_in in Hx as [->|Hx]; auto.
    - intros x y Hx Hy Hk Hv. apply mem_insert_in in Hx as [->|Hx]; [|now apply Hb].
      assert (Hw : In y ws) by (apply Hc1, in_or_app; now right). specialize (Hfresh y Hw). lia.
  Qed.

  Lemma put_content_ok : content_ok (put s r) (ws ++ [r]).
  Proof. apply put_content_ok_gen; [exact (j_content _ _ HJ) | exact Hfresh]. Qed.

  Lemma put_seq_functional : seq_functional (ws ++ [r]).
  Proof. apply seq_functional_snoc; [exact (j_seq _ _ HJ) | exact Hfresh]. Qed.

  Theorem put_J : J (put s r) (ws ++ [r]).
  Proof.
    constructor.
    - apply put_src_inv.
    - apply put_scan_inv.
    - apply put_content_ok.
    - apply put_seq_functional.
    - destruct HJ as [_ _ _ _ [H1 H2 H3 H4 H5 H6] _]. constructor; assumption.
    - exact (j_shards _ _ HJ).
  Qed.
End Put.

(** * rotate *)
Lemma all_recs_rotate s : all_recs (tiers_of (rotate s)) = all_recs (tiers_of s).
Proof. rewrite tiers_of_rotate, all_recs_cons_eq. reflexivity. Qed.

Lemma content_ok_same s s' ws :
  all_recs (tiers_of s') = all_recs (tiers_of s) -> content_ok s ws -> content_ok s' ws.
Proof. unfold content_ok. now intros ->. Qed.

Theorem rotate_J s ws : J s ws -> J (rotate s) ws.
Proof.
  intros [[Hm Hi Hl Hv Hp] Ht Hc Hf [I1 I2 I3 I4 I5 I6] Hsh]. constructor.
  - constructor; cbn [rotate st_mem st_imms st_l0 st_lvls]; try assumption.
    + constructor.
    + apply Forall_app. split; [exact Hi | now repeat constructor].
    + rewrite all_recs_rotate. exact Hp.
  - rewrite scan_srcs_rotate. apply scan_inv_cons. split; [split; [constructor | intros x []]|].
    split; [apply src_before_nil_l | exact Ht].
  - eapply content_ok_same; [apply all_recs_rotate | exact Hc].
  - exact Hf.
  - constructor; cbn [rotate st_mem st_memid st_imms st_l0 st_lvls st_maxfid].
    + exact I1.
    + apply ssorted_app; [exact I2 | repeat constructor |].
      intros a b Ha [<-|[]]. cbn [fst]. now apply I5.
    + intros t m Ht' Hm'. apply in_app_or in Hm' as [Hm'|[<-|[]]]; [now apply I3 | cbn [fst]; now apply I4].
    + intros t Ht'. specialize (I4 t Ht'). lia.
    + intros m Hm'. apply in_app_or in Hm' as [Hm'|[<-|[]]]; [specialize (I5 m Hm'); lia | cbn [fst]; lia].
    + lia.
  - exact Hsh.
Qed.

(** * flush *)
Lemma tiers_of_flush_split s id recs rest :
  st_imms s = (id, recs) :: rest ->
  tiers_of s = ([[st_mem s]] ++ map (fun m => [snd m]) (rev rest))
               ++ [recs] :: map t_recs (rev (st_l0 s)) :: map level_srcs (st_lvls s).
Proof.
  intro E. unfold tiers_of. rewrite E. cbn [rev]. rewrite map_app. cbn [map snd].
  rewrite <- ?app_assoc. reflexivity.
Qed.

Lemma tiers_of_flush_empty s id rest :
  st_imms s = (id, []) :: rest ->
  tiers_of (flush s) = ([[st_mem s]] ++ map (fun m => [snd m]) (rev rest))
                       ++ map t_recs (rev (st_l0 s)) :: map level_srcs (st_lvls s).
Proof.
  intro E. unfold tiers_of, flush. rewrite E. cbn [st_mem st_imms st_l0 st_lvls].
  rewrite <- ?app_assoc. reflexivity.
Qed.

Lemma tiers_of_flush_nonempty s id x recs rest :
  st_imms s = (id, x :: recs) :: rest ->
  tiers_of (flush s) = ([[st_mem s]] ++ map (fun m => [snd m]) (rev rest))
                       ++ ([x :: recs] ++ map t_recs (rev (st_l0 s))) :: map level_srcs (st_lvls s).
Proof.
  intro E. unfold tiers_of, flush. rewrite E. cbn [st_mem st_imms st_l0 st_lvls].
  rewrite rev_app_distr. cbn [rev app map t_recs]. rewrite <- ?app_assoc. reflexivity.
Qed.

Lemma all_recs_flush s : all_recs (tiers_of (flush s)) = all_recs (tiers_of s).
Proof.
  destruct (st_imms s) as [|[id recs] rest] eqn:E.
  - unfold flush. now rewrite E.
  - rewrite (tiers_of_flush_split s id recs rest E). destruct recs as [|x recs].
    + rewrite (tiers_of_flush_empty s id rest E). rewrite !all_recs_app_eq, !all_recs_cons_eq. reflexivity.
    + rewrite (tiers_of_flush_nonempty s id x recs rest E).
      rewrite !all_recs_app_eq, !all_recs_cons_eq, concat_app, <- !app_assoc. reflexivity.
Qed.

Lemma flush_scan_inv s : scan_inv (scan_srcs s) -> scan_inv (scan_srcs (flush s)).
Proof.
  unfold scan_srcs. destruct (st_imms s) as [|[id recs] rest] eqn:E.
  - unfold flush. now rewrite E.
  - rewrite (tiers_of_flush_split s id recs rest E). destruct recs as [|x recs].
    + rewrite (tiers_of_flush_empty s id rest E).
      set (P := [[st_mem s]] ++ map (fun m => [snd m]) (rev rest)).
      rewrite !(concat_app P).
      exact (tier_ok_drop_src (concat P) [] (map t_recs (rev (st_l0 s)) ++ concat (map level_srcs (st_lvls s)))).
    + rewrite (tiers_of_flush_nonempty s id x recs rest E).
      set (P := [[st_mem s]] ++ map (fun m => [snd m]) (rev rest)).
      rewrite !(concat_app P). cbn [concat]. now rewrite <- !app_assoc.
Qed.

Lemma flush_nil s : st_imms s = [] -> flush s = s.
Proof. intro E. unfold flush. now rewrite E. Qed.

Definition flush_l0 (s : state) (id : N) (recs : list rec) : list table :=
  match recs with [] => st_l0 s | _ => st_l0 s ++ [{| t_fid := id; t_recs := recs |}] end.

Lemma flush_cons s id recs rest :
  st_imms s = (id, recs) :: rest ->
  flush s = {| st_mem := st_mem s; st_memid := st_memid s; st_imms := rest;
               st_l0 := flush_l0 s id recs; st_lvls := st_lvls s; st_maxfid := st_maxfid s |}.
Proof. intro E. unfold flush. now rewrite E. Qed.

Lemma flush_l0_in s id recs t : In t (flush_l0 s id recs) -> In t (st_l0 s) \/ t = {| t_fid := id; t_recs := recs |}.
Proof.
  unfold flush_l0. destruct recs; [now left|]. intro H. apply in_app_or in H as [H|[<-|[]]]; [now left | now right].
Qed.

Theorem flush_J s ws : J s ws -> J (flush s) ws.
Proof.
  intros HJ. destruct (st_imms s) as [|[id recs] rest] eqn:E; [now rewrite flush_nil|].
  pose proof HJ as [[Hm Hi Hl Hv Hp] Ht Hc Hf [I1 I2 I3 I4 I5 I6] Hsh].
  rewrite E in Hi, I2, I3, I5.
  inversion Hi as [|? ? Hr Hi']; subst. cbn [snd] in Hr.
  inversion I2 as [|? ? I2s I2f]; subst. rewrite Forall_forall in I2f.
  constructor.
  - constructor; [| | | |rewrite all_recs_flush; exact Hp];
      rewrite (flush_cons s id recs rest E); cbn [st_mem st_imms st_l0 st_lvls]; try assumption.
    unfold flush_l0. destruct recs; [exact Hl|].
    apply Forall_app. split; [exact Hl | constructor; [exact Hr | constructor]].
  - now apply flush_scan_inv.
  - eapply content_ok_same; [apply all_recs_flush | exact Hc].
  - exact Hf.
  - rewrite (flush_cons s id recs rest E).
    constructor; cbn [st_mem st_memid st_imms st_l0 st_lvls st_maxfid].
    + unfold flush_l0. destruct recs as [|r0 recs]; [exact I1|].
      apply ssorted_app; [exact I1 | repeat constructor|].
      intros a b Ha [<-|[]]. cbn [t_fid]. apply (I3 a (id, r0 :: recs) Ha). now left.
    + exact I2s.
    + intros t m Hin Hm'. apply flush_l0_in in Hin as [Hin| ->].
      * apply I3; [exact Hin | now right].
      * apply (I2f m Hm').
    + intros t Hin. apply flush_l0_in in Hin as [Hin| ->]; [now apply I4|]. apply (I5 (id, recs)). now left.
    + intros m Hm'. apply I5. now right.
    + exact I6.
  - unfold shards_sorted. rewrite (flush_cons s id recs rest E). exact Hsh.
Qed.

(** * reopen: with ordered file ids and sorted levels, Close + Open rebuilds the same state *)
Lemma main_disjoint_lsorted ts :
  Forall (fun t => sorted (t_recs t)) ts -> main_disjoint ts -> lsorted min_leb ts.
Proof.
  induction ts as [|t ts IH]; intros Hs Hd; [constructor|].
  inversion Hs as [|? ? Hst Hs']; subst. destruct Hd as (Hne & Hlt & Hd).
  constructor; [now apply IH|]. rewrite Forall_forall in *. intros u Hu.
  specialize (Hlt u Hu). pose proof (min_le_max t Hst Hne) as Hmm.
  pose proof (bytes_leb_ltb_trans _ _ _ Hmm Hlt) as Hl. unfold bytes_ltb in Hl.
  unfold min_leb, kcmp. destruct (bytes_cmp (t_min t) (t_min u)); try discriminate. reflexivity.
Qed.

Lemma map_id_in {A} (f : A -> A) l : (forall x, In x l -> f x = x) -> map f l = l.
Proof.
  induction l as [|x l IH]; intro H; [reflexivity|]. cbn [map]. rewrite H by now left.
  f_equal. apply IH. intros y Hy. apply H. now right.
Qed.

Theorem reopen_id s : src_inv s -> ids_inv s -> shards_sorted s -> reopen s = s.
Proof.
  intros Hsrc Hids Hsh. destruct s as [mem memid imms l0 lvls maxfid]. unfold reopen.
  cbn [st_mem st_memid st_imms st_l0 st_lvls st_maxfid]. f_equal.
  - apply isort_id. refine (ssorted_impl _ _ _ _ (ii_l0 _ Hids)). cbn [st_l0].
    intros a b Hab. unfold fid_leb. apply N.leb_le. lia.
  - apply map_id_in. intros lv Hlv. destruct lv as [sh mn]. cbn [lv_shards lv_main].
    pose proof (sv_lvls _ Hsrc) as Hl. cbn [st_lvls] in Hl. rewrite Forall_forall in Hl.
    destruct (Hl _ Hlv) as (_ & Hms & Hmd). cbn [lv_main] in Hms, Hmd.
    unfold shards_sorted in Hsh. cbn [st_lvls] in Hsh. rewrite Forall_forall in Hsh.
    specialize (Hsh _ Hlv). cbn [lv_shards] in Hsh. f_equal.
    + apply map_id_in. intros x Hx. apply isort_id. rewrite Forall_forall in Hsh. now apply Hsh.
    + apply isort_id. now apply main_disjoint_lsorted.
Qed.

Theorem reopen_same_reads s ws : J s ws -> forall k v, get (reopen s) k v = get s k v.
Proof. intros [H1 _ _ _ H5 H6] k v. now rewrite reopen_id. Qed.

Theorem reopen_J s ws : J s ws -> J (reopen s) ws.
Proof. intros HJ. pose proof HJ as [H1 _ _ _ H5 H6]. now rewrite reopen_id. Qed.

(** * Histories *)
Definition geqb (x y : rec) : bool :=
  (r_ver y <? r_ver x) || ((r_ver x =? r_ver y) && (r_seq y <=? r_seq x)).

Lemma geqb_spec x y : geqb x y = true <-> geq x y.
Proof.
  unfold geqb, geq. rewrite orb_true_iff, andb_true_iff, N.ltb_lt, N.eqb_eq, N.leb_le. tauto.
Qed.

(** A write is admissible after the history [ws]: positive version and a fresh
    larger acknowledgement index (ghost state: the index of the write in the
    history).  Its version may be anything — smaller, equal or larger than
    the earlier versions of its key. *)
Definition put_okb (ws : list rec) (r : rec) : bool :=
  (0 <? r_ver r) && forallb (fun y => r_seq y <? r_seq r) ws.

Fixpoint puts_monotone_from (ws : list rec) (ops : list op) : bool :=
  match ops with
  | [] => true
  | OPut r :: ops' => put_okb ws r && puts_monotone_from (ws ++ [r]) ops'
  | _ :: ops' => puts_monotone_from ws ops'
  end.
Definition puts_monotone (ops : list op) : bool := puts_monotone_from [] ops.

Lemma put_okb_spec ws r :
  put_okb ws r = true -> 0 < r_ver r /\ (forall y, In y ws -> r_seq y < r_seq r).
Proof.
  unfold put_okb. rewrite andb_true_iff, N.ltb_lt, forallb_forall. intros [H0 H].
  split; [exact H0|]. intros y Hy. now apply N.ltb_lt, H.
Qed.

Definition mlf_op (o : op) : bool :=
  match o with OPut _ | ORotate | OFlush => true | _ => false end.
Definition mlfr_op (o : op) : bool :=
  match o with OPut _ | ORotate | OFlush | OReopen => true | _ => false end.

Lemma writes_cons o ops : writes (o :: ops) = match o with OPut r => [r] | _ => [] end ++ writes ops.
Proof. reflexivity. Qed.

Lemma run_J ops : forall s ws,
  J s ws -> forallb mlfr_op ops = true -> puts_monotone_from ws ops = true ->
  J (run s ops) (ws ++ writes ops).
Proof.
  induction ops as [|o ops IH]; intros s ws HJ Hk Hm.
  - cbn [run fold_left writes map concat]. now rewrite app_nil_r.
  - cbn [forallb] in Hk. apply andb_true_iff in Hk as [Ho Hk]. rewrite writes_cons.
    change (run s (o :: ops)) with (run (apply s o) ops).
    destruct o as [r| | | |]; try discriminate; cbn [apply puts_monotone_from] in *.
    + apply andb_true_iff in Hm as [Hp Hm]. apply put_okb_spec in Hp as (P1 & P2).
      rewrite app_assoc. apply IH; [|exact Hk | exact Hm]. now apply put_J.
    + apply IH; [|exact Hk | exact Hm]. now apply rotate_J.
    + apply IH; [|exact Hk | exact Hm]. now apply flush_J.
    + apply IH; [|exact Hk | exact Hm]. now apply reopen_J.
Qed.

Lemma forallb_mlf_mlfr ops : forallb mlf_op ops = true -> forallb mlfr_op ops = true.
Proof.
  rewrite !forallb_forall. intros H o Ho. specialize (H o Ho). destruct o; try discriminate; reflexivity.
Qed.

(** Reads after any history of admissible writes, rotations, flushes and
    reopens return the latest acknowledged write. *)
Theorem lww_reopen m ops :
  forallb mlfr_op ops = true -> puts_monotone ops = true ->
  forall k v, get (run (init m) ops) k v = latest_at (writes ops) k v.
Proof.
  intros Hk Hm k v. apply J_get_latest.
  apply (run_J ops (init m) [] (J_init m) Hk Hm).
Qed.

Theorem lww_memtables_l0 m ops :
  forallb mlf_op ops = true -> puts_monotone ops = true ->
  forall k v, get (run (init m) ops) k v = latest_at (writes ops) k v.
Proof. intros Hk. apply lww_reopen. now apply forallb_mlf_mlfr. Qed.

Theorem reopen_run_same_reads m ops :
  forallb mlfr_op ops = true -> puts_monotone ops = true ->
  forall k v, get (reopen (run (init m) ops)) k v = get (run (init m) ops) k v.
Proof.
  intros Hk Hm. eapply reopen_same_reads. apply (run_J ops (init m) [] (J_init m) Hk Hm).
Qed.

(** The acknowledgement index is ghost state: number the writes of any
    history in order and the only remaining condition is a positive version.
    Versions may be written in ANY order. *)
Definition set_seq (r : rec) (n : N) : rec :=
  {| r_key := r_key r; r_ver := r_ver r; r_val := r_val r; r_meta := r_meta r; r_exp := r_exp r; r_seq := n |}.

Fixpoint number_from (n : N) (ops : list op) : list op :=
  match ops with
  | [] => []
  | OPut r :: ops' => OPut (set_seq r (n + 1)) :: number_from (n + 1) ops'
  | o :: ops' => o :: number_from n ops'
  end.
Definition number (ops : list op) : list op := number_from 0 ops.

Definition ver_pos (o : op) : bool := match o with OPut r => 0 <? r_ver r | _ => true end.

Lemma number_from_monotone ops : forall n ws,
  forallb ver_pos ops = true -> (forall y, In y ws -> r_seq y <= n) ->
  puts_monotone_from ws (number_from n ops) = true.
Proof.
  induction ops as [|o ops IH]; intros n ws Hp Hws; [reflexivity|].
  cbn [forallb] in Hp. apply andb_true_iff in Hp as [Ho Hp].
  destruct o as [r| | | |]; cbn [number_from puts_monotone_from]; try (now apply IH).
  apply andb_true_iff. split.
  - unfold put_okb. cbn [set_seq r_ver r_seq]. apply andb_true_iff. split; [exact Ho|].
    apply forallb_forall. intros y Hy. apply N.ltb_lt. specialize (Hws y Hy). lia.
  - apply IH; [exact Hp|]. intros y Hy. apply in_app_or in Hy as [Hy|[<-|[]]].
    + specialize (Hws y Hy). lia.
    + cbn [set_seq r_seq]. lia.
Qed.

Lemma number_from_kind f ops :
  (forall r r', f (OPut r) = f (OPut r')) -> forall n, forallb f (number_from n ops) = forallb f ops.
Proof.
  intro Hf. induction ops as [|o ops IH]; intro n; [reflexivity|].
  destruct o; cbn [number_from forallb]; rewrite IH; try reflexivity. now rewrite (Hf _ r).
Qed.

Theorem reads_any_version_order m ops :
  forallb mlfr_op ops = true -> forallb ver_pos ops = true ->
  forall k v, get (run (init m) (number ops)) k v = latest_at (writes (number ops)) k v.
Proof.
  intros Hk Hp. apply lww_reopen.
  - unfold number. rewrite number_from_kind; [exact Hk | reflexivity].
  - apply number_from_monotone; [exact Hp | intros y []].
Qed.

(** Out-of-order versions: the newer version sits in L0 under an older one in
    the memtable, and below both in a sealed memtable. *)
Definition any_order_example : list op :=
  [OPut (mk "a" 7 "a7" 0); ORotate; OFlush; OPut (mk "a" 5 "a5" 0); ORotate;
   OPut (mk "a" 3 "a3" 0); OPut (mk "a" 9 "a9" 0); OReopen; OPut (mk "a" 6 "a6" 0)].

Example any_order_example_ok :
  forallb mlfr_op any_order_example = true /\ forallb ver_pos any_order_example = true /\
  map (fun v => option_map r_val (get (run (init 1) (number any_order_example)) (of_string "a") v)) [2; 4; 5; 6; 8; 10]
  = [None; Some (of_string "a3"); Some (of_string "a5"); Some (of_string "a6"); Some (of_string "a7"); Some (of_string "a9")].
Proof. vm_compute. repeat split; reflexivity. Qed.

(** The plain API: every write carries the same positive (sentinel) version
    and acknowledgement indices increase — such histories are admissible. *)
Fixpoint plain_from (c n : N) (ops : list op) : bool :=
  match ops with
  | [] => true
  | OPut r :: ops' => (r_ver r =? c) && (n <? r_seq r) && plain_from c (r_seq r) ops'
  | _ :: ops' => plain_from c n ops'
  end.
Definition plain_api (c : N) (ops : list op) : bool := (0 <? c) && plain_from c 0 ops.

Lemma plain_from_monotone c ops : 0 < c -> forall n ws,
  (forall y, In y ws -> r_ver y = c /\ r_seq y <= n) ->
  plain_from c n ops = true -> puts_monotone_from ws ops = true.
Proof.
  intro Hc. induction ops as [|o ops IH]; intros n ws Hws Hp; [reflexivity|].
  destruct o as [r| | | |]; cbn [plain_from puts_monotone_from] in *; try (now apply (IH n)).
  apply andb_true_iff in Hp as [Hp Hp3]. apply andb_true_iff in Hp as [Hp1 Hp2].
  apply N.eqb_eq in Hp1. apply N.ltb_lt in Hp2. apply andb_true_iff. split.
  - unfold put_okb. apply andb_true_iff. split; [apply N.ltb_lt; lia|].
    apply forallb_forall. intros y Hy. destruct (Hws y Hy) as [Hv Hs]. apply N.ltb_lt. lia.
  - apply (IH (r_seq r)); [|exact Hp3]. intros y Hy. apply in_app_or in Hy as [Hy|[<-|[]]].
    + destruct (Hws y Hy). split; [assumption | lia].
    + split; [exact Hp1 | lia].
Qed.

Theorem lww_plain_api m c ops :
  forallb mlfr_op ops = true -> plain_api c ops = true ->
  forall k v, get (run (init m) ops) k v = latest_at (writes ops) k v.
Proof.
  intros Hk Hp. apply andb_true_iff in Hp as [Hc Hp]. apply N.ltb_lt in Hc.
  apply lww_reopen; [exact Hk|]. apply (plain_from_monotone c ops Hc 0 []); [intros y [] | exact Hp].
Qed.

Example plain_api_l0_tie : forallb mlfr_op l0_tie = true /\ plain_api mx l0_tie = true.
Proof. vm_compute. split; reflexivity. Qed.

(** The hypotheses are satisfiable: plain-API overwrites (sentinel version,
    increasing acknowledgement index) and versioned writes with per-key
    increasing versions, across rotations, flushes and a reopen. *)
Definition lww_example : list op :=
  [OPut (mk "k" mx "v1" 1); OPut (mk "a" 3 "a3" 2); ORotate; OPut (mk "k" mx "v2" 3); OFlush;
   OPut (mk "a" 7 "a7" 4); ORotate; ORotate; OFlush; OReopen; OPut (mk "k" mx "v3" 5); OFlush;
   OPut (mk "a" 7 "a7'" 6); OFlush].

Example lww_example_ok :
  forallb mlfr_op lww_example = true /\ puts_monotone lww_example = true /\
  option_map r_val (get (run (init 1) lww_example) (of_string "k") mx) = Some (of_string "v3") /\
  option_map r_val (get (run (init 1) lww_example) (of_string "a") 5) = Some (of_string "a3").
Proof. vm_compute. repeat split; reflexivity. Qed.

Definition lww_example_l0 : list op :=
  [OPut (mk "k" mx "v1" 1); OPut (mk "a" 3 "a3" 2); ORotate; OPut (mk "k" mx "v2" 3); OFlush;
   OPut (mk "a" 7 "a7" 4); ORotate; ORotate; OFlush; OPut (mk "k" mx "v3" 5); OFlush].

Example lww_example_l0_ok :
  forallb mlf_op lww_example_l0 = true /\ puts_monotone lww_example_l0 = true /\
  List.length (st_l0 (run (init 1) lww_example_l0)) = 2%nat.
Proof. vm_compute. repeat split; reflexivity. Qed.

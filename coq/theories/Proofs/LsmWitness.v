(** Concrete histories: one on which the faithful model does not return the
    latest write, and regression examples of repaired rules. *)
From Coq Require Import List NArith Bool String.
From NoKV Require Import Base.Bytes Model.Lsm Spec.MvccSpec.
Import ListNotations.
Local Open Scope N_scope.

Definition writes (ops : list op) : list rec :=
  List.concat (map (fun o => match o with OPut r => [r] | _ => [] end) ops).

Definition mx : N := 18446744073709551615.
Definition mk (k : string) (ver : N) (v : string) (seq : N) : rec :=
  {| r_key := of_string k; r_ver := ver; r_val := of_string v; r_meta := 0; r_exp := 0; r_seq := seq |}.

(** Plain API (every write carries the sentinel version): Set k v1; flush;
    Set a v2; Set k v3; flush; both L0 tables move into one ingest buffer,
    which orders them by smallest key: Get k returns v1. *)
Definition ingest_tie : list op :=
  [OPut (mk "k" mx "v1" 1); ORotate; OFlush;
   OPut (mk "a" mx "v2" 2); OPut (mk "k" mx "v3" 3); ORotate; OFlush;
   OCompact KMove 6 [1; 2] [] []].

Lemma ingest_tie_refuted :
  exists ops k v, option_map r_val (get (run (init 1) ops) k v)
                  <> option_map r_val (latest_at (writes ops) k v).
Proof. exists ingest_tie, (of_string "k"), mx. vm_compute. discriminate. Qed.

Example ingest_tie_values :
  option_map r_val (get (run (init 1) ingest_tie) (of_string "k") mx) = Some (of_string "v1") /\
  option_map r_val (latest_at (writes ingest_tie) (of_string "k") mx) = Some (of_string "v3").
Proof. vm_compute. split; reflexivity. Qed.

(** Versions written out of order across sources: write (a,7); flush; write
    (a,5).  Before the repair of the first-hit rule a read at version 10
    returned the version-5 entry of the memtable (C02-F4); the scan now goes on
    to L0 and returns version 7. *)
Definition out_of_order : list op :=
  [OPut (mk "a" 7 "new" 1); ORotate; OFlush; OPut (mk "a" 5 "old" 2)].

Example out_of_order_ok :
  option_map r_val (get (run (init 1) out_of_order) (of_string "a") 10) = Some (of_string "new") /\
  option_map r_val (latest_at (writes out_of_order) (of_string "a") 10) = Some (of_string "new") /\
  option_map r_val (get (run (init 1) out_of_order) (of_string "a") 6) = Some (of_string "old").
Proof. vm_compute. repeat split; reflexivity. Qed.

(** The repaired L0 rule: two flushes of the same plain key, the newer wins. *)
Definition l0_tie : list op :=
  [OPut (mk "a" mx "v1" 1); ORotate; OFlush; OPut (mk "a" mx "v2" 2); ORotate; OFlush].
Example l0_tie_ok :
  option_map r_val (get (run (init 1) l0_tie) (of_string "a") mx) = Some (of_string "v2").
Proof. vm_compute. reflexivity. Qed.

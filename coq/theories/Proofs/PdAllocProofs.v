(** Proofs for C27 (PD allocators and checkpoint). *)
From Coq Require Import List NArith Bool Arith Lia ZifyN ZifyNat ZifyBool.
From NoKV Require Import Base.Sched Model.SchedLib Model.PdAlloc Spec.PdAllocSpec Proofs.SchedLibProofs.
Import ListNotations.
Local Open Scope N_scope.

Lemma eff_count_pos r : 1 <= eff_count r.
Proof. unfold eff_count. destruct (r_count r =? 0) eqn:E; lia. Qed.

Lemma chain_weaken lo hi hi' log : hi <= hi' -> chain lo hi log -> chain lo hi' log.
Proof. destruct log as [|[f c] r]; cbn; intros; [lia|]. intuition lia. Qed.

Lemma chain_lo_le lo hi log : chain lo hi log -> lo <= hi.
Proof.
  revert hi; induction log as [|[f c] r IH]; cbn; intros hi H; [exact H|].
  destruct H as (H1 & H2 & H3 & H4). specialize (IH _ H4). lia.
Qed.

Lemma chain_above lo hi log f c : chain lo hi log -> In (f, c) log -> lo < f /\ f + c - 1 <= hi /\ 1 <= c.
Proof.
  revert hi; induction log as [|[f' c'] r IH]; cbn; intros hi H Hin; [tauto|].
  destruct H as (H1 & H2 & H3 & H4). destruct Hin as [Heq|Hin].
  - inversion Heq; subst. apply chain_lo_le in H4. lia.
  - specialize (IH _ H4 Hin). lia.
Qed.

(** newer entries of a chain lie strictly above older ones *)
Lemma chain_sorted lo hi l1 e1 l2 e2 l3 :
  chain lo hi (l1 ++ e1 :: l2 ++ e2 :: l3) -> fst e2 + snd e2 - 1 < fst e1.
Proof.
  revert hi; induction l1 as [|[f c] l1 IH]; cbn; intros hi H.
  - destruct e1 as [f1 c1]. destruct H as (H1 & H2 & H3 & H4). destruct e2 as [f2 c2]. cbn.
    assert (Hin : In (f2, c2) (l2 ++ (f2, c2) :: l3)) by (apply in_or_app; right; now left).
    pose proof (chain_above _ _ _ _ _ H4 Hin). lia.
  - destruct H as (_ & _ & _ & H4). eauto.
Qed.

Definition critical (p : pc) : bool :=
  match p with PLoadId _ | PLoadTs _ _ | PSave _ _ _ => true | _ => false end.

Definition th_ok (ids tso cki ckt : N) (mu : bool) (th : thread) : Prop :=
  let k := r_kind (th_req th) in
  let n := eff_count (th_req th) in
  let cnt := match k with KId => ids | KTs => tso end in
  match th_pc th with
  | PReserve => True
  | PLock f => f + n - 1 <= cnt
  | PLoadId f => f + n - 1 <= cnt /\ mu = true
  | PLoadTs f id => f + n - 1 <= cnt /\ mu = true /\ cki <= id /\ id <= ids /\
                    (k = KId -> f + n - 1 <= id)
  | PSave f id ts => mu = true /\ cki <= id /\ id <= ids /\ ckt <= ts /\ ts <= tso /\
                     f + n - 1 <= match k with KId => id | KTs => ts end
  | PDone _ | PFail _ => True
  end.

Record Inv (g : gstate) : Prop := {
  inv_ck : g_ck_id g <= g_ids g /\ g_ck_ts g <= g_tso g;
  inv_max : g_ids g <= max_u64 - 1 /\ g_tso g <= max_u64 - 1;
  inv_chain : chain (g_base_id g) (g_ids g) (g_log_id g) /\ chain (g_base_ts g) (g_tso g) (g_log_ts g);
  inv_resp : covered (g_ck_id g) (g_ck_ts g) (g_resp g);
  inv_old : covered (g_ck_id g) (g_ck_ts g) (g_resp_old g) /\
            covered (g_base_id g) (g_base_ts g) (g_resp_old g);
  inv_th : forall t th, nth_error (g_threads g) t = Some th ->
             th_ok (g_ids g) (g_tso g) (g_ck_id g) (g_ck_ts g) (g_mu g) th;
  inv_mutex : forall t u th1 th2, nth_error (g_threads g) t = Some th1 -> nth_error (g_threads g) u = Some th2 ->
             critical (th_pc th1) = true -> critical (th_pc th2) = true -> t = u
}.

Lemma th_ok_mono ids tso ids' tso' cki ckt mu th :
  ids <= ids' -> tso <= tso' -> th_ok ids tso cki ckt mu th -> th_ok ids' tso' cki ckt mu th.
Proof.
  unfold th_ok. destruct (th_pc th); destruct (r_kind (th_req th)); intros; intuition lia.
Qed.

Lemma th_ok_noncrit ids tso cki ckt mu cki' ckt' mu' th :
  critical (th_pc th) = false -> th_ok ids tso cki ckt mu th -> th_ok ids tso cki' ckt' mu' th.
Proof. unfold th_ok. destruct (th_pc th); cbn; try discriminate; auto. Qed.

Lemma crit_mu ids tso cki ckt mu th :
  th_ok ids tso cki ckt mu th -> critical (th_pc th) = true -> mu = true.
Proof. unfold th_ok. destruct (th_pc th); cbn; try discriminate; tauto. Qed.

Lemma resolve_spec flag ck :
  ck < max_u64 -> flag <= max_u64 ->
  ck <= counter_of_start (resolve flag ck) /\ counter_of_start (resolve flag ck) <= max_u64 - 1.
Proof.
  intros H1 H2. unfold resolve, counter_of_start.
  destruct (ck <? max_u64) eqn:E; [|lia].
  destruct (flag <? ck + 1) eqn:E2.
  - destruct (ck + 1 =? 0) eqn:E3; lia.
  - destruct (flag =? 0) eqn:E3; lia.
Qed.

Lemma covered_app a b rs1 rs2 : covered a b rs1 -> covered a b rs2 -> covered a b (rs1 ++ rs2).
Proof. intros H1 H2 r Hin. apply in_app_or in Hin as [Hin|Hin]; auto. Qed.

Lemma covered_mono a b a' b' rs : a <= a' -> b <= b' -> covered a b rs -> covered a' b' rs.
Proof. intros Ha Hb H r Hin. specialize (H r Hin). destruct (iv_kind r); lia. Qed.

Lemma Inv_boot ids_flag ts_flag cki ckt reqs old :
  cki < max_u64 -> ckt < max_u64 -> ids_flag <= max_u64 -> ts_flag <= max_u64 ->
  covered cki ckt old ->
  Inv (boot ids_flag ts_flag cki ckt reqs old).
Proof.
  intros H1 H2 H3 H4 Hold.
  pose proof (resolve_spec ids_flag cki H1 H3) as [Ha Hb].
  pose proof (resolve_spec ts_flag ckt H2 H4) as [Hc Hd].
  constructor; cbn.
  - split; assumption.
  - split; assumption.
  - split; lia.
  - intros r [].
  - split; [exact Hold|]. eapply covered_mono; eauto.
  - intros t th Hn. unfold threads_of in Hn. rewrite nth_error_map in Hn.
    destruct (nth_error reqs t); inversion Hn; subst. exact I.
  - intros t u th1 th2 Hn. unfold threads_of in Hn. rewrite nth_error_map in Hn.
    destruct (nth_error reqs t); inversion Hn; subst. discriminate.
Qed.

Lemma Inv_init a b reqs : a <= max_u64 -> b <= max_u64 -> Inv (init a b reqs).
Proof. intros. apply Inv_boot; try assumption; try (unfold max_u64; lia). intros r []. Qed.

Ltac set_nth_cases t u Hn Et :=
  destruct (Nat.eq_dec t u) as [<-|Hne];
  [ erewrite nth_error_set_nth_eq in Hn by eauto; inversion Hn; subst; clear Hn
  | rewrite nth_error_set_nth_neq in Hn by exact Hne ].

Lemma mutex_update (l : list thread) t th p :
  nth_error l t = Some th ->
  (forall a b th1 th2, nth_error l a = Some th1 -> nth_error l b = Some th2 ->
       critical (th_pc th1) = true -> critical (th_pc th2) = true -> a = b) ->
  (critical p = true -> critical (th_pc th) = true \/
       forall u thu, nth_error l u = Some thu -> critical (th_pc thu) = false) ->
  forall a b th1 th2,
    nth_error (set_nth t {| th_req := th_req th; th_pc := p |} l) a = Some th1 ->
    nth_error (set_nth t {| th_req := th_req th; th_pc := p |} l) b = Some th2 ->
    critical (th_pc th1) = true -> critical (th_pc th2) = true -> a = b.
Proof.
  intros Et Hm Hp a b th1 th2 Ha Hb C1 C2.
  destruct (Nat.eq_dec t a) as [<-|Hna]; destruct (Nat.eq_dec t b) as [<-|Hnb]; auto.
  - erewrite nth_error_set_nth_eq in Ha by eauto. inversion Ha; subst. cbn in C1.
    rewrite nth_error_set_nth_neq in Hb by exact Hnb.
    destruct (Hp C1) as [Hc|Hc]; [eapply Hm; eauto|]. rewrite (Hc _ _ Hb) in C2. discriminate.
  - erewrite nth_error_set_nth_eq in Hb by eauto. inversion Hb; subst. cbn in C2.
    rewrite nth_error_set_nth_neq in Ha by exact Hna.
    destruct (Hp C2) as [Hc|Hc]; [eapply Hm; eauto|]. rewrite (Hc _ _ Ha) in C1. discriminate.
  - rewrite nth_error_set_nth_neq in Ha by exact Hna. rewrite nth_error_set_nth_neq in Hb by exact Hnb.
    eapply Hm; eauto.
Qed.

Section Failing.
Variable failing : nat -> bool.

Lemma Inv_step g l g' : Inv g -> tstep true failing g l = Some g' -> Inv g'.
Proof.
  intros HI Hs. pose proof HI as [[Hc1 Hc2] [Hm1 Hm2] [Hch1 Hch2] Hr [Ho1 Ho2] Ht Hmx].
  destruct l as [t|a b reqs]; cbn in Hs.
  2:{ destruct ((max_u64 <? a) || (max_u64 <? b)) eqn:E; [discriminate|]. inversion Hs; subst.
      apply orb_false_iff in E as [E1 E2].
      apply N.ltb_ge in E1. apply N.ltb_ge in E2.
      apply Inv_boot; [unfold max_u64 in *; lia|unfold max_u64 in *; lia|exact E1|exact E2|now apply covered_app]. }
  destruct (nth_error (g_threads g) t) as [th|] eqn:Et; [|discriminate].
  pose proof (Ht _ _ Et) as Hth. unfold thread_step in Hs. unfold th_ok in Hth.
  pose proof (eff_count_pos (th_req th)) as Hn1.
  destruct (th_pc th) as [|f|f|f id|f id ts|f|f] eqn:Epc.
  - (* reserve *)
    destruct (r_kind (th_req th)) eqn:Ek.
    + destruct (max_u64 - 1 <? g_ids g + eff_count (th_req th)) eqn:Eg; [discriminate|].
      apply N.ltb_ge in Eg. inversion Hs; subst; clear Hs. constructor; cbn.
      * split; lia.
      * unfold max_u64 in *; split; lia.
      * split; [|exact Hch2]. repeat split; try lia.
        replace (g_ids g + 1 - 1) with (g_ids g) by lia. exact Hch1.
      * exact Hr.
      * split; assumption.
      * intros u thu Hn. unfold set_thread in Hn. set_nth_cases t u Hn Et.
        -- unfold th_ok. cbn. rewrite Ek. lia.
        -- eapply th_ok_mono; [| |eauto]; lia.
      * unfold set_thread. eapply mutex_update; eauto. discriminate.
    + destruct (max_u64 - 1 <? g_tso g + eff_count (th_req th)) eqn:Eg; [discriminate|].
      apply N.ltb_ge in Eg. inversion Hs; subst; clear Hs. constructor; cbn.
      * split; lia.
      * unfold max_u64 in *; split; lia.
      * split; [exact Hch1|]. repeat split; try lia.
        replace (g_tso g + 1 - 1) with (g_tso g) by lia. exact Hch2.
      * exact Hr.
      * split; assumption.
      * intros u thu Hn. unfold set_thread in Hn. set_nth_cases t u Hn Et.
        -- unfold th_ok. cbn. rewrite Ek. lia.
        -- eapply th_ok_mono; [| |eauto]; lia.
      * unfold set_thread. eapply mutex_update; eauto. discriminate.
  - (* lock *)
    destruct (g_mu g) eqn:Emu; [discriminate|]. inversion Hs; subst; clear Hs.
    assert (Hnc : forall u thu, nth_error (g_threads g) u = Some thu -> critical (th_pc thu) = false).
    { intros u thu Hn. destruct (critical (th_pc thu)) eqn:C; [|reflexivity].
      pose proof (crit_mu _ _ _ _ _ _ (Ht _ _ Hn) C). congruence. }
    constructor; cbn.
    + split; assumption.
    + split; assumption.
    + split; assumption.
    + exact Hr.
    + split; assumption.
    + intros u thu Hn. unfold set_thread in Hn. set_nth_cases t u Hn Et.
      * unfold th_ok. cbn. auto.
      * eapply th_ok_noncrit; eauto.
    + unfold set_thread. eapply mutex_update; eauto.
  - (* load id *)
    inversion Hs; subst; clear Hs. destruct Hth as [Hb Hmu].
    constructor; cbn.
    + split; assumption.
    + split; assumption.
    + split; assumption.
    + exact Hr.
    + split; assumption.
    + intros u thu Hn. unfold set_thread in Hn. set_nth_cases t u Hn Et; [|eauto].
      unfold th_ok. cbn. repeat split; auto; try lia. intros Ek. rewrite Ek in Hb. exact Hb.
    + unfold set_thread. eapply mutex_update; eauto. intros _. left. now rewrite Epc.
  - (* load ts *)
    inversion Hs; subst; clear Hs. destruct Hth as (Hb & Hmu & H1 & H2 & H3).
    constructor; cbn.
    + split; assumption.
    + split; assumption.
    + split; assumption.
    + exact Hr.
    + split; assumption.
    + intros u thu Hn. unfold set_thread in Hn. set_nth_cases t u Hn Et; [|eauto].
      unfold th_ok. cbn. repeat split; auto; try lia.
      destruct (r_kind (th_req th)); [now apply H3|exact Hb].
    + unfold set_thread. eapply mutex_update; eauto. intros _. left. now rewrite Epc.
  - (* save fails *)
    destruct (failing t) eqn:Ef.
    { inversion Hs; subst; clear Hs. destruct Hth as (Hmu & H1 & H2 & H3 & H4 & H5).
      constructor; cbn.
      + split; assumption.
      + split; assumption.
      + split; assumption.
      + exact Hr.
      + split; assumption.
      + intros u thu Hn. unfold set_thread in Hn. set_nth_cases t u Hn Et; [exact I|].
        eapply th_ok_noncrit; [|eauto].
        destruct (critical (th_pc thu)) eqn:C; [|reflexivity]. exfalso. apply Hne.
        eapply Hmx; eauto. now rewrite Epc.
      + unfold set_thread. eapply mutex_update; eauto. discriminate. }
    (* save *)
    inversion Hs; subst; clear Hs. destruct Hth as (Hmu & H1 & H2 & H3 & H4 & H5).
    constructor; cbn.
    + split; assumption.
    + split; assumption.
    + split; assumption.
    + intros r [<-|Hin]; [unfold iv_end, iv_kind, iv_first, iv_count; cbn; destruct (r_kind (th_req th)); exact H5|].
      eapply covered_mono; [| |exact Hr|exact Hin]; lia.
    + split; [|exact Ho2]. eapply covered_mono; [| |exact Ho1]; lia.
    + intros u thu Hn. unfold set_thread in Hn. set_nth_cases t u Hn Et; [exact I|].
      eapply th_ok_noncrit; [|eauto].
      destruct (critical (th_pc thu)) eqn:C; [|reflexivity]. exfalso. apply Hne.
      eapply Hmx; eauto. now rewrite Epc.
    + unfold set_thread. eapply mutex_update; eauto. discriminate.
  - discriminate.
  - discriminate.
Qed.

Lemma Inv_reachable a b reqs g :
  a <= max_u64 -> b <= max_u64 -> reachable (tstep true failing) (init a b reqs) g -> Inv g.
Proof.
  intros Ha Hb. apply inv_reachable; [now apply Inv_init | intros; eapply Inv_step; eauto].
Qed.

(** * the exported statements *)
Theorem pd_unique_increasing a b reqs g k :
  a <= max_u64 -> b <= max_u64 -> reachable (tstep true failing) (init a b reqs) g ->
  chain (base g k) (counter g k) (rlog g k) /\
  forall l1 e1 l2 e2 l3, rlog g k = l1 ++ e1 :: l2 ++ e2 :: l3 ->
    1 <= snd e1 /\ 1 <= snd e2 /\ fst e2 + snd e2 - 1 < fst e1.
Proof.
  intros Ha Hb Hr. pose proof (Inv_reachable _ _ _ _ Ha Hb Hr) as [_ _ [H1 H2] _ _ _ _].
  assert (Hc : chain (base g k) (counter g k) (rlog g k)) by (destruct k; assumption).
  split; [exact Hc|]. intros l1 e1 l2 e2 l3 E. rewrite E in Hc.
  split; [|split].
  - destruct e1 as [f c]. eapply (chain_above _ _ _ f c Hc). apply in_or_app. right. now left.
  - destruct e2 as [f c]. eapply (chain_above _ _ _ f c Hc). apply in_or_app. right. right.
    apply in_or_app. right. now left.
  - eapply chain_sorted; eauto.
Qed.

Theorem pd_checkpoint_covers a b reqs g :
  a <= max_u64 -> b <= max_u64 -> reachable (tstep true failing) (init a b reqs) g ->
  covered (g_ck_id g) (g_ck_ts g) (g_resp g ++ g_resp_old g).
Proof.
  intros Ha Hb Hr. pose proof (Inv_reachable _ _ _ _ Ha Hb Hr) as [_ _ _ H1 [H2 _] _ _].
  now apply covered_app.
Qed.

(** every response of an earlier incarnation lies below every reservation of the current one *)
Theorem pd_no_reuse_after_restart a b reqs g :
  a <= max_u64 -> b <= max_u64 -> reachable (tstep true failing) (init a b reqs) g ->
  forall r f c, In r (g_resp_old g) -> In (f, c) (rlog g (iv_kind r)) -> iv_end r < f.
Proof.
  intros Ha Hb Hr r f c Hin Hlog.
  pose proof (Inv_reachable _ _ _ _ Ha Hb Hr) as [_ _ [H1 H2] _ [_ H3] _ _].
  specialize (H3 r Hin). destruct (iv_kind r); cbn in *.
  - pose proof (chain_above _ _ _ _ _ H1 Hlog). lia.
  - pose proof (chain_above _ _ _ _ _ H2 Hlog). lia.
Qed.

(** restarting at any reachable state resumes strictly above everything responded *)
Theorem pd_restart_above a b reqs g a2 b2 reqs2 g2 :
  a <= max_u64 -> b <= max_u64 -> reachable (tstep true failing) (init a b reqs) g ->
  tstep true failing g (Crash a2 b2 reqs2) = Some g2 ->
  forall r, In r (g_resp g ++ g_resp_old g) -> iv_end r <= counter g2 (iv_kind r).
Proof.
  intros Ha Hb Hr Hs r Hin.
  assert (Hr2 : reachable (tstep true failing) (init a b reqs) g2) by (eapply reach_step; eauto).
  pose proof (Inv_reachable _ _ _ _ Ha Hb Hr2) as [[Hc1 Hc2] _ _ _ [H2 _] _ _].
  cbn in Hs. destruct ((max_u64 <? a2) || (max_u64 <? b2)); [discriminate|]. inversion Hs; subst.
  cbn in *. specialize (H2 r Hin). destruct (iv_kind r); cbn; lia.
Qed.

End Failing.

(** * the code before the repair: an older pair of counters written last (F23) *)
Definition f23_reqs : list req := [ {| r_kind := KTs; r_count := 1 |}; {| r_kind := KTs; r_count := 1 |} ].
Definition f23_schedule : list label :=
  [Th 0; Th 0; Th 0; Th 1; Th 1; Th 1; Th 1; Th 0; Crash 1 1 [ {| r_kind := KTs; r_count := 1 |} ]; Th 0]%nat.

Theorem pd_unfixed_refuted :
  exists a b reqs sched,
    let g := run (tstep false (fun _ => false)) (init a b reqs) sched in
    exists r f c, In r (g_resp_old g) /\ In (f, c) (rlog g (iv_kind r)) /\ f <= iv_end r.
Proof.
  exists 1, 1, f23_reqs, f23_schedule. cbv zeta.
  exists (KTs, 2, 1), 2, 1. vm_compute. split; [right; left; reflexivity|]. split; [left; reflexivity|].
  discriminate.
Qed.

Example pd_fixed_on_f23 :
  let g := run (tstep true (fun _ => false)) (init 1 1 f23_reqs) f23_schedule in
  g_resp_old g = [] /\ g_log_ts g = [(1, 1)].
Proof. vm_compute. split; reflexivity. Qed.

(** * oracles *)
Lemma kind_eqb_eq a b : kind_eqb a b = true <-> a = b.
Proof. destruct a, b; cbn; split; congruence. Qed.

Lemma disjoint_from_b_spec r rs : disjoint_from_b r rs = true <-> disjoint_from r rs.
Proof.
  unfold disjoint_from_b, disjoint_from. rewrite forallb_forall. split.
  - intros H r' Hin Hk. specialize (H r' Hin). apply kind_eqb_eq in Hk. rewrite Hk in H. cbn in H. lia.
  - intros H r' Hin. destruct (kind_eqb (iv_kind r') (iv_kind r)) eqn:E; [|reflexivity].
    apply kind_eqb_eq in E. specialize (H r' Hin E). cbn. lia.
Qed.

Lemma covered_b_spec a b rs : covered_b a b rs = true <-> covered a b rs.
Proof.
  unfold covered_b, covered. rewrite forallb_forall. split; intros H r Hin; specialize (H r Hin); lia.
Qed.

Lemma above_b_spec r rs : above_b r rs = true <-> above r rs.
Proof.
  unfold above_b, above. rewrite forallb_forall. split.
  - intros H r' Hin Hk. specialize (H r' Hin). apply kind_eqb_eq in Hk. rewrite Hk in H. cbn in H. lia.
  - intros H r' Hin. destruct (kind_eqb (iv_kind r') (iv_kind r)) eqn:E; [|reflexivity].
    apply kind_eqb_eq in E. specialize (H r' Hin E). cbn. lia.
Qed.

Lemma trace_ok_b_spec tr : forall seen, trace_ok_b seen tr = true <-> trace_ok seen tr.
Proof.
  induction tr as [|[[ci ct] o] r IH]; intros seen; cbn; [tauto|].
  rewrite !andb_true_iff, covered_b_spec, IH. destruct o as [x|].
  - rewrite andb_true_iff, disjoint_from_b_spec, N.leb_le. tauto.
  - tauto.
Qed.

Lemma restart_ok_b_spec rs : forall seen, restart_ok_b seen rs = true <-> restart_ok seen rs.
Proof.
  induction rs as [|x r IH]; intros seen; cbn; [tauto|].
  rewrite !andb_true_iff, above_b_spec, IH, N.leb_le. tauto.
Qed.

(** Proofs for C06 (iterators).

    Part A: the merge iterator.  For sorted sources the tree of two-way merges
    yields a sorted stream that contains, of every internal key present in
    some source, exactly the copy of the first source holding it ([owner]).
    Under the LSM ordering invariant that copy is the most recent write, and a
    seek on the merged stream answers like the point read [get]. *)
From Coq Require Import List Arith NArith Bool Lia Sorting.Sorted.
From NoKV Require Import Base.Bytes Base.Num Model.Keys Model.Lsm Spec.MvccSpec Proofs.LsmOrder Spec.LsmSpec
     Proofs.LsmRead Proofs.LsmGet Proofs.LsmMain Proofs.LsmInv Proofs.LsmPreserve Proofs.LsmCompact
     Model.LsmIter Spec.IterSpec.
Import ListNotations.
Local Open Scope N_scope.

(** * The forward two-way merge is [merge2] *)
Lemma gmerge_fuel_rcmp f : forall a b, gmerge_fuel rcmp f a b = merge2_fuel f a b.
Proof.
  induction f as [|f IH]; intros a b; cbn [gmerge_fuel merge2_fuel]; [reflexivity|].
  destruct a as [|x a']; [reflexivity|]. destruct b as [|y b']; [reflexivity|].
  destruct (rcmp x y); now rewrite IH.
Qed.
Lemma gmerge_rcmp a b : gmerge rcmp a b = merge2 a b.
Proof. apply gmerge_fuel_rcmp. Qed.

(** * [owner]: the copy of an internal key held by the first source that has one *)
Definition ik_eqb (x y : rec) : bool := match rcmp y x with Eq => true | _ => false end.

Fixpoint owner (x : rec) (srcs : list (list rec)) : option rec :=
  match srcs with
  | [] => None
  | a :: T => match find (ik_eqb x) a with Some y => Some y | None => owner x T end
  end.

Lemma ik_eqb_spec x y : ik_eqb x y = true <-> r_key y = r_key x /\ r_ver y = r_ver x.
Proof.
  unfold ik_eqb. destruct (rcmp y x) eqn:E.
  - apply rcmp_eq in E. tauto.
  - split; [discriminate|]. intro H. apply rcmp_eq in H. congruence.
  - split; [discriminate|]. intro H. apply rcmp_eq in H. congruence.
Qed.

Lemma ik_eqb_refl x : ik_eqb x x = true.
Proof. apply ik_eqb_spec. auto. Qed.

Lemma ik_eqb_congr x x' y : ik_eqb x x' = true -> ik_eqb x y = ik_eqb x' y.
Proof.
  intro H. apply ik_eqb_spec in H as [Hk Hv].
  destruct (ik_eqb x y) eqn:E1, (ik_eqb x' y) eqn:E2; try reflexivity.
  - apply ik_eqb_spec in E1 as [E1 E1']. assert (ik_eqb x' y = true) by (apply ik_eqb_spec; split; congruence). congruence.
  - apply ik_eqb_spec in E2 as [E2 E2']. assert (ik_eqb x y = true) by (apply ik_eqb_spec; split; congruence). congruence.
Qed.

Lemma find_ext {A} (f g : A -> bool) l : (forall x, f x = g x) -> find f l = find g l.
Proof. intro H. induction l as [|x l IH]; cbn [find]; [reflexivity|]. rewrite H, IH. reflexivity. Qed.

Lemma owner_congr x x' srcs : ik_eqb x x' = true -> owner x srcs = owner x' srcs.
Proof.
  intro H. induction srcs as [|a T IH]; cbn [owner]; [reflexivity|].
  rewrite (find_ext (ik_eqb x) (ik_eqb x') a (fun y => ik_eqb_congr x x' y H)), IH. reflexivity.
Qed.

Lemma owner_app x A B : owner x (A ++ B) = match owner x A with Some y => Some y | None => owner x B end.
Proof.
  induction A as [|a A IH]; cbn [app owner]; [reflexivity|].
  destruct (find (ik_eqb x) a); [reflexivity | exact IH].
Qed.

Lemma owner_some x srcs y : owner x srcs = Some y -> In y (concat srcs) /\ ik_eqb x y = true.
Proof.
  induction srcs as [|a T IH]; cbn [owner concat]; [discriminate|].
  destruct (find (ik_eqb x) a) as [z|] eqn:E.
  - intro H. injection H as <-. apply find_some in E as [Hin He]. split; [apply in_or_app; now left | exact He].
  - intro H. destruct (IH H) as [Hin He]. split; [apply in_or_app; now right | exact He].
Qed.

Lemma owner_none x srcs : owner x srcs = None -> forall y, In y (concat srcs) -> ik_eqb x y = false.
Proof.
  induction srcs as [|a T IH]; cbn [owner concat]; [intros _ y []|].
  destruct (find (ik_eqb x) a) as [z|] eqn:E; [discriminate|].
  intros H y Hy. apply in_app_or in Hy as [Hy|Hy]; [exact (find_none _ _ E y Hy) | now apply IH].
Qed.

Lemma owner_exists x srcs : In x (concat srcs) -> exists y, owner x srcs = Some y.
Proof.
  intro Hx. destruct (owner x srcs) as [y|] eqn:E; [eauto|].
  pose proof (owner_none _ _ E x Hx) as H. rewrite ik_eqb_refl in H. discriminate.
Qed.

Lemma owner_idem x srcs y : owner x srcs = Some y -> owner y srcs = Some y.
Proof.
  intro H. destruct (owner_some _ _ _ H) as [_ He]. now rewrite <- (owner_congr x y srcs He).
Qed.

Lemma find_concat {A} (f : A -> bool) (ls : list (list A)) :
  find f (concat ls) = (fix go (ls : list (list A)) := match ls with [] => None | a :: T => match find f a with Some y => Some y | None => go T end end) ls.
Proof.
  induction ls as [|a T IH]; cbn [concat]; [reflexivity|].
  induction a as [|z a IHa]; cbn [app find]; [exact IH|]. destruct (f z); [reflexivity | exact IHa].
Qed.

Lemma owner_concat_one x ls : owner x [concat ls] = owner x ls.
Proof.
  cbn [owner]. rewrite find_concat. induction ls as [|a T IH]; cbn [owner]; [reflexivity|].
  destruct (find (ik_eqb x) a); [reflexivity | exact IH].
Qed.

(** In a sorted source, the copy found for [x] is [x] itself when [x] is in it. *)
Lemma find_self x a : sorted a -> In x a -> find (ik_eqb x) a = Some x.
Proof.
  intros Hs Hx. destruct (find (ik_eqb x) a) as [y|] eqn:E.
  - apply find_some in E as [Hy He]. apply ik_eqb_spec in He as [Hk Hv]. f_equal. now apply (sorted_unique a).
  - pose proof (find_none _ _ E x Hx) as H. rewrite ik_eqb_refl in H. discriminate.
Qed.

(** * Membership in a merge *)
Lemma merge2_char a b x :
  sorted a -> sorted b ->
  (In x (merge2 a b) <-> In x a \/ (In x b /\ find (ik_eqb x) a = None)).
Proof.
  intros Ha Hb. split.
  - intro H. destruct (find (ik_eqb x) a) as [y|] eqn:E.
    + left. apply find_some in E as [Hy He]. apply ik_eqb_spec in He as [Hk Hv].
      assert (y = x) as <-; [|exact Hy].
      apply (sorted_unique (merge2 a b)); [now apply merge2_sorted | now apply merge2_left | exact H | exact Hk | exact Hv].
    + apply merge2_in in H as [H|H]; [now left | right; now split].
  - intros [H|[H E]]; [now apply merge2_left|].
    destruct (merge2_right a b x H) as [H'|(y & Hy & He)]; [exact H'|].
    pose proof (find_none _ _ E y Hy) as Hn. unfold ik_eqb in Hn. rewrite He in Hn. discriminate.
Qed.

Definition owns (srcs : list (list rec)) (l : list rec) : Prop :=
  sorted l /\ forall x, In x l <-> owner x srcs = Some x.

Lemma owns_single a : sorted a -> owns [a] a.
Proof.
  intro Hs. split; [exact Hs|]. intro x. cbn [owner]. split.
  - intro Hx. now rewrite (find_self x a Hs Hx).
  - destruct (find (ik_eqb x) a) as [y|] eqn:E; [|discriminate]. intro H. injection H as ->.
    now apply find_some in E as [Hy _].
Qed.

Lemma owns_nil : owns [] [].
Proof. split; [constructor|]. intro x. cbn. split; [intros [] | discriminate]. Qed.

Lemma owns_merge A B la lb : owns A la -> owns B lb -> owns (A ++ B) (merge2 la lb).
Proof.
  intros [Hsa Ha] [Hsb Hb]. split; [now apply merge2_sorted|].
  intro x. rewrite (merge2_char la lb x Hsa Hsb), owner_app, Ha, Hb.
  assert (Hn : find (ik_eqb x) la = None <-> owner x A = None).
  { split.
    - intro E. destruct (owner x A) as [y|] eqn:Eo; [|reflexivity].
      pose proof (owner_idem _ _ _ Eo) as Hy. apply Ha in Hy.
      destruct (owner_some _ _ _ Eo) as [_ He]. pose proof (find_none _ _ E y Hy). congruence.
    - intro Eo. destruct (find (ik_eqb x) la) as [y|] eqn:E; [|reflexivity].
      apply find_some in E as [Hy He]. apply Ha in Hy. rewrite <- (owner_congr x y A He), Eo in Hy. discriminate. }
  destruct (owner x A) as [y|] eqn:Eo.
  - split; [intros [H|[_ H]]; [exact H | apply Hn in H; discriminate] | intro H; now left].
  - split; [intros [H|[H _]]; [discriminate | exact H] | intro H; right; split; [exact H | now apply Hn]].
Qed.

Lemma div2_lt n : (2 <= n -> 1 <= Nat.div2 n /\ Nat.div2 n < n)%nat.
Proof.
  intro H. destruct n as [|[|n]]; [lia | lia|]. cbn [Nat.div2]. split; [lia|].
  pose proof (Nat.div2_decr n (S n)). assert (Nat.div2 n <= n)%nat by (apply Nat.div2_decr; lia). lia.
Qed.

Lemma mtree_fuel_owns f : forall srcs,
  (length srcs <= f)%nat -> Forall sorted srcs -> owns srcs (mtree_fuel rcmp f srcs).
Proof.
  induction f as [|f IH]; intros srcs Hl Hs.
  - destruct srcs; [apply owns_nil | cbn in Hl; lia].
  - cbn [mtree_fuel]. destruct srcs as [|a [|b [|c T]]].
    + apply owns_nil.
    + inversion Hs; subst. now apply owns_single.
    + inversion Hs as [|? ? Ha Hs']; subst. inversion Hs' as [|? ? Hb _]; subst.
      rewrite gmerge_rcmp. change [a; b] with ([a] ++ [b]). apply owns_merge; now apply owns_single.
    + set (l := a :: b :: c :: T) in *. rewrite gmerge_rcmp.
      assert (Hlen : (2 <= length l)%nat) by (cbn; lia).
      destruct (div2_lt _ Hlen) as [H1 H2].
      rewrite <- (firstn_skipn (Nat.div2 (length l)) l) at 1.
      apply owns_merge; apply IH.
      * rewrite firstn_length. lia.
      * rewrite <- (firstn_skipn (Nat.div2 (length l)) l) in Hs. now apply Forall_app in Hs as [Hs _].
      * rewrite skipn_length. lia.
      * rewrite <- (firstn_skipn (Nat.div2 (length l)) l) in Hs. now apply Forall_app in Hs as [_ Hs].
Qed.

Theorem mtree_owns srcs : Forall sorted srcs -> owns srcs (mtree rcmp srcs).
Proof. intro H. apply mtree_fuel_owns; [lia | exact H]. Qed.

(** The first holder is the most recent copy when sources are listed by recency. *)
Lemma owner_recent srcs x :
  Forall sorted srcs -> within_ok srcs -> owner x srcs = Some x ->
  forall y, In y (concat srcs) -> r_key y = r_key x -> r_ver y = r_ver x -> r_seq y <= r_seq x.
Proof.
  induction srcs as [|a T IH]; intros Hs Hw Ho y Hy Hk Hv; [contradiction|].
  inversion Hs as [|? ? Ha HT]; subst. apply within_ok_cons in Hw as [Hb Hw].
  cbn [owner] in Ho. cbn [concat] in Hy. destruct (find (ik_eqb x) a) as [z|] eqn:E.
  - injection Ho as ->. apply find_some in E as [Hx _].
    apply in_app_or in Hy as [Hy|Hy].
    + assert (y = x) as -> by (now apply (sorted_unique a)). lia.
    + apply Hb; auto.
  - apply in_app_or in Hy as [Hy|Hy].
    + pose proof (find_none _ _ E y Hy) as Hn.
      assert (ik_eqb x y = true) by (apply ik_eqb_spec; auto). congruence.
    + now apply IH.
Qed.

(** * The sources of an LSM state *)

Lemma tier_inv_flat tiers : tier_inv tiers -> Forall sorted (concat tiers) /\ within_ok (concat tiers).
Proof.
  induction tiers as [|t R IH]; intro H.
  - split; [constructor | apply within_ok_nil].
  - apply tier_inv_cons in H as ((Hs & _ & Hw) & Hg & HR). destruct (IH HR) as [IH1 IH2].
    cbn [concat]. split; [apply Forall_app; now split|].
    apply within_ok_app. split; [exact Hw|]. split; [exact IH2|].
    apply recs_geq_src_before. exact Hg.
Qed.

Lemma main_concat_sorted ts :
  Forall (fun t => sorted (t_recs t)) ts -> main_disjoint ts -> sorted (concat (map t_recs ts)).
Proof.
  induction ts as [|t ts IH]; intros Hs Hd; cbn [map concat]; [constructor|].
  inversion Hs as [|? ? Ht Hts]; subst. destruct Hd as (Hne & Hf & Hd).
  apply ssorted_app; [exact Ht | now apply IH|].
  intros x y Hx Hy. apply in_concat in Hy as (l & Hl & Hy). apply in_map_iff in Hl as (u & <- & Hu).
  rewrite Forall_forall in Hf, Hts. specialize (Hf u Hu). specialize (Hts u Hu).
  destruct (table_key_bounds t x Ht Hx) as [_ Hx2]. destruct (table_key_bounds u y Hts Hy) as [Hy1 _].
  pose proof (bytes_ltb_leb_trans _ _ _ (bytes_leb_ltb_trans _ _ _ Hx2 Hf) Hy1) as Hlt.
  unfold rlt, rcmp. apply kcmp_lt. left. unfold bytes_ltb in Hlt.
  destruct (bytes_cmp (r_key x) (r_key y)); [discriminate | reflexivity | discriminate].
Qed.

Lemma level_iters_sorted lv :
  Forall (Forall (fun t => sorted (t_recs t))) (lv_shards lv) ->
  Forall (fun t => sorted (t_recs t)) (lv_main lv) -> main_disjoint (lv_main lv) ->
  Forall sorted (level_iters lv).
Proof.
  intros Hsh Hm Hd. unfold level_iters. apply Forall_app. split.
  - apply Forall_forall. intros l Hl. apply in_map_iff in Hl as (t & <- & Ht).
    apply in_concat in Ht as (sh & Hsh' & Ht). apply in_map_iff in Hsh' as (sh0 & <- & Hsh0).
    rewrite Forall_forall in Hsh. specialize (Hsh sh0 Hsh0). rewrite Forall_forall in Hsh.
    apply Hsh. now apply in_rev.
  - destruct (lv_main lv) as [|t ts] eqn:E; [constructor|].
    constructor; [|constructor]. now apply main_concat_sorted.
Qed.

Lemma lsm_sources_sorted s : src_inv s -> Forall sorted (lsm_sources current s).
Proof.
  intros [Hm Hi Hl0 Hlv _]. unfold lsm_sources. cbn [fix_imm_order current].
  repeat (apply Forall_app; split).
  - now constructor.
  - apply Forall_forall. intros l Hl. apply in_map_iff in Hl as (m & <- & Hm').
    rewrite Forall_forall in Hi. apply Hi. now apply in_rev.
  - apply Forall_forall. intros l Hl. apply in_map_iff in Hl as (t & <- & Ht).
    rewrite Forall_forall in Hl0. apply Hl0. now apply in_rev.
  - apply Forall_forall. intros l Hl. apply in_concat in Hl as (ls & Hls & Hl).
    apply in_map_iff in Hls as (lv & <- & Hlv').
    rewrite Forall_forall in Hlv. destruct (Hlv lv Hlv') as (H1 & H2 & H3).
    pose proof (level_iters_sorted lv H1 H2 H3) as Hf. rewrite Forall_forall in Hf. now apply Hf.
Qed.

Lemma owner_level x lv : owner x (level_iters lv) = owner x (level_srcs lv).
Proof.
  unfold level_iters, level_srcs. rewrite map_app, !owner_app.
  destruct (owner x (map t_recs (concat (map (@rev table) (lv_shards lv))))); [reflexivity|].
  destruct (lv_main lv) as [|t ts]; [reflexivity|]. apply owner_concat_one.
Qed.

Lemma owner_levels x lvls : owner x (concat (map level_iters lvls)) = owner x (concat (map level_srcs lvls)).
Proof.
  induction lvls as [|lv L IH]; cbn [map concat]; [reflexivity|].
  now rewrite !owner_app, owner_level, IH.
Qed.

Lemma concat_map_single {A B} (f : A -> B) l : concat (map (fun m => [f m]) l) = map f l.
Proof. induction l as [|m l IH]; cbn [map concat app]; [reflexivity|]. now rewrite IH. Qed.

Lemma concat_tiers_of s :
  concat (tiers_of s) = [st_mem s] ++ map snd (rev (st_imms s)) ++ map t_recs (rev (st_l0 s)) ++ concat (map level_srcs (st_lvls s)).
Proof.
  unfold tiers_of. rewrite !concat_app, concat_map_single. cbn [concat app]. rewrite app_nil_r. reflexivity.
Qed.

Lemma owner_sources x s : owner x (lsm_sources current s) = owner x (concat (tiers_of s)).
Proof.
  rewrite concat_tiers_of. unfold lsm_sources. cbn [fix_imm_order current].
  rewrite !owner_app, owner_levels. reflexivity.
Qed.

(** The forward merged stream of a state. *)
Definition fstream (s : state) : list rec := mtree rcmp (lsm_sources current s).

Lemma lsm_pos_rewind_fwd l : lsm_pos false PRewind l = l.
Proof. reflexivity. Qed.

Lemma db_stream_fwd s : db_stream current s false PRewind = fstream s.
Proof. unfold db_stream, fstream. cbn [dcmp]. f_equal. rewrite <- (map_id (lsm_sources current s)) at 2. reflexivity. Qed.

Record iter_inv (s : state) : Prop := {
  ii_src : src_inv s;
  ii_tier : tier_inv (tiers_of s) }.

Lemma fstream_sorted s : iter_inv s -> sorted (fstream s).
Proof. intros [Hs _]. exact (proj1 (mtree_owns _ (lsm_sources_sorted s Hs))). Qed.

Lemma fstream_in s x : iter_inv s -> (In x (fstream s) <-> owner x (concat (tiers_of s)) = Some x).
Proof. intros [Hs _]. rewrite <- owner_sources. exact (proj2 (mtree_owns _ (lsm_sources_sorted s Hs)) x). Qed.

Lemma fstream_sound s x : iter_inv s -> In x (fstream s) -> In x (all_recs (tiers_of s)).
Proof. intros Hi Hx. apply (fstream_in s x Hi) in Hx. now apply owner_some in Hx as [Hx _]. Qed.

(** Every stored record is represented by the most recent copy of its internal key. *)
Lemma fstream_repr s y :
  iter_inv s -> In y (all_recs (tiers_of s)) ->
  exists x, In x (fstream s) /\ r_key x = r_key y /\ r_ver x = r_ver y /\ r_seq y <= r_seq x.
Proof.
  intros Hi Hy. destruct (owner_exists y (concat (tiers_of s)) Hy) as [x Ho].
  pose proof (owner_idem _ _ _ Ho) as Hx. destruct (owner_some _ _ _ Ho) as [_ He].
  apply ik_eqb_spec in He as [Hk Hv]. exists x. split; [now apply (fstream_in s x Hi)|].
  split; [exact Hk|]. split; [exact Hv|].
  destruct (tier_inv_flat _ (ii_tier s Hi)) as [Hs Hw].
  apply (owner_recent (concat (tiers_of s)) x Hs Hw Hx y Hy); congruence.
Qed.

Lemma fstream_recent s x y :
  iter_inv s -> In x (fstream s) -> In y (all_recs (tiers_of s)) ->
  r_key y = r_key x -> r_ver y = r_ver x -> r_seq y <= r_seq x.
Proof.
  intros Hi Hx Hy. destruct (tier_inv_flat _ (ii_tier s Hi)) as [Hs Hw].
  apply (owner_recent (concat (tiers_of s)) x Hs Hw); [now apply (fstream_in s x Hi) | exact Hy].
Qed.

(** A seek on the merged stream finds the latest write at or below the version. *)
Theorem fstream_latest s k v : iter_inv s -> is_latest (all_recs (tiers_of s)) k v (src_search k v (fstream s)).
Proof.
  intro Hi. pose proof (fstream_sorted s Hi) as Hs.
  destruct (src_search k v (fstream s)) as [x|] eqn:E; cbn [is_latest].
  - destruct (src_search_some _ _ _ _ Hs E) as (Hin & Hc & Hmax).
    split; [now apply fstream_sound|]. split; [exact Hc|].
    intros y Hy Hyc. destruct (fstream_repr s y Hi Hy) as (x' & Hx' & Hk & Hv & Hq).
    assert (Hc' : is_cand k v x') by (destruct Hyc; split; congruence || lia).
    pose proof (Hmax x' Hx' Hc') as Hle. unfold geq.
    destruct (N.eq_dec (r_ver x') (r_ver x)) as [Ev|Nv]; [|left; lia].
    right. assert (x' = x) as ->.
    { apply (sorted_unique (fstream s)); auto. destruct Hc, Hc'. congruence. }
    split; [lia | exact Hq].
  - intros y Hy Hyc. destruct (fstream_repr s y Hi Hy) as (x' & Hx' & Hk & Hv & _).
    apply (src_search_none _ _ _ Hs E x' Hx'). destruct Hyc. split; congruence || lia.
Qed.

(** ... hence it answers exactly like the point read. *)
Theorem fstream_get s k v :
  iter_inv s -> seq_functional (all_recs (tiers_of s)) -> src_search k v (fstream s) = get s k v.
Proof.
  intros Hi Hf. rewrite (get_is_tget s k v (ii_src s Hi)).
  eapply is_latest_unique; [exact Hf | now apply fstream_latest | apply tget_latest, (ii_tier s Hi)].
Qed.

Theorem stream_get s k v :
  iter_inv s -> seq_functional (all_recs (tiers_of s)) ->
  src_search k v (db_stream current s false PRewind) = get s k v.
Proof. rewrite db_stream_fwd. apply fstream_get. Qed.
